(* FSE table descriptions: what the writer model emits is read back by R's read_ncount. *)
From Coq Require Import NArith ZArith List Bool Lia.
From ZV.Codec Require Import Bytes ListLemmas Fse Huf Block LzProofs Encode EncodeProofs.
From ZV.Codec Require Import EncodeFse.
Import ListNotations.
Local Open Scope N_scope.

(* ---------- forward bit fields ---------- *)
Lemma bits_lsb_length n : forall v, length (bits_lsb n v) = n.
Proof. induction n as [|n IH]; intros v; cbn [bits_lsb length]; [reflexivity|]. rewrite IH. reflexivity. Qed.

Lemma bits_val_lsb_bits_lsb n : forall v, bits_val_lsb (bits_lsb n v) = v mod 2 ^ N.of_nat n.
Proof.
  induction n as [|n IH]; intros v; cbn [bits_lsb bits_val_lsb].
  - change (N.of_nat 0) with 0. rewrite N.pow_0_r, N.mod_1_r. reflexivity.
  - rewrite IH, Nat2N.inj_succ, N.pow_succ_r', N.div2_div.
    rewrite (N.mod_mul_r v 2 (2 ^ N.of_nat n)) by (try apply N.pow_nonzero; discriminate).
    rewrite <- N.bit0_mod, N.bit0_odd. destruct (N.odd v); cbn [N.b2n]; lia.
Qed.

Lemma ftake_app n : forall (a r : list bool), length a = n -> ftake n (a ++ r) = (a, r).
Proof.
  induction n as [|n IH]; intros a r H.
  - destruct a; [reflexivity|discriminate].
  - destruct a as [|x a]; [discriminate|]. cbn [app ftake]. rewrite IH by (cbn [length] in H; lia). reflexivity.
Qed.

Lemma fread_bits n v r pos : v < 2 ^ n ->
  fread n (bits_lsb (N.to_nat n) v ++ r, pos) = (v, (r, pos + n)).
Proof.
  intros Hv. unfold fread. cbn [fst snd]. rewrite ftake_app by apply bits_lsb_length.
  rewrite bits_val_lsb_bits_lsb, N2Nat.id, N.mod_small by exact Hv. reflexivity.
Qed.

(* the first k bits of an (k+1)-bit field are the k-bit field of the value modulo 2^k *)
Lemma bits_lsb_snoc k : forall v, bits_lsb (S k) v = bits_lsb k v ++ [N.testbit v (N.of_nat k)].
Proof.
  induction k as [|k IH]; intros v.
  - cbn [bits_lsb app]. rewrite N.bit0_odd. reflexivity.
  - change (bits_lsb (S (S k)) v) with (N.odd v :: bits_lsb (S k) (N.div2 v)). rewrite IH.
    cbn [bits_lsb app]. f_equal. f_equal. f_equal. rewrite Nat2N.inj_succ, N.div2_spec, N.shiftr_spec', N.add_1_r. reflexivity.
Qed.

Lemma fread_peek n v r pos : 1 <= n ->
  fst (fread (n - 1) (bits_lsb (N.to_nat n) v ++ r, pos)) = v mod 2 ^ (n - 1).
Proof.
  intros Hn. replace (N.to_nat n) with (S (N.to_nat (n - 1))) by lia. rewrite bits_lsb_snoc, <- app_assoc.
  unfold fread. cbn [fst snd]. rewrite ftake_app by apply bits_lsb_length. cbn [fst].
  rewrite bits_val_lsb_bits_lsb, N2Nat.id. reflexivity.
Qed.

(* ---------- one count ---------- *)
Definition wcount (remaining threshold nbBits : N) (c : Z) : N * N :=   (* value written, number of bits *)
  let max := (2 * threshold - 1) - remaining in
  let v0 := Z.to_N (c + 1) in
  let v := if threshold <=? v0 then v0 + max else v0 in
  (v, if v <? max then nbBits - 1 else nbBits).

Lemma read_count_wcount remaining k c r pos :
  let threshold := 2 ^ k in let nbBits := k + 1 in
  threshold <= remaining -> remaining <= 2 * threshold - 1 ->
  (-1 <= c)%Z -> (Z.to_N (c + 1) <= remaining) ->
  let '(v, nb) := wcount remaining threshold nbBits c in
  read_count remaining threshold nbBits (bits_lsb (N.to_nat nb) v ++ r, pos) = (c, (r, pos + nb)).
Proof.
  intros threshold nbBits H1 H2 Hc Hv0. unfold wcount.
  set (max := 2 * threshold - 1 - remaining). set (v0 := Z.to_N (c + 1)) in *.
  assert (Hmax : max < threshold) by (unfold max; lia).
  assert (Pt : 0 < threshold) by (unfold threshold; apply N.neq_0_lt_0, N.pow_nonzero; discriminate).
  assert (Ec : (Z.of_N v0 - 1 = c)%Z) by (unfold v0; lia).
  assert (E2 : 2 ^ nbBits = 2 * threshold) by (unfold nbBits, threshold; rewrite N.add_1_r, N.pow_succ_r'; reflexivity).
  assert (E1 : nbBits - 1 = k) by (unfold nbBits; lia).
  unfold read_count. fold max.
  destruct (N.leb_spec threshold v0) as [Hge|Hlt].
  - (* v = v0 + max, full width *)
    assert (Hv : v0 + max < 2 * threshold) by (unfold max; lia).
    destruct (N.ltb_spec (v0 + max) max) as [|_]; [lia|].
    pose proof (fread_peek nbBits (v0 + max) r pos ltac:(unfold nbBits; lia)) as Pk.
    set (pk := fread (nbBits - 1) (bits_lsb (N.to_nat nbBits) (v0 + max) ++ r, pos)) in *.
    destruct pk as [low s0]. cbn [fst] in Pk. rewrite E1 in Pk.
    assert (Elow : low = v0 + max - threshold).
    { rewrite Pk. fold threshold. symmetry. apply (N.mod_unique (v0 + max) threshold 1); lia. }
    destruct (N.ltb_spec low max) as [|_]; [lia|].
    rewrite fread_bits by (rewrite E2; exact Hv).
    destruct (N.leb_spec threshold (v0 + max)) as [_|]; [|lia].
    replace (v0 + max - max) with v0 by lia. rewrite Ec. reflexivity.
  - destruct (N.ltb_spec v0 max) as [Hs|Hl].
    + (* short form *)
      rewrite E1.
      pose proof (fread_bits k v0 r pos ltac:(fold threshold; lia)) as F. rewrite F.
      destruct (N.ltb_spec v0 max) as [_|]; [|lia]. rewrite Ec. reflexivity.
    + pose proof (fread_peek nbBits v0 r pos ltac:(unfold nbBits; lia)) as Pk.
      set (pk := fread (nbBits - 1) (bits_lsb (N.to_nat nbBits) v0 ++ r, pos)) in *.
      destruct pk as [low s0]. cbn [fst] in Pk. rewrite E1 in Pk.
      assert (Elow : low = v0) by (rewrite Pk; fold threshold; apply N.mod_small; lia).
      destruct (N.ltb_spec low max) as [|_]; [lia|].
      rewrite fread_bits by (rewrite E2; lia).
      destruct (N.leb_spec threshold v0) as [|_]; [lia|]. rewrite Ec. reflexivity.
Qed.

(* ---------- zero runs ---------- *)
Lemma read_repeats_codes : forall f1 f2 n acc r pos, (N.to_nat (n / 3) < f1)%nat -> (N.to_nat (n / 3) < f2)%nat ->
  read_repeats f2 (repeat_codes f1 n ++ r, pos) acc = (acc + n, (r, pos + 2 * (n / 3 + 1))).
Proof.
  induction f1 as [|f1 IH]; intros f2 n acc r pos H1 H2; [lia|].
  destruct f2 as [|f2]; [lia|]. cbn [repeat_codes read_repeats].
  destruct (N.leb_spec 3 n) as [H3|H3].
  - change (true :: true :: repeat_codes f1 (n - 3)) with (bits_lsb 2 3 ++ repeat_codes f1 (n - 3)). rewrite <- app_assoc.
    rewrite (fread_bits 2 3) by (vm_compute; reflexivity). cbn [N.eqb Pos.eqb].
    assert (E : (n - 3) / 3 = n / 3 - 1).
    { replace n with ((n - 3) + 1 * 3) at 2 by lia. rewrite N.div_add by discriminate. lia. }
    assert (Q : 1 <= n / 3) by (apply N.div_le_lower_bound; lia).
    rewrite IH by (rewrite E; lia). rewrite E.
    replace (acc + 3 + (n - 3)) with (acc + n) by lia. replace (pos + 2 + 2 * (n / 3 - 1 + 1)) with (pos + 2 * (n / 3 + 1)) by lia. reflexivity.
  - rewrite (fread_bits 2 n) by (change (2 ^ 2) with 4; lia).
    destruct (N.eqb_spec n 3); [lia|]. rewrite N.div_small by exact H3. reflexivity.
Qed.

Lemma zero_run_spec counts : let '(n, r) := zero_run counts in
  counts = repeat 0%Z (N.to_nat n) ++ r /\ lenN counts = n + lenN r /\ match r with c :: _ => c <> 0%Z | [] => True end.
Proof.
  induction counts as [|c t IH]; cbn [zero_run]; [repeat split|].
  destruct (Z.eqb_spec c 0) as [->|Hc].
  - destruct (zero_run t) as [n r]. destruct IH as (E1 & E2 & E3). split; [|split; [|exact E3]].
    + replace (N.to_nat (n + 1)) with (S (N.to_nat n)) by lia. cbn [repeat app]. rewrite <- E1. reflexivity.
    + rewrite lenN_cons. lia.
  - cbn [N.to_nat repeat app]. split; [reflexivity|]. split; [lia|exact Hc].
Qed.

(* ---------- the loop ---------- *)
Lemma repeat_codes_len : forall f n, (N.to_nat (n / 3) < f)%nat -> lenN (repeat_codes f n) = 2 * (n / 3 + 1).
Proof.
  induction f as [|f IHf]; intros n Hf; [lia|]. cbn [repeat_codes]. destruct (N.leb_spec 3 n) as [H3|H3].
  - rewrite !lenN_cons. assert (E : (n - 3) / 3 = n / 3 - 1) by (replace n with ((n - 3) + 1 * 3) at 2 by lia; rewrite N.div_add by discriminate; lia).
    rewrite IHf by (rewrite E; lia). rewrite E. assert (1 <= n / 3) by (apply N.div_le_lower_bound; lia). lia.
  - rewrite N.div_small by exact H3. reflexivity.
Qed.

Lemma wloop_read : forall fw counts rem k prev0 acc_w bits,
  1 < rem -> 2 ^ k <= rem -> rem <= 2 * 2 ^ k - 1 ->
  Forall (fun c => (-1 <= c)%Z) counts -> lenN counts <= 256 -> (prev0 = true -> lenN counts <= 255) ->
  wncount_loop fw counts rem (2 ^ k) (k + 1) prev0 acc_w = Some bits ->
  exists newbits, bits = rev acc_w ++ newbits /\
  forall fr maxSV1 charnum acc_r tail pos, (length counts < fr)%nat -> charnum + lenN counts <= maxSV1 ->
    ncount_loop fr maxSV1 rem (2 ^ k) (k + 1) charnum prev0 (newbits ++ tail, pos) acc_r
    = Ok (rev acc_r ++ counts, 1, (tail, pos + lenN newbits)).
Proof.
  induction fw as [|fw IH]; intros counts rem k prev0 acc_w bits Hr1 Hlo Hhi Hdom H256 H255 Hw; [discriminate|].
  cbn [wncount_loop] in Hw. destruct (N.leb_spec rem 1) as [|_]; [lia|].
  set (zr := if prev0 then let '(n0, r) := zero_run counts in (repeat_codes 100 n0, r) else ([], counts)) in Hw.
  assert (Hz : exists n0 counts1, zr = ((if prev0 then repeat_codes 100 n0 else []), counts1) /\
                 counts = repeat 0%Z (N.to_nat n0) ++ counts1 /\ lenN counts = n0 + lenN counts1 /\ (prev0 = false -> n0 = 0) /\ n0 <= 255).
  { unfold zr. destruct prev0.
    - pose proof (zero_run_spec counts) as Z. destruct (zero_run counts) as [n0 r]. destruct Z as (Z1 & Z2 & _).
      exists n0, r. repeat split; auto; [discriminate|]. specialize (H255 eq_refl). lia.
    - exists 0, counts. repeat split; auto. lia. }
  destruct Hz as (n0 & counts1 & Ez & Ec & El & Hn0 & Hn255). rewrite Ez in Hw. clear zr Ez.
  destruct counts1 as [|c t]; [discriminate|].
  set (max := 2 * 2 ^ k - 1 - rem) in Hw. set (a := Z.to_N (Z.abs c)) in Hw.
  destruct (N.leb_spec rem a) as [|Ha]; [discriminate|].
  assert (Hdc : (-1 <= c)%Z /\ Forall (fun c => (-1 <= c)%Z) t).
  { rewrite Ec in Hdom. apply Forall_app in Hdom. destruct Hdom as (_ & Hd). inversion Hd; auto. }
  destruct Hdc as (Hdc & Hdt).
  set (rem' := rem - a) in *.
  set (v0 := Z.to_N (c + 1)) in Hw.
  set (v := if 2 ^ k <=? v0 then v0 + max else v0) in Hw.
  set (nb := if v <? max then k + 1 - 1 else k + 1) in Hw.
  assert (Hv0 : v0 <= rem) by (unfold v0, a in *; lia).
  pose proof (read_count_wcount rem k c) as RC. cbv zeta in RC. unfold wcount in RC. fold max v0 in RC. fold v in RC. fold nb in RC.
  set (tn := if rem' <? 2 ^ k then let k0 := N.log2 rem' + 1 in (pow2 (k0 - 1), k0) else (2 ^ k, k + 1)) in Hw.
  assert (Hrem' : 1 <= rem') by (unfold rem'; lia).
  assert (Htn : exists k', tn = (2 ^ k', k' + 1) /\ (1 < rem' -> 2 ^ k' <= rem' /\ rem' <= 2 * 2 ^ k' - 1) /\ renorm rem' (2 ^ k) (k + 1) = (2 ^ k', k' + 1)).
  { unfold tn, renorm. destruct (N.ltb_spec rem' (2 ^ k)) as [Hlt|Hge].
    - exists (N.log2 rem'). rewrite pow2_pow. replace (N.log2 rem' + 1 - 1) with (N.log2 rem') by lia. split; [reflexivity|]. split; [|reflexivity].
      intros _. pose proof (N.log2_spec rem' ltac:(lia)) as L. rewrite N.pow_succ_r' in L. lia.
    - exists k. split; [reflexivity|]. split; [|reflexivity]. intros _. unfold rem'. lia. }
  destruct Htn as (k' & Etn & Hinv' & Ernm). rewrite Etn in Hw.
  set (zb := if prev0 then repeat_codes 100 n0 else []) in *.
  set (acc' := rev_append (bits_lsb (N.to_nat nb) v) (rev_append zb acc_w)) in Hw.
  assert (Eacc : rev acc' = rev acc_w ++ zb ++ bits_lsb (N.to_nat nb) v).
  { unfold acc'. rewrite !rev_append_rev, !rev_app_distr, !rev_involutive, <- app_assoc. reflexivity. }
  assert (Lzb : lenN zb = (if prev0 then 2 * (n0 / 3 + 1) else 0)).
  { unfold zb. destruct prev0; [|reflexivity]. apply repeat_codes_len. assert (n0 / 3 <= 85) by (apply N.div_le_upper_bound; lia). lia. }
  (* reader side of this iteration: the optional zero run *)
  assert (Rd : forall charnum (acc_r : list Z) rest pos,
     (if prev0 then let '(n1, s') := read_repeats 256 (zb ++ bits_lsb (N.to_nat nb) v ++ rest, pos) 0 in (charnum + n1, s', repeatN 0%Z n1 acc_r)
      else (charnum, (zb ++ bits_lsb (N.to_nat nb) v ++ rest, pos), acc_r))
     = (charnum + n0, (bits_lsb (N.to_nat nb) v ++ rest, pos + lenN zb), repeatN 0%Z n0 acc_r)).
  { intros charnum acc_r rest pos. rewrite Lzb. unfold zb. destruct prev0.
    - assert (D : n0 / 3 <= 85) by (apply N.div_le_upper_bound; lia).
      rewrite read_repeats_codes by lia. rewrite N.add_0_l. reflexivity.
    - rewrite (Hn0 eq_refl). cbn [app repeatN N.iter]. rewrite !N.add_0_r. reflexivity. }
  (* what the reader appends for this iteration *)
  assert (Eacc2 : forall acc_r : list Z, rev (c :: repeatN 0%Z n0 acc_r) ++ t = rev acc_r ++ counts).
  { intros acc_r. rewrite Ec, repeatN_spec. cbn [rev]. rewrite rev_app_distr, rev_repeat_self, <- !app_assoc. reflexivity. }
  destruct (N.leb_spec rem' 1) as [Hend|Hmore].
  - (* last count *)
    destruct fw as [|fw]; [discriminate|]. cbn [wncount_loop] in Hw. destruct (N.leb_spec rem' 1) as [_|]; [|lia].
    destruct t as [|t0 tr]; [|discriminate]. injection Hw as <-.
    exists (zb ++ bits_lsb (N.to_nat nb) v). split; [rewrite rev'_rev; exact Eacc|].
    intros fr maxSV1 charnum acc_r tail pos Hfr Hch. destruct fr as [|fr]; [lia|].
    cbn [ncount_loop]. rewrite <- app_assoc, Rd.
    rewrite El, lenN_cons, lenN_nil in Hch. destruct (N.leb_spec maxSV1 (charnum + n0)) as [|_]; [lia|].
    rewrite (RC tail (pos + lenN zb) Hlo Hhi Hdc Hv0). fold a. fold rem'.
    destruct (N.leb_spec rem' 1) as [_|]; [|lia].
    rewrite rev'_rev, <- (Eacc2 acc_r), app_nil_r. assert (E1 : rem' = 1) by lia. rewrite E1.
    rewrite lenN_app, (lenN_length (bits_lsb _ _)), bits_lsb_length, N2Nat.id, N.add_assoc. reflexivity.
  - (* more counts follow *)
    destruct Hinv' as (Hlo' & Hhi'); [exact Hmore|].
    assert (Ht : t <> []).
    { intros ->. destruct fw as [|fw]; [discriminate|]. cbn [wncount_loop] in Hw. destruct (N.leb_spec rem' 1) as [|_]; [lia|].
      destruct (Z.eqb c 0); cbn [zero_run] in Hw; discriminate. }
    assert (Lt : lenN counts = n0 + 1 + lenN t) by (rewrite El, lenN_cons; lia).
    destruct (IH t rem' k' (Z.eqb c 0) acc' bits Hmore Hlo' Hhi' Hdt ltac:(lia) ltac:(intros _; lia) Hw) as (nb2 & Eb & Rn).
    exists (zb ++ bits_lsb (N.to_nat nb) v ++ nb2). split; [rewrite Eb, Eacc, <- !app_assoc; reflexivity|].
    intros fr maxSV1 charnum acc_r tail pos Hfr Hch. destruct fr as [|fr]; [lia|].
    cbn [ncount_loop]. rewrite <- !app_assoc, Rd.
    assert (Lt1 : 1 <= lenN t) by (destruct t; [congruence|rewrite lenN_cons; lia]).
    destruct (N.leb_spec maxSV1 (charnum + n0)) as [|_]; [lia|].
    rewrite (RC (nb2 ++ tail) (pos + lenN zb) Hlo Hhi Hdc Hv0). fold a. fold rem'.
    destruct (N.leb_spec rem' 1) as [|_]; [lia|]. rewrite Ernm.
    destruct (N.leb_spec maxSV1 (charnum + n0 + 1)) as [|_]; [lia|].
    rewrite Rn.
    + rewrite Eacc2. rewrite !lenN_app, (lenN_length (bits_lsb _ _)), bits_lsb_length, N2Nat.id, !N.add_assoc. reflexivity.
    + assert (length counts = (N.to_nat n0 + S (length t))%nat) by (rewrite Ec, app_length, repeat_length; reflexivity). lia.
    + lia.
Qed.

(* ---------- bytes ---------- *)
Lemma fbits_acc_spec l : forall acc, fbits_acc l acc = rev acc ++ concat (map byte_bits_lsb l).
Proof.
  induction l as [|b t IH]; intros acc; cbn [fbits_acc map concat].
  - rewrite rev'_rev, app_nil_r. reflexivity.
  - rewrite IH, rev_append_rev, rev_app_distr, rev_involutive, <- app_assoc. reflexivity.
Qed.
Lemma fbits_spec l : fbits l = concat (map byte_bits_lsb l).
Proof. unfold fbits. rewrite fbits_acc_spec. reflexivity. Qed.

Lemma byte_bits_lsb_val8 b0 b1 b2 b3 b4 b5 b6 b7 :
  byte_bits_lsb (bits_val_lsb [b0; b1; b2; b3; b4; b5; b6; b7]) = [b0; b1; b2; b3; b4; b5; b6; b7].
Proof. destruct b0, b1, b2, b3, b4, b5, b6, b7; vm_compute; reflexivity. Qed.

Lemma byte_bits_lsb_partial (l : list bool) : (length l < 8)%nat -> l <> [] ->
  byte_bits_lsb (bits_val_lsb l) = l ++ repeat false (8 - length l).
Proof.
  intros H Hne. do 8 (destruct l as [|? l]; [try congruence; repeat match goal with b : bool |- _ => destruct b end; vm_compute; reflexivity|]).
  cbn [length] in H. lia.
Qed.

(* bits of the packed bytes = the bits, zero padded to a byte boundary; number of bytes = ceil(bits / 8) *)
Lemma pack_fbits_spec : forall m (l : list bool), (length l <= 8 * m)%nat ->
  exists pad, concat (map byte_bits_lsb (pack_fbits l)) = l ++ repeat false pad /\ lenN (pack_fbits l) = (lenN l + 7) / 8.
Proof.
  induction m as [|m IH]; intros l Hl.
  - destruct l; [|cbn [length] in Hl; lia]. exists 0%nat. split; reflexivity.
  - destruct l as [|b0 [|b1 [|b2 [|b3 [|b4 [|b5 [|b6 [|b7 t]]]]]]]].
    1: { exists 0%nat. split; reflexivity. }
    1-7: (eexists; split; [cbn [pack_fbits map concat]; rewrite app_nil_r; apply byte_bits_lsb_partial; [cbn [length]; lia|discriminate]|reflexivity]).
    assert (Ht : (length t <= 8 * m)%nat) by (cbn [length] in Hl; lia).
    destruct (IH t Ht) as (pad & E & L).
    exists pad. cbn [pack_fbits map concat]. rewrite byte_bits_lsb_val8, E. split; [reflexivity|].
    rewrite !lenN_cons, L. clear. set (n := lenN t).
    replace (1 + (1 + (1 + (1 + (1 + (1 + (1 + (1 + n))))))) + 7) with ((n + 7) + 1 * 8) by lia. rewrite N.div_add by discriminate. lia.
Qed.

(* ---------- the description ---------- *)
Theorem read_write_ncount maxSV maxLog log counts d tail :
  write_ncount log counts = Some d ->
  log <= maxLog -> lenN counts <= maxSV + 1 -> lenN counts <= 256 -> Forall (fun c => (-1 <= c)%Z) counts ->
  read_ncount maxSV maxLog (d ++ tail) = Ok (log, counts, lenN d).
Proof.
  intros Hw Hlog Hlen H256 Hdom. unfold write_ncount in Hw.
  destruct (andb (5 <=? log) (log <=? 12)) eqn:E5; [|discriminate].
  apply andb_true_iff in E5. destruct E5 as (L5 & L12). apply N.leb_le in L5. apply N.leb_le in L12.
  destruct (wncount_loop (S (length counts)) counts (pow2 log + 1) (pow2 log) (log + 1) false (rev' (bits_lsb 4 (log - 5)))) as [bits|] eqn:El; [|discriminate].
  injection Hw as <-. rewrite pow2_pow in El.
  assert (P : 2 <= 2 ^ log) by (replace log with (1 + (log - 1)) by lia; rewrite N.pow_add_r; change (2 ^ 1) with 2; pose proof (N.pow_nonzero 2 (log - 1) ltac:(discriminate)); lia).
  assert (Q1 : 1 < 2 ^ log + 1) by lia. assert (Q2 : 2 ^ log <= 2 ^ log + 1) by lia. assert (Q3 : 2 ^ log + 1 <= 2 * 2 ^ log - 1) by lia.
  destruct (wloop_read (S (length counts)) counts (2 ^ log + 1) log false _ _ Q1 Q2 Q3 Hdom H256 ltac:(discriminate) El) as (newbits & Eb & Rn).
  rewrite rev'_rev, rev_involutive in Eb.
  destruct (pack_fbits_spec (length bits) bits ltac:(lia)) as (pad & Ep & Lp).
  unfold read_ncount.
  assert (Hne : pack_fbits bits ++ tail <> []).
  { assert (L1 : 1 <= lenN (pack_fbits bits)).
    { rewrite Lp, Eb, lenN_app, (lenN_length (bits_lsb _ _)), bits_lsb_length. change (N.of_nat 4) with 4. apply N.div_le_lower_bound; [discriminate|lia]. }
    destruct (pack_fbits bits); [rewrite lenN_nil in L1; lia|discriminate]. }
  destruct (pack_fbits bits ++ tail) as [|x0 xs] eqn:Esrc; [congruence|]. rewrite <- Esrc. clear Hne. cbn [negb guard bind].
  rewrite fbits_spec, map_app, concat_app, Ep, Eb, <- !app_assoc.
  rewrite (fread_bits 4 (log - 5)) by (change (2 ^ 4) with 16; lia).
  replace (log - 5 + 5) with log by lia.
  destruct (N.leb_spec log maxLog) as [_|]; [|lia]. cbn [guard bind].
  rewrite pow2_pow.
  rewrite (Rn 600%nat (maxSV + 1) 0 [] _ (0 + 4)) by (try (rewrite lenN_length in H256; lia); lia). cbn [bind rev app].
  rewrite N.eqb_refl. cbn [guard bind].
  assert (Eu : (0 + 4 + lenN newbits + 7) / 8 = lenN (pack_fbits bits)).
  { rewrite Lp, Eb, lenN_app, (lenN_length (bits_lsb _ _)), bits_lsb_length. reflexivity. }
  rewrite <- Eb. rewrite Eu, lenN_app. destruct (N.leb_spec (lenN (pack_fbits bits)) (lenN (pack_fbits bits) + lenN tail)) as [_|]; [|lia].
  cbn [guard bind]. reflexivity.
Qed.

(* as used by the sequences section: FSE_Compressed_Mode (2) with the description written by the model *)
Theorem seq_table_compressed maxSV maxLog deflog defnorm prev log counts d t tail :
  write_ncount log counts = Some d -> build_dtable log counts = Ok t ->
  log <= maxLog -> lenN counts <= maxSV + 1 -> lenN counts <= 256 -> Forall (fun c => (-1 <= c)%Z) counts ->
  seq_table 2 maxSV maxLog deflog defnorm prev (d ++ tail) = Ok (t, tail).
Proof.
  intros Hw Hb H1 H2 H3 H4. unfold seq_table. cbn [N.eqb Pos.eqb].
  rewrite (read_write_ncount maxSV maxLog log counts d tail Hw H1 H2 H3 H4). cbn [bind]. rewrite Hb. cbn [bind].
  rewrite skipN_skipn, lenN_length, Nat2N.id, skipn_app, Nat.sub_diag, skipn_all. reflexivity.
Qed.
