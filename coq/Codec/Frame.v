(* Frames, dictionaries, multi-frame streams: the reference decoder R.
   Written from doc/zstd_compression_format.md.  Model only. *)
From Coq Require Import NArith ZArith List Bool.
From ZV.Codec Require Import Bytes XXH64 Fse Huf Block.
Import ListNotations.
Local Open Scope N_scope.

Definition MAGIC : N := 4247762216.        (* 0xFD2FB528 *)
Definition MAGIC_DICT : N := 3962610743.   (* 0xEC30A437 *)
Definition MAGIC_SKIP : N := 407710288.    (* 0x184D2A50 *)
Definition BLOCK_MAX : N := 131072.

Record config := {
  c_window_max : N;       (* largest window size the caller accepts *)
  c_strict_window : bool; (* enforce offset <= window (format rule) *)
  c_magicless : bool;
  c_check : bool;         (* verify the content checksum *)
  c_block_max : N }.      (* extra limit on block size (ZSTD_d_maxBlockSize), normally BLOCK_MAX *)

Definition default_config : config :=
  {| c_window_max := pow2 31; c_strict_window := true; c_magicless := false; c_check := true; c_block_max := BLOCK_MAX |}.

(* ---------- dictionary ---------- *)
Record dict := { d_id : N; d_content : bytes; d_entropy : option entropy }.

Definition raw_dict (b : bytes) : dict := {| d_id := 0; d_content := b; d_entropy := None |}.

Definition parse_dict (b : bytes) : res dict :=
  match read_le 4 b with
  | None => Ok (raw_dict b)
  | Some (m, r0) =>
    if negb (m =? MAGIC_DICT) then Ok (raw_dict b)
    else if lenN b <? 8 then Ok (raw_dict b)
    else
      do i <- of_opt (read_le 4 r0) Edict 400;
      let '(id, r1) := i in
      do h <- read_huf_table 12 r1;
      let r2 := skipN r1 (snd h) in
      do o <- read_ncount MaxOff OffFSELog r2;
      let '(olog, ocnt, oused) := o in
      do tof <- build_dtable olog ocnt;
      let r3 := skipN r2 oused in
      do m' <- read_ncount MaxML MLFSELog r3;
      let '(mlog, mcnt, mused) := m' in
      do tml <- build_dtable mlog mcnt;
      let r4 := skipN r3 mused in
      do l <- read_ncount MaxLL LLFSELog r4;
      let '(llog, lcnt, lused) := l in
      do tll <- build_dtable llog lcnt;
      let r5 := skipN r4 lused in
      do p1 <- of_opt (read_le 4 r5) Edict 401;
      do p2 <- of_opt (read_le 4 (snd p1)) Edict 402;
      do p3 <- of_opt (read_le 4 (snd p2)) Edict 403;
      let content := snd p3 in
      let n := lenN content in
      let okrep (r : N) := andb (1 <=? r) (r <=? n) in
      check (andb (okrep (fst p1)) (andb (okrep (fst p2)) (okrep (fst p3)))) else Edict @ 404;
      Ok {| d_id := id; d_content := content;
            d_entropy := Some {| e_huf := Some (fst h); e_ll := Some tll; e_of := Some tof; e_ml := Some tml;
                                 e_rep := (fst p1, fst p2, fst p3) |} |}
  end.

Definition no_entropy : entropy :=
  {| e_huf := None; e_ll := None; e_of := None; e_ml := None; e_rep := (1, 4, 8) |}.

(* ---------- frame header ---------- *)
Record fheader := {
  fh_window : N; fh_single : bool; fh_checksum : bool; fh_dictid : N;
  fh_fcs : option N; fh_size : N (* header bytes incl. magic *); fh_desc : N }.

Definition parse_fheader (magicless : bool) (src : bytes) : res (fheader * bytes) :=
  do m <- (if magicless then Ok src
           else do r <- of_opt (read_le 4 src) Etrunc 410;
                check (fst r =? MAGIC) else Eformat @ 411; Ok (snd r));
  match m with
  | [] => Err Etrunc 412
  | fhd :: r0 =>
    let fcsflag := N.shiftr fhd 6 in
    let single := N.testbit fhd 5 in
    let cksum := N.testbit fhd 2 in
    let didflag := N.land fhd 3 in
    check (negb (N.testbit fhd 3)) else Eformat @ 413;
    do w <- (if single then Ok (None, r0)
             else match r0 with
                  | [] => Err Etrunc 414
                  | wd :: t => let wlog := 10 + N.shiftr wd 3 in
                               let base := pow2 wlog in
                               Ok (Some (wlog, base + (base / 8) * N.land wd 7), t)
                  end);
    let '(wopt, r1) := w in
    let didsz := if didflag =? 0 then 0 else if didflag =? 1 then 1 else if didflag =? 2 then 2 else 4 in
    do d <- of_opt (read_le (N.to_nat didsz) r1) Etrunc 415;
    let '(did, r2) := d in
    let fcssz := if fcsflag =? 0 then (if single then 1 else 0) else if fcsflag =? 1 then 2 else if fcsflag =? 2 then 4 else 8 in
    do f <- of_opt (read_le (N.to_nat fcssz) r2) Etrunc 416;
    let '(fv, r3) := f in
    let fcs := if fcssz =? 0 then None else Some (if fcssz =? 2 then fv + 256 else fv) in
    do win <- (match wopt with
               | Some (wlog, wsz) => check (wlog <=? 31) else Elimit @ 417; Ok wsz
               | None => match fcs with Some v => Ok v | None => Err Eformat 418 end
               end);
    Ok ({| fh_window := win; fh_single := single; fh_checksum := cksum; fh_dictid := did; fh_fcs := fcs;
           fh_size := (if magicless then 0 else 4) + 1 + (if single then 0 else 1) + didsz + fcssz; fh_desc := fhd |}, r3)
  end.

(* ---------- blocks of one frame ---------- *)
Fixpoint blocks_loop (fuel : list N) (strict : bool) (window blockMax : N) (e : entropy) (x : xstate)
         (src : bytes) (acc : list btrace) : res (xstate * bytes * list btrace) :=
  match fuel with
  | [] => Err Efuel 420
  | _ :: f =>
    do h <- of_opt (read_le 3 src) Etrunc 421;
    let '(hv, r0) := h in
    let last := N.testbit hv 0 in
    let btype := N.land (N.shiftr hv 1) 3 in
    let bsize := N.shiftr hv 3 in
    do step <-
      (if btype =? 0 then
         check (bsize <=? blockMax) else Esafety @ 422;
         do sp <- of_opt (splitN bsize r0) Etrunc 423;
         Ok (e, push_fwd x (fst sp) bsize,
             snd sp, {| bt_type := 0; bt_last := last; bt_csize := bsize; bt_rsize := bsize; bt_litmode := 0; bt_litsize := 0; bt_seqmodes := 0; bt_seqs := []; bt_nbseq_bytes := 0; bt_lasttable := 0 |})
       else if btype =? 1 then
         check (bsize <=? blockMax) else Esafety @ 424;
         match r0 with
         | [] => Err Etrunc 425
         | v :: t =>
           Ok (e, push_rev x (repeatN v bsize []) bsize,
               t, {| bt_type := 1; bt_last := last; bt_csize := bsize; bt_rsize := bsize; bt_litmode := 0; bt_litsize := 0; bt_seqmodes := 0; bt_seqs := []; bt_nbseq_bytes := 0; bt_lasttable := 0 |})
         end
       else if btype =? 2 then
         check (bsize <=? blockMax) else Esafety @ 426;
         do sp <- of_opt (splitN bsize r0) Etrunc 427;
         do r <- decode_cblock strict window blockMax e x (fst sp);
         let '(e', x', bt) := r in
         Ok (e', x', snd sp, {| bt_type := 2; bt_last := last; bt_csize := bsize; bt_rsize := bt_rsize bt; bt_litmode := bt_litmode bt;
                               bt_litsize := bt_litsize bt; bt_seqmodes := bt_seqmodes bt; bt_seqs := bt_seqs bt;
                               bt_nbseq_bytes := bt_nbseq_bytes bt; bt_lasttable := bt_lasttable bt |})
       else Err Eformat 428);
    let '(e', x', rest, bt) := step in
    if last then Ok (x', rest, rev' (bt :: acc))
    else blocks_loop f strict window blockMax e' x' rest (bt :: acc)
  end.

Record ftrace := { ft_header : fheader; ft_blocks : list btrace; ft_csize : N; ft_checksum : option N }.

(* newest-first history of one frame -> its content in order *)
Definition frame_output (x : xstate) : bytes := takeN_rev (x_hist x) (x_pos x) [].

(* decode one Zstandard frame (not skippable) ; returns content, trace, remaining input *)
Definition decode_frame (cfg : config) (d : option dict) (src : bytes) : res (bytes * ftrace * bytes) :=
  do hh <- parse_fheader (c_magicless cfg) src;
  let '(fh, r0) := hh in
  check (fh_window fh <=? c_window_max cfg) else Elimit @ 430;
  do dd <- (match d with
            | None => check (true) else Edict @ 431; Ok (no_entropy, [])
            | Some dc => check (orb (fh_dictid fh =? 0) (fh_dictid fh =? d_id dc)) else Edict @ 432;
                         Ok (match d_entropy dc with Some e => e | None => no_entropy end, d_content dc)
            end);
  let '(e0, dcontent) := dd in
  let blockMax := N.min (N.min (fh_window fh) BLOCK_MAX) (c_block_max cfg) in
  let x0 := {| x_hist := rev' dcontent; x_marks := []; x_avail := lenN dcontent; x_pos := 0; x_blk := 0 |} in
  do b <- blocks_loop (0 :: r0) (c_strict_window cfg) (fh_window fh) blockMax e0 x0 r0 [];
  let '(x, r1, bts) := b in
  let out := frame_output x in
  check (match fh_fcs fh with Some v => v =? x_pos x | None => true end) else Eintegrity @ 433;
  do c <- (if fh_checksum fh then
             do r <- of_opt (read_le 4 r1) Etrunc 434;
             check (orb (negb (c_check cfg)) (fst r =? N.land (xxh64 out 0) 4294967295)) else Eintegrity @ 435;
             Ok (Some (fst r), snd r)
           else Ok (None, r1));
  let '(ck, r2) := c in
  Ok (out, {| ft_header := fh; ft_blocks := bts; ft_csize := lenN src - lenN r2; ft_checksum := ck |}, r2).

(* ---------- multi-frame (ZSTD_decompress semantics) ---------- *)
Inductive fitem := FZstd (t : ftrace) (n : N) | FSkip (size : N).

Fixpoint frames_loop (fuel : list N) (cfg : config) (d : option dict) (src : bytes)
         (out_rev : list bytes) (acc : list fitem) : res (list bytes * list fitem) :=
  match fuel with
  | [] => Err Efuel 440
  | _ :: f =>
    match src with
    | [] => Ok (rev' out_rev, rev' acc)
    | _ =>
      let skip := if c_magicless cfg then None
                  else match read_le 4 src with
                       | Some (m, r) => if N.shiftr m 4 =? N.shiftr MAGIC_SKIP 4 then Some r else None
                       | None => None
                       end in
      match skip with
      | Some r =>
        do sz <- of_opt (read_le 4 r) Etrunc 441;
        do sp <- of_opt (splitN (fst sz) (snd sz)) Etrunc 442;
        frames_loop f cfg d (snd sp) out_rev (FSkip (fst sz) :: acc)
      | None =>
        do r <- decode_frame cfg d src;
        let '(out, t, rest) := r in
        frames_loop f cfg d rest (out :: out_rev) (FZstd t (lenN out) :: acc)
      end
    end
  end.

Definition R (cfg : config) (d : option dict) (src : bytes) : res (bytes * list fitem) :=
  do r <- frames_loop (0 :: src) cfg d src [] [];
  Ok (rev' (fold_left (fun acc f => rev_append f acc) (fst r) []), snd r).
