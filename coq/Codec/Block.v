(* Compressed-block decoding: literals section, sequences section, sequence execution.
   Written from doc/zstd_compression_format.md.  Model only. *)
From Coq Require Import NArith ZArith List Bool.
From ZV.Codec Require Import Bytes Fse Huf.
Import ListNotations.
Local Open Scope N_scope.

(* ---------- spec tables (literal from the format document) ---------- *)
Definition spec_LL_base : list N :=
  [0;1;2;3;4;5;6;7;8;9;10;11;12;13;14;15;16;18;20;22;24;28;32;40;48;64;128;256;512;1024;2048;4096;8192;16384;32768;65536].
Definition spec_LL_bits : list N :=
  [0;0;0;0;0;0;0;0;0;0;0;0;0;0;0;0;1;1;1;1;2;2;3;3;4;6;7;8;9;10;11;12;13;14;15;16].
Definition spec_ML_base : list N :=
  [3;4;5;6;7;8;9;10;11;12;13;14;15;16;17;18;19;20;21;22;23;24;25;26;27;28;29;30;31;32;33;34;
   35;37;39;41;43;47;51;59;67;83;99;131;259;515;1027;2051;4099;8195;16387;32771;65539].
Definition spec_ML_bits : list N :=
  [0;0;0;0;0;0;0;0;0;0;0;0;0;0;0;0;0;0;0;0;0;0;0;0;0;0;0;0;0;0;0;0;
   1;1;1;1;2;2;3;3;4;4;5;7;8;9;10;11;12;13;14;15;16].
Definition spec_LL_default : list Z :=
  [4;3;2;2;2;2;2;2;2;2;2;2;2;1;1;1;2;2;2;2;2;2;2;2;2;3;2;1;1;1;1;1;-1;-1;-1;-1]%Z.
Definition spec_ML_default : list Z :=
  [1;4;3;2;2;2;2;2;2;1;1;1;1;1;1;1;1;1;1;1;1;1;1;1;1;1;1;1;1;1;1;1;1;1;1;1;1;1;1;1;1;1;1;1;1;1;-1;-1;-1;-1;-1;-1;-1]%Z.
Definition spec_OF_default : list Z :=
  [1;1;1;1;1;1;2;2;2;1;1;1;1;1;1;1;1;1;1;1;1;1;1;1;-1;-1;-1;-1;-1]%Z.
Definition MaxLL : N := 35.
Definition MaxML : N := 52.
Definition MaxOff : N := 31.
Definition LLFSELog : N := 9.
Definition MLFSELog : N := 9.
Definition OffFSELog : N := 8.
Definition LitHufLog : N := 11.

(* ---------- entropy state carried from block to block ---------- *)
Record entropy := {
  e_huf : option huf_table;
  e_ll : option fse_table; e_of : option fse_table; e_ml : option fse_table;
  e_rep : N * N * N }.

(* ---------- trace ---------- *)
Record seq := { s_ll : N; s_ml : N; s_off : N; s_ofcode : N }.
Record btrace := {
  bt_type : N;           (* 0 raw, 1 rle, 2 compressed *)
  bt_last : bool;
  bt_csize : N;          (* Block_Size field *)
  bt_rsize : N;          (* regenerated size *)
  bt_litmode : N;        (* 0 raw 1 rle 2 compressed 3 treeless ; +4 when 4 streams *)
  bt_litsize : N;
  bt_seqmodes : N;       (* the symbol-compression-modes byte (0 when no sequences) *)
  bt_seqs : list seq;
  bt_nbseq_bytes : N;    (* size of the Number_of_Sequences field (1, 2 or 3) ; 0 for raw/RLE blocks *)
  bt_lasttable : N }.    (* bytes from the start of the last FSE_Compressed_Mode table description to the end
                            of the block ; 0 when no table of the block uses that mode *)

(* ---------- literals section ---------- *)
(* returns literals, new Huffman table (if any), bytes consumed, mode code *)
Definition decode_literals (blockMax : N) (huf : option huf_table) (src : bytes)
  : res (list N * option huf_table * N * N) :=
  match src with
  | [] => Err Etrunc 300
  | b0 :: _ =>
    let ltype := N.land b0 3 in
    let sf := N.land (N.shiftr b0 2) 3 in
    if ltype <? 2 then
      (* raw / rle *)
      let hsz := if N.even sf then 1 else if sf =? 1 then 2 else 3 in
      do h <- of_opt (read_le (N.to_nat hsz) src) Etrunc 301;
      let '(hv, rest) := h in
      let n := if N.even sf then N.shiftr hv 3 else N.shiftr hv 4 in
      check (n <=? blockMax) else Esafety @ 302;
      if ltype =? 0 then
        do sp <- of_opt (splitN n rest) Esafety 303;
        Ok (fst sp, huf, hsz + n, 0)
      else
        match rest with
        | [] => Err Etrunc 304
        | v :: _ => Ok (repeatN v n [], huf, hsz + 1, 1)
        end
    else
      let hsz := if sf <? 2 then 3 else if sf =? 2 then 4 else 5 in
      do h <- of_opt (read_le (N.to_nat hsz) src) Etrunc 305;
      let '(hv, rest) := h in
      let nbits := if sf <? 2 then 10 else if sf =? 2 then 14 else 18 in
      let n := N.land (N.shiftr hv 4) (pow2 nbits - 1) in
      let csz := N.land (N.shiftr hv (4 + nbits)) (pow2 nbits - 1) in
      let four := negb (sf =? 0) in
      check (n <=? blockMax) else Esafety @ 306;
      do sp <- of_opt (splitN csz rest) Esafety 307;
      let body := fst sp in
      do tb <- (if ltype =? 2 then
                  do r <- read_huf_table LitHufLog body;
                  let '(t, used) := r in Ok (t, skipN body used)
                else
                  do t <- of_opt huf Edict 308; Ok (t, body));
      let '(t, streams) := tb in
      do lits <- (if four then huf_decode4 (h_tree t) n streams else huf_decode1 (h_tree t) n streams);
      Ok (lits, Some t, hsz + csz, ltype + (if four then 4 else 0))
  end.

(* ---------- sequences section header ---------- *)
Definition read_nbseq (src : bytes) : res (N * bytes) :=
  match src with
  | [] => Err Etrunc 310
  | b0 :: t =>
    if b0 <? 128 then Ok (b0, t)
    else if b0 =? 255 then
      do r <- of_opt (read_le 2 t) Etrunc 311; Ok (fst r + 32512, snd r)
    else match t with
         | [] => Err Etrunc 312
         | b1 :: t' => Ok (N.shiftl (b0 - 128) 8 + b1, t')
         end
  end.

Definition seq_table (mode : N) (maxSV maxLog : N) (deflog : N) (defnorm : list Z)
           (prev : option fse_table) (src : bytes) : res (fse_table * bytes) :=
  if mode =? 0 then do t <- build_dtable deflog defnorm; Ok (t, src)
  else if mode =? 1 then
    match src with
    | [] => Err Etrunc 320
    | s :: t => check (s <=? maxSV) else Esafety @ 321; Ok (rle_table s, t)
    end
  else if mode =? 2 then
    do r <- read_ncount maxSV maxLog src;
    let '(log, counts, used) := r in
    do t <- build_dtable log counts;
    Ok (t, skipN src used)
  else
    do t <- of_opt prev Edict 322; Ok (t, src).

(* ---------- sequence decoding ---------- *)
Definition rd (n : N) (s : list bool) : res (N * list bool) := of_opt (rread (N.to_nat n) s) Eformat 330.

(* resolve an offset value against the repeat-offset history *)
Definition resolve_offset (ofv : N) (ll : N) (rep : N * N * N) : res (N * (N * N * N)) :=
  let '(r1, r2, r3) := rep in
  if 3 <? ofv then Ok (ofv - 3, (ofv - 3, r1, r2))
  else
    let idx := if ll =? 0 then ofv + 1 else ofv in     (* 1..4 *)
    if idx =? 1 then Ok (r1, rep)
    else if idx =? 2 then Ok (r2, (r2, r1, r3))
    else if idx =? 3 then Ok (r3, (r3, r1, r2))
    else check (1 <? r1) else Esafety @ 331; Ok (r1 - 1, (r1 - 1, r1, r2)).

(* Decoder output state.  [x_hist] is dictionary content + everything decoded so far, newest byte first.
   [x_marks] is an access accelerator: (length, suffix) pairs, newest first, where suffix is the history
   as it was when it had that length (suffixes of an immutable list are shared, so a mark costs O(1)).
   Invariant (proved in LzProofs.v): every mark (l, s) satisfies s = skipn (x_avail - l) x_hist. *)
Record xstate := {
  x_hist : list N;
  x_marks : list (N * list N);
  x_avail : N;          (* = length of x_hist = number of bytes an offset may legally reach *)
  x_pos : N;            (* bytes produced by the current frame *)
  x_blk : N }.          (* bytes produced by the current block *)

Definition MARK_GAP : N := 512.

Definition add_mark (marks : list (N * list N)) (len : N) (hist : list N) : list (N * list N) :=
  match marks with
  | [] => if MARK_GAP <=? len then [(len, hist)] else []
  | (l, _) :: _ => if l + MARK_GAP <=? len then (len, hist) :: marks else marks
  end.

(* push n bytes (already reversed: newest first in [seg]) *)
Definition push_rev (x : xstate) (seg : list N) (n : N) : xstate :=
  let h := app_tr seg (x_hist x) in
  let a := x_avail x + n in
  {| x_hist := h; x_marks := add_mark (x_marks x) a h; x_avail := a; x_pos := x_pos x + n; x_blk := x_blk x + n |}.
(* push n bytes given oldest first *)
Definition push_fwd (x : xstate) (seg : list N) (n : N) : xstate :=
  let h := rev_append seg (x_hist x) in
  let a := x_avail x + n in
  {| x_hist := h; x_marks := add_mark (x_marks x) a h; x_avail := a; x_pos := x_pos x + n; x_blk := x_blk x + n |}.

Fixpoint find_mark (marks : list (N * list N)) (target : N) (best : N * list N) : N * list N :=
  match marks with
  | [] => best
  | (l, s) :: t => if target <=? l then find_mark t target (l, s) else best
  end.

(* the history as it was when it had length [target] (target <= x_avail) *)
Definition suffix_at (x : xstate) (target : N) : list N :=
  let '(l, s) := find_mark (x_marks x) target (x_avail x, x_hist x) in
  skipN s (l - target).

(* copy a match of length ml at distance off; history is newest first *)
Fixpoint copy_match (fuel : nat) (x : xstate) (off ml : N) : xstate :=
  match fuel with
  | O => x
  | S f =>
    if ml <=? off then push_rev x (takeN ml (suffix_at x (x_avail x - (off - ml)))) ml
    else copy_match f (push_rev x (takeN off (x_hist x)) off) off (ml - off)
  end.

(* window rule of the format: an offset may exceed the frame position (reach the dictionary) only
   while the position is still inside the first window; otherwise it must be <= windowSize *)
Definition offset_ok (strict : bool) (window : N) (x : xstate) (off : N) : bool :=
  andb (1 <=? off)
   (andb (off <=? x_avail x)
     (orb (negb strict)
          (if off <=? x_pos x then off <=? window else x_pos x <=? window))).

Definition exec_seq (strict : bool) (window blockMax : N) (x : xstate) (lits : list N) (ll ml off : N)
  : res (xstate * list N) :=
  do sp <- of_opt (splitN ll lits) Esafety 340;
  let x1 := push_fwd x (fst sp) ll in
  check (offset_ok strict window x1 off) else Esafety @ 341;
  check (x_blk x1 + ml <=? blockMax) else Esafety @ 342;
  Ok (copy_match (S (N.to_nat (ml / off))) x1 off ml, snd sp).

Definition ll_info (c : N) : N * N := (nthN spec_LL_base c 0, nthN spec_LL_bits c 0).
Definition ml_info (c : N) : N * N := (nthN spec_ML_base c 0, nthN spec_ML_bits c 0).

Fixpoint seq_loop (n : nat) (strict : bool) (window blockMax : N) (tll tof tml : fse_table)
         (stll stof stml : N) (s : list bool) (rep : N * N * N) (x : xstate) (lits : list N) (acc : list seq)
  : res (xstate * list N * (N * N * N) * list seq) :=
  match n with
  | O => check (match s with [] => true | _ => false end) else Eformat @ 350;
         Ok (x, lits, rep, rev' acc)
  | S n' =>
    let ofc := fse_peek tof stof in
    let mlc := fse_peek tml stml in
    let llc := fse_peek tll stll in
    check (andb (ofc <=? MaxOff) (andb (mlc <=? MaxML) (llc <=? MaxLL))) else Esafety @ 351;
    do r1 <- rd ofc s;
    let ofv := pow2 ofc + fst r1 in
    let '(mlb, mlx) := ml_info mlc in
    do r2 <- rd mlx (snd r1);
    let ml := mlb + fst r2 in
    let '(llb, llx) := ll_info llc in
    do r3 <- rd llx (snd r2);
    let ll := llb + fst r3 in
    do ro <- resolve_offset ofv ll rep;
    let '(off, rep') := ro in
    do xe <- exec_seq strict window blockMax x lits ll ml off;
    let '(x', lits') := xe in
    let sq := {| s_ll := ll; s_ml := ml; s_off := off; s_ofcode := ofc |} in
    match n' with
    | O => seq_loop n' strict window blockMax tll tof tml stll stof stml (snd r3) rep' x' lits' (sq :: acc)
    | S _ =>
      do u1 <- of_opt (fse_update tll stll (snd r3)) Eformat 352;
      do u2 <- of_opt (fse_update tml stml (snd u1)) Eformat 353;
      do u3 <- of_opt (fse_update tof stof (snd u2)) Eformat 354;
      seq_loop n' strict window blockMax tll tof tml (fst u1) (fst u3) (fst u2) (snd u3) rep' x' lits' (sq :: acc)
    end
  end.

(* ---------- a compressed block ---------- *)
Definition decode_cblock (strict : bool) (window blockMax : N) (e : entropy) (x : xstate) (src : bytes)
  : res (entropy * xstate * btrace) :=
  check (2 <=? lenN src) else Eformat @ 360;
  do l <- decode_literals blockMax (e_huf e) src;
  let '(lits, huf', lused, lmode) := l in
  let rest := skipN src lused in
  do ns <- read_nbseq rest;
  let '(nbseq, rest1) := ns in
  let x0 := {| x_hist := x_hist x; x_marks := x_marks x; x_avail := x_avail x; x_pos := x_pos x; x_blk := 0 |} in
  let nsb := lenN rest - lenN rest1 in
  let finish (e' : entropy) (xs : xstate) (lits' : list N) (modes : N) (sqs : list seq) (lastt : N) :=
      let nl := lenN lits' in
      check (x_blk xs + nl <=? blockMax) else Esafety @ 361;
      let xf := push_fwd xs lits' nl in
      Ok (e', xf, {| bt_type := 2; bt_last := false; bt_csize := lenN src; bt_rsize := x_blk xf;
                     bt_litmode := lmode; bt_litsize := lenN lits; bt_seqmodes := modes; bt_seqs := sqs;
                     bt_nbseq_bytes := nsb; bt_lasttable := lastt |}) in
  if nbseq =? 0 then
    check (match rest1 with [] => true | _ => false end) else Eformat @ 362;
    finish {| e_huf := huf'; e_ll := e_ll e; e_of := e_of e; e_ml := e_ml e; e_rep := e_rep e |} x0 lits 0 [] 0
  else
    match rest1 with
    | [] => Err Etrunc 363
    | modes :: rest2 =>
      check (N.land modes 3 =? 0) else Eformat @ 364;
      do tl <- seq_table (N.shiftr modes 6) MaxLL LLFSELog 6 spec_LL_default (e_ll e) rest2;
      do to <- seq_table (N.land (N.shiftr modes 4) 3) MaxOff OffFSELog 5 spec_OF_default (e_of e) (snd tl);
      do tm <- seq_table (N.land (N.shiftr modes 2) 3) MaxML MLFSELog 6 spec_ML_default (e_ml e) (snd to);
      do s0 <- of_opt (rbits_open (snd tm)) Eformat 365;
      do i1 <- of_opt (fse_init (fst tl) s0) Eformat 366;
      do i2 <- of_opt (fse_init (fst to) (snd i1)) Eformat 367;
      do i3 <- of_opt (fse_init (fst tm) (snd i2)) Eformat 368;
      do r <- seq_loop (N.to_nat nbseq) strict window blockMax (fst tl) (fst to) (fst tm)
                       (fst i1) (fst i2) (fst i3) (snd i3) (e_rep e) x0 lits [];
      let '(xs, lits', rep', sqs) := r in
      let lastt := if N.land (N.shiftr modes 2) 3 =? 2 then lenN (snd to)
                   else if N.land (N.shiftr modes 4) 3 =? 2 then lenN (snd tl)
                   else if N.shiftr modes 6 =? 2 then lenN rest2 else 0 in
      finish {| e_huf := huf'; e_ll := Some (fst tl); e_of := Some (fst to); e_ml := Some (fst tm); e_rep := rep' |}
             xs lits' modes sqs lastt
    end.
