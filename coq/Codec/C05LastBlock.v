(* C05 - shape of the block list of a frame the reference decoder accepts: the last-block flag is set on exactly one
   block, the final one (R stops at the first block carrying it, and a frame never ends without it); every block before
   it has the flag clear.  Together with FrameProofs.decode_frame_sound (bytes consumed = recorded size) this is the
   "last-block flag set exactly once" rule the driver checks on every emitted frame, as a consequence of acceptance. *)
From Coq Require Import NArith ZArith List Bool Lia.
From ZV.Codec Require Import Bytes ListLemmas XXH64 Fse Huf Block Frame LzProofs FrameProofs.
Import ListNotations.
Local Open Scope N_scope.

Local Opaque decode_cblock push_fwd push_rev.

Lemma blocks_loop_last fuel : forall strict window blockMax e x src acc x' rest bts,
  Forall (fun b => bt_last b = false) acc ->
  blocks_loop fuel strict window blockMax e x src acc = Ok (x', rest, bts) ->
  exists pre b, bts = pre ++ [b] /\ bt_last b = true /\ Forall (fun b => bt_last b = false) pre.
Proof.
  induction fuel as [|f0 f IH]; intros strict window blockMax e x src acc x' rest bts Hacc H; cbn [blocks_loop] in H; [discriminate|].
  inv_bind_as H as [hv r0] Hh.
  inv_bind_as H as [[[e1 x1] rest1] bt] Hstep.
  assert (S : bt_last bt = N.testbit hv 0).
  { destruct (N.land (N.shiftr hv 1) 3 =? 0).
    - inv_bind_as Hstep as [] Hg. inv_bind_as Hstep as [sa sb] Hsp.
      injection Hstep as _ _ _ Hb. subst bt. reflexivity.
    - destruct (N.land (N.shiftr hv 1) 3 =? 1).
      + inv_bind_as Hstep as [] Hg. destruct r0 as [|v t]; [discriminate|].
        injection Hstep as _ _ _ Hb. subst bt. reflexivity.
      + destruct (N.land (N.shiftr hv 1) 3 =? 2); [|discriminate].
        inv_bind_as Hstep as [] Hg. inv_bind_as Hstep as [sa sb] Hsp.
        inv_bind_as Hstep as [[e2 x2] bt2] Hc.
        injection Hstep as _ _ _ Hb. subst bt. reflexivity. }
  destruct (N.testbit hv 0) eqn:L.
  - injection H as _ _ Hb. subst bts. rewrite rev'_rev. cbn [rev].
    exists (rev acc), bt. split; [reflexivity|]. split; [exact S|]. apply Forall_rev; exact Hacc.
  - apply IH in H; [exact H|constructor; assumption].
Qed.

(* the Block_Size field of every block (raw: bytes that follow; RLE: bytes regenerated; compressed: bytes that follow) is
   within Block_Maximum_Size - the format's limit on the field itself, besides the limit on what a block regenerates *)
Lemma blocks_loop_csize fuel : forall strict window blockMax e x src acc x' rest bts,
  Forall (fun b => bt_csize b <= blockMax) acc ->
  blocks_loop fuel strict window blockMax e x src acc = Ok (x', rest, bts) ->
  Forall (fun b => bt_csize b <= blockMax) bts.
Proof.
  induction fuel as [|f0 f IH]; intros strict window blockMax e x src acc x' rest bts Hacc H; cbn [blocks_loop] in H; [discriminate|].
  inv_bind_as H as [hv r0] Hh.
  inv_bind_as H as [[[e1 x1] rest1] bt] Hstep.
  assert (S : bt_csize bt <= blockMax).
  { destruct (N.land (N.shiftr hv 1) 3 =? 0).
    - inv_bind_as Hstep as [] Hg. apply guard_Ok in Hg. apply N.leb_le in Hg. inv_bind_as Hstep as [sa sb] Hsp.
      injection Hstep as _ _ _ Hb. subst bt. exact Hg.
    - destruct (N.land (N.shiftr hv 1) 3 =? 1).
      + inv_bind_as Hstep as [] Hg. apply guard_Ok in Hg. apply N.leb_le in Hg. destruct r0 as [|v t]; [discriminate|].
        injection Hstep as _ _ _ Hb. subst bt. exact Hg.
      + destruct (N.land (N.shiftr hv 1) 3 =? 2); [|discriminate].
        inv_bind_as Hstep as [] Hg. apply guard_Ok in Hg. apply N.leb_le in Hg. inv_bind_as Hstep as [sa sb] Hsp.
        inv_bind_as Hstep as [[e2 x2] bt2] Hc.
        injection Hstep as _ _ _ Hb. subst bt. exact Hg. }
  destruct (N.testbit hv 0) eqn:L.
  - injection H as _ _ Hb. subst bts. rewrite rev'_rev. apply Forall_rev. constructor; assumption.
  - apply IH in H; [exact H|constructor; assumption].
Qed.

Local Opaque blocks_loop xxh64.

(* a frame R accepts: its block list is non-empty, its final block carries the last-block flag and no other block does *)
Theorem accepted_frame_last_block cfg d f out t rest :
  decode_frame cfg d f = Ok (out, t, rest) ->
  exists pre b, ft_blocks t = pre ++ [b] /\ bt_last b = true /\ Forall (fun b => bt_last b = false) pre.
Proof.
  intros H. unfold decode_frame in H.
  inv_bind_as H as [fh r0] Hh. inv_bind_as H as [] Hw. inv_bind_as H as [e0 dcontent] Hd.
  inv_bind_as H as [[x r1] bts] Hb.
  inv_bind_as H as [] Hf. inv_bind_as H as [ck r2] Hc.
  injection H as _ Ht _. subst t. cbn [ft_blocks].
  eapply blocks_loop_last; [|exact Hb]. constructor.
Qed.

Theorem accepted_frame_block_size_fields cfg d f out t rest :
  decode_frame cfg d f = Ok (out, t, rest) ->
  Forall (fun b => bt_csize b <= N.min (N.min (fh_window (ft_header t)) BLOCK_MAX) (c_block_max cfg)) (ft_blocks t).
Proof.
  intros H. unfold decode_frame in H.
  inv_bind_as H as [fh r0] Hh. inv_bind_as H as [] Hw. inv_bind_as H as [e0 dcontent] Hd.
  inv_bind_as H as [[x r1] bts] Hb.
  inv_bind_as H as [] Hf. inv_bind_as H as [ck r2] Hc.
  injection H as _ Ht _. subst t. cbn [ft_blocks ft_header].
  eapply blocks_loop_csize; [|exact Hb]. constructor.
Qed.
