(* C08, round 2 - repeat offsets of a dictionary versus the content a digested dictionary (CDict) RETAINS.
   ZSTD_loadCEntropy validates the three repeat offsets against the whole content (1 <= rep <= contentSize);
   ZSTD_loadDictionaryContent keeps only the last 2^24 - 2 bytes for a CDict whose tables carry "short cache" tags
   (strategies fast and dfast); ZSTD_resetCCtx_byAttachingCDict copies the repeat offsets into the context unchanged and the
   attached-dictionary block compressors compute  repIndex = curr + 1 - offset_1  in U32 arithmetic and read there when
   (U32)((prefixStartIndex-1) - repIndex) >= 3  (zstd_fast.c, zstd_double_fast.c).  ZSTD_shouldAttachDict since fix dd32199
   refuses to attach when a tagged CDict reached the limit and a repeat offset lies beyond the retained content.
   Proved: with that decision, for EVERY content size, strategy class, repeat offsets the loader admits and position of the
   block, the index computed for a repeat offset does not wrap and lies inside dictionary + prefix.  The decision as it was
   before is refuted (content 17,000,000, repeat offset = content size). *)
From Coq Require Import NArith List Bool Lia.
Import ListNotations.
Local Open Scope N_scope.

Definition WINDOW_START_INDEX : N := 2.
Definition SHORT_CACHE_TAG_BITS : N := 8.
Definition short_cache_max : N := 2 ^ (32 - SHORT_CACHE_TAG_BITS) - WINDOW_START_INDEX.      (* 16777214 *)
Definition U32 : N := 2 ^ 32.

(* ZSTD_loadDictionaryContent, tfp == ZSTD_tfp_forCDict : bytes of the content the CDict's window covers *)
Definition retained (tagged : bool) (content : N) : N := if tagged then N.min content short_cache_max else content.

(* ZSTD_loadCEntropy : All repCodes must be <= dictContentSize and != 0 *)
Definition loader_ok (content : N) (reps : list N) : Prop := Forall (fun r => 1 <= r <= content) reps.

(* the part of ZSTD_shouldAttachDict added by fix dd32199 ([fixed] = false : the code before, which never looked) *)
Definition may_attach (fixed tagged : bool) (content : N) (reps : list N) : bool :=
  if fixed && tagged && (short_cache_max <=? retained tagged content)
  then forallb (fun r => r <=? retained tagged content) reps else true.

(* index space of a context with an attached CDict: the dictionary occupies [2, 2 + retained), the input starts at
   prefixStartIndex = 2 + retained (ZSTD_resetCCtx_byAttachingCDict: window.nextSrc = base + cdictEnd, then ZSTD_window_clear) *)
Definition dict_start : N := WINDOW_START_INDEX.
Definition prefix_start (tagged : bool) (content : N) : N := WINDOW_START_INDEX + retained tagged content.
(* U32 const repIndex = curr + 1 - offset_1; *)
Definition rep_index (curr rep : N) : N := (curr + 1 + U32 - rep mod U32) mod U32.

Lemma retained_le tagged content : retained tagged content <= content.
Proof. unfold retained. destruct tagged; lia. Qed.

Lemma short_cache_max_val : short_cache_max = 16777214.
Proof. reflexivity. Qed.

Lemma rep_le_retained tagged content reps r :
  loader_ok content reps -> may_attach true tagged content reps = true -> In r reps -> 1 <= r <= retained tagged content.
Proof.
  intros L A I. unfold loader_ok in L. rewrite Forall_forall in L. specialize (L r I).
  unfold may_attach in A. destruct tagged; cbn [andb] in A.
  - destruct (short_cache_max <=? retained true content) eqn:E.
    + rewrite forallb_forall in A. specialize (A r I). apply N.leb_le in A. lia.
    + apply N.leb_gt in E. unfold retained in *. rewrite short_cache_max_val in *. lia.
  - unfold retained. lia.
Qed.

(* every content size, strategy class, admitted repeat offsets, and every position of the current block inside the 32-bit
   index space: the repeat-offset probe of the attached-dictionary compressors reads inside dictionary + prefix *)
Theorem attach_rep_index_in_range : forall tagged content reps r curr,
  loader_ok content reps -> may_attach true tagged content reps = true -> In r reps ->
  prefix_start tagged content <= curr -> curr + 1 < U32 ->
  rep_index curr r = curr + 1 - r /\ dict_start < rep_index curr r <= curr.
Proof.
  intros tagged content reps r curr L A I P B.
  pose proof (rep_le_retained _ _ _ _ L A I) as R. unfold prefix_start, dict_start in *. unfold WINDOW_START_INDEX in *.
  clear L A I. unfold rep_index. change U32 with 4294967296 in *. remember (retained tagged content) as rt. clear Heqrt.
  assert (r < 4294967296) by lia. rewrite (N.mod_small r) by assumption.
  replace (curr + 1 + 4294967296 - r) with ((curr + 1 - r) + 1 * 4294967296) by lia.
  rewrite N.mod_add by lia. rewrite N.mod_small by lia. lia.
Qed.

(* when the decision is "do not attach", the dictionary is used by copy; the prefix-mode compressors (ZSTD_compressBlock_fast /
   _doubleFast, noDict variants) start by discarding the offsets beyond  maxRep = curr - windowLow :
     if (offset_2 > maxRep) offsetSaved2 = offset_2, offset_2 = 0;   the probe is guarded by offset > 0 *)
Definition sanitize (maxRep rep : N) : N := if maxRep <? rep then 0 else rep.
Theorem copy_rep_sanitized : forall windowLow curr rep,
  windowLow <= curr -> curr + 1 < U32 ->
  let r := sanitize (curr - windowLow) rep in
  r = 0 \/ (rep_index curr r = curr + 1 - r /\ windowLow < rep_index curr r).
Proof.
  intros windowLow curr rep W B r. unfold r, sanitize. destruct (curr - windowLow <? rep) eqn:E; [now left|right].
  apply N.ltb_ge in E. unfold rep_index. change U32 with 4294967296 in *.
  assert (rep < 4294967296) by lia. rewrite (N.mod_small rep) by assumption.
  replace (curr + 1 + 4294967296 - rep) with ((curr + 1 - rep) + 1 * 4294967296) by lia.
  rewrite N.mod_add by lia. rewrite N.mod_small by lia. lia.
Qed.

(* the hypotheses are satisfiable on both sides of the limit *)
Example attach_example :
  may_attach true true 17000000 [1000; 4; 8] = true /\ may_attach true true 17000000 [17000000; 4; 8] = false /\
  may_attach true true 16777214 [16777214; 4; 8] = true /\ may_attach true false 17000000 [17000000; 4; 8] = true.
Proof. vm_compute. auto. Qed.

(* before the fix the decision never looked at the repeat offsets: dictionary content 17,000,000 bytes, first repeat offset =
   content size (admitted by the loader), CDict of strategy fast: attached; at the first position of the input the index wraps
   to 4294744513, beyond the input: (U32)((prefixStartIndex-1) - repIndex) >= 3 holds and the compressor reads base + 4294744513 *)
Theorem attach_refuted_before_fix :
  loader_ok 17000000 [17000000; 4; 8] /\ may_attach false true 17000000 [17000000; 4; 8] = true /\
  let curr := prefix_start true 17000000 in
  rep_index curr 17000000 = 4294744513 /\ curr < rep_index curr 17000000 /\
  3 <= (prefix_start true 17000000 - 1 + U32 - rep_index curr 17000000) mod U32.
Proof.
  split; [repeat constructor; lia|]. vm_compute. repeat split; try reflexivity; try discriminate.
Qed.
