(* C06 - proofs about coq/Codec/FrameInspect.v *)
From Coq Require Import ZArith List Bool Lia.
From ZV.Gen Require Gen_Tables.
From ZV.Codec Require Import FrameInspect.
Import ListNotations.
Local Open Scope Z_scope.

(* ---- constants (T-tie: these break when a header changes) ---- *)
Lemma MAGIC_val : MAGIC = 4247762216. Proof. reflexivity. Qed.
Lemma SKIP_START_val : SKIP_START = 407710288. Proof. reflexivity. Qed.
Lemma SKIP_MASK_val : SKIP_MASK = 4294967280. Proof. reflexivity. Qed.
Lemma SKIPHDR_val : SKIPHDR = 8. Proof. reflexivity. Qed.
Lemma FRAMEIDSIZE_val : FRAMEIDSIZE = 4. Proof. reflexivity. Qed.
Lemma BHSZ_val : BHSZ = 3. Proof. reflexivity. Qed.
Lemma CKSZ_val : CKSZ = 4. Proof. reflexivity. Qed.
Lemma WLOG_ABSMIN_val : WLOG_ABSMIN = 10. Proof. reflexivity. Qed.
Lemma WLOG_MAX_val : WLOG_MAX = 31. Proof. reflexivity. Qed.
Lemma BSMAX_val : BSMAX = 131072. Proof. reflexivity. Qed.
Lemma CS_UNKNOWN_val : CS_UNKNOWN = 18446744073709551615. Proof. reflexivity. Qed.
Lemma CS_ERROR_val : CS_ERROR = 18446744073709551614. Proof. reflexivity. Qed.
Lemma MIN_INPUT_val : MIN_INPUT = 5. Proof. reflexivity. Qed.
Lemma W64_val : W64 = 18446744073709551616. Proof. reflexivity. Qed.
Lemma W32_val : W32 = 4294967296. Proof. reflexivity. Qed.
Lemma did_size_vals : did_size 0 = 0 /\ did_size 1 = 1 /\ did_size 2 = 2 /\ did_size 3 = 4.
Proof. repeat split; reflexivity. Qed.
Lemma fcs_size_vals : fcs_size 0 = 0 /\ fcs_size 1 = 2 /\ fcs_size 2 = 4 /\ fcs_size 3 = 8.
Proof. repeat split; reflexivity. Qed.

(* ---- len ---- *)
Lemma len_aux_spec : forall (A : Type) (l : list A) acc, len_aux l acc = acc + Z.of_nat (length l).
Proof.
  induction l as [|x t IH]; intros acc; cbn [len_aux length].
  - lia.
  - rewrite IH. lia.
Qed.
Lemma len_spec : forall (A : Type) (l : list A), len l = Z.of_nat (length l).
Proof. intros. unfold len. rewrite len_aux_spec. lia. Qed.
Lemma len_app : forall (A : Type) (a b : list A), len (a ++ b) = len a + len b.
Proof. intros. rewrite !len_spec, app_length. lia. Qed.
Lemma len_cons : forall (A : Type) (x : A) l, len (x :: l) = 1 + len l.
Proof. intros. rewrite !len_spec. cbn [length]. lia. Qed.
Lemma len_nil : forall (A : Type), len (@nil A) = 0.
Proof. reflexivity. Qed.
Lemma len_nonneg : forall (A : Type) (l : list A), 0 <= len l.
Proof. intros. rewrite len_spec. lia. Qed.

(* ---- drop_exact ---- *)
Lemma drop_exact_0 : forall l, drop_exact l 0 = Some l.
Proof. destruct l; reflexivity. Qed.
Lemma drop_exact_app : forall a b, drop_exact (a ++ b) (len a) = Some b.
Proof.
  induction a as [|x a IH]; intros b.
  - rewrite len_nil. cbn [app]. apply drop_exact_0.
  - cbn [app drop_exact]. rewrite len_cons. pose proof (len_nonneg _ a).
    destruct (Z.leb_spec (1 + len a) 0); [lia|].
    replace (1 + len a - 1) with (len a) by lia. apply IH.
Qed.
Lemma drop_exact_app_eq : forall a b k, k = len a -> drop_exact (a ++ b) k = Some b.
Proof. intros. subst. apply drop_exact_app. Qed.

(* ---- little endian ---- *)
Lemma length_ser_le : forall k v, length (ser_le k v) = k.
Proof. induction k; intros; cbn [ser_le length]; [reflexivity|]. rewrite IHk. reflexivity. Qed.
Lemma len_ser_le : forall k v, len (ser_le k v) = Z.of_nat k.
Proof. intros. rewrite len_spec, length_ser_le. reflexivity. Qed.

Lemma le_ser_le : forall k v, 0 <= v -> le (ser_le k v) = v mod 256 ^ Z.of_nat k.
Proof.
  induction k as [|k IH]; intros v Hv.
  - cbn [ser_le le]. change (256 ^ Z.of_nat 0) with 1. rewrite Z.mod_1_r. reflexivity.
  - cbn [ser_le le]. rewrite IH by (apply Z.div_pos; lia).
    rewrite Nat2Z.inj_succ, Z.pow_succ_r by lia.
    rewrite Z.rem_mul_r by (try lia; apply Z.pow_pos_nonneg; lia). reflexivity.
Qed.
Lemma le_ser_le_small : forall k v, 0 <= v < 256 ^ Z.of_nat k -> le (ser_le k v) = v.
Proof. intros. rewrite le_ser_le by lia. apply Z.mod_small. lia. Qed.

Lemma firstn_app_exact : forall (A : Type) (a b : list A) k, k = length a -> firstn k (a ++ b) = a.
Proof. intros. subst. rewrite firstn_app, Nat.sub_diag, firstn_all. cbn [firstn]. apply app_nil_r. Qed.
Lemma skipn_app_exact : forall (A : Type) (a b : list A) k, k = length a -> skipn k (a ++ b) = b.
Proof. intros. subst. rewrite skipn_app, Nat.sub_diag, skipn_all. reflexivity. Qed.

(* ---- ZSTD_getFrameHeader on a serialised header ---- *)
Ltac Zify.zify_post_hook ::= Z.div_mod_to_equations.

Lemma fhd_fields : forall d c s f, 0 <= d <= 3 -> 0 <= f <= 3 -> 0 <= c <= 1 -> 0 <= s <= 1 ->
  let x := d + 4 * c + 32 * s + 64 * f in
  x mod 4 = d /\ (x / 4) mod 2 = c /\ (x / 8) mod 2 = 0 /\ (x / 32) mod 2 = s /\ x / 64 = f.
Proof. intros. subst x. repeat split; lia. Qed.

Definition zfh_of (h : fhdr) : zfh :=
  mk_zfh (fcs_of h) (window_of h) (bsmax_of h) false (hsize_of h) (h_did h) (h_chk h).

Definition pos1_of (h : fhdr) : nat := if h_single h then 5%nat else 6%nat.
Definition pos2_of (h : fhdr) : nat := (pos1_of h + did_width (h_didc h))%nat.

Lemma did_width_switch_eq : forall c, did_width_switch c = did_width c.
Proof. reflexivity. Qed.

Lemma b2z_eqb1 : forall b, (b2z b =? 1) = b. Proof. destruct b; reflexivity. Qed.
Lemma b2z_eqb0 : forall b, (b2z b =? 0) = negb b. Proof. destruct b; reflexivity. Qed.

Lemma gfh_from_facts : forall src h,
  wf_hdr h ->
  le (firstn 4 src) = MAGIC ->
  nth 4 src 0 = fhd_byte h ->
  frame_header_size src = Some (hsize_of h) ->
  hsize_of h <= len src -> MIN_INPUT <= len src ->
  (h_single h = false -> nth 5 src 0 = 8 * h_wexp h + h_wmant h) ->
  le (firstn (did_width (h_didc h)) (skipn (pos1_of h) src)) = h_did h ->
  (h_fcsc h = 0 -> h_single h = true -> nth (pos2_of h) src 0 = h_fcs h) ->
  (h_fcsc h = 1 -> le (firstn 2 (skipn (pos2_of h) src)) = h_fcs h - 256) ->
  (h_fcsc h = 2 -> le (firstn 4 (skipn (pos2_of h) src)) = h_fcs h) ->
  (h_fcsc h = 3 -> le (firstn 8 (skipn (pos2_of h) src)) = h_fcs h) ->
  get_frame_header src = HOk (zfh_of h).
Proof.
  intros src h Hwf Hmagic Hfhd Hfhs Hlen Hmin Hwb Hdid Hf0 Hf1 Hf2 Hf3.
  destruct Hwf as (Hd & Hdidr & Hf & Hw & Hfcs).
  unfold get_frame_header.
  destruct (Z.ltb_spec (len src) MIN_INPUT); [lia|].
  rewrite Hmagic, Z.eqb_refl. cbn [negb].
  rewrite Hfhs.
  destruct (Z.ltb_spec (len src) (hsize_of h)); [lia|].
  change (Z.to_nat (MIN_INPUT - 1)) with 4%nat. change (Z.to_nat MIN_INPUT) with 5%nat.
  rewrite Hfhd. unfold fhd_byte.
  assert (Hc : 0 <= b2z (h_chk h) <= 1) by (destruct (h_chk h); cbn; lia).
  assert (Hs : 0 <= b2z (h_single h) <= 1) by (destruct (h_single h); cbn; lia).
  destruct (fhd_fields (h_didc h) (b2z (h_chk h)) (b2z (h_single h)) (h_fcsc h) Hd Hf Hc Hs) as (E1 & E2 & E3 & E4 & E5).
  cbv zeta in E1, E2, E3, E4, E5. rewrite E1, E2, E3, E4, E5.
  cbn [Z.eqb negb]. rewrite did_width_switch_eq.
  rewrite !b2z_eqb1, !b2z_eqb0.
  unfold zfh_of, bsmax_of, fcs_of, window_of, has_fcs, pos2_of, pos1_of in *.
  destruct (h_single h) eqn:Hsingle; cbn [negb andb orb].
  - (* single segment *)
    rewrite Hdid. f_equal.
    destruct (Z.eqb_spec (h_fcsc h) 0) as [E0|N0].
    + rewrite (Hf0 E0 eq_refl). reflexivity.
    + destruct (Z.eqb_spec (h_fcsc h) 1) as [Ea|Na].
      * rewrite (Hf1 Ea). replace (h_fcs h - 256 + 256) with (h_fcs h) by lia. reflexivity.
      * destruct (Z.eqb_spec (h_fcsc h) 2) as [Eb|Nb].
        -- rewrite (Hf2 Eb). reflexivity.
        -- rewrite (Hf3 ltac:(lia)). reflexivity.
  - (* window descriptor *)
    rewrite (Hwb eq_refl). destruct (Hw eq_refl) as (Hw1 & Hw2 & Hw3).
    assert (Ew : (8 * h_wexp h + h_wmant h) / 8 = h_wexp h) by lia.
    assert (Em : (8 * h_wexp h + h_wmant h) mod 8 = h_wmant h) by lia.
    rewrite Ew, Em.
    destruct (Z.gtb_spec (h_wexp h + WLOG_ABSMIN) WLOG_MAX); [lia|].
    rewrite Hdid. f_equal.
    destruct (Z.eqb_spec (h_fcsc h) 0) as [E0|N0].
    + cbn [negb]. reflexivity.
    + cbn [negb].
      destruct (Z.eqb_spec (h_fcsc h) 1) as [Ea|Na].
      * rewrite (Hf1 Ea). replace (h_fcs h - 256 + 256) with (h_fcs h) by lia. reflexivity.
      * destruct (Z.eqb_spec (h_fcsc h) 2) as [Eb|Nb].
        -- rewrite (Hf2 Eb). reflexivity.
        -- rewrite (Hf3 ltac:(lia)). reflexivity.
Qed.

Lemma pow256 : forall k, 256 ^ Z.of_nat k > 0.
Proof. intros. apply Z.lt_gt. apply Z.pow_pos_nonneg; lia. Qed.

(* structure of a serialised header: prefix (magic, descriptor), optional window byte, dictionary id, content size *)
Definition hdr_tail (h : fhdr) : list Z := ser_le (did_width (h_didc h)) (h_did h) ++ ser_fcs h.

Lemma ser_header_shape : forall h,
  ser_header h = ser_le 4 MAGIC ++ fhd_byte h :: (if h_single h then [] else [8 * h_wexp h + h_wmant h]) ++ hdr_tail h.
Proof. intros. unfold ser_header, hdr_tail. cbn [app]. reflexivity. Qed.

Lemma len_ser_fcs : forall h, 0 <= h_fcsc h <= 3 ->
  len (ser_fcs h) = fcs_size (h_fcsc h) + (if h_single h && (h_fcsc h =? 0) then 1 else 0).
Proof.
  intros h Hf. unfold ser_fcs.
  destruct fcs_size_vals as (F0 & F1 & F2 & F3).
  assert (Hc : h_fcsc h = 0 \/ h_fcsc h = 1 \/ h_fcsc h = 2 \/ h_fcsc h = 3) by lia.
  destruct Hc as [E|[E|[E|E]]]; rewrite E; cbn [Z.eqb Pos.eqb andb].
  - rewrite F0. destruct (h_single h); reflexivity.
  - rewrite F1, Bool.andb_false_r. reflexivity.
  - rewrite F2, Bool.andb_false_r. reflexivity.
  - rewrite F3, Bool.andb_false_r. reflexivity.
Qed.

Lemma len_did : forall c v, 0 <= c <= 3 -> len (ser_le (did_width c) v) = did_size c.
Proof.
  intros c v Hc. rewrite len_ser_le.
  destruct did_size_vals as (D0 & D1 & D2 & D3).
  assert (H : c = 0 \/ c = 1 \/ c = 2 \/ c = 3) by lia.
  destruct H as [E|[E|[E|E]]]; subst c; cbn [did_width Z.eqb Pos.eqb]; [rewrite D0|rewrite D1|rewrite D2|rewrite D3]; reflexivity.
Qed.

Lemma hsize_formula : forall h, 0 <= h_didc h <= 3 -> 0 <= h_fcsc h <= 3 ->
  hsize_of h = MIN_INPUT + (1 - b2z (h_single h)) + did_size (h_didc h) + fcs_size (h_fcsc h)
               + (if h_single h && (h_fcsc h =? 0) then 1 else 0).
Proof.
  intros h Hd Hf. unfold hsize_of. rewrite ser_header_shape. unfold hdr_tail.
  rewrite len_app, len_cons, !len_app, len_ser_le, (len_did _ _ Hd), (len_ser_fcs _ Hf).
  rewrite MIN_INPUT_val. destruct (h_single h); cbn [b2z]; rewrite ?len_nil, ?len_cons, ?len_nil;
    change (Z.of_nat 4) with 4; lia.
Qed.

Lemma ser_header_facts : forall h rest, wf_hdr h ->
  let src := ser_header h ++ rest in
  le (firstn 4 src) = MAGIC /\ nth 4 src 0 = fhd_byte h /\
  len src = hsize_of h + len rest /\
  (h_single h = false -> nth 5 src 0 = 8 * h_wexp h + h_wmant h) /\
  skipn (pos1_of h) src = hdr_tail h ++ rest.
Proof.
  intros h rest Hwf src. subst src. rewrite ser_header_shape.
  split; [|split; [|split; [|split]]].
  - rewrite <- app_assoc. rewrite firstn_app_exact by (rewrite length_ser_le; reflexivity).
    apply le_ser_le_small. rewrite MAGIC_val. change (256 ^ Z.of_nat 4) with 4294967296. lia.
  - cbn [ser_le app nth]. reflexivity.
  - rewrite <- ser_header_shape. unfold hsize_of. apply len_app.
  - intros Hs. rewrite Hs. cbn [ser_le app nth]. reflexivity.
  - unfold pos1_of. destruct (h_single h); cbn [ser_le app skipn]; reflexivity.
Qed.

Lemma frame_header_size_ser : forall h rest, wf_hdr h ->
  frame_header_size (ser_header h ++ rest) = Some (hsize_of h).
Proof.
  intros h rest Hwf. destruct (ser_header_facts h rest Hwf) as (_ & Hfhd & Hlen & _ & _).
  destruct Hwf as (Hd & _ & Hf & _ & _).
  unfold frame_header_size. rewrite Hlen.
  pose proof (len_nonneg _ rest). pose proof (hsize_formula h Hd Hf) as Hhs.
  assert (Hc : 0 <= b2z (h_chk h) <= 1) by (destruct (h_chk h); cbn; lia).
  assert (Hs : 0 <= b2z (h_single h) <= 1) by (destruct (h_single h); cbn; lia).
  assert (0 <= did_size (h_didc h)).
  { destruct did_size_vals as (D0 & D1 & D2 & D3).
    assert (Hx : h_didc h = 0 \/ h_didc h = 1 \/ h_didc h = 2 \/ h_didc h = 3) by lia.
    destruct Hx as [E|[E|[E|E]]]; rewrite E; lia. }
  assert (0 <= fcs_size (h_fcsc h)).
  { destruct fcs_size_vals as (D0 & D1 & D2 & D3).
    assert (Hx : h_fcsc h = 0 \/ h_fcsc h = 1 \/ h_fcsc h = 2 \/ h_fcsc h = 3) by lia.
    destruct Hx as [E|[E|[E|E]]]; rewrite E; lia. }
  destruct (Z.ltb_spec (hsize_of h + len rest) MIN_INPUT).
  { rewrite MIN_INPUT_val in *. destruct (h_single h && (h_fcsc h =? 0)); lia. }
  change (Z.to_nat (MIN_INPUT - 1)) with 4%nat. rewrite Hfhd. unfold fhd_byte.
  destruct (fhd_fields (h_didc h) (b2z (h_chk h)) (b2z (h_single h)) (h_fcsc h) Hd Hf Hc Hs) as (E1 & E2 & E3 & E4 & E5).
  cbv zeta in E1, E2, E3, E4, E5. rewrite E1, E4, E5. rewrite b2z_eqb1. rewrite Hhs. reflexivity.
Qed.

Lemma skipn_add : forall (A : Type) (a b : nat) (l : list A), skipn (a + b) l = skipn b (skipn a l).
Proof.
  induction a as [|a IH]; intros b l; [reflexivity|].
  destruct l; cbn [Nat.add skipn]; [destruct b; reflexivity|apply IH].
Qed.

Lemma nth_as_skipn : forall (l : list Z) k, nth k l 0 = nth 0 (skipn k l) 0.
Proof.
  induction l as [|x t IH]; intros k.
  - destruct k; reflexivity.
  - destruct k; cbn [nth skipn]; [reflexivity|apply IH].
Qed.

Theorem get_frame_header_ser : forall h rest, wf_hdr h ->
  get_frame_header (ser_header h ++ rest) = HOk (zfh_of h).
Proof.
  intros h rest Hwf.
  destruct (ser_header_facts h rest Hwf) as (Hmagic & Hfhd & Hlen & Hwb & Hskip).
  pose proof (frame_header_size_ser h rest Hwf) as Hfhs.
  pose proof Hwf as (Hd & Hdid & Hf & Hw & Hfcs).
  pose proof (len_nonneg _ rest) as Hr.
  pose proof (hsize_formula h Hd Hf) as Hhs.
  assert (Hmin : MIN_INPUT <= hsize_of h).
  { rewrite Hhs. destruct did_size_vals as (D0 & D1 & D2 & D3). destruct fcs_size_vals as (G0 & G1 & G2 & G3).
    assert (Hx : h_didc h = 0 \/ h_didc h = 1 \/ h_didc h = 2 \/ h_didc h = 3) by lia.
    assert (Hy : h_fcsc h = 0 \/ h_fcsc h = 1 \/ h_fcsc h = 2 \/ h_fcsc h = 3) by lia.
    destruct (h_single h); cbn [b2z andb];
    destruct Hx as [E|[E|[E|E]]]; rewrite E; destruct Hy as [E'|[E'|[E'|E']]]; rewrite E'; cbn [Z.eqb Pos.eqb]; lia. }
  (* what follows the dictionary id *)
  assert (Hskip2 : skipn (pos2_of h) (ser_header h ++ rest) = ser_fcs h ++ rest).
  { unfold pos2_of. rewrite skipn_add, Hskip. unfold hdr_tail. rewrite <- app_assoc.
    apply skipn_app_exact. rewrite length_ser_le. reflexivity. }
  apply gfh_from_facts; try assumption; try lia.
  - rewrite Hskip. unfold hdr_tail. rewrite <- app_assoc.
    rewrite firstn_app_exact by (rewrite length_ser_le; reflexivity).
    apply le_ser_le_small. exact Hdid.
  - intros E0 Es. rewrite nth_as_skipn, Hskip2. unfold ser_fcs. rewrite E0, Es. reflexivity.
  - intros E1. rewrite Hskip2. unfold ser_fcs. rewrite E1. cbn [Z.eqb Pos.eqb].
    rewrite firstn_app_exact by (rewrite length_ser_le; reflexivity).
    apply le_ser_le_small.
    assert (Hh : has_fcs h = true) by (unfold has_fcs; rewrite E1; apply Bool.orb_true_r).
    destruct (Hfcs Hh) as (_ & H1 & _). specialize (H1 E1). change (256 ^ Z.of_nat 2) with 65536. lia.
  - intros E2. rewrite Hskip2. unfold ser_fcs. rewrite E2. cbn [Z.eqb Pos.eqb].
    rewrite firstn_app_exact by (rewrite length_ser_le; reflexivity).
    apply le_ser_le_small.
    assert (Hh : has_fcs h = true) by (unfold has_fcs; rewrite E2; apply Bool.orb_true_r).
    destruct (Hfcs Hh) as (_ & _ & H2 & _). specialize (H2 E2). rewrite W32_val in H2.
    change (256 ^ Z.of_nat 4) with 4294967296. lia.
  - intros E3. rewrite Hskip2. unfold ser_fcs. rewrite E3. cbn [Z.eqb Pos.eqb].
    rewrite firstn_app_exact by (rewrite length_ser_le; reflexivity).
    apply le_ser_le_small.
    assert (Hh : has_fcs h = true) by (unfold has_fcs; rewrite E3; apply Bool.orb_true_r).
    destruct (Hfcs Hh) as (_ & _ & _ & H3). specialize (H3 E3). rewrite CS_ERROR_val in H3.
    change (256 ^ Z.of_nat 8) with 18446744073709551616. lia.
Qed.

(* ---- block headers and the block walk ---- *)
Definition blk_csize (b : blk) : Z := len (b_payload b).

Lemma wf_blk_sizes : forall bsmax b, wf_blk bsmax b ->
  0 <= blk_sizefield b < 2 ^ 21 /\ 0 <= blk_csize b /\
  (b_type b = BRle -> blk_csize b = 1).
Proof.
  intros bsmax b (Hr & Hs & Ht). unfold blk_csize. pose proof (len_nonneg _ (b_payload b)).
  unfold blk_sizefield in *. destruct (b_type b); repeat split; try lia; try discriminate.
  intros _. rewrite len_spec, Ht. reflexivity.
Qed.

Lemma block_header_decode : forall last bt sz,
  0 <= bt <= 2 -> 0 <= sz < 2 ^ 21 ->
  let hv := b2z last + 2 * bt + 8 * sz in
  let h := hv mod 256 + 256 * ((hv / 256) mod 256) + 65536 * ((hv / 256 / 256) mod 256) in
  h = hv /\ hv / 8 = sz /\ (hv / 2) mod 4 = bt /\ (hv mod 2 =? 1) = last.
Proof.
  intros last bt sz Hbt Hsz hv h. change (2 ^ 21) with 2097152 in Hsz.
  assert (Hl : 0 <= b2z last <= 1) by (destruct last; cbn; lia).
  assert (Hhv : 0 <= hv < 16777216) by (subst hv; lia).
  assert (E : h = hv) by (subst h; lia).
  repeat split; try assumption; subst hv; try lia.
  destruct last; cbn [b2z]; apply Z.eqb_eq || apply Z.eqb_neq; lia.
Qed.

Lemma get_cblock_size_ser : forall bsmax last b rest, wf_blk bsmax b ->
  get_cblock_size (ser_block last b ++ rest) =
    Some ((match b_type b with BRle => 1 | _ => blk_sizefield b end), bt_code (b_type b), last, blk_sizefield b).
Proof.
  intros bsmax last b rest Hwf. destruct (wf_blk_sizes _ _ Hwf) as (Hs & _ & _).
  unfold ser_block. cbn [ser_le app get_cblock_size].
  assert (Hbt : 0 <= bt_code (b_type b) <= 2) by (destruct (b_type b); cbn; lia).
  destruct (block_header_decode last (bt_code (b_type b)) (blk_sizefield b) Hbt Hs) as (E1 & E2 & E3 & E4).
  cbv zeta in E1, E2, E3, E4. rewrite E1, E2, E3, E4.
  destruct (b_type b); cbn [bt_code Z.eqb Pos.eqb]; reflexivity.
Qed.

Lemma len_ser_block : forall last b, len (ser_block last b) = BHSZ + blk_csize b.
Proof. intros. unfold ser_block, blk_csize. rewrite len_app, len_ser_le, BHSZ_val. reflexivity. Qed.

Fixpoint csize_blocks (bl : list blk) : Z :=
  match bl with [] => 0 | b :: t => BHSZ + blk_csize b + csize_blocks t end.

Lemma len_ser_blocks : forall bl, len (ser_blocks bl) = csize_blocks bl.
Proof.
  induction bl as [|b t IH]; [reflexivity|].
  destruct t as [|b' t'].
  - cbn [ser_blocks csize_blocks]. rewrite len_ser_block. lia.
  - change (ser_blocks (b :: b' :: t')) with (ser_block false b ++ ser_blocks (b' :: t')).
    rewrite len_app, len_ser_block, IH. cbn [csize_blocks]. lia.
Qed.

Lemma walk_one_block : forall bsmax last b rest, wf_blk bsmax b ->
  get_cblock_size (ser_block last b ++ rest) <> None /\
  forall cs bt l o, get_cblock_size (ser_block last b ++ rest) = Some (cs, bt, l, o) ->
    l = last /\ cs = blk_csize b /\ drop_exact (ser_block last b ++ rest) (BHSZ + cs) = Some rest.
Proof.
  intros bsmax last b rest Hwf. rewrite (get_cblock_size_ser bsmax last b rest Hwf). split; [discriminate|].
  intros cs bt l o Heq. injection Heq as <- <- <- <-.
  destruct (wf_blk_sizes _ _ Hwf) as (_ & _ & Hrle).
  assert (Ecs : (match b_type b with BRle => 1 | _ => blk_sizefield b end) = blk_csize b).
  { destruct (b_type b) eqn:Et; unfold blk_sizefield, blk_csize; rewrite ?Et; try reflexivity.
    symmetry. apply Hrle. reflexivity. }
  rewrite Ecs. repeat split.
  apply drop_exact_app_eq. rewrite len_ser_block. reflexivity.
Qed.

Lemma some_triple_eq : forall (r : list Z) (a a' b b' : Z), a = a' -> b = b' -> Some (r, a, b) = Some (r, a', b').
Proof. intros. subst. reflexivity. Qed.

Lemma walk_blocks_ser : forall bsmax bl fuel rest consumed nb,
  bl <> [] -> Forall (wf_blk bsmax) bl -> (length bl <= length fuel)%nat ->
  walk_blocks fuel (ser_blocks bl ++ rest) consumed nb =
    Some (rest, consumed + csize_blocks bl, nb + len bl).
Proof.
  induction bl as [|b t IH]; intros fuel rest consumed nb Hne Hwf Hfuel; [congruence|].
  destruct fuel as [|x fuel]; [cbn [length] in Hfuel; lia|].
  inversion Hwf as [|? ? Hb Ht]; subst.
  destruct t as [|b' t'].
  - cbn [ser_blocks walk_blocks].
    destruct (walk_one_block bsmax true b rest Hb) as (Hnn & Hall).
    destruct (get_cblock_size (ser_block true b ++ rest)) as [[[[cs bt] l] o]|] eqn:Hg; [|congruence].
    destruct (Hall cs bt l o eq_refl) as (-> & -> & Hd). rewrite Hd.
    cbv iota. cbn [csize_blocks]. rewrite len_cons, len_nil. apply some_triple_eq; lia.
  - change (ser_blocks (b :: b' :: t')) with (ser_block false b ++ ser_blocks (b' :: t')).
    rewrite <- app_assoc. cbn [walk_blocks].
    destruct (walk_one_block bsmax false b (ser_blocks (b' :: t') ++ rest) Hb) as (Hnn & Hall).
    destruct (get_cblock_size (ser_block false b ++ ser_blocks (b' :: t') ++ rest)) as [[[[cs bt] l] o]|] eqn:Hg; [|congruence].
    destruct (Hall cs bt l o eq_refl) as (-> & -> & Hd). rewrite Hd.
    rewrite IH; [|discriminate|assumption|cbn [length] in *; lia].
    cbn [csize_blocks]. rewrite (len_cons _ b). apply some_triple_eq; lia.
Qed.

Lemma length_ser_blocks_ge : forall bl, (length bl <= length (ser_blocks bl))%nat.
Proof.
  intros bl.
  assert (Hc : Z.of_nat (length bl) <= csize_blocks bl).
  { induction bl as [|b t IH]; [cbn; lia|]. cbn [csize_blocks length]. unfold blk_csize.
    pose proof (len_nonneg _ (b_payload b)). rewrite BHSZ_val. lia. }
  pose proof (len_ser_blocks bl) as H. rewrite len_spec in H. lia.
Qed.

(* ---- ZSTD_findFrameSizeInfo on a serialised frame ---- *)
Lemma skippable_magic_ok : forall v, 0 <= v <= 15 -> is_skippable_magic (SKIP_START + v) = true.
Proof.
  intros v Hv. assert (H : v = 0 \/ v = 1 \/ v = 2 \/ v = 3 \/ v = 4 \/ v = 5 \/ v = 6 \/ v = 7 \/ v = 8 \/ v = 9 \/
                       v = 10 \/ v = 11 \/ v = 12 \/ v = 13 \/ v = 14 \/ v = 15) by lia.
  repeat (destruct H as [->|H]; [reflexivity|]). subst. reflexivity.
Qed.

Lemma is_skippable_magic_MAGIC : is_skippable_magic MAGIC = false.
Proof. reflexivity. Qed.

Definition frame_len (f : frame) : Z := len (ser_frame f).

Lemma frame_len_Z : forall h bl ck, h_chk h = true -> length ck = 4%nat \/ True ->
  frame_len (ZFrame h bl ck) = hsize_of h + csize_blocks bl + (if h_chk h then len ck else 0).
Proof.
  intros h bl ck _ _. unfold frame_len. cbn [ser_frame]. rewrite !len_app, len_ser_blocks. unfold hsize_of.
  destruct (h_chk h); rewrite ?len_nil; lia.
Qed.

Lemma frame_len_ZFrame : forall h bl ck,
  frame_len (ZFrame h bl ck) = hsize_of h + csize_blocks bl + (if h_chk h then len ck else 0).
Proof.
  intros h bl ck. unfold frame_len. cbn [ser_frame]. rewrite !len_app, len_ser_blocks. unfold hsize_of.
  destruct (h_chk h); rewrite ?len_nil; lia.
Qed.

Lemma fsi_eq : forall a a' b b' c c', a = a' -> b = b' -> c = c' -> Some (mk_fsi a b c) = Some (mk_fsi a' b' c').
Proof. intros. subst. reflexivity. Qed.

Theorem find_frame_size_info_ser : forall f rest, wf_frame f ->
  find_frame_size_info (ser_frame f ++ rest) = Some (mk_fsi (frame_len f) (bound_of f) (nb_of f)).
Proof.
  intros f rest Hwf. destruct f as [h bl ck|v p].
  - (* zstd frame *)
    destruct Hwf as (Hh & Hne & Hbl & Hck & Hfcs).
    rewrite frame_len_ZFrame. cbn [ser_frame bound_of nb_of].
    rewrite <- !app_assoc.
    destruct (ser_header_facts h (ser_blocks bl ++ (if h_chk h then ck else []) ++ rest) Hh) as (Hmagic & _).
    unfold find_frame_size_info. rewrite Hmagic, is_skippable_magic_MAGIC, Bool.andb_false_r.
    rewrite (get_frame_header_ser h _ Hh). unfold zfh_of. cbn [fh_hsize fh_fcs fh_bsmax fh_chk].
    rewrite (drop_exact_app_eq (ser_header h)) by reflexivity.
    rewrite (walk_blocks_ser (bsmax_of h) bl); [|assumption|assumption|].
    2:{ cbn [length]. rewrite app_length. pose proof (length_ser_blocks_ge bl). lia. }
    assert (Ebnd : (if fcs_of h =? CS_UNKNOWN then (0 + len bl) * bsmax_of h else fcs_of h)
                   = (if has_fcs h then h_fcs h else len bl * bsmax_of h)).
    { unfold fcs_of. destruct (has_fcs h) eqn:Hhas.
      - destruct Hh as (_ & _ & Hf & _ & Hr). specialize (Hr Hhas).
        assert (h_fcs h < CS_UNKNOWN).
        { rewrite CS_UNKNOWN_val. destruct Hr as (R0 & R1 & R2 & R3). rewrite W32_val, CS_ERROR_val in *.
          assert (Hy : h_fcsc h = 0 \/ h_fcsc h = 1 \/ h_fcsc h = 2 \/ h_fcsc h = 3) by lia.
          destruct Hy as [E|[E|[E|E]]]; [specialize (R0 E)|specialize (R1 E)|specialize (R2 E)|specialize (R3 E)]; lia. }
        destruct (Z.eqb_spec (h_fcs h) CS_UNKNOWN); [lia|reflexivity].
      - rewrite Z.eqb_refl. rewrite Z.add_0_l. reflexivity. }
    rewrite Ebnd. rewrite CKSZ_val.
    destruct (h_chk h) eqn:Hc.
    + specialize (Hck eq_refl).
      assert (Hl4 : len ck = 4) by (rewrite len_spec, Hck; reflexivity).
      rewrite (drop_exact_app_eq ck rest 4) by (symmetry; exact Hl4).
      rewrite Hl4. apply fsi_eq; lia.
    + cbn [app]. apply fsi_eq; lia.
  - (* skippable frame *)
    destruct Hwf as (Hv & Hp). cbn [ser_frame bound_of nb_of]. unfold frame_len. cbn [ser_frame].
    pose proof (len_nonneg _ p) as Hp0. rewrite SKIPHDR_val, W32_val in Hp.
    assert (Hmagic : le (firstn 4 ((ser_le 4 (SKIP_START + v) ++ ser_le 4 (len p) ++ p) ++ rest)) = SKIP_START + v).
    { rewrite <- app_assoc. rewrite firstn_app_exact by (rewrite length_ser_le; reflexivity).
      apply le_ser_le_small. rewrite SKIP_START_val. change (256 ^ Z.of_nat 4) with 4294967296. lia. }
    assert (Hlen : len ((ser_le 4 (SKIP_START + v) ++ ser_le 4 (len p) ++ p) ++ rest) = 8 + len p + len rest).
    { rewrite !len_app, !len_ser_le. change (Z.of_nat 4) with 4. lia. }
    assert (Hsz : le (firstn 4 (skipn (Z.to_nat FRAMEIDSIZE) ((ser_le 4 (SKIP_START + v) ++ ser_le 4 (len p) ++ p) ++ rest))) = len p).
    { change (Z.to_nat FRAMEIDSIZE) with 4%nat. rewrite <- !app_assoc.
      rewrite skipn_app_exact by (rewrite length_ser_le; reflexivity).
      rewrite firstn_app_exact by (rewrite length_ser_le; reflexivity).
      apply le_ser_le_small. change (256 ^ Z.of_nat 4) with 4294967296. lia. }
    pose proof (len_nonneg _ rest) as Hr0.
    unfold find_frame_size_info. rewrite Hmagic, (skippable_magic_ok v Hv), Hlen, SKIPHDR_val.
    destruct (Z.leb_spec 8 (8 + len p + len rest)); [|lia]. cbn [andb].
    unfold read_skippable_frame_size. rewrite Hlen, Hsz, SKIPHDR_val, W32_val.
    destruct (Z.ltb_spec (8 + len p + len rest) 8); [lia|].
    rewrite Z.mod_small by lia.
    destruct (Z.ltb_spec (len p + 8) (len p)); [lia|].
    destruct (Z.gtb_spec (8 + len p) (8 + len p + len rest)); [lia|].
    apply fsi_eq; try reflexivity. rewrite !len_app, !len_ser_le. change (Z.of_nat 4) with 4. lia.
Qed.

(* ---- whole inputs: sequences of frames ---- *)
Lemma frame_len_ge4 : forall f, 4 <= frame_len f.
Proof.
  intros f. unfold frame_len. destruct f as [h bl ck|v p]; cbn [ser_frame].
  - rewrite ser_header_shape, <- app_assoc, len_app, len_ser_le. change (Z.of_nat 4) with 4.
    match goal with |- _ <= _ + len ?l => pose proof (len_nonneg _ l) end. lia.
  - rewrite !len_app, !len_ser_le. change (Z.of_nat 4) with 4. pose proof (len_nonneg _ p). lia.
Qed.

Lemma len_ser_frames_cons : forall f t, len (ser_frames (f :: t)) = frame_len f + len (ser_frames t).
Proof. intros. cbn [ser_frames]. rewrite len_app. reflexivity. Qed.

Lemma window_of_nonneg : forall h, wf_hdr h -> 0 <= window_of h.
Proof.
  intros h (Hd & _ & Hf & Hw & Hfcs). unfold window_of. destruct (h_single h) eqn:Hs.
  - assert (Hh : has_fcs h = true) by (unfold has_fcs; rewrite Hs; reflexivity).
    destruct (Hfcs Hh) as (R0 & R1 & R2 & R3).
    assert (Hy : h_fcsc h = 0 \/ h_fcsc h = 1 \/ h_fcsc h = 2 \/ h_fcsc h = 3) by lia.
    destruct Hy as [E|[E|[E|E]]]; [specialize (R0 E)|specialize (R1 E)|specialize (R2 E)|specialize (R3 E)]; lia.
  - destruct (Hw eq_refl) as (H1 & H2 & H3). rewrite WLOG_ABSMIN_val in *.
    assert (0 < 2 ^ (h_wexp h + 10)) by (apply Z.pow_pos_nonneg; lia).
    assert (0 <= 2 ^ (h_wexp h + 10) / 8) by (apply Z.div_pos; lia).
    assert (0 <= 2 ^ (h_wexp h + 10) / 8 * h_wmant h) by (apply Z.mul_nonneg_nonneg; lia). lia.
Qed.

Lemma bsmax_of_nonneg : forall h, wf_hdr h -> 0 <= bsmax_of h <= BSMAX.
Proof. intros h Hh. pose proof (window_of_nonneg h Hh). unfold bsmax_of. rewrite BSMAX_val. lia. Qed.

Lemma fcs_range : forall h, wf_hdr h -> has_fcs h = true -> 0 <= h_fcs h < CS_ERROR.
Proof.
  intros h (Hd & _ & Hf & Hw & Hfcs) Hh. destruct (Hfcs Hh) as (R0 & R1 & R2 & R3).
  rewrite W32_val, CS_ERROR_val in *.
  assert (Hy : h_fcsc h = 0 \/ h_fcsc h = 1 \/ h_fcsc h = 2 \/ h_fcsc h = 3) by lia.
  destruct Hy as [E|[E|[E|E]]]; [specialize (R0 E)|specialize (R1 E)|specialize (R2 E)|specialize (R3 E)]; lia.
Qed.

Lemma regen_blocks_le : forall bsmax bl, Forall (wf_blk bsmax) bl -> 0 <= regen_blocks bl <= len bl * bsmax.
Proof.
  induction bl as [|b t IH]; intros Hwf.
  - cbn [regen_blocks]. rewrite len_nil. lia.
  - inversion Hwf as [|? ? Hb Ht]; subst. specialize (IH Ht). destruct Hb as (Hr & _).
    cbn [regen_blocks]. rewrite len_cons. lia.
Qed.

Lemma bound_of_ge_regen : forall f, wf_frame f -> 0 <= regen_frame f <= bound_of f.
Proof.
  intros f Hwf. destruct f as [h bl ck|v p]; cbn [regen_frame bound_of]; [|lia].
  destruct Hwf as (Hh & Hne & Hbl & Hck & Hfcs). pose proof (regen_blocks_le _ _ Hbl).
  destruct (has_fcs h) eqn:Hhas; [rewrite (Hfcs eq_refl)|]; lia.
Qed.

Lemma bound_frames_ge_regen : forall fl, Forall wf_frame fl -> 0 <= regen_frames fl <= bound_frames fl.
Proof.
  induction fl as [|f t IH]; intros Hwf; cbn [regen_frames bound_frames]; [lia|].
  inversion Hwf as [|? ? Hf Ht]; subst. specialize (IH Ht). pose proof (bound_of_ge_regen f Hf). lia.
Qed.

(* destructing a non-empty serialisation without losing its shape *)
Lemma ser_nonempty : forall f rest, exists x s, ser_frame f ++ rest = x :: s.
Proof.
  intros f rest. destruct (ser_frame f ++ rest) as [|x s] eqn:E; [|eauto].
  exfalso. assert (H : len (ser_frame f ++ rest) = 0) by (rewrite E; reflexivity).
  rewrite len_app in H. pose proof (frame_len_ge4 f). unfold frame_len in *. pose proof (len_nonneg _ rest). lia.
Qed.

Lemma decompress_bound_loop_ser : forall fl fuel acc,
  Forall wf_frame fl -> (length (ser_frames fl) <= length fuel)%nat ->
  0 <= acc -> acc + bound_frames fl < CS_ERROR ->
  decompress_bound_loop fuel (ser_frames fl) acc = Some (acc + bound_frames fl).
Proof.
  induction fl as [|f t IH]; intros fuel acc Hwf Hfuel Hacc Hsum.
  - cbn [ser_frames bound_frames]. destruct fuel; cbn [decompress_bound_loop]; f_equal; lia.
  - inversion Hwf as [|? ? Hf Ht]; subst. cbn [ser_frames bound_frames] in *.
    pose proof (bound_of_ge_regen f Hf) as Hb. pose proof (bound_frames_ge_regen t Ht) as Hbt.
    destruct (ser_nonempty f (ser_frames t)) as (x & s & E).
    destruct fuel as [|y fuel'].
    { exfalso. rewrite E in Hfuel. cbn [length] in Hfuel. lia. }
    unfold decompress_bound_loop; fold decompress_bound_loop. rewrite E. rewrite <- E.
    rewrite (find_frame_size_info_ser f _ Hf). cbn [fsi_bound fsi_csize].
    destruct (Z.eqb_spec (bound_of f) CS_ERROR); [lia|].
    rewrite (drop_exact_app_eq (ser_frame f)) by reflexivity.
    rewrite W64_val. rewrite CS_ERROR_val in *. rewrite Z.mod_small by lia.
    rewrite IH; try assumption; try lia.
    + f_equal. lia.
    + assert (Hl : (length (ser_frame f ++ ser_frames t) <= S (length fuel'))%nat) by exact Hfuel.
      rewrite app_length in Hl. pose proof (frame_len_ge4 f) as H4. unfold frame_len in H4. rewrite len_spec in H4. lia.
Qed.

Theorem decompress_bound_ser : forall fl,
  Forall wf_frame fl -> bound_frames fl < CS_ERROR ->
  decompress_bound (ser_frames fl) = Some (bound_frames fl) /\ regen_frames fl <= bound_frames fl.
Proof.
  intros fl Hwf Hsum. split; [|apply bound_frames_ge_regen; assumption].
  unfold decompress_bound. rewrite decompress_bound_loop_ser; try assumption; try lia. reflexivity.
Qed.

(* ---- ZSTD_getFrameHeader / ZSTD_getFrameContentSize at the start of a serialised frame ---- *)
Definition zfh_of_frame (f : frame) : zfh :=
  match f with
  | ZFrame h _ _ => zfh_of h
  | SFrame _ p => mk_zfh (len p) 0 0 true 0 0 false
  end.

Lemma get_frame_header_frame : forall f rest, wf_frame f ->
  get_frame_header (ser_frame f ++ rest) = HOk (zfh_of_frame f).
Proof.
  intros f rest Hwf. destruct f as [h bl ck|v p].
  - destruct Hwf as (Hh & _). cbn [ser_frame zfh_of_frame]. rewrite <- app_assoc.
    apply get_frame_header_ser. exact Hh.
  - destruct Hwf as (Hv & Hp). cbn [ser_frame zfh_of_frame].
    pose proof (len_nonneg _ p) as Hp0. pose proof (len_nonneg _ rest) as Hr0. rewrite SKIPHDR_val, W32_val in Hp.
    assert (Hmagic : le (firstn 4 ((ser_le 4 (SKIP_START + v) ++ ser_le 4 (len p) ++ p) ++ rest)) = SKIP_START + v).
    { rewrite <- app_assoc. rewrite firstn_app_exact by (rewrite length_ser_le; reflexivity).
      apply le_ser_le_small. rewrite SKIP_START_val. change (256 ^ Z.of_nat 4) with 4294967296. lia. }
    assert (Hlen : len ((ser_le 4 (SKIP_START + v) ++ ser_le 4 (len p) ++ p) ++ rest) = 8 + len p + len rest).
    { rewrite !len_app, !len_ser_le. change (Z.of_nat 4) with 4. lia. }
    assert (Hsz : le (firstn 4 (skipn (Z.to_nat FRAMEIDSIZE) ((ser_le 4 (SKIP_START + v) ++ ser_le 4 (len p) ++ p) ++ rest))) = len p).
    { change (Z.to_nat FRAMEIDSIZE) with 4%nat. rewrite <- !app_assoc.
      rewrite skipn_app_exact by (rewrite length_ser_le; reflexivity).
      rewrite firstn_app_exact by (rewrite length_ser_le; reflexivity).
      apply le_ser_le_small. change (256 ^ Z.of_nat 4) with 4294967296. lia. }
    unfold get_frame_header. rewrite Hlen, Hmagic, Hsz, MIN_INPUT_val, SKIPHDR_val.
    destruct (Z.ltb_spec (8 + len p + len rest) 5); [lia|].
    destruct (Z.eqb_spec (SKIP_START + v) MAGIC) as [E|_]; [rewrite SKIP_START_val, MAGIC_val in E; lia|].
    cbn [negb]. rewrite (skippable_magic_ok v Hv).
    destruct (Z.ltb_spec (8 + len p + len rest) 8); [lia|]. reflexivity.
Qed.

Theorem get_frame_content_size_ser : forall f rest, wf_frame f ->
  get_frame_content_size (ser_frame f ++ rest) =
    match f with
    | ZFrame h bl _ => if has_fcs h then regen_blocks bl else CS_UNKNOWN
    | SFrame _ _ => 0
    end.
Proof.
  intros f rest Hwf. unfold get_frame_content_size. rewrite (get_frame_header_frame f rest Hwf).
  destruct f as [h bl ck|v p]; cbn [zfh_of_frame zfh_of fh_skippable fh_fcs]; [|reflexivity].
  destruct Hwf as (_ & _ & _ & _ & Hfcs). unfold fcs_of. destruct (has_fcs h); [apply Hfcs|]; reflexivity.
Qed.

(* ---- ZSTD_findDecompressedSize ---- *)
Definition frame_has_size (f : frame) : bool :=
  match f with ZFrame h _ _ => has_fcs h | SFrame _ _ => true end.

Lemma frame_magic : forall f rest, wf_frame f ->
  is_skippable_magic (le (firstn 4 (ser_frame f ++ rest))) = match f with ZFrame _ _ _ => false | SFrame _ _ => true end.
Proof.
  intros f rest Hwf. destruct f as [h bl ck|v p].
  - destruct Hwf as (Hh & _). cbn [ser_frame]. rewrite <- app_assoc.
    destruct (ser_header_facts h ((ser_blocks bl ++ (if h_chk h then ck else [])) ++ rest) Hh) as (Hm & _).
    rewrite Hm. reflexivity.
  - destruct Hwf as (Hv & Hp). cbn [ser_frame]. rewrite <- app_assoc.
    rewrite firstn_app_exact by (rewrite length_ser_le; reflexivity).
    rewrite le_ser_le_small by (rewrite SKIP_START_val; change (256 ^ Z.of_nat 4) with 4294967296; lia).
    apply skippable_magic_ok. exact Hv.
Qed.

Lemma find_decompressed_size_loop_ser : forall fl fuel total,
  Forall wf_frame fl -> forallb frame_has_size fl = true ->
  (length (ser_frames fl) < length fuel)%nat ->
  0 <= total -> total + regen_frames fl < CS_ERROR ->
  find_decompressed_size_loop fuel (ser_frames fl) total = total + regen_frames fl.
Proof.
  induction fl as [|f t IH]; intros fuel total Hwf Hsz Hfuel Htot Hsum.
  - cbn [ser_frames regen_frames]. destruct fuel as [|y fuel']; [cbn [length] in Hfuel; lia|].
    cbn [find_decompressed_size_loop]. rewrite len_nil, MIN_INPUT_val. cbn. lia.
  - inversion Hwf as [|? ? Hf Ht]; subst. cbn [ser_frames regen_frames forallb] in *.
    apply Bool.andb_true_iff in Hsz. destruct Hsz as (Hsf & Hst).
    pose proof (bound_of_ge_regen f Hf) as Hb. pose proof (bound_frames_ge_regen t Ht) as Hbt.
    destruct fuel as [|y fuel']; [cbn [length] in Hfuel; lia|].
    pose proof (frame_len_ge4 f) as H4.
    assert (Hl : len (ser_frame f ++ ser_frames t) = frame_len f + len (ser_frames t)) by apply len_app.
    pose proof (len_nonneg _ (ser_frames t)) as Hr0.
    assert (Hfuel' : (length (ser_frames t) < length fuel')%nat).
    { cbn [length] in Hfuel. rewrite app_length in Hfuel. unfold frame_len in H4. rewrite len_spec in H4. lia. }
    assert (H5 : MIN_INPUT <= frame_len f).
    { rewrite MIN_INPUT_val. destruct f as [h bl ck|v p].
      - destruct Hf as (Hh & Hne & Hbl & _). rewrite frame_len_ZFrame.
        pose proof (hsize_formula h (proj1 Hh) (proj1 (proj2 (proj2 Hh)))) as Hhs.
        assert (5 <= hsize_of h).
        { pose proof (frame_header_size_ser h [] Hh) as Hx. unfold frame_header_size in Hx.
          destruct (Z.ltb_spec (len (ser_header h ++ [])) MIN_INPUT); [discriminate|].
          rewrite app_nil_r in *. unfold hsize_of. rewrite MIN_INPUT_val in *. lia. }
        assert (0 <= csize_blocks bl) by (rewrite <- len_ser_blocks; apply len_nonneg).
        pose proof (len_nonneg _ ck). destruct (h_chk h); lia.
      - unfold frame_len. cbn [ser_frame]. rewrite !len_app, !len_ser_le. change (Z.of_nat 4) with 4.
        pose proof (len_nonneg _ p). lia. }
    unfold find_decompressed_size_loop; fold find_decompressed_size_loop.
    rewrite Hl. destruct (Z.ltb_spec (frame_len f + len (ser_frames t)) MIN_INPUT); [lia|].
    rewrite (frame_magic f _ Hf).
    destruct f as [h bl ck|v p].
    + rewrite (get_frame_content_size_ser _ _ Hf). cbn [frame_has_size] in Hsf. rewrite Hsf.
      cbn [regen_frame] in *.
      rewrite CS_ERROR_val, W64_val in *.
      destruct (Z.geb_spec (regen_blocks bl) 18446744073709551614); [lia|].
      destruct (Z.geb_spec (total + regen_blocks bl) 18446744073709551616); [lia|].
      unfold find_frame_compressed_size. rewrite (find_frame_size_info_ser _ _ Hf). cbn [fsi_csize].
      rewrite (drop_exact_app_eq (ser_frame (ZFrame h bl ck))) by reflexivity.
      rewrite IH; try assumption; try lia.
    + assert (Hrs : read_skippable_frame_size (ser_frame (SFrame v p) ++ ser_frames t) = Some (frame_len (SFrame v p))).
      { pose proof (find_frame_size_info_ser (SFrame v p) (ser_frames t) Hf) as Hx.
        unfold find_frame_size_info in Hx. rewrite (frame_magic (SFrame v p) _ Hf) in Hx.
        rewrite Hl in Hx. destruct (Z.leb_spec SKIPHDR (frame_len (SFrame v p) + len (ser_frames t))) as [_|Hc].
        - cbn [andb] in Hx. destruct (read_skippable_frame_size _) as [s|]; [|discriminate].
          injection Hx as Hx. rewrite Hx. reflexivity.
        - exfalso. rewrite SKIPHDR_val in Hc. unfold frame_len in *. cbn [ser_frame] in *.
          rewrite !len_app, !len_ser_le in Hc. change (Z.of_nat 4) with 4 in Hc. pose proof (len_nonneg _ p). lia. }
      rewrite Hrs. rewrite (drop_exact_app_eq (ser_frame (SFrame v p))) by reflexivity.
      cbn [regen_frame] in *. rewrite IH; try assumption; lia.
Qed.

Theorem find_decompressed_size_ser : forall fl,
  Forall wf_frame fl -> forallb frame_has_size fl = true -> regen_frames fl < CS_ERROR ->
  find_decompressed_size (ser_frames fl) = regen_frames fl.
Proof.
  intros fl Hwf Hsz Hsum. unfold find_decompressed_size.
  rewrite find_decompressed_size_loop_ser; try assumption; try lia. cbn [length]. lia.
Qed.

(* ---- ZSTD_decompressionMargin ---- *)
Lemma frame_len_SFrame : forall v p, frame_len (SFrame v p) = SKIPHDR + len p.
Proof.
  intros. unfold frame_len. cbn [ser_frame]. rewrite !len_app, !len_ser_le, SKIPHDR_val. change (Z.of_nat 4) with 4. lia.
Qed.

Lemma bound_of_nonneg : forall f, wf_frame f -> 0 <= bound_of f.
Proof. intros f Hf. pose proof (bound_of_ge_regen f Hf). lia. Qed.

Lemma decompression_margin_loop_ser : forall fl fuel margin maxbs,
  Forall wf_frame fl -> (length (ser_frames fl) <= length fuel)%nat ->
  bound_frames fl < CS_ERROR -> 0 <= maxbs ->
  decompression_margin_loop fuel (ser_frames fl) margin maxbs =
    Some (margin + overhead_frames fl + Z.max maxbs (maxbs_frames fl)).
Proof.
  induction fl as [|f t IH]; intros fuel margin maxbs Hwf Hfuel Hsum Hmb.
  - cbn [ser_frames overhead_frames maxbs_frames]. destruct fuel; cbn [decompression_margin_loop]; f_equal; lia.
  - inversion Hwf as [|? ? Hf Ht]; subst. cbn [ser_frames bound_frames overhead_frames] in *.
    pose proof (bound_of_nonneg f Hf) as Hb. pose proof (bound_frames_ge_regen t Ht) as Hbt.
    destruct (ser_nonempty f (ser_frames t)) as (x & s & E).
    destruct fuel as [|y fuel'].
    { exfalso. rewrite E in Hfuel. cbn [length] in Hfuel. lia. }
    assert (Hfuel' : (length (ser_frames t) <= length fuel')%nat).
    { assert (Hl : (length (ser_frame f ++ ser_frames t) <= S (length fuel'))%nat) by exact Hfuel.
      rewrite app_length in Hl. pose proof (frame_len_ge4 f) as H4. unfold frame_len in H4. rewrite len_spec in H4. lia. }
    unfold decompression_margin_loop; fold decompression_margin_loop. rewrite E. rewrite <- E.
    rewrite (get_frame_header_frame f _ Hf), (find_frame_size_info_ser f _ Hf). cbn [fsi_bound fsi_csize fsi_nb].
    destruct (Z.eqb_spec (bound_of f) CS_ERROR); [lia|].
    rewrite (drop_exact_app_eq (ser_frame f)) by reflexivity.
    destruct f as [h bl ck|v p]; cbn [zfh_of_frame zfh_of fh_skippable fh_hsize fh_chk fh_bsmax nb_of].
    + rewrite IH; try assumption; try lia. cbn [overhead_of maxbs_frames]. f_equal. lia.
    + rewrite IH; try assumption; try lia. cbn [overhead_of maxbs_frames]. rewrite frame_len_SFrame. f_equal. lia.
Qed.

Theorem decompression_margin_ser : forall fl,
  Forall wf_frame fl -> bound_frames fl < CS_ERROR ->
  decompression_margin (ser_frames fl) = Some (margin_of fl).
Proof.
  intros fl Hwf Hsum. unfold decompression_margin. rewrite decompression_margin_loop_ser; try assumption; try lia.
  unfold margin_of. f_equal.
  assert (0 <= maxbs_frames fl).
  { clear Hsum. induction fl as [|f t IH]; cbn [maxbs_frames]; [lia|].
    inversion Hwf; subst. destruct f; [|auto]. specialize (IH H2). lia. }
  lia.
Qed.

(* ---- in-place decoding with the advertised margin ---- *)
Fixpoint gain_blocks (bl : list blk) : Z :=
  match bl with [] => 0 | b :: t => (b_regen b - len (b_payload b)) + gain_blocks t end.
Definition gain_frame (f : frame) : Z := match f with ZFrame _ bl _ => gain_blocks bl | SFrame _ _ => 0 end.
Fixpoint gain_frames (fl : list frame) : Z := match fl with [] => 0 | f :: t => gain_frame f + gain_frames t end.

Lemma gain_blocks_nonneg : forall bl, Forall non_expanding_blk bl -> 0 <= gain_blocks bl.
Proof.
  induction bl as [|b t IH]; intros H; cbn [gain_blocks]; [lia|].
  inversion H as [|? ? Hb Ht]; subst. specialize (IH Ht). unfold non_expanding_blk in Hb. lia.
Qed.

Lemma gain_frames_nonneg : forall fl, Forall non_expanding fl -> 0 <= gain_frames fl.
Proof.
  induction fl as [|f t IH]; intros H; cbn [gain_frames]; [lia|].
  inversion H as [|? ? Hf Ht]; subst. specialize (IH Ht).
  destruct f; cbn [gain_frame non_expanding] in *; [pose proof (gain_blocks_nonneg _ Hf)|]; lia.
Qed.

Lemma csize_blocks_gain : forall bl, csize_blocks bl = 3 * len bl + regen_blocks bl - gain_blocks bl.
Proof.
  induction bl as [|b t IH]; [reflexivity|].
  cbn [csize_blocks regen_blocks gain_blocks]. rewrite len_cons, IH, BHSZ_val. unfold blk_csize. lia.
Qed.

Lemma inplace_blocks_ok : forall M bl op ip oend g,
  Forall (wf_blk M) bl -> Forall non_expanding_blk bl ->
  0 <= g -> M + gain_blocks bl + g <= ip - op -> op + regen_blocks bl <= oend ->
  inplace_blocks bl op ip oend = Some (op + regen_blocks bl, ip + csize_blocks bl) /\
  M + g <= (ip + csize_blocks bl) - (op + regen_blocks bl).
Proof.
  induction bl as [|b t IH]; intros op ip oend g Hwf Hne Hg Hinv Hend.
  - cbn [inplace_blocks regen_blocks csize_blocks gain_blocks] in *. split; [f_equal; f_equal; lia|lia].
  - inversion Hwf as [|? ? Hb Ht]; subst. inversion Hne as [|? ? Hnb Hnt]; subst.
    cbn [inplace_blocks regen_blocks csize_blocks gain_blocks] in *.
    pose proof (gain_blocks_nonneg t Hnt) as Hgt. pose proof (regen_blocks_le M t Ht) as Hrt.
    destruct Hb as (Hr & Hs & Hty). unfold non_expanding_blk in Hnb. pose proof (len_nonneg _ (b_payload b)) as Hp.
    rewrite BHSZ_val in *.
    assert (Hok : (match b_type b with
                   | BRaw => (b_regen b <=? oend - op) && (op <=? ip + 3)
                   | _ => b_regen b <=? (if (op <=? ip + 3) && (ip + 3 <? oend) then ip + 3 else oend) - op
                   end) = true).
    { destruct (b_type b).
      - apply Bool.andb_true_iff. split; apply Z.leb_le; lia.
      - apply Z.leb_le. destruct ((op <=? ip + 3) && (ip + 3 <? oend)); lia.
      - apply Z.leb_le. destruct ((op <=? ip + 3) && (ip + 3 <? oend)); lia. }
    rewrite Hok.
    destruct (IH (op + b_regen b) (ip + 3 + len (b_payload b)) oend g Ht Hnt Hg ltac:(lia) ltac:(lia)) as (Hrun & Hinv').
    rewrite Hrun. unfold blk_csize. split; [f_equal; f_equal; lia|lia].
Qed.

Lemma len_ser_frames_gain : forall fl, Forall wf_frame fl ->
  len (ser_frames fl) = overhead_frames fl + regen_frames fl - gain_frames fl.
Proof.
  induction fl as [|f t IH]; intros Hwf; [reflexivity|].
  inversion Hwf as [|? ? Hf Ht]; subst.
  rewrite len_ser_frames_cons, (IH Ht). cbn [overhead_frames regen_frames gain_frames].
  destruct f as [h bl ck|v p].
  - rewrite frame_len_ZFrame, csize_blocks_gain. cbn [overhead_of regen_frame gain_frame].
    destruct Hf as (_ & _ & _ & Hck & _).
    destruct (h_chk h) eqn:Hc; [|lia]. rewrite (len_spec _ ck), (Hck eq_refl). change (Z.of_nat 4) with 4. lia.
  - rewrite frame_len_SFrame. cbn [overhead_of regen_frame gain_frame]. lia.
Qed.

Lemma inplace_frames_ok : forall M fl op ip oend,
  Forall wf_frame fl -> Forall non_expanding fl ->
  (forall h bl ck, In (ZFrame h bl ck) fl -> bsmax_of h <= M) ->
  M + gain_frames fl <= ip - op -> op + regen_frames fl <= oend ->
  inplace_frames fl op ip oend = Some (op + regen_frames fl, ip + len (ser_frames fl)).
Proof.
  induction fl as [|f t IH]; intros op ip oend Hwf Hne HM Hinv Hend.
  - cbn [inplace_frames regen_frames ser_frames]. rewrite len_nil. f_equal. f_equal; lia.
  - inversion Hwf as [|? ? Hf Ht]; subst. inversion Hne as [|? ? Hnf Hnt]; subst.
    pose proof (gain_frames_nonneg t Hnt) as Hgt.
    rewrite len_ser_frames_cons. cbn [regen_frames gain_frames] in *.
    destruct f as [h bl ck|v p].
    + cbn [inplace_frames regen_frame gain_frame non_expanding] in *.
      destruct Hf as (Hh & Hnil & Hbl & Hck & Hfcs).
      assert (HblM : Forall (wf_blk M) bl).
      { assert (Hle : bsmax_of h <= M) by (apply (HM h bl ck); left; reflexivity).
        eapply Forall_impl; [|exact Hbl]. intros b (Hr & Hs & Hty). repeat split; try lia; assumption. }
      assert (Hhs : 0 <= hsize_of h) by (unfold hsize_of; apply len_nonneg).
      pose proof (regen_blocks_le M bl HblM) as Hrb. pose proof (bound_frames_ge_regen t Ht) as Hrt.
      destruct (inplace_blocks_ok M bl op (ip + hsize_of h) oend (gain_frames t) HblM Hnf Hgt ltac:(lia) ltac:(lia)) as (Hrun & Hinv').
      rewrite Hrun.
      rewrite IH; try assumption; try (destruct (h_chk h); lia);
        try (intros h' bl' ck' Hin; apply (HM h' bl' ck'); right; exact Hin).
      rewrite frame_len_ZFrame. f_equal. f_equal; [lia|].
      destruct (h_chk h) eqn:Hc; [|lia]. rewrite (len_spec _ ck), (Hck eq_refl). change (Z.of_nat 4) with 4. lia.
    + cbn [inplace_frames regen_frame gain_frame] in *. pose proof (len_nonneg _ p). rewrite SKIPHDR_val in *.
      rewrite IH; try assumption; try lia;
        try (intros h' bl' ck' Hin; apply (HM h' bl' ck'); right; exact Hin).
      rewrite frame_len_SFrame, SKIPHDR_val. f_equal. f_equal; lia.
Qed.

Lemma maxbs_frames_bound : forall fl h bl ck, Forall wf_frame fl -> In (ZFrame h bl ck) fl -> bsmax_of h <= maxbs_frames fl.
Proof.
  induction fl as [|f t IH]; intros h bl ck Hwf Hin; [destruct Hin|].
  inversion Hwf as [|? ? Hf Ht]; subst. destruct Hin as [->|Hin].
  - cbn [maxbs_frames]. lia.
  - specialize (IH h bl ck Ht Hin). destruct f; cbn [maxbs_frames]; lia.
Qed.

Lemma overhead_frames_nonneg : forall fl, 0 <= overhead_frames fl.
Proof.
  induction fl as [|f t IH]; cbn [overhead_frames]; [lia|].
  destruct f as [h bl ck|v p]; cbn [overhead_of].
  - pose proof (len_nonneg _ (ser_header h)). pose proof (len_nonneg _ bl). unfold hsize_of. destruct (h_chk h); lia.
  - pose proof (len_nonneg _ p). rewrite SKIPHDR_val. lia.
Qed.

Lemma maxbs_frames_nonneg : forall fl, Forall wf_frame fl -> 0 <= maxbs_frames fl.
Proof.
  induction fl as [|f t IH]; intros Hwf; cbn [maxbs_frames]; [lia|].
  inversion Hwf; subst. destruct f; [|auto]. specialize (IH H2). lia.
Qed.

(* Output buffer of (decoded size + ZSTD_decompressionMargin) bytes, input placed at its end: every block can be
   produced without leaving the buffer and without overwriting input that has not been read - provided no block is
   larger than what it regenerates. *)
Theorem inplace_margin_sound_lemma : forall fl,
  Forall wf_frame fl -> Forall non_expanding fl ->
  let B := regen_frames fl + margin_of fl in
  inplace_decode fl B = Some (regen_frames fl, B).
Proof.
  intros fl Hwf Hne B. unfold inplace_decode.
  pose proof (len_ser_frames_gain fl Hwf) as Hlen. pose proof (gain_frames_nonneg fl Hne) as Hg.
  pose proof (bound_frames_ge_regen fl Hwf) as Hr.
  rewrite (inplace_frames_ok (maxbs_frames fl)); try assumption.
  - f_equal. f_equal; subst B; lia.
  - intros h bl ck Hin. apply (maxbs_frames_bound fl h bl ck Hwf Hin).
  - subst B. unfold margin_of. lia.
  - subst B. unfold margin_of.
    pose proof (overhead_frames_nonneg fl). pose proof (maxbs_frames_nonneg fl Hwf). lia.
Qed.

(* the hypothesis on the blocks is needed: a well-formed layout (the hand-made valid frame of harness/c06_sweep.c:
   window 1 KiB, one RLE block of 1024 bytes, then 1010 compressed blocks of 3 bytes regenerating 1 byte each) for
   which in-place decoding with the advertised margin fails *)
Definition expanding_witness : list frame :=
  [ZFrame (mk_fhdr false 0 0 0 0 0 0 false)
          (mk_blk BRle [82] 1024 :: repeat (mk_blk BCmp [8; 97; 0] 1) 1010)
          []].

Lemma Forall_repeat : forall (A : Type) (P : A -> Prop) x n, P x -> Forall P (repeat x n).
Proof. induction n; intros; cbn [repeat]; constructor; auto. Qed.

Lemma inplace_margin_refuted_lemma :
  Forall wf_frame expanding_witness /\
  decompression_margin (ser_frames expanding_witness) = Some 4063 /\
  inplace_decode expanding_witness (regen_frames expanding_witness + 4063) = None.
Proof.
  split; [|split; vm_compute; reflexivity].
  constructor; [|constructor]. unfold wf_frame. split; [|split; [discriminate|split; [|split; [discriminate|discriminate]]]].
  - unfold wf_hdr. cbn [h_single h_wexp h_wmant h_didc h_did h_fcsc h_fcs h_chk has_fcs did_width Z.eqb orb negb].
    rewrite WLOG_ABSMIN_val, WLOG_MAX_val.
    split; [lia|]. split; [cbn; lia|]. split; [lia|]. split; [intros _; lia|intros H; discriminate].
  - constructor.
    + unfold wf_blk. cbn. repeat split; lia.
    + apply Forall_repeat. unfold wf_blk. cbn. repeat split; lia.
Qed.

Theorem find_frame_compressed_size_ser : forall f rest, wf_frame f ->
  find_frame_compressed_size (ser_frame f ++ rest) = Some (len (ser_frame f)).
Proof.
  intros f rest Hwf. unfold find_frame_compressed_size. rewrite (find_frame_size_info_ser f rest Hwf). reflexivity.
Qed.

(* the hypotheses are satisfiable: a skippable frame followed by a single-segment frame with checksum *)
Definition example_layout : list frame :=
  [SFrame 3 [1; 2; 3];
   ZFrame (mk_fhdr true 0 0 1 7 0 5 true) [mk_blk BRaw [1; 2; 3] 3; mk_blk BRle [9] 2] [0; 0; 0; 0]].

Example example_layout_ok :
  Forall wf_frame example_layout /\ Forall non_expanding example_layout /\
  forallb frame_has_size example_layout = true /\
  find_decompressed_size (ser_frames example_layout) = 5 /\
  decompress_bound (ser_frames example_layout) = Some 5 /\
  decompression_margin (ser_frames example_layout) = Some (11 + (7 + 4 + 6) + 5) /\
  inplace_decode example_layout (5 + 33) = Some (5, 38).
Proof.
  split; [|split; [|repeat split; vm_compute; reflexivity]].
  - constructor; [|constructor; [|constructor]].
    + unfold wf_frame. split; [lia|]. vm_compute. reflexivity.
    + unfold wf_frame. split; [|split; [discriminate|split; [|split; [reflexivity|reflexivity]]]].
      * unfold wf_hdr. cbn [h_single h_wexp h_wmant h_didc h_did h_fcsc h_fcs h_chk has_fcs did_width Z.eqb Pos.eqb orb negb].
        split; [lia|]. split; [cbn; lia|]. split; [lia|]. split; [intros H; discriminate|].
        intros _. repeat split; intros; try lia; try discriminate.
      * constructor; [|constructor; [|constructor]]; unfold wf_blk; cbn; repeat split; lia.
  - constructor; [exact I|constructor; [|constructor]].
    cbn [non_expanding]. constructor; [|constructor; [|constructor]]; unfold non_expanding_blk; cbn; lia.
Qed.
