(* C06 - proofs about coq/Codec/FrameInspect.v *)
From Coq Require Import ZArith List Bool Lia.
From ZV.Gen Require Gen_Tables.
From ZV.Codec Require Import FrameInspect.
Import ListNotations.
Local Open Scope Z_scope.

(* ---- constants (T-tie: these break when a header changes) ---- *)
Lemma MAGIC_val : MAGIC = 4247762216. Proof. reflexivity. Qed.
Lemma SKIP_START_val : SKIP_START = 407710288. Proof. reflexivity. Qed.
Lemma SKIP_MASK_val : SKIP_MASK = 4294967280. Proof. reflexivity. Qed.
Lemma SKIPHDR_val : SKIPHDR = 8. Proof. reflexivity. Qed.
Lemma FRAMEIDSIZE_val : FRAMEIDSIZE = 4. Proof. reflexivity. Qed.
Lemma BHSZ_val : BHSZ = 3. Proof. reflexivity. Qed.
Lemma CKSZ_val : CKSZ = 4. Proof. reflexivity. Qed.
Lemma WLOG_ABSMIN_val : WLOG_ABSMIN = 10. Proof. reflexivity. Qed.
Lemma WLOG_MAX_val : WLOG_MAX = 31. Proof. reflexivity. Qed.
Lemma BSMAX_val : BSMAX = 131072. Proof. reflexivity. Qed.
Lemma CS_UNKNOWN_val : CS_UNKNOWN = 18446744073709551615. Proof. reflexivity. Qed.
Lemma CS_ERROR_val : CS_ERROR = 18446744073709551614. Proof. reflexivity. Qed.
Lemma MIN_INPUT_val : MIN_INPUT = 5. Proof. reflexivity. Qed.
Lemma W64_val : W64 = 18446744073709551616. Proof. reflexivity. Qed.
Lemma W32_val : W32 = 4294967296. Proof. reflexivity. Qed.
Lemma did_size_vals : did_size 0 = 0 /\ did_size 1 = 1 /\ did_size 2 = 2 /\ did_size 3 = 4.
Proof. repeat split; reflexivity. Qed.
Lemma fcs_size_vals : fcs_size 0 = 0 /\ fcs_size 1 = 2 /\ fcs_size 2 = 4 /\ fcs_size 3 = 8.
Proof. repeat split; reflexivity. Qed.

(* ---- len ---- *)
Lemma len_aux_spec : forall (A : Type) (l : list A) acc, len_aux l acc = acc + Z.of_nat (length l).
Proof.
  induction l as [|x t IH]; intros acc; cbn [len_aux length].
  - lia.
  - rewrite IH. lia.
Qed.
Lemma len_spec : forall (A : Type) (l : list A), len l = Z.of_nat (length l).
Proof. intros. unfold len. rewrite len_aux_spec. lia. Qed.
Lemma len_app : forall (A : Type) (a b : list A), len (a ++ b) = len a + len b.
Proof. intros. rewrite !len_spec, app_length. lia. Qed.
Lemma len_cons : forall (A : Type) (x : A) l, len (x :: l) = 1 + len l.
Proof. intros. rewrite !len_spec. cbn [length]. lia. Qed.
Lemma len_nil : forall (A : Type), len (@nil A) = 0.
Proof. reflexivity. Qed.
Lemma len_nonneg : forall (A : Type) (l : list A), 0 <= len l.
Proof. intros. rewrite len_spec. lia. Qed.

(* ---- drop_exact ---- *)
Lemma drop_exact_0 : forall l, drop_exact l 0 = Some l.
Proof. destruct l; reflexivity. Qed.
Lemma drop_exact_app : forall a b, drop_exact (a ++ b) (len a) = Some b.
Proof.
  induction a as [|x a IH]; intros b.
  - rewrite len_nil. cbn [app]. apply drop_exact_0.
  - cbn [app drop_exact]. rewrite len_cons. pose proof (len_nonneg _ a).
    destruct (Z.leb_spec (1 + len a) 0); [lia|].
    replace (1 + len a - 1) with (len a) by lia. apply IH.
Qed.
Lemma drop_exact_app_eq : forall a b k, k = len a -> drop_exact (a ++ b) k = Some b.
Proof. intros. subst. apply drop_exact_app. Qed.

(* ---- little endian ---- *)
Lemma length_ser_le : forall k v, length (ser_le k v) = k.
Proof. induction k; intros; cbn [ser_le length]; [reflexivity|]. rewrite IHk. reflexivity. Qed.
Lemma len_ser_le : forall k v, len (ser_le k v) = Z.of_nat k.
Proof. intros. rewrite len_spec, length_ser_le. reflexivity. Qed.

Lemma le_ser_le : forall k v, 0 <= v -> le (ser_le k v) = v mod 256 ^ Z.of_nat k.
Proof.
  induction k as [|k IH]; intros v Hv.
  - cbn [ser_le le]. change (256 ^ Z.of_nat 0) with 1. rewrite Z.mod_1_r. reflexivity.
  - cbn [ser_le le]. rewrite IH by (apply Z.div_pos; lia).
    rewrite Nat2Z.inj_succ, Z.pow_succ_r by lia.
    rewrite Z.rem_mul_r by (try lia; apply Z.pow_pos_nonneg; lia). reflexivity.
Qed.
Lemma le_ser_le_small : forall k v, 0 <= v < 256 ^ Z.of_nat k -> le (ser_le k v) = v.
Proof. intros. rewrite le_ser_le by lia. apply Z.mod_small. lia. Qed.

Lemma firstn_app_exact : forall (A : Type) (a b : list A) k, k = length a -> firstn k (a ++ b) = a.
Proof. intros. subst. rewrite firstn_app, Nat.sub_diag, firstn_all. cbn [firstn]. apply app_nil_r. Qed.
Lemma skipn_app_exact : forall (A : Type) (a b : list A) k, k = length a -> skipn k (a ++ b) = b.
Proof. intros. subst. rewrite skipn_app, Nat.sub_diag, skipn_all. reflexivity. Qed.
