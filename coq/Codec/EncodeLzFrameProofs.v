(* The LZ compressor model is lossless: any block split, any valid parse per block, any frame parameters. *)
From Coq Require Import NArith ZArith List Bool Lia.
From ZV.Codec Require Import Bytes ListLemmas XXH64 Fse Huf Block Frame LzProofs FrameProofs LzContent Encode EncodeProofs EncodeSeq EncodeSeqProofs.
From ZV.Codec Require Import EncodeLzFrame.
Import ListNotations.
Local Open Scope N_scope.

(* ---------- list-level facts ---------- *)
Lemma copy_naive_prefix n : forall off h, exists p, copy_naive n off h = p ++ h /\ length p = n.
Proof.
  induction n as [|n IH]; intros off h; cbn [copy_naive]; [exists []; auto|].
  destruct (IH off (nth (off - 1) h 0 :: h)) as (p & E & L). exists (p ++ [nth (off - 1) h 0]).
  rewrite E, <- app_assoc, app_length, L. cbn [app length]. split; [reflexivity|lia].
Qed.

Lemma lz_exec_prefix : forall qs rep h lits h1 l1 r1, lz_exec qs rep h lits = Some (h1, l1, r1) -> exists p, h1 = p ++ h.
Proof.
  induction qs as [|q t IH]; intros rep h lits h1 l1 r1 H; cbn [lz_exec] in H.
  - injection H as <- _ _. exists []. reflexivity.
  - destruct (resolve_offset (q_ofv q) (q_ll q) rep) as [[off rep']|]; [|discriminate].
    unfold lz_step in H. apply IH in H. destruct H as (p & ->).
    destruct (copy_naive_prefix (N.to_nat (q_ml q)) (N.to_nat off) (rev (firstn (N.to_nat (q_ll q)) lits) ++ h)) as (p2 & E2 & _).
    rewrite E2. exists (p ++ p2 ++ rev (firstn (N.to_nat (q_ll q)) lits)). rewrite <- !app_assoc. reflexivity.
Qed.

(* ---------- validity on numbers implies the decoder executes the sequences ---------- *)
Lemma seqs_ok_exec strict window blockMax : forall qs rep x lits,
  inv x -> seqs_ok strict window blockMax qs rep (x_avail x) (x_pos x) (x_blk x) (lenN lits) = true ->
  exists x' lits' rep', exec_seqs strict window blockMax qs rep x lits = Ok (x', lits', rep') /\
                        x_blk x' + x_avail x = x_blk x + x_avail x'.
Proof.
  induction qs as [|q t IH]; intros rep x lits Hi H; cbn [seqs_ok exec_seqs] in *.
  - eexists. eexists. eexists. split; [reflexivity|lia].
  - destruct (resolve_offset (q_ofv q) (q_ll q) rep) as [[off rep']|] eqn:Er; [|discriminate]. cbn [bind].
    apply andb_true_iff in H. destruct H as (H1 & H). apply andb_true_iff in H. destruct H as (H2 & H).
    apply andb_true_iff in H. destruct H as (H3 & H4). apply N.leb_le in H1. apply N.leb_le in H3.
    (* exec_seq succeeds *)
    assert (Ex : exists x1 lits1, exec_seq strict window blockMax x lits (q_ll q) (q_ml q) off = Ok (x1, lits1)).
    { unfold exec_seq. rewrite splitN_spec. destruct (N.leb_spec (q_ll q) (lenN lits)) as [_|]; [|lia]. cbn [of_opt bind fst snd].
      assert (Ll : lenN (firstn (N.to_nat (q_ll q)) lits) = q_ll q) by (apply lenN_firstn_le; exact H1).
      destruct (push_fwd_inv x _ (q_ll q) Hi Ll) as (_ & P1 & A1 & B1).
      unfold offset_ok. rewrite A1, P1. unfold offset_ok_n in H2. rewrite H2. cbn [guard bind]. rewrite B1.
      destruct (N.leb_spec (x_blk x + q_ll q + q_ml q) blockMax) as [_|]; [|lia]. cbn [guard bind]. eexists. eexists. reflexivity. }
    destruct Ex as (x1 & lits1 & Ex). rewrite Ex. cbn [bind].
    destruct (exec_seq_inv _ _ _ _ _ _ _ _ _ _ Hi Ex) as (I1 & P1 & A1 & B1 & _ & L1).
    destruct (IH rep' x1 lits1 I1) as (x' & lits' & rep2 & E & G).
    { rewrite A1, P1, B1. replace (lenN lits1) with (lenN lits - q_ll q) by lia. exact H4. }
    exists x', lits', rep2. split; [exact E|lia].
Qed.

(* ---------- the basic block, with the repeat offsets it leaves behind ---------- *)
Lemma cblock_basic_full strict window blockMax e x lits qs regen x1 lits1 rep1 :
  sinv x -> blockMax <= BLOCK_MAX -> lenN lits <= blockMax ->
  qs <> [] -> lenN qs < 98048 -> Forall seq_in_range qs ->
  exec_seqs strict window blockMax qs (e_rep e) (x_block_start x) lits = Ok (x1, lits1, rep1) ->
  x_blk x1 + lenN lits1 <= blockMax ->
  parses qs (e_rep e) (x_hist x) lits regen ->
  exists payload e' x' bt,
    enc_cblock_basic lits qs = Some payload /\
    decode_cblock strict window blockMax e x payload = Ok (e', x', bt) /\ ext x x' regen /\ e_rep e' = rep1.
Proof.
  intros Hs HB Hl Hne Hn HF Hex Hfit Hp.
  destruct (decode_enc_cblock_basic strict window blockMax e x lits qs x1 lits1 rep1 HB Hl Hne Hn HF Hex Hfit) as (payload & e' & bt & Henc & Hdec & Hrep).
  destruct (cblock_basic_regenerates strict window blockMax e x lits qs regen x1 lits1 rep1 Hs HB Hl Hne Hn HF Hex Hfit Hp)
    as (payload2 & e2 & x2 & bt2 & Henc2 & Hdec2 & Hext).
  rewrite Henc in Henc2. injection Henc2 as <-. rewrite Hdec in Hdec2. injection Hdec2 as <- <- <-.
  exists payload, e', (push_fwd x1 lits1 (lenN lits1)), bt. auto.
Qed.

(* ---------- abstraction between the list-level state and the decoder state ---------- *)
Definition abs (z : lzstate) (e : entropy) (x : xstate) : Prop :=
  sinv x /\ x_hist x = z_hist z /\ e_rep e = z_rep z /\ x_pos x = z_pos z.

Lemma forallb_in_range qs : forallb seq_in_range_b qs = true -> Forall seq_in_range qs.
Proof.
  intros H. apply Forall_forall. intros q Hq. rewrite forallb_forall in H. specialize (H q Hq). unfold seq_in_range_b in H.
  repeat (apply andb_true_iff in H; destruct H as (?H & H)). unfold seq_in_range. rewrite pow2_pow in H.
  repeat match goal with K : (_ <? _) = true |- _ => apply N.ltb_lt in K | K : (_ <=? _) = true |- _ => apply N.leb_le in K end. lia.
Qed.

Lemma pblock_step_sound strict window blockMax z e x b eb z1 :
  blockMax <= BLOCK_MAX -> abs z e x -> pblock_step strict window blockMax z b = Some (eb, z1) ->
  exists e1 x1, block_spec strict window blockMax e x eb = Ok (e1, x1) /\ ext x x1 (block_content eb) /\ abs z1 e1 x1.
Proof.
  intros HB (Hs & Hh & Hr & Hp) H. destruct b as [d|v n|lits qs]; cbn [pblock_step] in H.
  - destruct (N.leb_spec (lenN d) blockMax) as [Hd|]; [|discriminate]. injection H as <- <-.
    cbn [block_spec block_content]. destruct (N.leb_spec (lenN d) blockMax) as [_|]; [|lia]. cbn [guard bind].
    exists e, (push_fwd x d (lenN d)). split; [reflexivity|]. pose proof (push_fwd_ext x d Hs) as E. split; [exact E|].
    destruct E as (S1 & H1 & P1 & _). unfold abs; cbn [z_hist z_rep z_pos]. split; [exact S1|]. split; [|split; [exact Hr|lia]].
    rewrite H1, Hh. symmetry. apply rev_append_rev.
  - destruct (N.leb_spec n blockMax) as [Hn|]; [|discriminate]. injection H as <- <-.
    cbn [block_spec block_content]. destruct (N.leb_spec n blockMax) as [_|]; [|lia]. cbn [guard bind].
    exists e, (push_rev x (repeatN v n []) n). split; [reflexivity|]. pose proof (push_rev_ext x v n Hs) as E. split; [exact E|].
    destruct E as (S1 & H1 & P1 & _). unfold abs; cbn [z_hist z_rep z_pos]. split; [exact S1|]. split; [|split; [exact Hr|]].
    + rewrite H1, Hh, !repeatN_spec, app_nil_r, rev_repeat_self. reflexivity.
    + rewrite P1, lenN_repeatN, lenN_nil. lia.
  - destruct qs as [|q0 qr] eqn:Eqs; [discriminate|]. rewrite <- Eqs in *.
    destruct (andb (lenN lits <=? blockMax) _) eqn:Ec; [|discriminate].
    apply andb_true_iff in Ec. destruct Ec as (C1 & Ec). apply andb_true_iff in Ec. destruct Ec as (C2 & Ec).
    apply andb_true_iff in Ec. destruct Ec as (C3 & C4). apply N.leb_le in C1. apply N.ltb_lt in C2. apply forallb_in_range in C3.
    destruct (lz_exec qs (z_rep z) (z_hist z) lits) as [[[h1 lits1] rep1]|] eqn:Elz; [|discriminate].
    destruct (enc_cblock_basic lits qs) as [payload|] eqn:Eenc; [|discriminate].
    set (h2 := rev_append lits1 h1) in *. set (added := lenN h2 - lenN (z_hist z)) in *.
    destruct (andb (added <=? blockMax) (lenN payload <=? blockMax)) eqn:Ef; [|discriminate].
    apply andb_true_iff in Ef. destruct Ef as (F1 & F2). apply N.leb_le in F1. apply N.leb_le in F2.
    injection H as <- <-. cbn [block_spec block_content].
    assert (Hne : qs <> []) by (rewrite Eqs; discriminate).
    pose proof Hs as ((Ea & Epos & Emk) & Hmk).
    (* the decoder executes the sequences *)
    destruct (seqs_ok_exec strict window blockMax qs (z_rep z) (x_block_start x) lits) as (xe & le & re & Hex & Gb).
    { destruct Hs as ((A & B & C) & _). repeat split; assumption. }
    { cbn [x_block_start x_avail x_pos x_blk]. rewrite Ea, Hh, Hp. exact C4. }
    destruct (exec_seqs_spec _ _ _ _ _ _ _ _ _ _ (x_block_start_sinv x Hs) Hex) as (Se & Le & Ge).
    cbn [x_block_start x_hist x_pos x_avail x_blk] in Le, Ge, Gb. rewrite Hh, Elz in Le. injection Le as Eh El Er. subst le re.
    (* history grows by prepending *)
    destruct (lz_exec_prefix _ _ _ _ _ _ _ Elz) as (pre & Epre).
    assert (Eh2 : h2 = (rev lits1 ++ pre) ++ z_hist z) by (unfold h2; rewrite rev_append_rev, Epre, <- app_assoc; reflexivity).
    assert (Eadd : added = lenN (rev lits1 ++ pre)) by (unfold added; rewrite Eh2, lenN_app; lia).
    set (regen := rev' (takeN added h2)).
    assert (Ereg : rev regen = rev lits1 ++ pre).
    { unfold regen. rewrite rev'_rev, rev_involutive, takeN_firstn, Eh2, Eadd, lenN_length, Nat2N.id, firstn_app, Nat.sub_diag, firstn_all. cbn [firstn]. apply app_nil_r. }
    assert (Hparse : parses qs (e_rep e) (x_hist x) lits regen).
    { exists h1, lits1, rep1. rewrite Hr, Hh. split; [exact Elz|]. rewrite Ereg, <- app_assoc. f_equal. exact Epre. }
    assert (Hfit : x_blk xe + lenN lits1 <= blockMax).
    { destruct Se as ((Eae & _) & _). rewrite Eadd, lenN_app, lenN_rev in F1. rewrite Eae, <- Eh, Epre, lenN_app in Gb. rewrite <- Hh, <- Ea in Gb. lia. }
    rewrite <- Hr in Hex.
    destruct (cblock_basic_full strict window blockMax e x lits qs regen xe lits1 rep1 Hs HB C1 Hne C2 C3 Hex Hfit Hparse)
      as (payload2 & e' & x' & bt & Henc2 & Hdec & Hext & Hrep).
    rewrite Eenc in Henc2. injection Henc2 as <-.
    destruct (N.leb_spec (lenN payload) blockMax) as [_|]; [|lia]. cbn [guard bind]. rewrite Hdec. cbn [bind fst snd].
    exists e', x'. split; [reflexivity|]. split; [exact Hext|].
    destruct Hext as (S' & H' & P' & A'). unfold abs; cbn [z_hist z_rep z_pos]. split; [exact S'|]. split; [|split; [exact Hrep|]].
    + rewrite H', Ereg, Hh, Eh2. reflexivity.
    + rewrite P', Hp. f_equal. rewrite <- (lenN_rev regen), Ereg. exact (eq_sym Eadd).
Qed.

Lemma pblocks_run_sound strict window blockMax : blockMax <= BLOCK_MAX -> forall bs z e x ebs z1,
  abs z e x -> pblocks_run strict window blockMax z bs = Some (ebs, z1) ->
  exists e1 x1, blocks_spec strict window blockMax e x ebs = Ok (e1, x1) /\ ext x x1 (blocks_content ebs) /\ abs z1 e1 x1 /\ length ebs = length bs.
Proof.
  intros HB. induction bs as [|b t IH]; intros z e x ebs z1 Ha H; cbn [pblocks_run] in H.
  - injection H as <- <-. exists e, x. split; [reflexivity|]. split; [apply ext_refl; exact (proj1 Ha)|]. split; [exact Ha|reflexivity].
  - destruct (pblock_step strict window blockMax z b) as [[eb zb]|] eqn:Eb; [|discriminate].
    destruct (pblocks_run strict window blockMax zb t) as [[ebt z2]|] eqn:Et; [|discriminate]. injection H as <- <-.
    destruct (pblock_step_sound _ _ _ _ _ _ _ _ _ HB Ha Eb) as (e1 & x1 & S1 & X1 & A1).
    destruct (IH zb e1 x1 ebt z2 A1 Et) as (e2 & x2 & S2 & X2 & A2 & L2).
    exists e2, x2. cbn [blocks_spec]. rewrite S1. cbn [bind fst snd]. split; [exact S2|].
    split; [|split; [exact A2|cbn [length]; lia]].
    unfold blocks_content. cbn [map concat]. fold (blocks_content ebt). eapply ext_trans; eassumption.
Qed.

(* ---------- the frame ---------- *)
Definition z_init (d : option dict) : lzstate :=
  {| z_hist := rev' (dict_content d); z_rep := e_rep (dict_entropy d); z_pos := 0 |}.

Theorem lz_model_lossless cfg d p dictID pbs ebs z rest :
  let content := blocks_content ebs in
  let win := frame_window p (lenN content) in
  let blockMax := N.min (N.min win BLOCK_MAX) (c_block_max cfg) in
  pbs <> [] ->
  pblocks_run (c_strict_window cfg) win blockMax (z_init d) pbs = Some (ebs, z) ->
  params_ok p (lenN content) dictID -> c_magicless cfg = fp_magicless p -> win <= c_window_max cfg -> dict_ok d p dictID ->
  (exists t, decode_frame cfg d (enc_frame p dictID ebs ++ rest) = Ok (content, t, rest) /\ fh_expected p (lenN content) dictID (ft_header t)) /\
  z_hist z = rev content ++ rev' (dict_content d) /\ z_pos z = lenN content.
Proof.
  intros content win blockMax Hne Hrun Hp Hml Hw Hd.
  assert (Ha : abs (z_init d) (dict_entropy d) (x_init d)).
  { split; [apply x_init_inv|]. repeat split. }
  assert (HBM : blockMax <= BLOCK_MAX) by (unfold blockMax; apply N.le_trans with (N.min win BLOCK_MAX); [apply N.le_min_l|apply N.le_min_r]).
  destruct (pblocks_run_sound (c_strict_window cfg) win blockMax HBM pbs (z_init d) (dict_entropy d) (x_init d) ebs z Ha Hrun)
    as (e1 & x1 & Hspec & Hext & (S1 & H1 & R1 & P1) & Hlen).
  split.
  - eapply decode_enc_frame; eauto. destruct ebs; [destruct pbs; [congruence|discriminate]|discriminate].
  - destruct Hext as (_ & Hh & Hpos & _). unfold x_init in Hh, Hpos; cbn [x_hist x_pos] in Hh, Hpos. split; [rewrite <- H1; exact Hh|rewrite <- P1, Hpos; apply N.add_0_l].
Qed.

(* conformance and truthfulness of model frames: accepted by the STRICT decoder, declared size and checksum are the content's *)
Theorem lz_model_conformant cfg d p dictID pbs ebs z rest :
  let content := blocks_content ebs in
  let win := frame_window p (lenN content) in
  let blockMax := N.min (N.min win BLOCK_MAX) (c_block_max cfg) in
  c_strict_window cfg = true -> c_check cfg = true ->
  pbs <> [] ->
  pblocks_run true win blockMax (z_init d) pbs = Some (ebs, z) ->
  params_ok p (lenN content) dictID -> c_magicless cfg = fp_magicless p -> win <= c_window_max cfg -> dict_ok d p dictID ->
  exists t, decode_frame cfg d (enc_frame p dictID ebs ++ rest) = Ok (content, t, rest) /\
            (forall v, fh_fcs (ft_header t) = Some v -> v = lenN content) /\
            (fh_checksum (ft_header t) = true -> ft_checksum t = Some (FrameProofs.low32 (xxh64 content 0))) /\
            Forall (fun b => bt_rsize b <= blockMax) (ft_blocks t).
Proof.
  intros content win blockMax Hs Hc Hne Hrun Hp Hml Hw Hd.
  rewrite <- Hs in Hrun.
  destruct (lz_model_lossless cfg d p dictID pbs ebs z rest Hne Hrun Hp Hml Hw Hd) as ((t & Ht & Hexp) & _).
  exists t. split; [exact Ht|].
  destruct (FrameProofs.decode_frame_sound _ _ _ _ _ _ Ht) as (_ & Hb & Hf & Hk & _ & _ & _ & _).
  split; [exact Hf|]. split; [intros H; exact (Hk H Hc)|].
  destruct Hexp as (Ew & _). fold content in Ew. fold (frame_window p (lenN content)) in Ew. rewrite Ew in Hb. exact Hb.
Qed.

(* with a dictionary: history and repeat offsets start from it, the frame carries its ID *)
Theorem lz_model_lossless_dict cfg dc p pbs ebs z rest :
  let d := Some dc in
  let content := blocks_content ebs in
  let win := frame_window p (lenN content) in
  let blockMax := N.min (N.min win BLOCK_MAX) (c_block_max cfg) in
  pbs <> [] ->
  pblocks_run (c_strict_window cfg) win blockMax (z_init d) pbs = Some (ebs, z) ->
  params_ok p (lenN content) (d_id dc) -> c_magicless cfg = fp_magicless p -> win <= c_window_max cfg ->
  (exists t, decode_frame cfg d (enc_frame p (d_id dc) ebs ++ rest) = Ok (content, t, rest) /\
             fh_expected p (lenN content) (d_id dc) (ft_header t)) /\
  z_hist z = rev content ++ rev' (d_content dc) /\ z_pos z = lenN content.
Proof.
  intros d content win blockMax Hne Hrun Hp Hml Hw.
  apply (lz_model_lossless cfg (Some dc) p (d_id dc) pbs ebs z rest Hne Hrun Hp Hml Hw).
  cbn [dict_ok]. destruct (fp_noDictID p); [left|right]; reflexivity.
Qed.
