(* C04, round 2: the content the specification defines does not depend on WHICH of the equivalent encodings of a field the
   producer chose.  The bundled compressor always writes the shortest form; the format allows the others (a literals
   header wider than necessary, Number_of_Sequences on two bytes although it fits one - including 0 written 80 00 -,
   Repeat_Mode after any table mode).  These are the forms the independent frame writer of the C04 check
   (zv/props/c04_enc.py) emits; here: the reference decoder R gives them the same meaning, for every value. *)
From Coq Require Import NArith ZArith List Bool Lia.
From ZV.Codec Require Import Bytes ListLemmas Fse Huf Block Frame LzProofs LzContent Encode EncodeProofs EncodeSeq EncodeSeqProofs.
Import ListNotations.
Local Open Scope N_scope.

(* ---------- Number_of_Sequences ---------- *)
(* form 1: one byte (n < 128); form 2: two bytes (n < 0x7F00, fully overlaps form 1); form 3: three bytes (0x7F00 <= n) *)
Definition nbseq_form (f n : N) : bytes :=
  if f =? 1 then [n]
  else if f =? 2 then [128 + n / 256; n mod 256]
  else 255 :: write_le 2 (n - 32512).

Definition nbseq_form_ok (f n : N) : Prop :=
  (f = 1 /\ n < 128) \/ (f = 2 /\ n < 32512) \/ (f = 3 /\ 32512 <= n < 32512 + 65536).

Lemma read_nbseq_any_form f n t : nbseq_form_ok f n -> read_nbseq (nbseq_form f n ++ t) = Ok (n, t).
Proof.
  unfold nbseq_form_ok, nbseq_form. intros [[-> H]|[[-> H]|[-> H]]].
  - cbn [N.eqb Pos.eqb app read_nbseq]. destruct (N.ltb_spec n 128); [reflexivity|lia].
  - cbn [N.eqb Pos.eqb app read_nbseq].
    assert (Hq : n / 256 < 127) by (apply N.div_lt_upper_bound; [discriminate|lia]).
    destruct (N.ltb_spec (128 + n / 256) 128); [lia|].
    destruct (N.eqb_spec (128 + n / 256) 255); [lia|].
    f_equal. f_equal. rewrite N.shiftl_mul_pow2. change (2 ^ 8) with 256.
    replace (128 + n / 256 - 128) with (n / 256) by lia. pose proof (N.div_mod n 256 ltac:(discriminate)). lia.
  - cbn [N.eqb Pos.eqb app read_nbseq]. cbn [N.ltb N.compare Pos.compare Pos.compare_cont N.eqb Pos.eqb].
    rewrite read_le_write_le by (change (2 ^ (8 * N.of_nat 2)) with 65536; lia). cbn [of_opt bind fst snd].
    f_equal. f_equal. lia.
Qed.

(* the one-byte and the two-byte forms of the same count are read alike *)
Corollary nbseq_forms_agree n t : n < 128 ->
  read_nbseq (nbseq_form 1 n ++ t) = read_nbseq (nbseq_form 2 n ++ t).
Proof. intros H. rewrite !read_nbseq_any_form; [reflexivity| |]; unfold nbseq_form_ok; lia. Qed.

(* ---------- raw / RLE literals headers of every width ---------- *)
(* w = 1, 2, 3 bytes; c = 0 raw, 1 RLE *)
Definition lit_hdr_w (c w n : N) : bytes :=
  if w =? 1 then write_le 1 (c + 8 * n)
  else if w =? 2 then write_le 2 (c + 4 + 16 * n)
  else write_le 3 (c + 12 + 16 * n).

Definition lit_hdr_w_ok (w n : N) : Prop :=
  (w = 1 /\ n < 32) \/ (w = 2 /\ n < 4096) \/ (w = 3 /\ n < 1048576).

Lemma lenN_lit_hdr_w c w n : lit_hdr_w_ok w n -> lenN (lit_hdr_w c w n) = w.
Proof. unfold lit_hdr_w_ok, lit_hdr_w. intros [[-> _]|[[-> _]|[-> _]]]; reflexivity. Qed.

Local Transparent decode_literals.

Lemma lit_hdr_w_decode c w n body : c < 2 -> lit_hdr_w_ok w n ->
  exists b0 t,
    lit_hdr_w c w n ++ body = b0 :: t /\ N.land b0 3 = c /\
    let sf := N.land (N.shiftr b0 2) 3 in
    w = (if N.even sf then 1 else if sf =? 1 then 2 else 3) /\
    exists hv, read_le (N.to_nat w) (lit_hdr_w c w n ++ body) = Some (hv, body) /\
               (if N.even sf then N.shiftr hv 3 else N.shiftr hv 4) = n.
Proof.
  intros Hc. unfold lit_hdr_w_ok, lit_hdr_w. intros [[-> H]|[[-> H]|[-> H]]]; cbn [N.eqb Pos.eqb].
  - pose proof (N.div_mod n 2 ltac:(discriminate)) as Dn. pose proof (N.mod_lt n 2 ltac:(discriminate)) as Mn.
    destruct (lit_b0_fields c (2 * (n mod 2)) (n / 2) ltac:(lia) ltac:(lia)) as (F1 & F2).
    replace (c + 4 * (2 * (n mod 2)) + 16 * (n / 2)) with (c + 8 * n) in F1, F2 by lia.
    exists ((c + 8 * n) mod 256), body. cbn [write_le app].
    split; [reflexivity|]. split; [exact F1|]. cbv zeta. rewrite F2.
    assert (Ev : N.even (2 * (n mod 2)) = true) by (rewrite N.even_mul; reflexivity). rewrite Ev.
    split; [reflexivity|].
    exists (c + 8 * n). split.
    + change (N.to_nat 1) with 1%nat. apply (read_le_write_le 1). change (2 ^ (8 * N.of_nat 1)) with 256. lia.
    + rewrite N.shiftr_div_pow2. change (2 ^ 3) with 8. replace (c + 8 * n) with (c + n * 8) by lia.
      rewrite N.div_add by discriminate. rewrite N.div_small by lia. reflexivity.
  - destruct (lit_b0_fields c 1 n ltac:(lia) ltac:(lia)) as (F1 & F2).
    replace (c + 4 * 1 + 16 * n) with (c + 4 + 16 * n) in F1, F2 by lia.
    destruct (write_le_first 1 (c + 4 + 16 * n)) as (t & Et).
    exists ((c + 4 + 16 * n) mod 256), (t ++ body).
    split; [rewrite Et; reflexivity|]. split; [exact F1|]. cbv zeta. rewrite F2. cbn [N.even N.eqb Pos.eqb].
    split; [reflexivity|].
    exists (c + 4 + 16 * n). split.
    + change (N.to_nat 2) with 2%nat. apply (read_le_write_le 2). change (2 ^ (8 * N.of_nat 2)) with 65536. lia.
    + rewrite N.shiftr_div_pow2. change (2 ^ 4) with 16. replace (c + 4 + 16 * n) with (c + 4 + n * 16) by lia.
      rewrite N.div_add by discriminate. rewrite N.div_small by lia. reflexivity.
  - destruct (lit_b0_fields c 3 n ltac:(lia) ltac:(lia)) as (F1 & F2).
    replace (c + 4 * 3 + 16 * n) with (c + 12 + 16 * n) in F1, F2 by lia.
    destruct (write_le_first 2 (c + 12 + 16 * n)) as (t & Et).
    exists ((c + 12 + 16 * n) mod 256), (t ++ body).
    split; [rewrite Et; reflexivity|]. split; [exact F1|]. cbv zeta. rewrite F2. cbn [N.even N.eqb Pos.eqb].
    split; [reflexivity|].
    exists (c + 12 + 16 * n). split.
    + change (N.to_nat 3) with 3%nat. apply (read_le_write_le 3). change (2 ^ (8 * N.of_nat 3)) with 16777216. lia.
    + rewrite N.shiftr_div_pow2. change (2 ^ 4) with 16. replace (c + 12 + 16 * n) with (c + 12 + n * 16) by lia.
      rewrite N.div_add by discriminate. rewrite N.div_small by lia. reflexivity.
Qed.

(* raw literals: whatever the header width, the section regenerates the bytes that follow the header *)
Lemma decode_lits_raw_any_width blockMax huf w lits tail :
  lit_hdr_w_ok w (lenN lits) -> lenN lits <= blockMax ->
  decode_literals blockMax huf (lit_hdr_w 0 w (lenN lits) ++ lits ++ tail) = Ok (lits, huf, w + lenN lits, 0).
Proof.
  intros Hw Hn.
  destruct (lit_hdr_w_decode 0 w (lenN lits) (lits ++ tail) ltac:(lia) Hw) as (b0 & t & E0 & T & Hh & hv & Hr & Hv).
  unfold decode_literals. rewrite E0. rewrite <- E0. rewrite T. cbn [N.ltb N.compare].
  cbv zeta in Hh, Hv. rewrite <- Hh, Hr. cbn [of_opt bind]. rewrite Hv.
  destruct (N.leb_spec (lenN lits) blockMax) as [_|]; [|lia]. cbn [guard bind N.eqb].
  rewrite splitN_app. cbn [of_opt bind fst]. reflexivity.
Qed.

(* RLE literals: whatever the header width, n copies of the byte that follows the header *)
Lemma decode_lits_rle_any_width blockMax huf w v n tail :
  lit_hdr_w_ok w n -> n <= blockMax ->
  decode_literals blockMax huf (lit_hdr_w 1 w n ++ [v] ++ tail) = Ok (repeatN v n [], huf, w + 1, 1).
Proof.
  intros Hw Hn.
  destruct (lit_hdr_w_decode 1 w n ([v] ++ tail) ltac:(lia) Hw) as (b0 & t & E0 & T & Hh & hv & Hr & Hv).
  unfold decode_literals. rewrite E0. rewrite <- E0. rewrite T. cbn [N.ltb N.compare Pos.compare Pos.compare_cont].
  cbv zeta in Hh, Hv. rewrite <- Hh, Hr. cbn [of_opt bind]. rewrite Hv.
  destruct (N.leb_spec n blockMax) as [_|]; [|lia]. cbn [guard bind N.eqb Pos.eqb app]. reflexivity.
Qed.
Local Opaque decode_literals.

(* ---------- Repeat_Mode ---------- *)
(* the table in force is used again whatever mode produced it (predefined, RLE, compressed, or a dictionary's), nothing is read *)
Lemma seq_table_repeat maxSV maxLog deflog defnorm t src :
  seq_table 3 maxSV maxLog deflog defnorm (Some t) src = Ok (t, src).
Proof. reflexivity. Qed.

Lemma seq_table_repeat_after_rle maxSV maxLog deflog defnorm s tail src2 :
  s <= maxSV ->
  exists t, seq_table 1 maxSV maxLog deflog defnorm None ([s] ++ tail) = Ok (t, tail) /\
            seq_table 3 maxSV maxLog deflog defnorm (Some t) src2 = Ok (rle_table s, src2).
Proof. intros H. exists (rle_table s). split; [apply seq_table_rle; exact H|reflexivity]. Qed.

Lemma seq_table_repeat_after_predefined maxSV maxLog deflog defnorm prev t src src2 :
  seq_table 0 maxSV maxLog deflog defnorm prev src = Ok (t, src) ->
  seq_table 3 maxSV maxLog deflog defnorm (Some t) src2 = Ok (t, src2) /\
  seq_table 0 maxSV maxLog deflog defnorm (Some t) src2 = Ok (t, src2).
Proof.
  unfold seq_table. cbn [N.eqb Pos.eqb]. destruct (build_dtable deflog defnorm) as [t0|c s]; cbn [bind]; [|discriminate].
  intros H. injection H as <-. split; reflexivity.
Qed.

(* ---------- a compressed block without sequences, in every spelling ---------- *)
(* raw literals header of any width, Number_of_Sequences = 0 written on one byte (00) or on two (80 00): the block regenerates
   exactly its literals and leaves the entropy state (tables for Repeat_Mode, repeat offsets, Huffman tree) untouched *)
Lemma decode_cblock_literals_only strict window blockMax e x w f lits :
  lit_hdr_w_ok w (lenN lits) -> (f = 1 \/ f = 2) -> lenN lits <= blockMax ->
  exists bt,
    decode_cblock strict window blockMax e x (lit_hdr_w 0 w (lenN lits) ++ lits ++ nbseq_form f 0) =
      Ok (e, push_fwd {| x_hist := x_hist x; x_marks := x_marks x; x_avail := x_avail x; x_pos := x_pos x; x_blk := 0 |} lits (lenN lits), bt)
    /\ bt_rsize bt = lenN lits /\ bt_seqs bt = [].
Proof.
  intros Hw Hf Hn.
  assert (Hlen : lenN (lit_hdr_w 0 w (lenN lits)) = w) by (apply lenN_lit_hdr_w; exact Hw).
  assert (Hw1 : 1 <= w) by (unfold lit_hdr_w_ok in Hw; lia).
  assert (Hnf : nbseq_form_ok f 0) by (unfold nbseq_form_ok; lia).
  assert (Hf1 : 1 <= lenN (nbseq_form f 0)) by (destruct Hf as [-> | ->]; cbn; lia).
  unfold decode_cblock.
  set (src := lit_hdr_w 0 w (lenN lits) ++ lits ++ nbseq_form f 0).
  assert (Hsrc : 2 <=? lenN src = true).
  { apply N.leb_le. unfold src. rewrite !lenN_app, Hlen. lia. }
  rewrite Hsrc. cbn [guard bind].
  unfold src at 1. rewrite (decode_lits_raw_any_width blockMax (e_huf e) w lits (nbseq_form f 0) Hw Hn). cbn [bind].
  assert (Hskip : skipN src (w + lenN lits) = nbseq_form f 0).
  { unfold src. rewrite app_assoc.
    replace (w + lenN lits) with (lenN (lit_hdr_w 0 w (lenN lits) ++ lits)) by (rewrite lenN_app, Hlen; reflexivity).
    apply skipN_app_len. }
  rewrite Hskip.
  pose proof (read_nbseq_any_form f 0 [] Hnf) as Hr. rewrite app_nil_r in Hr. rewrite Hr. cbn [bind N.eqb].
  cbn [guard bind]. cbn [x_blk N.add].
  destruct (N.leb_spec (lenN lits) blockMax) as [_|]; [|lia]. cbn [guard bind].
  eexists. split; [destruct e; reflexivity|]. cbn [bt_rsize bt_seqs]. split; [|reflexivity].
  unfold push_fwd. cbn [x_blk]. lia.
Qed.

(* ---------- Frame_Content_Size of a single-segment frame on every field width ---------- *)
(* no checksum, no dictionary id; k = 1, 2, 4, 8 bytes (the 2-byte form stores v - 256).  The compressor picks the narrowest field;
   a wider one describes the same frame: same window (= content size), same declared size, same Block_Maximum_Size *)
Definition ss_header (k v : N) : bytes :=
  write_le 4 MAGIC ++
  (if k =? 1 then 32 :: write_le 1 v
   else if k =? 2 then 96 :: write_le 2 (v - 256)
   else if k =? 4 then 160 :: write_le 4 v
   else 224 :: write_le 8 v).

Definition ss_width_ok (k v : N) : Prop :=
  (k = 1 /\ v < 256) \/ (k = 2 /\ 256 <= v < 65792) \/ (k = 4 /\ v < 4294967296) \/ (k = 8 /\ v < 18446744073709551616).

Lemma parse_ss_header k v rest : ss_width_ok k v ->
  exists h, parse_fheader false (ss_header k v ++ rest) = Ok (h, rest) /\
            fh_window h = v /\ fh_fcs h = Some v /\ fh_single h = true /\ fh_checksum h = false /\ fh_dictid h = 0.
Proof.
  unfold ss_width_ok, ss_header, parse_fheader.
  intros [[-> H]|[[-> H]|[[-> H]|[-> H]]]]; cbn [N.eqb Pos.eqb]; rewrite <- app_assoc;
    rewrite (read_le_write_le 4 MAGIC) by (vm_compute; reflexivity); cbn [of_opt bind fst snd];
    rewrite N.eqb_refl; cbn [guard bind app].
  - change (N.testbit 32 3) with false; change (N.testbit 32 5) with true; change (N.testbit 32 2) with false;
    change (N.land 32 3) with 0; change (N.shiftr 32 6) with 0.
    cbn [negb guard bind N.eqb Pos.eqb N.to_nat]. rewrite read_le_0. cbn [of_opt bind].
    change (Pos.to_nat 1) with 1%nat. rewrite (read_le_write_le 1 v) by (change (2 ^ (8 * N.of_nat 1)) with 256; lia). cbn [of_opt bind N.eqb Pos.eqb].
    eexists. split; [reflexivity|]. cbn. repeat split; reflexivity.
  - change (N.testbit 96 3) with false; change (N.testbit 96 5) with true; change (N.testbit 96 2) with false;
    change (N.land 96 3) with 0; change (N.shiftr 96 6) with 1.
    cbn [negb guard bind N.eqb Pos.eqb N.to_nat]. rewrite read_le_0. cbn [of_opt bind].
    change (Pos.to_nat 2) with 2%nat. rewrite (read_le_write_le 2 (v - 256)) by (change (2 ^ (8 * N.of_nat 2)) with 65536; lia). cbn [of_opt bind N.eqb Pos.eqb].
    eexists. split; [reflexivity|]. cbn. replace (v - 256 + 256) with v by lia. repeat split; reflexivity.
  - change (N.testbit 160 3) with false; change (N.testbit 160 5) with true; change (N.testbit 160 2) with false;
    change (N.land 160 3) with 0; change (N.shiftr 160 6) with 2.
    cbn [negb guard bind N.eqb Pos.eqb N.to_nat]. rewrite read_le_0. cbn [of_opt bind].
    change (Pos.to_nat 4) with 4%nat. rewrite (read_le_write_le 4 v) by (change (2 ^ (8 * N.of_nat 4)) with 4294967296; lia). cbn [of_opt bind N.eqb Pos.eqb].
    eexists. split; [reflexivity|]. cbn. repeat split; reflexivity.
  - change (N.testbit 224 3) with false; change (N.testbit 224 5) with true; change (N.testbit 224 2) with false;
    change (N.land 224 3) with 0; change (N.shiftr 224 6) with 3.
    cbn [negb guard bind N.eqb Pos.eqb N.to_nat]. rewrite read_le_0. cbn [of_opt bind].
    change (Pos.to_nat 8) with 8%nat. rewrite (read_le_write_le 8 v) by (change (2 ^ (8 * N.of_nat 8)) with 18446744073709551616; lia). cbn [of_opt bind N.eqb Pos.eqb].
    eexists. split; [reflexivity|]. cbn. repeat split; reflexivity.
Qed.

(* ---------- whole frames made of raw blocks, RLE blocks and literals-only compressed blocks in any spelling ---------- *)
Definition lit_only_payload (w f : N) (lits : bytes) : bytes := lit_hdr_w 0 w (lenN lits) ++ lits ++ nbseq_form f 0.
Definition lit_only_block (w f : N) (lits : bytes) : eblock := EBComp (lit_only_payload w f lits) lits.

Inductive spelled_block : eblock -> Prop :=
| SB_raw d : spelled_block (EBRaw d)
| SB_rle v n : spelled_block (EBRle v n)
| SB_lit w f lits : lit_hdr_w_ok w (lenN lits) -> (f = 1 \/ f = 2) -> spelled_block (lit_only_block w f lits).

(* stored size and regenerated size both within Block_Maximum_Size *)
Definition block_fits2 (blockMax : N) (b : eblock) : Prop := block_fits blockMax b /\ lenN (block_content b) <= blockMax.

Lemma ext_block_start x x' c :
  ext {| x_hist := x_hist x; x_marks := x_marks x; x_avail := x_avail x; x_pos := x_pos x; x_blk := 0 |} x' c -> ext x x' c.
Proof. unfold ext. cbn [x_hist x_pos x_avail]. tauto. Qed.

Lemma blocks_spec_spelled strict window blockMax : forall bs e x,
  sinv x -> Forall spelled_block bs -> Forall (block_fits2 blockMax) bs ->
  exists x', blocks_spec strict window blockMax e x bs = Ok (e, x') /\ ext x x' (blocks_content bs).
Proof.
  induction bs as [|b t IH]; intros e x Hi Hs Hf.
  - exists x. split; [reflexivity|]. apply ext_refl. exact Hi.
  - inversion Hs as [|? ? Sb St]; subst. inversion Hf as [|? ? Fb Ft]; subst.
    unfold blocks_content. cbn [map concat]. fold (blocks_content t).
    destruct Fb as (Fb & Fc).
    destruct Sb as [d|v n|w f lits Hw Hff]; cbn [block_fits] in Fb; cbn [blocks_spec block_spec block_content lit_only_block].
    + destruct (N.leb_spec (lenN d) blockMax) as [_|]; [|lia]. cbn [guard bind fst snd].
      pose proof (push_fwd_ext x d Hi) as E1. destruct E1 as (I1 & R1).
      destruct (IH e (push_fwd x d (lenN d)) I1 St Ft) as (x' & Hx & E2).
      exists x'. split; [exact Hx|]. eapply ext_trans; [split; [exact I1|exact R1]|exact E2].
    + destruct (N.leb_spec n blockMax) as [_|]; [|lia]. cbn [guard bind fst snd].
      pose proof (push_rev_ext x v n Hi) as E1. destruct E1 as (I1 & R1).
      destruct (IH e (push_rev x (repeatN v n []) n) I1 St Ft) as (x' & Hx & E2).
      exists x'. split; [exact Hx|]. eapply ext_trans; [split; [exact I1|exact R1]|exact E2].
    + cbn [lit_only_block block_fits] in Fb. cbn [lit_only_block block_content] in Fc.
      destruct (N.leb_spec (lenN (lit_only_payload w f lits)) blockMax) as [_|]; [|lia]. cbn [guard bind].
      destruct (decode_cblock_literals_only strict window blockMax e x w f lits Hw Hff Fc) as (bt & Hd & _).
      unfold lit_only_payload. rewrite Hd. cbn [bind fst snd].
      set (xs := {| x_hist := x_hist x; x_marks := x_marks x; x_avail := x_avail x; x_pos := x_pos x; x_blk := 0 |}).
      assert (His : sinv xs) by (apply (x_block_start_sinv x Hi)).
      pose proof (push_fwd_ext xs lits His) as E1.
      destruct (IH e (push_fwd xs lits (lenN lits)) (proj1 E1) St Ft) as (x' & Hx & E2).
      exists x'. split; [exact Hx|]. eapply ext_trans; [apply ext_block_start; exact E1|exact E2].
Qed.

(* the frame-level statement: header of any admissible parameter vector, any list of such blocks, optional checksum, anything after it *)
Theorem decode_frame_spelled_blocks cfg d p dictID bs rest :
  params_ok p (lenN (blocks_content bs)) dictID ->
  bs <> [] -> Forall spelled_block bs ->
  Forall (block_fits2 (N.min (N.min (frame_window p (lenN (blocks_content bs))) BLOCK_MAX) (c_block_max cfg))) bs ->
  c_magicless cfg = fp_magicless p ->
  frame_window p (lenN (blocks_content bs)) <= c_window_max cfg ->
  dict_ok d p dictID ->
  exists t, decode_frame cfg d (enc_frame p dictID bs ++ rest) = Ok (blocks_content bs, t, rest).
Proof.
  intros Hp Hne Hs Hf Hml Hw Hd.
  cut (exists t, decode_frame cfg d (enc_frame p dictID bs ++ rest) = Ok (blocks_content bs, t, rest) /\
                 fh_expected p (lenN (blocks_content bs)) dictID (ft_header t)); [intros (t & H & _); eauto|].
  destruct (blocks_spec_spelled (c_strict_window cfg) (frame_window p (lenN (blocks_content bs)))
              (N.min (N.min (frame_window p (lenN (blocks_content bs))) BLOCK_MAX) (c_block_max cfg))
              bs (dict_entropy d) (x_init d) (x_init_inv d) Hs Hf) as (x' & Hspec & Hext).
  eapply decode_enc_frame; eauto.
Qed.
