(* C08, round 3 - re-use of a dictionary's FSE tables by the compressor ("repeat" mode of the sequence section).
   Mirrors, in lib/compress/zstd_compress.c : ZSTD_dictNCountRepeat, the offcodeMax computation of ZSTD_loadCEntropy,
   the "valid -> check" downgrade of the offset-code table after every block (ZSTD_compressBlock_internal,
   ZSTD_compressBlock_targetCBlockSize, ZSTD_compressSeqStore_singleBlock, ZSTD_compressBlock_splitBlock), and in
   lib/compress/zstd_compress_sequences.c : ZSTD_selectEncodingType (the costs are oracle inputs; ZSTD_fseBitCost is modelled by
   its error condition : a symbol that occurs is beyond the table's last symbol or has probability 0).
   Proved : whatever the dictionary's normalized counters, the content size, the strategy, the block history and the cost values,
   a block whose sequences use the previous table (set_repeat) only contains symbols that table can encode; in particular the
   blind re-use of a table marked "valid" (strategies below lazy, fewer than 1000 sequences) is safe, because the offset codes
   reachable in the first block never exceed the offcodeMax the loader checked (minimum match 3 makes the bound exact). *)
From Coq Require Import NArith ZArith List Bool Lia.
Import ListNotations.
Local Open Scope N_scope.

Definition MaxOff : N := 31.
Definition MaxML : N := 52.
Definition MaxLL : N := 35.
Definition KB128 : N := 131072.
Definition U32MAX : N := 4294967295.
Definition ZSTD_REP_NUM : N := 3.
Definition ZSTD_lazy : N := 4.

Inductive rmode := RNone | RCheck | RValid.      (* FSE_repeat_none / _check / _valid *)
Inductive etype := Basic | Rle | Repeat | Compressed.   (* set_basic / set_rle / set_repeat / set_compressed *)

(* normalized counters : -1 = "less than one", 0 = symbol absent *)
Definition cnt (l : list Z) (s : N) : Z := nth (N.to_nat s) l 0%Z.

(* ZSTD_dictNCountRepeat(normalizedCounter, dictMaxSymbolValue, maxSymbolValue) *)
Definition all_nonzero (l : list Z) (maxSym : N) : bool :=
  forallb (fun s => negb (Z.eqb (cnt l (N.of_nat s)) 0)) (seq 0 (S (N.to_nat maxSym))).
Definition ncount_repeat (l : list Z) (dictMaxSym maxSym : N) : rmode :=
  if dictMaxSym <? maxSym then RCheck else if all_nonzero l maxSym then RValid else RCheck.

(* ZSTD_loadCEntropy : offcodeMax = MaxOff; if (dictContentSize <= ((U32)-1) - 128 KB) offcodeMax = ZSTD_highbit32(dictContentSize + 128 KB) *)
Definition offcode_max (c : N) : N := if c <=? U32MAX - KB128 then N.log2 (c + KB128) else MaxOff.
Definition of_bound (c : N) : N := N.min (offcode_max c) MaxOff.
Definition of_mode (l : list Z) (dictMaxSym c : N) : rmode := ncount_repeat l dictMaxSym (of_bound c).

(* offset code of a match : offBase = offset + ZSTD_REP_NUM, code = ZSTD_highbit32(offBase) *)
Definition of_code (offset : N) : N := N.log2 (offset + ZSTD_REP_NUM).

(* ---- tables and the encodability of a symbol ---- *)
Record table := { tb_cnt : list Z; tb_max : N }.
Definition encb (t : table) (s : N) : bool := (s <=? tb_max t) && negb (Z.eqb (cnt (tb_cnt t) s) 0).
Definition enc (t : table) (s : N) : Prop := encb t s = true.
(* ZSTD_fseBitCost(prevCTable, count, max) succeeds iff every symbol that occurs is <= the table's last symbol and has a state *)
Definition cost_ok (t : table) (used : list N) : bool := forallb (encb t) used.

(* one block, one of the three symbol kinds : the symbols that occur, the statistics ZSTD_selectEncodingType looks at, the three cost
   values (oracles), the table a set_compressed choice would build, and whether the block is finally emitted compressed
   (ZSTD_blockState_confirmRepcodesAndEntropyTables) or stored raw / RLE (next tables dropped) *)
Record block := { b_used : list N; b_nbSeq : N; b_mostFreq : N; b_basic : N; b_tblcost : N; b_comp : N; b_newtab : table; b_kept : bool }.

Definition ole (x y : option N) : bool :=     (* comparison of size_t costs, None = ERROR(GENERIC) = the largest value *)
  match x, y with Some a, Some c => a <=? c | Some _, None => true | None, None => true | None, Some _ => false end.

Definition is_valid (m : rmode) : bool := match m with RValid => true | _ => false end.

(* ZSTD_selectEncodingType : returns the type and the new *repeatMode *)
Definition select (strategy : N) (defaultAllowed : bool) (defaultNormLog : N) (m : rmode) (t : table) (b : block) : etype * rmode :=
  if b_mostFreq b =? b_nbSeq b then ((if defaultAllowed && (b_nbSeq b <=? 2) then Basic else Rle), RNone)
  else if strategy <? ZSTD_lazy then
    if defaultAllowed then
      let dynMin := N.shiftr (N.shiftl 1 defaultNormLog * (10 - strategy)) 3 in
      if is_valid m && (b_nbSeq b <? 1000) then (Repeat, m)
      else if (b_nbSeq b <? dynMin) || (b_mostFreq b <? N.shiftr (b_nbSeq b) (defaultNormLog - 1)) then (Basic, RNone)
      else (Compressed, RCheck)
    else (Compressed, RCheck)
  else
    let basic := if defaultAllowed then Some (b_basic b) else None in
    let rep := match m with RNone => None | _ => if cost_ok t (b_used b) then Some (b_tblcost b) else None end in
    if ole basic rep && ole basic (Some (b_comp b)) then (Basic, RNone)
    else if ole rep (Some (b_comp b)) then (Repeat, m)
    else (Compressed, RCheck).

(* one block : choice, confirmation, and (offset codes only : downgrade = true) valid -> check once a block has gone by *)
Definition step (strategy : N) (da : bool) (dnl : N) (downgrade : bool) (st : table * rmode) (b : block) : etype * (table * rmode) :=
  let '(t, m) := st in
  let '(e, m') := select strategy da dnl m t b in
  let '(t2, m2) := if b_kept b then ((match e with Compressed => b_newtab b | _ => t end), m') else (t, m) in
  (e, (t2, if downgrade && is_valid m2 then RCheck else m2)).

Section Run.
Variables (strategy : N) (da : bool) (dnl : N) (downgrade : bool) (boundN : N).

(* the trace : for every block, the type chosen, the table in force when it was chosen, the symbols of the block *)
Fixpoint trace (st : table * rmode) (blocks : list block) : list (etype * table * list N) :=
  match blocks with
  | [] => []
  | b :: r => let '(e, st') := step strategy da dnl downgrade st b in (e, fst st, b_used b) :: trace st' r
  end.

(* the symbols of the first block are <= bnd, those of the later blocks <= boundN *)
Fixpoint bounded (bnd : N) (blocks : list block) : Prop :=
  match blocks with [] => True | b :: r => Forall (fun s => s <= bnd) (b_used b) /\ bounded boundN r end.

Definition inv (st : table * rmode) (bnd : N) : Prop := snd st = RValid -> forall s, s <= bnd -> enc (fst st) s.

Lemma select_repeat m t b e m' : select strategy da dnl m t b = (e, m') -> e = Repeat ->
  m' = m /\ (m = RValid \/ cost_ok t (b_used b) = true).
Proof.
  unfold select. intros H E. subst e.
  destruct (b_mostFreq b =? b_nbSeq b). { destruct (da && (b_nbSeq b <=? 2)); inversion H. }
  destruct (strategy <? ZSTD_lazy).
  - destruct da; [|inversion H].
    destruct (is_valid m && (b_nbSeq b <? 1000)) eqn:V.
    + inversion H; subst. split; [reflexivity|left]. apply andb_prop in V. destruct V as [V _]. destruct m'; try discriminate; reflexivity.
    + destruct ((b_nbSeq b <? _) || _); inversion H.
  - match type of H with (if ?c then _ else _) = _ => destruct c end; [inversion H|].
    match type of H with (if ?c then _ else _) = _ => destruct c eqn:R end; [|inversion H].
    inversion H; subst. split; [reflexivity|right].
    destruct m'; cbn in R; try discriminate; destruct (cost_ok t (b_used b)); try reflexivity; cbn in R; discriminate.
Qed.

Lemma select_valid_out m t b e m' : select strategy da dnl m t b = (e, m') -> m' = RValid -> e = Repeat /\ m = RValid.
Proof.
  unfold select. intros H E. subst m'.
  destruct (b_mostFreq b =? b_nbSeq b). { inversion H. }
  destruct (strategy <? ZSTD_lazy).
  - destruct da; [|inversion H].
    destruct (is_valid m && (b_nbSeq b <? 1000)). { inversion H; subst; auto. }
    destruct ((b_nbSeq b <? _) || _); inversion H.
  - match type of H with (if ?c then _ else _) = _ => destruct c end; [inversion H|].
    match type of H with (if ?c then _ else _) = _ => destruct c end; inversion H; subst; auto.
Qed.

Lemma cost_ok_forall t used : cost_ok t used = true -> Forall (enc t) used.
Proof. unfold cost_ok. rewrite forallb_forall, Forall_forall. auto. Qed.

Lemma trace_safe : forall blocks st bnd,
  (downgrade = false -> boundN <= bnd) -> inv st bnd -> bounded bnd blocks ->
  Forall (fun x => let '(e, t, used) := x in e = Repeat -> Forall (enc t) used) (trace st blocks).
Proof.
  induction blocks as [|b r IH]; intros st bnd HB HI HBd; cbn [trace]; [constructor|].
  destruct st as [t m]. cbn [bounded] in HBd. destruct HBd as [Hu Hr].
  unfold step. destruct (select strategy da dnl m t b) as [e m'] eqn:S.
  destruct (b_kept b) eqn:K.
  - constructor.
    + cbn [fst]. intros E. destruct (select_repeat _ _ _ _ _ S E) as [_ [V|C]].
      * rewrite Forall_forall in *. intros s Hs. apply (HI V). apply Hu, Hs.
      * apply cost_ok_forall, C.
    + apply IH with (bnd := boundN); [intros; apply N.le_refl| |exact Hr].
      unfold inv. cbn [fst snd]. intros V s Hs.
      destruct downgrade eqn:D; cbn [andb] in V.
      * destruct m'; cbn in V; discriminate.
      * destruct (select_valid_out _ _ _ _ _ S V) as [E Vm]. subst e. apply (HI Vm). specialize (HB eq_refl). lia.
  - constructor.
    + cbn [fst]. intros E. destruct (select_repeat _ _ _ _ _ S E) as [_ [V|C]].
      * rewrite Forall_forall in *. intros s Hs. apply (HI V). apply Hu, Hs.
      * apply cost_ok_forall, C.
    + apply IH with (bnd := boundN); [intros; apply N.le_refl| |exact Hr].
      unfold inv. cbn [fst snd]. intros V s Hs.
      destruct downgrade eqn:D; cbn [andb] in V.
      * destruct m; cbn in V; discriminate.
      * apply (HI V). specialize (HB eq_refl). lia.
Qed.
End Run.

(* ---- the loader's marks imply the invariant ---- *)
Lemma valid_covers l dms maxSym s : ncount_repeat l dms maxSym = RValid -> s <= maxSym -> enc {| tb_cnt := l; tb_max := dms |} s.
Proof.
  unfold ncount_repeat, enc, encb. cbn [tb_cnt tb_max]. intros H L.
  destruct (dms <? maxSym) eqn:D; [discriminate|]. apply N.ltb_ge in D.
  destruct (all_nonzero l maxSym) eqn:A; [|discriminate].
  unfold all_nonzero in A. rewrite forallb_forall in A.
  specialize (A (N.to_nat s)). rewrite N2Nat.id in A.
  rewrite A; [|apply in_seq; lia]. rewrite andb_true_r. apply N.leb_le. lia.
Qed.

(* offsets of the first block : position p of the block (block size B <= 128 KB, a match has at least 3 bytes : p + 3 <= B) back to
   byte q of the dictionary content (c bytes) or to the block itself (back <= p) *)
Lemma first_block_offcode_le c B p back : c <= U32MAX - KB128 -> B <= KB128 -> p + 3 <= B -> back <= p + c ->
  of_code back <= of_bound c /\ of_code back <= MaxOff.
Proof.
  intros C HB HP HK. unfold of_code, of_bound, offcode_max, ZSTD_REP_NUM, MaxOff.
  assert (E : (c <=? U32MAX - KB128) = true) by (apply N.leb_le; exact C). rewrite E.
  unfold U32MAX, KB128 in *.
  assert (L1 : N.log2 (back + 3) <= N.log2 (c + 131072)) by (apply N.log2_le_mono; lia).
  assert (L2 : N.log2 (c + 131072) <= N.log2 4294967295) by (apply N.log2_le_mono; lia).
  change (N.log2 4294967295) with 31 in L2. lia.
Qed.

(* the bound is attained : content 2^17, the last 3-byte match of a full block reaching the first dictionary byte needs code 18 = offcodeMax *)
Example first_block_bound_tight : of_code (131072 - 3 + 131072) = offcode_max 131072 /\ offcode_max 131072 = 18.
Proof. vm_compute. split; reflexivity. Qed.

(* a loader computing the bound from dictContentSize + 128 KB - 4 would miss that code *)
Example first_block_bound_mutant_refuted : N.log2 (131072 + KB128 - 4) < of_code (131072 - 3 + 131072).
Proof. vm_compute. reflexivity. Qed.

(* ---- main theorems ---- *)
(* offset codes : dictionary table (counters l, last symbol dms), content size c; the first block's codes are those reachable
   (first_block_offcode_le), later blocks use any code up to MaxOff *)
Theorem of_table_reuse_safe : forall strategy da dnl l dms c blocks,
  bounded MaxOff (of_bound c) blocks ->
  Forall (fun x => let '(e, t, used) := x in e = Repeat -> Forall (enc t) used)
         (trace strategy da dnl true ({| tb_cnt := l; tb_max := dms |}, of_mode l dms c) blocks).
Proof.
  intros. eapply trace_safe with (bnd := of_bound c); [discriminate| |exact H].
  unfold inv. cbn [fst snd]. intros V s Hs. eapply valid_covers; [exact V|exact Hs].
Qed.

(* literal-length / match-length codes : no downgrade, every block may use every symbol up to maxSym (MaxLL or MaxML) *)
Theorem llml_table_reuse_safe : forall strategy da dnl l dms maxSym blocks,
  bounded maxSym maxSym blocks ->
  Forall (fun x => let '(e, t, used) := x in e = Repeat -> Forall (enc t) used)
         (trace strategy da dnl false ({| tb_cnt := l; tb_max := dms |}, ncount_repeat l dms maxSym) blocks).
Proof.
  intros. eapply trace_safe with (bnd := maxSym); [intros; apply N.le_refl| |exact H].
  unfold inv. cbn [fst snd]. intros V s Hs. eapply valid_covers; [exact V|exact Hs].
Qed.

(* without the downgrade the offset-code table would be re-used blindly for a code the loader never looked at :
   content 1000 bytes (offcodeMax 17), a table with codes 0..17 present and 18 absent is marked valid; second block, strategy fast,
   one offset of 300000 bytes (code 18) among 10 sequences : set_repeat although the table cannot encode it *)
Definition ex_tab : list Z := [1;1;1;1;1;1;1;1;1;1;1;1;1;1;1;1;1;15;0]%Z.
Definition ex_blk (used : list N) : block :=
  {| b_used := used; b_nbSeq := 10; b_mostFreq := 3; b_basic := 100; b_tblcost := 90; b_comp := 120; b_newtab := {| tb_cnt := []; tb_max := 0 |}; b_kept := true |}.
Example of_mode_valid_example : of_mode ex_tab 18 1000 = RValid /\ of_bound 1000 = 17.
Proof. vm_compute. split; reflexivity. Qed.
Example no_downgrade_refuted :
  map (fun x => let '(e, t, used) := x in (e, cost_ok t used))
      (trace 1 true 5 false ({| tb_cnt := ex_tab; tb_max := 18 |}, of_mode ex_tab 18 1000) [ex_blk [3; 5]; ex_blk [3; of_code 300000]])
  = [(Repeat, true); (Repeat, false)].
Proof. vm_compute. reflexivity. Qed.
Example with_downgrade_example :
  map (fun x => let '(e, t, used) := x in (e, cost_ok t used))
      (trace 1 true 5 true ({| tb_cnt := ex_tab; tb_max := 18 |}, of_mode ex_tab 18 1000) [ex_blk [3; 5]; ex_blk [3; of_code 300000]])
  = [(Repeat, true); (Basic, false)].
Proof. vm_compute. reflexivity. Qed.
(* the hypotheses of the theorems are satisfiable, and set_repeat is chosen through the checked path too (strategy btopt) *)
Example bounded_example : bounded MaxOff (of_bound 1000) [ex_blk [3; 5]; ex_blk [3; of_code 300000]].
Proof. cbn. repeat split; repeat constructor; vm_compute; discriminate. Qed.
Example checked_repeat_example :
  map (fun x => let '(e, t, used) := x in e)
      (trace 7 true 5 true ({| tb_cnt := ex_tab; tb_max := 18 |}, RCheck) [ex_blk [3; 5]; ex_blk [3; 18]]) = [Repeat; Basic].
Proof. vm_compute. reflexivity. Qed.
