(* Valid parses round-trip: a source cut into blocks, each raw / RLE / described by a parse that is valid ON THE BYTES,
   assembled by the LZ compressor model, decodes to the source. *)
From Coq Require Import NArith ZArith List Bool Lia.
From ZV.Codec Require Import Bytes ListLemmas XXH64 Fse Huf Block Frame LzProofs FrameProofs LzContent Encode EncodeProofs EncodeSeq EncodeSeqProofs
     EncodeLzFrame EncodeLzFrameProofs.
From ZV.Codec Require Import LzParse.
Import ListNotations.
Local Open Scope N_scope.

(* history after P bytes of [full], newest first *)
Definition hist (full : list N) (P : N) : list N := rev (firstn (N.to_nat P) full).

Lemma hist_0 full : hist full 0 = [].
Proof. reflexivity. Qed.

Lemma hist_len full P : P <= lenN full -> lenN (hist full P) = P.
Proof. intros H. unfold hist. rewrite lenN_rev. apply lenN_firstn_le. exact H. Qed.

Lemma firstn_add {A} a b (l : list A) : firstn (a + b) l = firstn a l ++ firstn b (skipn a l).
Proof. revert l; induction a as [|a IH]; intros l; [reflexivity|]. destruct l as [|x t]; [rewrite !firstn_nil; destruct b; reflexivity|]. cbn [Nat.add firstn skipn app]. f_equal. apply IH. Qed.

Lemma hist_app full P n : hist full (P + n) = rev (slice full P n) ++ hist full P.
Proof.
  unfold hist, slice. replace (N.to_nat (P + n)) with (N.to_nat P + N.to_nat n)%nat by lia.
  rewrite firstn_add, rev_app_distr. reflexivity.
Qed.

Lemma nth_firstn_lt {A} (d : A) n : forall i l, (i < n)%nat -> nth i (firstn n l) d = nth i l d.
Proof. induction n as [|n IH]; intros i l H; [lia|]. destruct l as [|x t]; [destruct i; reflexivity|]. destruct i as [|i]; [reflexivity|]. cbn [firstn nth]. apply IH. lia. Qed.

Lemma nthN_hist full P k : k < P -> P <= lenN full -> nth (N.to_nat k) (hist full P) 0 = nthN full (P - 1 - k) 0.
Proof.
  intros Hk HP. unfold hist, nthN. rewrite lenN_length in HP.
  rewrite rev_nth by (rewrite firstn_length; lia). rewrite firstn_length.
  replace (Nat.min (N.to_nat P) (length full)) with (N.to_nat P) by lia.
  rewrite nth_firstn_lt by lia. f_equal. lia.
Qed.


(* one more byte of [full] *)
Lemma hist_succ full P : P < lenN full -> hist full (P + 1) = nthN full P 0 :: hist full P.
Proof.
  intros H. unfold hist, nthN. replace (N.to_nat (P + 1)) with (S (N.to_nat P)) by lia.
  rewrite lenN_length in H. rewrite (firstn_S_nth 0) by lia. rewrite rev_app_distr. reflexivity.
Qed.

(* a match that is valid on the bytes is what the naive copy regenerates *)
Lemma copy_of_match full off : forall n P,
  1 <= off -> off <= P -> P + N.of_nat n <= lenN full ->
  (forall i, i < N.of_nat n -> nthN full (P + i) 0 = nthN full (P + i - off) 0) ->
  copy_naive n (N.to_nat off) (hist full P) = hist full (P + N.of_nat n).
Proof.
  induction n as [|n IH]; intros P H1 H2 H3 Hm; cbn [copy_naive].
  - rewrite N.add_0_r. reflexivity.
  - rewrite Nat2N.inj_succ in *.
    assert (E : nth (N.to_nat off - 1) (hist full P) 0 = nthN full P 0).
    { replace (N.to_nat off - 1)%nat with (N.to_nat (off - 1)) by lia.
      rewrite nthN_hist by lia. specialize (Hm 0 ltac:(lia)). rewrite N.add_0_r in Hm. rewrite Hm. f_equal. lia. }
    rewrite E, <- hist_succ by lia.
    rewrite IH; [f_equal; lia|lia|lia|lia|].
    intros i Hi. specialize (Hm (1 + i) ltac:(lia)). replace (P + 1 + i) with (P + (1 + i)) by lia. exact Hm.
Qed.

Lemma slice_app full P a b : slice full P (a + b) = slice full P a ++ slice full (P + a) b.
Proof.
  unfold slice. replace (N.to_nat (a + b)) with (N.to_nat a + N.to_nat b)%nat by lia. rewrite firstn_add.
  f_equal. f_equal. rewrite skipn_skipn'. f_equal. lia.
Qed.

Lemma slice_len full P n : P + n <= lenN full -> lenN (slice full P n) = n.
Proof. intros H. unfold slice. apply lenN_firstn_le. rewrite lenN_skipn. lia. Qed.

(* ---------- executing the parse of a block gives the source ---------- *)
Lemma lz_exec_parse full : forall ps P rep Pend rep_end Q,
  parse_ok full P ps rep Pend rep_end -> Pend <= Q -> Q <= lenN full ->
  lz_exec (map eseq_of ps) rep (hist full P) (literals_of full P ps Q) = Some (hist full Pend, slice full Pend (Q - Pend), rep_end)
  /\ P <= Pend.
Proof.
  induction ps as [|s r IH]; intros P rep Pend rep_end Q Hp H1 H2; cbn [parse_ok map lz_exec literals_of] in *.
  - destruct Hp as (-> & ->). split; [reflexivity|lia].
  - destruct Hp as (rep' & Hr & (M1 & M2 & M3 & M4) & Hrest).
    destruct (IH _ _ _ _ Q Hrest H1 H2) as (E & Hle).
    cbn [eseq_of q_ofv q_ll q_ml]. rewrite Hr. unfold lz_step.
    fold (slice full P (s_ll s)).
    assert (Ll : length (slice full P (s_ll s)) = N.to_nat (s_ll s)).
    { pose proof (slice_len full P (s_ll s) ltac:(lia)) as L. rewrite lenN_length in L. lia. }
    rewrite firstn_app, Ll, Nat.sub_diag, firstn_all2 by lia. cbn [firstn]. rewrite app_nil_r.
    rewrite skipn_app, Ll, Nat.sub_diag, skipn_all2 by lia. cbn [skipn app].
    rewrite <- hist_app.
    rewrite <- (N2Nat.id (s_ml s)) in M3, M4 |- *. rewrite Nat2N.id.
    rewrite (copy_of_match full (s_off s) (N.to_nat (s_ml s)) (P + s_ll s) M1 M2 M3 M4).
    rewrite N2Nat.id in *. split; [exact E|lia].
Qed.

(* ---------- one block ---------- *)
Lemma slice_uniform full v : forall n P, P + N.of_nat n <= lenN full ->
  (forall i, i < N.of_nat n -> nthN full (P + i) 0 = v) -> slice full P (N.of_nat n) = repeat v n.
Proof.
  induction n as [|n IH]; intros P HP Hu; [reflexivity|].
  rewrite Nat2N.inj_succ in *. replace (N.succ (N.of_nat n)) with (1 + N.of_nat n) by lia.
  rewrite slice_app. cbn [repeat]. rewrite IH by (try lia; intros i Hi; replace (P + 1 + i) with (P + (1 + i)) by lia; apply Hu; lia).
  specialize (Hu 0 ltac:(lia)). rewrite N.add_0_r in Hu.
  unfold slice. change (N.to_nat 1) with 1%nat. rewrite lenN_length in HP.
  destruct (skipn (N.to_nat P) full) as [|y t] eqn:Es.
  - assert (length (skipn (N.to_nat P) full) = 0%nat) by (rewrite Es; reflexivity). rewrite skipn_length in H. lia.
  - cbn [firstn app]. f_equal. unfold nthN in Hu. rewrite <- Hu.
    rewrite <- (firstn_skipn (N.to_nat P) full) at 1. rewrite app_nth2 by (rewrite firstn_length; lia).
    rewrite firstn_length, Es. replace (N.to_nat P - Nat.min (N.to_nat P) (length full))%nat with 0%nat by lia. reflexivity.
Qed.

Lemma firstn_hist_slice full P n : P + n <= lenN full -> rev (firstn (N.to_nat n) (hist full (P + n))) = slice full P n.
Proof.
  intros H. rewrite hist_app.
  pose proof (slice_len full P n H) as L. rewrite lenN_length in L.
  rewrite firstn_app, rev_length. replace (N.to_nat n - length (slice full P n))%nat with 0%nat by lia. cbn [firstn].
  rewrite app_nil_r, firstn_all2 by (rewrite rev_length; lia). apply rev_involutive.
Qed.

Lemma sblock_step strict window blockMax full P rep z b eb z1 :
  z_hist z = hist full P -> z_rep z = rep -> P + sb_size b <= lenN full ->
  match b with
  | SRaw _ => True
  | SRle n => forall i, i < n -> nthN full (P + i) 0 = nthN full P 0
  | SLz n ps => exists Pend rep', parse_ok full P ps rep Pend rep' /\ Pend <= P + n
  end ->
  pblock_step strict window blockMax z (to_pblock full P b) = Some (eb, z1) ->
  block_content eb = slice full P (sb_size b) /\ z_hist z1 = hist full (P + sb_size b) /\ z_pos z1 = z_pos z + sb_size b /\
  match b with SLz n ps => forall Pend rep', parse_ok full P ps rep Pend rep' -> Pend <= P + n -> z_rep z1 = rep' | _ => z_rep z1 = rep end.
Proof.
  intros Hh Hr HP Hv H. destruct b as [n|n|n ps]; cbn [to_pblock sb_size pblock_step] in *.
  - destruct (lenN (slice full P n) <=? blockMax); [|discriminate]. injection H as <- <-. cbn [block_content z_hist z_rep z_pos].
    rewrite slice_len by exact HP. split; [reflexivity|]. split; [|split; [reflexivity|exact Hr]].
    rewrite rev_append_rev, Hh, hist_app. reflexivity.
  - destruct (n <=? blockMax); [|discriminate]. injection H as <- <-. cbn [block_content z_hist z_rep z_pos].
    assert (Es : slice full P n = repeat (nthN full P 0) (N.to_nat n)).
    { rewrite <- (N2Nat.id n) at 1. apply slice_uniform; rewrite N2Nat.id; [exact HP|exact Hv]. }
    rewrite !repeatN_spec, app_nil_r. split; [symmetry; exact Es|]. split; [|split; [reflexivity|exact Hr]].
    rewrite Hh, hist_app, Es, rev_repeat_self. reflexivity.
  - destruct Hv as (Pend & rep' & Hp & Hle). unfold lz_block in H. cbn [pblock_step] in H.
    destruct (map eseq_of ps) as [|q0 qr] eqn:Eqs; [discriminate|]. rewrite <- Eqs in *.
    destruct (andb (lenN (literals_of full P ps (P + n)) <=? blockMax) _); [|discriminate].
    destruct (lz_exec_parse full ps P rep Pend rep' (P + n) Hp Hle HP) as (Elz & HPle).
    rewrite Hh, Hr, Elz in H.
    destruct (enc_cblock_basic (literals_of full P ps (P + n)) (map eseq_of ps)) as [payload|]; [|discriminate].
    set (h2 := rev_append (slice full Pend (P + n - Pend)) (hist full Pend)) in *.
    assert (Eh2 : h2 = hist full (P + n)).
    { unfold h2. rewrite rev_append_rev. replace (P + n) with (Pend + (P + n - Pend)) at 2 by lia. rewrite hist_app. reflexivity. }
    rewrite Eh2 in H. rewrite !hist_len in H by lia. replace (P + n - P) with n in H by lia.
    destruct (andb (n <=? blockMax) (lenN payload <=? blockMax)); [|discriminate].
    injection H as <- <-. cbn [block_content z_hist z_rep z_pos].
    split; [rewrite rev'_rev, takeN_firstn; apply firstn_hist_slice; exact HP|]. split; [reflexivity|]. split; [reflexivity|].
    intros Pend2 rep2 Hp2 Hle2.
    destruct (lz_exec_parse full ps P rep Pend2 rep2 (P + n) Hp2 Hle2 HP) as (Elz2 & _). rewrite Elz in Elz2. injection Elz2 as _ _ E. exact E.
Qed.

(* ---------- a list of blocks ---------- *)
Lemma sblocks_run strict window blockMax full : forall bs P rep z ebs z1,
  z_hist z = hist full P -> z_rep z = rep ->
  sblocks_ok full P rep bs ->
  pblocks_run strict window blockMax z (to_pblocks full P bs) = Some (ebs, z1) ->
  blocks_content ebs = skipn (N.to_nat P) full /\ P <= lenN full.
Proof.
  induction bs as [|b t IH]; intros P rep z ebs z1 Hh Hr Hok H; cbn [to_pblocks pblocks_run sblocks_ok] in *.
  - injection H as <- _. subst P. split; [|lia]. rewrite lenN_length, Nat2N.id, skipn_all. reflexivity.
  - destruct Hok as (HP & Hb).
    destruct (pblock_step strict window blockMax z (to_pblock full P b)) as [[eb zb]|] eqn:Eb; [|discriminate].
    destruct (pblocks_run strict window blockMax zb (to_pblocks full (P + sb_size b) t)) as [[ebt z2]|] eqn:Et; [|discriminate].
    injection H as <- _.
    assert (Hv : match b with SRaw _ => True | SRle n => forall i, i < n -> nthN full (P + i) 0 = nthN full P 0
                          | SLz n ps => exists Pend rep', parse_ok full P ps rep Pend rep' /\ Pend <= P + n end).
    { destruct b as [n|n|n ps]; [exact I|exact (proj1 Hb)|]. destruct Hb as (_ & Pend & rep' & H1 & H2 & _). eauto. }
    destruct (sblock_step strict window blockMax full P rep z b eb zb Hh Hr HP Hv Eb) as (Ec & Hh1 & _ & Hr1).
    assert (Hnext : exists rep1, z_rep zb = rep1 /\ sblocks_ok full (P + sb_size b) rep1 t).
    { destruct b as [n|n|n ps]; cbn [sb_size] in *.
      - exists rep. split; [exact Hr1|exact Hb].
      - exists rep. split; [exact Hr1|exact (proj2 Hb)].
      - destruct Hb as (_ & Pend & rep' & H1 & H2 & H3). exists rep'. split; [exact (Hr1 Pend rep' H1 H2)|exact H3]. }
    destruct Hnext as (rep1 & Er1 & Hok1).
    destruct (IH (P + sb_size b) rep1 zb ebt z2 Hh1 Er1 Hok1 Et) as (Ect & _).
    split; [|lia]. unfold blocks_content. cbn [map concat]. fold (blocks_content ebt). rewrite Ec, Ect.
    unfold slice. replace (N.to_nat (P + sb_size b)) with (N.to_nat P + N.to_nat (sb_size b))%nat by lia.
    rewrite <- skipn_skipn'. apply firstn_skipn.
Qed.

(* ---------- the theorem: valid parses round-trip ---------- *)
Theorem valid_parses_round_trip cfg d p dictID x sbs ebs z rest :
  let full := dict_content d ++ x in
  let win := frame_window p (lenN x) in
  let blockMax := N.min (N.min win BLOCK_MAX) (c_block_max cfg) in
  sbs <> [] ->
  sblocks_ok full (lenN (dict_content d)) (e_rep (dict_entropy d)) sbs ->
  pblocks_run (c_strict_window cfg) win blockMax (z_init d) (to_pblocks full (lenN (dict_content d)) sbs) = Some (ebs, z) ->
  params_ok p (lenN x) dictID -> c_magicless cfg = fp_magicless p -> win <= c_window_max cfg -> dict_ok d p dictID ->
  exists t, decode_frame cfg d (enc_frame p dictID ebs ++ rest) = Ok (x, t, rest).
Proof.
  intros full win blockMax Hne Hok Hrun Hp Hml Hw Hd.
  assert (Hh : z_hist (z_init d) = hist full (lenN (dict_content d))).
  { unfold z_init, hist, full; cbn [z_hist]. rewrite rev'_rev, lenN_length, Nat2N.id, firstn_app, Nat.sub_diag, firstn_all. cbn [firstn]. rewrite app_nil_r. reflexivity. }
  destruct (sblocks_run _ _ _ full sbs _ _ (z_init d) ebs z Hh eq_refl Hok Hrun) as (Ec & _).
  assert (Ex : blocks_content ebs = x).
  { rewrite Ec. unfold full. rewrite lenN_length, Nat2N.id, skipn_app, Nat.sub_diag, skipn_all. reflexivity. }
  assert (Hne2 : to_pblocks full (lenN (dict_content d)) sbs <> []) by (destruct sbs; [congruence|discriminate]).
  subst win blockMax. rewrite <- Ex in Hrun, Hp, Hw.
  destruct (lz_model_lossless cfg d p dictID _ ebs z rest Hne2 Hrun Hp Hml Hw Hd) as ((t & Ht & _) & _).
  exists t. rewrite Ex in Ht. exact Ht.
Qed.
