(* Prefix stability of the reference decoder: running R on a prefix of an input it accepts yields either
   an error or the same result with a correspondingly shorter remainder.  Hence no proper prefix of a
   complete frame is accepted as complete (C09), and the bytes R consumes are a function of the frame
   only (C06: frame compressed size). *)
From Coq Require Import NArith ZArith List Bool Lia PeanoNat.
From ZV.Codec Require Import Bytes ListLemmas XXH64 Fse Huf Block Frame LzProofs FrameProofs.
Import ListNotations.
Local Open Scope N_scope.

Local Opaque decode_cblock xxh64 push_fwd push_rev.

Lemma firstn_app_le {A} k (q z : list A) : (k <= length q)%nat -> firstn k (q ++ z) = firstn k q.
Proof. intros H. rewrite firstn_app. replace (k - length q)%nat with O by lia. cbn [firstn]. apply app_nil_r. Qed.
Lemma skipn_app_le {A} k (q z : list A) : (k <= length q)%nat -> skipn k (q ++ z) = skipn k q ++ z.
Proof. intros H. rewrite skipn_app. replace (k - length q)%nat with O by lia. reflexivity. Qed.

Lemma read_le_prefix k q z v r : read_le k (q ++ z) = Some (v, r) ->
  match read_le k q with Some (v2, r2) => v2 = v /\ r = r2 ++ z | None => True end.
Proof.
  unfold read_le. rewrite !splitn_spec.
  destruct (k <=? length (q ++ z))%nat eqn:E1; [|discriminate].
  intros H. injection H as Hv Hr.
  destruct (k <=? length q)%nat eqn:E2; [|exact I]. apply Nat.leb_le in E2.
  rewrite firstn_app_le in Hv by exact E2. rewrite skipn_app_le in Hr by exact E2. auto.
Qed.

Lemma splitN_prefix {A} k (q z a b : list A) : splitN k (q ++ z) = Some (a, b) ->
  match splitN k q with Some (a2, b2) => a2 = a /\ b = b2 ++ z | None => True end.
Proof.
  rewrite !splitN_spec.
  destruct (k <=? lenN (q ++ z)) eqn:E1; [|discriminate].
  intros H. injection H as Ha Hb.
  destruct (N.leb_spec k (lenN q)) as [E2|E2]; [|exact I].
  assert (E3 : (N.to_nat k <= length q)%nat) by (rewrite lenN_length in E2; lia).
  rewrite firstn_app_le in Ha by exact E3. rewrite skipn_app_le in Hb by exact E3. auto.
Qed.

(* result of a run on a prefix, relative to the run on the whole input *)
Definition agrees {A} (whole : A * bytes) (z : bytes) (r : res (A * bytes)) : Prop :=
  match r with Ok (a2, r2) => a2 = fst whole /\ snd whole = r2 ++ z | Err _ _ => True end.

(* common tail of parse_fheader after the magic number: H is the run on (fhd :: r1q) ++ z *)
Ltac fheader_tail H z :=
  let Hres := fresh "Hres" in let Hw := fresh "Hw" in let Hd := fresh "Hd" in let Hf := fresh "Hf" in
  let Hwin := fresh "Hwin" in let Esingle := fresh "Esingle" in let win := fresh "win" in
  inv_bind_as H as [] Hres; rewrite Hres; cbn [bind guard];
  inv_bind_as H as [wopt r2] Hw;
  match type of Hw with context [N.testbit ?fhd 5] => destruct (N.testbit fhd 5) eqn:Esingle end;
  [ injection Hw as <- <-; cbn [bind]
  | match goal with
    | |- context [match ?l with [] => Err Etrunc 414 | _ => _ end] =>
      destruct l as [|wd t]; [exact I|]; cbn [app] in Hw; injection Hw as <- <-; cbn [bind]
    end ];
  (inv_bind_as H as [did r3] Hd; apply of_opt_Ok in Hd; apply read_le_prefix in Hd;
   match type of Hd with match read_le ?k ?l with _ => _ end =>
     destruct (read_le k l) as [[did2 r3q]|]; cbn [of_opt bind]; [|exact I] end;
   destruct Hd as (-> & ->);
   inv_bind_as H as [fv r4] Hf; apply of_opt_Ok in Hf; apply read_le_prefix in Hf;
   match type of Hf with match read_le ?k ?l with _ => _ end =>
     destruct (read_le k l) as [[fv2 r4q]|]; cbn [of_opt bind]; [|exact I] end;
   destruct Hf as (-> & ->);
   inv_bind_as H as win Hwin;
   match goal with |- context [bind ?e _] => let Hw2 := fresh in assert (Hw2 : e = Ok win) by exact Hwin; rewrite Hw2 end; cbn [bind];
   injection H as <- <-; cbn [fst snd]; auto).

Lemma parse_fheader_prefix ml q z fh r0 : parse_fheader ml (q ++ z) = Ok (fh, r0) ->
  agrees (fh, r0) z (parse_fheader ml q).
Proof.
  unfold parse_fheader, agrees. intros H. destruct ml.
  - cbn [bind] in *. destruct q as [|fhd r1q]; [exact I|]. cbn [app] in H. fheader_tail H z.
  - inv_bind_as H as m Hm.
    inv_bind_as Hm as [mv mr] Hr. apply of_opt_Ok in Hr. apply read_le_prefix in Hr.
    inv_bind_as Hm as [] Hg. injection Hm as <-.
    destruct (read_le 4 q) as [[v2 r2]|]; cbn [of_opt bind]; [|exact I].
    destruct Hr as (-> & ->). cbn [fst snd] in *. rewrite Hg. cbn [guard bind].
    destruct r2 as [|fhd r1q]; [exact I|]. cbn [app] in H. fheader_tail H z.
Qed.

Lemma blocks_loop_prefix f1 : forall strict window bm e x q z acc x' rest bts,
  blocks_loop f1 strict window bm e x (q ++ z) acc = Ok (x', rest, bts) ->
  forall f2, match blocks_loop f2 strict window bm e x q acc with
             | Ok (x2, r2, b2) => x2 = x' /\ b2 = bts /\ rest = r2 ++ z
             | Err _ _ => True
             end.
Proof.
  induction f1 as [|c1 f1 IH]; intros strict window bm e x q z acc x' rest bts H f2; cbn [blocks_loop] in H; [discriminate|].
  destruct f2 as [|c2 f2]; cbn [blocks_loop]; [exact I|].
  inv_bind_as H as [hv r0] Hh. apply of_opt_Ok in Hh. apply read_le_prefix in Hh.
  destruct (read_le 3 q) as [[hv2 r0q]|]; cbn [of_opt bind]; [|exact I]. destruct Hh as (-> & ->).
  inv_bind_as H as [[[e1 x1] rest1] bt] Hstep.
  (* the step on the prefix agrees *)
  match goal with |- match bind ?S _ with _ => _ end =>
    assert (St : match S with Ok (e2, x2, rest2, bt2) => e2 = e1 /\ x2 = x1 /\ bt2 = bt /\ rest1 = rest2 ++ z | Err _ _ => True end)
  end.
  { destruct (N.land (N.shiftr hv 1) 3 =? 0).
    - inv_bind_as Hstep as [] Hg. rewrite Hg. cbn [guard bind].
      inv_bind_as Hstep as [sa sb] Hsp. apply of_opt_Ok in Hsp. apply splitN_prefix in Hsp.
      destruct (splitN (N.shiftr hv 3) r0q) as [[sa2 sb2]|]; cbn [of_opt bind]; [|exact I]. destruct Hsp as (-> & ->).
      injection Hstep as <- <- <- <-. cbn [fst snd]. auto.
    - destruct (N.land (N.shiftr hv 1) 3 =? 1).
      + inv_bind_as Hstep as [] Hg. rewrite Hg. cbn [guard bind].
        destruct r0q as [|v t]; [exact I|]. cbn [app] in Hstep. injection Hstep as <- <- <- <-. auto.
      + destruct (N.land (N.shiftr hv 1) 3 =? 2); [|discriminate].
        inv_bind_as Hstep as [] Hg. rewrite Hg. cbn [guard bind].
        inv_bind_as Hstep as [sa sb] Hsp. apply of_opt_Ok in Hsp. apply splitN_prefix in Hsp.
        destruct (splitN (N.shiftr hv 3) r0q) as [[sa2 sb2]|]; cbn [of_opt bind]; [|exact I]. destruct Hsp as (-> & ->).
        inv_bind_as Hstep as [[e2 x2] bt2] Hc. cbn [fst snd] in *. rewrite Hc. cbn [bind].
        injection Hstep as <- <- <- <-. auto. }
  match goal with |- match bind ?S _ with _ => _ end => destruct S as [[[[e2 x2] rest2] bt2]|cc ss] end; cbn [bind]; [|exact I].
  destruct St as (-> & -> & -> & ->).
  destruct (N.testbit hv 0).
  - injection H as <- <- <-. auto.
  - apply IH with (f2 := f2) in H. exact H.
Qed.

Local Opaque blocks_loop parse_fheader.

Ltac step_same H v :=
  match goal with |- context [bind ?e _] => let T := fresh in assert (T : e = Ok v) by exact H; rewrite T; clear T end; cbn [bind].

Theorem decode_frame_prefix cfg d q z out t rest :
  decode_frame cfg d (q ++ z) = Ok (out, t, rest) ->
  match decode_frame cfg d q with
  | Ok (o2, t2, r2) => o2 = out /\ rest = r2 ++ z
  | Err _ _ => True
  end.
Proof.
  intros H. unfold decode_frame in *.
  inv_bind_as H as [fh r0] Hh. apply parse_fheader_prefix in Hh. unfold agrees in Hh.
  destruct (parse_fheader (c_magicless cfg) q) as [[fh2 r0q]|]; cbn [bind]; [|exact I].
  cbn [fst snd] in Hh. destruct Hh as (-> & ->).
  inv_bind_as H as [] Hw. rewrite Hw. cbn [guard bind].
  inv_bind_as H as [e0 dcontent] Hd. step_same Hd (e0, dcontent).
  inv_bind_as H as [[x r1] bts] Hb.
  apply blocks_loop_prefix with (f2 := 0 :: r0q) in Hb.
  match goal with |- match bind ?B _ with _ => _ end => destruct B as [[[x2 r1q] bts2]|cc ss] end; cbn [bind]; [|exact I].
  destruct Hb as (-> & -> & ->).
  inv_bind_as H as [] Hfcs. rewrite Hfcs. cbn [guard bind].
  inv_bind_as H as [ck r2] Hck.
  destruct (fh_checksum fh).
  - inv_bind_as Hck as [cv cr] Hr4. apply of_opt_Ok in Hr4. apply read_le_prefix in Hr4.
    destruct (read_le 4 r1q) as [[cv2 cr2]|]; cbn [of_opt bind]; [|exact I]. destruct Hr4 as (-> & ->).
    inv_bind_as Hck as [] Hg. cbn [fst snd] in *. rewrite Hg. cbn [guard bind].
    injection Hck as <- <-. injection H as <- _ <-. auto.
  - injection Hck as <- <-. cbn [bind]. injection H as <- _ <-. auto.
Qed.

(* C09: a proper prefix of a complete frame is never accepted *)
Corollary proper_prefix_rejected cfg d f out t :
  decode_frame cfg d f = Ok (out, t, []) ->
  forall k, (k < length f)%nat -> exists c s, decode_frame cfg d (firstn k f) = Err c s.
Proof.
  intros H k Hk. rewrite <- (firstn_skipn k f) in H.
  apply decode_frame_prefix in H.
  destruct (decode_frame cfg d (firstn k f)) as [[[o2 t2] r2]|c s]; [|eauto].
  destruct H as (_ & E). symmetry in E. apply app_eq_nil in E. destruct E as (_ & E).
  assert (length (skipn k f) = 0)%nat by (rewrite E; reflexivity).
  rewrite skipn_length in H. lia.
Qed.
