(* C08, round 3 - validity of an ATTACHED dictionary (dictMatchState) while the caller feeds input segments at arbitrary addresses.
   Mirrors, in lib/compress/zstd_compress_internal.h : ZSTD_window_update (contiguity test, prefix -> extDict, "too small extDict",
   overlap of input and extDict), ZSTD_checkDictValidity, ZSTD_window_enforceMaxDist ; in lib/compress/zstd_compress.c :
   the attachment made by ZSTD_resetCCtx_byAttachingCDict, the per-call part of ZSTD_compressContinue_internal (block mode: the test
   added by fix 00d59f3) and the per-block part of ZSTD_compress_frameChunk.  Addresses and indices are integers (Z); the 32-bit
   index wrap is outside (ZSTD_overflowCorrectIfNeeded keeps indices below 2^32; property C15).
   The attached-dictionary block compressors translate a dictionary index j into the offset  curr - (j + dictIndexDelta)  with
   dictIndexDelta = prefixStartIndex - dictEnd : that is the decoder's distance only if the prefix starts exactly where the output of
   this session started and every byte produced so far lies in that one prefix.
   Proved : for EVERY history of segments (address, size, forced non-contiguity), in block mode and in frame mode, whenever the
   dictionary is still attached, dictLimit = loadedDictEnd and (nextSrc - base) - loadedDictEnd = number of bytes compressed so far.
   Refuted for block mode as it was before 00d59f3. *)
From Coq Require Import ZArith List Bool Lia.
Import ListNotations.
Local Open Scope Z_scope.

Definition HASH_READ_SIZE : Z := 8.

Record win := { base : Z; dictBase : Z; dictLimit : Z; lowLimit : Z; nextSrc : Z }.

(* ZSTD_window_update : returns the window and the "contiguous" flag *)
(* "if (src != window->nextSrc || forceNonContiguous)" : the prefix becomes the extDict *)
Definition wu_seg (w : win) (src : Z) (force : bool) : win * bool :=
  if negb (src =? nextSrc w) || force then
    let distance := nextSrc w - base w in
    let ll := dictLimit w in
    ({| base := src - distance; dictBase := base w; dictLimit := distance;
        lowLimit := (if distance - ll <? HASH_READ_SIZE then distance else ll); nextSrc := nextSrc w |}, false)
  else (w, true).
Definition set_next (w : win) (n : Z) : win := {| base := base w; dictBase := dictBase w; dictLimit := dictLimit w; lowLimit := lowLimit w; nextSrc := n |}.
(* "if input and dictionary overlap : reduce dictionary" *)
Definition wu_overlap (w : win) (src size : Z) : win :=
  if (src + size >? dictBase w + lowLimit w) && (src <? dictBase w + dictLimit w) then
    let hi := src + size - dictBase w in
    {| base := base w; dictBase := dictBase w; dictLimit := dictLimit w; lowLimit := (if hi >? dictLimit w then dictLimit w else hi); nextSrc := nextSrc w |}
  else w.
Definition window_update (w : win) (src size : Z) (force : bool) : win * bool :=
  if size =? 0 then (w, true) else
  let p := wu_seg w src force in (wu_overlap (set_next (fst p) (src + size)) src size, snd p).

(* match state : window, loadedDictEnd, "dictMatchState != NULL", bytes given to this session so far *)
Record st := { w : win; lde : Z; dms : bool; total : Z }.

(* ZSTD_resetCCtx_byAttachingCDict : the window is empty at index e (>= the CDict's end index), loadedDictEnd = e *)
Definition attach (b db e : Z) : st :=
  {| w := {| base := b; dictBase := db; dictLimit := e; lowLimit := e; nextSrc := b + e |}; lde := e; dms := true; total := 0 |}.

(* ZSTD_compressContinue_internal, frame = 0 (ZSTD_compressBlock) ; [fixed] = the test added by 00d59f3 *)
Definition block_step (fixed : bool) (s : st) (seg : Z * Z * bool) : st :=
  let '(src, size, force) := seg in
  let '(w', _) := window_update (w s) src size force in
  {| w := w'; lde := lde s; dms := (if fixed && negb (lde s =? dictLimit w') then false else dms s); total := total s + size |}.

(* ZSTD_checkDictValidity(window, blockEnd, maxDist, &loadedDictEnd, &dictMatchState) *)
Definition check_dict_validity (s : st) (blockEnd maxDist : Z) : st :=
  let blockEndIdx := blockEnd - base (w s) in
  if (blockEndIdx >? lde s + maxDist) || negb (lde s =? dictLimit (w s))
  then {| w := w s; lde := 0; dms := false; total := total s |} else s.

(* ZSTD_window_enforceMaxDist(window, blockEnd := ip, maxDist, &loadedDictEnd, &dictMatchState) *)
Definition enforce_max_dist (s : st) (blockEnd maxDist : Z) : st :=
  let blockEndIdx := blockEnd - base (w s) in
  if blockEndIdx >? maxDist + lde s then
    let newLow := blockEndIdx - maxDist in
    let ll := if lowLimit (w s) <? newLow then newLow else lowLimit (w s) in
    let dl := if dictLimit (w s) <? ll then ll else dictLimit (w s) in
    {| w := {| base := base (w s); dictBase := dictBase (w s); dictLimit := dl; lowLimit := ll; nextSrc := nextSrc (w s) |}; lde := 0; dms := false; total := total s |}
  else s.

(* ZSTD_compress_frameChunk : per block  checkDictValidity(ip + blockSize) ; enforceMaxDist(ip) *)
Fixpoint frame_blocks (s : st) (ip maxDist : Z) (cuts : list Z) : st :=
  match cuts with
  | [] => s
  | bs :: r => frame_blocks (enforce_max_dist (check_dict_validity s (ip + bs) maxDist) ip maxDist) (ip + bs) maxDist r
  end.

(* ZSTD_compressContinue_internal, frame = 1 : one call with the segment cut into blocks of sizes [cuts] *)
Definition frame_step (maxDist : Z) (s : st) (seg : Z * Z * bool * list Z) : st :=
  let '(src, size, force, cuts) := seg in
  let '(w', _) := window_update (w s) src size force in
  let s1 := frame_blocks {| w := w'; lde := lde s; dms := dms s; total := total s |} src maxDist cuts in
  {| w := w s1; lde := lde s1; dms := dms s1; total := total s1 + size |}.

(* the decoder's picture : the dictionary ends where this session's output begins, and every byte so far is in the one prefix *)
Definition aligned (s : st) : Prop := dictLimit (w s) = lde s /\ nextSrc (w s) - base (w s) = lde s + total s.
Definition inv (s : st) : Prop := 0 <= total s /\ (dms s = true -> aligned s).
(* the dictionary-aware block compressors run when a dictionary is attached and there is no extDict segment *)
Definition uses_dict (s : st) : bool := dms s && (dictLimit (w s) <=? lowLimit (w s)).

Lemma attach_inv b db e : inv (attach b db e).
Proof. unfold inv, aligned, attach; cbn. split; [lia|]. intros _. split; lia. Qed.

Lemma wu_overlap_keeps w src size : base (wu_overlap w src size) = base w /\ dictLimit (wu_overlap w src size) = dictLimit w /\ nextSrc (wu_overlap w src size) = nextSrc w.
Proof. unfold wu_overlap. destruct (_ && _); cbn; auto. Qed.

Lemma window_update_fields wi src size force w' c : window_update wi src size force = (w', c) -> 0 <= size ->
  (size = 0 /\ w' = wi) \/
  (0 < size /\ nextSrc w' = src + size /\
   ((src = nextSrc wi /\ force = false /\ base w' = base wi /\ dictLimit w' = dictLimit wi) \/
    (base w' = src - (nextSrc wi - base wi) /\ dictLimit w' = nextSrc wi - base wi))).
Proof.
  unfold window_update. intros H S. destruct (size =? 0) eqn:E0.
  - left. apply Z.eqb_eq in E0. inversion H. auto.
  - right. apply Z.eqb_neq in E0. split; [lia|]. inversion H; subst. clear H.
    destruct (wu_overlap_keeps (set_next (fst (wu_seg wi src force)) (src + size)) src size) as [K1 [K2 K3]].
    rewrite K1, K2, K3. cbn [set_next base dictLimit nextSrc]. split; [reflexivity|].
    unfold wu_seg. destruct (negb (src =? nextSrc wi) || force) eqn:NC; cbn [fst base dictLimit].
    + right. auto.
    + left. apply orb_false_iff in NC. destruct NC as [N1 N2]. apply negb_false_iff, Z.eqb_eq in N1. auto.
Qed.

Lemma block_step_inv s seg : inv s -> 0 <= snd (fst seg) -> inv (block_step true s seg).
Proof.
  destruct seg as [[src size] force]. cbn [fst snd]. intros [T I] S. unfold block_step.
  destruct (window_update (w s) src size force) as [w' c] eqn:WU.
  unfold inv, aligned. cbn [w lde dms total andb]. split; [lia|].
  destruct (lde s =? dictLimit w') eqn:E; cbn [negb]; [|discriminate].
  apply Z.eqb_eq in E. intros D. destruct (I D) as [A1 A2].
  destruct (window_update_fields _ _ _ _ _ _ WU S) as [[Z0 Ew]|[P [N A]]].
  - subst. split; lia.
  - destruct A as [[C1 [C2 [C3 C4]]]|[B1 B2]].
    + split; lia.
    + split; [lia|]. rewrite N, B1. lia.
Qed.

Lemma check_inv s be md : inv s -> inv (check_dict_validity s be md).
Proof. unfold check_dict_validity. intros I. destruct (_ || _); [|exact I]. destruct I. split; cbn; [assumption|discriminate]. Qed.
Lemma enforce_inv s be md : inv s -> inv (enforce_max_dist s be md).
Proof. unfold enforce_max_dist. intros I. destruct (_ >? _); [|exact I]. destruct I. split; cbn; [assumption|discriminate]. Qed.

(* the per-block loop keeps base / nextSrc / total, and keeps dictLimit and loadedDictEnd while the dictionary stays attached *)
Lemma frame_blocks_keeps : forall cuts s ip md,
  let s' := frame_blocks s ip md cuts in
  total s' = total s /\ (dms s' = true -> dms s = true /\ w s' = w s /\ lde s' = lde s).
Proof.
  induction cuts as [|bs r IH]; intros s ip md; cbn [frame_blocks]; [auto|].
  specialize (IH (enforce_max_dist (check_dict_validity s (ip + bs) md) ip md) (ip + bs) md). cbn zeta in IH.
  destruct IH as [T K]. split.
  - rewrite T. unfold enforce_max_dist, check_dict_validity. destruct (_ || _); cbn; destruct (_ >? _); reflexivity.
  - intros D. destruct (K D) as [D1 [W1 L1]]. rewrite W1, L1. clear K T D.
    unfold enforce_max_dist in *. destruct (_ >? _) eqn:E1 in D1; [cbn in D1; discriminate|].
    rewrite E1. unfold check_dict_validity in *. destruct (_ || _); [cbn in D1; discriminate|]. auto.
Qed.

Lemma frame_blocks_first : forall cuts s ip md, cuts <> [] -> dms (frame_blocks s ip md cuts) = true -> lde s = dictLimit (w s).
Proof.
  intros [|bs r] s ip md NE D; [congruence|]. cbn [frame_blocks] in D.
  destruct (frame_blocks_keeps r (enforce_max_dist (check_dict_validity s (ip + bs) md) ip md) (ip + bs) md) as [_ K]. cbn zeta in K.
  destruct (K D) as [D1 _]. clear K D.
  unfold enforce_max_dist in D1. destruct (_ >? _) in D1; [cbn in D1; discriminate|].
  unfold check_dict_validity in D1. destruct (_ || _) eqn:C in D1; [cbn in D1; discriminate|].
  apply orb_false_iff in C. destruct C as [_ C]. apply negb_false_iff, Z.eqb_eq in C. exact C.
Qed.

Lemma frame_step_inv md s seg : inv s -> 0 <= snd (fst (fst seg)) -> (0 < snd (fst (fst seg)) -> snd seg <> []) -> inv (frame_step md s seg).
Proof.
  destruct seg as [[[src size] force] cuts]. cbn [fst snd]. intros [T I] S NE. unfold frame_step.
  destruct (window_update (w s) src size force) as [w' c] eqn:WU.
  set (s0 := {| w := w'; lde := lde s; dms := dms s; total := total s |}).
  destruct (frame_blocks_keeps cuts s0 src md) as [TT K]. cbn zeta in TT, K.
  unfold inv, aligned. cbn [w lde dms total]. rewrite TT. cbn [total s0]. split; [subst s0; cbn; lia|].
  intros D. destruct (K D) as [D0 [W0 L0]]. rewrite W0, L0.
  destruct (window_update_fields _ _ _ _ _ _ WU S) as [[Z0 Ew]|[P [N A]]].
  - subst s0. subst. cbn [w lde dms total] in *. destruct (I D0) as [A1 A2]. split; lia.
  - pose proof (frame_blocks_first cuts s0 src md (NE P) D) as F. subst s0. cbn [w lde dms total] in *.
    destruct (I D0) as [A1 A2].
    destruct A as [[C1 [C2 [C3 C4]]]|[B1 B2]].
    + split; lia.
    + split; [lia|]. rewrite N, B1. lia.
Qed.

(* ---- every history ---- *)
Definition seg_ok (seg : Z * Z * bool) : Prop := 0 <= snd (fst seg).
Definition fseg_ok (seg : Z * Z * bool * list Z) : Prop := 0 <= snd (fst (fst seg)) /\ (0 < snd (fst (fst seg)) -> snd seg <> []).

Theorem block_mode_attached_dictionary_aligned : forall b db e segs,
  Forall seg_ok segs -> inv (fold_left (block_step true) segs (attach b db e)).
Proof.
  intros b db e segs. generalize (attach_inv b db e). generalize (attach b db e).
  induction segs as [|x r IH]; intros s I F; cbn [fold_left]; [exact I|].
  inversion F; subst. apply IH; [apply block_step_inv; assumption|assumption].
Qed.

Theorem frame_mode_attached_dictionary_aligned : forall md b db e segs,
  Forall fseg_ok segs -> inv (fold_left (frame_step md) segs (attach b db e)).
Proof.
  intros md b db e segs. generalize (attach_inv b db e). generalize (attach b db e).
  induction segs as [|x r IH]; intros s I F; cbn [fold_left]; [exact I|].
  inversion F as [|? ? [H1 H2] H3]; subst. apply IH; [apply frame_step_inv; assumption|assumption].
Qed.

(* in particular, whenever the dictionary-aware compressors run, the index translation is the decoder's distance *)
Corollary block_mode_dictionary_use_aligned : forall b db e segs,
  Forall seg_ok segs -> let s := fold_left (block_step true) segs (attach b db e) in uses_dict s = true -> aligned s.
Proof.
  intros b db e segs F s U. destruct (block_mode_attached_dictionary_aligned b db e segs F) as [_ I].
  apply I. unfold uses_dict in U. apply andb_prop in U. exact (proj1 U).
Qed.

(* before 00d59f3 (block mode never looked) : dictionary attached at index 1000; a first block of 1000 bytes at address 50000, a
   second one elsewhere (70000), a third one written over the second : the overlap removes the extDict segment, the dictionary-aware
   compressor runs again with the prefix starting 2000 bytes after the place where the output began *)
Definition ex_hist : list (Z * Z * bool) := [(50000, 1000, false); (70000, 1000, false); (70200, 2000, false)].
Example block_mode_refuted_before_fix :
  let s := fold_left (block_step false) ex_hist (attach 10 10 1000) in
  uses_dict s = true /\ dictLimit (w s) = 3000 /\ lde s = 1000 /\ total s = 4000 /\ nextSrc (w s) - base (w s) = 5000.
Proof. vm_compute. repeat split; reflexivity. Qed.
Example block_mode_fixed_example :
  let s := fold_left (block_step true) ex_hist (attach 10 10 1000) in dms s = false /\ Forall seg_ok ex_hist.
Proof. split; [vm_compute; reflexivity|]. repeat constructor; unfold seg_ok; cbn; lia. Qed.
(* a contiguous history keeps the dictionary, in both modes *)
Example contiguous_keeps_dictionary :
  uses_dict (fold_left (block_step true) [(50000, 1000, false); (51000, 500, false)] (attach 10 10 1000)) = true /\
  uses_dict (fold_left (frame_step 4096) [(50000, 1000, false, [1000]); (51000, 500, false, [500])] (attach 10 10 1000)) = true /\
  dms (fold_left (frame_step 4096) [(50000, 1000, false, [1000]); (60000, 500, false, [500])] (attach 10 10 1000)) = false /\
  dms (fold_left (frame_step 1024) [(50000, 3000, false, [2048; 952])] (attach 10 10 1000)) = false.
Proof. vm_compute. repeat split; reflexivity. Qed.

(* ---- "the whole dictionary is referencable while its last byte is within the window, then dropped" ---- *)
(* after the two per-block calls of ZSTD_compress_frameChunk for the block [ip, blockEnd) : if a dictionary is still in force (loaded one :
   loadedDictEnd <> 0 ; attached one : dictMatchState <> NULL) then the whole block lies within maxDist of the dictionary's end *)
Lemma dictionary_in_force_inside_first_window s ip bs md :
  let s' := enforce_max_dist (check_dict_validity s (ip + bs) md) ip md in
  (lde s' <> 0 \/ dms s' = true) -> lde s' = lde s /\ (ip + bs) - base (w s) <= lde s + md.
Proof.
  cbn zeta. unfold enforce_max_dist. destruct (_ >? _) eqn:E1.
  - cbn [lde dms]. intros [H|H]; [congruence|discriminate].
  - unfold check_dict_validity in *. destruct (_ || _) eqn:C.
    + cbn [lde dms]. intros [H|H]; [congruence|discriminate].
    + intros _. apply orb_false_iff in C. destruct C as [C _]. split; [reflexivity|]. lia.
Qed.

(* ZSTD_getLowestMatchIndex(ms, curr, windowLog) *)
Definition lowest_match_index (s : st) (curr md : Z) : Z :=
  let lowestValid := lowLimit (w s) in
  let withinWindow := if curr - lowestValid >? md then curr - md else lowestValid in
  if lde s =? 0 then withinWindow else lowestValid.

(* the format's window rule as the reference decoder states it (coq/Codec/Block.v, offset_ok) : pos = position in the frame *)
Definition format_window_rule (window pos off : Z) : Prop := if off <=? pos then off <= window else pos <= window.

(* a loaded dictionary occupying the indices below f0, input contiguous from f0 on : any match the finders may return for position curr of
   the block (index >= ZSTD_getLowestMatchIndex) obeys the format's rule, whether or not the dictionary is still valid *)
Theorem frame_mode_match_obeys_window_rule : forall s ip bs md f0 curr m,
  0 <= md -> (lde s = f0 \/ lde s = 0) -> f0 <= ip - base (w s) ->
  let s' := enforce_max_dist (check_dict_validity s (ip + bs) md) ip md in
  ip - base (w s) <= curr < ip + bs - base (w s) ->
  lowest_match_index s' curr md <= m < curr ->
  format_window_rule md (curr - f0) (curr - m).
Proof.
  intros s ip bs md f0 curr m MD L F s' C M. unfold format_window_rule.
  destruct (Z.eq_dec (lde s') 0) as [Z0|NZ].
  - unfold lowest_match_index in M. rewrite Z0 in M. cbn in M.
    destruct (curr - lowLimit (w s') >? md) eqn:G.
    + destruct (curr - m <=? curr - f0) eqn:O; [lia|]. apply Z.leb_gt in O. lia.
    + assert (curr - lowLimit (w s') <= md) by lia.
      destruct (curr - m <=? curr - f0) eqn:O; [lia|]. apply Z.leb_gt in O. lia.
  - destruct (dictionary_in_force_inside_first_window s ip bs md (or_introl NZ)) as [K1 K2]. fold s' in K1.
    assert (lde s = f0) by (destruct L; congruence).
    destruct (curr - m <=? curr - f0) eqn:O; [apply Z.leb_le in O|]; lia.
Qed.

Example window_rule_example :
  let s := {| w := {| base := 0; dictBase := 7777; dictLimit := 1002; lowLimit := 2; nextSrc := 5002 |}; lde := 1002; dms := false; total := 0 |} in
  lde (enforce_max_dist (check_dict_validity s 3002 2048) 1002 2048) = 1002 /\
  lde (enforce_max_dist (check_dict_validity s 5002 2048) 3002 2048) = 0 /\
  lowLimit (w (enforce_max_dist (check_dict_validity s 5002 2048) 3002 2048)) = 954 /\
  lowest_match_index (enforce_max_dist (check_dict_validity s 5002 2048) 3002 2048) 4000 2048 = 1952.
Proof. vm_compute. repeat split; reflexivity. Qed.

(* the hypotheses of the two history theorems are satisfiable (any history with sizes >= 0 and at least one block per non-empty segment) *)
Example fseg_ok_example : Forall fseg_ok [(50000, 1000, false, [1000]); (51000, 500, false, [500]); (900, 0, true, [])] /\ Forall seg_ok [(50000, 1000, false); (70000, 0, true)].
Proof. split; repeat constructor; cbn; try lia; try discriminate. Qed.
