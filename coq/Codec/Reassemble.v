(* Tie helper for the serialiser side A: decode a frame with R, rebuild it with A from what R saw
   (header fields, block list, content; compressed payloads are carried over), and report the first byte where
   the rebuilt frame differs from the original.  On frames emitted by the real compressor the two must be
   identical: that compares ZSTD_writeFrameHeader / block framing / raw and RLE blocks / the epilogue with Encode.v.
   Model only - no proofs in this file. *)
From Coq Require Import NArith ZArith List Bool.
From ZV.Codec Require Import Bytes XXH64 Fse Huf Block Frame Encode.
Import ListNotations.
Local Open Scope N_scope.

Definition params_of_fheader (ml : bool) (fh : fheader) : option (fparams * N) :=
  let wl := if fh_single fh then Some 31
            else let l := N.log2 (fh_window fh) in if pow2 l =? fh_window fh then Some l else None in
  match wl with
  | None => None
  | Some l => Some ({| fp_windowLog := l;
                       fp_contentSize := match fh_fcs fh with Some _ => true | None => false end;
                       fp_checksum := fh_checksum fh;
                       fp_noDictID := false;
                       fp_magicless := ml |}, fh_dictid fh)
  end.

(* walk the block traces, the content and the frame body in parallel *)
Fixpoint rebuild_blocks (bts : list btrace) (content body : bytes) (acc : list eblock) : option (list eblock) :=
  match bts with
  | [] => Some (rev' acc)
  | bt :: t =>
    let after_hdr := skipN body 3 in
    let regen := takeN (bt_rsize bt) content in
    let content' := skipN content (bt_rsize bt) in
    if bt_type bt =? 0 then
      rebuild_blocks t content' (skipN after_hdr (bt_csize bt)) (EBRaw regen :: acc)
    else if bt_type bt =? 1 then
      match after_hdr with
      | [] => None
      | v :: r => rebuild_blocks t content' r (EBRle v (bt_rsize bt) :: acc)
      end
    else
      rebuild_blocks t content' (skipN after_hdr (bt_csize bt)) (EBComp (takeN (bt_csize bt) after_hdr) regen :: acc)
  end.

Fixpoint first_diff (a b : bytes) (i : N) : option N :=
  match a, b with
  | [], [] => None
  | x :: a', y :: b' => if x =? y then first_diff a' b' (N.succ i) else Some i
  | _, _ => Some i
  end.

(* Ok None: identical; Ok (Some i): first differing byte; Err: R refused the frame or the trace is not rebuildable *)
Definition reassemble_check (cfg : config) (d : option dict) (frame : bytes) : res (option N) :=
  do r <- decode_frame cfg d frame;
  let '(content, t, rest) := r in
  do pd <- of_opt (params_of_fheader (c_magicless cfg) (ft_header t)) Eformat 950;
  let '(p, did) := pd in
  do bs <- of_opt (rebuild_blocks (ft_blocks t) content (skipN frame (fh_size (ft_header t))) []) Eformat 951;
  Ok (first_diff (enc_frame p did bs ++ rest) frame 0).

(* unit-level: the header writer alone *)
Definition enc_fheader_of (wlog : N) (cs ck nodid ml : bool) (pledged dictID : N) : bytes :=
  enc_fheader {| fp_windowLog := wlog; fp_contentSize := cs; fp_checksum := ck; fp_noDictID := nodid; fp_magicless := ml |} pledged dictID.

(* ---------- compressed blocks: re-encode the sequences bitstream (and raw / RLE literals sections) ---------- *)
From ZV.Codec Require Import EncodeSeq EncodeHuf EncodeFse EncodeHufDesc.

(* the values of the sequences of a block, read like seq_loop reads them but without executing them *)
Fixpoint seq_values (n : nat) (tll tof tml : fse_table) (stll stof stml : N) (s : list bool) (acc : list eseq) : res (list eseq) :=
  match n with
  | O => Ok (rev' acc)
  | S n' =>
    let ofc := fse_peek tof stof in
    let mlc := fse_peek tml stml in
    let llc := fse_peek tll stll in
    do r1 <- rd ofc s;
    let '(mlb, mlx) := ml_info mlc in
    do r2 <- rd mlx (snd r1);
    let '(llb, llx) := ll_info llc in
    do r3 <- rd llx (snd r2);
    let q := {| q_ll := llb + fst r3; q_ml := mlb + fst r2; q_ofv := pow2 ofc + fst r1 |} in
    match n' with
    | O => Ok (rev' (q :: acc))
    | S _ =>
      do u1 <- of_opt (fse_update tll stll (snd r3)) Eformat 960;
      do u2 <- of_opt (fse_update tml stml (snd u1)) Eformat 961;
      do u3 <- of_opt (fse_update tof stof (snd u2)) Eformat 962;
      seq_values n' tll tof tml (fst u1) (fst u3) (fst u2) (snd u3) (q :: acc)
    end
  end.

(* an FSE_Compressed_Mode table description re-written by the model from the counts R read: None = same bytes *)
Definition ncount_diff (mode maxSV maxLog : N) (src : bytes) : option N :=
  if mode =? 2 then
    match read_ncount maxSV maxLog src with
    | Ok (log, counts, used) =>
      match write_ncount log counts with
      | Some d => first_diff d (takeN used src) 0
      | None => Some 0
      end
    | Err _ _ => Some 0
    end
  else None.

(* a Huffman tree description re-written by the model from the weights (and, for the FSE form, the normalised counts) R read *)
Definition treedesc_reencode (treedesc : bytes) : option bytes :=
  match treedesc with
  | [] => None
  | hb :: rest =>
    if 128 <=? hb then
      match direct_weights (N.to_nat (hb - 127)) rest with
      | Some ws => Some (enc_weights_direct ws)
      | None => None
      end
    else
      let body := takeN hb rest in
      match read_ncount 255 6 body, fse_weights body with
      | Ok (log, counts, _), Ok ws => enc_weights_fse log counts ws
      | _, _ => None
      end
  end.

(* Ok None: the model encoder reproduces the block's literals header (raw / RLE modes), Number_of_Sequences field and
   sequences bitstream byte for byte; Ok (Some i): first differing byte (offset inside the block payload) *)
Definition reencode_cblock (blockMax : N) (e : entropy) (payload : bytes) : res (option N) :=
  do l <- decode_literals blockMax (e_huf e) payload;
  let '(lits, huf', lused, lmode) := l in
  let litsec := takeN lused payload in
  let lit_diff := if lmode =? 0 then first_diff (enc_lits_raw lits) litsec 0
                  else if lmode =? 1 then match lits with v :: _ => first_diff (enc_lits_rle v (lenN lits)) litsec 0 | [] => None end
                  else
                    (* Huffman-compressed literals: re-encode the streams with the block's tree; the tree description is carried over *)
                    let ltype := N.land lmode 3 in
                    let sf := match litsec with b0 :: _ => N.land (N.shiftr b0 2) 3 | [] => 0 end in
                    let lh := if sf <? 2 then 3 else if sf =? 2 then 4 else 5 in
                    let body := skipN litsec lh in
                    let treedesc := if ltype =? 2 then match read_huf_table LitHufLog body with Ok (_, used) => takeN used body | Err _ _ => [] end else [] in
                    let treedesc' := if ltype =? 2 then match treedesc_reencode treedesc with Some d => d | None => [] end else [] in
                    match huf' with
                    | Some t => match enc_lits_huf ltype sf treedesc' (h_tree t) lits with
                                | Some sec => first_diff sec litsec 0
                                | None => Some 0
                                end
                    | None => Some 0
                    end in
  match lit_diff with
  | Some i => Ok (Some i)
  | None =>
    let rest := skipN payload lused in
    do ns <- read_nbseq rest;
    let '(nbseq, rest1) := ns in
    match first_diff (enc_nbseq nbseq ++ rest1) rest 0 with
    | Some i => Ok (Some (lused + i))
    | None =>
      if nbseq =? 0 then Ok None
      else
        match rest1 with
        | [] => Err Etrunc 963
        | modes :: rest2 =>
          do tl <- seq_table (N.shiftr modes 6) MaxLL LLFSELog 6 spec_LL_default (e_ll e) rest2;
          do to <- seq_table (N.land (N.shiftr modes 4) 3) MaxOff OffFSELog 5 spec_OF_default (e_of e) (snd tl);
          do tm <- seq_table (N.land (N.shiftr modes 2) 3) MaxML MLFSELog 6 spec_ML_default (e_ml e) (snd to);
          let stream := snd tm in
          match ncount_diff (N.shiftr modes 6) MaxLL LLFSELog rest2,
                ncount_diff (N.land (N.shiftr modes 4) 3) MaxOff OffFSELog (snd tl),
                ncount_diff (N.land (N.shiftr modes 2) 3) MaxML MLFSELog (snd to) with
          | Some i, _, _ => Ok (Some (lenN payload - lenN rest2 + i))
          | None, Some i, _ => Ok (Some (lenN payload - lenN (snd tl) + i))
          | None, None, Some i => Ok (Some (lenN payload - lenN (snd to) + i))
          | None, None, None =>
          do s0 <- of_opt (rbits_open stream) Eformat 964;
          do i1 <- of_opt (fse_init (fst tl) s0) Eformat 965;
          do i2 <- of_opt (fse_init (fst to) (snd i1)) Eformat 966;
          do i3 <- of_opt (fse_init (fst tm) (snd i2)) Eformat 967;
          do qs <- seq_values (N.to_nat nbseq) (fst tl) (fst to) (fst tm) (fst i1) (fst i2) (fst i3) (snd i3) [];
          match enc_seq_stream (fst tl) (fst to) (fst tm) qs with
          | None => Err Eformat 968          (* the model encoder cannot encode what the block holds *)
          | Some stream' =>
            match first_diff stream' stream 0 with
            | None => Ok None
            | Some i => Ok (Some (lenN payload - lenN stream + i))
            end
          end
          end
        end
    end
  end.

(* walk the blocks of a decoded frame, threading R's entropy / output state; report the first block that differs *)
Fixpoint reencode_blocks (strict : bool) (window blockMax : N) (e : entropy) (x : xstate) (bs : list eblock) (idx : N)
  : res (option (N * N)) :=
  match bs with
  | [] => Ok None
  | b :: t =>
    do chk <- (match b with EBComp pl _ => reencode_cblock blockMax e pl | _ => Ok None end);
    match chk with
    | Some i => Ok (Some (idx, i))
    | None =>
      do r <- block_spec strict window blockMax e x b;
      reencode_blocks strict window blockMax (fst r) (snd r) t (N.succ idx)
    end
  end.

Definition reencode_check (cfg : config) (d : option dict) (frame : bytes) : res (option (N * N)) :=
  do r <- decode_frame cfg d frame;
  let '(content, t, rest) := r in
  do bs <- of_opt (rebuild_blocks (ft_blocks t) content (skipN frame (fh_size (ft_header t))) []) Eformat 951;
  let fh := ft_header t in
  let blockMax := N.min (N.min (fh_window fh) BLOCK_MAX) (c_block_max cfg) in
  let e0 := match d with Some dc => match d_entropy dc with Some e => e | None => no_entropy end | None => no_entropy end in
  let dcontent := match d with Some dc => d_content dc | None => [] end in
  let x0 := {| x_hist := rev' dcontent; x_marks := []; x_avail := lenN dcontent; x_pos := 0; x_blk := 0 |} in
  reencode_blocks (c_strict_window cfg) (fh_window fh) blockMax e0 x0 bs 0.

(* ---------- the other direction: a frame built by the model from a parse, to be decoded by the implementation ---------- *)
Definition frame_window' (p : fparams) (n : N) : N := if fh_single_segment p n then n else pow2 (fp_windowLog p).

(* the boolean says whether the block fits Block_Maximum_Size (hypothesis of C01_lz_frame_round_trip); when it does not,
   the frame is not a valid one and the real compressor would have stored the block raw *)
Definition lz_frame (wlog : N) (cs ck : bool) (lits : bytes) (qs : list eseq) : option (bytes * bytes * bool) :=
  match lz_exec qs (1, 4, 8) [] lits with
  | None => None
  | Some (h1, lits1, _) =>
    let regen := rev' (rev_append lits1 h1) in
    match enc_cblock_basic lits qs with
    | None => None
    | Some payload =>
      let p := {| fp_windowLog := wlog; fp_contentSize := cs; fp_checksum := ck; fp_noDictID := false; fp_magicless := false |} in
      Some (enc_frame p 0 [EBComp payload regen], regen,
            lenN payload <=? N.min (frame_window' p (lenN regen)) BLOCK_MAX)
    end
  end.

(* a multi-block frame built by the LZ compressor model (content size not declared, so the window is 2^wlog) *)
From ZV.Codec Require Import EncodeLzFrame.
Definition lz_frame_blocks (wlog : N) (ck : bool) (pbs : list pblock) : option (bytes * bytes) :=
  let win := pow2 wlog in
  let blockMax := N.min win BLOCK_MAX in
  match pblocks_run true win blockMax {| z_hist := []; z_rep := (1, 4, 8); z_pos := 0 |} pbs with
  | None => None
  | Some (ebs, z) =>
    Some (enc_frame {| fp_windowLog := wlog; fp_contentSize := false; fp_checksum := ck; fp_noDictID := false; fp_magicless := false |} 0 ebs,
          blocks_content ebs)
  end.
