(* XXH64 (one-shot and streaming) over N with explicit mod 2^64 wrap-around.  Model only. *)
From Coq Require Import NArith List.
From ZV.Codec Require Import Bytes.
Import ListNotations.
Local Open Scope N_scope.

Definition M64 : N := 18446744073709551616.
Definition MASK64 : N := 18446744073709551615.
Definition w64 (x : N) : N := N.land x MASK64.
Definition P1 : N := 11400714785074694791.
Definition P2 : N := 14029467366897019727.
Definition P3 : N := 1609587929392839161.
Definition P4 : N := 9650029242287828579.
Definition P5 : N := 2870177450012600261.

Definition rotl64 (x r : N) : N := w64 (N.lor (N.shiftl x r) (N.shiftr x (64 - r))).
Definition xround (acc inp : N) : N := w64 (rotl64 (w64 (acc + w64 (inp * P2))) 31 * P1).
Definition merge_round (acc v : N) : N := w64 (w64 (N.lxor acc (xround 0 v)) * P1 + P4).
Definition avalanche (h : N) : N :=
  let h := N.lxor h (N.shiftr h 33) in
  let h := w64 (h * P2) in
  let h := N.lxor h (N.shiftr h 29) in
  let h := w64 (h * P3) in
  N.lxor h (N.shiftr h 32).

Record xstate := { xv1 : N; xv2 : N; xv3 : N; xv4 : N; xtotal : N; xbuf : bytes (* < 32 pending bytes, in order *) }.

Definition xreset (seed : N) : xstate :=
  {| xv1 := w64 (seed + P1 + P2); xv2 := w64 (seed + P2); xv3 := seed; xv4 := w64 (seed + M64 - P1);
     xtotal := 0; xbuf := [] |}.

(* consume full 32-byte stripes *)
Fixpoint xstripes (v1 v2 v3 v4 : N) (l : bytes) {struct l} : N * N * N * N * bytes :=
    match l with
    | a0::a1::a2::a3::a4::a5::a6::a7::b0::b1::b2::b3::b4::b5::b6::b7::
      c0::c1::c2::c3::c4::c5::c6::c7::d0::d1::d2::d3::d4::d5::d6::d7::t =>
        xstripes (xround v1 (le_val [a0;a1;a2;a3;a4;a5;a6;a7])) (xround v2 (le_val [b0;b1;b2;b3;b4;b5;b6;b7]))
                   (xround v3 (le_val [c0;c1;c2;c3;c4;c5;c6;c7])) (xround v4 (le_val [d0;d1;d2;d3;d4;d5;d6;d7])) t
    | _ => (v1, v2, v3, v4, l)
    end.

Definition xupdate (s : xstate) (data : bytes) : xstate :=
  let l := xbuf s ++ data in
  let '(v1, v2, v3, v4, rest) := xstripes (xv1 s) (xv2 s) (xv3 s) (xv4 s) l in
  {| xv1 := v1; xv2 := v2; xv3 := v3; xv4 := v4; xtotal := xtotal s + lenN data; xbuf := rest |}.

Fixpoint xtail (h : N) (l : bytes) {struct l} : N :=
    match l with
    | a0::a1::a2::a3::a4::a5::a6::a7::t =>
        xtail (w64 (rotl64 (N.lxor h (xround 0 (le_val [a0;a1;a2;a3;a4;a5;a6;a7]))) 27 * P1 + P4)) t
    | a0::a1::a2::a3::t =>
        xtail (w64 (rotl64 (N.lxor h (w64 (le_val [a0;a1;a2;a3] * P1))) 23 * P2 + P3)) t
    | a0::t => xtail (w64 (rotl64 (N.lxor h (w64 (a0 * P5))) 11 * P1)) t
    | [] => h
    end.

Definition xdigest (s : xstate) : N :=
  let h0 := if 32 <=? xtotal s
            then let h := w64 (rotl64 (xv1 s) 1 + rotl64 (xv2 s) 7 + rotl64 (xv3 s) 12 + rotl64 (xv4 s) 18) in
                 merge_round (merge_round (merge_round (merge_round h (xv1 s)) (xv2 s)) (xv3 s)) (xv4 s)
            else w64 (xv3 s + P5) in
  avalanche (xtail (w64 (h0 + xtotal s)) (xbuf s)).

Definition xxh64 (data : bytes) (seed : N) : N := xdigest (xupdate (xreset seed) data).
