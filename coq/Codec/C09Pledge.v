(* C09, round 2: the pledged-source-size bookkeeping of ZSTD_compressStream2 (lib/compress/zstd_compress.c), as a model.
   State mirrored: streamStage (init or not), pledgedSrcSizePlusOne, stableIn_notConsumed (+ whether a call was deferred),
   consumedSrcSize.  One call offers n new bytes with an end directive (0 continue, 1 flush, 2 end); the output buffer is
   assumed large enough, so every call takes all it is offered and an end call completes the frame.
   - transparent init (ZSTD_compressStream2, stage zcss_init): with ZSTD_c_stableInBuffer, ZSTD_e_continue and fewer than
     ZSTD_BLOCKSIZE_MAX bytes in total, the call is only recorded (stableIn_notConsumed += n) and the frame does not start;
     otherwise ZSTD_CCtx_init_compressStream2 runs, and `if (endOp == ZSTD_e_end) pledgedSrcSizePlusOne = inSize + 1`.
   - end of frame (ZSTD_writeEpilogue / the multithreaded twin): error unless pledgedSrcSizePlusOne == 0 or == consumed + 1.
   - during the frame (ZSTD_compressContinue_internal): error once consumed + 1 > pledgedSrcSizePlusOne; the call at which
     libzstd notices depends on buffering, so the model only says from which call on it MAY (flag `over`).
   `fixed` = true is the tree since commit 99eca65: the override by the end directive applies only when no earlier call of the frame
   accepted input (`stableIn_notConsumed == 0 || pledgedSrcSizePlusOne == 0`; zstd.h, ZSTD_CCtx_setPledgedSrcSize note 3: "all input
   data is provided and consumed in a single round ... invoking immediately ZSTD_compressStream2(,,,ZSTD_e_end)"; a deferred call of
   0 bytes changes no state and does not count).  fixed = false is the tree before that commit (a frame whose first calls were
   deferred started under the end directive and the pledge was dropped: finding C09-stablein-deferred-pledge-overridden). *)
From Coq Require Import NArith List Bool Lia.
Import ListNotations.
Local Open Scope N_scope.

Definition BLK : N := 131072.

Record pst := { started : bool; pledge1 : N; deferred : N; consumed : N }.
Inductive cres := Cdeferred | Cok (over : bool) | Cend (ok : bool).

Definition fresh (pledge : option N) : pst :=
  {| started := false; pledge1 := match pledge with Some p => p + 1 | None => 0 end; deferred := 0; consumed := 0 |}.

Definition process (s : pst) (n d : N) : pst * cres :=
  let c := consumed s + n in
  if d =? 2 then (fresh None, Cend (orb (pledge1 s =? 0) (c + 1 =? pledge1 s)))
  else ({| started := true; pledge1 := pledge1 s; deferred := 0; consumed := c |},
        Cok (andb (negb (pledge1 s =? 0)) (pledge1 s <? c + 1))).

Definition call (fixed stable : bool) (s : pst) (n d : N) : pst * cres :=
  if started s then process s n d
  else
    let total := n + deferred s in
    if andb stable (andb (d =? 0) (total <? BLK)) then
      ({| started := false; pledge1 := pledge1 s; deferred := total; consumed := 0 |}, Cdeferred)
    else
      let keep := andb fixed (andb (negb (deferred s =? 0)) (negb (pledge1 s =? 0))) in
      let p1 := if andb (d =? 2) (negb keep) then total + 1 else pledge1 s in
      process {| started := true; pledge1 := p1; deferred := 0; consumed := 0 |} total d.

(* a history of calls, stopped at the first end call; None: the frame was not ended *)
Fixpoint run (fixed stable : bool) (s : pst) (h : list (N * N)) (acc : list cres) : list cres * option bool :=
  match h with
  | [] => (rev acc, None)
  | (n, d) :: t =>
    let '(s', r) := call fixed stable s n d in
    match r with
    | Cend ok => (rev (r :: acc), Some ok)
    | _ => run fixed stable s' t (r :: acc)
    end
  end.

Definition verdict (fixed stable : bool) (pledge : option N) (h : list (N * N)) : option bool :=
  snd (run fixed stable (fresh pledge) h []).

(* ---------------- what the final verdict is ---------------- *)
Definition total (h : list (N * N)) : N := fold_right (fun c a => fst c + a) 0 h.
Definition no_end (h : list (N * N)) : Prop := Forall (fun c => snd c <> 2) h.

(* all the calls of h are deferred by the stable-input path: every one is ZSTD_e_continue and the total (on top of d0 bytes
   deferred before) stays below a block *)
Definition alldefb (stable : bool) (d0 : N) (h : list (N * N)) : bool :=
  andb stable (andb (forallb (fun c => snd c =? 0) h) (d0 + total h <? BLK)).
Definition is_nil {A} (l : list A) : bool := match l with [] => true | _ => false end.

Lemma run_acc fixed stable : forall h s acc, run fixed stable s h acc =
  (rev acc ++ fst (run fixed stable s h []), snd (run fixed stable s h [])).
Proof.
  induction h as [|[n d] t IH]; intros s acc; cbn [run].
  - cbn. rewrite app_nil_r. reflexivity.
  - destruct (call fixed stable s n d) as [s' r]. destruct r.
    + rewrite (IH s' (Cdeferred :: acc)), (IH s' [Cdeferred]). cbn [rev app fst snd]. rewrite <- app_assoc. reflexivity.
    + rewrite (IH s' (Cok over :: acc)), (IH s' [Cok over]). cbn [rev app fst snd]. rewrite <- app_assoc. reflexivity.
    + cbn [rev app fst snd]. reflexivity.
Qed.

Lemma snd_run_acc fixed stable h s acc : snd (run fixed stable s h acc) = snd (run fixed stable s h []).
Proof. rewrite run_acc. reflexivity. Qed.

(* once the frame has started, the verdict of (h ++ [end call]) compares the pledge with everything consumed *)
Lemma run_started fixed stable : forall h s n, started s = true -> no_end h ->
  snd (run fixed stable s (h ++ [(n, 2)]) []) = Some (orb (pledge1 s =? 0) (consumed s + total h + n + 1 =? pledge1 s)).
Proof.
  induction h as [|[m d] t IH]; intros s n Hs Hne.
  - cbn [app run]. unfold call. rewrite Hs. unfold process. cbn [N.eqb Pos.eqb]. cbn [rev app fst snd total fold_right].
    rewrite N.add_0_r. reflexivity.
  - inversion Hne as [|c l Hd Ht]; subst. cbn [snd] in Hd.
    cbn [app run]. unfold call. rewrite Hs. unfold process.
    destruct (d =? 2) eqn:Ed; [apply N.eqb_eq in Ed; congruence|].
    rewrite snd_run_acc. rewrite IH by (cbn [started]; auto).
    cbn [pledge1 consumed total fold_right fst]. fold (total t).
    replace (consumed s + m + total t + n + 1) with (consumed s + (m + total t) + n + 1) by lia. reflexivity.
Qed.

(* the frame has not started yet *)
Lemma run_unstarted fixed stable : forall h s n, started s = false -> no_end h ->
  snd (run fixed stable s (h ++ [(n, 2)]) []) =
  Some (let enforced := orb (pledge1 s =? 0) (deferred s + total h + n + 1 =? pledge1 s) in
        if orb (is_nil h) (alldefb stable (deferred s) h)
        then if andb fixed (andb (negb (deferred s + total h =? 0)) (negb (pledge1 s =? 0))) then enforced else true
        else enforced).
Proof.
  induction h as [|[m d] t IH]; intros s n Hs Hne.
  - cbn [app run is_nil orb total fold_right]. unfold call. rewrite Hs. cbn [N.eqb andb negb].
    rewrite andb_false_r. cbn [negb]. unfold process. cbn [N.eqb Pos.eqb pledge1 consumed rev app snd].
    rewrite ?N.add_0_r, ?N.add_0_l, ?orb_false_r.
    destruct (andb fixed (andb (negb (deferred s =? 0)) (negb (pledge1 s =? 0)))) eqn:K; cbn [negb andb].
    + rewrite (N.add_comm n (deferred s)). reflexivity.
    + rewrite N.eqb_refl, orb_true_r. reflexivity.
  - inversion Hne as [|c l Hd Ht]; subst. cbn [snd] in Hd.
    cbn [app run]. unfold call. rewrite Hs.
    cbn [is_nil orb negb total fold_right fst]. fold (total t).
    destruct (andb stable (andb (d =? 0) (m + deferred s <? BLK))) eqn:Edef.
    + (* this call is deferred *)
      apply andb_true_iff in Edef. destruct Edef as (Est & Edef). apply andb_true_iff in Edef. destruct Edef as (Ed0 & Elt).
      rewrite snd_run_acc. rewrite IH by (cbn [started]; auto).
      cbn [pledge1 deferred orb]. unfold alldefb. cbn [forallb snd]. rewrite Ed0, Est. cbn [andb].
      replace (m + deferred s + total t + n + 1) with (deferred s + (m + total t) + n + 1) by lia.
      replace (m + deferred s + total t) with (deferred s + (m + total t)) by lia.
      destruct t as [|c t'].
      * cbn [is_nil orb forallb andb total fold_right negb fst]. rewrite ?N.add_0_r.
        replace (deferred s + m) with (m + deferred s) by lia. rewrite Elt. reflexivity.
      * cbn [is_nil orb negb]. reflexivity.
    + (* the frame starts here, under a continue / flush directive *)
      assert (Ed2 : (d =? 2) = false) by (apply N.eqb_neq; exact Hd).
      rewrite Ed2. cbn [andb]. unfold process. cbn [pledge1 consumed]. rewrite Ed2.
      rewrite snd_run_acc. rewrite run_started by (cbn [started]; auto).
      cbn [pledge1 consumed]. rewrite N.add_0_l.
      replace (m + deferred s + total t + n + 1) with (deferred s + (m + total t) + n + 1) by lia.
      assert (A : alldefb stable (deferred s) ((m, d) :: t) = false).
      { unfold alldefb. cbn [forallb snd total fold_right fst]. fold (total t).
        destruct stable; [|reflexivity]. cbn [andb] in *. destruct (d =? 0); [|reflexivity]. cbn [andb] in *.
        apply N.ltb_ge in Edef. rewrite andb_comm. replace (deferred s + (m + total t) <? BLK) with false; [reflexivity|].
        symmetry. apply N.ltb_ge. lia. }
      rewrite A. reflexivity.
Qed.

Lemma succ_eqb a b : (a + 1 =? b + 1) = (a =? b).
Proof. destruct (N.eqb_spec a b) as [->|Hn]; [apply N.eqb_refl|apply N.eqb_neq; lia]. Qed.
Lemma succ_nonzero p : (p + 1 =? 0) = false.
Proof. apply N.eqb_neq. lia. Qed.

(* ---------------- the theorems ---------------- *)
(* no pledge: every way of feeding and ending a frame succeeds *)
Theorem verdict_no_pledge fixed stable h n : no_end h -> verdict fixed stable None (h ++ [(n, 2)]) = Some true.
Proof.
  intros Hne. unfold verdict. rewrite run_unstarted by (auto). cbn [fresh pledge1 N.eqb orb negb andb].
  rewrite !andb_false_r. destruct (orb (is_nil h) (alldefb stable (deferred (fresh None)) h)); reflexivity.
Qed.

(* the tree since 99eca65: with a pledge p, the frame ends well iff exactly p bytes were supplied, unless no earlier call accepted a
   byte: the end directive came with the very first call, or behind stable-input calls of 0 bytes (documented override) *)
Theorem verdict_fixed stable p h n : no_end h ->
  verdict true stable (Some p) (h ++ [(n, 2)]) =
  Some (if orb (is_nil h) (andb (alldefb stable 0 h) (total h =? 0)) then true else total h + n =? p).
Proof.
  intros Hne. unfold verdict. rewrite run_unstarted by (auto).
  cbn [fresh pledge1 deferred orb andb]. rewrite succ_nonzero. cbn [negb orb andb]. rewrite !N.add_0_l, succ_eqb, andb_true_r.
  destruct (orb (is_nil h) (alldefb stable 0 h)) eqn:E.
  - destruct (total h =? 0) eqn:T; cbn [negb].
    + replace (orb (is_nil h) (andb (alldefb stable 0 h) true)) with true; [reflexivity|]. rewrite andb_true_r. symmetry. exact E.
    + rewrite andb_false_r, orb_false_r. destruct (is_nil h) eqn:Hn; [|reflexivity].
      destruct h; [cbn in T; discriminate|discriminate].
  - apply orb_false_iff in E. destruct E as (-> & ->). reflexivity.
Qed.

(* the tree before 99eca65: the pledge was also dropped when every earlier call had been deferred by the stable-input path *)
Theorem verdict_as_is stable p h n : no_end h ->
  verdict false stable (Some p) (h ++ [(n, 2)]) =
  Some (match h with [] => true | _ => if alldefb stable 0 h then true else total h + n =? p end).
Proof.
  intros Hne. unfold verdict. rewrite run_unstarted by (auto).
  cbn [fresh pledge1 deferred orb andb]. rewrite succ_nonzero. cbn [negb orb andb]. rewrite !N.add_0_l, succ_eqb.
  destruct h as [|c t]; cbn [is_nil orb negb andb]; reflexivity.
Qed.

(* the two differ only on the deferred histories *)
Corollary as_is_differs_only_when_deferred stable p h n : no_end h -> alldefb stable 0 h = false ->
  verdict false stable (Some p) (h ++ [(n, 2)]) = verdict true stable (Some p) (h ++ [(n, 2)]).
Proof. intros Hne Ha. rewrite verdict_fixed, verdict_as_is by exact Hne. rewrite Ha. destruct h; reflexivity. Qed.

(* an early refusal is never a false alarm: once a call reports `over`, no continuation ends the frame well *)
Theorem early_refusal_sound fixed stable s m d s' h n :
  call fixed stable s m d = (s', Cok true) -> no_end h ->
  snd (run fixed stable s' (h ++ [(n, 2)]) []) = Some false.
Proof.
  intros Hc Hne.
  assert (P : forall s0 m0, process s0 m0 d = (s', Cok true) ->
              started s' = true /\ (pledge1 s' =? 0) = false /\ pledge1 s' < consumed s' + 1).
  { intros s0 m0 Hp. unfold process in Hp. destruct (d =? 2); [discriminate|]. injection Hp as <- Ho.
    cbn [started pledge1 consumed]. apply andb_true_iff in Ho. destruct Ho as (Ho1 & Ho2).
    apply negb_true_iff in Ho1. apply N.ltb_lt in Ho2. auto. }
  assert (Q : started s' = true /\ (pledge1 s' =? 0) = false /\ pledge1 s' < consumed s' + 1).
  { unfold call in Hc. destruct (started s); [eapply P; exact Hc|].
    destruct (andb stable (andb (d =? 0) (m + deferred s <? BLK))); [discriminate|]. eapply P; exact Hc. }
  destruct Q as (Q1 & Q2 & Q3). rewrite run_started by auto. rewrite Q2. cbn [orb]. f_equal. apply N.eqb_neq. lia.
Qed.
