(* tANS completeness of every decoding table built from a normalised distribution: for every symbol of non-zero
   probability and every state, some cell of that symbol has an interval containing the state - so the FSE encoder
   expressed on the decoding table (EncodeSeq.enc_init / enc_step) is total.  Table logs 5..9 (every FSE table of the
   format: sequences <= 9, Huffman weights <= 6, dictionaries <= 9).
   The positions the symbol spreading visits depend only on (log, high): that they are distinct, stay <= high and come
   back to 0 is a finite sweep (vm_compute) over all (log, high); the rest is symbolic. *)
From Coq Require Import NArith ZArith List Bool Lia Arith Sorting.Mergesort Sorting.Permutation Orders.
From ZV.Codec Require Import Bytes ListLemmas Fse EncodeProofs EncodeSeq EncodeSeqProofs TableWf.
Import ListNotations.
Local Open Scope N_scope.

(* ---------- the positions visited by the spreading, independent of the symbols ---------- *)
Fixpoint walk (n : nat) (pos step mask high : N) : list N * N :=
  match n with
  | O => ([], pos)
  | S n' => let pos' := skip_high 1024 (N.land (pos + step) mask) step mask high in
            let '(l, p) := walk n' pos' step mask high in (pos :: l, p)
  end.

Definition writes (tbl : list N) (ws : list (N * N)) : list N :=
  fold_left (fun t w => upd t (N.to_nat (fst w)) (snd w)) ws tbl.

Lemma walk_app a : forall b pos step mask high,
  walk (a + b) pos step mask high =
  let '(l1, p1) := walk a pos step mask high in
  let '(l2, p2) := walk b p1 step mask high in (l1 ++ l2, p2).
Proof.
  induction a as [|a IH]; intros b pos step mask high.
  - cbn [Nat.add walk]. destruct (walk b pos step mask high). reflexivity.
  - cbn [Nat.add walk]. rewrite IH.
    destruct (walk a _ step mask high) as [l1 p1]. destruct (walk b p1 step mask high) as [l2 p2]. reflexivity.
Qed.

Lemma walk_length n : forall pos step mask high, length (fst (walk n pos step mask high)) = n.
Proof.
  induction n as [|n IH]; intros; cbn [walk]; [reflexivity|].
  specialize (IH (skip_high 1024 (N.land (pos + step) mask) step mask high) step mask high).
  destruct (walk n _ step mask high) as [l p]. cbn [fst length] in *. lia.
Qed.

Lemma spread_one_walk n : forall sym pos step mask high tbl,
  spread_one n sym pos step mask high tbl =
  (snd (walk n pos step mask high), writes tbl (map (fun p => (p, sym)) (fst (walk n pos step mask high)))).
Proof.
  induction n as [|n IH]; intros; cbn [spread_one walk]; [reflexivity|].
  rewrite IH. destruct (walk n _ step mask high) as [l p]. reflexivity.
Qed.

(* symbols in spreading order *)
Fixpoint expand (counts : list Z) (sym : N) : list N :=
  match counts with
  | [] => []
  | c :: t => (if (0 <? c)%Z then List.repeat sym (Z.to_nat c) else []) ++ expand t (sym + 1)
  end.

Lemma writes_app tbl a b : writes tbl (a ++ b) = writes (writes tbl a) b.
Proof. unfold writes. apply fold_left_app. Qed.

Lemma combine_app {A B} (a1 : list A) : forall (b1 : list B) a2 b2, length a1 = length b1 ->
  combine (a1 ++ a2) (b1 ++ b2) = combine a1 b1 ++ combine a2 b2.
Proof.
  induction a1 as [|x t IH]; intros [|y u] a2 b2 H; cbn in *; try discriminate; [reflexivity|].
  rewrite IH by lia. reflexivity.
Qed.

Lemma combine_repeat (l : list N) (s : N) : combine l (List.repeat s (length l)) = map (fun p => (p, s)) l.
Proof. induction l as [|x t IH]; cbn; [reflexivity|]. rewrite IH. reflexivity. Qed.

Lemma spread_walk counts : forall sym pos step mask high tbl,
  let m := length (expand counts sym) in
  spread counts sym pos step mask high tbl =
  (snd (walk m pos step mask high), writes tbl (combine (fst (walk m pos step mask high)) (expand counts sym))).
Proof.
  induction counts as [|c t IH]; intros sym pos step mask high tbl; cbn [spread expand]; [reflexivity|].
  destruct (0 <? c)%Z.
  - rewrite spread_one_walk. cbv zeta. rewrite app_length, repeat_length, walk_app.
    pose proof (walk_length (Z.to_nat c) pos step mask high) as L1.
    destruct (walk (Z.to_nat c) pos step mask high) as [l1 p1]. cbn [fst snd] in *.
    rewrite IH. cbv zeta.
    destruct (walk (length (expand t (sym + 1))) p1 step mask high) as [l2 p2]. cbn [fst snd].
    rewrite combine_app by (rewrite repeat_length; exact L1).
    rewrite writes_app. rewrite <- L1 at 1. rewrite combine_repeat. reflexivity.
  - cbn [app]. apply IH.
Qed.

(* ---------- finite sweep over (log, high) ---------- *)
Definition tstep (log : N) : N := N.shiftr (pow2 log) 1 + N.shiftr (pow2 log) 3 + 3.

Fixpoint list_eqb (a b : list nat) : bool :=
  match a, b with
  | [], [] => true
  | x :: a', y :: b' => Nat.eqb x y && list_eqb a' b'
  | _, _ => false
  end.
Lemma list_eqb_eq a : forall b, list_eqb a b = true -> a = b.
Proof.
  induction a as [|x a IH]; intros [|y b] H; cbn in H; try discriminate; [reflexivity|].
  apply andb_true_iff in H. destruct H as [H1 H2]. apply Nat.eqb_eq in H1. subst. f_equal. apply IH. exact H2.
Qed.

Definition walk_check (log high : N) : bool :=
  let '(l, p) := walk (N.to_nat (high + 1)) 0 (tstep log) (pow2 log - 1) high in
  (p =? 0) && list_eqb (NatSort.sort (map N.to_nat l)) (List.seq 0 (N.to_nat (high + 1))).

Definition sweep_logs : list N := [5; 6; 7; 8; 9].

Lemma walk_sweep : forallb (fun log => forallb (walk_check log) (map N.of_nat (List.seq 0 (N.to_nat (pow2 log))))) sweep_logs = true.
Proof. vm_compute. reflexivity. Qed.

Lemma walk_facts log high : In log sweep_logs -> high < pow2 log ->
  let '(l, p) := walk (N.to_nat (high + 1)) 0 (tstep log) (pow2 log - 1) high in
  p = 0 /\ NoDup l /\ Forall (fun x => x <= high) l.
Proof.
  intros Hl Hh. pose proof walk_sweep as S. rewrite forallb_forall in S. specialize (S log Hl).
  rewrite forallb_forall in S.
  assert (Hin : In high (map N.of_nat (List.seq 0 (N.to_nat (pow2 log))))).
  { apply in_map_iff. exists (N.to_nat high). split; [lia|]. apply in_seq. lia. }
  specialize (S high Hin). unfold walk_check in S.
  destruct (walk (N.to_nat (high + 1)) 0 (tstep log) (pow2 log - 1) high) as [l p].
  apply andb_true_iff in S. destruct S as [S1 S2]. apply N.eqb_eq in S1. apply list_eqb_eq in S2.
  assert (HP : Permutation (map N.to_nat l) (List.seq 0 (N.to_nat (high + 1)))).
  { rewrite <- S2. apply NatSort.Permuted_sort. }
  split; [exact S1|]. split.
  - apply (NoDup_map_inv N.to_nat). eapply Permutation_NoDup; [apply Permutation_sym; exact HP|apply seq_NoDup].
  - apply Forall_forall. intros x Hx.
    assert (Hx' : In (N.to_nat x) (List.seq 0 (N.to_nat (high + 1)))).
    { eapply Permutation_in; [exact HP|]. apply in_map. exact Hx. }
    apply in_seq in Hx'. lia.
Qed.

(* ---------- what a list of writes at distinct positions leaves in the table ---------- *)
Lemma nth_error_upd_same {A} (l : list A) : forall i v, (i < length l)%nat -> nth_error (upd l i v) i = Some v.
Proof. induction l as [|x t IH]; intros [|i] v H; cbn in *; try lia; [reflexivity|]. apply IH. lia. Qed.
Lemma nth_error_upd_other {A} (l : list A) : forall i j v, i <> j -> nth_error (upd l i v) j = nth_error l j.
Proof.
  induction l as [|x t IH]; intros [|i] [|j] v H; cbn; try reflexivity; try congruence.
  apply IH. congruence.
Qed.
Lemma writes_length ws : forall tbl, length (writes tbl ws) = length tbl.
Proof. induction ws as [|w t IH]; intros tbl; cbn; [reflexivity|]. unfold writes in *. rewrite IH. apply upd_length. Qed.

Lemma writes_other ws : forall tbl p, ~ In p (map fst ws) ->
  nth_error (writes tbl ws) (N.to_nat p) = nth_error tbl (N.to_nat p).
Proof.
  induction ws as [|[p0 s0] t IH]; intros tbl p H; [reflexivity|].
  cbn [map fst In] in H. change (writes tbl ((p0, s0) :: t)) with (writes (upd tbl (N.to_nat p0) s0) t).
  rewrite IH by tauto. apply nth_error_upd_other. intros E. apply H. left. lia.
Qed.

Lemma writes_nth ws : forall tbl p s, NoDup (map fst ws) -> In (p, s) ws -> (N.to_nat p < length tbl)%nat ->
  nth_error (writes tbl ws) (N.to_nat p) = Some s.
Proof.
  induction ws as [|[p0 s0] t IH]; intros tbl p s HN Hin Hl; [contradiction|].
  cbn [map fst] in HN. inversion HN as [|? ? Hnot HN']; subst.
  change (writes tbl ((p0, s0) :: t)) with (writes (upd tbl (N.to_nat p0) s0) t).
  destruct Hin as [E|Hin].
  - inversion E; subst. rewrite writes_other by exact Hnot. apply nth_error_upd_same. exact Hl.
  - apply IH; [exact HN'|exact Hin|rewrite upd_length; exact Hl].
Qed.

Lemma NoDup_map_inj_in {A B} (f : A -> B) (l : list A) :
  (forall a b, In a l -> In b l -> f a = f b -> a = b) -> NoDup l -> NoDup (map f l).
Proof.
  induction l as [|x t IH]; intros Hinj HN; [constructor|].
  inversion HN as [|? ? Hn HN']; subst. cbn [map]. constructor.
  - intros Hin. apply in_map_iff in Hin. destruct Hin as (y & E & Hy).
    assert (y = x) by (apply Hinj; [right; exact Hy|left; reflexivity|exact E]). subst. contradiction.
  - apply IH; [|exact HN']. intros a b Ha Hb. apply Hinj; right; assumption.
Qed.

(* distinct positions all holding s: at least that many occurrences *)
Lemma count_occ_ge (s : N) : forall (l : list N) (ps : list nat), NoDup ps ->
  (forall p, In p ps -> nth_error l p = Some s) -> (length ps <= count_occ N.eq_dec l s)%nat.
Proof.
  induction l as [|x t IH]; intros ps HN H.
  - destruct ps as [|p ps']; [cbn; lia|]. specialize (H p (or_introl eq_refl)). destruct p; discriminate.
  - set (ps' := map pred (filter (fun p => negb (Nat.eqb p 0)) ps)).
    assert (HN' : NoDup ps').
    { unfold ps'. apply NoDup_map_inj_in.
      - intros a b Ha Hb E. apply filter_In in Ha. apply filter_In in Hb. destruct Ha as [_ Ha]. destruct Hb as [_ Hb].
        apply negb_true_iff in Ha. apply negb_true_iff in Hb. apply Nat.eqb_neq in Ha. apply Nat.eqb_neq in Hb. lia.
      - apply NoDup_filter. exact HN. }
    assert (H' : forall p, In p ps' -> nth_error t p = Some s).
    { intros p Hp. unfold ps' in Hp. apply in_map_iff in Hp. destruct Hp as (q & <- & Hq). apply filter_In in Hq.
      destruct Hq as [Hq1 Hq2]. apply negb_true_iff in Hq2. apply Nat.eqb_neq in Hq2.
      specialize (H q Hq1). destruct q; [congruence|]. exact H. }
    specialize (IH ps' HN' H').
    assert (Hlen : (length ps <= length ps' + (if in_dec Nat.eq_dec 0%nat ps then 1 else 0))%nat).
    { unfold ps'. rewrite map_length. clear - HN.
      induction ps as [|p r IHr]; [cbn; lia|]. inversion HN as [|? ? Hn HN2]; subst. specialize (IHr HN2).
      cbn [filter length]. destruct p as [|p'].
      - cbn [Nat.eqb negb]. destruct (in_dec Nat.eq_dec 0%nat (0%nat :: r)) as [_|n]; [|exfalso; apply n; left; reflexivity].
        destruct (in_dec Nat.eq_dec 0%nat r) as [i|_]; [contradiction|]. lia.
      - cbn [Nat.eqb negb length]. destruct (in_dec Nat.eq_dec 0%nat (S p' :: r)) as [i|n].
        + destruct i as [E|i]; [discriminate|]. destruct (in_dec Nat.eq_dec 0%nat r) as [_|n2]; [lia|contradiction].
        + destruct (in_dec Nat.eq_dec 0%nat r) as [i|_]; [exfalso; apply n; right; exact i|lia]. }
    cbn [count_occ]. destruct (in_dec Nat.eq_dec 0%nat ps) as [i|n].
    + specialize (H 0%nat i). cbn in H. inversion H; subst. destruct (N.eq_dec s s) as [_|ne]; [lia|congruence].
    + destruct (N.eq_dec x s); lia.
Qed.

(* ---------- fill_cells: the j-th cell of symbol s (in table order) carries the counter next[s] + j ---------- *)
Lemma nth_upd_same {A} (l : list A) : forall i v d, (i < length l)%nat -> nth i (upd l i v) d = v.
Proof. induction l as [|x t IH]; intros [|i] v d H; cbn in *; try lia; [reflexivity|]. apply IH. lia. Qed.
Lemma nth_upd_other {A} (l : list A) : forall i j v d, i <> j -> nth j (upd l i v) d = nth j l d.
Proof.
  induction l as [|x t IH]; intros [|i] [|j] v d H; cbn; try reflexivity; try congruence.
  apply IH. congruence.
Qed.

Definition mk_cell (log size s nx : N) : fse_cell :=
  {| fc_sym := s; fc_nb := log - N.log2 nx; fc_base := N.shiftl nx (log - N.log2 nx) - size |}.

Lemma fill_cells_acc syms : forall next log size acc c, In c acc -> In c (fill_cells syms next log size acc).
Proof.
  induction syms as [|x t IH]; intros next log size acc c H; cbn [fill_cells].
  - rewrite rev'_rev. apply in_rev in H. exact H.
  - apply IH. right. exact H.
Qed.

Lemma fill_cells_has (s log size : N) : forall syms next acc j,
  (N.to_nat s < length next)%nat -> (j < count_occ N.eq_dec syms s)%nat ->
  In (mk_cell log size s (nthN next s 0 + N.of_nat j)) (fill_cells syms next log size acc).
Proof.
  induction syms as [|x t IH]; intros next acc j Hs Hj; [cbn in Hj; lia|].
  cbn [fill_cells]. cbn [count_occ] in Hj.
  destruct (N.eq_dec x s) as [->|Hne].
  - destruct j as [|j'].
    + apply fill_cells_acc. left. unfold mk_cell. cbn [N.of_nat]. rewrite N.add_0_r. reflexivity.
    + specialize (IH (upd next (N.to_nat s) (nthN next s 0 + 1))
                     ({| fc_sym := s; fc_nb := log - N.log2 (nthN next s 0); fc_base := N.shiftl (nthN next s 0) (log - N.log2 (nthN next s 0)) - size |} :: acc) j').
      assert (E : nthN (upd next (N.to_nat s) (nthN next s 0 + 1)) s 0 = nthN next s 0 + 1).
      { unfold nthN at 1. apply nth_upd_same. exact Hs. }
      rewrite E in IH. replace (nthN next s 0 + N.of_nat (S j')) with (nthN next s 0 + 1 + N.of_nat j') by lia.
      apply IH; [rewrite upd_length; exact Hs|lia].
  - specialize (IH (upd next (N.to_nat x) (nthN next x 0 + 1))
                   ({| fc_sym := x; fc_nb := log - N.log2 (nthN next x 0); fc_base := N.shiftl (nthN next x 0) (log - N.log2 (nthN next x 0)) - size |} :: acc) j).
    assert (E : nthN (upd next (N.to_nat x) (nthN next x 0 + 1)) s 0 = nthN next s 0).
    { unfold nthN at 1 3. apply nth_upd_other. intros E. apply Hne. lia. }
    rewrite E in IH. apply IH; [rewrite upd_length; exact Hs|exact Hj].
Qed.

(* ---------- the intervals of the counters c .. 2c-1 tile [0, 2^log) ---------- *)
Lemma counter_interval (log nx k : N) : k <= log -> 2 ^ k <= nx < 2 ^ (k + 1) ->
  forall x, x < 2 ^ log -> nx * 2 ^ (log - k) <= x + 2 ^ log < (nx + 1) * 2 ^ (log - k) ->
  N.shiftl nx (log - N.log2 nx) - 2 ^ log <= x < N.shiftl nx (log - N.log2 nx) - 2 ^ log + pow2 (log - N.log2 nx).
Proof.
  intros Hk Hnx x Hx Hy.
  assert (E : N.log2 nx = k) by (apply N.log2_unique; [lia|rewrite <- N.add_1_r; exact Hnx]).
  rewrite E, N.shiftl_mul_pow2, pow2_pow. lia.
Qed.

Lemma interval_cover (log c x : N) : 1 <= c -> c <= 2 ^ log -> x < 2 ^ log ->
  exists nx, c <= nx < 2 * c /\
    N.shiftl nx (log - N.log2 nx) - 2 ^ log <= x < N.shiftl nx (log - N.log2 nx) - 2 ^ log + pow2 (log - N.log2 nx).
Proof.
  intros Hc1 Hc2 Hx.
  set (k := N.log2 c).
  assert (Hk : 2 ^ k <= c < 2 ^ (k + 1)) by (rewrite N.add_1_r; apply N.log2_spec; lia).
  assert (Hkl : k <= log).
  { unfold k. rewrite <- (N.log2_pow2 log) by lia. apply N.log2_le_mono. exact Hc2. }
  set (A := 2 ^ (log - k)). set (P := 2 ^ k).
  assert (HA : 1 <= A) by (unfold A; assert (2 ^ (log - k) <> 0) by (apply N.pow_nonzero; discriminate); lia).
  assert (HPA : 2 ^ log = P * A).
  { unfold P, A. rewrite <- N.pow_add_r. f_equal. lia. }
  assert (HP2 : 2 ^ (k + 1) = 2 * P) by (unfold P; rewrite N.pow_add_r; change (2 ^ 1) with 2; lia).
  set (y := x + 2 ^ log).
  set (nx1 := y / A).
  assert (D1 : y = A * nx1 + y mod A) by (apply N.div_mod; lia).
  assert (R1 : y mod A < A) by (apply N.mod_lt; lia).
  assert (B1 : P <= nx1 < 2 * P) by (unfold y in *; nia).
  destruct (N.le_gt_cases c nx1) as [Hge|Hlt].
  - exists nx1. split; [lia|].
    apply (counter_interval log nx1 k Hkl); [rewrite HP2; exact B1|exact Hx|]. fold A. fold y. nia.
  - assert (Hk1 : k < log).
    { destruct (N.eq_dec k log) as [E|]; [|lia]. exfalso. unfold A in *. rewrite E, N.sub_diag in *. cbn in D1, R1, HPA.
      assert (nx1 = y) by lia. unfold y in *. lia. }
    set (A' := 2 ^ (log - (k + 1))).
    assert (HA' : A = 2 * A').
    { unfold A, A'. replace (log - k) with (1 + (log - (k + 1))) by lia. rewrite N.pow_add_r. reflexivity. }
    assert (HA'1 : 1 <= A') by (unfold A'; assert (2 ^ (log - (k + 1)) <> 0) by (apply N.pow_nonzero; discriminate); lia).
    set (nx2 := y / A').
    assert (D2 : y = A' * nx2 + y mod A') by (apply N.div_mod; lia).
    assert (R2 : y mod A' < A') by (apply N.mod_lt; lia).
    assert (B2 : 2 * nx1 <= nx2 <= 2 * nx1 + 1) by nia.
    exists nx2. split; [lia|].
    assert (HP4 : 2 ^ (k + 1 + 1) = 4 * P) by (rewrite N.pow_add_r, HP2; change (2 ^ 1) with 2; lia).
    apply (counter_interval log nx2 (k + 1)); [lia|rewrite HP2, HP4; lia|exact Hx|]. fold A'. fold y. nia.
Qed.

(* ---------- the low-probability symbols ---------- *)
Fixpoint lowcount (counts : list Z) : N :=
  match counts with [] => 0 | c :: t => (if Z.eqb c (-1) then 1 else 0) + lowcount t end.

Fixpoint LW (counts : list Z) (sym h : N) : list (N * N) :=
  match counts with
  | [] => []
  | c :: t => if Z.eqb c (-1) then (h, sym) :: LW t (sym + 1) (h - 1) else LW t (sym + 1) h
  end.

Lemma place_low_spec counts : forall sym h tbl,
  place_low counts sym h tbl = (h - lowcount counts, writes tbl (LW counts sym h)).
Proof.
  induction counts as [|c t IH]; intros sym h tbl; cbn [place_low lowcount LW].
  - rewrite N.sub_0_r. reflexivity.
  - destruct (Z.eqb c (-1)).
    + rewrite IH. f_equal. lia.
    + rewrite IH. f_equal.
Qed.

Lemma LW_nil counts : forall sym h, lowcount counts = 0 -> LW counts sym h = [].
Proof.
  induction counts as [|c t IH]; intros sym h H; [reflexivity|]. cbn [lowcount LW] in *.
  destruct (Z.eqb c (-1)); [lia|]. apply IH. lia.
Qed.

Lemma LW_pos counts : forall sym h, lowcount counts <= h + 1 ->
  Forall (fun w => h + 1 - lowcount counts <= fst w <= h) (LW counts sym h) /\ NoDup (map fst (LW counts sym h)).
Proof.
  induction counts as [|c t IH]; intros sym h H; cbn [lowcount LW] in *; [split; constructor|].
  destruct (Z.eqb c (-1)).
  - destruct (N.eq_dec (lowcount t) 0) as [E|NE].
    + rewrite (LW_nil t _ _ E). split; [constructor; [cbn [fst]; lia|constructor]|cbn; constructor; [intros []|constructor]].
    + destruct (IH (sym + 1) (h - 1)) as [F N']; [lia|]. split.
      * constructor; [cbn [fst]; lia|]. eapply Forall_impl; [|exact F]. intros w Hw. cbn beta in *. lia.
      * cbn [map fst]. constructor; [|exact N']. intros Hin. apply in_map_iff in Hin. destruct Hin as (w & E & Hw).
        rewrite Forall_forall in F. specialize (F w Hw). cbn beta in F. lia.
  - destruct (IH (sym + 1) h) as [F N']; [lia|]. split; [|exact N'].
    eapply Forall_impl; [|exact F]. intros w Hw. cbn beta in *. lia.
Qed.

Lemma LW_has counts : forall sym h s, sym <= s -> nth_error counts (N.to_nat (s - sym)) = Some (-1)%Z ->
  exists p, In (p, s) (LW counts sym h).
Proof.
  induction counts as [|c t IH]; intros sym h s Hs Hn; [destruct (N.to_nat (s - sym)); discriminate|].
  cbn [LW]. destruct (N.eq_dec s sym) as [->|Hne].
  - rewrite N.sub_diag in Hn. cbn in Hn. inversion Hn; subst. cbn. exists h. left. reflexivity.
  - assert (E : N.to_nat (s - sym) = S (N.to_nat (s - (sym + 1)))) by lia. rewrite E in Hn. cbn [nth_error] in Hn.
    destruct (Z.eqb c (-1)).
    + destruct (IH (sym + 1) (h - 1) s ltac:(lia) Hn) as (p & Hp). exists p. right. exact Hp.
    + apply IH; [lia|exact Hn].
Qed.

(* ---------- counting the symbols written by the spreading ---------- *)
Lemma expand_ge counts : forall sym x, In x (expand counts sym) -> sym <= x.
Proof.
  induction counts as [|c t IH]; intros sym x H; [contradiction|]. cbn [expand] in H. apply in_app_or in H. destruct H as [H|H].
  - destruct (0 <? c)%Z; [|contradiction]. apply repeat_spec in H. lia.
  - specialize (IH _ _ H). lia.
Qed.

Lemma count_occ_repeat (a s : N) n : count_occ N.eq_dec (List.repeat a n) s = if N.eq_dec a s then n else 0%nat.
Proof. induction n as [|n IH]; cbn; [destruct (N.eq_dec a s); reflexivity|]. rewrite IH. destruct (N.eq_dec a s); reflexivity. Qed.

Lemma count_expand counts : forall sym s c, sym <= s -> nth_error counts (N.to_nat (s - sym)) = Some c -> (0 < c)%Z ->
  count_occ N.eq_dec (expand counts sym) s = Z.to_nat c.
Proof.
  induction counts as [|c0 t IH]; intros sym s c Hs Hn Hc; [destruct (N.to_nat (s - sym)); discriminate|].
  cbn [expand]. rewrite count_occ_app.
  destruct (N.eq_dec s sym) as [->|Hne].
  - rewrite N.sub_diag in Hn. cbn in Hn. inversion Hn; subst c0.
    assert (E : (0 <? c)%Z = true) by (apply Z.ltb_lt; exact Hc). rewrite E, count_occ_repeat.
    destruct (N.eq_dec sym sym) as [_|ne]; [|congruence].
    assert (Z0 : count_occ N.eq_dec (expand t (sym + 1)) sym = 0%nat).
    { apply count_occ_not_In. intros Hin. apply expand_ge in Hin. lia. }
    lia.
  - assert (E : N.to_nat (s - sym) = S (N.to_nat (s - (sym + 1)))) by lia. rewrite E in Hn. cbn [nth_error] in Hn.
    rewrite (IH (sym + 1) s c ltac:(lia) Hn Hc).
    destruct (0 <? c0)%Z; [rewrite count_occ_repeat; destruct (N.eq_dec sym s); [congruence|lia]|reflexivity].
Qed.

Lemma map_snd_combine {A B} (a : list A) : forall (b : list B), length a = length b -> map snd (combine a b) = b.
Proof. induction a as [|x t IH]; intros [|y u] H; cbn in *; try discriminate; [reflexivity|]. rewrite IH by lia. reflexivity. Qed.
Lemma map_fst_combine {A B} (a : list A) : forall (b : list B), length a = length b -> map fst (combine a b) = a.
Proof. induction a as [|x t IH]; intros [|y u] H; cbn in *; try discriminate; [reflexivity|]. rewrite IH by lia. reflexivity. Qed.

(* every write at a distinct position survives: occurrences in the table >= occurrences among the written symbols *)
Lemma writes_count (s : N) (W : list (N * N)) (tbl : list N) :
  NoDup (map fst W) -> Forall (fun w => (N.to_nat (fst w) < length tbl)%nat) W ->
  (count_occ N.eq_dec (map snd W) s <= count_occ N.eq_dec (writes tbl W) s)%nat.
Proof.
  intros HN HF.
  set (ps := map (fun w => N.to_nat (fst w)) (filter (fun w => if N.eq_dec (snd w) s then true else false) W)).
  assert (L : length ps = count_occ N.eq_dec (map snd W) s).
  { unfold ps. rewrite map_length. clear. induction W as [|w t IH]; [reflexivity|]. cbn [filter map count_occ].
    destruct (N.eq_dec (snd w) s); cbn [length]; rewrite IH; reflexivity. }
  rewrite <- L. apply count_occ_ge.
  - unfold ps. apply NoDup_map_inj_in.
    + intros a b Ha Hb E. apply filter_In in Ha. apply filter_In in Hb. destruct Ha as [Ha Ha2]. destruct Hb as [Hb Hb2].
      destruct (N.eq_dec (snd a) s) as [Ea|]; [|discriminate]. destruct (N.eq_dec (snd b) s) as [Eb|]; [|discriminate].
      assert (Ef : fst a = fst b) by lia.
      clear - HN Ha Hb Ef. induction W as [|w t IH]; [contradiction|]. cbn [map] in HN. inversion HN as [|? ? Hn HN']; subst.
      destruct Ha as [->|Ha]; destruct Hb as [->|Hb]; try reflexivity.
      * exfalso. apply Hn. rewrite Ef. apply in_map. exact Hb.
      * exfalso. apply Hn. rewrite <- Ef. apply in_map. exact Ha.
      * apply IH; assumption.
    + apply NoDup_filter. clear - HN. induction W as [|w t IH]; [constructor|]. cbn [map] in HN. inversion HN as [|? ? Hn HN']; subst.
      constructor; [intros Hin; apply Hn; apply in_map; exact Hin|apply IH; exact HN'].
  - intros p Hp. unfold ps in Hp. apply in_map_iff in Hp. destruct Hp as (w & <- & Hw). apply filter_In in Hw. destruct Hw as [Hw Hs].
    destruct (N.eq_dec (snd w) s) as [Es|]; [|discriminate]. destruct w as [p0 s0]. cbn [fst snd] in *. subst s0.
    apply writes_nth; [exact HN|exact Hw|]. rewrite Forall_forall in HF. exact (HF _ Hw).
Qed.

(* ---------- the counts add up ---------- *)
Lemma count_sum_split counts : forall sym, Forall (fun c => (-1 <= c)%Z) counts ->
  count_sum counts = (Z.of_nat (length (expand counts sym)) + Z.of_N (lowcount counts))%Z.
Proof.
  unfold count_sum.
  assert (G : forall (l : list Z) sym a, Forall (fun c => (-1 <= c)%Z) l ->
              fold_left (fun a c => (a + Z.abs c)%Z) l a = (a + Z.of_nat (length (expand l sym)) + Z.of_N (lowcount l))%Z).
  { induction l as [|c t IH]; intros sym a HF; cbn [fold_left expand lowcount length]; [lia|].
    inversion HF as [|? ? Hc Ht]; subst. rewrite (IH (sym + 1) _ Ht). rewrite app_length.
    destruct (Z.eqb_spec c (-1)) as [->|Hne].
    - change ((0 <? -1)%Z) with false. cbn [length]. change (Z.abs (-1)) with 1%Z. rewrite N2Z.inj_add. cbn [Z.of_N]. lia.
    - rewrite N2Z.inj_add. change (Z.of_N 0) with 0%Z.
      destruct (Z.ltb_spec 0 c).
      + rewrite repeat_length. lia.
      + assert (c = 0%Z) by lia. subst. cbn [length Z.abs]. lia. }
  intros sym HF. rewrite (G counts sym 0%Z HF). lia.
Qed.

Lemma count_occ_le_length (l : list N) s : (count_occ N.eq_dec l s <= length l)%nat.
Proof. induction l as [|x t IH]; cbn; [lia|]. destruct (N.eq_dec x s); lia. Qed.

Lemma find_cell_some cells : forall i P c, In c cells -> P c = true -> exists r, find_cell cells i P = Some r.
Proof.
  induction cells as [|c0 t IH]; intros i P c Hin HP; [contradiction|]. cbn [find_cell].
  destruct (P c0) eqn:E; [eauto|]. destruct Hin as [->|Hin]; [congruence|]. eapply IH; eauto.
Qed.

Lemma NoDup_app_intro {A} (a b : list A) : NoDup a -> NoDup b -> (forall x, In x a -> In x b -> False) -> NoDup (a ++ b).
Proof.
  induction a as [|x t IH]; intros Ha Hb Hd; [exact Hb|]. inversion Ha as [|? ? Hn Ha']; subst. cbn [app]. constructor.
  - intros Hin. apply in_app_or in Hin. destruct Hin as [Hin|Hin]; [contradiction|]. apply (Hd x); [left; reflexivity|exact Hin].
  - apply IH; [exact Ha'|exact Hb|]. intros y Hy1 Hy2. apply (Hd y); [right; exact Hy1|exact Hy2].
Qed.

Definition norm (c : Z) : N := if Z.eqb c (-1) then 1 else Z.to_N c.

(* ---------- the theorem ---------- *)
Theorem build_dtable_total log counts t s :
  build_dtable log counts = Ok t -> In log sweep_logs -> Forall (fun c => (-1 <= c)%Z) counts ->
  forall c, nth_error counts (N.to_nat s) = Some c -> c <> 0%Z ->
  (exists st, enc_init t s = Some st) /\ forall x, x < 2 ^ log -> exists r, enc_step t x s = Some r.
Proof.
  intros Hb Hlog HF c Hc Hc0.
  unfold build_dtable in Hb.
  destruct (Z.eqb_spec (count_sum counts) (Z.of_N (pow2 log))) as [Hsum|]; [|discriminate]. cbn [guard bind] in Hb.
  set (size := pow2 log) in *.
  rewrite place_low_spec in Hb.
  set (high := size - 1 - lowcount counts) in *.
  set (tbl1 := writes (repeatN 0 size []) (LW counts 0 (size - 1))) in *.
  rewrite spread_walk in Hb. cbv zeta in Hb.
  set (m := length (expand counts 0)) in *.
  destruct (walk m 0 (N.shiftr size 1 + N.shiftr size 3 + 3) (size - 1) high) as [P pfin] eqn:EW. cbn [fst snd] in Hb.
  destruct (pfin =? 0); [|discriminate]. cbn [guard bind] in Hb. inversion Hb; subst t; clear Hb.
  set (tbl2 := writes tbl1 (combine P (expand counts 0))).
  set (next := map (fun c => if Z.eqb c (-1) then 1 else Z.to_N c) counts).
  (* sizes *)
  assert (Hsz : size = 2 ^ log) by (unfold size; apply pow2_pow).
  assert (Hsz1 : 1 <= size) by (rewrite Hsz; assert (2 ^ log <> 0) by (apply N.pow_nonzero; discriminate); lia).
  pose proof (count_sum_split counts 0 HF) as Hsplit. rewrite Hsum in Hsplit. fold m in Hsplit.
  assert (Hlow : lowcount counts <= size) by lia.
  assert (HlenP : length P = m).
  { pose proof (walk_length m 0 (N.shiftr size 1 + N.shiftr size 3 + 3) (size - 1) high) as L. rewrite EW in L. exact L. }
  assert (Hlen0 : length (repeatN 0 size (@nil N)) = N.to_nat size).
  { pose proof (lenN_repeatN 0 size (@nil N)) as L. rewrite lenN_length in L. change (lenN (@nil N)) with 0 in L. lia. }
  assert (Hlen1 : length tbl1 = N.to_nat size) by (unfold tbl1; rewrite writes_length; exact Hlen0).
  (* all writes, at distinct positions inside the table *)
  destruct (LW_pos counts 0 (size - 1)) as [LF LN]; [lia|].
  assert (HPfacts : m <> 0%nat -> NoDup P /\ Forall (fun x => x <= high) P /\ high < size).
  { intros Hm. assert (Hh : high < size) by (unfold high; lia).
    assert (Em : m = N.to_nat (high + 1)) by (unfold high; lia).
    pose proof (walk_facts log high Hlog Hh) as WF.
    unfold tstep in WF. fold size in WF. rewrite <- Em, EW in WF. tauto. }
  set (W := LW counts 0 (size - 1) ++ combine P (expand counts 0)).
  assert (HW : tbl2 = writes (repeatN 0 size []) W) by (unfold tbl2, tbl1, W; rewrite writes_app; reflexivity).
  assert (HfstS : map fst (combine P (expand counts 0)) = P) by (apply map_fst_combine; exact HlenP).
  assert (HNW : NoDup (map fst W)).
  { unfold W. rewrite map_app, HfstS. destruct m as [|m'] eqn:Em0.
    - destruct P; [|discriminate]. rewrite app_nil_r. exact LN.
    - destruct HPfacts as (NP & FP & Hh); [discriminate|].
      apply NoDup_app_intro; [exact LN|exact NP|].
      intros p Hp1 Hp2. apply in_map_iff in Hp1. destruct Hp1 as (w & <- & Hw).
      rewrite Forall_forall in LF, FP. specialize (LF w Hw). specialize (FP _ Hp2). cbn beta in LF. unfold high in FP. lia. }
  set (tbl0 := repeatN 0 size (@nil N)) in *.
  assert (HFW : Forall (fun w => (N.to_nat (fst w) < length tbl0)%nat) W).
  { rewrite Hlen0. unfold W. apply Forall_app. split.
    - eapply Forall_impl; [|exact LF]. intros w Hw. cbn beta in Hw. lia.
    - apply Forall_forall. intros w Hw. assert (Hin : In (fst w) P) by (rewrite <- HfstS; apply in_map; exact Hw).
      destruct m as [|m'] eqn:Em0; [destruct P; [contradiction|discriminate]|].
      destruct HPfacts as (_ & FP & Hh); [discriminate|]. rewrite Forall_forall in FP. specialize (FP _ Hin). lia. }
  (* occurrences of s in the spread table *)
  assert (Hocc : (N.to_nat (norm c) <= count_occ N.eq_dec tbl2 s)%nat).
  { rewrite HW. eapply Nat.le_trans; [|apply (writes_count s W _ HNW HFW)].
    unfold W. rewrite map_app, count_occ_app, (map_snd_combine P _ HlenP).
    rewrite Forall_forall in HF. assert (Hcm : (-1 <= c)%Z) by (apply HF; eapply nth_error_In; exact Hc).
    unfold norm. destruct (Z.eqb_spec c (-1)) as [->|Hne].
    - destruct (LW_has counts 0 (size - 1) s ltac:(lia)) as (p & Hp); [rewrite N.sub_0_r; exact Hc|].
      assert (Hin : In s (map snd (LW counts 0 (size - 1)))) by (apply in_map_iff; exists (p, s); split; [reflexivity|exact Hp]).
      apply (count_occ_In N.eq_dec) in Hin. lia.
    - rewrite (count_expand counts 0 s c ltac:(lia)); [|rewrite N.sub_0_r; exact Hc|lia]. lia. }
  assert (Hnext : nthN next s 0 = norm c).
  { unfold nthN, next. apply nth_error_nth. rewrite (map_nth_error _ _ _ Hc). reflexivity. }
  assert (Hsl : (N.to_nat s < length next)%nat) by (unfold next; rewrite map_length; apply nth_error_Some; congruence).
  assert (Hn1 : 1 <= norm c).
  { rewrite Forall_forall in HF. assert (Hcm : (-1 <= c)%Z) by (apply HF; eapply nth_error_In; exact Hc).
    unfold norm. destruct (Z.eqb_spec c (-1)); lia. }
  assert (Hn2 : norm c <= 2 ^ log).
  { pose proof (count_occ_le_length tbl2 s) as B.
    assert (Hlen2 : length tbl2 = N.to_nat size) by (unfold tbl2; rewrite writes_length; exact Hlen1).
    rewrite Hlen2 in B. lia. }
  cbn [ft_cells ft_log]. split.
  - unfold enc_init.
    pose proof (fill_cells_has s log size tbl2 next [] 0%nat Hsl ltac:(lia)) as Hin.
    destruct (find_cell_some _ 0 (fun c0 => fc_sym c0 =? s) _ Hin) as (r & Hr); [cbn; apply N.eqb_refl|].
    cbn [ft_cells]. rewrite Hr. destruct r. eauto.
  - intros x Hx. unfold enc_step. cbn [ft_cells].
    destruct (interval_cover log (norm c) x Hn1 Hn2 Hx) as (nx & Hnx & Hiv).
    pose proof (fill_cells_has s log size tbl2 next [] (N.to_nat (nx - norm c)) Hsl ltac:(lia)) as Hin.
    rewrite Hnext in Hin. replace (norm c + N.of_nat (N.to_nat (nx - norm c))) with nx in Hin by lia.
    match goal with |- context [find_cell _ 0 ?Pr] =>
      destruct (find_cell_some _ 0 Pr _ Hin) as (r & Hr) end.
    + unfold mk_cell. cbn [fc_sym fc_nb fc_base]. rewrite N.eqb_refl. cbn [andb]. rewrite Hsz.
      apply andb_true_iff. split; [apply N.leb_le; lia|apply N.ltb_lt; lia].
    + rewrite Hr. destruct r. eauto.
Qed.

(* ---------- consequence: the sequences encoder is total on any three tables built from normalised distributions ---------- *)
Definition codes_present (llc ofc mlc : list Z) (q : eseq) : Prop :=
  exists k, seq_codes q = Some k /\
    (exists c, nth_error llc (N.to_nat (k_ll k)) = Some c /\ c <> 0%Z) /\
    (exists c, nth_error ofc (N.to_nat (k_of k)) = Some c /\ c <> 0%Z) /\
    (exists c, nth_error mlc (N.to_nat (k_ml k)) = Some c /\ c <> 0%Z).

Theorem enc_seqs_total lllog llc tll oflog ofc tof mllog mlc tml :
  build_dtable lllog llc = Ok tll -> build_dtable oflog ofc = Ok tof -> build_dtable mllog mlc = Ok tml ->
  In lllog sweep_logs -> In oflog sweep_logs -> In mllog sweep_logs ->
  Forall (fun c => (-1 <= c)%Z) llc -> Forall (fun c => (-1 <= c)%Z) ofc -> Forall (fun c => (-1 <= c)%Z) mlc ->
  forall qs, qs <> [] -> Forall (codes_present llc ofc mlc) qs ->
  exists st bits, enc_seqs tll tof tml qs = Some (st, bits).
Proof.
  intros BL BO BM LL LO LM FL FO FM.
  destruct (build_dtable_wf _ _ _ BL) as (W1 & E1). destruct (build_dtable_wf _ _ _ BO) as (W2 & E2). destruct (build_dtable_wf _ _ _ BM) as (W3 & E3).
  induction qs as [|q rest IH]; intros Hne HF; [congruence|].
  inversion HF as [|? ? Hq Hrest]; subst.
  destruct Hq as (k & Ek & (cl & Hcl & Hcl0) & (co & Hco & Hco0) & (cm & Hcm & Hcm0)).
  destruct (build_dtable_total _ _ _ (k_ll k) BL LL FL cl Hcl Hcl0) as ((sl & Il) & StepL).
  destruct (build_dtable_total _ _ _ (k_of k) BO LO FO co Hco Hco0) as ((so & Io) & StepO).
  destruct (build_dtable_total _ _ _ (k_ml k) BM LM FM cm Hcm Hcm0) as ((sm & Im) & StepM).
  cbn [enc_seqs]. rewrite Ek. destruct rest as [|q2 rest'].
  - rewrite Il, Io, Im. eauto.
  - destruct (IH ltac:(discriminate) Hrest) as (st2 & bits2 & Eq2). rewrite Eq2.
    destruct (enc_seqs_bounds _ _ _ W1 W2 W3 _ _ _ Eq2) as (B1 & B2 & B3).
    destruct (StepL (es_ll st2) B1) as ([a1 b1] & R1). destruct (StepM (es_ml st2) B3) as ([a3 b3] & R3). destruct (StepO (es_of st2) B2) as ([a2 b2] & R2).
    rewrite R1, R3, R2. eauto.
Qed.
