(* Round trip of Huffman-compressed literals sections through the reference decoder. *)
From Coq Require Import NArith ZArith List Bool Lia.
From ZV.Codec Require Import Bytes ListLemmas Fse Huf Block Frame LzProofs LzContent Encode EncodeProofs EncodeSeq EncodeSeqProofs EncodeHuf.
Import ListNotations.
Local Open Scope N_scope.
Ltac Zify.zify_post_hook ::= Z.div_mod_to_equations.

(* the code of a symbol decodes to the symbol, whatever follows *)
Lemma tree_code_sound t : forall s c rest, tree_code t s = Some c -> huf_sym t (c ++ rest) = Some (s, rest).
Proof.
  induction t as [x|l IHl r IHr|]; intros s c rest H; cbn [tree_code] in H.
  - destruct (N.eqb_spec x s) as [->|]; [|discriminate]. injection H as <-. reflexivity.
  - destruct (tree_code l s) as [cl|] eqn:El.
    + injection H as <-. cbn [app huf_sym]. apply IHl. exact El.
    + destruct (tree_code r s) as [cr|] eqn:Er; [|discriminate]. injection H as <-. cbn [app huf_sym]. apply IHr. exact Er.
  - discriminate.
Qed.

Lemma huf_bits_sound t : forall syms b rest acc,
  huf_bits t syms = Some b -> huf_syms (length syms) t (b ++ rest) acc = Some (rev syms ++ acc, rest).
Proof.
  induction syms as [|s r IH]; intros b rest acc H; cbn [huf_bits] in H.
  - injection H as <-. reflexivity.
  - destruct (tree_code t s) as [c|] eqn:Ec; [|discriminate]. destruct (huf_bits t r) as [br|] eqn:Eb; [|discriminate].
    injection H as <-. cbn [length huf_syms]. rewrite <- app_assoc, (tree_code_sound t s c _ Ec).
    rewrite (IH br rest (s :: acc) eq_refl). cbn [rev]. rewrite <- app_assoc. reflexivity.
Qed.

Lemma huf_stream_enc t syms bytes acc :
  enc_huf1 t syms = Some bytes -> huf_stream t (lenN syms) bytes acc = Ok (rev syms ++ acc).
Proof.
  unfold enc_huf1. destruct (huf_bits t syms) as [b|] eqn:Eb; [|discriminate]. intros H. injection H as <-.
  unfold huf_stream. rewrite rbits_open_pack. cbn [of_opt bind].
  rewrite lenN_length, Nat2N.id. rewrite <- (app_nil_r b) at 1. rewrite (huf_bits_sound t syms b [] acc Eb). reflexivity.
Qed.

Theorem huf_decode1_enc t syms bytes : enc_huf1 t syms = Some bytes -> huf_decode1 t (lenN syms) bytes = Ok syms.
Proof.
  intros H. unfold huf_decode1. rewrite (huf_stream_enc t syms bytes [] H). cbn [bind].
  rewrite app_nil_r, rev'_rev, rev_involutive. reflexivity.
Qed.

Lemma enc_huf1_nonempty t syms bytes : enc_huf1 t syms = Some bytes -> 1 <= lenN bytes.
Proof.
  unfold enc_huf1. destruct (huf_bits t syms) as [b|]; [|discriminate]. intros H. injection H as <-.
  pose proof (rbits_open_pack b) as Ho. destruct (pack_rbits b) as [|x r]; [discriminate|]. rewrite lenN_cons. lia.
Qed.

Local Opaque write_le.
Theorem huf_decode4_enc t syms bytes :
  6 <= lenN syms -> enc_huf4 t syms = Some bytes ->
  (forall part b, enc_huf1 t part = Some b -> lenN b < 65536) ->
  huf_decode4 t (lenN syms) bytes = Ok syms.
Proof.
  intros Hn H Hsz. unfold enc_huf4 in H. set (n := lenN syms) in *. set (seg := (n + 3) / 4) in *.
  set (s1 := takeN seg syms) in *. set (r1 := skipN syms seg) in *.
  set (s2 := takeN seg r1) in *. set (r2 := skipN r1 seg) in *.
  set (s3 := takeN seg r2) in *. set (s4 := skipN r2 seg) in *.
  destruct (enc_huf1 t s1) as [b1|] eqn:E1; [|discriminate]. destruct (enc_huf1 t s2) as [b2|] eqn:E2; [|discriminate].
  destruct (enc_huf1 t s3) as [b3|] eqn:E3; [|discriminate]. destruct (enc_huf1 t s4) as [b4|] eqn:E4; [|discriminate].
  injection H as <-.
  assert (Hseg : 3 * seg <= n) by (unfold seg; lia).
  assert (Hseg1 : 1 <= seg) by (unfold seg; lia).
  (* lengths of the four parts *)
  assert (L1 : lenN s1 = seg) by (unfold s1; rewrite takeN_firstn; apply lenN_firstn_le; fold n; lia).
  assert (Lr1 : lenN r1 = n - seg) by (unfold r1; rewrite skipN_skipn, lenN_skipn; reflexivity).
  assert (L2 : lenN s2 = seg) by (unfold s2; rewrite takeN_firstn; apply lenN_firstn_le; lia).
  assert (Lr2 : lenN r2 = n - seg - seg) by (unfold r2; rewrite skipN_skipn, lenN_skipn; lia).
  assert (L3 : lenN s3 = seg) by (unfold s3; rewrite takeN_firstn; apply lenN_firstn_le; lia).
  assert (L4 : lenN s4 = n - 3 * seg) by (unfold s4; rewrite skipN_skipn, lenN_skipn; lia).
  assert (Esyms : syms = s1 ++ s2 ++ s3 ++ s4).
  { unfold s1, s2, s3, s4, r2, r1. rewrite !takeN_firstn, !skipN_skipn.
    rewrite (firstn_skipn _ (skipn (N.to_nat seg) (skipn (N.to_nat seg) syms))).
    rewrite (firstn_skipn _ (skipn (N.to_nat seg) syms)). symmetry. apply firstn_skipn. }
  pose proof (enc_huf1_nonempty _ _ _ E1) as N1. pose proof (enc_huf1_nonempty _ _ _ E2) as N2.
  pose proof (enc_huf1_nonempty _ _ _ E3) as N3. pose proof (enc_huf1_nonempty _ _ _ E4) as N4.
  pose proof (Hsz _ _ E1) as Z1. pose proof (Hsz _ _ E2) as Z2. pose proof (Hsz _ _ E3) as Z3.
  unfold huf_decode4. fold n.
  destruct (N.leb_spec 6 n) as [_|]; [|lia]. cbn [guard bind].
  set (body := b1 ++ b2 ++ b3 ++ b4).
  assert (Hlen : 10 <= lenN (write_le 2 (lenN b1) ++ write_le 2 (lenN b2) ++ write_le 2 (lenN b3) ++ body)).
  { unfold body. rewrite !lenN_app. change (lenN (write_le 2 (lenN b1))) with 2. change (lenN (write_le 2 (lenN b2))) with 2. change (lenN (write_le 2 (lenN b3))) with 2. lia. }
  destruct (N.leb_spec 10 (lenN (write_le 2 (lenN b1) ++ write_le 2 (lenN b2) ++ write_le 2 (lenN b3) ++ body))) as [_|]; [|lia].
  cbn [guard bind].
  (* jump table *)
  assert (Ejt : splitn 6 (write_le 2 (lenN b1) ++ write_le 2 (lenN b2) ++ write_le 2 (lenN b3) ++ body)
                = Some (write_le 2 (lenN b1) ++ write_le 2 (lenN b2) ++ write_le 2 (lenN b3), body)).
  { rewrite splitn_spec. rewrite !app_assoc. rewrite <- !app_assoc.
    replace (write_le 2 (lenN b1) ++ write_le 2 (lenN b2) ++ write_le 2 (lenN b3) ++ body)
      with ((write_le 2 (lenN b1) ++ write_le 2 (lenN b2) ++ write_le 2 (lenN b3)) ++ body) by (rewrite <- !app_assoc; reflexivity).
    rewrite app_length. change (length (write_le 2 (lenN b1) ++ write_le 2 (lenN b2) ++ write_le 2 (lenN b3))) with 6%nat.
    destruct (Nat.leb_spec 6 (6 + length body)) as [_|]; [|lia].
    rewrite firstn_app, skipn_app.
    change (length (write_le 2 (lenN b1) ++ write_le 2 (lenN b2) ++ write_le 2 (lenN b3))) with 6%nat.
    cbn [Nat.sub firstn skipn]. rewrite app_nil_r. reflexivity. }
  rewrite Ejt. cbn [of_opt bind].
  assert (V : forall v, v < 65536 -> le_val (write_le 2 v) = v).
  { intros v Hv. rewrite le_val_write_le. change (2 ^ (8 * N.of_nat 2)) with 65536. apply N.mod_small. exact Hv. }
  change (firstn 2 (write_le 2 (lenN b1) ++ write_le 2 (lenN b2) ++ write_le 2 (lenN b3))) with (write_le 2 (lenN b1)).
  change (firstn 2 (skipn 2 (write_le 2 (lenN b1) ++ write_le 2 (lenN b2) ++ write_le 2 (lenN b3)))) with (write_le 2 (lenN b2)).
  change (skipn 4 (write_le 2 (lenN b1) ++ write_le 2 (lenN b2) ++ write_le 2 (lenN b3))) with (write_le 2 (lenN b3)).
  rewrite !V by assumption. fold seg.
  destruct (N.leb_spec (3 * seg) n) as [_|]; [|lia]. cbn [guard bind].
  unfold body. rewrite splitN_app. cbn [of_opt bind fst snd]. rewrite splitN_app. cbn [of_opt bind fst snd].
  rewrite splitN_app. cbn [of_opt bind fst snd].
  rewrite <- L1 at 1. rewrite (huf_stream_enc t s1 b1 [] E1). cbn [bind].
  rewrite <- L2 at 1. rewrite (huf_stream_enc t s2 b2 _ E2). cbn [bind].
  rewrite <- L3 at 1. rewrite (huf_stream_enc t s3 b3 _ E3). cbn [bind].
  rewrite <- L4. rewrite (huf_stream_enc t s4 b4 _ E4). cbn [bind].
  rewrite rev'_rev, app_nil_r, !rev_app_distr, !rev_involutive, <- !app_assoc. f_equal. symmetry. exact Esyms.
Qed.

(* ---------- the literals section ---------- *)
Local Transparent write_le decode_literals.

(* fields of a compressed-literals header value hv = ltype + 4 sf + 16 n + 2^(4+nb) csz *)
Lemma huf_hdr_fields ltype sf nb n csz :
  ltype < 4 -> sf < 4 -> n < 2 ^ nb -> csz < 2 ^ nb ->
  let hv := ltype + 4 * sf + 16 * n + 2 ^ (4 + nb) * csz in
  N.land (N.shiftr hv 4) (pow2 nb - 1) = n /\ N.land (N.shiftr hv (4 + nb)) (pow2 nb - 1) = csz /\ hv < 2 ^ (4 + nb + nb).
Proof.
  intros Hl Hs Hn Hc hv. rewrite pow2_pow.
  assert (P : 0 < 2 ^ nb) by (apply N.neq_0_lt_0, N.pow_nonzero; discriminate).
  replace (2 ^ nb - 1) with (N.ones nb) by (rewrite N.ones_equiv; lia).
  rewrite !N.land_ones, !N.shiftr_div_pow2. change (2 ^ 4) with 16.
  assert (E1 : hv / 16 = n + 2 ^ nb * csz).
  { unfold hv. rewrite N.pow_add_r. change (2 ^ 4) with 16.
    replace (ltype + 4 * sf + 16 * n + 16 * 2 ^ nb * csz) with ((ltype + 4 * sf) + (n + 2 ^ nb * csz) * 16) by lia.
    rewrite N.div_add by discriminate. rewrite (N.div_small (ltype + 4 * sf) 16) by lia. lia. }
  assert (E2 : hv / 2 ^ (4 + nb) = csz).
  { unfold hv. rewrite (N.mul_comm (2 ^ (4 + nb)) csz), N.div_add by (apply N.pow_nonzero; discriminate).
    rewrite N.div_small; [lia|]. rewrite N.pow_add_r. change (2 ^ 4) with 16. nia. }
  rewrite E1, E2. split; [|split].
  - rewrite (N.mul_comm (2 ^ nb) csz), N.mod_add by lia. apply N.mod_small. exact Hn.
  - apply N.mod_small. exact Hc.
  - unfold hv. rewrite !N.pow_add_r. change (2 ^ 4) with 16. nia.
Qed.

Definition sf_streams (sf : N) (t : htree) (lits : bytes) : option bytes := if sf =? 0 then enc_huf1 t lits else enc_huf4 t lits.

Theorem decode_lits_huf blockMax prev ltype sf treedesc ht lits tail sec :
  (ltype = 2 \/ (ltype = 3 /\ prev = Some ht /\ treedesc = [])) -> sf < 4 ->
  lenN lits <= blockMax ->
  (sf = 0 \/ 6 <= lenN lits) ->
  (forall part b, enc_huf1 (h_tree ht) part = Some b -> lenN b < 65536) ->
  (ltype = 2 -> forall streams, read_huf_table LitHufLog (treedesc ++ streams) = Ok (ht, lenN treedesc)) ->
  enc_lits_huf ltype sf treedesc (h_tree ht) lits = Some sec ->
  decode_literals blockMax prev (sec ++ tail) = Ok (lits, Some ht, lenN sec, ltype + (if sf =? 0 then 0 else 4)).
Proof.
  intros Hlt Hsf Hn H6 Hsz Htree Henc. unfold enc_lits_huf in Henc. fold (sf_streams sf (h_tree ht) lits) in Henc.
  destruct (sf_streams sf (h_tree ht) lits) as [streams|] eqn:Es; [|discriminate].
  set (n := lenN lits) in *. set (csz := lenN treedesc + lenN streams) in *.
  set (nb := if sf <? 2 then 10 else if sf =? 2 then 14 else 18) in *.
  destruct (andb (n <? pow2 nb) (csz <? pow2 nb)) eqn:Efit; [|discriminate].
  apply andb_true_iff in Efit. destruct Efit as (Fn & Fc). apply N.ltb_lt in Fn. apply N.ltb_lt in Fc. rewrite pow2_pow in Fn, Fc.
  assert (Hlt4 : ltype < 4) by (destruct Hlt as [->|(-> & _)]; lia).
  destruct (huf_hdr_fields ltype sf nb n csz Hlt4 Hsf Fn Fc) as (Fa & Fb & Fbound). cbv zeta in Fa, Fb, Fbound.
  set (hv := ltype + 4 * sf + 16 * n + 2 ^ (4 + nb) * csz) in *.
  set (hsz := if sf <? 2 then 3 else if sf =? 2 then 4 else 5).
  assert (Ehdr : exists hdr, sec = hdr ++ treedesc ++ streams /\ hdr = write_le (N.to_nat hsz) hv /\ lenN hdr = hsz /\ 2 ^ (8 * hsz) = 2 ^ (4 + nb + nb)).
  { assert (Hc : sf = 0 \/ sf = 1 \/ sf = 2 \/ sf = 3) by lia.
    injection Henc as <-. clear Fa Fb Fbound Fn Fc Es.
    destruct Hc as [->|[->|[->| ->]]]; subst hsz hv nb;
      [ change (0 <? 2) with true | change (1 <? 2) with true | change (2 <? 2) with false; change (2 =? 2) with true
      | change (3 <? 2) with false; change (3 =? 2) with false ]; cbv iota.
    - exists (write_le 3 (ltype + 4 * 0 + 16 * n + 2 ^ (4 + 10) * csz)). split; [|split; [reflexivity|split; reflexivity]].
      reflexivity.
    - exists (write_le 3 (ltype + 4 * 1 + 16 * n + 2 ^ (4 + 10) * csz)). split; [|split; [reflexivity|split; reflexivity]].
      reflexivity.
    - exists (write_le 4 (ltype + 4 * 2 + 16 * n + 2 ^ (4 + 14) * csz)). split; [|split; [reflexivity|split; reflexivity]].
      reflexivity.
    - exists (write_le 5 (ltype + 4 * 3 + 16 * n + 2 ^ (4 + 18) * csz)). split; [|split; [reflexivity|split; reflexivity]].
      reflexivity. }
  destruct Ehdr as (hdr & -> & Ehdr & Lh & Epow).
  assert (Hh3 : (3 <= N.to_nat hsz)%nat) by (unfold hsz; destruct (sf <? 2); [|destruct (sf =? 2)]; cbn; lia).
  destruct (N.to_nat hsz) as [|k] eqn:Ek; [lia|].
  destruct (write_le_first k hv) as (t0 & Et0).
  destruct (lit_b0_fields ltype sf (n + 2 ^ nb * csz) Hlt4 Hsf) as (B1 & B2).
  replace (ltype + 4 * sf + 16 * (n + 2 ^ nb * csz)) with hv in B1, B2 by (unfold hv; rewrite N.pow_add_r; change (2 ^ 4) with 16; lia).
  unfold decode_literals. rewrite <- !app_assoc, Ehdr, Et0. cbn [app]. rewrite B1, B2.
  assert (Elt : (ltype <? 2) = false) by (apply N.ltb_ge; destruct Hlt as [->|(-> & _)]; lia). rewrite Elt.
  fold hsz. rewrite Ek.
  change (hv mod 256 :: t0 ++ treedesc ++ streams ++ tail) with ((hv mod 256 :: t0) ++ treedesc ++ streams ++ tail).
  rewrite <- Et0, <- Ek.
  rewrite (read_le_write_le (N.to_nat hsz) hv) by (rewrite N2Nat.id, Epow; exact Fbound). cbn [of_opt bind].
  fold nb. rewrite Fa, Fb. fold n.
  assert (F4 : negb (sf =? 0) = (if sf =? 0 then false else true)) by (destruct (sf =? 0); reflexivity).
  destruct (N.leb_spec n blockMax) as [_|]; [|lia]. cbn [guard bind].
  rewrite app_assoc. replace csz with (lenN (treedesc ++ streams)) by (rewrite lenN_app; reflexivity).
  rewrite splitN_app. cbn [of_opt bind fst snd].
  (* tree *)
  assert (Etb : (if ltype =? 2 then do r <- read_huf_table LitHufLog (treedesc ++ streams); let '(t, used) := r in Ok (t, skipN (treedesc ++ streams) used)
                 else do t <- of_opt prev Edict 308; Ok (t, treedesc ++ streams)) = Ok (ht, streams)).
  { destruct Hlt as [->|(-> & -> & ->)].
    - cbn [N.eqb Pos.eqb]. rewrite (Htree eq_refl streams). cbn [bind]. rewrite skipN_app_len. reflexivity.
    - reflexivity. }
  rewrite Etb. cbn [bind].
  (* streams *)
  unfold sf_streams in Es.
  assert (Edec : (if negb (sf =? 0) then huf_decode4 (h_tree ht) n streams else huf_decode1 (h_tree ht) n streams) = Ok lits).
  { destruct (N.eqb_spec sf 0) as [->|Nz]; cbn [negb].
    - apply huf_decode1_enc. exact Es.
    - apply huf_decode4_enc; [destruct H6; [congruence|assumption]|exact Es|exact Hsz]. }
  rewrite Edec. cbn [bind].
  change (hv mod 256 :: t0 ++ treedesc ++ streams) with ((hv mod 256 :: t0) ++ treedesc ++ streams).
  rewrite <- Et0, <- Ehdr, (lenN_app hdr), Lh. destruct (sf =? 0); cbn [negb]; reflexivity.
Qed.
