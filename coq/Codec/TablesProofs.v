(* T-tie theorems: the tables compiled into the CURRENT /repo (coq/Gen/Gen_Tables.v, regenerated every
   run) are the tables of the format specification, and the three hard-coded default decoding tables of
   zstd_decompress_block.c are what the specified construction yields from the default distributions. *)
From Coq Require Import NArith ZArith List Bool Lia.
From ZV.Codec Require Import Bytes Fse Block.
From ZV.Gen Require Gen_Tables.
Import ListNotations.
Local Open Scope N_scope.

Lemma gen_tables_match_spec :
  Gen_Tables.LL_base = spec_LL_base /\ Gen_Tables.LL_bits = spec_LL_bits /\
  Gen_Tables.ML_base = spec_ML_base /\ Gen_Tables.ML_bits = spec_ML_bits /\
  Gen_Tables.LL_defaultNorm = spec_LL_default /\ Gen_Tables.ML_defaultNorm = spec_ML_default /\
  Gen_Tables.OF_defaultNorm = spec_OF_default /\
  Gen_Tables.c_LL_DEFAULTNORMLOG = 6 /\ Gen_Tables.c_ML_DEFAULTNORMLOG = 6 /\ Gen_Tables.c_OF_DEFAULTNORMLOG = 5 /\
  Gen_Tables.c_MaxLL = MaxLL /\ Gen_Tables.c_MaxML = MaxML /\ Gen_Tables.c_MaxOff = MaxOff /\
  Gen_Tables.c_LLFSELog = LLFSELog /\ Gen_Tables.c_MLFSELog = MLFSELog /\ Gen_Tables.c_OffFSELog = OffFSELog /\
  Gen_Tables.c_MINMATCH = 3 /\ Gen_Tables.c_LONGNBSEQ = 32512 /\
  Gen_Tables.c_ZSTD_BLOCKSIZE_MAX = 131072 /\ Gen_Tables.c_ZSTD_blockHeaderSize = 3 /\
  Gen_Tables.c_ZSTD_MAGICNUMBER = 4247762216 /\ Gen_Tables.c_ZSTD_MAGIC_DICTIONARY = 3962610743 /\
  Gen_Tables.c_ZSTD_MAGIC_SKIPPABLE_START = 407710288 /\ Gen_Tables.repStartValue = [1; 4; 8] /\
  Gen_Tables.fcs_fieldSize = [0; 2; 4; 8] /\ Gen_Tables.did_fieldSize = [0; 1; 2; 4].
Proof. repeat split; reflexivity. Qed.

(* offset codes: OF_base[c] = 2^c - 3 (c >= 2), OF_bits[c] = c : R computes 2^c + extra and subtracts 3 *)
Definition of_row_ok (c : N) : bool :=
  andb (nthN Gen_Tables.OF_bits c 99 =? c)
       (if c <? 2 then nthN Gen_Tables.OF_base c 99 =? c else nthN Gen_Tables.OF_base c 0 + 3 =? pow2 c).
Lemma of_tables_match_spec :
  length Gen_Tables.OF_base = 32%nat /\ length Gen_Tables.OF_bits = 32%nat /\
  forall c, c < 32 -> of_row_ok c = true.
Proof.
  split; [reflexivity|split; [reflexivity|]].
  assert (H : forallb of_row_ok (map N.of_nat (List.seq 0%nat 32%nat)) = true) by (vm_compute; reflexivity).
  intros c Hc. rewrite forallb_forall in H. apply H.
  apply in_map_iff. exists (N.to_nat c). split; [lia|]. apply List.in_seq. lia.
Qed.

(* default decoding tables *)
Definition as_seqsymbols (base bits : list N) (t : fse_table) : list (N * N * N * N) :=
  map (fun c => (fc_base c, nthN bits (fc_sym c) 0, fc_nb c, nthN base (fc_sym c) 0)) (ft_cells t).

Definition dtable_of (log : N) (norm : list Z) (base bits : list N) : option (list (N * N * N * N)) :=
  match build_dtable log norm with Ok t => Some (as_seqsymbols base bits t) | Err _ _ => None end.

Lemma default_dtables_correct :
  dtable_of 6 spec_LL_default spec_LL_base spec_LL_bits = Some Gen_Tables.LL_defaultDTable /\
  dtable_of 6 spec_ML_default spec_ML_base spec_ML_bits = Some Gen_Tables.ML_defaultDTable /\
  dtable_of 5 spec_OF_default Gen_Tables.OF_base Gen_Tables.OF_bits = Some Gen_Tables.OF_defaultDTable.
Proof. repeat split; vm_compute; reflexivity. Qed.

(* code tables are contiguous: every length has exactly one code *)
Fixpoint contiguous (base bits : list N) : bool :=
  match base, bits with
  | b0 :: ((b1 :: _) as bt), n0 :: nt => andb (b1 =? b0 + pow2 n0) (contiguous bt nt)
  | _, _ => true
  end.
Lemma ll_ml_contiguous :
  contiguous spec_LL_base spec_LL_bits = true /\ contiguous spec_ML_base spec_ML_bits = true /\
  hd 0 spec_LL_base = 0 /\ hd 0 spec_ML_base = 3 /\
  last spec_LL_base 0 + pow2 (last spec_LL_bits 0) = 131072 /\
  last spec_ML_base 0 + pow2 (last spec_ML_bits 0) = 131075.
Proof. repeat split; vm_compute; reflexivity. Qed.

(* generic: in a contiguous table starting at lo, every v in [lo, end) lies in exactly one row *)
Fixpoint find_code (base bits : list N) (v : N) (c : N) : option N :=
  match base, bits with
  | b0 :: bt, n0 :: nt => if andb (b0 <=? v) (v <? b0 + pow2 n0) then Some c else find_code bt nt v (c + 1)
  | _, _ => None
  end.

Lemma contiguous_cover : forall base bits v c,
  length base = length bits -> contiguous base bits = true ->
  hd 0 base <= v -> v < last base 0 + pow2 (last bits 0) -> base <> [] ->
  exists k, find_code base bits v c = Some k.
Proof.
  induction base as [|b0 bt IH]; intros bits v c Hlen Hc Hlo Hhi Hne; [congruence|].
  destruct bits as [|n0 nt]; [discriminate|].
  cbn [find_code].
  destruct (andb (b0 <=? v) (v <? b0 + pow2 n0)) eqn:E; [eauto|].
  destruct bt as [|b1 bt'].
  - (* single row: v must be inside *)
    destruct nt; [|discriminate].
    cbn [hd last] in *. apply andb_false_iff in E. destruct E as [E|E].
    + apply N.leb_gt in E. lia.
    + apply N.ltb_ge in E. lia.
  - destruct nt as [|n1 nt']; [discriminate|].
    cbn [contiguous] in Hc. apply andb_true_iff in Hc. destruct Hc as [H1 H2].
    apply N.eqb_eq in H1.
    apply IH with (c := c + 1); auto.
    + cbn [hd] in *. apply andb_false_iff in E. destruct E as [E|E].
      * apply N.leb_gt in E. lia.
      * apply N.ltb_ge in E. lia.
    + discriminate.
Qed.

Lemma code_tables_partition :
  (forall ll, ll < 131072 -> exists c, find_code spec_LL_base spec_LL_bits ll 0 = Some c) /\
  (forall ml, 3 <= ml -> ml < 131075 -> exists c, find_code spec_ML_base spec_ML_bits ml 0 = Some c).
Proof.
  destruct ll_ml_contiguous as (H1 & H2 & H3 & H4 & H5 & H6).
  split.
  - intros ll Hll. apply contiguous_cover.
    + reflexivity.
    + exact H1.
    + rewrite H3. apply N.le_0_l.
    + rewrite H5. exact Hll.
    + discriminate.
  - intros ml Hlo Hhi. apply contiguous_cover.
    + reflexivity.
    + exact H2.
    + rewrite H4. exact Hlo.
    + rewrite H6. exact Hhi.
    + discriminate.
Qed.

Lemma impl_tables_match_spec :
  Gen_Tables.LL_base = spec_LL_base /\ Gen_Tables.LL_bits = spec_LL_bits /\
  Gen_Tables.ML_base = spec_ML_base /\ Gen_Tables.ML_bits = spec_ML_bits /\
  (forall c, c < 32 -> of_row_ok c = true).
Proof.
  destruct gen_tables_match_spec as (H1 & H2 & H3 & H4 & _).
  destruct of_tables_match_spec as (_ & _ & H5).
  split; [exact H1|]. split; [exact H2|]. split; [exact H3|]. split; [exact H4|exact H5].
Qed.
