(* C06 (round 3) - proofs about coq/Codec/LegacyInspect.v: for every byte string, every version 5..7 and every block
   decoder, what the single-call legacy frame decoder produces stays within the bound the legacy frame walk reports. *)
From Coq Require Import ZArith List Bool Lia.
From ZV.Codec Require Import FrameInspect FrameInspectProofs FrameInspectRobust.
From ZV.Codec Require Import LegacyInspect.
Import ListNotations.
Local Open Scope Z_scope.

Lemma LG_BLOCKSIZE_val : LG_BLOCKSIZE = 131072. Proof. reflexivity. Qed.

(* decoder and walk advance in lock-step: same fuel, same bytes *)
Lemma lg_lockstep : forall ver regen f i src p d c0 b0,
  lg_decode true ver regen i f src p = Some d ->
  exists cs b, lg_walk ver f src c0 b0 = Some (cs, b) /\ d - p <= b - b0 /\ cs <= c0 + len src.
Proof.
  intros ver regen. induction f as [|x f IH]; intros i src p d c0 b0 H; [discriminate|].
  cbn [lg_decode lg_walk] in *.
  destruct (lg_block src) as [[[ty c] sz]|] eqn:Eb; [|discriminate].
  destruct (drop_exact src (3 + c)) as [rest|] eqn:Ed; [|discriminate].
  destruct (drop_exact_len _ _ _ Ed) as [Hl Hm].
  destruct (Z.eqb_spec ty 3) as [T3|T3].
  - (* bt_end *)
    destruct (Z.eqb_spec (len src) 3) as [L3|L3]; [|discriminate]. injection H as <-.
    assert (c = 0).
    { unfold lg_block in Eb. destruct src as [|b0' [|b1 [|b2 t]]]; try discriminate. injection Eb as Ety Ec _.
      rewrite Ety in Ec. rewrite (proj2 (Z.eqb_eq ty 3) T3) in Ec. congruence. }
    subst c. destruct (ver =? 7); cbn [andb negb].
    + eexists _, _. split; [reflexivity|]. lia.
    + change (0 =? 0) with true. cbv iota. eexists _, _. split; [reflexivity|]. lia.
  - rewrite andb_false_r.
    destruct ((ty =? 2) && negb (ver =? 7)) eqn:Erle; [discriminate|].
    destruct (negb (ver =? 7) && (c =? 0)) eqn:Ezero.
    + injection H as <-. eexists _, _. split; [reflexivity|]. pose proof (len_nonneg _ rest). lia.
    + destruct (if ty =? 0 then regen i c else if ty =? 1 then Some c else Some sz) as [r|] eqn:Edd; [|discriminate].
      cbn [andb] in H. destruct (Z.ltb_spec LG_BLOCKSIZE r) as [Hbig|Hsmall]; [discriminate|].
      destruct (IH _ _ _ _ (c0 + 3 + c)
                   (b0 + Z.max (if ty =? 1 then c else if (ty =? 2) && (ver =? 7) then sz else 0) LG_BLOCKSIZE) H)
        as (cs & b & Hw & Hd & Hc).
      eexists _, _. split; [exact Hw|]. lia.
Qed.

(* what ZSTD_decompress produces for a legacy frame never exceeds what ZSTD_decompressBound reports for it:
   for EVERY byte string, version, block decoder (the walk answers whenever the decoder succeeds) *)
Theorem legacy_bound_safe_lemma : forall ver regen hdr_ok src d,
  legacy_decode true ver regen hdr_ok src = Some d ->
  exists cs b, legacy_find ver src = Some (cs, b) /\ d <= b /\ cs <= len src.
Proof.
  intros ver regen hdr_ok src d H. unfold legacy_decode, legacy_find in *.
  destruct hdr_ok; [|discriminate]. cbn [negb] in H.
  destruct (negb (le (firstn 4 src) =? LG_MAGIC ver)); [discriminate|].
  destruct (lg_header_size ver src) as [hs|]; [|discriminate].
  destruct (Z.ltb_spec (len src) (hs + 3)); [discriminate|].
  rewrite andb_false_r.
  destruct (drop_exact src hs) as [body|] eqn:Ed; [|discriminate].
  destruct (drop_exact_len _ _ _ Ed) as [Hl Hm].
  destruct (lg_lockstep ver regen _ _ _ _ _ hs 0 H) as (cs & b & Hw & Hd & Hc).
  exists cs, b. split; [exact Hw|]. lia.
Qed.

(* the walk alone, on arbitrary bytes: the reported size lies inside the source, the bound is not negative *)
Lemma lg_block_len : forall src ty c sz, lg_block src = Some (ty, c, sz) -> 3 <= len src.
Proof.
  intros src ty c sz H. unfold lg_block in H. destruct src as [|b0 [|b1 [|b2 t]]]; try discriminate.
  rewrite !len_cons. pose proof (len_nonneg _ t). lia.
Qed.

Lemma lg_block_nonneg : forall src ty c sz, bytes_ok src -> lg_block src = Some (ty, c, sz) ->
  0 <= c /\ 0 <= sz < 524288 /\ 0 <= ty <= 3.
Proof.
  intros src ty c sz B H. unfold lg_block in H. destruct src as [|b0 [|b1 [|b2 t]]]; [discriminate..|].
  inversion B as [|? ? H0 B1]; subst. inversion B1 as [|? ? H1 B2]; subst. inversion B2 as [|? ? H2 _]; subst.
  unfold byte_ok in *.
  pose proof (Z.mod_pos_bound (b0 / 64) 4 ltac:(lia)) as M4. pose proof (Z.mod_pos_bound b0 8 ltac:(lia)) as M8.
  remember ((b0 / 64) mod 4) as TY. remember (b2 + 256 * b1 + 65536 * (b0 mod 8)) as SZ.
  assert (0 <= SZ < 524288) by lia.
  assert (E : ty = TY /\ c = (if TY =? 3 then 0 else if TY =? 2 then 1 else SZ) /\ sz = SZ) by (injection H; auto).
  destruct E as (-> & -> & ->).
  destruct (TY =? 3); [lia|]. destruct (TY =? 2); lia.
Qed.

Lemma lg_walk_within : forall ver f src c0 b0 cs b, bytes_ok src ->
  lg_walk ver f src c0 b0 = Some (cs, b) -> c0 + 3 <= cs /\ cs <= c0 + len src /\ b0 <= b.
Proof.
  intros ver. induction f as [|x f IH]; intros src c0 b0 cs b B H; [discriminate|].
  cbn [lg_walk] in H.
  destruct (lg_block src) as [[[ty c] sz]|] eqn:Eb; [|discriminate].
  pose proof (lg_block_len _ _ _ _ Eb) as L3.
  destruct (lg_block_nonneg _ _ _ _ B Eb) as (Hc & _ & _).
  destruct ((ver =? 7) && (ty =? 3)).
  - injection H as <- <-. lia.
  - destruct (drop_exact src (3 + c)) as [rest|] eqn:Ed; [|discriminate].
    destruct (drop_exact_len _ _ _ Ed) as [Hl Hm].
    pose proof (drop_exact_bytes _ _ _ B Ed) as Br.
    destruct (negb (ver =? 7) && (c =? 0)).
    + injection H as <- <-. lia.
    + apply IH in H; [|assumption]. destruct H as (A & B' & C). pose proof (len_nonneg _ rest). unfold LG_BLOCKSIZE in *. lia.
Qed.

Lemma nth_tab_nonneg : forall k (l : list Z), Forall (fun v => 0 <= v) l -> 0 <= nth k l 0.
Proof.
  intros k l F. revert k. induction F as [|v l Hv F IH]; intros k; destruct k; cbn [nth]; try lia; try apply IH.
Qed.

Lemma lg_header_size_ge5 : forall ver src hs, lg_header_size ver src = Some hs -> 5 <= hs.
Proof.
  intros ver src hs H. unfold lg_header_size in H. destruct (len src <? 5); [discriminate|].
  destruct (ver =? 5); [assert (hs = 5) by congruence; lia|].
  assert (T6 : 0 <= nth (Z.to_nat (nth 4 src 0 / 64)) [0; 1; 2; 8] 0) by (apply nth_tab_nonneg; repeat constructor; lia).
  assert (T7 : 0 <= nth (Z.to_nat (nth 4 src 0 / 64)) [0; 2; 4; 8] 0) by (apply nth_tab_nonneg; repeat constructor; lia).
  assert (T7d : 0 <= nth (Z.to_nat (nth 4 src 0 mod 4)) [0; 1; 2; 4] 0) by (apply nth_tab_nonneg; repeat constructor; lia).
  pose proof (Z.mod_pos_bound (nth 4 src 0 / 32) 2 ltac:(lia)) as M2.
  cbv zeta in H.
  remember (nth (Z.to_nat (nth 4 src 0 / 64)) [0; 1; 2; 8] 0) as A6 in *.
  remember (nth (Z.to_nat (nth 4 src 0 / 64)) [0; 2; 4; 8] 0) as A7 in *.
  remember (nth (Z.to_nat (nth 4 src 0 mod 4)) [0; 1; 2; 4] 0) as D7 in *.
  remember ((nth 4 src 0 / 32) mod 2) as DM in *.
  destruct (ver =? 6); [assert (hs = 5 + A6) by congruence; lia|].
  destruct ((DM =? 1) && (A7 =? 0)); [assert (hs = 5 + (1 - DM) + D7 + A7 + 1) by congruence; lia|
                                      assert (hs = 5 + (1 - DM) + D7 + A7 + 0) by congruence; lia].
Qed.

Theorem legacy_find_within_lemma : forall ver src cs b, bytes_ok src ->
  legacy_find ver src = Some (cs, b) -> 3 <= cs <= len src /\ 0 <= b.
Proof.
  intros ver src cs b B H. unfold legacy_find in H.
  destruct (negb (le (firstn 4 src) =? LG_MAGIC ver)); [discriminate|].
  destruct (lg_header_size ver src) as [hs|] eqn:Eh; [|discriminate].
  destruct (negb (ver =? 5) && (len src <? hs + 3)); [discriminate|].
  destruct (drop_exact src hs) as [body|] eqn:Ed; [|discriminate].
  destruct (drop_exact_len _ _ _ Ed) as [Hl Hm].
  pose proof (drop_exact_bytes _ _ _ B Ed) as Bb.
  pose proof (lg_header_size_ge5 _ _ _ Eh) as Hhs.
  apply lg_walk_within in H; [|assumption]. lia.
Qed.

(* closed witness of the finding C06-legacy-bound-oversize-compressed-block: the 22-byte v0.7 frame whose compressed
   block regenerates 131075 bytes (1 literal + a match of 131074): the walk reports 22 bytes / a bound of 131072, the
   decoder before 39f3df0 produced 131075 bytes, the decoder after it refuses the frame *)
Example legacy_finding_witness :
  legacy_find 7 lg_finding_frame = Some (22, 131072) /\
  legacy_decode false 7 (fun _ _ => Some 131075) true lg_finding_frame = Some 131075 /\
  legacy_decode true 7 (fun _ _ => Some 131075) true lg_finding_frame = None /\
  legacy_decode true 7 (fun _ _ => Some 131072) true lg_finding_frame = Some 131072.
Proof. vm_compute. repeat split; reflexivity. Qed.

(* without the test of 39f3df0 the statement of legacy_bound_safe_lemma is false *)
Example legacy_bound_unsafe_before_repair :
  exists src d cs b, legacy_decode false 7 (fun _ _ => Some 131075) true src = Some d /\
                     legacy_find 7 src = Some (cs, b) /\ b < d.
Proof. exists lg_finding_frame, 131075, 22, 131072. vm_compute. repeat split; reflexivity. Qed.

(* v0.7: the compressed size the walk reports is exactly what the single-call decoder consumes (it insists on
   "remainingSize == 0" at bt_end) *)
Lemma lg_lockstep7 : forall regen f i src p d c0 b0, bytes_ok src ->
  lg_decode true 7 regen i f src p = Some d ->
  exists b, lg_walk 7 f src c0 b0 = Some (c0 + len src, b).
Proof.
  intros regen. induction f as [|x f IH]; intros i src p d c0 b0 B H; [discriminate|].
  cbn [lg_decode lg_walk] in *.
  destruct (lg_block src) as [[[ty c] sz]|] eqn:Eb; [|discriminate].
  destruct (lg_block_nonneg _ _ _ _ B Eb) as (Hc & _ & _).
  destruct (drop_exact src (3 + c)) as [rest|] eqn:Ed; [|discriminate].
  destruct (drop_exact_len _ _ _ Ed) as [Hl Hm].
  pose proof (drop_exact_bytes _ _ _ B Ed) as Br.
  change (7 =? 7) with true in *. cbn [andb negb] in *.
  destruct (Z.eqb_spec ty 3) as [T3|T3].
  - destruct (Z.eqb_spec (len src) 3) as [L3|L3]; [|discriminate]. eexists. rewrite L3. reflexivity.
  - rewrite andb_false_r in H.
    destruct (if ty =? 0 then regen i c else if ty =? 1 then Some c else Some sz) as [r|] eqn:Edd; [|discriminate].
    destruct (LG_BLOCKSIZE <? r); [discriminate|].
    destruct (IH _ _ _ _ (c0 + 3 + c) (b0 + Z.max (if ty =? 1 then c else if (ty =? 2) && true then sz else 0) LG_BLOCKSIZE) Br H)
      as (b & Hw).
    exists b. rewrite Hw. f_equal. f_equal. lia.
Qed.

Theorem legacy7_compressed_size_exact_lemma : forall regen hdr_ok src d, bytes_ok src ->
  legacy_decode true 7 regen hdr_ok src = Some d ->
  exists b, legacy_find 7 src = Some (len src, b) /\ d <= b.
Proof.
  intros regen hdr_ok src d B H.
  destruct (legacy_bound_safe_lemma _ _ _ _ _ H) as (cs & b & Hf & Hd & _).
  unfold legacy_decode, legacy_find in *.
  destruct hdr_ok; [|discriminate]. cbn [negb] in H.
  destruct (negb (le (firstn 4 src) =? LG_MAGIC 7)); [discriminate|].
  destruct (lg_header_size 7 src) as [hs|] eqn:Eh; [|discriminate].
  pose proof (lg_header_size_ge5 _ _ _ Eh) as Hhs.
  destruct (Z.ltb_spec (len src) (hs + 3)); [discriminate|].
  rewrite andb_false_r in Hf.
  destruct (drop_exact src hs) as [body|] eqn:Ed; [|discriminate].
  destruct (drop_exact_len _ _ _ Ed) as [Hl Hm].
  pose proof (drop_exact_bytes _ _ _ B Ed) as Bb.
  destruct (lg_lockstep7 regen _ _ _ _ _ hs 0 Bb H) as (b' & Hw).
  rewrite Hw in Hf. injection Hf as <- <-.
  assert (Hlen : hs + len body = len src) by lia.
  exists b'. split; [|assumption]. rewrite Hw, Hlen. reflexivity.
Qed.
