(* C09, round 2: the multi-frame reference decoder R (ZSTD_decompress semantics: zstd frames and skippable frames back to back)
   under truncation and trailing bytes.
   - R_prefix: if R accepts q ++ z and also accepts the prefix q, then the cut falls on a frame boundary: the items and the
     content of q are a prefix of those of q ++ z and the remainder z is itself an accepted stream.
   - R_trailing_rejected: a stream of complete frames followed by bytes that R refuses is refused as a whole.
   - R_last_frame_truncated: complete frames followed by a non-empty proper prefix of one more zstd frame are refused. *)
From Coq Require Import NArith ZArith List Bool Lia.
From ZV.Codec Require Import Bytes ListLemmas XXH64 Fse Huf Block Frame LzProofs FrameProofs PrefixProofs MultiFrameProofs.
Import ListNotations.
Local Open Scope N_scope.

(* ---------- every successful step consumes input ---------- *)
Lemma parse_fheader_shrinks ml src fh r0 : parse_fheader ml src = Ok (fh, r0) -> (length r0 < length src)%nat.
Proof.
  unfold parse_fheader. intros H.
  inv_bind_as H as m Hm.
  assert (Em : (length m <= length src)%nat).
  { destruct ml.
    - injection Hm as ->. lia.
    - inv_bind_as Hm as [mv mr] Hr. apply of_opt_Ok in Hr. apply read_le_Some in Hr. destruct Hr as (c & Ec & _).
      inv_bind_as Hm as [] Hg. injection Hm as <-. subst src. rewrite app_length. cbn [snd]. lia. }
  destruct m as [|fhd r1]; [discriminate|].
  inv_bind_as H as [] Hres.
  inv_bind_as H as [wopt r2] Hw.
  assert (E2 : (length r2 <= length r1)%nat).
  { destruct (N.testbit fhd 5).
    - injection Hw as _ ->. lia.
    - destruct r1 as [|wd t]; [discriminate|]. injection Hw as _ ->. cbn [length]. lia. }
  inv_bind_as H as [did r3] Hd. apply of_opt_Ok in Hd. apply read_le_Some in Hd. destruct Hd as (c3 & Ec3 & _).
  inv_bind_as H as [fv r4] Hf. apply of_opt_Ok in Hf. apply read_le_Some in Hf. destruct Hf as (c4 & Ec4 & _).
  inv_bind_as H as win Hwin.
  injection H as _ Hr. subst r0. subst r2 r3. rewrite !app_length in E2. cbn [length] in Em. lia.
Qed.

Lemma decode_frame_shrinks cfg d f out t rest : decode_frame cfg d f = Ok (out, t, rest) -> (length rest < length f)%nat.
Proof.
  intros H. unfold decode_frame in H.
  inv_bind_as H as [fh r0] Hh. apply parse_fheader_shrinks in Hh.
  inv_bind_as H as [] Hw.
  inv_bind_as H as [e0 dcontent] Hd.
  set (x0 := {| x_hist := rev' dcontent; x_marks := []; x_avail := lenN dcontent; x_pos := 0; x_blk := 0 |}) in *.
  assert (I0 : inv x0).
  { unfold inv, x0; cbn [x_hist x_marks x_avail x_pos]. rewrite rev'_rev, lenN_rev. repeat split; [lia|constructor]. }
  inv_bind_as H as [[x r1] bts] Hb.
  apply blocks_loop_inv in Hb; [|exact I0|constructor]. destruct Hb as (_ & _ & _ & (cb & Ecb)).
  inv_bind_as H as [] Hfcs.
  inv_bind_as H as [ck r2] Hck.
  injection H as _ _ Hr. subst rest.
  assert (E : (length r2 <= length r1)%nat).
  { destruct (fh_checksum fh).
    - inv_bind_as Hck as [cv cr] Hr4. apply of_opt_Ok in Hr4. apply read_le_Some in Hr4. destruct Hr4 as (c4 & E4 & _).
      inv_bind_as Hck as [] Hg. injection Hck as _ <-. cbn [snd]. rewrite E4, app_length. lia.
    - injection Hck as _ <-. lia. }
  rewrite Ecb, app_length in Hh. lia.
Qed.

Lemma splitN_Some_length {A} k (l a b : list A) : splitN k l = Some (a, b) -> (length b <= length l)%nat.
Proof.
  rewrite splitN_spec. destruct (k <=? lenN l); [|discriminate]. intros H. injection H as _ <-. rewrite skipn_length. lia.
Qed.

Lemma skip_test_Some_length cfg src r : skip_test cfg src = Some r -> (length r + 4 = length src)%nat.
Proof.
  unfold skip_test. destruct (c_magicless cfg); [discriminate|].
  destruct (read_le 4 src) as [[m r']|] eqn:E; [|discriminate].
  destruct (N.shiftr m 4 =? N.shiftr MAGIC_SKIP 4); [|discriminate]. intros H. injection H as <-.
  apply read_le_Some in E. destruct E as (c & -> & Hc & _). rewrite app_length. lia.
Qed.

(* ---------- the skippable test on a prefix ---------- *)
Lemma skip_test_prefix_Some cfg q z r : skip_test cfg (q ++ z) = Some r ->
  match skip_test cfg q with
  | Some r2 => r = r2 ++ z
  | None => read_le 4 q = None /\ c_magicless cfg = false
  end.
Proof.
  unfold skip_test. destruct (c_magicless cfg); [discriminate|].
  destruct (read_le 4 (q ++ z)) as [[m r']|] eqn:E; [|discriminate].
  apply read_le_prefix in E.
  destruct (read_le 4 q) as [[m2 r2]|]; [|intros _; auto].
  destruct E as (-> & ->).
  destruct (N.shiftr m 4 =? N.shiftr MAGIC_SKIP 4); [|discriminate]. intros H. injection H as <-. reflexivity.
Qed.

Lemma skip_test_prefix_None cfg q z : skip_test cfg (q ++ z) = None -> skip_test cfg q = None.
Proof.
  unfold skip_test. destruct (c_magicless cfg); [reflexivity|].
  destruct (read_le 4 (q ++ z)) as [[m r']|] eqn:E.
  - apply read_le_prefix in E. destruct (read_le 4 q) as [[m2 r2]|]; [|reflexivity]. destruct E as (-> & ->).
    destruct (N.shiftr m 4 =? N.shiftr MAGIC_SKIP 4); [discriminate|reflexivity].
  - intros _. destruct (read_le 4 q) as [[m2 r2]|] eqn:E2; [|reflexivity].
    exfalso. unfold read_le in *. rewrite splitn_spec in *.
    destruct (4 <=? length q)%nat eqn:L; [|discriminate].
    apply Nat.leb_le in L. assert (L2 : (4 <=? length (q ++ z))%nat = true) by (apply Nat.leb_le; rewrite app_length; lia).
    rewrite L2 in E. discriminate.
Qed.

(* fewer than 4 bytes are not a frame (format with a magic number) *)
Lemma decode_frame_short cfg d q : c_magicless cfg = false -> read_le 4 q = None -> exists c s, decode_frame cfg d q = Err c s.
Proof. intros Hm Hq. unfold decode_frame, parse_fheader. rewrite Hm, Hq. cbn. eauto. Qed.

Local Opaque decode_frame.
Local Opaque frames_loop.

Lemma frames_loop_no_fuel cfg d src outs acc : frames_loop [] cfg d src outs acc = Err Efuel 440.
Proof. Local Transparent frames_loop. reflexivity. Local Opaque frames_loop. Qed.

(* ---------- enough fuel: more than one unit per input byte ---------- *)
Lemma frames_loop_enough : forall f1 cfg d src outs acc r, frames_loop f1 cfg d src outs acc = Ok r ->
  forall f2, (length src < length f2)%nat -> frames_loop f2 cfg d src outs acc = Ok r.
Proof.
  induction f1 as [|x f1 IH]; intros cfg d src outs acc r H f2 Hl.
  - rewrite frames_loop_no_fuel in H. discriminate.
  - destruct f2 as [|y f2]; [cbn [length] in Hl; lia|]. destruct src as [|b0 src'].
    + rewrite frames_loop_nil in *. exact H.
    + rewrite frames_loop_step in *. destruct (skip_test cfg (b0 :: src')) as [r0|] eqn:Es.
      * apply skip_test_Some_length in Es.
        inv_bind_as H as [szv szr] Hsz. rewrite Hsz. cbn [bind]. inv_bind_as H as [spa spb] Hsp. rewrite Hsp. cbn [bind].
        cbn [fst snd] in *.
        apply of_opt_Ok in Hsz. apply read_le_Some in Hsz. destruct Hsz as (c & Ec & Hc & _).
        apply of_opt_Ok in Hsp. apply splitN_Some_length in Hsp.
        apply IH with (f2 := f2) in H; [exact H|]. subst r0. rewrite app_length in Es. cbn [length] in *. lia.
      * inv_bind_as H as [[out t] rest] Hd. rewrite Hd. cbn [bind]. apply decode_frame_shrinks in Hd.
        apply IH with (f2 := f2) in H; [exact H|cbn [length] in *; lia].
Qed.

(* ---------- prefix stability of the frame loop ---------- *)
(* what an item is, without the decoding trace of a zstd frame: (is a zstd frame, content size) or (skippable, payload size) *)
Definition fitem_shape (it : fitem) : bool * N := match it with FZstd _ n => (true, n) | FSkip sz => (false, sz) end.

Lemma frames_loop_prefix : forall fuel cfg d q z o i,
  frames_loop fuel cfg d (q ++ z) [] [] = Ok (o, i) ->
  forall fuel2,
  match frames_loop fuel2 cfg d q [] [] with
  | Ok (o2, i2) => exists o3 i3, o = o2 ++ o3 /\ map fitem_shape i = map fitem_shape (i2 ++ i3) /\ frames_loop fuel cfg d z [] [] = Ok (o3, i3)
  | Err _ _ => True
  end.
Proof.
  induction fuel as [|x fuel IH]; intros cfg d q z o i H fuel2.
  - rewrite frames_loop_no_fuel in H. discriminate.
  - destruct fuel2 as [|y fuel2]; [rewrite frames_loop_no_fuel; exact I|].
    destruct q as [|b0 q'].
    + rewrite frames_loop_nil. cbn [app] in H. exists o, i. cbn. auto.
    + change ((b0 :: q') ++ z) with (b0 :: (q' ++ z)) in H. rewrite frames_loop_step in H.
      change (b0 :: (q' ++ z)) with ((b0 :: q') ++ z) in H.
      rewrite frames_loop_step.
      destruct (skip_test cfg ((b0 :: q') ++ z)) as [r|] eqn:Es.
      * apply skip_test_prefix_Some in Es.
        destruct (skip_test cfg (b0 :: q')) as [r2|].
        -- subst r.
           inv_bind_as H as [szv szr] Hsz. apply of_opt_Ok in Hsz. apply read_le_prefix in Hsz.
           destruct (read_le 4 r2) as [[v2 rr2]|]; cbn [of_opt bind]; [|exact I]. destruct Hsz as (-> & ->).
           inv_bind_as H as [spa spb] Hsp. apply of_opt_Ok in Hsp. cbn [fst snd] in Hsp. apply splitN_prefix in Hsp.
           cbn [fst snd].
           destruct (splitN szv rr2) as [[a2 b2]|]; cbn [of_opt bind]; [|exact I]. destruct Hsp as (-> & ->).
           cbn [fst snd] in *.
           rewrite frames_loop_acc in H. rewrite frames_loop_acc.
           destruct (frames_loop fuel cfg d (b2 ++ z) [] []) as [[o' i']|] eqn:E1; [|discriminate]. injection H as <- <-.
           specialize (IH cfg d b2 z o' i' E1 fuel2).
           destruct (frames_loop fuel2 cfg d b2 [] []) as [[o2 i2]|]; [|exact I].
           destruct IH as (o3 & i3 & -> & Hi & Hz). exists o3, i3. cbn [rev app map].
           split; [reflexivity|]. split; [rewrite Hi; reflexivity|].
           apply frames_loop_fuel_mono with (f1 := fuel); [exact Hz|cbn [length]; lia].
        -- destruct Es as (Hq & Hm). destruct (decode_frame_short cfg d (b0 :: q') Hm Hq) as (c & s & ->). exact I.
      * apply skip_test_prefix_None in Es. rewrite Es.
        inv_bind_as H as [[out t] rest] Hd. apply decode_frame_prefix in Hd.
        destruct (decode_frame cfg d (b0 :: q')) as [[[o2 t2] r2]|]; cbn [bind]; [|exact I].
        destruct Hd as (-> & ->).
        rewrite frames_loop_acc in H. rewrite frames_loop_acc.
        destruct (frames_loop fuel cfg d (r2 ++ z) [] []) as [[o' i']|] eqn:E1; [|discriminate]. injection H as <- <-.
        specialize (IH cfg d r2 z o' i' E1 fuel2).
        destruct (frames_loop fuel2 cfg d r2 [] []) as [[o2' i2]|]; [|exact I].
        destruct IH as (o3 & i3 & -> & Hi & Hz). exists o3, i3. cbn [rev app map fitem_shape].
        split; [reflexivity|]. split; [rewrite Hi; reflexivity|].
        apply frames_loop_fuel_mono with (f1 := fuel); [exact Hz|cbn [length]; lia].
Qed.

(* ---------- R ---------- *)
Theorem R_prefix cfg d q z out items :
  R cfg d (q ++ z) = Ok (out, items) ->
  match R cfg d q with
  | Ok (o2, i2) => exists o3 i3, out = o2 ++ o3 /\ map fitem_shape items = map fitem_shape (i2 ++ i3) /\ R cfg d z = Ok (o3, i3)
  | Err _ _ => True
  end.
Proof.
  intros H. rewrite !R_unfold in *.
  destruct (frames_loop (0 :: q ++ z) cfg d (q ++ z) [] []) as [[o i]|] eqn:E; [|discriminate]. injection H as <- <-.
  pose proof (frames_loop_prefix _ _ _ _ _ _ _ E (0 :: q)) as P.
  destruct (frames_loop (0 :: q) cfg d q [] []) as [[o2 i2]|]; [|exact I].
  destruct P as (o3 & i3 & -> & Hi & Hz).
  exists (concat o3), i3. rewrite concat_app. split; [reflexivity|]. split; [exact Hi|].
  rewrite (frames_loop_enough _ _ _ _ _ _ _ Hz (0 :: z)); [reflexivity|cbn [length]; lia].
Qed.

(* bytes that are not a stream of frames, behind complete frames, make the whole input fail *)
Theorem R_trailing_rejected cfg d s g o i c e :
  R cfg d s = Ok (o, i) -> R cfg d g = Err c e -> exists c' e', R cfg d (s ++ g) = Err c' e'.
Proof.
  intros Hs Hg. destruct (R cfg d (s ++ g)) as [[out items]|c' e'] eqn:E; [|eauto].
  apply R_prefix in E. rewrite Hs in E. destruct E as (o3 & i3 & _ & _ & E). rewrite Hg in E. discriminate.
Qed.

(* a zstd frame is never taken for a skippable one, nor is any prefix of it *)
Lemma decode_frame_Ok_skip_test cfg d f out t rest : decode_frame cfg d f = Ok (out, t, rest) -> skip_test cfg f = None.
Proof.
  Local Transparent decode_frame.
  intros H. unfold skip_test. destruct (c_magicless cfg) eqn:Hm; [reflexivity|].
  unfold decode_frame, parse_fheader in H. rewrite Hm in H.
  inv_bind_as H as [fh r0] Hh. inv_bind_as Hh as m Hmm. inv_bind_as Hmm as [mv mr] Hr. apply of_opt_Ok in Hr. rewrite Hr.
  inv_bind_as Hmm as [] Hg. apply guard_Ok in Hg. cbn [fst] in Hg. apply N.eqb_eq in Hg. subst mv. reflexivity.
  Local Opaque decode_frame.
Qed.

Theorem R_last_frame_truncated cfg d s o i f out t :
  R cfg d s = Ok (o, i) -> decode_frame cfg d f = Ok (out, t, []) ->
  forall k, (0 < k < length f)%nat -> exists c e, R cfg d (s ++ firstn k f) = Err c e.
Proof.
  intros Hs Hf k Hk.
  destruct (R cfg d (s ++ firstn k f)) as [[o' i']|c e] eqn:E; [|eauto]. exfalso.
  apply R_prefix in E. rewrite Hs in E. destruct E as (o3 & i3 & _ & _ & E).
  (* R accepts the non-empty proper prefix firstn k f : its first item is a zstd frame decoded from a proper prefix of f *)
  pose proof (decode_frame_Ok_skip_test _ _ _ _ _ _ Hf) as Hsk.
  rewrite <- (firstn_skipn k f) in Hsk. apply skip_test_prefix_None in Hsk.
  destruct (proper_prefix_rejected _ _ _ _ _ Hf k (proj2 Hk)) as (c & e & Hd).
  rewrite R_unfold in E.
  destruct (firstn k f) as [|b0 p] eqn:Ep.
  - assert (L : length (firstn k f) = 0%nat) by (rewrite Ep; reflexivity). rewrite firstn_length in L. lia.
  - rewrite frames_loop_step, Hsk, Hd in E. cbn [bind] in E. discriminate.
Qed.
