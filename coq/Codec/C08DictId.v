(* C08, round 2 - "frames record the dictionary's ID unless told not to", over every history of dictionary-related calls on one
   compression context.  The compression side keeps the dictionary ID in two places: the digested dictionary (cdict->dictID,
   written by ZSTD_initCDict_internal from the value ZSTD_loadZstdDictionary returns) and the frame header writer
   (ZSTD_writeFrameHeader: dictIDSizeCode = noDictIDFlag ? 0 : ...).  A dictionary loaded with ZSTD_CCtx_loadDictionary is digested
   ONCE, by the first frame that uses it (ZSTD_initLocalDict), with the parameters of that moment; ZSTD_createCDict_advanced2
   digests with the caller's ZSTD_CCtx_params.  [digest_id true] is the code since fix 2f41a3c (the loader returns the stored ID),
   [digest_id false] the code before (0 when noDictIDFlag was set at digestion time). *)
From Coq Require Import NArith List Bool Lia.
Import ListNotations.
Local Open Scope N_scope.

Inductive op :=
| SetIdFlag (b : bool)                  (* ZSTD_CCtx_setParameter(ZSTD_c_dictIDFlag, b) between frames *)
| Load (id : N)                         (* ZSTD_CCtx_loadDictionary[_advanced] of a dictionary whose ID is id (0 : raw content) *)
| RefCDict (flagThen : bool) (id : N)   (* ZSTD_CCtx_refCDict of a CDict digested (createCDict / _advanced2) under dictIDFlag = flagThen *)
| RefPrefix (id : N)                    (* ZSTD_CCtx_refPrefix[_advanced] : serves one frame *)
| Unload                                (* ZSTD_CCtx_loadDictionary(NULL, 0) / ZSTD_CCtx_refCDict(NULL) *)
| Compress.                             (* one complete frame *)

Record cctx := { idFlag : bool;             (* requestedParams.fParams.noDictIDFlag == 0 *)
                 pending : option N;        (* localDict.dict set, localDict.cdict not built yet : ID of the loaded bytes *)
                 digested : option (N * N); (* cctx->cdict : (cdict->dictID as stored, ID of the dictionary it was made from) *)
                 prefix : option N }.       (* cctx->prefixDict *)

Definition digest_id (fixed : bool) (flagThen : bool) (id : N) : N := if fixed then id else if flagThen then id else 0.
(* ZSTD_writeFrameHeader *)
Definition header_id (flagNow : bool) (ctxId : N) : N := if flagNow then ctxId else 0.

Definition init : cctx := {| idFlag := true; pending := None; digested := None; prefix := None |}.

(* one frame: what the header carries, and (for the statement) the flag at that time and the ID of the dictionary actually used *)
Record emitted := { e_header : N; e_flag : bool; e_used : N }.

Definition step (fixed : bool) (c : cctx) (o : op) : cctx * list emitted :=
  match o with
  | SetIdFlag b => ({| idFlag := b; pending := pending c; digested := digested c; prefix := prefix c |}, [])
  | Load id => ({| idFlag := idFlag c; pending := Some id; digested := None; prefix := None |}, [])          (* ZSTD_clearAllDicts first *)
  | RefCDict f id => ({| idFlag := idFlag c; pending := None; digested := Some (digest_id fixed f id, id); prefix := None |}, [])
  | RefPrefix id => ({| idFlag := idFlag c; pending := None; digested := None; prefix := Some id |}, [])
  | Unload => ({| idFlag := idFlag c; pending := None; digested := None; prefix := None |}, [])
  | Compress =>
      match prefix c with
      | Some id =>    (* loaded for this frame with the parameters of this frame ; single use *)
          ({| idFlag := idFlag c; pending := pending c; digested := digested c; prefix := None |},
           [{| e_header := header_id (idFlag c) (digest_id fixed (idFlag c) id); e_flag := idFlag c; e_used := id |}])
      | None =>
          let dg := match digested c, pending c with
                    | Some d, _ => Some d
                    | None, Some id => Some (digest_id fixed (idFlag c) id, id)     (* ZSTD_initLocalDict, kept for the later frames *)
                    | None, None => None
                    end in
          ({| idFlag := idFlag c; pending := pending c; digested := dg; prefix := None |},
           [match dg with
            | Some (stored, id) => {| e_header := header_id (idFlag c) stored; e_flag := idFlag c; e_used := id |}
            | None => {| e_header := 0; e_flag := idFlag c; e_used := 0 |}
            end])
      end
  end.

Fixpoint run (fixed : bool) (c : cctx) (l : list op) : list emitted :=
  match l with
  | [] => []
  | o :: t => let '(c', out) := step fixed c o in out ++ run fixed c' t
  end.

Definition truthful (e : emitted) : Prop := e_header e = if e_flag e then e_used e else 0.

Definition inv (c : cctx) : Prop := match digested c with Some (stored, id) => stored = id | None => True end.

Lemma step_inv c o : inv c -> inv (fst (step true c o)) /\ Forall truthful (snd (step true c o)).
Proof.
  unfold inv. intros I. destruct o; simpl.
  - split; [exact I|constructor].
  - split; [exact Logic.I|constructor].
  - split; [reflexivity|constructor].
  - split; [exact Logic.I|constructor].
  - split; [exact Logic.I|constructor].
  - destruct (prefix c) as [id|]; simpl.
    + split; [exact I|]. constructor; [|constructor]. unfold truthful, header_id, digest_id. simpl. reflexivity.
    + destruct (digested c) as [[stored id]|]; simpl.
      * split; [exact I|]. constructor; [|constructor]. unfold truthful, header_id. simpl. subst. reflexivity.
      * destruct (pending c) as [id|]; simpl.
        -- split; [reflexivity|]. constructor; [|constructor]. unfold truthful, header_id, digest_id. simpl. reflexivity.
        -- split; [exact Logic.I|]. constructor; [|constructor]. unfold truthful. simpl. destruct (idFlag c); reflexivity.
Qed.

(* every history of calls: each frame's header carries the ID of the dictionary the frame was compressed with, or 0 when the
   dictIDFlag in force for THAT frame is 0 - whatever the flag was when the dictionary was digested *)
Theorem dictid_recorded_all_histories : forall (l : list op) (c : cctx), inv c -> Forall truthful (run true c l).
Proof.
  induction l as [|o t IH]; intros c I; simpl; [constructor|].
  destruct (step true c o) as [c' out] eqn:E. pose proof (step_inv c o I) as [I' T]. rewrite E in I', T. simpl in I', T.
  apply Forall_app. split; [exact T|apply IH, I'].
Qed.

Corollary dictid_recorded_from_fresh_context : forall l, Forall truthful (run true init l).
Proof. intros. apply dictid_recorded_all_histories. exact Logic.I. Qed.

(* the history of the finding, before fix 2f41a3c: flag off, load dictionary 5, one frame, flag on, second frame - the second
   header carries no ID although the flag asks for it and dictionary 5 was used *)
Theorem dictid_recorded_refuted_before_fix :
  run false init [SetIdFlag false; Load 5; Compress; SetIdFlag true; Compress] =
    [{| e_header := 0; e_flag := false; e_used := 5 |}; {| e_header := 0; e_flag := true; e_used := 5 |}] /\
  run true init [SetIdFlag false; Load 5; Compress; SetIdFlag true; Compress] =
    [{| e_header := 0; e_flag := false; e_used := 5 |}; {| e_header := 5; e_flag := true; e_used := 5 |}] /\
  (* the same through a CDict digested by ZSTD_createCDict_advanced2 with dictIDFlag = 0 in its parameters *)
  run false init [RefCDict false 5; Compress] = [{| e_header := 0; e_flag := true; e_used := 5 |}].
Proof. repeat split; reflexivity. Qed.
