(* C06 - header-level model of the frame inspectors of lib/decompress/zstd_decompress.c
     ZSTD_frameHeaderSize_internal, ZSTD_getFrameHeader (format ZSTD_f_zstd1), ZSTD_getcBlockSize,
     readSkippableFrameSize, ZSTD_findFrameSizeInfo (-> ZSTD_findFrameCompressedSize), ZSTD_decompressBound,
     ZSTD_getFrameContentSize, ZSTD_findDecompressedSize, ZSTD_decompressionMargin,
   of the in-place clamp of ZSTD_decompressFrame (oBlockEnd), and of a small serialiser of abstract frame layouts.
   Self-contained at frame-header / block-header level: block payloads are opaque bytes, what a block regenerates
   is an abstract number (the full reference decoder lives elsewhere).  Legacy (v0.1-v0.7) dispatch is not modelled.
   Model only: NO proofs in this file. *)
From Coq Require Import ZArith List Bool.
From ZV.Gen Require Gen_Tables.
Import ListNotations.
Local Open Scope Z_scope.

(* ---- constants (regenerated) ---- *)
Definition MAGIC : Z := Z.of_N Gen_Tables.c_ZSTD_MAGICNUMBER.
Definition SKIP_START : Z := Z.of_N Gen_Tables.c_ZSTD_MAGIC_SKIPPABLE_START.
Definition SKIP_MASK : Z := Z.of_N Gen_Tables.c_ZSTD_MAGIC_SKIPPABLE_MASK.
Definition SKIPHDR : Z := Z.of_N Gen_Tables.c_ZSTD_SKIPPABLEHEADERSIZE.
Definition FRAMEIDSIZE : Z := Z.of_N Gen_Tables.c_ZSTD_FRAMEIDSIZE.
Definition BHSZ : Z := Z.of_N Gen_Tables.c_ZSTD_blockHeaderSize.
Definition CKSZ : Z := Z.of_N Gen_Tables.c_ZSTD_FRAMECHECKSUMSIZE.
Definition WLOG_ABSMIN : Z := Z.of_N Gen_Tables.c_ZSTD_WINDOWLOG_ABSOLUTEMIN.
Definition WLOG_MAX : Z := Z.of_N Gen_Tables.c_ZSTD_WINDOWLOG_MAX.
Definition BSMAX : Z := Z.of_N Gen_Tables.c_ZSTD_BLOCKSIZE_MAX.
Definition CS_UNKNOWN : Z := Z.of_N Gen_Tables.c_ZSTD_CONTENTSIZE_UNKNOWN.
Definition CS_ERROR : Z := Z.of_N Gen_Tables.c_ZSTD_CONTENTSIZE_ERROR.
Definition MIN_INPUT : Z := Z.of_N Gen_Tables.c_ZSTD_FRAMEHEADERSIZE_PREFIX_zstd1.
Definition did_size (c : Z) : Z := Z.of_N (nth (Z.to_nat c) Gen_Tables.did_fieldSize 0%N).   (* ZSTD_did_fieldSize[] *)
Definition fcs_size (c : Z) : Z := Z.of_N (nth (Z.to_nat c) Gen_Tables.fcs_fieldSize 0%N).   (* ZSTD_fcs_fieldSize[] *)
Definition W64 : Z := 2 ^ 64.
Definition W32 : Z := 2 ^ 32.

(* ---- bytes ---- *)
(* length as a Z, tail recursive (the extracted model runs on inputs of several hundred KiB) *)
Fixpoint len_aux {A : Type} (l : list A) (acc : Z) : Z :=
  match l with [] => acc | _ :: t => len_aux t (acc + 1) end.
Definition len {A : Type} (l : list A) : Z := len_aux l 0.

Fixpoint le (l : list Z) : Z :=            (* MEM_readLE16/24/32/64 *)
  match l with [] => 0 | b :: t => b + 256 * le t end.

Fixpoint ser_le (k : nat) (v : Z) : list Z :=   (* MEM_writeLE.. of k bytes *)
  match k with O => [] | S k' => (v mod 256) :: ser_le k' (v / 256) end.

(* Some (l without its first k elements) when l has at least k elements (k <= 0: l itself); tail recursive *)
Fixpoint drop_exact (l : list Z) (k : Z) : option (list Z) :=
  match l with
  | [] => if k <=? 0 then Some [] else None
  | _ :: t => if k <=? 0 then Some l else drop_exact t (k - 1)
  end.

Definition is_skippable_magic (m : Z) : bool := Z.land m SKIP_MASK =? SKIP_START.

(* ---- ZSTD_frameHeaderSize_internal (zstd1) ---- *)
Definition frame_header_size (src : list Z) : option Z :=
  if len src <? MIN_INPUT then None
  else
    let fhd := nth (Z.to_nat (MIN_INPUT - 1)) src 0 in
    let dictID := fhd mod 4 in
    let single := (fhd / 32) mod 2 in
    let fcsId := fhd / 64 in
    Some (MIN_INPUT + (1 - single) + did_size dictID + fcs_size fcsId
          + (if (single =? 1) && (fcsId =? 0) then 1 else 0)).

(* ---- ZSTD_getFrameHeader_advanced(.., ZSTD_f_zstd1) ---- *)
Record zfh : Type := mk_zfh {
  fh_fcs : Z;          (* frameContentSize, CS_UNKNOWN when absent; skippable: size of the content *)
  fh_window : Z;
  fh_bsmax : Z;        (* blockSizeMax *)
  fh_skippable : bool; (* frameType == ZSTD_skippableFrame *)
  fh_hsize : Z;        (* headerSize *)
  fh_dictid : Z;
  fh_chk : bool }.

Inductive hres : Type := HOk (h : zfh) | HNeed (n : Z) | HErr.

(* the 4-byte buffer pre-filled with a magic number and overwritten with the bytes present *)
Definition overlay (src hbuf : list Z) : list Z :=
  let k := Nat.min 4 (length src) in firstn k src ++ skipn k hbuf.

Definition did_width_switch (c : Z) : nat :=       (* switch(dictIDSizeCode) *)
  if c =? 0 then 0%nat else if c =? 1 then 1%nat else if c =? 2 then 2%nat else 4%nat.

Definition get_frame_header (src : list Z) : hres :=
  let srcSize := len src in
  if srcSize <? MIN_INPUT then
    if (0 <? srcSize)
       && negb (le (overlay src (ser_le 4 MAGIC)) =? MAGIC)
       && negb (is_skippable_magic (le (overlay src (ser_le 4 SKIP_START))))
    then HErr else HNeed MIN_INPUT
  else
    let magic := le (firstn 4 src) in
    if negb (magic =? MAGIC) then
      if is_skippable_magic magic then
        if srcSize <? SKIPHDR then HNeed SKIPHDR
        else HOk (mk_zfh (le (firstn 4 (skipn (Z.to_nat FRAMEIDSIZE) src))) 0 0 true 0 0 false)
      else HErr
    else
      match frame_header_size src with
      | None => HErr
      | Some fhsize =>
        if srcSize <? fhsize then HNeed fhsize
        else
          let fhd := nth (Z.to_nat (MIN_INPUT - 1)) src 0 in
          let didc := fhd mod 4 in
          let chk := (fhd / 4) mod 2 in
          let single := (fhd / 32) mod 2 in
          let fcsID := fhd / 64 in
          if negb ((fhd / 8) mod 2 =? 0) then HErr       (* reserved bit *)
          else
            let pos0 := Z.to_nat MIN_INPUT in
            let wl := nth pos0 src 0 in
            let windowLog := wl / 8 + WLOG_ABSMIN in
            if (single =? 0) && (windowLog >? WLOG_MAX) then HErr
            else
              let win0 := if single =? 0 then 2 ^ windowLog + (2 ^ windowLog / 8) * (wl mod 8) else 0 in
              let pos1 := if single =? 0 then S pos0 else pos0 in
              let dw := did_width_switch didc in
              let dictID := le (firstn dw (skipn pos1 src)) in
              let pos2 := (pos1 + dw)%nat in
              let fcs :=
                if fcsID =? 0 then (if single =? 1 then nth pos2 src 0 else CS_UNKNOWN)
                else if fcsID =? 1 then le (firstn 2 (skipn pos2 src)) + 256
                else if fcsID =? 2 then le (firstn 4 (skipn pos2 src))
                else le (firstn 8 (skipn pos2 src)) in
              let window := if single =? 1 then fcs else win0 in
              HOk (mk_zfh fcs window (Z.min window BSMAX) false fhsize dictID (chk =? 1))
      end.

(* ---- ZSTD_getFrameContentSize (non-legacy) ---- *)
Definition get_frame_content_size (src : list Z) : Z :=
  match get_frame_header src with
  | HOk h => if fh_skippable h then 0 else fh_fcs h
  | _ => CS_ERROR
  end.

(* ---- ZSTD_getcBlockSize: (cBlockSize, blockType, lastBlock, origSize) ---- *)
Definition get_cblock_size (src : list Z) : option (Z * Z * bool * Z) :=
  match src with
  | b0 :: b1 :: b2 :: _ =>
      let h := b0 + 256 * b1 + 65536 * b2 in
      let cs := h / 8 in
      let bt := (h / 2) mod 4 in
      let last := h mod 2 =? 1 in
      if bt =? 1 then Some (1, bt, last, cs)          (* bt_rle *)
      else if bt =? 3 then None                       (* bt_reserved *)
      else Some (cs, bt, last, cs)
  | _ => None
  end.

(* ---- readSkippableFrameSize ---- *)
Definition read_skippable_frame_size (src : list Z) : option Z :=
  if len src <? SKIPHDR then None
  else
    let sz := le (firstn 4 (skipn (Z.to_nat FRAMEIDSIZE) src)) in
    if (sz + SKIPHDR) mod W32 <? sz then None        (* (U32)(sizeU32 + ZSTD_SKIPPABLEHEADERSIZE) < sizeU32 *)
    else if SKIPHDR + sz >? len src then None
    else Some (SKIPHDR + sz).

(* ---- ZSTD_findFrameSizeInfo (zstd1, non-legacy) ---- *)
Record fsi : Type := mk_fsi { fsi_csize : Z; fsi_bound : Z; fsi_nb : Z }.

(* the block loop: returns (what follows the last block, bytes consumed, number of blocks).
   Fuel is a list (only its length matters; callers pass the input itself: every block consumes >= 3 bytes). *)
Fixpoint walk_blocks (fuel : list Z) (src : list Z) (consumed nb : Z) : option (list Z * Z * Z) :=
  match fuel with
  | [] => None
  | _ :: f =>
    match get_cblock_size src with
    | None => None
    | Some (cs, _, last, _) =>
      match drop_exact src (BHSZ + cs) with      (* ZSTD_blockHeaderSize + cBlockSize > remainingSize *)
      | None => None
      | Some rest =>
          if last then Some (rest, consumed + BHSZ + cs, nb + 1)
          else walk_blocks f rest (consumed + BHSZ + cs) (nb + 1)
      end
    end
  end.

Definition find_frame_size_info (src : list Z) : option fsi :=
  if (SKIPHDR <=? len src) && is_skippable_magic (le (firstn 4 src)) then
    match read_skippable_frame_size src with
    | None => None
    | Some s => Some (mk_fsi s 0 0)
    end
  else
    match get_frame_header src with
    | HOk h =>
      match drop_exact src (fh_hsize h) with
      | None => None
      | Some body =>
        match walk_blocks (0 :: body) body (fh_hsize h) 0 with
        | None => None
        | Some (rest, consumed, nb) =>
            let bnd := if fh_fcs h =? CS_UNKNOWN then nb * fh_bsmax h else fh_fcs h in
            if fh_chk h then
              match drop_exact rest 4 with
              | None => None
              | Some _ => Some (mk_fsi (consumed + CKSZ) bnd nb)
              end
            else Some (mk_fsi consumed bnd nb)
        end
      end
    | _ => None
    end.

Definition find_frame_compressed_size (src : list Z) : option Z :=
  match find_frame_size_info src with Some i => Some (fsi_csize i) | None => None end.

(* ---- ZSTD_decompressBound ---- *)
Fixpoint decompress_bound_loop (fuel : list Z) (src : list Z) (acc : Z) : option Z :=
  match src with
  | [] => Some acc
  | _ :: _ =>
    match fuel with
    | [] => None
    | _ :: f =>
      match find_frame_size_info src with
      | None => None
      | Some i =>
        if fsi_bound i =? CS_ERROR then None
        else match drop_exact src (fsi_csize i) with
             | None => None
             | Some rest => decompress_bound_loop f rest ((acc + fsi_bound i) mod W64)
             end
      end
    end
  end.

Definition decompress_bound (src : list Z) : option Z := decompress_bound_loop src src 0.

(* ---- ZSTD_decompressionMargin ---- *)
Fixpoint decompression_margin_loop (fuel : list Z) (src : list Z) (margin maxbs : Z) : option Z :=
  match src with
  | [] => Some (margin + maxbs)
  | _ :: _ =>
    match fuel with
    | [] => None
    | _ :: f =>
      match get_frame_header src with
      | HErr => None
      | hr =>
        match find_frame_size_info src with
        | None => None
        | Some i =>
          if fsi_bound i =? CS_ERROR then None
          else match hr, drop_exact src (fsi_csize i) with
               | HOk h, Some rest =>
                   if fh_skippable h
                   then decompression_margin_loop f rest (margin + fsi_csize i) maxbs
                   else decompression_margin_loop f rest
                          (margin + fh_hsize h + (if fh_chk h then 4 else 0) + 3 * fsi_nb i)
                          (Z.max maxbs (fh_bsmax h))
               | _, _ => None
               end
        end
      end
    end
  end.

Definition decompression_margin (src : list Z) : option Z :=
  decompression_margin_loop src src 0 0.

(* ZSTD_DECOMPRESSION_MARGIN(originalSize, blockSize) *)
Definition DECOMPRESSION_MARGIN (originalSize blockSize : Z) : Z :=
  Z.of_N Gen_Tables.c_ZSTD_FRAMEHEADERSIZE_MAX + 4
  + (if originalSize =? 0 then 0 else 3 * ((originalSize + blockSize - 1) / blockSize))
  + blockSize.

(* ---- ZSTD_findDecompressedSize (non-legacy): a value, CS_UNKNOWN or CS_ERROR ---- *)
Fixpoint find_decompressed_size_loop (fuel : list Z) (src : list Z) (total : Z) : Z :=
  match fuel with
  | [] => CS_ERROR
  | _ :: f =>
    if len src <? MIN_INPUT then (match src with [] => total | _ => CS_ERROR end)
    else if is_skippable_magic (le (firstn 4 src)) then
      match read_skippable_frame_size src with
      | None => CS_ERROR
      | Some s => match drop_exact src s with
                  | None => CS_ERROR
                  | Some rest => find_decompressed_size_loop f rest total
                  end
      end
    else
      let fcs := get_frame_content_size src in
      if fcs >=? CS_ERROR then fcs
      else if total + fcs >=? W64 then CS_ERROR
      else match find_frame_compressed_size src with
           | None => CS_ERROR
           | Some s => match drop_exact src s with
                       | None => CS_ERROR
                       | Some rest => find_decompressed_size_loop f rest (total + fcs)
                       end
           end
  end.

Definition find_decompressed_size (src : list Z) : Z :=
  find_decompressed_size_loop (0 :: src) src 0.

(* ======================================================================== *)
(* Abstract frame layouts and their serialisation                            *)
(* ======================================================================== *)
Inductive btype : Type := BRaw | BRle | BCmp.
Definition bt_code (t : btype) : Z := match t with BRaw => 0 | BRle => 1 | BCmp => 2 end.

Record blk : Type := mk_blk {
  b_type : btype;
  b_payload : list Z;   (* raw: the content; rle: the byte; compressed: opaque *)
  b_regen : Z }.        (* bytes the block regenerates *)

Record fhdr : Type := mk_fhdr {
  h_single : bool;      (* Single_Segment_flag *)
  h_wexp : Z; h_wmant : Z;   (* window descriptor: exponent, mantissa (ignored when single) *)
  h_didc : Z; h_did : Z;     (* Dictionary_ID_flag 0..3 and value *)
  h_fcsc : Z; h_fcs : Z;     (* Frame_Content_Size_flag 0..3 and value (meaningful when has_fcs) *)
  h_chk : bool }.

Inductive frame : Type :=
| ZFrame (h : fhdr) (blocks : list blk) (cksum : list Z)
| SFrame (variant : Z) (payload : list Z).

Definition b2z (b : bool) : Z := if b then 1 else 0.
Definition has_fcs (h : fhdr) : bool := h_single h || negb (h_fcsc h =? 0).
Definition did_width (c : Z) : nat := if c =? 0 then 0%nat else if c =? 1 then 1%nat else if c =? 2 then 2%nat else 4%nat.

Definition ser_fcs (h : fhdr) : list Z :=
  if h_fcsc h =? 0 then (if h_single h then [h_fcs h] else [])
  else if h_fcsc h =? 1 then ser_le 2 (h_fcs h - 256)
  else if h_fcsc h =? 2 then ser_le 4 (h_fcs h)
  else ser_le 8 (h_fcs h).

Definition fhd_byte (h : fhdr) : Z := h_didc h + 4 * b2z (h_chk h) + 32 * b2z (h_single h) + 64 * h_fcsc h.

Definition ser_header (h : fhdr) : list Z :=
  ser_le 4 MAGIC ++ [fhd_byte h]
  ++ (if h_single h then [] else [8 * h_wexp h + h_wmant h])
  ++ ser_le (did_width (h_didc h)) (h_did h)
  ++ ser_fcs h.

Definition blk_sizefield (b : blk) : Z := match b_type b with BRle => b_regen b | _ => len (b_payload b) end.

Definition ser_block (last : bool) (b : blk) : list Z :=
  ser_le 3 (b2z last + 2 * bt_code (b_type b) + 8 * blk_sizefield b) ++ b_payload b.

Fixpoint ser_blocks (bl : list blk) : list Z :=
  match bl with
  | [] => []
  | [b] => ser_block true b
  | b :: t => ser_block false b ++ ser_blocks t
  end.

Definition ser_frame (f : frame) : list Z :=
  match f with
  | ZFrame h bl ck => ser_header h ++ ser_blocks bl ++ (if h_chk h then ck else [])
  | SFrame v p => ser_le 4 (SKIP_START + v) ++ ser_le 4 (len p) ++ p
  end.

Fixpoint ser_frames (fl : list frame) : list Z :=
  match fl with [] => [] | f :: t => ser_frame f ++ ser_frames t end.

(* layout-level quantities *)
Definition window_of (h : fhdr) : Z :=
  if h_single h then h_fcs h
  else 2 ^ (h_wexp h + WLOG_ABSMIN) + (2 ^ (h_wexp h + WLOG_ABSMIN) / 8) * h_wmant h.
Definition bsmax_of (h : fhdr) : Z := Z.min (window_of h) BSMAX.
Definition hsize_of (h : fhdr) : Z := len (ser_header h).
Definition fcs_of (h : fhdr) : Z := if has_fcs h then h_fcs h else CS_UNKNOWN.

Fixpoint regen_blocks (bl : list blk) : Z := match bl with [] => 0 | b :: t => b_regen b + regen_blocks t end.
Definition regen_frame (f : frame) : Z := match f with ZFrame _ bl _ => regen_blocks bl | SFrame _ _ => 0 end.
Fixpoint regen_frames (fl : list frame) : Z := match fl with [] => 0 | f :: t => regen_frame f + regen_frames t end.

Definition nb_of (f : frame) : Z := match f with ZFrame _ bl _ => len bl | SFrame _ _ => 0 end.

Definition bound_of (f : frame) : Z :=
  match f with
  | ZFrame h bl _ => if has_fcs h then h_fcs h else len bl * bsmax_of h
  | SFrame _ _ => 0
  end.
Fixpoint bound_frames (fl : list frame) : Z := match fl with [] => 0 | f :: t => bound_of f + bound_frames t end.

(* the margin formula, layout level *)
Definition overhead_of (f : frame) : Z :=
  match f with
  | ZFrame h bl _ => hsize_of h + (if h_chk h then 4 else 0) + 3 * len bl
  | SFrame _ p => SKIPHDR + len p
  end.
Fixpoint overhead_frames (fl : list frame) : Z := match fl with [] => 0 | f :: t => overhead_of f + overhead_frames t end.
Fixpoint maxbs_frames (fl : list frame) : Z :=
  match fl with
  | [] => 0
  | ZFrame h _ _ :: t => Z.max (bsmax_of h) (maxbs_frames t)
  | SFrame _ _ :: t => maxbs_frames t
  end.
Definition margin_of (fl : list frame) : Z := overhead_frames fl + maxbs_frames fl.

(* ---- well-formed layouts (what a valid frame looks like at this level) ---- *)
Definition wf_hdr (h : fhdr) : Prop :=
  0 <= h_didc h <= 3 /\ 0 <= h_did h < 256 ^ Z.of_nat (did_width (h_didc h)) /\
  0 <= h_fcsc h <= 3 /\
  (h_single h = false -> 0 <= h_wexp h /\ h_wexp h + WLOG_ABSMIN <= WLOG_MAX /\ 0 <= h_wmant h <= 7) /\
  (has_fcs h = true ->
     (h_fcsc h = 0 -> 0 <= h_fcs h < 256) /\
     (h_fcsc h = 1 -> 256 <= h_fcs h < 256 + 65536) /\
     (h_fcsc h = 2 -> 0 <= h_fcs h < W32) /\
     (h_fcsc h = 3 -> 0 <= h_fcs h < CS_ERROR)).

Definition wf_blk (bsmax : Z) (b : blk) : Prop :=
  0 <= b_regen b <= bsmax /\ blk_sizefield b < 2 ^ 21 /\
  match b_type b with
  | BRaw => b_regen b = len (b_payload b)
  | BRle => length (b_payload b) = 1%nat
  | BCmp => True
  end.

Definition wf_frame (f : frame) : Prop :=
  match f with
  | ZFrame h bl ck =>
      wf_hdr h /\ bl <> [] /\ Forall (wf_blk (bsmax_of h)) bl /\
      (h_chk h = true -> length ck = 4%nat) /\
      (has_fcs h = true -> h_fcs h = regen_blocks bl)
  | SFrame v p => 0 <= v <= 15 /\ len p + SKIPHDR < W32
  end.

(* blocks that do not expand (what libzstd's compressor emits: it falls back to raw) *)
Definition non_expanding_blk (b : blk) : Prop := len (b_payload b) <= b_regen b.
Definition non_expanding (f : frame) : Prop :=
  match f with ZFrame _ bl _ => Forall non_expanding_blk bl | SFrame _ _ => True end.

(* ---- in-place decoding (ZSTD_decompressFrame's oBlockEnd clamp), positions only ----
   op: write cursor, ip: read cursor, oend: end of the destination.  A block may only be produced if it neither
   exceeds the destination nor overwrites input that has not been consumed yet. *)
Fixpoint inplace_blocks (bl : list blk) (op ip oend : Z) : option (Z * Z) :=
  match bl with
  | [] => Some (op, ip)
  | b :: t =>
    let ip1 := ip + BHSZ in
    let oBlockEnd := if (op <=? ip1) && (ip1 <? oend) then ip1 else oend in
    let ok := match b_type b with
              | BRaw => (b_regen b <=? oend - op) && (op <=? ip1)   (* memmove: safe when dst <= src *)
              | _ => b_regen b <=? oBlockEnd - op
              end in
    if ok then inplace_blocks t (op + b_regen b) (ip1 + len (b_payload b)) oend else None
  end.

Fixpoint inplace_frames (fl : list frame) (op ip oend : Z) : option (Z * Z) :=
  match fl with
  | [] => Some (op, ip)
  | ZFrame h bl ck :: t =>
      match inplace_blocks bl op (ip + hsize_of h) oend with
      | None => None
      | Some (op', ip') => inplace_frames t op' (ip' + (if h_chk h then 4 else 0)) oend
      end
  | SFrame v p :: t => inplace_frames t op (ip + SKIPHDR + len p) oend
  end.

(* the layout of the documentation: output buffer of bufSize bytes, input at its end *)
Definition inplace_decode (fl : list frame) (bufSize : Z) : option (Z * Z) :=
  inplace_frames fl 0 (bufSize - len (ser_frames fl)) bufSize.

(* ======================================================================== *)
(* Skippable frames: writer and reader with their capacity checks            *)
(* ======================================================================== *)
(* ZSTD_writeSkippableFrame(dst, dstCapacity, src, srcSize, magicVariant) (lib/compress/zstd_compress.c) *)
Definition write_skippable_frame (cap srcSize variant : Z) : option Z :=
  if cap <? srcSize + SKIPHDR then None
  else if srcSize >? W32 - 1 then None
  else if variant >? 15 then None
  else Some (srcSize + SKIPHDR).

(* ZSTD_readSkippableFrame(dst, dstCapacity, &magicVariant, src, srcSize): (bytes written, variant) *)
Definition read_skippable_frame (cap : Z) (src : list Z) : option (Z * Z) :=
  if len src <? SKIPHDR then None
  else
    let magic := le (firstn 4 src) in
    if negb (is_skippable_magic magic) then None
    else match read_skippable_frame_size src with
         | None => None
         | Some s => if s - SKIPHDR >? cap then None else Some (s - SKIPHDR, magic - SKIP_START)
         end.
