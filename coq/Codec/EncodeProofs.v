(* Round trip of the serialiser side A through the reference decoder R: frame header, block framing,
   raw / RLE blocks, epilogue - for every content, every parameter vector, every trailing input. *)
From Coq Require Import NArith ZArith List Bool Lia.
From ZV.Codec Require Import Bytes ListLemmas XXH64 Fse Huf Block Frame LzProofs FrameProofs LzContent.
From ZV.Codec Require Import Encode.
Import ListNotations.
Local Open Scope N_scope.
Ltac Zify.zify_post_hook ::= Z.div_mod_to_equations.

(* ---------- little-endian fields ---------- *)
Lemma write_le_length k v : length (write_le k v) = k.
Proof. revert v; induction k as [|k IH]; intros v; cbn [write_le length]; [reflexivity|]. rewrite IH. reflexivity. Qed.

Lemma le_val_write_le k : forall v, le_val (write_le k v) = v mod 2 ^ (8 * N.of_nat k).
Proof.
  induction k as [|k IH]; intros v; cbn [write_le le_val].
  - change (8 * N.of_nat 0) with 0. change (2 ^ 0) with 1. rewrite N.mod_1_r. reflexivity.
  - rewrite IH. replace (8 * N.of_nat (S k)) with (8 + 8 * N.of_nat k) by lia.
    rewrite N.pow_add_r. change (2 ^ 8) with 256.
    set (m := 2 ^ (8 * N.of_nat k)). assert (Hm : 0 < m) by (apply N.neq_0_lt_0, N.pow_nonzero; discriminate).
    rewrite (N.mod_mul_r v 256 m) by lia. reflexivity.
Qed.

Lemma read_le_write_le k v rest : v < 2 ^ (8 * N.of_nat k) -> read_le k (write_le k v ++ rest) = Some (v, rest).
Proof.
  intros Hv. unfold read_le. rewrite splitn_spec, app_length, write_le_length.
  destruct (Nat.leb_spec k (k + length rest)) as [_|H]; [|lia].
  rewrite firstn_app, skipn_app, write_le_length, Nat.sub_diag. cbn [firstn skipn].
  rewrite app_nil_r, firstn_all2 by (rewrite write_le_length; lia).
  rewrite skipn_all2 by (rewrite write_le_length; lia). cbn [app].
  rewrite le_val_write_le, N.mod_small by exact Hv. reflexivity.
Qed.

Lemma read_le_0 rest : read_le 0 rest = Some (0, rest).
Proof. reflexivity. Qed.

(* ---------- frame header ---------- *)
Lemma fhd_fields d c s f :
  d < 4 -> f < 4 ->
  let fhd := d + 4 * b2n c + 32 * b2n s + 64 * f in
  N.shiftr fhd 6 = f /\ N.testbit fhd 5 = s /\ N.testbit fhd 2 = c /\ N.testbit fhd 3 = false /\ N.land fhd 3 = d.
Proof.
  intros Hd Hf.
  assert (D : d = 0 \/ d = 1 \/ d = 2 \/ d = 3) by lia.
  assert (F : f = 0 \/ f = 1 \/ f = 2 \/ f = 3) by lia.
  destruct D as [->|[->|[->| ->]]]; destruct F as [->|[->|[->| ->]]]; destruct c, s; vm_compute; repeat split.
Qed.

Definition fh_expected (p : fparams) (pledged dictID : N) (fh : fheader) : Prop :=
  fh_window fh = (if fh_single_segment p pledged then pledged else pow2 (fp_windowLog p)) /\
  fh_single fh = fh_single_segment p pledged /\
  fh_checksum fh = fp_checksum p /\
  fh_dictid fh = (if fp_noDictID p then 0 else dictID) /\
  fh_fcs fh = (if fp_contentSize p then Some pledged else None) /\
  fh_size fh = lenN (enc_fheader p pledged dictID).

Lemma pow2_pow n : pow2 n = 2 ^ n.
Proof. unfold pow2. rewrite N.shiftl_1_l. reflexivity. Qed.

Definition params_ok (p : fparams) (pledged dictID : N) : Prop :=
  10 <= fp_windowLog p <= 31 /\ dictID < 2 ^ 32 /\ (fp_contentSize p = true -> pledged < 2 ^ 64).

Lemma enc_fheader_len p pledged dictID :
  lenN (enc_fheader p pledged dictID) =
  (if fp_magicless p then 0 else 4) + 1 + (if fh_single_segment p pledged then 0 else 1)
  + (let d := fh_did_code p dictID in if d =? 0 then 0 else if d =? 1 then 1 else if d =? 2 then 2 else 4)
  + (let f := fh_fcs_code p pledged in if f =? 0 then if fh_single_segment p pledged then 1 else 0 else if f =? 1 then 2 else if f =? 2 then 4 else 8).
Proof.
  unfold enc_fheader. rewrite !lenN_app. cbv zeta.
  destruct (fp_magicless p), (fh_single_segment p pledged), (fh_did_code p dictID =? 0), (fh_did_code p dictID =? 1),
    (fh_did_code p dictID =? 2), (fh_fcs_code p pledged =? 0), (fh_fcs_code p pledged =? 1), (fh_fcs_code p pledged =? 2); reflexivity.
Qed.

Lemma parse_enc_fheader p pledged dictID rest :
  params_ok p pledged dictID ->
  exists fh, parse_fheader (fp_magicless p) (enc_fheader p pledged dictID ++ rest) = Ok (fh, rest) /\ fh_expected p pledged dictID fh.
Proof.
  intros ((Hw1 & Hw2) & Hd & Hp).
  unfold enc_fheader, parse_fheader.
  set (dcode := fh_did_code p dictID). set (single := fh_single_segment p pledged). set (fcs := fh_fcs_code p pledged).
  assert (Hdc : dcode < 4).
  { unfold dcode, fh_did_code. destruct (fp_noDictID p); [lia|].
    destruct (0 <? dictID), (256 <=? dictID), (65536 <=? dictID); cbn; lia. }
  assert (Hfc : fcs < 4).
  { unfold fcs, fh_fcs_code. destruct (fp_contentSize p); [|lia].
    destruct (256 <=? pledged), (65792 <=? pledged), (4294967295 <=? pledged); cbn; lia. }
  destruct (fhd_fields dcode (fp_checksum p) single fcs Hdc Hfc) as (F6 & F5 & F2 & F3 & F0).
  set (fhd := dcode + 4 * b2n (fp_checksum p) + 32 * b2n single + 64 * fcs) in *.
  (* magic *)
  set (tail := [fhd] ++ (if single then [] else [8 * (fp_windowLog p - 10)]) ++ (if dcode =? 0 then [] else if dcode =? 1 then write_le 1 dictID else if dcode =? 2 then write_le 2 dictID else write_le 4 dictID) ++ (if fcs =? 0 then if single then write_le 1 pledged else [] else if fcs =? 1 then write_le 2 (pledged - 256) else if fcs =? 2 then write_le 4 pledged else write_le 8 pledged)).
  match goal with |- context [bind ?X _] => assert (Em : X = Ok (tail ++ rest)) end.
  { destruct (fp_magicless p); [reflexivity|].
    rewrite <- app_assoc. rewrite read_le_write_le by (vm_compute; reflexivity). cbn [of_opt bind fst snd].
    rewrite N.eqb_refl. reflexivity. }
  rewrite Em. cbn [bind]. clear Em.
  unfold tail at 1. cbn [app].
  rewrite F6, F5, F2, F3, F0. cbn [negb guard bind].
  (* window descriptor *)
  set (dbytes := if dcode =? 0 then [] else if dcode =? 1 then write_le 1 dictID else if dcode =? 2 then write_le 2 dictID else write_le 4 dictID).
  set (fbytes := if fcs =? 0 then if single then write_le 1 pledged else [] else if fcs =? 1 then write_le 2 (pledged - 256) else if fcs =? 2 then write_le 4 pledged else write_le 8 pledged).
  match goal with |- context [bind ?X _] =>
    assert (Ew : X = Ok ((if single then @None (N * N) else Some (fp_windowLog p, pow2 (fp_windowLog p))), dbytes ++ fbytes ++ rest)) end.
  { destruct single; cbn [app]; [rewrite <- app_assoc; reflexivity|].
    rewrite <- app_assoc.
    assert (E1 : N.shiftr (8 * (fp_windowLog p - 10)) 3 = fp_windowLog p - 10).
    { rewrite N.shiftr_div_pow2. change (2 ^ 3) with 8. rewrite N.mul_comm, N.div_mul by discriminate. reflexivity. }
    assert (E2 : N.land (8 * (fp_windowLog p - 10)) 7 = 0).
    { change 7 with (N.ones 3). rewrite N.land_ones. change (2 ^ 3) with 8. rewrite N.mul_comm, N.mod_mul by discriminate. reflexivity. }
    rewrite E1, E2. replace (10 + (fp_windowLog p - 10)) with (fp_windowLog p) by lia.
    rewrite N.mul_0_r, N.add_0_r. reflexivity. }
  rewrite Ew. cbn [bind]. clear Ew.
  (* dictID *)
  set (didsz := if dcode =? 0 then 0 else if dcode =? 1 then 1 else if dcode =? 2 then 2 else 4).
  set (did := if fp_noDictID p then 0 else dictID).
  assert (Ed : read_le (N.to_nat didsz) (dbytes ++ fbytes ++ rest) = Some (did, fbytes ++ rest)).
  { unfold didsz, dbytes, did, dcode, fh_did_code.
    destruct (fp_noDictID p); [reflexivity|].
    destruct (N.ltb_spec 0 dictID) as [H0|H0]; destruct (N.leb_spec 256 dictID) as [H1|H1];
      destruct (N.leb_spec 65536 dictID) as [H2|H2]; try lia; cbn [b2n N.add N.eqb Pos.eqb Pos.add Pos.succ].
    - change (N.to_nat 4) with 4%nat. apply read_le_write_le. exact Hd.
    - change (N.to_nat 2) with 2%nat. apply read_le_write_le. change (2 ^ (8 * N.of_nat 2)) with 65536. exact H2.
    - change (N.to_nat 1) with 1%nat. apply read_le_write_le. change (2 ^ (8 * N.of_nat 1)) with 256. exact H1.
    - assert (dictID = 0) by lia. subst dictID. reflexivity. }
  rewrite Ed. cbn [of_opt bind]. clear Ed.
  (* frame content size *)
  set (fcssz := if fcs =? 0 then if single then 1 else 0 else if fcs =? 1 then 2 else if fcs =? 2 then 4 else 8).
  assert (Ef : exists fv, read_le (N.to_nat fcssz) (fbytes ++ rest) = Some (fv, rest) /\
               (if fcssz =? 0 then None else Some (if fcssz =? 2 then fv + 256 else fv)) = (if fp_contentSize p then Some pledged else None) /\
               (single = true -> fp_contentSize p = true)).
  { unfold fcssz, fbytes, fcs, fh_fcs_code, single, fh_single_segment.
    destruct (fp_contentSize p) eqn:Ecs; cbn [andb].
    2:{ exists 0. cbn. repeat split; auto; discriminate. }
    destruct (N.leb_spec 256 pledged) as [H1|H1]; destruct (N.leb_spec 65792 pledged) as [H2|H2];
      destruct (N.leb_spec 4294967295 pledged) as [H3|H3]; try lia; cbn [b2n N.add N.eqb Pos.eqb Pos.add Pos.succ].
    - exists pledged. change (N.to_nat 8) with 8%nat. rewrite read_le_write_le by exact (Hp eq_refl). repeat split; auto.
    - exists pledged. change (N.to_nat 4) with 4%nat. rewrite read_le_write_le by (change (2 ^ (8 * N.of_nat 4)) with 4294967296; lia). repeat split; auto.
    - exists (pledged - 256). change (N.to_nat 2) with 2%nat. rewrite read_le_write_le by (change (2 ^ (8 * N.of_nat 2)) with 65536; lia).
      cbn [N.eqb Pos.eqb]. split; [reflexivity|]. split; [|auto]. f_equal. lia.
    - assert (Hs : (pledged <=? pow2 (fp_windowLog p)) = true).
      { apply N.leb_le. rewrite pow2_pow. assert (2 ^ 10 <= 2 ^ fp_windowLog p) by (apply N.pow_le_mono_r; lia). change (2 ^ 10) with 1024 in *. lia. }
      rewrite Hs. exists pledged. change (N.to_nat 1) with 1%nat. rewrite read_le_write_le by (change (2 ^ (8 * N.of_nat 1)) with 256; lia).
      repeat split; auto. }
  destruct Ef as (fv & Ef & Efcs & Hsingle).
  rewrite Ef. cbn [of_opt bind]. fold fcssz. rewrite Efcs.
  (* window *)
  assert (Ewin : exists win, (match (if single then None else Some (fp_windowLog p, pow2 (fp_windowLog p))) with
                  | Some (wlog, wsz) => check (wlog <=? 31) else Elimit @ 417; Ok wsz
                  | None => match (if fp_contentSize p then Some pledged else None) with Some v => Ok v | None => Err Eformat 418 end
                  end) = Ok win /\ win = (if single then pledged else pow2 (fp_windowLog p))).
  { destruct single.
    - rewrite (Hsingle eq_refl). eexists; split; reflexivity.
    - destruct (N.leb_spec (fp_windowLog p) 31) as [_|H]; [|lia]. eexists; split; reflexivity. }
  destruct Ewin as (win & Ewin & Hwin). rewrite Ewin. cbn [bind].
  eexists. split; [reflexivity|].
  unfold fh_expected; cbn [fh_window fh_single fh_checksum fh_dictid fh_fcs fh_size].
  split; [exact Hwin|]. split; [reflexivity|]. split; [reflexivity|]. split; [reflexivity|]. split; [reflexivity|].
  (* header size *)
  rewrite enc_fheader_len. reflexivity.
Qed.

(* ---------- block framing ---------- *)
Lemma bh_fields last btype size :
  btype < 4 ->
  let hv := b2n last + 2 * btype + 8 * size in
  N.testbit hv 0 = last /\ N.land (N.shiftr hv 1) 3 = btype /\ N.shiftr hv 3 = size.
Proof.
  intros Hb hv. split; [|split].
  - rewrite N.bit0_odd. unfold hv. replace (b2n last + 2 * btype + 8 * size) with (b2n last + 2 * (btype + 4 * size)) by lia.
    rewrite N.odd_add_mul_2. destruct last; reflexivity.
  - change 3 with (N.ones 2). rewrite N.land_ones, N.shiftr_div_pow2. change (2 ^ 1) with 2. change (2 ^ 2) with 4.
    assert (E : hv / 2 = btype + 4 * size) by (unfold hv; destruct last; cbn [b2n]; lia).
    rewrite E. clear E. rewrite (N.mul_comm 4 size), N.mod_add by discriminate. apply N.mod_small. exact Hb.
  - rewrite N.shiftr_div_pow2. change (2 ^ 3) with 8. unfold hv. destruct last; cbn [b2n]; lia.
Qed.

Lemma read_block_header last btype size rest :
  btype < 4 -> size < 2 ^ 21 ->
  read_le 3 (block_header last btype size ++ rest) = Some (b2n last + 2 * btype + 8 * size, rest).
Proof.
  intros Hb Hs. unfold block_header. apply read_le_write_le.
  change (2 ^ (8 * N.of_nat 3)) with 16777216. change (2 ^ 21) with 2097152 in Hs. destruct last; cbn [b2n]; lia.
Qed.

Lemma splitN_app {A} (a b : list A) : splitN (lenN a) (a ++ b) = Some (a, b).
Proof.
  rewrite splitN_spec, lenN_app. destruct (N.leb_spec (lenN a) (lenN a + lenN b)) as [_|H]; [|lia].
  rewrite lenN_length, Nat2N.id, firstn_app, skipn_app, Nat.sub_diag, firstn_all, skipn_all. cbn [firstn skipn].
  rewrite app_nil_r. reflexivity.
Qed.

Local Opaque decode_cblock push_fwd push_rev.

Definition mk_bt (btype : N) (last : bool) (csize rsize : N) : btrace :=
  {| bt_type := btype; bt_last := last; bt_csize := csize; bt_rsize := rsize; bt_litmode := 0; bt_litsize := 0;
     bt_seqmodes := 0; bt_seqs := []; bt_nbseq_bytes := 0; bt_lasttable := 0 |}.

Lemma blocks_loop_enc strict window blockMax : blockMax <= BLOCK_MAX ->
  forall bs fuel e x rest acc e' x',
  bs <> [] ->
  (length (enc_blocks bs ++ rest) < length fuel)%nat ->
  blocks_spec strict window blockMax e x bs = Ok (e', x') ->
  exists bts, blocks_loop fuel strict window blockMax e x (enc_blocks bs ++ rest) acc = Ok (x', rest, bts).
Proof.
  intros HbM. assert (HB : BLOCK_MAX < 2 ^ 21) by (vm_compute; reflexivity).
  induction bs as [|b t IH]; intros fuel e x rest acc e' x' Hne Hfuel Hspec; [congruence|].
  destruct fuel as [|f0 fuel]; [cbn in Hfuel; lia|].
  cbn [blocks_spec] in Hspec. inv_bind_as Hspec as [e1 x1] Hb. cbn [fst snd] in Hspec.
  (* one step on [enc_block last b ++ rest'] *)
  assert (Step : forall last rest',
    exists bt, (do h <- of_opt (read_le 3 (enc_block last b ++ rest')) Etrunc 421;
       let '(hv, r0) := h in
       do step <-
         (if N.land (N.shiftr hv 1) 3 =? 0 then
            check (N.shiftr hv 3 <=? blockMax) else Esafety @ 422;
            do sp <- of_opt (splitN (N.shiftr hv 3) r0) Etrunc 423;
            Ok (e, push_fwd x (fst sp) (N.shiftr hv 3), snd sp, mk_bt 0 (N.testbit hv 0) (N.shiftr hv 3) (N.shiftr hv 3))
          else if N.land (N.shiftr hv 1) 3 =? 1 then
            check (N.shiftr hv 3 <=? blockMax) else Esafety @ 424;
            match r0 with
            | [] => Err Etrunc 425
            | v :: t0 => Ok (e, push_rev x (repeatN v (N.shiftr hv 3) []) (N.shiftr hv 3), t0, mk_bt 1 (N.testbit hv 0) (N.shiftr hv 3) (N.shiftr hv 3))
            end
          else if N.land (N.shiftr hv 1) 3 =? 2 then
            check (N.shiftr hv 3 <=? blockMax) else Esafety @ 426;
            do sp <- of_opt (splitN (N.shiftr hv 3) r0) Etrunc 427;
            do r <- decode_cblock strict window blockMax e x (fst sp);
            let '(e', x', bt) := r in
            Ok (e', x', snd sp, {| bt_type := 2; bt_last := N.testbit hv 0; bt_csize := N.shiftr hv 3; bt_rsize := bt_rsize bt; bt_litmode := bt_litmode bt;
                                   bt_litsize := bt_litsize bt; bt_seqmodes := bt_seqmodes bt; bt_seqs := bt_seqs bt;
                                   bt_nbseq_bytes := bt_nbseq_bytes bt; bt_lasttable := bt_lasttable bt |})
          else Err Eformat 428);
       Ok (step, N.testbit hv 0)) = Ok ((e1, x1, rest', bt), last)).
  { intros last rest'. destruct b as [d|v n|pl rg]; cbn [enc_block block_spec] in *.
    - inv_bind_as Hb as [] Hg. apply guard_Ok in Hg. apply N.leb_le in Hg. injection Hb as <- <-.
      rewrite <- app_assoc, read_block_header by lia. cbn [of_opt bind].
      destruct (bh_fields last 0 (lenN d)) as (T0 & T1 & T2); [lia|]. rewrite T0, T1, T2. cbn [N.eqb].
      destruct (N.leb_spec (lenN d) blockMax) as [_|]; [|lia]. cbn [guard bind].
      rewrite splitN_app. cbn [of_opt bind fst snd]. eexists. reflexivity.
    - inv_bind_as Hb as [] Hg. apply guard_Ok in Hg. apply N.leb_le in Hg. injection Hb as <- <-.
      rewrite <- app_assoc, read_block_header by lia. cbn [of_opt bind].
      destruct (bh_fields last 1 n) as (T0 & T1 & T2); [lia|]. rewrite T0, T1, T2. cbn [N.eqb Pos.eqb].
      destruct (N.leb_spec n blockMax) as [_|]; [|lia]. cbn [guard bind app]. eexists. reflexivity.
    - inv_bind_as Hb as [] Hg. apply guard_Ok in Hg. apply N.leb_le in Hg.
      inv_bind_as Hb as [[e2 x2] bt2] Hc. cbn [fst snd] in Hb. injection Hb as <- <-.
      rewrite <- app_assoc, read_block_header by lia. cbn [of_opt bind].
      destruct (bh_fields last 2 (lenN pl)) as (T0 & T1 & T2); [lia|]. rewrite T0, T1, T2. cbn [N.eqb Pos.eqb].
      destruct (N.leb_spec (lenN pl) blockMax) as [_|]; [|lia]. cbn [guard bind].
      rewrite splitN_app. cbn [of_opt bind fst snd]. rewrite Hc. cbn [bind]. eexists. reflexivity. }
  destruct t as [|b2 t'].
  - (* last block *)
    cbn [blocks_spec] in Hspec. injection Hspec as <- <-.
    cbn [enc_blocks]. destruct (Step true rest) as (bt & HS).
    cbn [blocks_loop]. unfold mk_bt in HS.
    inv_bind_as HS as [hv r0] Hh. rewrite Hh. cbn [bind].
    inv_bind_as HS as st Hst. injection HS as -> Hl. rewrite Hst, Hl. cbn [bind]. eexists. reflexivity.
  - change (enc_blocks (b :: b2 :: t')) with (enc_block false b ++ enc_blocks (b2 :: t')) in *. rewrite <- app_assoc. destruct (Step false (enc_blocks (b2 :: t') ++ rest)) as (bt & HS).
    cbn [blocks_loop]. unfold mk_bt in HS.
    inv_bind_as HS as [hv r0] Hh. rewrite Hh. cbn [bind].
    inv_bind_as HS as st Hst. injection HS as -> Hl. rewrite Hst, Hl. cbn [bind].
    apply (IH fuel e1 x1 rest (bt :: acc) e' x'); [discriminate| |exact Hspec].
    rewrite <- app_assoc, app_length in Hfuel. cbn [length] in Hfuel.
    assert (3 <= length (enc_block false b))%nat.
    { destruct b; cbn [enc_block]; rewrite app_length; unfold block_header; rewrite write_le_length; lia. }
    lia.
Qed.

(* ---------- extension of the decoder state by a piece of content ---------- *)
Definition ext (x x' : xstate) (c : bytes) : Prop :=
  sinv x' /\ x_hist x' = rev c ++ x_hist x /\ x_pos x' = x_pos x + lenN c /\ x_avail x' = x_avail x + lenN c.

Lemma ext_refl x : sinv x -> ext x x [].
Proof. intros H. unfold ext. rewrite lenN_nil. cbn [rev app]. split; [exact H|]. split; [reflexivity|]. split; lia. Qed.

Lemma ext_trans x y z a b : ext x y a -> ext y z b -> ext x z (a ++ b).
Proof.
  intros (I1 & H1 & P1 & A1) (I2 & H2 & P2 & A2). unfold ext. rewrite rev_app_distr, lenN_app, <- app_assoc, <- H1.
  split; [exact I2|]. split; [exact H2|]. split; lia.
Qed.

Lemma push_fwd_ext x d : sinv x -> ext x (push_fwd x d (lenN d)) d.
Proof.
  intros Hs. destruct (push_fwd_inv x d (lenN d) (sinv_inv x Hs) eq_refl) as (_ & P & A & _).
  destruct (push_fwd_sinv x d (lenN d) Hs eq_refl) as (S1 & H1).
  unfold ext. split; [exact S1|]. split; [exact H1|split; assumption].
Qed.

Lemma rev_repeat_self {A} (v : A) n : rev (repeat v n) = repeat v n.
Proof.
  induction n as [|n IH]; [reflexivity|]. cbn [repeat rev]. rewrite IH. clear IH.
  induction n as [|n IH]; [reflexivity|]. cbn [repeat app]. rewrite IH. reflexivity.
Qed.

Lemma push_rev_ext x v n : sinv x -> ext x (push_rev x (repeatN v n []) n) (repeatN v n []).
Proof.
  intros Hs. assert (L : lenN (repeatN v n []) = n) by (rewrite lenN_repeatN, lenN_nil; lia).
  destruct (push_rev_inv x (repeatN v n []) n (sinv_inv x Hs) L) as (_ & P & A & _).
  destruct (push_rev_sinv x (repeatN v n []) n Hs L) as (S1 & H1).
  unfold ext. rewrite L. split; [exact S1|]. split; [|split; assumption].
  rewrite H1, repeatN_spec, app_nil_r, rev_repeat_self. reflexivity.
Qed.

Definition simple_block (b : eblock) : bool := match b with EBComp _ _ => false | _ => true end.
Definition block_fits (blockMax : N) (b : eblock) : Prop :=
  match b with EBRaw d => lenN d <= blockMax | EBRle _ n => n <= blockMax | EBComp pl _ => lenN pl <= blockMax end.

Lemma blocks_spec_simple strict window blockMax : forall bs e x,
  sinv x -> forallb simple_block bs = true -> Forall (block_fits blockMax) bs ->
  exists x', blocks_spec strict window blockMax e x bs = Ok (e, x') /\ ext x x' (blocks_content bs).
Proof.
  induction bs as [|b t IH]; intros e x Hi Hs Hf.
  - exists x. split; [reflexivity|]. apply ext_refl. exact Hi.
  - cbn [forallb] in Hs. apply andb_true_iff in Hs. destruct Hs as (Hb & Ht).
    inversion Hf as [|? ? Fb Ft]; subst.
    unfold blocks_content. cbn [map concat]. fold (blocks_content t).
    destruct b as [d|v n|pl rg]; cbn [simple_block] in Hb; [| |discriminate]; cbn [block_fits] in Fb; cbn [blocks_spec block_spec block_content].
    + destruct (N.leb_spec (lenN d) blockMax) as [_|]; [|lia]. cbn [guard bind fst snd].
      pose proof (push_fwd_ext x d Hi) as E1. destruct E1 as (I1 & R1).
      destruct (IH e (push_fwd x d (lenN d)) I1 Ht Ft) as (x' & Hx & E2).
      exists x'. split; [exact Hx|]. eapply ext_trans; [split; [exact I1|exact R1]|exact E2].
    + destruct (N.leb_spec n blockMax) as [_|]; [|lia]. cbn [guard bind fst snd].
      pose proof (push_rev_ext x v n Hi) as E1. destruct E1 as (I1 & R1).
      destruct (IH e (push_rev x (repeatN v n []) n) I1 Ht Ft) as (x' & Hx & E2).
      exists x'. split; [exact Hx|]. eapply ext_trans; [split; [exact I1|exact R1]|exact E2].
Qed.

(* ---------- whole frames ---------- *)
Definition dict_entropy (d : option dict) : entropy :=
  match d with Some dc => match d_entropy dc with Some e => e | None => no_entropy end | None => no_entropy end.
Definition dict_content (d : option dict) : bytes := match d with Some dc => d_content dc | None => [] end.
Definition x_init (d : option dict) : xstate :=
  {| x_hist := rev' (dict_content d); x_marks := []; x_avail := lenN (dict_content d); x_pos := 0; x_blk := 0 |}.
Definition dict_ok (d : option dict) (p : fparams) (dictID : N) : Prop :=
  match d with
  | None => True
  | Some dc => (if fp_noDictID p then 0 else dictID) = 0 \/ (if fp_noDictID p then 0 else dictID) = d_id dc
  end.
Definition frame_window (p : fparams) (n : N) : N := if fh_single_segment p n then n else pow2 (fp_windowLog p).

Lemma x_init_inv d : sinv (x_init d).
Proof. split; [|constructor]. unfold inv, x_init; cbn [x_hist x_marks x_avail x_pos]. rewrite rev'_rev, lenN_rev. repeat split; [lia|constructor]. Qed.

Lemma frame_output_ext d x' c : ext (x_init d) x' c -> frame_output x' = c /\ x_pos x' = lenN c.
Proof.
  intros (I & H & P & A). unfold x_init in *; cbn [x_hist x_pos x_avail] in *. split; [|lia].
  unfold frame_output. rewrite takeN_rev_spec, app_nil_r, H, P, N.add_0_l.
  rewrite <- (lenN_rev c), lenN_length, Nat2N.id, firstn_app, Nat.sub_diag, firstn_all. cbn [firstn]. rewrite app_nil_r, rev_involutive. reflexivity.
Qed.

Local Opaque blocks_loop xxh64 parse_fheader enc_fheader.

Theorem decode_enc_frame cfg d p dictID bs rest e' x' :
  params_ok p (lenN (blocks_content bs)) dictID ->
  bs <> [] ->
  c_magicless cfg = fp_magicless p ->
  frame_window p (lenN (blocks_content bs)) <= c_window_max cfg ->
  dict_ok d p dictID ->
  blocks_spec (c_strict_window cfg) (frame_window p (lenN (blocks_content bs)))
              (N.min (N.min (frame_window p (lenN (blocks_content bs))) BLOCK_MAX) (c_block_max cfg))
              (dict_entropy d) (x_init d) bs = Ok (e', x') ->
  ext (x_init d) x' (blocks_content bs) ->
  exists t, decode_frame cfg d (enc_frame p dictID bs ++ rest) = Ok (blocks_content bs, t, rest) /\
            fh_expected p (lenN (blocks_content bs)) dictID (ft_header t).
Proof.
  intros Hp Hne Hml Hwin Hd Hspec Hext.
  set (content := blocks_content bs) in *.
  unfold decode_frame, enc_frame. fold content. rewrite <- !app_assoc, Hml.
  destruct (parse_enc_fheader p (lenN content) dictID
              (enc_blocks bs ++ (if fp_checksum p then write_le 4 (N.land (xxh64 content 0) 4294967295) else []) ++ rest) Hp)
    as (fh & Hparse & Hexp). pose proof Hexp as (Ew & Es & Ec & Edid & Efcs & Esz).
  rewrite Hparse. cbn [bind]. fold (frame_window p (lenN content)) in Ew. rewrite Ew.
  destruct (N.leb_spec (frame_window p (lenN content)) (c_window_max cfg)) as [_|]; [|lia]. cbn [guard bind].
  (* dictionary *)
  match goal with |- context [bind ?X _] => assert (Edd : X = Ok (dict_entropy d, dict_content d)) end.
  { destruct d as [dc|]; [|reflexivity]. cbn [dict_ok] in Hd. rewrite Edid.
    assert (G : orb ((if fp_noDictID p then 0 else dictID) =? 0) ((if fp_noDictID p then 0 else dictID) =? d_id dc) = true).
    { apply orb_true_iff. destruct Hd as [H|H]; [left|right]; apply N.eqb_eq; exact H. }
    rewrite G. reflexivity. }
  rewrite Edd. cbn [bind]. clear Edd. fold (x_init d).
  (* blocks *)
  destruct (blocks_loop_enc (c_strict_window cfg) (frame_window p (lenN content))
              (N.min (N.min (frame_window p (lenN content)) BLOCK_MAX) (c_block_max cfg)) ltac:(lia)
              bs (0 :: enc_blocks bs ++ (if fp_checksum p then write_le 4 (N.land (xxh64 content 0) 4294967295) else []) ++ rest)
              (dict_entropy d) (x_init d)
              ((if fp_checksum p then write_le 4 (N.land (xxh64 content 0) 4294967295) else []) ++ rest) [] e' x' Hne ltac:(cbn [length]; lia) Hspec)
    as (bts & Hloop).
  rewrite Hloop. cbn [bind].
  destruct (frame_output_ext d x' content Hext) as (Hout & Hpos).
  rewrite Hout, Efcs, Ec.
  assert (G : (match (if fp_contentSize p then Some (lenN content) else None) with Some v => v =? x_pos x' | None => true end) = true).
  { destruct (fp_contentSize p); [|reflexivity]. apply N.eqb_eq. symmetry. exact Hpos. }
  rewrite G. cbn [guard bind]. clear G.
  destruct (fp_checksum p).
  - rewrite read_le_write_le.
    2:{ change 4294967295 with (N.ones 32). rewrite N.land_ones. apply N.mod_lt. discriminate. }
    cbn [of_opt bind fst snd]. rewrite N.eqb_refl, orb_true_r. cbn [guard bind]. eexists. split; [reflexivity|exact Hexp].
  - cbn [app bind]. eexists. split; [reflexivity|exact Hexp].
Qed.

(* every list of raw / RLE blocks: the frame decodes to the concatenated content, whatever follows it *)
Theorem decode_enc_frame_simple cfg d p dictID bs rest :
  params_ok p (lenN (blocks_content bs)) dictID ->
  bs <> [] -> forallb simple_block bs = true ->
  Forall (block_fits (N.min (N.min (frame_window p (lenN (blocks_content bs))) BLOCK_MAX) (c_block_max cfg))) bs ->
  c_magicless cfg = fp_magicless p ->
  frame_window p (lenN (blocks_content bs)) <= c_window_max cfg ->
  dict_ok d p dictID ->
  exists t, decode_frame cfg d (enc_frame p dictID bs ++ rest) = Ok (blocks_content bs, t, rest).
Proof.
  intros Hp Hne Hs Hf Hml Hw Hd.
  cut (exists t, decode_frame cfg d (enc_frame p dictID bs ++ rest) = Ok (blocks_content bs, t, rest) /\
                 fh_expected p (lenN (blocks_content bs)) dictID (ft_header t)); [intros (t & H & _); eauto|].
  destruct (blocks_spec_simple (c_strict_window cfg) (frame_window p (lenN (blocks_content bs)))
              (N.min (N.min (frame_window p (lenN (blocks_content bs))) BLOCK_MAX) (c_block_max cfg))
              bs (dict_entropy d) (x_init d) (x_init_inv d) Hs Hf) as (x' & Hspec & Hext).
  eapply decode_enc_frame; eauto.
Qed.

(* ---------- the store-only compressor ---------- *)
Lemma chunks_fuel_spec : forall fuel bsize src, 1 <= bsize -> (length src <= fuel)%nat ->
  concat (chunks_fuel fuel bsize src) = src /\
  Forall (fun c => lenN c <= bsize /\ lenN c <= lenN src) (chunks_fuel fuel bsize src) /\
  chunks_fuel fuel bsize src <> [].
Proof.
  induction fuel as [|f IH]; intros bsize src Hb Hf; cbn [chunks_fuel].
  - destruct src; [|cbn in Hf; lia]. cbn. repeat split; [|discriminate]. constructor; [|constructor]. rewrite lenN_nil. lia.
  - destruct (N.leb_spec (lenN src) bsize) as [H|H].
    + cbn [concat]. rewrite app_nil_r. repeat split; [|discriminate]. constructor; [lia|constructor].
    + assert (Hl : (length (skipN src bsize) <= f)%nat).
      { rewrite skipN_skipn, skipn_length. rewrite lenN_length in H. lia. }
      destruct (IH bsize (skipN src bsize) Hb Hl) as (C & F & _).
      cbn [concat]. rewrite C. split; [rewrite takeN_firstn, skipN_skipn; apply firstn_skipn|].
      split; [|discriminate]. constructor.
      * rewrite takeN_firstn, lenN_firstn_le by lia. lia.
      * eapply Forall_impl; [|exact F]. cbn beta. intros c (H1 & H2). split; [exact H1|].
        rewrite skipN_skipn, lenN_skipn in H2. lia.
Qed.

Lemma blocks_content_raw cs : blocks_content (map EBRaw cs) = concat cs.
Proof. unfold blocks_content. rewrite map_map. cbn [block_content]. rewrite map_id. reflexivity. Qed.

Theorem decode_enc_store cfg d p dictID bsize src rest :
  params_ok p (lenN src) dictID ->
  1 <= bsize -> bsize <= pow2 (fp_windowLog p) -> bsize <= BLOCK_MAX -> bsize <= c_block_max cfg ->
  c_magicless cfg = fp_magicless p ->
  frame_window p (lenN src) <= c_window_max cfg ->
  dict_ok d p dictID ->
  exists t, decode_frame cfg d (enc_store p dictID bsize src ++ rest) = Ok (src, t, rest).
Proof.
  intros Hp Hb1 Hb2 Hb3 Hb4 Hml Hw Hd. unfold enc_store, chunks.
  destruct (chunks_fuel_spec (length src) bsize src Hb1 (le_n _)) as (C & F & NE).
  set (cs := chunks_fuel (length src) bsize src) in *.
  assert (Ec : blocks_content (map EBRaw cs) = src) by (rewrite blocks_content_raw; exact C).
  clearbody cs. clear C. subst src.
  apply decode_enc_frame_simple; auto.
  - destruct cs; [congruence|discriminate].
  - clear. induction cs; [reflexivity|]. cbn [map forallb simple_block andb]. exact IHcs.
  - apply Forall_forall. intros b Hin. apply in_map_iff in Hin. destruct Hin as (c & <- & Hc).
    rewrite Forall_forall in F. destruct (F c Hc) as (F1 & F2). cbn [block_fits].
    unfold frame_window. destruct (fh_single_segment p _); lia.
Qed.
