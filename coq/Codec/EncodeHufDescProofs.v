(* Huffman tree descriptions written by the model are read back by the reference decoder. *)
From Coq Require Import NArith ZArith List Bool Lia.
From ZV.Codec Require Import Bytes ListLemmas Fse Huf Block LzProofs Encode EncodeProofs EncodeSeq EncodeSeqProofs EncodeFse EncodeFseProofs TableWf.
From ZV.Codec Require Import EncodeHufDesc.
Import ListNotations.
Local Open Scope N_scope.

(* ---------- direct weights ---------- *)
Lemma direct_weights_pack_n : forall n ws tail, (length ws <= n)%nat -> Forall (fun w => w < 16) ws ->
  direct_weights (length ws) (pack_nibbles ws ++ tail) = Some ws.
Proof.
  induction n as [|n IH]; intros ws tail Hl Hw.
  - destruct ws; [reflexivity|cbn [length] in Hl; lia].
  - destruct ws as [|a [|b t]].
    + reflexivity.
    + inversion Hw as [|? ? Ha _]; subst. cbn [length pack_nibbles app direct_weights].
      rewrite N.shiftr_div_pow2. change (2 ^ 4) with 16. rewrite N.mul_comm, N.div_mul by discriminate. reflexivity.
    + inversion Hw as [|? ? Ha Ht]; subst. inversion Ht as [|? ? Hb Ht2]; subst.
      cbn [length pack_nibbles app direct_weights]. rewrite (IH t tail ltac:(cbn [length] in Hl; lia) Ht2).
      rewrite N.shiftr_div_pow2. change (2 ^ 4) with 16. change 15 with (N.ones 4). rewrite N.land_ones. change (2 ^ 4) with 16.
      replace (16 * a + b) with (b + a * 16) by lia. rewrite N.div_add, N.mod_add by discriminate.
      rewrite N.div_small, N.mod_small by exact Hb. reflexivity.
Qed.
Lemma direct_weights_pack ws tail : Forall (fun w => w < 16) ws -> direct_weights (length ws) (pack_nibbles ws ++ tail) = Some ws.
Proof. apply (direct_weights_pack_n (length ws)). lia. Qed.

(* ---------- the two interleaved states ---------- *)
Lemma enc_w2_two t a b : enc_w2 t [a; b] = match enc_init t a, enc_init t b with Some sa, Some sb => Some (sa, sb, []) | _, _ => None end.
Proof. reflexivity. Qed.
Lemma enc_w2_more t a b c r : enc_w2 t (a :: b :: c :: r) =
  match enc_w2 t (b :: c :: r) with
  | None => None
  | Some (sb, sc, bits) => match enc_step t sc a with Some (sa, ba) => Some (sa, sb, ba ++ bits) | None => None end
  end.
Proof. reflexivity. Qed.
Lemma enc_w2_nil t : enc_w2 t [] = None. Proof. reflexivity. Qed.
Lemma enc_w2_one t a : enc_w2 t [a] = None. Proof. reflexivity. Qed.
Local Opaque enc_w2.

(* every state the encoder returns is below the table size *)
Lemma enc_w2_bounds t : table_wf t -> forall n ws s1 s2 bits, (length ws <= n)%nat -> enc_w2 t ws = Some (s1, s2, bits) -> s1 < 2 ^ ft_log t /\ s2 < 2 ^ ft_log t.
Proof.
  intros W. induction n as [|n IH]; intros ws s1 s2 bits Hl H.
  - destruct ws; [|exfalso; cbn [length] in Hl; lia]. rewrite enc_w2_nil in H. discriminate.
  - destruct ws as [|a [|b [|c r]]].
    + rewrite enc_w2_nil in H. discriminate.
    + rewrite enc_w2_one in H. discriminate.
    + rewrite enc_w2_two in H. destruct (enc_init t a) as [sa|] eqn:Ea; [|discriminate]. destruct (enc_init t b) as [sb|] eqn:Eb; [|discriminate].
      injection H as <- <- _. split; eapply enc_init_bound; eassumption.
    + rewrite enc_w2_more in H. destruct (enc_w2 t (b :: c :: r)) as [[[sb sc] bs]|] eqn:Er; [|discriminate].
      destruct (enc_step t sc a) as [[sa ba]|] eqn:Ea; [|discriminate]. injection H as <- <- _.
      assert (Hl2 : (length (b :: c :: r) <= n)%nat) by (cbn [length] in *; lia).
      destruct (IH (b :: c :: r) sb sc bs Hl2 Er) as (B1 & _). split; [eapply enc_step_bound; eassumption|exact B1].
Qed.

Definition nb_pos (t : fse_table) : Prop := Forall (fun c => 1 <= fc_nb c) (ft_cells t).

Lemma fse_update_empty t st : nb_pos t -> table_wf t -> st < 2 ^ ft_log t -> fse_update t st [] = None.
Proof.
  intros Hn W Hs. unfold fse_update, fse_cell_at, nthN.
  assert (Hin : In (nth (N.to_nat st) (ft_cells t) cell0) (ft_cells t)).
  { apply nth_In. unfold table_wf in W. rewrite lenN_length, pow2_pow in W. lia. }
  unfold nb_pos in Hn. rewrite Forall_forall in Hn. specialize (Hn _ Hin).
  unfold rread. rewrite splitn_spec. destruct (N.to_nat (fc_nb (nth (N.to_nat st) (ft_cells t) cell0))) eqn:E; [lia|]. reflexivity.
Qed.

(* decoding the update bits of [ws] from the states of its first two symbols gives back [ws] *)
Lemma weights_loop_enc t : nb_pos t -> table_wf t -> forall n ws s1 s2 bits fuel acc, (length ws <= n)%nat ->
  enc_w2 t ws = Some (s1, s2, bits) -> (length ws <= 2 * fuel)%nat ->
  fse_weights_loop fuel t s1 s2 bits acc = Ok (rev acc ++ ws).
Proof.
  intros Hn W. induction n as [|n IH]; intros ws s1 s2 bits fuel acc Hl H Hf.
  { destruct ws; [|exfalso; cbn [length] in Hl; lia]. rewrite enc_w2_nil in H. discriminate. }
  destruct ws as [|a [|b [|c r]]].
  1: (rewrite enc_w2_nil in H; discriminate).
  1: (rewrite enc_w2_one in H; discriminate).
  - destruct fuel as [|fuel]; [exfalso; cbn [length] in Hf; lia|].
    pose proof (enc_w2_bounds t W _ _ _ _ _ (le_n _) H) as (B1 & B2).
    rewrite enc_w2_two in H. destruct (enc_init t a) as [sa|] eqn:Ea; [|discriminate]. destruct (enc_init t b) as [sb|] eqn:Eb; [|discriminate].
    injection H as <- <- <-. cbn [fse_weights_loop].
    rewrite (fse_update_empty t sa Hn W B1). rewrite (enc_init_sound _ _ _ Ea), (enc_init_sound _ _ _ Eb).
    rewrite rev'_rev. cbn [rev]. rewrite <- !app_assoc. reflexivity.
  - destruct fuel as [|fuel]; [exfalso; cbn [length] in Hf; lia|].
    rewrite enc_w2_more in H. destruct (enc_w2 t (b :: c :: r)) as [[[sb sc] bs]|] eqn:Er; [|discriminate].
    destruct (enc_step t sc a) as [[sa ba]|] eqn:Ea; [|discriminate]. injection H as <- <- <-.
    destruct (enc_step_sound t sc a sa ba bs Ea) as (Pa & Ua).
    cbn [fse_weights_loop]. rewrite Pa, Ua.
    destruct r as [|d r'].
    + rewrite enc_w2_two in Er. destruct (enc_init t b) as [sb'|] eqn:Eb; [|discriminate]. destruct (enc_init t c) as [sc'|] eqn:Ec; [|discriminate].
      injection Er as <- <- <-. rewrite (enc_init_sound _ _ _ Eb).
      assert (Bb : sb' < 2 ^ ft_log t) by (eapply enc_init_bound; eassumption).
      rewrite (fse_update_empty t sb' Hn W Bb). rewrite (enc_init_sound _ _ _ Ec).
      rewrite rev'_rev. cbn [rev]. rewrite <- !app_assoc. reflexivity.
    + rewrite enc_w2_more in Er. destruct (enc_w2 t (c :: d :: r')) as [[[sc2 sd] bs2]|] eqn:Er2; [|discriminate].
      destruct (enc_step t sd b) as [[sb2 bb]|] eqn:Eb; [|discriminate]. injection Er as <- <- <-.
      destruct (enc_step_sound t sd b sb2 bb bs2 Eb) as (Pb & Ub). rewrite Pb, Ub.
      rewrite (IH (c :: d :: r') sc2 sd bs2 fuel (b :: a :: acc)) by (try exact Er2; cbn [length] in *; lia).
      cbn [rev]. rewrite <- !app_assoc. reflexivity.
Qed.

(* ---------- the accumulator form equals the recursive one ---------- *)
Lemma enc_w2_none_app t : forall l, (2 <= length l)%nat -> enc_w2 t l = None -> forall pre, enc_w2 t (pre ++ l) = None.
Proof.
  intros l Hl F pre. induction pre as [|p0 pr IH]; [exact F|].
  destruct (pr ++ l) as [|x [|y r]] eqn:El.
  - destruct pr; [cbn in El; subst l; cbn [length] in Hl; lia|discriminate].
  - assert (length (pr ++ l) = 1%nat) by (rewrite El; reflexivity). rewrite app_length in H. lia.
  - cbn [app]. rewrite El, enc_w2_more, IH. reflexivity.
Qed.

Lemma enc_w2_rev_spec t : forall pre suf s1 s2 bits, (2 <= length suf)%nat ->
  enc_w2 t suf = Some (s1, s2, bits) -> enc_w2_rev t (rev pre) s1 s2 bits = enc_w2 t (pre ++ suf).
Proof.
  induction pre as [|q pre IH] using rev_ind; intros suf s1 s2 bits Hl H.
  - cbn [rev app enc_w2_rev]. symmetry. exact H.
  - rewrite rev_app_distr. cbn [rev app enc_w2_rev]. rewrite <- app_assoc. cbn [app].
    destruct suf as [|b [|c r]]; [cbn [length] in Hl; lia|cbn [length] in Hl; lia|].
    assert (Hq : enc_w2 t (q :: b :: c :: r) = match enc_step t s2 q with Some (sa, ba) => Some (sa, s1, ba ++ bits) | None => None end).
    { rewrite enc_w2_more, H. reflexivity. }
    destruct (enc_step t s2 q) as [[sa ba]|].
    + apply IH; [cbn [length]; lia|exact Hq].
    + symmetry. apply enc_w2_none_app; [cbn [length]; lia|exact Hq].
Qed.

Lemma enc_w2_fast_eq t ws : enc_w2_fast t ws = enc_w2 t ws.
Proof.
  unfold enc_w2_fast. rewrite rev'_rev.
  destruct ws as [|b0 w1] using rev_ind; [rewrite enc_w2_nil; reflexivity|]. clear IHw1.
  rewrite rev_app_distr. cbn [rev app].
  destruct w1 as [|a0 w2] using rev_ind; [cbn [rev app]; rewrite enc_w2_one; reflexivity|]. clear IHw2.
  rewrite rev_app_distr. cbn [rev app]. rewrite <- app_assoc. cbn [app].
  pose proof (enc_w2_two t a0 b0) as Hq.
  destruct (enc_init t a0) as [sa|]; [|symmetry; apply enc_w2_none_app; [cbn [length]; lia|exact Hq]].
  destruct (enc_init t b0) as [sb|]; [|symmetry; apply enc_w2_none_app; [cbn [length]; lia|exact Hq]].
  apply enc_w2_rev_spec; [cbn [length]; lia|exact Hq].
Qed.

(* ---------- FSE-compressed weights ---------- *)
Theorem fse_weights_enc log counts d t ws st :
  write_ncount log counts = Some d -> build_dtable log counts = Ok t -> nb_pos t ->
  enc_weights_stream t ws = Some st ->
  log <= 6 -> lenN counts <= 256 -> Forall (fun c => (-1 <= c)%Z) counts -> (length ws <= 260)%nat ->
  fse_weights (d ++ st) = Ok ws.
Proof.
  intros Hw Hb Hn Hs Hl Hc Hd Hlen. destruct (build_dtable_wf _ _ _ Hb) as (W & Elog).
  unfold enc_weights_stream in Hs. rewrite enc_w2_fast_eq in Hs.
  destruct (enc_w2 t ws) as [[[s1 s2] bits]|] eqn:Ew; [|discriminate]. injection Hs as <-.
  destruct (enc_w2_bounds t W _ _ _ _ _ (le_n _) Ew) as (B1 & B2).
  unfold fse_weights. rewrite (read_write_ncount 255 6 log counts d _ Hw Hl ltac:(lia) Hc Hd). cbn [bind]. rewrite Hb. cbn [bind].
  rewrite skipN_skipn, lenN_length, Nat2N.id, skipn_app, Nat.sub_diag, skipn_all. cbn [skipn app].
  rewrite rbits_open_pack. cbn [of_opt bind]. unfold fse_init.
  rewrite rread_bits_msb by (rewrite N2Nat.id; exact B1). cbn [of_opt bind].
  rewrite rread_bits_msb by (rewrite N2Nat.id; exact B2). cbn [of_opt bind].
  rewrite (weights_loop_enc t Hn W _ ws s1 s2 bits 130%nat [] (le_n _) Ew) by lia. reflexivity.
Qed.

(* ---------- the description, both forms ---------- *)
Lemma read_huf_weights_unfold maxLog hb rest :
  read_huf_weights maxLog (hb :: rest) =
  do r <- (if 128 <=? hb then
             let n := hb - 127 in
             do ws <- of_opt (direct_weights (N.to_nat n) rest) Etrunc 211;
             Ok (ws, (n + 1) / 2 + 1)
           else
             do sp <- of_opt (splitN hb rest) Etrunc 212;
             do ws <- fse_weights (fst sp);
             Ok (ws, hb + 1));
  let '(ws, used) := r in weights_finish maxLog ws used.
Proof. reflexivity. Qed.

Lemma pack_nibbles_len ws : lenN (pack_nibbles ws) = (lenN ws + 1) / 2.
Proof.
  assert (G : forall n ws, (length ws <= n)%nat -> lenN (pack_nibbles ws) = (lenN ws + 1) / 2).
  { induction n as [|n IH]; intros l Hl.
    - destruct l; [reflexivity|cbn [length] in Hl; lia].
    - destruct l as [|a [|b t]]; [reflexivity|reflexivity|].
      cbn [pack_nibbles]. rewrite !lenN_cons, IH by (cbn [length] in Hl; lia).
      replace (1 + (1 + lenN t) + 1) with ((lenN t + 1) + 1 * 2) by lia. rewrite N.div_add by discriminate. lia. }
  apply (G (length ws)). lia.
Qed.

Theorem read_direct_weights maxLog ws tail :
  1 <= lenN ws <= 128 -> Forall (fun w => w < 16) ws ->
  read_huf_weights maxLog (enc_weights_direct ws ++ tail) = weights_finish maxLog ws (lenN (enc_weights_direct ws)).
Proof.
  intros Hl Hw. unfold enc_weights_direct. cbn [app]. rewrite read_huf_weights_unfold.
  destruct (N.leb_spec 128 (127 + lenN ws)) as [_|]; [|lia]. cbv zeta.
  replace (127 + lenN ws - 127) with (lenN ws) by lia. rewrite lenN_length, Nat2N.id.
  rewrite (direct_weights_pack ws tail Hw). cbn [of_opt bind]. rewrite lenN_cons, pack_nibbles_len, lenN_length. f_equal. lia.
Qed.

Theorem read_fse_weights maxLog log counts ws enc tail t :
  enc_weights_fse log counts ws = Some enc -> build_dtable log counts = Ok t -> nb_pos t ->
  log <= 6 -> lenN counts <= 256 -> Forall (fun c => (-1 <= c)%Z) counts -> (length ws <= 260)%nat ->
  read_huf_weights maxLog (enc ++ tail) = weights_finish maxLog ws (lenN enc).
Proof.
  intros He Hb Hn Hl Hc Hd Hlen. unfold enc_weights_fse in He.
  destruct (write_ncount log counts) as [d|] eqn:Ew; [|discriminate]. rewrite Hb in He.
  destruct (enc_weights_stream t ws) as [st|] eqn:Es; [|discriminate].
  destruct (N.ltb_spec (lenN (d ++ st)) 128) as [H128|]; [|discriminate]. injection He as <-.
  cbn [app]. rewrite read_huf_weights_unfold.
  destruct (N.leb_spec 128 (lenN (d ++ st))) as [|_]; [lia|].
  rewrite splitN_app. cbn [of_opt bind fst]. rewrite (fse_weights_enc log counts d t ws st Ew Hb Hn Es Hl Hc Hd Hlen). cbn [bind].
  rewrite lenN_cons. f_equal. lia.
Qed.
