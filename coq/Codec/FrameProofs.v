(* What acceptance by the reference decoder entails (used by C05, C06, C09): declared content size,
   checksum, block-size limits are checked branches of R; a decoded frame's content has exactly the
   number of bytes the frame produced. *)
From Coq Require Import NArith ZArith List Bool Lia.
From ZV.Codec Require Import Bytes ListLemmas XXH64 Fse Huf Block Frame LzProofs.
Import ListNotations.
Local Open Scope N_scope.

Local Opaque copy_match push_fwd push_rev seq_loop decode_literals read_nbseq seq_table.

Lemma decode_cblock_inv strict window blockMax e x src e' x' bt :
  inv x -> decode_cblock strict window blockMax e x src = Ok (e', x', bt) ->
  inv x' /\ x_pos x' = x_pos x + bt_rsize bt /\ bt_rsize bt <= blockMax /\ bt_type bt = 2.
Proof.
  intros Hi H. unfold decode_cblock in H.
  inv_bind_as H as [] Hg. inv_bind_as H as [[[lits huf'] lused] lmode] Hl.
  inv_bind_as H as [nbseq rest1] Hn.
  set (x0 := {| x_hist := x_hist x; x_marks := x_marks x; x_avail := x_avail x; x_pos := x_pos x; x_blk := 0 |}) in *.
  assert (I0 : inv x0) by (destruct Hi as (A & B & C); repeat split; assumption).
  (* common final step *)
  assert (F : forall e1 xs lits1 modes sqs lastt,
             inv xs -> x_pos xs + x_blk x0 = x_pos x0 + x_blk xs ->
             (check (x_blk xs + lenN lits1 <=? blockMax) else Esafety @ 361;
              Ok (e1, push_fwd xs lits1 (lenN lits1),
                  {| bt_type := 2; bt_last := false; bt_csize := lenN src; bt_rsize := x_blk (push_fwd xs lits1 (lenN lits1));
                     bt_litmode := lmode; bt_litsize := lenN lits; bt_seqmodes := modes; bt_seqs := sqs;
                     bt_nbseq_bytes := lenN (skipN src lused) - lenN rest1; bt_lasttable := lastt |})) = Ok (e', x', bt) ->
             inv x' /\ x_pos x' = x_pos x + bt_rsize bt /\ bt_rsize bt <= blockMax /\ bt_type bt = 2).
  { intros e1 xs lits1 modes sqs lastt Is Ps HF.
    inv_bind_as HF as [] Hc. apply guard_Ok in Hc. apply N.leb_le in Hc.
    injection HF as _ Hx Hb. subst x' bt. cbn [bt_rsize bt_type].
    destruct (push_fwd_inv xs lits1 (lenN lits1) Is eq_refl) as (I1 & P1 & A1 & B1).
    split; [exact I1|]. unfold x0 in Ps; cbn [x_pos x_blk] in Ps. repeat split; try lia. }
  destruct (nbseq =? 0).
  - inv_bind_as H as [] Hr. eapply F; [exact I0| |exact H]. lia.
  - destruct rest1 as [|modes rest2]; [discriminate|].
    inv_bind_as H as [] Hm. inv_bind_as H as tl Htl. inv_bind_as H as to Hto. inv_bind_as H as tm Htm.
    inv_bind_as H as s0 Hs0. inv_bind_as H as i1 Hi1. inv_bind_as H as i2 Hi2. inv_bind_as H as i3 Hi3.
    inv_bind_as H as [[[xs lits1] rep1] sqs] Hs.
    apply seq_loop_inv in Hs; [|exact I0]. destruct Hs as (Is & Ps).
    eapply F; [exact Is|exact Ps|exact H].
Qed.

Local Opaque decode_cblock.

Definition sum_rsize (l : list btrace) : N := fold_right (fun b s => bt_rsize b + s) 0 l.
Lemma sum_rsize_app a b : sum_rsize (a ++ b) = sum_rsize a + sum_rsize b.
Proof. induction a as [|x t IH]; cbn [sum_rsize fold_right app]; [reflexivity|]. fold (sum_rsize (t ++ b)). fold (sum_rsize t). rewrite IH. lia. Qed.
Lemma sum_rsize_rev a : sum_rsize (rev a) = sum_rsize a.
Proof. induction a as [|x t IH]; [reflexivity|]. cbn [rev]. rewrite sum_rsize_app, IH. cbn [sum_rsize fold_right]. fold (sum_rsize t). lia. Qed.

Lemma blocks_loop_inv fuel : forall strict window blockMax e x src acc x' rest bts,
  inv x -> Forall (fun b => bt_rsize b <= blockMax) acc ->
  blocks_loop fuel strict window blockMax e x src acc = Ok (x', rest, bts) ->
  inv x' /\ Forall (fun b => bt_rsize b <= blockMax) bts /\
  x_pos x' + sum_rsize acc = x_pos x + sum_rsize bts /\
  exists consumed, src = consumed ++ rest.
Proof.
  induction fuel as [|f0 f IH]; intros strict window blockMax e x src acc x' rest bts Hi Hacc H; cbn [blocks_loop] in H; [discriminate|].
  inv_bind_as H as [hv r0] Hh. apply of_opt_Ok in Hh.
  unfold read_le in Hh. rewrite splitn_spec in Hh. destruct (3 <=? length src)%nat eqn:E3; [|discriminate].
  injection Hh as Ehv Er0.
  assert (Esrc : src = firstn 3 src ++ r0) by (rewrite <- Er0; symmetry; apply firstn_skipn).
  inv_bind_as H as [[[e1 x1] rest1] bt] Hstep.
  assert (S : inv x1 /\ bt_rsize bt <= blockMax /\ x_pos x1 = x_pos x + bt_rsize bt /\ exists c1, r0 = c1 ++ rest1).
  { destruct (N.land (N.shiftr hv 1) 3 =? 0).
    - inv_bind_as Hstep as [] Hg. apply guard_Ok in Hg. apply N.leb_le in Hg.
      inv_bind_as Hstep as [sa sb] Hsp. apply of_opt_Ok in Hsp. apply splitN_Some in Hsp. destruct Hsp as (Es & El).
      injection Hstep as _ Hx Hr Hb. subst x1 rest1 bt. cbn [bt_rsize fst snd].
      destruct (push_fwd_inv x sa (N.shiftr hv 3) Hi El) as (I1 & P1 & _).
      split; [exact I1|]. split; [exact Hg|]. split; [exact P1|]. exists sa. exact Es.
    - destruct (N.land (N.shiftr hv 1) 3 =? 1).
      + inv_bind_as Hstep as [] Hg. apply guard_Ok in Hg. apply N.leb_le in Hg.
        destruct r0 as [|v t]; [discriminate|].
        injection Hstep as _ Hx Hr Hb. subst x1 rest1 bt. cbn [bt_rsize].
        destruct (push_rev_inv x (repeatN v (N.shiftr hv 3) []) (N.shiftr hv 3) Hi) as (I1 & P1 & _).
        { rewrite lenN_repeatN, lenN_nil. lia. }
        split; [exact I1|]. split; [exact Hg|]. split; [exact P1|]. exists [v]. reflexivity.
      + destruct (N.land (N.shiftr hv 1) 3 =? 2); [|discriminate].
        inv_bind_as Hstep as [] Hg.
        inv_bind_as Hstep as [sa sb] Hsp. apply of_opt_Ok in Hsp. apply splitN_Some in Hsp. destruct Hsp as (Es & El).
        inv_bind_as Hstep as [[e2 x2] bt2] Hc.
        apply decode_cblock_inv in Hc; [|exact Hi]. destruct Hc as (I2 & P2 & B2 & _).
        injection Hstep as _ Hx Hr Hb. subst x1 rest1 bt. cbn [bt_rsize fst snd].
        split; [exact I2|]. split; [exact B2|]. split; [exact P2|]. exists sa. exact Es. }
  destruct S as (I1 & B1 & P1 & (c1 & Ec1)).
  destruct (N.testbit hv 0).
  - injection H as Hx Hr Hb. subst x' rest bts.
    split; [exact I1|]. rewrite rev'_rev. split.
    + apply Forall_rev. constructor; assumption.
    + split.
      * rewrite sum_rsize_rev. cbn [sum_rsize fold_right]. fold (sum_rsize acc). lia.
      * exists (firstn 3 src ++ c1). rewrite <- app_assoc, <- Ec1. exact Esrc.
  - apply IH in H; [|exact I1|constructor; assumption].
    destruct H as (I2 & F2 & P2 & (c2 & Ec2)).
    split; [exact I2|]. split; [exact F2|]. split.
    + cbn [sum_rsize fold_right] in P2. fold (sum_rsize acc) in P2. lia.
    + exists (firstn 3 src ++ c1 ++ c2). rewrite Esrc at 1. rewrite Ec1, Ec2, <- !app_assoc. reflexivity.
Qed.

Local Opaque blocks_loop xxh64.

Lemma read_le_Some k l v r : read_le k l = Some (v, r) -> exists c, l = c ++ r /\ length c = k /\ v = le_val c.
Proof.
  unfold read_le. rewrite splitn_spec. destruct (k <=? length l)%nat eqn:E; [|discriminate].
  intros H. injection H as Hv Hr. exists (firstn k l). subst r v. split; [symmetry; apply firstn_skipn|].
  split; [|reflexivity]. apply firstn_length_le. apply Nat.leb_le. exact E.
Qed.

Lemma parse_fheader_consumes ml src fh r0 : parse_fheader ml src = Ok (fh, r0) -> exists c, src = c ++ r0.
Proof.
  unfold parse_fheader. intros H.
  inv_bind_as H as m Hm.
  assert (Em : exists c0, src = c0 ++ m).
  { destruct ml.
    - injection Hm as ->. exists []. reflexivity.
    - inv_bind_as Hm as [mv mr] Hr. apply of_opt_Ok in Hr. apply read_le_Some in Hr. destruct Hr as (c & Ec & _).
      inv_bind_as Hm as [] Hg. injection Hm as <-. exists c. exact Ec. }
  destruct Em as (c0 & Ec0).
  destruct m as [|fhd r1]; [discriminate|].
  inv_bind_as H as [] Hres.
  inv_bind_as H as [wopt r2] Hw.
  assert (E2 : exists c2, r1 = c2 ++ r2).
  { destruct (N.testbit fhd 5).
    - injection Hw as _ ->. exists []. reflexivity.
    - destruct r1 as [|wd t]; [discriminate|]. injection Hw as _ ->. exists [wd]. reflexivity. }
  destruct E2 as (c2 & Ec2).
  inv_bind_as H as [did r3] Hd. apply of_opt_Ok in Hd. apply read_le_Some in Hd. destruct Hd as (c3 & Ec3 & _).
  inv_bind_as H as [fv r4] Hf. apply of_opt_Ok in Hf. apply read_le_Some in Hf. destruct Hf as (c4 & Ec4 & _).
  inv_bind_as H as win Hwin.
  injection H as _ Hr. subst r0.
  exists (c0 ++ [fhd] ++ c2 ++ c3 ++ c4). subst src r1 r2 r3. rewrite <- !app_assoc. reflexivity.
Qed.

Lemma frame_output_len x : inv x -> lenN (frame_output x) = x_pos x.
Proof.
  intros (Ha & Hp & _). unfold frame_output. rewrite takeN_rev_spec, app_nil_r, lenN_rev.
  apply lenN_firstn_le. lia.
Qed.

Definition low32 (v : N) : N := N.land v 4294967295.

Theorem decode_frame_sound cfg d f out t rest :
  decode_frame cfg d f = Ok (out, t, rest) ->
  lenN out = sum_rsize (ft_blocks t) /\
  Forall (fun b => bt_rsize b <= N.min (N.min (fh_window (ft_header t)) BLOCK_MAX) (c_block_max cfg)) (ft_blocks t) /\
  (forall v, fh_fcs (ft_header t) = Some v -> v = lenN out) /\
  (fh_checksum (ft_header t) = true -> c_check cfg = true -> ft_checksum t = Some (low32 (xxh64 out 0))) /\
  (fh_checksum (ft_header t) = false -> ft_checksum t = None) /\
  fh_window (ft_header t) <= c_window_max cfg /\
  (forall dc, d = Some dc -> fh_dictid (ft_header t) = 0 \/ fh_dictid (ft_header t) = d_id dc) /\
  exists consumed, f = consumed ++ rest /\ ft_csize t = lenN consumed.
Proof.
  intros H. unfold decode_frame in H.
  inv_bind_as H as [fh r0] Hh. apply parse_fheader_consumes in Hh. destruct Hh as (ch & Ech).
  inv_bind_as H as [] Hw. apply guard_Ok in Hw. apply N.leb_le in Hw.
  inv_bind_as H as [e0 dcontent] Hd.
  assert (Hdict : forall dc, d = Some dc -> fh_dictid fh = 0 \/ fh_dictid fh = d_id dc).
  { intros dc ->. inv_bind_as Hd as [] Hg. apply guard_Ok in Hg. apply orb_true_iff in Hg.
    destruct Hg as [Hg|Hg]; apply N.eqb_eq in Hg; auto. }
  set (x0 := {| x_hist := rev' dcontent; x_marks := []; x_avail := lenN dcontent; x_pos := 0; x_blk := 0 |}) in *.
  assert (I0 : inv x0).
  { unfold inv, x0; cbn [x_hist x_marks x_avail x_pos]. rewrite rev'_rev, lenN_rev. repeat split; [lia|constructor]. }
  inv_bind_as H as [[x r1] bts] Hb.
  apply blocks_loop_inv in Hb; [|exact I0|constructor]. destruct Hb as (Ix & Fb & Pb & (cb & Ecb)).
  inv_bind_as H as [] Hfcs. apply guard_Ok in Hfcs.
  inv_bind_as H as [ck r2] Hck.
  injection H as Ho Ht Hr. subst out rest. rewrite <- Ht. cbn [ft_blocks ft_header ft_csize ft_checksum].
  pose proof (frame_output_len x Ix) as Hlen.
  unfold x0 in Pb; cbn [x_pos sum_rsize fold_right] in Pb.
  assert (Ec : exists cc, r1 = cc ++ r2 /\
               (fh_checksum fh = true -> c_check cfg = true -> ck = Some (low32 (xxh64 (frame_output x) 0))) /\
               (fh_checksum fh = false -> ck = None)).
  { destruct (fh_checksum fh).
    - inv_bind_as Hck as [cv cr] Hr4. apply of_opt_Ok in Hr4. apply read_le_Some in Hr4. destruct Hr4 as (c4 & E4 & _).
      inv_bind_as Hck as [] Hg. apply guard_Ok in Hg. injection Hck as Hck1 Hck2. subst ck r2. cbn [fst snd] in *.
      exists c4. split; [exact E4|]. split; [|discriminate].
      intros _ Hc. rewrite Hc in Hg. cbn [negb orb] in Hg. apply N.eqb_eq in Hg. rewrite Hg. reflexivity.
    - injection Hck as <- <-. exists []. split; [reflexivity|]. split; [discriminate|reflexivity]. }
  destruct Ec as (cc & Ecc & Hck1 & Hck2).
  split; [lia|]. split; [exact Fb|]. split.
  { intros v Hv. rewrite Hv in Hfcs. apply N.eqb_eq in Hfcs. lia. }
  split; [exact Hck1|]. split; [exact Hck2|]. split; [exact Hw|]. split; [exact Hdict|].
  exists (ch ++ cb ++ cc). split.
  - rewrite Ech, Ecb, Ecc, <- !app_assoc. reflexivity.
  - rewrite Ech, Ecb, Ecc, !lenN_app. lia.
Qed.
