(* Concatenated frames and skippable frames: what R makes of a stream is the concatenation of what it makes of its frames. *)
From Coq Require Import NArith ZArith List Bool Lia.
From ZV.Codec Require Import Bytes ListLemmas XXH64 Fse Huf Block Frame LzProofs FrameProofs Encode EncodeProofs.
Import ListNotations.
Local Open Scope N_scope.


Local Opaque decode_frame.

Definition skip_test (cfg : config) (src : bytes) : option bytes :=
  if c_magicless cfg then None
  else match read_le 4 src with
       | Some (m, r) => if N.shiftr m 4 =? N.shiftr MAGIC_SKIP 4 then Some r else None
       | None => None
       end.

Lemma frames_loop_step fuel x cfg d b0 src' outs acc :
  frames_loop (x :: fuel) cfg d (b0 :: src') outs acc =
  match skip_test cfg (b0 :: src') with
  | Some r => do sz <- of_opt (read_le 4 r) Etrunc 441;
              do sp <- of_opt (splitN (fst sz) (snd sz)) Etrunc 442;
              frames_loop fuel cfg d (snd sp) outs (FSkip (fst sz) :: acc)
  | None => do r <- decode_frame cfg d (b0 :: src');
            let '(out, t, rest) := r in
            frames_loop fuel cfg d rest (out :: outs) (FZstd t (lenN out) :: acc)
  end.
Proof. reflexivity. Qed.

Lemma frames_loop_nil fuel x cfg d outs acc : frames_loop (x :: fuel) cfg d [] outs acc = Ok (rev' outs, rev' acc).
Proof. reflexivity. Qed.

Local Opaque frames_loop.

(* the accumulators only prefix the result *)
Lemma frames_loop_acc : forall fuel cfg d src outs acc,
  frames_loop fuel cfg d src outs acc =
  match frames_loop fuel cfg d src [] [] with
  | Ok (o, i) => Ok (rev outs ++ o, rev acc ++ i)
  | Err c s => Err c s
  end.
Proof.
  induction fuel as [|x fuel IH]; intros cfg d src outs acc.
  - Local Transparent frames_loop. reflexivity. Local Opaque frames_loop.
  - destruct src as [|b0 src'].
    + rewrite !frames_loop_nil, !rev'_rev. cbn [rev]. rewrite !app_nil_r. reflexivity.
    + rewrite !frames_loop_step. destruct (skip_test cfg (b0 :: src')) as [r|].
      * destruct (of_opt (read_le 4 r) Etrunc 441) as [sz|]; cbn [bind]; [|reflexivity].
        destruct (of_opt (splitN (fst sz) (snd sz)) Etrunc 442) as [sp|]; cbn [bind]; [|reflexivity].
        rewrite (IH cfg d (snd sp) outs (FSkip (fst sz) :: acc)), (IH cfg d (snd sp) [] [FSkip (fst sz)]).
        destruct (frames_loop fuel cfg d (snd sp) [] []) as [[o i]|]; [|reflexivity]. cbn [rev app]. rewrite <- !app_assoc. reflexivity.
      * destruct (decode_frame cfg d (b0 :: src')) as [[[out t] rest]|]; cbn [bind]; [|reflexivity].
        rewrite (IH cfg d rest (out :: outs) (FZstd t (lenN out) :: acc)), (IH cfg d rest [out] [FZstd t (lenN out)]).
        destruct (frames_loop fuel cfg d rest [] []) as [[o i]|]; [|reflexivity]. cbn [rev app]. rewrite <- !app_assoc. reflexivity.
Qed.

(* more fuel never hurts a successful run *)
Lemma frames_loop_fuel_mono : forall f1 cfg d src outs acc r, frames_loop f1 cfg d src outs acc = Ok r ->
  forall f2, (length f1 <= length f2)%nat -> frames_loop f2 cfg d src outs acc = Ok r.
Proof.
  induction f1 as [|x f1 IH]; intros cfg d src outs acc r H f2 Hl.
  - Local Transparent frames_loop. discriminate. Local Opaque frames_loop.
  - destruct f2 as [|y f2]; [cbn [length] in Hl; lia|]. destruct src as [|b0 src'].
    + rewrite frames_loop_nil in *. exact H.
    + rewrite frames_loop_step in *. destruct (skip_test cfg (b0 :: src')) as [r0|].
      * inv_bind_as H as sz Hsz. rewrite Hsz. cbn [bind]. inv_bind_as H as sp Hsp. rewrite Hsp. cbn [bind].
        apply IH with (f2 := f2) in H; [exact H|cbn [length] in Hl; lia].
      * inv_bind_as H as [[out t] rest] Hd. rewrite Hd. cbn [bind]. apply IH with (f2 := f2) in H; [exact H|cbn [length] in Hl; lia].
Qed.

Lemma concat_fold (outs : list bytes) : rev' (fold_left (fun acc f => rev_append f acc) outs []) = concat outs.
Proof.
  assert (G : forall (l : list bytes) (acc : bytes), fold_left (fun acc f => rev_append f acc) l acc = rev (concat l) ++ acc).
  { induction l as [|f t IH]; intros acc; cbn [fold_left concat]; [reflexivity|]. rewrite IH, rev_append_rev, rev_app_distr, <- app_assoc. reflexivity. }
  rewrite G, rev'_rev, app_nil_r, rev_involutive. reflexivity.
Qed.

Lemma R_unfold cfg d src : R cfg d src =
  match frames_loop (0 :: src) cfg d src [] [] with Ok (o, i) => Ok (concat o, i) | Err c s => Err c s end.
Proof. unfold R. destruct (frames_loop (0 :: src) cfg d src [] []) as [[o i]|]; cbn [bind fst snd]; [rewrite concat_fold|]; reflexivity. Qed.

(* ---------- a frame followed by a stream ---------- *)
Theorem R_frame_then_stream cfg d f rest out t c items :
  f <> [] -> decode_frame cfg d (f ++ rest) = Ok (out, t, rest) -> skip_test cfg (f ++ rest) = None ->
  R cfg d rest = Ok (c, items) ->
  R cfg d (f ++ rest) = Ok (out ++ c, FZstd t (lenN out) :: items).
Proof.
  intros Hne Hd Hs HR. rewrite R_unfold in *.
  destruct (frames_loop (0 :: rest) cfg d rest [] []) as [[o i]|] eqn:El; [|discriminate]. injection HR as <- <-.
  destruct (f ++ rest) as [|b0 s'] eqn:Es; [destruct f; [congruence|discriminate]|].
  rewrite frames_loop_step, Hs, Hd. cbn [bind].
  rewrite frames_loop_acc.
  rewrite (frames_loop_fuel_mono _ _ _ _ _ _ _ El (b0 :: s')).
  - cbn [rev app concat]. reflexivity.
  - cbn [length]. assert (length (b0 :: s') = length (f ++ rest)) by (rewrite Es; reflexivity). rewrite app_length in H. cbn [length] in H.
    assert (1 <= length f)%nat by (destruct f; [congruence|cbn [length]; lia]). lia.
Qed.

(* a Zstandard frame never looks like a skippable one *)
Lemma skip_test_zstd_magic cfg tail : skip_test cfg (write_le 4 MAGIC ++ tail) = None.
Proof.
  unfold skip_test. destruct (c_magicless cfg); [reflexivity|].
  rewrite read_le_write_le by (vm_compute; reflexivity). reflexivity.
Qed.

(* ---------- a skippable frame followed by a stream ---------- *)
Theorem R_skippable_then_stream cfg d variant payload rest c items :
  c_magicless cfg = false -> variant < 16 -> lenN payload < 2 ^ 32 ->
  R cfg d rest = Ok (c, items) ->
  R cfg d (enc_skippable variant payload ++ rest) = Ok (c, FSkip (lenN payload) :: items).
Proof.
  intros Hm Hv Hl HR. rewrite R_unfold in *.
  destruct (frames_loop (0 :: rest) cfg d rest [] []) as [[o i]|] eqn:El; [|discriminate]. injection HR as <- <-.
  unfold enc_skippable. rewrite <- !app_assoc.
  destruct (write_le 4 (MAGIC_SKIP + variant) ++ write_le 4 (lenN payload) ++ payload ++ rest) as [|b0 s'] eqn:Es; [discriminate|].
  rewrite frames_loop_step, <- Es.
  assert (Hsk : skip_test cfg (write_le 4 (MAGIC_SKIP + variant) ++ write_le 4 (lenN payload) ++ payload ++ rest) = Some (write_le 4 (lenN payload) ++ payload ++ rest)).
  { unfold skip_test. rewrite Hm. rewrite read_le_write_le by (change (2 ^ (8 * N.of_nat 4)) with 4294967296; unfold MAGIC_SKIP; lia).
    assert (E : N.shiftr (MAGIC_SKIP + variant) 4 = N.shiftr MAGIC_SKIP 4).
    { rewrite !N.shiftr_div_pow2. change (2 ^ 4) with 16. unfold MAGIC_SKIP. replace (407710288 + variant) with (variant + 25481893 * 16) by lia.
      rewrite N.div_add by discriminate. rewrite N.div_small by exact Hv. reflexivity. }
    rewrite E, N.eqb_refl. reflexivity. }
  rewrite Hsk. rewrite read_le_write_le by exact Hl. cbn [of_opt bind fst snd]. rewrite splitN_app. cbn [of_opt bind fst snd].
  rewrite frames_loop_acc.
  rewrite (frames_loop_fuel_mono _ _ _ _ _ _ _ El (write_le 4 (MAGIC_SKIP + variant) ++ write_le 4 (lenN payload) ++ payload ++ rest)).
  - cbn [rev app]. reflexivity.
  - rewrite !app_length, !write_le_length. cbn [length]. lia.
Qed.

(* ---------- frames built by the serialiser model, back to back ---------- *)
Lemma skip_test_enc_frame cfg p dictID bs rest : c_magicless cfg = fp_magicless p -> skip_test cfg (enc_frame p dictID bs ++ rest) = None.
Proof.
  intros Hm. unfold skip_test, enc_frame. rewrite Hm.
  destruct (fp_magicless p) eqn:E; [reflexivity|].
  Local Transparent enc_fheader. unfold enc_fheader. rewrite E. Local Opaque enc_fheader.
  rewrite <- !app_assoc. rewrite read_le_write_le by (vm_compute; reflexivity). reflexivity.
Qed.

Theorem R_model_frame_then_stream cfg d p dictID bs rest e' x' c items :
  params_ok p (lenN (blocks_content bs)) dictID -> bs <> [] -> c_magicless cfg = fp_magicless p ->
  frame_window p (lenN (blocks_content bs)) <= c_window_max cfg -> dict_ok d p dictID ->
  blocks_spec (c_strict_window cfg) (frame_window p (lenN (blocks_content bs)))
              (N.min (N.min (frame_window p (lenN (blocks_content bs))) BLOCK_MAX) (c_block_max cfg))
              (dict_entropy d) (x_init d) bs = Ok (e', x') ->
  ext (x_init d) x' (blocks_content bs) ->
  R cfg d rest = Ok (c, items) ->
  exists t, R cfg d (enc_frame p dictID bs ++ rest) = Ok (blocks_content bs ++ c, FZstd t (lenN (blocks_content bs)) :: items).
Proof.
  intros Hp Hne Hm Hw Hd Hs He HR.
  destruct (decode_enc_frame cfg d p dictID bs rest e' x' Hp Hne Hm Hw Hd Hs He) as (t & Ht & _).
  exists t. apply R_frame_then_stream; auto.
  - unfold enc_frame. Local Transparent enc_fheader. unfold enc_fheader. Local Opaque enc_fheader.
    destruct (fp_magicless p); cbn [app]; discriminate.
  - apply skip_test_enc_frame. exact Hm.
Qed.
