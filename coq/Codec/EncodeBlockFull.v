(* Composition: a block with every entropy feature switched on - Huffman-compressed literals whose tree description is
   itself FSE-compressed, and three FSE_Compressed_Mode sequence tables - is, for ANY choice of weights and normalised
   distributions the writers accept, decoded by the reference decoder to the execution of its sequences. *)
From Coq Require Import NArith ZArith List Bool Lia.
From ZV.Codec Require Import Bytes ListLemmas Fse Huf Block Frame LzProofs LzContent Encode EncodeProofs EncodeSeq EncodeSeqProofs
     EncodeHuf EncodeHufProofs EncodeFse EncodeFseProofs EncodeHufDesc EncodeHufDescProofs TableWf.
Import ListNotations.
Local Open Scope N_scope.

Local Opaque decode_literals seq_table.

(* the tree description, as read_huf_table sees it *)
Lemma read_huf_table_fse maxLog wlog wcounts ws treedesc wt all hlog tail :
  enc_weights_fse wlog wcounts ws = Some treedesc -> build_dtable wlog wcounts = Ok wt -> nb_pos wt ->
  wlog <= 6 -> lenN wcounts <= 256 -> Forall (fun c => (-1 <= c)%Z) wcounts -> (length ws <= 260)%nat ->
  weights_finish maxLog ws (lenN treedesc) = Ok (all, hlog, lenN treedesc) ->
  read_huf_table maxLog (treedesc ++ tail) = Ok ({| h_log := hlog; h_tree := huf_tree all hlog; h_weights := all |}, lenN treedesc).
Proof.
  intros He Hb Hn Hl Hc Hd Hlen Hf. unfold read_huf_table.
  rewrite (read_fse_weights maxLog wlog wcounts ws treedesc tail wt He Hb Hn Hl Hc Hd Hlen), Hf. reflexivity.
Qed.

Theorem fully_compressed_block_round_trip
  strict window blockMax e x
  (* literals *) wlog wcounts ws treedesc wt all hlog sf lits litsec
  (* sequence tables *) lllog llcounts dll tll oflog ofcounts dof tof mllog mlcounts dml tml
  qs stream x1 lits1 rep1 :
  (* the Huffman tree: any weights the description writer and the decoder's checks accept *)
  enc_weights_fse wlog wcounts ws = Some treedesc -> build_dtable wlog wcounts = Ok wt -> nb_pos wt ->
  wlog <= 6 -> lenN wcounts <= 256 -> Forall (fun c => (-1 <= c)%Z) wcounts -> (length ws <= 260)%nat ->
  weights_finish LitHufLog ws (lenN treedesc) = Ok (all, hlog, lenN treedesc) ->
  (* the literals section *)
  sf < 4 -> lenN lits <= blockMax -> (sf = 0 \/ 6 <= lenN lits) ->
  (forall part b, enc_huf1 (huf_tree all hlog) part = Some b -> lenN b < 65536) ->
  enc_lits_huf 2 sf treedesc (huf_tree all hlog) lits = Some litsec ->
  (* the three tables: any normalised distributions the description writer accepts *)
  write_ncount lllog llcounts = Some dll -> build_dtable lllog llcounts = Ok tll -> lllog <= LLFSELog -> lenN llcounts <= MaxLL + 1 -> Forall (fun c => (-1 <= c)%Z) llcounts ->
  write_ncount oflog ofcounts = Some dof -> build_dtable oflog ofcounts = Ok tof -> oflog <= OffFSELog -> lenN ofcounts <= MaxOff + 1 -> Forall (fun c => (-1 <= c)%Z) ofcounts ->
  write_ncount mllog mlcounts = Some dml -> build_dtable mllog mlcounts = Ok tml -> mllog <= MLFSELog -> lenN mlcounts <= MaxML + 1 -> Forall (fun c => (-1 <= c)%Z) mlcounts ->
  (* the sequences *)
  qs <> [] -> lenN qs < 98048 ->
  enc_seq_stream tll tof tml qs = Some stream ->
  exec_seqs strict window blockMax qs (e_rep e) (x_block_start x) lits = Ok (x1, lits1, rep1) ->
  x_blk x1 + lenN lits1 <= blockMax ->
  exists bt, decode_cblock strict window blockMax e x (enc_cblock_parts litsec (lenN qs) 168 dll dof dml stream)
             = Ok ({| e_huf := Some {| h_log := hlog; h_tree := huf_tree all hlog; h_weights := all |};
                      e_ll := Some tll; e_of := Some tof; e_ml := Some tml; e_rep := rep1 |},
                   push_fwd x1 lits1 (lenN lits1), bt).
Proof.
  intros He Hb Hn Hwl Hwc Hwd Hwlen Hf Hsf Hll H6 Hsz Hlit
         Wll Bll Lll Cll Dll Wof Bof Lof Cof Dof Wml Bml Lml Cml Dml Hne Hnq Hs Hex Hfit.
  set (ht := {| h_log := hlog; h_tree := huf_tree all hlog; h_weights := all |}).
  destruct (build_dtable_wf _ _ _ Bll) as (W1 & _). destruct (build_dtable_wf _ _ _ Bof) as (W2 & _). destruct (build_dtable_wf _ _ _ Bml) as (W3 & _).
  unfold MaxLL, MaxOff, MaxML in *.
  apply (decode_enc_cblock strict window blockMax e x litsec lits (Some ht) (2 + (if sf =? 0 then 0 else 4)) 168 dll dof dml tll tof tml qs stream x1 lits1 rep1).
  - intros tail.
    apply (decode_lits_huf blockMax (e_huf e) 2 sf treedesc ht lits tail litsec); auto.
    intros _ streams. apply (read_huf_table_fse LitHufLog wlog wcounts ws treedesc wt all hlog streams); assumption.
  - exact Hne.
  - exact Hnq.
  - reflexivity.
  - intros tail. apply (seq_table_compressed 35 LLFSELog 6 spec_LL_default (e_ll e) lllog llcounts dll tll tail); auto; lia.
  - intros tail. apply (seq_table_compressed 31 OffFSELog 5 spec_OF_default (e_of e) oflog ofcounts dof tof tail); auto; lia.
  - intros tail. apply (seq_table_compressed 52 MLFSELog 6 spec_ML_default (e_ml e) mllog mlcounts dml tml tail); auto; lia.
  - exact W1.
  - exact W2.
  - exact W3.
  - exact Hs.
  - exact Hex.
  - exact Hfit.
Qed.
