(* A, third part: Huffman-compressed literals sections (lib/compress/huf_compress.c HUF_compress1X_usingCTable /
   HUF_compress4X_usingCTable, lib/compress/zstd_compress_literals.c ZSTD_compressLiterals header layout).
   The code of a symbol is its path in the decoding tree; the tree description bytes are carried as given.
   Model only - no proofs in this file. *)
From Coq Require Import NArith ZArith List Bool.
From ZV.Codec Require Import Bytes Fse Huf Block Encode EncodeSeq.
Import ListNotations.
Local Open Scope N_scope.

(* path of a symbol in the tree, in read order (false = left) *)
Fixpoint tree_code (t : htree) (s : N) : option (list bool) :=
  match t with
  | HLeaf x => if x =? s then Some [] else None
  | HBad => None
  | HNode l r =>
    match tree_code l s with
    | Some c => Some (false :: c)
    | None => match tree_code r s with
              | Some c => Some (true :: c)
              | None => None
              end
    end
  end.

(* bits of a symbol list in read order: first symbol first *)
Fixpoint huf_bits (t : htree) (syms : list N) : option (list bool) :=
  match syms with
  | [] => Some []
  | s :: r => match tree_code t s, huf_bits t r with
              | Some c, Some b => Some (c ++ b)
              | _, _ => None
              end
  end.

Definition enc_huf1 (t : htree) (syms : list N) : option bytes :=
  match huf_bits t syms with Some b => Some (pack_rbits b) | None => None end.

(* four streams: three of ceil(n/4) symbols, the rest in the fourth; 6-byte jump table *)
Definition enc_huf4 (t : htree) (syms : list N) : option bytes :=
  let n := lenN syms in
  let seg := (n + 3) / 4 in
  let s1 := takeN seg syms in let r1 := skipN syms seg in
  let s2 := takeN seg r1 in let r2 := skipN r1 seg in
  let s3 := takeN seg r2 in let s4 := skipN r2 seg in
  match enc_huf1 t s1, enc_huf1 t s2, enc_huf1 t s3, enc_huf1 t s4 with
  | Some b1, Some b2, Some b3, Some b4 =>
    Some (write_le 2 (lenN b1) ++ write_le 2 (lenN b2) ++ write_le 2 (lenN b3) ++ b1 ++ b2 ++ b3 ++ b4)
  | _, _, _, _ => None
  end.

(* Literals_Section_Header of a Huffman-compressed section.  ltype 2 = with tree description, 3 = treeless (previous table).
   sf is the Size_Format: 0 = one stream, 10-bit sizes (3 bytes); 1 = four streams, 10-bit sizes (3 bytes);
   2 = four streams, 14-bit sizes (4 bytes); 3 = four streams, 18-bit sizes (5 bytes).  None when a size does not fit. *)
Definition enc_lits_huf (ltype sf : N) (treedesc : bytes) (t : htree) (lits : bytes) : option bytes :=
  let n := lenN lits in
  match (if sf =? 0 then enc_huf1 t lits else enc_huf4 t lits) with
  | None => None
  | Some streams =>
    let csz := lenN treedesc + lenN streams in
    let nbits := if sf <? 2 then 10 else if sf =? 2 then 14 else 18 in
    if andb (n <? pow2 nbits) (csz <? pow2 nbits) then
      Some ((if sf <? 2 then write_le 3 (ltype + 4 * sf + 16 * n + 16384 * csz)
             else if sf =? 2 then write_le 4 (ltype + 8 + 16 * n + 262144 * csz)
             else write_le 5 (ltype + 12 + 16 * n + 4194304 * csz))
            ++ treedesc ++ streams)
    else None
  end.

(* the Size_Format ZSTD_compressLiterals chooses for n literals (ordinary blocks; sub-blocks of a super-block use their own rule) *)
Definition sf_regular (n : N) : N := if n <? 256 then 0 else if n <? 1024 then 1 else if n <? 16384 then 2 else 3.
