(* Dictionary loading in the reference decoder: raw-content fallback, validity of the loaded repeat offsets,
   dictionary-ID rule; and the statistics seeding of the optimal parser from a dictionary's Huffman costs
   (model of the repaired ZSTD_rescaleFreqs literal loop, with the refutation of the unrepaired one). *)
From Coq Require Import NArith ZArith List Bool Lia.
From ZV.Codec Require Import Bytes ListLemmas XXH64 Fse Huf Block Frame LzProofs FrameProofs.
Import ListNotations.
Local Open Scope N_scope.

Local Opaque read_huf_table read_ncount build_dtable.

(* bytes that do not start with the dictionary magic, or are shorter than 8 bytes, are a raw-content dictionary *)
Lemma parse_dict_raw_fallback b :
  (lenN b < 8 \/ (forall m r, read_le 4 b = Some (m, r) -> m <> MAGIC_DICT)) ->
  parse_dict b = Ok (raw_dict b).
Proof.
  intros H. unfold parse_dict. destruct (read_le 4 b) as [[m r0]|] eqn:E; [|reflexivity].
  destruct (N.eqb_spec m MAGIC_DICT) as [Em|Em]; cbn [negb]; [|reflexivity].
  destruct H as [H|H].
  - destruct (N.ltb_spec (lenN b) 8); [reflexivity|lia].
  - exfalso. exact (H m r0 eq_refl Em).
Qed.

(* a formatted dictionary that loads carries three repeat offsets inside its content, and an entropy section *)
Lemma parse_dict_formatted b d e :
  parse_dict b = Ok d -> d_entropy d = Some e ->
  let '(r1, r2, r3) := e_rep e in
  1 <= r1 <= lenN (d_content d) /\ 1 <= r2 <= lenN (d_content d) /\ 1 <= r3 <= lenN (d_content d).
Proof.
  unfold parse_dict. intros H He.
  destruct (read_le 4 b) as [[m r0]|]; [|injection H as <-; discriminate].
  destruct (negb (m =? MAGIC_DICT)); [injection H as <-; discriminate|].
  destruct (lenN b <? 8); [injection H as <-; discriminate|].
  inv_bind_as H as [id r1] Hid. inv_bind_as H as h Hh.
  inv_bind_as H as [[olog ocnt] oused] Ho. inv_bind_as H as tof Htof.
  inv_bind_as H as [[mlog mcnt] mused] Hm. inv_bind_as H as tml Html.
  inv_bind_as H as [[llog lcnt] lused] Hl. inv_bind_as H as tll Htll.
  inv_bind_as H as p1 Hp1. inv_bind_as H as p2 Hp2. inv_bind_as H as p3 Hp3.
  inv_bind_as H as [] Hg. apply guard_Ok in Hg.
  injection H as <-. cbn [d_entropy] in He. injection He as <-. cbn [e_rep d_content].
  apply andb_true_iff in Hg. destruct Hg as (G1 & Hg). apply andb_true_iff in Hg. destruct Hg as (G2 & G3).
  apply andb_true_iff in G1, G2, G3. destruct G1 as (A1 & B1). destruct G2 as (A2 & B2). destruct G3 as (A3 & B3).
  apply N.leb_le in A1, B1, A2, B2, A3, B3. lia.
Qed.

(* decoding with a dictionary: a frame naming another (non-zero) dictionary ID is refused *)
Local Opaque parse_fheader blocks_loop.
Lemma wrong_dictionary_refused cfg dc f fh r0 :
  parse_fheader (c_magicless cfg) f = Ok (fh, r0) ->
  fh_dictid fh <> 0 -> fh_dictid fh <> d_id dc ->
  exists c s, decode_frame cfg (Some dc) f = Err c s.
Proof.
  intros Hp H0 Hd. unfold decode_frame. rewrite Hp. cbn [bind].
  destruct (fh_window fh <=? c_window_max cfg); cbn [guard bind]; [|eauto].
  destruct (N.eqb_spec (fh_dictid fh) 0) as [E|E]; [contradiction|].
  destruct (N.eqb_spec (fh_dictid fh) (d_id dc)) as [E2|E2]; [contradiction|].
  cbn [orb guard bind]. eauto.
Qed.

(* ---- statistics seeded from a dictionary's Huffman table (ZSTD_rescaleFreqs, literal loop) ---- *)
(* bitCost = code length of a literal in the dictionary's Huffman table: 0 (absent) .. HUF_TABLELOG_MAX = 12 *)
Definition lit_freq_repaired (bitCost : N) : N :=
  if andb (0 <? bitCost) (bitCost <? 11) then pow2 (11 - bitCost) else 1.
(* the unrepaired code computed  1 << (11 - bitCost)  for every bitCost <> 0 : shift amount as an integer *)
Definition lit_shift_unrepaired (bitCost : N) : Z := (11 - Z.of_N bitCost)%Z.

Lemma lit_freq_repaired_bounds bitCost : 1 <= lit_freq_repaired bitCost <= 1024.
Proof.
  unfold lit_freq_repaired.
  destruct (N.ltb_spec 0 bitCost); destruct (N.ltb_spec bitCost 11); cbn [andb]; try lia.
  unfold pow2. rewrite N.shiftl_1_l.
  assert (2 ^ (11 - bitCost) <= 2 ^ 10) by (apply N.pow_le_mono_r; lia).
  assert (2 ^ (11 - bitCost) <> 0) by (apply N.pow_nonzero; lia).
  change (2 ^ 10) with 1024 in *. lia.
Qed.

(* a dictionary the loader accepts can carry cost 12: the unrepaired shift amount is then negative *)
Lemma lit_shift_unrepaired_refuted : exists bitCost, bitCost <= 12 /\ (lit_shift_unrepaired bitCost < 0)%Z.
Proof. exists 12. split; [lia|reflexivity]. Qed.
