(* C08, round 2 - which dictionary a frame is decoded with when several DDicts are referenced (ZSTD_d_refMultipleDDicts):
   ZSTD_DCtx_selectFrameDDict + the dictID check of ZSTD_decodeFrameHeader (lib/decompress/zstd_decompress.c) on top of the
   hash-set model of coq/Safety/DDictHashSet.v.  For EVERY hash function and EVERY history of ZSTD_DCtx_refDDict calls
   (any dictIDs, raw-content DDicts with dictID 0 included): the DDict the frame is decoded with carries the dictID the frame
   names, or the frame names none and the active DDict is kept, or the frame is refused.  The lookup loop as it was before
   fix d50580e is refuted by a concrete history (a raw-content DDict selected for a frame that names dictionary 26). *)
From Coq Require Import NArith List Bool Lia.
From ZV.Safety Require Import DDictHashSet DDictHashSetProofs.
Import ListNotations.
Local Open Scope N_scope.

Inductive verdict := Decode (e : entry) | Refuse | Broken.

(* [lookup] is the result of ZSTD_DDictHashSet_getDDict(set, frame dictID); [active] the DDict referenced last (dctx->ddict).
     if (frameDDict) { dctx->ddict = frameDDict; dctx->dictID = fParams.dictID; }        (selectFrameDDict)
     RETURN_ERROR_IF(fParams.dictID && dctx->dictID != fParams.dictID, dictionary_wrong)  (decodeFrameHeader)        *)
Definition decide (lookup : hres (option entry)) (active : entry) (fid : N) : verdict :=
  match lookup with
  | HOk (Some e) => Decode e                        (* dctx->dictID := fid : the check that follows cannot fail *)
  | HOk None => if (fid =? 0) || (fst active =? fid) then Decode active else Refuse
  | _ => Broken
  end.

Definition select (h : N -> N) (s : hset) (active : entry) (fid : N) : verdict := decide (get h next_fixed s fid) active fid.
Definition select_old (h : N -> N) (s : hset) (active : entry) (fid : N) : verdict := decide (get_old h next_fixed s fid) active fid.

Lemma spec_get_id l id : forall acc e, spec_get l id acc = Some e -> fst e = id \/ acc = Some e.
Proof.
  induction l as [|x t IH]; simpl; intros acc e H; [now right|].
  destruct (IH _ _ H) as [A|A]; [now left|].
  destruct (fst x =? id) eqn:E.
  - inversion A; subst. left. now apply N.eqb_eq.
  - now right.
Qed.

(* the last DDict referenced with dictID [id] wins over everything referenced before, and nothing referenced later with ANOTHER
   dictID (0 included) hides it *)
Lemma spec_get_last l1 l2 e : forall acc,
  (forall x, In x l2 -> fst x <> fst e) -> spec_get (l1 ++ e :: l2) (fst e) acc = Some e.
Proof.
  induction l1 as [|x t IH]; simpl; intros acc H.
  - rewrite N.eqb_refl. clear - H. revert H. generalize (Some e) as a. induction l2 as [|y t IH]; simpl; intros a H; [reflexivity|].
    destruct (fst y =? fst e) eqn:E.
    + apply N.eqb_eq in E. exfalso. apply (H y); auto.
    + apply IH. intros x Hx. apply H. now right.
  - apply IH, H.
Qed.

(* every history of ZSTD_DCtx_refDDict calls, every hash function, every frame dictID, every active DDict:
   never Broken (no out-of-bounds probe, no endless loop), and a frame is only ever decoded with a DDict carrying the dictID
   it names - or it names none and the active DDict serves *)
Theorem select_names_frame_dictionary : forall (h : N -> N) (l : list entry) (s : hset) (active : entry) (fid : N),
  add_all h next_fixed l create = HOk s ->
  match select h s active fid with
  | Decode e => (fid = 0 /\ e = active) \/ (fid <> 0 /\ fst e = fid)
  | Refuse => fid <> 0 /\ fst active <> fid /\ spec_get l fid None = None
  | Broken => False
  end.
Proof.
  intros h l s active fid E. unfold select.
  destruct (N.eq_dec fid 0) as [Z|NZ].
  - subst. rewrite ddict_hashset_get_zero. simpl. left; auto.
  - rewrite (ddict_hashset_finite_map h l s fid NZ E). unfold decide.
    destruct (spec_get l fid None) as [e|] eqn:G.
    + right. split; auto. destruct (spec_get_id _ _ _ _ G) as [A|A]; [auto|discriminate].
    + destruct (fid =? 0) eqn:Z; [apply N.eqb_eq in Z; contradiction|]. simpl.
      destruct (fst active =? fid) eqn:A.
      * right. split; auto. now apply N.eqb_eq.
      * split; auto. split; auto. now apply N.eqb_neq.
Qed.

(* ... and the DDict of the frame is FOUND whenever it was referenced: the last DDict referenced with the frame's dictID is the one
   used, whatever else the table holds (raw-content DDicts, hash collisions) and whichever DDict is active *)
Theorem select_finds_referenced_dictionary : forall (h : N -> N) (l1 l2 : list entry) (e active : entry) (s : hset),
  fst e <> 0 -> (forall x, In x l2 -> fst x <> fst e) ->
  add_all h next_fixed (l1 ++ e :: l2) create = HOk s ->
  select h s active (fst e) = Decode e.
Proof.
  intros h l1 l2 e active s NZ H E. unfold select.
  rewrite (ddict_hashset_finite_map h _ s (fst e) NZ E), spec_get_last; auto.
Qed.

(* the hypotheses are satisfiable, collisions included: dictIDs 0 and 26 share slot 52 of the 64-entry table *)
Example select_example :
  match add_all xxh_hash next_fixed [(0, 7); (26, 1); (777, 2)] create with
  | HOk s => select xxh_hash s (777, 2) 26 = Decode (26, 1) /\ select xxh_hash s (777, 2) 0 = Decode (777, 2) /\
             select xxh_hash s (777, 2) 21 = Refuse
  | _ => False
  end.
Proof. vm_compute. repeat split; reflexivity. Qed.

(* the lookup loop as it was before fix d50580e: table {raw-content DDict (dictID 0), DDict 777}, frame naming dictionary 26 ->
   decoded with the raw-content DDict (and dctx->dictID forced to 26, so the dictionary_wrong check passes) *)
Theorem select_old_refuted :
  match add_all xxh_hash next_fixed [(0, 7); (777, 2)] create with
  | HOk s => select_old xxh_hash s (777, 2) 26 = Decode (0, 7) /\ select xxh_hash s (777, 2) 26 = Refuse
  | _ => False
  end.
Proof. vm_compute. split; reflexivity. Qed.

(* round 3, following fix d0ddbff : the selection only replaces a REFERENCED DDict; when the current dictionary is the copy made by
   ZSTD_DCtx_loadDictionary (or a pending prefix) - [local] = true - it is left alone and the ordinary dictID check decides *)
Definition select_cur (h : N -> N) (s : hset) (local : bool) (active : entry) (fid : N) : verdict :=
  if local then decide (HOk None) active fid else select h s active fid.

Theorem select_cur_names_frame_dictionary : forall (h : N -> N) (l : list entry) (s : hset) (local : bool) (active : entry) (fid : N),
  add_all h next_fixed l create = HOk s ->
  match select_cur h s local active fid with
  | Decode e => (fid = 0 /\ e = active) \/ (fid <> 0 /\ fst e = fid)
  | Refuse => fid <> 0 /\ fst active <> fid
  | Broken => False
  end.
Proof.
  intros h l s local active fid E. unfold select_cur. destruct local.
  - unfold decide. destruct (fid =? 0) eqn:Z; cbn [orb].
    + left. apply N.eqb_eq in Z. auto.
    + apply N.eqb_neq in Z. destruct (fst active =? fid) eqn:A.
      * right. split; auto. now apply N.eqb_eq.
      * split; auto. now apply N.eqb_neq.
  - pose proof (select_names_frame_dictionary h l s active fid E) as H.
    destruct (select h s active fid); auto. destruct H as [A [B _]]. auto.
Qed.

(* a dictionary loaded into the context is never replaced by a frame, whatever the table of referenced DDicts holds *)
Theorem loaded_dictionary_never_replaced : forall (h : N -> N) (s : hset) (active e : entry) (fid : N),
  select_cur h s true active fid = Decode e -> e = active.
Proof.
  intros h s active e fid. unfold select_cur, decide. destruct ((fid =? 0) || (fst active =? fid)); intros H; inversion H; reflexivity.
Qed.

(* before d0ddbff the loaded dictionary was replaced (and freed) by the selection : table {26}, dictionary 777 loaded, frame naming 26 *)
Example loaded_dictionary_replaced_before_fix :
  match add_all xxh_hash next_fixed [(26, 1)] create with
  | HOk s => select xxh_hash s (777, 2) 26 = Decode (26, 1) /\ select_cur xxh_hash s true (777, 2) 26 = Refuse
  | _ => False
  end.
Proof. vm_compute. split; reflexivity. Qed.
