(* C05 - the window rule is a consequence of the compressor's window mechanism.

   The format allows a match offset to exceed the amount of data decoded so far (to reach the dictionary) only
   while that amount is still inside the first Window_Size bytes; every other offset must be <= Window_Size.
   The reference decoder R checks this on every match in strict mode ([offset_ok true], coq/Codec/Block.v).

   The compressor does not check offsets one by one.  Before each block, ZSTD_compress_frameChunk calls
   ZSTD_checkDictValidity (with the END of the block) and ZSTD_window_enforceMaxDist (with the START of the
   block); the match finders then accept any candidate index >= ZSTD_getLowestMatchIndex(ms, curr, windowLog)
   (all strategies; ZSTD_getLowestPrefixIndex likewise).  Those three functions are modelled in
   coq/Index/Window.v (property C15's lane, tied there to the real static functions with U32 arithmetic written
   out); this file proves, for that model, that every index a match finder may take yields an offset that passes
   R's strict window test - for every window state, block position and size, loadedDictEnd value (including the
   values for which the U32 sum loadedDictEnd + maxDist wraps), windowLog 10..31, and for every sequence of
   blocks of a frame.  Index overflow correction (which renumbers indices, keeping distances) is C15's subject
   and is not repeated here: the statement is per frame segment between two corrections. *)
From Coq Require Import ZArith NArith Bool List Lia.
From ZV.Index Require Import Window.
From ZV.Codec Require Import Bytes Block.
Import ListNotations.
Local Open Scope Z_scope.

(* the window part of one iteration of the block loop of ZSTD_compress_frameChunk (zstd_compress.c):
     ZSTD_checkDictValidity(&ms->window, ip + blockSize, maxDist, &ms->loadedDictEnd, &ms->dictMatchState);
     ZSTD_window_enforceMaxDist(&ms->window, ip, maxDist, &ms->loadedDictEnd, &ms->dictMatchState);
   returns the window and loadedDictEnd the block is searched with *)
Definition block_prepare (w : window) (lde ip bs maxDist : Z) : window * Z :=
  let '(lde2, dms2) := checkDictValidity w (ip + bs) maxDist lde false in
  let '(w3, lde3, _) := window_enforceMaxDist w ip maxDist (Some lde2) (Some dms2) in
  (w3, match lde3 with Some v => v | None => lde2 end).

(* the block loop over a list of block sizes, collecting the (window, loadedDictEnd, ip, size) each block is searched with *)
Fixpoint blocks_prepare (w : window) (lde ip maxDist : Z) (blocks : list Z) : list (window * Z * Z * Z) :=
  match blocks with
  | [] => []
  | bs :: rest =>
      let '(w3, lde3) := block_prepare w lde ip bs maxDist in
      (w3, lde3, ip, bs) :: blocks_prepare w3 lde3 (ip + bs) maxDist rest
  end.

(* the format's rule, on integers: [pos] bytes of the frame are decoded when the match starts *)
Definition window_rule (maxDist pos off : Z) : Prop :=
  (off <= pos -> off <= maxDist) /\ (pos < off -> pos <= maxDist).

(* the window clause of R's strict offset test *)
Definition window_clause (window pos off : N) : bool :=
  if (off <=? pos)%N then (off <=? window)%N else (pos <=? window)%N.

Lemma offset_ok_clause window x off :
  offset_ok true window x off = ((1 <=? off)%N && ((off <=? x_avail x)%N && window_clause window (x_pos x) off)).
Proof. reflexivity. Qed.

Lemma window_rule_clause maxDist pos off : 0 <= maxDist -> 0 <= pos -> 0 <= off ->
  window_rule maxDist pos off -> window_clause (Z.to_N maxDist) (Z.to_N pos) (Z.to_N off) = true.
Proof.
  intros Hm Hp Ho (H1 & H2). unfold window_clause.
  destruct (N.leb_spec (Z.to_N off) (Z.to_N pos)) as [L|L].
  - apply N.leb_le. rewrite <- Z2N.inj_le in L by lia. rewrite <- Z2N.inj_le by lia. auto.
  - apply N.leb_le. rewrite <- Z2N.inj_lt in L by lia. rewrite <- Z2N.inj_le by lia. auto.
Qed.

Lemma u32_small x : 0 <= x < two32 -> u32 x = x.
Proof. intros H. unfold u32. apply Z.mod_small. exact H. Qed.

Lemma u32_wrap x : two32 <= x < 2 * two32 -> u32 x = x - two32.
Proof.
  intros H. unfold u32. symmetry. apply (Z.mod_unique x two32 1 (x - two32)).
  - left. unfold two32 in *. lia.
  - ring.
Qed.

Lemma shiftl_pow wl : 0 <= wl -> Z.shiftl 1 wl = 2 ^ wl.
Proof. intros H. rewrite Z.shiftl_mul_pow2 by exact H. ring. Qed.

Lemma pow_bounds wl : 10 <= wl <= 31 -> 1024 <= 2 ^ wl <= 2147483648.
Proof.
  intros (H1 & H2). split.
  - change 1024 with (2 ^ 10). apply Z.pow_le_mono_r; lia.
  - change 2147483648 with (2 ^ 31). apply Z.pow_le_mono_r; lia.
Qed.

(* what a block may assume, and what it leaves to the next one.  [s] is the index at which the frame's content
   starts (= loadedDictEnd as set by ZSTD_loadDictionaryContent when a dictionary is in use). *)
Record seg_ok (w : window) (lde s i0 : Z) : Prop := {
  so_low : 0 <= lowLimit w <= i0;
  so_s : 0 <= s <= i0;
  so_lde : lde = 0 \/ lde = s;
  so_i0 : i0 < two32 }.

Lemma block_prepare_sound w lde s ip bs wl :
  10 <= wl <= 31 ->
  let maxDist := u32 (Z.shiftl 1 wl) in
  let i0 := ip - base w in
  seg_ok w lde s i0 -> 0 <= bs -> i0 + bs < two32 ->
  let '(w3, lde3) := block_prepare w lde ip bs maxDist in
  maxDist = 2 ^ wl /\
  base w3 = base w /\ seg_ok w3 lde3 s (i0 + bs) /\ lowLimit w <= lowLimit w3 <= i0 /\
  (lde3 <> 0 -> i0 + bs <= s + maxDist) /\
  forall curr m, i0 <= curr < i0 + bs ->
    getLowestMatchIndex w3 lde3 curr wl <= m < curr ->
    window_rule maxDist (curr - s) (curr - m).
Proof.
  intros Hwl maxDist i0 [Hlow Hs Hlde Hi0] Hbs Hend.
  assert (Hmd : maxDist = 2 ^ wl).
  { unfold maxDist. rewrite shiftl_pow by lia. apply u32_small. pose proof (pow_bounds wl Hwl). unfold two32. lia. }
  pose proof (pow_bounds wl Hwl) as Hpb. rewrite <- Hmd in Hpb.
  unfold block_prepare, checkDictValidity.
  assert (Eend : idx w (ip + bs) = i0 + bs).
  { unfold idx. replace (ip + bs - base w) with (i0 + bs) by (unfold i0; ring). apply u32_small. lia. }
  assert (Eip : idx w ip = i0).
  { unfold idx. fold i0. apply u32_small. lia. }
  rewrite Eend.
  (* after ZSTD_checkDictValidity: lde2 is 0, or it is s and the block ends within maxDist of s *)
  set (fired := (i0 + bs >? u32 (lde + maxDist)) || negb (lde =? dictLimit w)).
  assert (H2 : forall lde2 dms2, (if fired then (0, false) else (lde, false)) = (lde2, dms2) ->
               lde2 = 0 \/ (lde2 = s /\ lde2 <> 0 /\ i0 + bs <= s + maxDist /\ s + maxDist < two32)).
  { intros lde2 dms2 E. destruct fired eqn:F; inversion E; subst; [left; reflexivity|].
    destruct Hlde as [Hl|Hl]; [left; exact Hl|].
    destruct (Z.eq_dec lde2 0) as [Z0|NZ]; [left; exact Z0|]. right.
    unfold fired in F. apply orb_false_iff in F. destruct F as (F & _).
    destruct (Z_lt_dec (lde2 + maxDist) two32) as [S|S].
    - rewrite u32_small in F by lia. destruct (Z.gtb_spec (i0 + bs) (lde2 + maxDist)); [discriminate|]. lia.
    - exfalso. rewrite u32_wrap in F by (unfold two32 in *; lia).
      destruct (Z.gtb_spec (i0 + bs) (lde2 + maxDist - two32)); [discriminate|]. unfold two32 in *. lia. }
  destruct (if fired then (0, false) else (lde, false)) as (lde2, dms2) eqn:E2.
  specialize (H2 lde2 dms2 eq_refl).
  unfold window_enforceMaxDist. rewrite Eip.
  assert (Esum : u32 (maxDist + lde2) = maxDist + lde2).
  { apply u32_small. destruct H2 as [Z0|(Es & _ & _ & Hs2)]; [subst; unfold two32; lia|subst; lia]. }
  rewrite Esum.
  destruct (Z.gtb_spec i0 (maxDist + lde2)) as [G|G].
  - (* the window slides: lowLimit >= i0 - maxDist, loadedDictEnd cleared *)
    assert (Enew : u32 (i0 - maxDist) = i0 - maxDist) by (apply u32_small; lia).
    rewrite Enew.
    set (w1 := if lowLimit w <? i0 - maxDist then set_low w (i0 - maxDist) else w).
    assert (L1 : lowLimit w1 = Z.max (lowLimit w) (i0 - maxDist) /\ base w1 = base w).
    { unfold w1. destruct (Z.ltb_spec (lowLimit w) (i0 - maxDist)); cbn; split; try reflexivity; lia. }
    set (w2 := if dictLimit w1 <? lowLimit w1 then set_dictLimit w1 (lowLimit w1) else w1).
    assert (L2 : lowLimit w2 = lowLimit w1 /\ base w2 = base w1).
    { unfold w2. destruct (dictLimit w1 <? lowLimit w1); cbn; split; reflexivity. }
    destruct L1 as (L1 & B1). destruct L2 as (L2 & B2).
    split; [exact Hmd|]. split; [congruence|].
    split; [constructor; [rewrite L2, L1; lia|lia|left; reflexivity|lia]|].
    split; [rewrite L2, L1; lia|]. split; [intros C; contradiction C; reflexivity|].
    intros curr m Hc Hm. unfold getLowestMatchIndex, lowest_index in Hm. fold maxDist in Hm. cbn [Z.eqb negb] in Hm.
    rewrite L2, L1 in Hm.
    rewrite (u32_small (curr - _)) in Hm by lia.
    unfold window_rule.
    destruct (Z.gtb_spec (curr - Z.max (lowLimit w) (i0 - maxDist)) maxDist) as [G2|G2].
    + rewrite u32_small in Hm by lia. lia.
    + lia.
  - (* no sliding yet *)
    split; [exact Hmd|]. split; [reflexivity|].
    split; [constructor; [lia|lia|destruct H2 as [Z0|(Es & _)]; [left|right]; assumption|lia]|].
    split; [lia|]. split; [intros C; destruct H2 as [Z0|(Es & _ & Hb & _)]; [contradiction|lia]|].
    intros curr m Hc Hm. unfold getLowestMatchIndex, lowest_index in Hm. fold maxDist in Hm.
    rewrite (u32_small (curr - _)) in Hm by lia.
    unfold window_rule.
    destruct H2 as [Z0|(Es & NZ & Hb & _)].
    + subst lde2. cbn [Z.eqb negb] in Hm.
      destruct (Z.gtb_spec (curr - lowLimit w) maxDist) as [G2|G2].
      * rewrite u32_small in Hm by lia. lia.
      * lia.
    + (* the dictionary is still valid: the whole block lies within maxDist of the start of the frame *)
      lia.
Qed.

(* every block of a frame segment: whatever the block sizes, each block is searched with a window state from
   which only offsets obeying the format's rule can come *)
Definition block_rule (s wl : Z) (e : window * Z * Z * Z) : Prop :=
  let '(w3, lde3, ip, bs) := e in
  forall curr m, ip - base w3 <= curr < ip - base w3 + bs ->
    getLowestMatchIndex w3 lde3 curr wl <= m < curr ->
    window_rule (2 ^ wl) (curr - s) (curr - m).

Lemma blocks_prepare_sound wl s : 10 <= wl <= 31 ->
  forall blocks w lde ip,
  seg_ok w lde s (ip - base w) ->
  Forall (fun bs => 0 <= bs) blocks ->
  ip - base w + fold_right Z.add 0 blocks < two32 ->
  Forall (block_rule s wl) (blocks_prepare w lde ip (u32 (Z.shiftl 1 wl)) blocks).
Proof.
  intros Hwl. induction blocks as [|bs rest IH]; intros w lde ip Hok Hpos Hsum; [constructor|].
  cbn [blocks_prepare fold_right] in *. inversion Hpos as [|? ? Hb Hrest]; subst.
  assert (Hrs : 0 <= fold_right Z.add 0 rest).
  { clear - Hrest. induction Hrest; cbn; lia. }
  pose proof (block_prepare_sound w lde s ip bs wl Hwl Hok Hb) as P. cbv zeta in P.
  destruct (block_prepare w lde ip bs (u32 (Z.shiftl 1 wl))) as (w3, lde3).
  destruct P as (Hmd & Hbase & Hok3 & _ & _ & Hrule); [lia|].
  constructor.
  - unfold block_rule. rewrite Hbase, <- Hmd. exact Hrule.
  - apply IH; try assumption.
    + rewrite Hbase. replace (ip + bs - base w) with (ip - base w + bs) by ring. exact Hok3.
    + rewrite Hbase. lia.
Qed.

(* ---- the long-distance matcher: ZSTD_ldm_generateSequences calls only ZSTD_window_enforceMaxDist, with the END of the
        chunk and its own loadedDictEnd, then takes candidates >= lowLimit (extDict) or >= dictLimit (prefix only) ---- *)
Lemma ldm_chunk_sound w lde s chunkStart n wl :
  10 <= wl <= 31 ->
  let maxDist := u32 (Z.shiftl 1 wl) in
  let i0 := chunkStart - base w in
  seg_ok w lde s i0 -> 0 <= n -> i0 + n < two32 -> lde + maxDist < two32 ->
  let '(w3, lde3, _) := window_enforceMaxDist w (chunkStart + n) maxDist (Some lde) None in
  base w3 = base w /\ lowLimit w <= lowLimit w3 /\
  forall curr m, i0 <= curr < i0 + n -> lowLimit w3 <= m < curr ->
    window_rule maxDist (curr - s) (curr - m).
Proof.
  intros Hwl maxDist i0 [Hlow Hs Hlde Hi0] Hn Hend Hsum.
  assert (Hmd : maxDist = 2 ^ wl).
  { unfold maxDist. rewrite shiftl_pow by lia. apply u32_small. pose proof (pow_bounds wl Hwl). unfold two32. lia. }
  pose proof (pow_bounds wl Hwl) as Hpb. rewrite <- Hmd in Hpb.
  unfold window_enforceMaxDist.
  assert (Eend : idx w (chunkStart + n) = i0 + n).
  { unfold idx. replace (chunkStart + n - base w) with (i0 + n) by (unfold i0; ring). apply u32_small. lia. }
  rewrite Eend. rewrite (u32_small (maxDist + lde)) by (destruct Hlde; subst; lia).
  destruct (Z.gtb_spec (i0 + n) (maxDist + lde)) as [G|G].
  - rewrite (u32_small (i0 + n - maxDist)) by lia.
    set (w1 := if lowLimit w <? i0 + n - maxDist then set_low w (i0 + n - maxDist) else w).
    assert (L1 : lowLimit w1 = Z.max (lowLimit w) (i0 + n - maxDist) /\ base w1 = base w).
    { unfold w1. destruct (Z.ltb_spec (lowLimit w) (i0 + n - maxDist)); cbn; split; try reflexivity; lia. }
    set (w2 := if dictLimit w1 <? lowLimit w1 then set_dictLimit w1 (lowLimit w1) else w1).
    assert (L2 : lowLimit w2 = lowLimit w1 /\ base w2 = base w1).
    { unfold w2. destruct (dictLimit w1 <? lowLimit w1); cbn; split; reflexivity. }
    destruct L1 as (L1 & B1). destruct L2 as (L2 & B2).
    split; [congruence|]. split; [lia|].
    intros curr m Hc Hm. rewrite L2, L1 in Hm. unfold window_rule. lia.
  - split; [reflexivity|]. split; [lia|].
    intros curr m Hc Hm. unfold window_rule. destruct Hlde as [Z0|Es]; subst; lia.
Qed.

(* the hypotheses are satisfiable: a 1000-byte dictionary at indices 2..1001 (ZSTD_WINDOW_START_INDEX = 2), now the
   external segment (dictLimit = loadedDictEnd = 1002), the frame's content from index 1002, windowLog 10, three blocks *)
Example blocks_prepare_example :
  let w := mkWindow 5002 4000 0 1002 2 0 in
  seg_ok w 1002 1002 (5002 - base w) /\
  map (fun e => let '(w3, lde3, _, _) := e in (lowLimit w3, lde3)) (blocks_prepare w 1002 5002 (u32 (Z.shiftl 1 10)) [1024; 1024; 500])
  = [(2, 1002); (1002, 0); (2026, 0)].
Proof. split; [constructor; cbn; unfold two32; lia|vm_compute; reflexivity]. Qed.
