(* C06 - the frame inspectors on ARBITRARY byte strings (valid or not):
   the compressed size they report never exceeds the source, every step makes progress, and the
   fuel of the model loops is never the reason for an answer. *)
From Coq Require Import ZArith List Bool Lia.
From ZV.Gen Require Gen_Tables.
From ZV.Codec Require Import FrameInspect FrameInspectProofs.
Import ListNotations.
Local Open Scope Z_scope.
Ltac Zify.zify_post_hook ::= Z.div_mod_to_equations.

Definition byte_ok (b : Z) : Prop := 0 <= b < 256.
Definition bytes_ok (l : list Z) : Prop := Forall byte_ok l.

Lemma Some_inj : forall (A : Type) (a b : A), Some a = Some b -> a = b.
Proof. intros. congruence. Qed.

(* ---- drop_exact ---- *)
Lemma drop_exact_split : forall l k r, drop_exact l k = Some r ->
  exists p, l = p ++ r /\ len p = Z.max 0 k.
Proof.
  induction l as [|x t IH]; intros k r H; cbn [drop_exact] in H.
  - destruct (Z.leb_spec k 0); [|discriminate]. injection H as <-. exists []. split; [reflexivity|]. rewrite len_nil. lia.
  - destruct (Z.leb_spec k 0).
    + injection H as <-. exists []. split; [reflexivity|]. rewrite len_nil. lia.
    + destruct (IH _ _ H) as [p [E L]]. exists (x :: p). split.
      * cbn [app]. rewrite E at 1. reflexivity.
      * rewrite len_cons, L. lia.
Qed.

Lemma drop_exact_len : forall l k r, drop_exact l k = Some r -> len r = len l - Z.max 0 k /\ Z.max 0 k <= len l.
Proof.
  intros l k r H. destruct (drop_exact_split _ _ _ H) as [p [E L]]. subst l.
  rewrite len_app. pose proof (len_nonneg _ r). lia.
Qed.

Lemma drop_exact_bytes : forall l k r, bytes_ok l -> drop_exact l k = Some r -> bytes_ok r.
Proof.
  intros l k r B H. destruct (drop_exact_split _ _ _ H) as [p [E _]]. subst l.
  unfold bytes_ok in *. apply Forall_app in B. tauto.
Qed.

Lemma drop_exact_length_nat : forall l k r, drop_exact l k = Some r -> 0 < k -> (length r < length l)%nat.
Proof.
  intros l k r H K. destruct (drop_exact_len _ _ _ H) as [E _]. rewrite !len_spec in E. lia.
Qed.

(* ---- little endian of bytes ---- *)
Lemma le_nonneg : forall l, bytes_ok l -> 0 <= le l.
Proof.
  induction l as [|b t IH]; intros B; cbn [le]; [lia|].
  inversion B as [|? ? Hb Ht]; subst. specialize (IH Ht). unfold byte_ok in Hb. lia.
Qed.
Lemma bytes_ok_firstn : forall k l, bytes_ok l -> bytes_ok (firstn k l).
Proof.
  intros k l B. unfold bytes_ok in *. rewrite <- (firstn_skipn k l) in B. apply Forall_app in B. tauto.
Qed.
Lemma bytes_ok_skipn : forall k l, bytes_ok l -> bytes_ok (skipn k l).
Proof.
  intros k l B. unfold bytes_ok in *. rewrite <- (firstn_skipn k l) in B. apply Forall_app in B. tauto.
Qed.

(* ---- block headers ---- *)
Lemma get_cblock_size_nonneg : forall src cs bt last orig, bytes_ok src ->
  get_cblock_size src = Some (cs, bt, last, orig) -> 0 <= cs < 2 ^ 21.
Proof.
  intros src cs bt last orig B H. unfold get_cblock_size in H.
  destruct src as [|b0 [|b1 [|b2 t]]]; try discriminate.
  inversion B as [|? ? H0 B1]; subst. inversion B1 as [|? ? H1 B2]; subst. inversion B2 as [|? ? H2 _]; subst.
  unfold byte_ok in *. cbv zeta in H.
  set (h := b0 + 256 * b1 + 65536 * b2) in *.
  assert (Hh : 0 <= h < 2 ^ 24) by (subst h; change (2 ^ 24) with 16777216; lia).
  change (2 ^ 24) with 16777216 in Hh. change (2 ^ 21) with 2097152.
  destruct ((h / 2) mod 4 =? 1).
  - injection H as <- _ _ _. lia.
  - destruct ((h / 2) mod 4 =? 3); [discriminate|]. injection H as <- _ _ _. lia.
Qed.

(* ---- the block walk: accounting and progress ---- *)
Lemma walk_blocks_account : forall fuel src consumed nb rest consumed' nb',
  bytes_ok src ->
  walk_blocks fuel src consumed nb = Some (rest, consumed', nb') ->
  consumed' - consumed = len src - len rest /\ consumed + BHSZ <= consumed' /\ nb < nb' /\
  (exists p, src = p ++ rest).
Proof.
  induction fuel as [|f0 fuel IH]; intros src consumed nb rest consumed' nb' B H; cbn [walk_blocks] in H; [discriminate|].
  destruct (get_cblock_size src) as [[[[cs bt] last] orig]|] eqn:G; [|discriminate].
  pose proof (get_cblock_size_nonneg _ _ _ _ _ B G) as Hcs.
  destruct (drop_exact src (BHSZ + cs)) as [r|] eqn:D; [|discriminate].
  destruct (drop_exact_len _ _ _ D) as [L1 L2].
  destruct (drop_exact_split _ _ _ D) as [p [Ep _]].
  rewrite BHSZ_val in *.
  destruct last.
  - injection H as <- <- <-. repeat split; try lia. exists p. exact Ep.
  - apply IH in H; [|eapply drop_exact_bytes; eauto].
    destruct H as [A1 [A2 [A3 [q Eq]]]]. repeat split; try lia.
    exists (p ++ q). rewrite <- app_assoc, <- Eq. exact Ep.
Qed.

(* fuel: any fuel longer than the input gives the same answer (every block consumes at least 3 bytes) *)
Lemma walk_blocks_fuel : forall f1 f2 src consumed nb,
  bytes_ok src -> (length src < length f1)%nat -> (length src < length f2)%nat ->
  walk_blocks f1 src consumed nb = walk_blocks f2 src consumed nb.
Proof.
  induction f1 as [|a f1 IH]; intros f2 src consumed nb B L1 L2; [cbn [length] in L1; lia|].
  destruct f2 as [|b f2]; [cbn [length] in L2; lia|].
  cbn [walk_blocks].
  destruct (get_cblock_size src) as [[[[cs bt] last] orig]|] eqn:G; [|reflexivity].
  pose proof (get_cblock_size_nonneg _ _ _ _ _ B G) as Hcs.
  destruct (drop_exact src (BHSZ + cs)) as [r|] eqn:D; [|reflexivity].
  destruct last; [reflexivity|].
  assert (length r < length src)%nat by (eapply drop_exact_length_nat; eauto; rewrite BHSZ_val; lia).
  cbn [length] in L1, L2.
  apply IH; [eapply drop_exact_bytes; eauto | lia | lia].
Qed.

(* ---- frame header: the size it reports ---- *)
Lemma frame_header_size_range : forall src z, frame_header_size src = Some z -> MIN_INPUT <= z.
Proof.
  intros src z H. unfold frame_header_size in H.
  destruct (len src <? MIN_INPUT); [discriminate|]. cbv zeta in H. apply Some_inj in H. subst z.
  set (fhd := nth (Z.to_nat (MIN_INPUT - 1)) src 0).
  assert (H1 : 0 <= (fhd / 32) mod 2 <= 1) by lia.
  assert (H2 : 0 <= did_size (fhd mod 4)) by (unfold did_size; lia).
  assert (H3 : 0 <= fcs_size (fhd / 64)) by (unfold fcs_size; lia).
  destruct (((fhd / 32) mod 2 =? 1) && (fhd / 64 =? 0));
    generalize dependent ((fhd / 32) mod 2); generalize dependent (did_size (fhd mod 4));
    generalize dependent (fcs_size (fhd / 64)); intros; lia.
Qed.

Lemma get_frame_header_hsize : forall src h, get_frame_header src = HOk h ->
  0 <= fh_hsize h <= len src /\ (fh_skippable h = false -> MIN_INPUT <= fh_hsize h).
Proof.
  intros src h H. unfold get_frame_header in H. cbv zeta in H.
  destruct (Z.ltb_spec (len src) MIN_INPUT) as [Hs|Hs].
  - destruct (_ && _); discriminate.
  - destruct (negb (le (firstn 4 src) =? MAGIC)).
    + destruct (is_skippable_magic (le (firstn 4 src))); [|discriminate].
      destruct (len src <? SKIPHDR); [discriminate|]. injection H as <-. cbn [fh_hsize fh_skippable].
      rewrite MIN_INPUT_val in Hs. split; [lia|discriminate].
    + destruct (frame_header_size src) as [z|] eqn:F; [|discriminate].
      pose proof (frame_header_size_range _ _ F) as Hz.
      destruct (Z.ltb_spec (len src) z); [discriminate|].
      destruct (negb _); [discriminate|].
      destruct (_ && _); [discriminate|].
      injection H as <-. cbn [fh_hsize fh_skippable]. rewrite MIN_INPUT_val in *. split; [lia|intros; lia].
Qed.

(* ---- skippable frames ---- *)
Lemma read_skippable_within : forall src s, bytes_ok src ->
  read_skippable_frame_size src = Some s -> SKIPHDR <= s <= len src.
Proof.
  intros src s B H. unfold read_skippable_frame_size in H.
  destruct (len src <? SKIPHDR); [discriminate|]. cbv zeta in H.
  set (sz := le (firstn 4 (skipn (Z.to_nat FRAMEIDSIZE) src))) in *.
  assert (0 <= sz) by (apply le_nonneg, bytes_ok_firstn, bytes_ok_skipn, B).
  destruct (_ <? sz); [discriminate|].
  destruct (Z.gtb_spec (SKIPHDR + sz) (len src)); [discriminate|].
  apply Some_inj in H. subst s. lia.
Qed.

(* ---- ZSTD_findFrameSizeInfo on arbitrary bytes ---- *)
Theorem find_frame_size_info_within : forall src i, bytes_ok src ->
  find_frame_size_info src = Some i ->
  0 < fsi_csize i <= len src /\ 0 <= fsi_nb i.
Proof.
  intros src i B H. unfold find_frame_size_info in H.
  destruct (_ && _).
  - destruct (read_skippable_frame_size src) as [s|] eqn:R; [|discriminate].
    apply Some_inj in H. subst i. cbn [fsi_csize fsi_nb]. pose proof (read_skippable_within _ _ B R). rewrite SKIPHDR_val in *. lia.
  - destruct (get_frame_header src) as [h| |] eqn:G; try discriminate.
    destruct (get_frame_header_hsize _ _ G) as [Hh _].
    destruct (drop_exact src (fh_hsize h)) as [body|] eqn:D; [|discriminate].
    destruct (drop_exact_len _ _ _ D) as [L1 L2].
    pose proof (drop_exact_bytes _ _ _ B D) as Bb.
    destruct (walk_blocks (0 :: body) body (fh_hsize h) 0) as [[[rest consumed] nb]|] eqn:W; [|discriminate].
    destruct (walk_blocks_account _ _ _ _ _ _ _ Bb W) as [A1 [A2 [A3 _]]].
    rewrite BHSZ_val in A2. pose proof (len_nonneg _ rest) as Hr.
    destruct (fh_chk h).
    + destruct (drop_exact rest 4) as [r4|] eqn:D4; [|discriminate].
      destruct (drop_exact_len _ _ _ D4) as [L3 L4].
      apply Some_inj in H. subst i. cbn [fsi_csize fsi_nb]. rewrite CKSZ_val. lia.
    + apply Some_inj in H. subst i. cbn [fsi_csize fsi_nb]. lia.
Qed.

Corollary find_frame_compressed_size_within : forall src s, bytes_ok src ->
  find_frame_compressed_size src = Some s -> 0 < s <= len src.
Proof.
  intros src s B H. unfold find_frame_compressed_size in H.
  destruct (find_frame_size_info src) as [i|] eqn:F; [|discriminate]. injection H as <-.
  apply (find_frame_size_info_within _ _ B F).
Qed.

(* ---- the multi-frame loops: fuel is never the reason for an answer ---- *)
Lemma decompress_bound_loop_fuel : forall f1 f2 src acc,
  bytes_ok src -> (length src <= length f1)%nat -> (length src <= length f2)%nat ->
  decompress_bound_loop f1 src acc = decompress_bound_loop f2 src acc.
Proof.
  induction f1 as [|a f1 IH]; intros f2 src acc B L1 L2.
  - destruct src; [|cbn [length] in L1; lia]. destruct f2; reflexivity.
  - destruct src as [|x t]; [destruct f2; reflexivity|].
    destruct f2 as [|b f2]; [cbn [length] in L2; lia|].
    cbn [decompress_bound_loop].
    destruct (find_frame_size_info (x :: t)) as [i|] eqn:F; [|reflexivity].
    destruct (find_frame_size_info_within _ _ B F) as [[P1 P2] _].
    destruct (_ =? CS_ERROR); [reflexivity|].
    destruct (drop_exact (x :: t) (fsi_csize i)) as [r|] eqn:D; [|reflexivity].
    pose proof (drop_exact_length_nat _ _ _ D P1).
    cbn [length] in *. apply IH; [eapply drop_exact_bytes; eauto | lia | lia].
Qed.

Theorem decompress_bound_fuel_irrelevant : forall fuel src, bytes_ok src -> (length src <= length fuel)%nat ->
  decompress_bound_loop fuel src 0 = decompress_bound src.
Proof. intros. unfold decompress_bound. apply decompress_bound_loop_fuel; auto. Qed.

Lemma decompression_margin_loop_fuel : forall f1 f2 src m b,
  bytes_ok src -> (length src <= length f1)%nat -> (length src <= length f2)%nat ->
  decompression_margin_loop f1 src m b = decompression_margin_loop f2 src m b.
Proof.
  induction f1 as [|a f1 IH]; intros f2 src m b B L1 L2.
  - destruct src; [|cbn [length] in L1; lia]. destruct f2; reflexivity.
  - destruct src as [|x t]; [destruct f2; reflexivity|].
    destruct f2 as [|c f2]; [cbn [length] in L2; lia|].
    cbn [decompression_margin_loop].
    destruct (get_frame_header (x :: t)) as [h|n|] eqn:G.
    + destruct (find_frame_size_info (x :: t)) as [i|] eqn:F; [|reflexivity].
      destruct (find_frame_size_info_within _ _ B F) as [[P1 P2] _].
      destruct (_ =? CS_ERROR); [reflexivity|].
      destruct (drop_exact (x :: t) (fsi_csize i)) as [r|] eqn:D; [|reflexivity].
      pose proof (drop_exact_length_nat _ _ _ D P1).
      pose proof (drop_exact_bytes _ _ _ B D).
      cbn [length] in *.
      destruct (fh_skippable h); apply IH; auto; lia.
    + destruct (find_frame_size_info (x :: t)) as [i|]; [|reflexivity].
      destruct (_ =? CS_ERROR); reflexivity.
    + reflexivity.
Qed.

Theorem decompression_margin_fuel_irrelevant : forall fuel src, bytes_ok src -> (length src <= length fuel)%nat ->
  decompression_margin_loop fuel src 0 0 = decompression_margin src.
Proof. intros. unfold decompression_margin. apply decompression_margin_loop_fuel; auto. Qed.

(* the answer of the decompression-bound walk, when there is one, accounts for the whole source:
   the frames it walked tile the input exactly *)
Lemma decompress_bound_loop_some_tiles : forall fuel src acc v,
  bytes_ok src -> decompress_bound_loop fuel src acc = Some v ->
  exists sizes, Forall (fun s => 0 < s) sizes /\ fold_right Z.add 0 sizes = len src.
Proof.
  induction fuel as [|a fuel IH]; intros src acc v B H.
  - destruct src; [|discriminate]. exists []. split; [constructor|reflexivity].
  - destruct src as [|x t]; [exists []; split; [constructor|reflexivity]|].
    cbn [decompress_bound_loop] in H.
    destruct (find_frame_size_info (x :: t)) as [i|] eqn:F; [|discriminate].
    destruct (find_frame_size_info_within _ _ B F) as [[P1 P2] _].
    destruct (_ =? CS_ERROR); [discriminate|].
    destruct (drop_exact (x :: t) (fsi_csize i)) as [r|] eqn:D; [|discriminate].
    destruct (drop_exact_len _ _ _ D) as [L1 L2].
    destruct (IH _ _ _ (drop_exact_bytes _ _ _ B D) H) as [sz [S1 S2]].
    exists (fsi_csize i :: sz). split; [constructor; auto|]. cbn [fold_right]. lia.
Qed.

Theorem decompress_bound_some_tiles : forall src v, bytes_ok src -> decompress_bound src = Some v ->
  exists sizes, Forall (fun s => 0 < s) sizes /\ fold_right Z.add 0 sizes = len src.
Proof. intros src v B H. eapply decompress_bound_loop_some_tiles; eauto. Qed.

(* ======================================================================== *)
(* the reported frame is self-delimiting: nothing after it is looked at       *)
(* ======================================================================== *)
(* ---- list accessors only look at a prefix ---- *)
Lemma nth_app_prefix : forall (p x : list Z) k, (k < length p)%nat -> nth k (p ++ x) 0 = nth k p 0.
Proof. intros. apply app_nth1. assumption. Qed.

Lemma firstn_skipn_app_prefix : forall (p x : list Z) a b, (a + b <= length p)%nat ->
  firstn a (skipn b (p ++ x)) = firstn a (skipn b p).
Proof.
  intros p x a b H. rewrite skipn_app. rewrite firstn_app.
  replace (b - length p)%nat with 0%nat by lia. cbn [skipn].
  rewrite skipn_length. replace (a - (length p - b))%nat with 0%nat by lia. cbn [firstn]. apply app_nil_r.
Qed.

Lemma firstn_app_prefix : forall (p x : list Z) a, (a <= length p)%nat -> firstn a (p ++ x) = firstn a p.
Proof. intros p x a H. apply (firstn_skipn_app_prefix p x a 0). lia. Qed.

Lemma len_nat : forall (p : list Z) k, Z.of_nat k <= len p -> (k <= length p)%nat.
Proof. intros p k H. rewrite len_spec in H. lia. Qed.

(* ---- the frame header is determined by its first headerSize bytes ---- *)
Lemma frame_header_size_prefix : forall p x, MIN_INPUT <= len p ->
  frame_header_size (p ++ x) = frame_header_size p.
Proof.
  intros p x H. unfold frame_header_size. rewrite len_app. pose proof (len_nonneg _ x).
  destruct (Z.ltb_spec (len p + len x) MIN_INPUT); [lia|]. destruct (Z.ltb_spec (len p) MIN_INPUT); [lia|].
  rewrite nth_app_prefix; [reflexivity|]. rewrite MIN_INPUT_val in *. rewrite len_spec in H. change (Z.to_nat (5 - 1)) with 4%nat. lia.
Qed.

Lemma frame_header_size_upper : forall src z, bytes_ok src -> frame_header_size src = Some z -> 6 <= z <= 18.
Proof.
  intros src z B H. unfold frame_header_size in H.
  destruct (Z.ltb_spec (len src) MIN_INPUT); [discriminate|]. cbv zeta in H. apply Some_inj in H. subst z.
  rewrite MIN_INPUT_val in *. change (Z.to_nat (5 - 1)) with 4%nat.
  assert (Hb : byte_ok (nth 4 src 0)).
  { unfold bytes_ok in B. rewrite Forall_forall in B. apply B. apply nth_In. rewrite len_spec in H0. lia. }
  unfold byte_ok in Hb. set (fhd := nth 4 src 0) in *.
  assert (Hd : fhd mod 4 = 0 \/ fhd mod 4 = 1 \/ fhd mod 4 = 2 \/ fhd mod 4 = 3) by lia.
  assert (Hf : fhd / 64 = 0 \/ fhd / 64 = 1 \/ fhd / 64 = 2 \/ fhd / 64 = 3) by lia.
  assert (Hs : (fhd / 32) mod 2 = 0 \/ (fhd / 32) mod 2 = 1) by lia.
  destruct did_size_vals as (D0 & D1 & D2 & D3). destruct fcs_size_vals as (C0 & C1 & C2 & C3).
  destruct Hd as [Hd|[Hd|[Hd|Hd]]]; rewrite Hd; rewrite ?D0, ?D1, ?D2, ?D3;
  destruct Hf as [Hf|[Hf|[Hf|Hf]]]; rewrite Hf; rewrite ?C0, ?C1, ?C2, ?C3;
  destruct Hs as [Hs|Hs]; rewrite Hs; cbn; lia.
Qed.

Ltac simp_consts :=
  change (did_width_switch 0) with 0%nat in *; change (did_width_switch 1) with 1%nat in *;
  change (did_width_switch 2) with 2%nat in *; change (did_width_switch 3) with 4%nat in *;
  change (0 =? 0) with true in *; change (1 =? 0) with false in *; change (2 =? 0) with false in *; change (3 =? 0) with false in *;
  change (0 =? 1) with false in *; change (1 =? 1) with true in *; change (2 =? 1) with false in *; change (3 =? 1) with false in *;
  change (0 =? 2) with false in *; change (1 =? 2) with false in *; change (2 =? 2) with true in *; change (3 =? 2) with false in *;
  cbn [andb negb] in *; cbv iota in *.

Lemma gfh_local : forall p x y z, bytes_ok p -> le (firstn 4 p) = MAGIC ->
  frame_header_size p = Some z -> z <= len p ->
  get_frame_header (p ++ x) = get_frame_header (p ++ y).
Proof.
  intros p x y z B Hm Hz Hl.
  pose proof (frame_header_size_upper _ _ B Hz) as Hzr.
  assert (HL : Z.of_nat (length p) = len p) by (symmetry; apply len_spec).
  assert (Hlen : forall w, (len (p ++ w) <? MIN_INPUT) = false).
  { intros w. rewrite len_app. pose proof (len_nonneg _ w). rewrite MIN_INPUT_val. apply Z.ltb_ge. lia. }
  assert (Hlz : forall w, (len (p ++ w) <? z) = false).
  { intros w. rewrite len_app. pose proof (len_nonneg _ w). apply Z.ltb_ge. lia. }
  unfold get_frame_header. rewrite !Hlen. cbv zeta.
  rewrite !(firstn_app_prefix p _ 4) by lia. rewrite Hm, Z.eqb_refl. cbn [negb].
  rewrite !frame_header_size_prefix by (rewrite MIN_INPUT_val; lia). rewrite Hz, !Hlz.
  change (Z.to_nat (MIN_INPUT - 1)) with 4%nat. change (Z.to_nat MIN_INPUT) with 5%nat.
  rewrite !(nth_app_prefix p _ 4), !(nth_app_prefix p _ 5) by lia.
  (* the header size formula, case by case *)
  unfold frame_header_size in Hz. destruct (len p <? MIN_INPUT); [discriminate|]. cbv zeta in Hz.
  apply Some_inj in Hz. change (Z.to_nat (MIN_INPUT - 1)) with 4%nat in Hz. rewrite MIN_INPUT_val in Hz.
  assert (Hb : byte_ok (nth 4 p 0)).
  { unfold bytes_ok in B. rewrite Forall_forall in B. apply B. apply nth_In. lia. }
  unfold byte_ok in Hb. set (fhd := nth 4 p 0) in *.
  assert (Hd : fhd mod 4 = 0 \/ fhd mod 4 = 1 \/ fhd mod 4 = 2 \/ fhd mod 4 = 3) by lia.
  assert (Hf : fhd / 64 = 0 \/ fhd / 64 = 1 \/ fhd / 64 = 2 \/ fhd / 64 = 3) by lia.
  assert (Hs : (fhd / 32) mod 2 = 0 \/ (fhd / 32) mod 2 = 1) by lia.
  destruct did_size_vals as (D0 & D1 & D2 & D3). destruct fcs_size_vals as (C0 & C1 & C2 & C3).
  destruct ((fhd / 8) mod 2 =? 0); cbn [negb]; [|reflexivity].
  destruct Hd as [Hd|[Hd|[Hd|Hd]]]; rewrite Hd in *; rewrite ?D0, ?D1, ?D2, ?D3 in Hz;
  destruct Hf as [Hf|[Hf|[Hf|Hf]]]; rewrite Hf in *; rewrite ?C0, ?C1, ?C2, ?C3 in Hz;
  destruct Hs as [Hs|Hs]; rewrite Hs in *; simp_consts;
  repeat (rewrite (firstn_skipn_app_prefix p) by (cbn; lia));
  repeat (rewrite (nth_app_prefix p) by (cbn; lia));
  reflexivity.
Qed.

(* ---- drop_exact / block walk only look at what they consume ---- *)
Lemma drop_exact_app_tail : forall q k t, 0 <= k -> k <= len q ->
  exists q1 q2, q = q1 ++ q2 /\ len q1 = k /\ drop_exact (q ++ t) k = Some (q2 ++ t).
Proof.
  induction q as [|a q IH]; intros k t Hk Hl.
  - rewrite len_nil in Hl. assert (k = 0) by lia. subst k. exists [], []. split; [reflexivity|]. split; [reflexivity|]. cbn [app]. apply drop_exact_0.
  - destruct (Z.eq_dec k 0) as [->|Hnz].
    + exists [], (a :: q). split; [reflexivity|]. split; [reflexivity|]. cbn [app]. apply drop_exact_0.
    + rewrite len_cons in Hl. destruct (IH (k - 1) t ltac:(lia) ltac:(lia)) as (q1 & q2 & E & L & D).
      exists (a :: q1), q2. split; [cbn [app]; rewrite E; reflexivity|]. split; [rewrite len_cons; lia|].
      cbn [app drop_exact]. destruct (Z.leb_spec k 0); [lia|]. exact D.
Qed.

Lemma get_cblock_size_prefix : forall q x, 3 <= len q -> get_cblock_size (q ++ x) = get_cblock_size q.
Proof.
  intros q x H. destruct q as [|b0 [|b1 [|b2 q]]]; try (rewrite ?len_cons, ?len_nil in H; lia). reflexivity.
Qed.

(* if the walk over q ++ r stops with the rest [rest] having consumed exactly the bytes of q (so rest = r), the same
   walk over q ++ t gives t *)
Lemma walk_blocks_prefix : forall fuel f2 q r t consumed nb consumed' nb',
  bytes_ok (q ++ r) -> (length q < length f2)%nat ->
  walk_blocks fuel (q ++ r) consumed nb = Some (r, consumed', nb') -> consumed' - consumed = len q ->
  walk_blocks f2 (q ++ t) consumed nb = Some (t, consumed', nb').
Proof.
  induction fuel as [|f0 fuel IH]; intros f2 q r t consumed nb consumed' nb' B Hf2 H Hc; cbn [walk_blocks] in H; [discriminate|].
  destruct f2 as [|g0 f2]; [cbn [length] in Hf2; lia|]. cbn [walk_blocks].
  destruct (get_cblock_size (q ++ r)) as [[[[cs bt] last] orig]|] eqn:G; [|discriminate].
  pose proof (get_cblock_size_nonneg _ _ _ _ _ B G) as Hcs.
  destruct (drop_exact (q ++ r) (BHSZ + cs)) as [rest|] eqn:D; [|discriminate].
  rewrite BHSZ_val in *.
  destruct (drop_exact_len _ _ _ D) as [L1 L2]. rewrite len_app in L1, L2.
  (* the block lies inside q *)
  assert (Hin : 3 + cs <= len q).
  { destruct last.
    - injection H as <- <- <-. lia.
    - pose proof (drop_exact_bytes _ _ _ B D) as Br.
      destruct (walk_blocks_account _ _ _ _ _ _ _ Br H) as (A1 & A2 & _ & _). rewrite BHSZ_val in A2. lia. }
  pose proof (len_nonneg _ q).
  rewrite get_cblock_size_prefix in G by lia. rewrite get_cblock_size_prefix by lia. rewrite G.
  destruct (drop_exact_app_tail q (3 + cs) r ltac:(lia) Hin) as (q1 & q2 & Eq & Lq & Dr).
  destruct (drop_exact_app_tail q (3 + cs) t ltac:(lia) Hin) as (q1' & q2' & Eq' & Lq' & Dt).
  assert (HE : q2' = q2 /\ q1' = q1).
  { assert (Hlq : length q1 = length q1') by (rewrite !len_spec in *; lia).
    rewrite Eq in Eq'. apply app_eq_app in Eq'. destruct Eq' as [l [[E1 E2]|[E1 E2]]].
    - assert (l = []) by (destruct l; [reflexivity|rewrite E1, app_length in Hlq; cbn [length] in Hlq; lia]).
      subst l. rewrite app_nil_r in E1. cbn [app] in E2. subst. split; reflexivity.
    - assert (l = []) by (destruct l; [reflexivity|rewrite E1, app_length in Hlq; cbn [length] in Hlq; lia]).
      subst l. rewrite app_nil_r in E1. cbn [app] in E2. subst. split; reflexivity. }
  destruct HE as [-> ->]. rewrite Dt. rewrite Dr in D. injection D as <-.
  destruct last.
  - injection H as E1 E2 E3. subst consumed' nb'.
    assert (Hq2 : len q2 = 0).
    { apply (f_equal (@len Z)) in E1. rewrite len_app in E1. pose proof (len_nonneg _ q2). lia. }
    destruct q2 as [|b q2]; [|rewrite len_cons in Hq2; pose proof (len_nonneg _ q2); lia]. reflexivity.
  - apply IH with (r := r); try assumption.
    + subst q. rewrite <- app_assoc in B. unfold bytes_ok in *. apply Forall_app in B. tauto.
    + subst q. rewrite app_length in Hf2. cbn [length] in Hf2. rewrite len_spec in Lq. lia.
    + subst q. rewrite len_app in Hc. lia.
Qed.

Lemma gfh_ok_facts : forall src h, get_frame_header src = HOk h -> fh_skippable h = false ->
  le (firstn 4 src) = MAGIC /\ frame_header_size src = Some (fh_hsize h).
Proof.
  intros src h G Hsk. unfold get_frame_header in G. cbv zeta in G.
  destruct (len src <? MIN_INPUT).
  { match type of G with (if ?c then _ else _) = _ => destruct c end; discriminate. }
  destruct (Z.eqb_spec (le (firstn 4 src)) MAGIC) as [Hm|Hm]; cbn [negb] in G.
  - destruct (frame_header_size src) as [z|]; [|discriminate].
    destruct (_ <? z); [discriminate|].
    match type of G with (if ?c then _ else _) = _ => destruct c end; [discriminate|].
    match type of G with (if ?c then _ else _) = _ => destruct c end; [discriminate|].
    injection G as <-. cbn [fh_hsize]. split; [assumption|reflexivity].
  - destruct (is_skippable_magic (le (firstn 4 src))); [|discriminate].
    destruct (len src <? SKIPHDR); [discriminate|]. injection G as <-. discriminate.
Qed.

Lemma app_split_len : forall (a b c d : list Z), a ++ b = c ++ d -> len a <= len c ->
  exists m, c = a ++ m /\ b = m ++ d.
Proof.
  intros a b c d E L. apply app_eq_app in E. destruct E as [l [[E1 E2]|[E1 E2]]].
  - subst a. rewrite len_app in L. pose proof (len_nonneg _ l).
    assert (l = []) by (destruct l as [|x l]; [reflexivity|rewrite len_cons in L; pose proof (len_nonneg _ l); lia]).
    subst l. exists []. rewrite !app_nil_r. cbn [app] in *. split; [reflexivity|congruence].
  - exists l. split; assumption.
Qed.

(* ZSTD_findFrameSizeInfo is determined by the bytes of the frame it delimits: whatever follows them *)
Theorem find_frame_size_info_prefix : forall p r t i,
  bytes_ok (p ++ r) -> find_frame_size_info (p ++ r) = Some i -> len p = fsi_csize i ->
  find_frame_size_info (p ++ t) = Some i.
Proof.
  intros p r t i B H Hp.
  assert (Bp : bytes_ok p) by (unfold bytes_ok in *; apply Forall_app in B; tauto).
  pose proof (len_nonneg _ p) as Hp0. pose proof (len_nonneg _ r) as Hr0. pose proof (len_nonneg _ t) as Ht0.
  assert (HL : Z.of_nat (length p) = len p) by (symmetry; apply len_spec).
  unfold find_frame_size_info in *.
  destruct ((SKIPHDR <=? len (p ++ r)) && is_skippable_magic (le (firstn 4 (p ++ r)))) eqn:C1.
  - (* skippable frame *)
    destruct (read_skippable_frame_size (p ++ r)) as [s|] eqn:R; [|discriminate].
    apply Some_inj in H. subst i. cbn [fsi_csize] in Hp.
    pose proof (read_skippable_within _ _ B R) as Hs. rewrite SKIPHDR_val in *.
    apply andb_prop in C1. destruct C1 as [C1a C1b].
    rewrite firstn_app_prefix in C1b by lia.
    rewrite len_app. destruct (Z.leb_spec 8 (len p + len t)); [|lia]. rewrite firstn_app_prefix by lia. rewrite C1b. cbn [andb].
    unfold read_skippable_frame_size in *. rewrite len_app in *. rewrite SKIPHDR_val, FRAMEIDSIZE_val in *.
    destruct (Z.ltb_spec (len p + len r) 8); [discriminate|]. destruct (Z.ltb_spec (len p + len t) 8); [lia|].
    cbv zeta in *. change (Z.to_nat 4) with 4%nat in *.
    rewrite firstn_skipn_app_prefix in R by lia. rewrite firstn_skipn_app_prefix by lia.
    set (sz := le (firstn 4 (skipn 4 p))) in *.
    destruct (_ <? sz); [discriminate|].
    destruct (Z.gtb_spec (8 + sz) (len p + len r)); [discriminate|]. apply Some_inj in R.
    destruct (Z.gtb_spec (8 + sz) (len p + len t)); [lia|]. rewrite R. reflexivity.
  - (* zstd frame *)
    destruct (get_frame_header (p ++ r)) as [h| |] eqn:G; try discriminate.
    destruct (get_frame_header_hsize _ _ G) as [Hh Hns].
    (* the header is not a skippable one *)
    assert (Hsk : fh_skippable h = false).
    { unfold get_frame_header in G. cbv zeta in G.
      destruct (len (p ++ r) <? MIN_INPUT).
      { match type of G with (if ?c then _ else _) = _ => destruct c end; discriminate. }
      destruct (negb (le (firstn 4 (p ++ r)) =? MAGIC)).
      - destruct (is_skippable_magic (le (firstn 4 (p ++ r)))) eqn:Sk; [|discriminate].
        destruct (Z.ltb_spec (len (p ++ r)) SKIPHDR); [discriminate|].
        rewrite Bool.andb_true_r in C1. apply Z.leb_gt in C1. lia.
      - destruct (frame_header_size (p ++ r)) as [z|]; [|discriminate].
        destruct (_ <? z); [discriminate|].
        match type of G with (if ?c then _ else _) = _ => destruct c end; [discriminate|].
        match type of G with (if ?c then _ else _) = _ => destruct c end; [discriminate|].
        injection G as <-. reflexivity. }
    specialize (Hns Hsk).
    destruct (drop_exact (p ++ r) (fh_hsize h)) as [body|] eqn:D; [|discriminate].
    destruct (drop_exact_len _ _ _ D) as [L1 L2].
    pose proof (drop_exact_bytes _ _ _ B D) as Bb.
    destruct (walk_blocks (0 :: body) body (fh_hsize h) 0) as [[[rest consumed] nb]|] eqn:W; [|discriminate].
    destruct (walk_blocks_account _ _ _ _ _ _ _ Bb W) as (A1 & A2 & A3 & (qb & Eqb)).
    rewrite BHSZ_val, MIN_INPUT_val in *.
    (* the header lies inside p and is read back the same *)
    destruct (gfh_ok_facts _ _ G Hsk) as [Hmag Hfhs].
    assert (Hcs : fsi_csize i = consumed + (if fh_chk h then 4 else 0) /\
                  (fh_chk h = true -> exists r4, drop_exact rest 4 = Some r4)).
    { destruct (fh_chk h).
      - destruct (drop_exact rest 4) as [r4|] eqn:D4; [|discriminate]. apply Some_inj in H. subst i.
        cbn [fsi_csize]. rewrite CKSZ_val. split; [reflexivity|]. intros _. eauto.
      - apply Some_inj in H. subst i. cbn [fsi_csize]. split; [lia|discriminate]. }
    destruct Hcs as [Hcs Hck].
    assert (Hhp : fh_hsize h <= len p) by (destruct (fh_chk h); lia).
    rewrite firstn_app_prefix in Hmag by lia.
    rewrite frame_header_size_prefix in Hfhs by (rewrite MIN_INPUT_val; lia).
    assert (G' : get_frame_header (p ++ t) = HOk h).
    { rewrite (gfh_local p t r (fh_hsize h) Bp Hmag Hfhs Hhp). exact G. }
    assert (C1' : (SKIPHDR <=? len (p ++ t)) && is_skippable_magic (le (firstn 4 (p ++ t))) = false).
    { rewrite firstn_app_prefix by lia. rewrite Hmag, is_skippable_magic_MAGIC. apply Bool.andb_false_r. }
    rewrite C1', G'.
    (* split p into header and block bytes *)
    destruct (drop_exact_app_tail p (fh_hsize h) r ltac:(lia) Hhp) as (p1 & p2 & Ep & Lp1 & Dr).
    destruct (drop_exact_app_tail p (fh_hsize h) t ltac:(lia) Hhp) as (p1' & p2' & Ep' & Lp1' & Dt).
    assert (HE : p2' = p2).
    { rewrite Ep in Ep'. destruct (app_split_len p1 p2 p1' p2' Ep' ltac:(lia)) as [m [E1 E2]].
      assert (m = []).
      { destruct m as [|x m]; [reflexivity|]. subst p1'. rewrite len_app, len_cons in Lp1'. pose proof (len_nonneg _ m). lia. }
      subst m. cbn [app] in E2. congruence. }
    subst p2'. rewrite Dt. rewrite Dr in D. apply Some_inj in D. subst body.
    (* the blocks end inside p2; what is left of p2 is the checksum *)
    assert (Lp : len p = fh_hsize h + len p2) by (rewrite Ep, len_app; lia).
    assert (Lb : len p2 + len r = len qb + len rest) by (rewrite <- !len_app; f_equal; exact Eqb).
    rewrite len_app in A1.
    assert (Hq : len qb <= len p2) by (destruct (fh_chk h); lia).
    destruct (app_split_len qb rest p2 r (eq_sym Eqb) Hq) as [c [Ec1 Ec2]].
    assert (Lc : len c = if fh_chk h then 4 else 0).
    { subst p2. rewrite len_app in *. destruct (fh_chk h); lia. }
    subst rest p2.
    rewrite <- app_assoc in W |- *.
    rewrite (walk_blocks_prefix (0 :: qb ++ c ++ r) (0 :: qb ++ c ++ t) qb (c ++ r) (c ++ t) (fh_hsize h) 0 consumed nb).
    + destruct (fh_chk h) eqn:Hchk.
      * destruct (Hck eq_refl) as [r4 D4].
        rewrite (drop_exact_app_eq c t 4) by lia. rewrite (drop_exact_app_eq c r 4) in H by lia. exact H.
      * exact H.
    + rewrite <- app_assoc in Bb. exact Bb.
    + cbn [length]. rewrite app_length. lia.
    + exact W.
    + lia.
Qed.

(* ======================================================================== *)
(* skippable frames: writer / reader capacity discipline                      *)
(* ======================================================================== *)
Lemma skippable_ser_facts : forall v p rest, 0 <= v <= 15 -> len p + SKIPHDR < W32 ->
  let s := ser_frame (SFrame v p) ++ rest in
  le (firstn 4 s) = SKIP_START + v /\ len s = 8 + len p + len rest /\
  read_skippable_frame_size s = Some (8 + len p).
Proof.
  intros v p rest Hv Hp s. subst s. cbn [ser_frame].
  pose proof (len_nonneg _ p) as Hp0. pose proof (len_nonneg _ rest) as Hr0. rewrite SKIPHDR_val, W32_val in Hp.
  assert (Hmagic : le (firstn 4 ((ser_le 4 (SKIP_START + v) ++ ser_le 4 (len p) ++ p) ++ rest)) = SKIP_START + v).
  { rewrite <- app_assoc. rewrite firstn_app_exact by (rewrite length_ser_le; reflexivity).
    apply le_ser_le_small. rewrite SKIP_START_val. change (256 ^ Z.of_nat 4) with 4294967296. lia. }
  assert (Hlen : len ((ser_le 4 (SKIP_START + v) ++ ser_le 4 (len p) ++ p) ++ rest) = 8 + len p + len rest).
  { rewrite !len_app, !len_ser_le. change (Z.of_nat 4) with 4. lia. }
  assert (Hsz : le (firstn 4 (skipn (Z.to_nat FRAMEIDSIZE) ((ser_le 4 (SKIP_START + v) ++ ser_le 4 (len p) ++ p) ++ rest))) = len p).
  { rewrite FRAMEIDSIZE_val. rewrite <- app_assoc.
    rewrite skipn_app_exact by (rewrite length_ser_le; reflexivity).
    rewrite <- app_assoc. rewrite firstn_app_exact by (rewrite length_ser_le; reflexivity).
    apply le_ser_le_small. change (256 ^ Z.of_nat 4) with 4294967296. lia. }
  split; [exact Hmagic|]. split; [exact Hlen|].
  unfold read_skippable_frame_size. rewrite Hlen, Hsz, SKIPHDR_val, W32_val.
  destruct (Z.ltb_spec (8 + len p + len rest) 8); [lia|].
  rewrite Z.mod_small by lia.
  destruct (Z.ltb_spec (len p + 8) (len p)); [lia|].
  destruct (Z.gtb_spec (8 + len p) (8 + len p + len rest)); [lia|]. reflexivity.
Qed.

(* writing a skippable frame needs exactly payload + 8 bytes and produces that many *)
Theorem write_skippable_frame_spec : forall cap v p, 0 <= v <= 15 -> len p + SKIPHDR < W32 ->
  write_skippable_frame cap (len p) v =
  if cap <? len p + SKIPHDR then None else Some (len (ser_frame (SFrame v p))).
Proof.
  intros cap v p Hv Hp. unfold write_skippable_frame. pose proof (len_nonneg _ p).
  destruct (cap <? len p + SKIPHDR); [reflexivity|].
  rewrite SKIPHDR_val, W32_val in *.
  destruct (Z.gtb_spec (len p) (4294967296 - 1)); [lia|].
  destruct (Z.gtb_spec v 15); [lia|].
  cbn [ser_frame]. rewrite !len_app, !len_ser_le. change (Z.of_nat 4) with 4. f_equal. lia.
Qed.

(* reading it back: the payload size and the variant, iff the destination can hold the payload;
   never more than the capacity; whatever follows the frame *)
Theorem read_skippable_frame_spec : forall cap v p rest, 0 <= v <= 15 -> len p + SKIPHDR < W32 ->
  read_skippable_frame cap (ser_frame (SFrame v p) ++ rest) =
  if len p >? cap then None else Some (len p, v).
Proof.
  intros cap v p rest Hv Hp.
  destruct (skippable_ser_facts v p rest Hv Hp) as (Hm & Hl & Hs). cbv zeta in *.
  unfold read_skippable_frame. rewrite Hl, Hm, Hs, SKIPHDR_val.
  pose proof (len_nonneg _ p). pose proof (len_nonneg _ rest).
  destruct (Z.ltb_spec (8 + len p + len rest) 8); [lia|].
  rewrite skippable_magic_ok by assumption. cbn [negb].
  replace (8 + len p - 8) with (len p) by lia.
  destruct (len p >? cap); [reflexivity|]. f_equal. f_equal. lia.
Qed.

Theorem read_skippable_frame_within : forall cap src n v,
  read_skippable_frame cap src = Some (n, v) -> n <= cap.
Proof.
  intros cap src n v H. unfold read_skippable_frame in H.
  destruct (len src <? SKIPHDR); [discriminate|]. cbv zeta in H.
  destruct (negb _); [discriminate|].
  destruct (read_skippable_frame_size src) as [s|]; [|discriminate].
  destruct (Z.gtb_spec (s - SKIPHDR) cap); [discriminate|].
  injection H as <- _. lia.
Qed.

(* ======================================================================== *)
(* ZSTD_decompressBound over concatenations of arbitrary byte strings          *)
(* ======================================================================== *)
Lemma bytes_ok_app : forall a b, bytes_ok (a ++ b) -> bytes_ok a /\ bytes_ok b.
Proof. intros a b H. unfold bytes_ok in *. apply Forall_app in H. exact H. Qed.

(* ZSTD_decompressBound over a concatenation: when the walk over [a] completes (a is a whole number of frames,
   valid or not in content), the walk over a ++ b continues on b with the accumulated bound - for ALL byte strings *)
Lemma decompress_bound_loop_concat : forall fuel a b acc va f2 f3,
  bytes_ok (a ++ b) ->
  decompress_bound_loop fuel a acc = Some va ->
  (length (a ++ b) <= length f2)%nat -> (length b <= length f3)%nat ->
  decompress_bound_loop f2 (a ++ b) acc = decompress_bound_loop f3 b va.
Proof.
  induction fuel as [|g fuel IH]; intros a b acc va f2 f3 B H L2 L3.
  - destruct a; [|discriminate]. cbn [decompress_bound_loop] in H. injection H as <-. cbn [app] in *.
    apply decompress_bound_loop_fuel; assumption.
  - destruct a as [|x t].
    + cbn [decompress_bound_loop] in H. injection H as <-. cbn [app] in *. apply decompress_bound_loop_fuel; assumption.
    + cbn [decompress_bound_loop] in H.
      destruct (bytes_ok_app _ _ B) as [Ba Bb].
      destruct (find_frame_size_info (x :: t)) as [i|] eqn:F; [|discriminate].
      destruct (find_frame_size_info_within _ _ Ba F) as [[P1 P2] _].
      destruct (fsi_bound i =? CS_ERROR) eqn:Eb; [discriminate|].
      destruct (drop_exact (x :: t) (fsi_csize i)) as [r|] eqn:D; [|discriminate].
      destruct (drop_exact_split _ _ _ D) as [p [Ep Lp]].
      rewrite Ep in *. rewrite <- app_assoc in *.
      assert (Lp' : len p = fsi_csize i) by lia.
      assert (F' : find_frame_size_info (p ++ r ++ b) = Some i).
      { apply (find_frame_size_info_prefix p r (r ++ b) i); assumption. }
      assert (D' : drop_exact (p ++ r ++ b) (fsi_csize i) = Some (r ++ b)) by (apply drop_exact_app_eq; lia).
      destruct f2 as [|g2 f2].
      { cbn [length] in L2. rewrite app_length in L2. destruct p; [rewrite len_nil in Lp'; lia|cbn [length] in L2; lia]. }
      destruct p as [|y p']; [rewrite len_nil in Lp'; lia|].
      cbn [app decompress_bound_loop]. cbn [app] in F', D'. rewrite F', Eb, D'.
      apply (IH r b _ va f2 f3); try assumption.
      * apply bytes_ok_app in B. tauto.
      * cbn [app length] in L2. rewrite !app_length in *. lia.
Qed.

Theorem decompress_bound_concat : forall a b va, bytes_ok (a ++ b) ->
  decompress_bound a = Some va ->
  decompress_bound (a ++ b) = decompress_bound_loop b b va.
Proof.
  intros a b va B H. unfold decompress_bound in *.
  apply (decompress_bound_loop_concat a a b 0 va); auto.
Qed.


(* ======================================================================== *)
(* in-place decoding: any larger buffer; the ZSTD_DECOMPRESSION_MARGIN macro  *)
(* ======================================================================== *)
(* in-place decoding is sound for EVERY buffer at least as large as decoded size + margin (input at its end) *)
Theorem inplace_any_larger_buffer : forall fl B,
  Forall wf_frame fl -> Forall non_expanding fl ->
  regen_frames fl + margin_of fl <= B ->
  inplace_decode fl B = Some (regen_frames fl, B).
Proof.
  intros fl B Hwf Hne HB. unfold inplace_decode.
  pose proof (len_ser_frames_gain fl Hwf) as Hlen. pose proof (gain_frames_nonneg fl Hne) as Hg.
  pose proof (bound_frames_ge_regen fl Hwf) as Hr.
  rewrite (inplace_frames_ok (maxbs_frames fl)); try assumption.
  - f_equal. f_equal; lia.
  - intros h bl ck Hin. apply (maxbs_frames_bound fl h bl ck Hwf Hin).
  - unfold margin_of in HB. lia.
  - unfold margin_of in HB.
    pose proof (overhead_frames_nonneg fl). pose proof (maxbs_frames_nonneg fl Hwf). lia.
Qed.

Lemma hsize_le_max : forall h, wf_hdr h -> hsize_of h <= Z.of_N Gen_Tables.c_ZSTD_FRAMEHEADERSIZE_MAX.
Proof.
  intros h (Hd & _ & Hf & _). rewrite (hsize_formula h Hd Hf). rewrite MIN_INPUT_val.
  change (Z.of_N Gen_Tables.c_ZSTD_FRAMEHEADERSIZE_MAX) with 18.
  destruct did_size_vals as (D0 & D1 & D2 & D3). destruct fcs_size_vals as (C0 & C1 & C2 & C3).
  assert (Hdc : h_didc h = 0 \/ h_didc h = 1 \/ h_didc h = 2 \/ h_didc h = 3) by lia.
  assert (Hfc : h_fcsc h = 0 \/ h_fcsc h = 1 \/ h_fcsc h = 2 \/ h_fcsc h = 3) by lia.
  destruct Hdc as [E|[E|[E|E]]]; rewrite E; rewrite ?D0, ?D1, ?D2, ?D3;
  destruct Hfc as [E2|[E2|[E2|E2]]]; rewrite E2; rewrite ?C0, ?C1, ?C2, ?C3;
  destruct (h_single h); cbn; lia.
Qed.

(* ZSTD_DECOMPRESSION_MARGIN(originalSize, blockSize): for a single frame that regenerates originalSize > 0 bytes in at
   most ceil(originalSize / blockSize) blocks, none larger than what it regenerates, whose block-size limit is at most
   blockSize, the macro's margin is at least the frame's own margin - so in-place decoding with it is sound *)
Theorem macro_margin_covers_frame : forall h bl ck bs,
  wf_frame (ZFrame h bl ck) -> 0 < bs -> bsmax_of h <= bs ->
  0 < regen_blocks bl -> len bl <= (regen_blocks bl + bs - 1) / bs ->
  margin_of [ZFrame h bl ck] <= DECOMPRESSION_MARGIN (regen_blocks bl) bs.
Proof.
  intros h bl ck bs Hwf Hbs Hb Hpos Hnb. destruct Hwf as (Hh & _).
  pose proof (hsize_le_max h Hh) as Hhs.
  unfold margin_of, DECOMPRESSION_MARGIN. cbn [overhead_frames overhead_of maxbs_frames].
  destruct (Z.eqb_spec (regen_blocks bl) 0); [lia|].
  destruct (h_chk h); lia.
Qed.

Theorem inplace_macro_margin_sound : forall h bl ck bs B,
  wf_frame (ZFrame h bl ck) -> Forall non_expanding_blk bl -> 0 < bs -> bsmax_of h <= bs ->
  0 < regen_blocks bl -> len bl <= (regen_blocks bl + bs - 1) / bs ->
  regen_blocks bl + DECOMPRESSION_MARGIN (regen_blocks bl) bs <= B ->
  inplace_decode [ZFrame h bl ck] B = Some (regen_blocks bl, B).
Proof.
  intros h bl ck bs B Hwf Hne Hbs Hb Hpos Hnb HB.
  pose proof (macro_margin_covers_frame h bl ck bs Hwf Hbs Hb Hpos Hnb) as Hm.
  replace (regen_blocks bl) with (regen_frames [ZFrame h bl ck]) at 1 by (cbn [regen_frames regen_frame]; lia).
  apply inplace_any_larger_buffer.
  - constructor; [assumption|constructor].
  - constructor; [exact Hne|constructor].
  - cbn [regen_frames regen_frame]. lia.
Qed.
