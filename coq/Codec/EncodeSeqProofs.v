(* Round trip of the sequences-section serialiser through the reference decoder. *)
From Coq Require Import NArith ZArith List Bool Lia.
From ZV.Codec Require Import Bytes ListLemmas Fse Huf Block Frame LzProofs LzContent Encode EncodeProofs.
From ZV.Codec Require Import EncodeSeq.
Import ListNotations.
Local Open Scope N_scope.
Ltac Zify.zify_post_hook ::= Z.div_mod_to_equations.

(* ---------- bit fields ---------- *)
Lemma bits_msb_length n v : length (bits_msb n v) = n.
Proof. induction n as [|n IH]; cbn [bits_msb length]; [reflexivity|]. rewrite IH. reflexivity. Qed.

Lemma bits_val_msb_acc_spec l : forall acc, bits_val_msb_acc l acc = acc * 2 ^ N.of_nat (length l) + bits_val_msb_acc l 0.
Proof.
  induction l as [|b t IH]; intros acc; cbn [bits_val_msb_acc length].
  - change (N.of_nat 0) with 0. rewrite N.pow_0_r. lia.
  - rewrite IH. rewrite (IH (2 * 0 + _)). rewrite Nat2N.inj_succ, N.pow_succ_r'. lia.
Qed.

Lemma bits_val_msb_bits_msb n : forall v, bits_val_msb (bits_msb n v) = v mod 2 ^ N.of_nat n.
Proof.
  unfold bits_val_msb. induction n as [|n IH]; intros v; cbn [bits_msb bits_val_msb_acc].
  - change (N.of_nat 0) with 0. rewrite N.pow_0_r, N.mod_1_r. reflexivity.
  - rewrite bits_val_msb_acc_spec, bits_msb_length, IH.
    rewrite Nat2N.inj_succ. replace (2 ^ N.succ (N.of_nat n)) with (2 ^ N.of_nat n * 2) by (rewrite N.pow_succ_r'; lia).
    rewrite N.mod_mul_r by (try apply N.pow_nonzero; discriminate).
    rewrite <- N.testbit_spec'. destruct (N.testbit v (N.of_nat n)); cbn [N.b2n]; lia.
Qed.

Lemma rread_bits_msb n v s : v < 2 ^ N.of_nat n -> rread n (bits_msb n v ++ s) = Some (v, s).
Proof.
  intros Hv. unfold rread. rewrite splitn_spec, app_length, bits_msb_length.
  destruct (Nat.leb_spec n (n + length s)) as [_|]; [|lia].
  rewrite firstn_app, skipn_app, bits_msb_length, Nat.sub_diag. cbn [firstn skipn].
  rewrite app_nil_r, firstn_all2, skipn_all2 by (rewrite bits_msb_length; lia). cbn [app].
  rewrite bits_val_msb_bits_msb, N.mod_small by exact Hv. reflexivity.
Qed.

(* ---------- closing and opening a backward stream ---------- *)
Lemma rbits_raw_acc_spec l : forall acc, rbits_raw_acc l acc = concat (map byte_bits_msb (rev l)) ++ acc.
Proof.
  induction l as [|b t IH]; intros acc; cbn [rbits_raw_acc rev]; [reflexivity|].
  rewrite IH, map_app, concat_app. cbn [map concat]. rewrite app_nil_r, <- app_assoc. reflexivity.
Qed.

Lemma byte_bits_val_8 (g : list bool) : length g = 8%nat -> byte_bits_msb (bits_val_msb g) = g.
Proof.
  intros H. do 8 (destruct g as [|? g]; [discriminate|]).
  destruct g; [|discriminate].
  repeat match goal with b : bool |- _ => destruct b end; vm_compute; reflexivity.
Qed.

Lemma len_mod8_spec l : forall k, (k < 8)%nat -> len_mod8 l k = ((k + length l) mod 8)%nat.
Proof.
  induction l as [|x t IH]; intros k Hk; cbn [len_mod8 length].
  - rewrite Nat.add_0_r, Nat.mod_small by exact Hk. reflexivity.
  - assert (C : (k = 0 \/ k = 1 \/ k = 2 \/ k = 3 \/ k = 4 \/ k = 5 \/ k = 6 \/ k = 7)%nat) by lia.
    destruct C as [->|[->|[->|[->|[->|[->|[->| ->]]]]]]]; rewrite IH by lia;
      try (f_equal; lia).
    replace (7 + S (length t))%nat with (0 + length t + 1 * 8)%nat by lia. rewrite Nat.mod_add by lia. reflexivity.
Qed.

Lemma group8_spec : forall m l acc, length l = (8 * m)%nat ->
  concat (map byte_bits_msb (rev (group8 l acc))) = concat (map byte_bits_msb (rev acc)) ++ l.
Proof.
  induction m as [|m IH]; intros l acc Hl.
  - destruct l; [|discriminate]. cbn [group8]. rewrite app_nil_r. reflexivity.
  - do 8 (destruct l as [|? l]; [cbn [length] in Hl; lia|]).
    cbn [group8]. rewrite IH by (cbn [length] in Hl; lia).
    cbn [rev]. rewrite map_app, concat_app. cbn [map concat]. rewrite app_nil_r, byte_bits_val_8 by reflexivity.
    rewrite <- app_assoc. reflexivity.
Qed.

Lemma drop_pad p s : (p <= 7)%nat -> drop_to_marker 8 (repeat false p ++ true :: s) = Some s.
Proof.
  intros Hp. do 8 (destruct p as [|p]; [reflexivity|]). lia.
Qed.

Lemma rbits_open_pack s : rbits_open (pack_rbits s) = Some s.
Proof.
  unfold rbits_open, pack_rbits, rbits_raw.
  rewrite len_mod8_spec by lia. change (1 + length s)%nat with (S (length s)).
  set (pad := ((8 - S (length s) mod 8) mod 8)%nat).
  set (full := repeat false pad ++ true :: s).
  assert (Hlen : exists m, length full = (8 * m)%nat).
  { unfold full. rewrite app_length, repeat_length. cbn [length]. unfold pad.
    exists ((S (length s) + (8 - S (length s) mod 8) mod 8) / 8)%nat.
    pose proof (Nat.div_mod (S (length s)) 8 ltac:(lia)). pose proof (Nat.mod_upper_bound (S (length s)) 8 ltac:(lia)).
    set (r := (S (length s) mod 8)%nat) in *. set (q := (S (length s) / 8)%nat) in *.
    assert (E : (r = 0 \/ 0 < r)%nat) by lia. destruct E as [E|E].
    - rewrite E. change ((8 - 0) mod 8)%nat with 0%nat. replace (S (length s) + 0)%nat with (q * 8)%nat by lia. rewrite Nat.div_mul by lia. lia.
    - rewrite (Nat.mod_small (8 - r) 8) by lia. replace (S (length s) + (8 - r))%nat with ((q + 1) * 8)%nat by lia. rewrite Nat.div_mul by lia. lia. }
  destruct Hlen as (m & Hm).
  rewrite rbits_raw_acc_spec, app_nil_r, (group8_spec m full [] Hm).
  cbn [rev map concat app]. unfold full. apply drop_pad. unfold pad.
  pose proof (Nat.mod_upper_bound (8 - S (length s) mod 8) 8 ltac:(lia)). lia.
Qed.

(* ---------- table search ---------- *)
Lemma find_cell_sound cells : forall i P j c,
  find_cell cells i P = Some (j, c) -> P c = true /\ i <= j /\ nth (N.to_nat (j - i)) cells cell0 = c.
Proof.
  induction cells as [|c0 t IH]; intros i P j c H; cbn [find_cell] in H; [discriminate|].
  destruct (P c0) eqn:E.
  - injection H as <- <-. rewrite N.sub_diag. auto using N.le_refl.
  - apply IH in H. destruct H as (H1 & H2 & H3). split; [exact H1|]. split; [lia|].
    replace (N.to_nat (j - i)) with (S (N.to_nat (j - N.succ i))) by lia. exact H3.
Qed.

Lemma enc_init_sound t sym st : enc_init t sym = Some st -> fse_peek t st = sym.
Proof.
  unfold enc_init. destruct (find_cell (ft_cells t) 0 _) as [[i c]|] eqn:E; [|discriminate].
  intros H. injection H as <-. apply find_cell_sound in E. destruct E as (P & _ & Hn).
  rewrite N.sub_0_r in Hn. unfold fse_peek, fse_cell_at, nthN. rewrite Hn. apply N.eqb_eq. exact P.
Qed.

Lemma enc_step_sound t x sym st bits s :
  enc_step t x sym = Some (st, bits) -> fse_peek t st = sym /\ fse_update t st (bits ++ s) = Some (x, s).
Proof.
  unfold enc_step. destruct (find_cell (ft_cells t) 0 _) as [[i c]|] eqn:E; [|discriminate].
  intros H. injection H as <- <-. apply find_cell_sound in E. destruct E as (P & _ & Hn).
  rewrite N.sub_0_r in Hn.
  apply andb_true_iff in P. destruct P as (P1 & P2). apply andb_true_iff in P2. destruct P2 as (P2 & P3).
  apply N.eqb_eq in P1. apply N.leb_le in P2. apply N.ltb_lt in P3.
  unfold fse_peek, fse_update, fse_cell_at, nthN. rewrite Hn. split; [exact P1|].
  rewrite rread_bits_msb.
  - f_equal. f_equal. lia.
  - rewrite N2Nat.id. rewrite pow2_pow in P3. lia.
Qed.

(* ---------- codes ---------- *)
Lemma code_of_spec base : forall bits v c k,
  code_of base bits v c = Some k ->
  c <= k /\ nth (N.to_nat (k - c)) base 0 <= v /\ v < nth (N.to_nat (k - c)) base 0 + pow2 (nth (N.to_nat (k - c)) bits 0)
  /\ (N.to_nat (k - c) < length base)%nat.
Proof.
  induction base as [|b0 bt IH]; intros bits v c k H; cbn [code_of] in H; [discriminate|].
  destruct bits as [|n0 nt]; [discriminate|].
  destruct (andb (b0 <=? v) (v <? b0 + pow2 n0)) eqn:E.
  - injection H as <-. rewrite N.sub_diag. cbn [N.to_nat nth length]. apply andb_true_iff in E. destruct E as (E1 & E2).
    apply N.leb_le in E1. apply N.ltb_lt in E2. repeat split; try lia.
  - apply IH in H. destruct H as (H1 & H2 & H3 & H4).
    replace (N.to_nat (k - c)) with (S (N.to_nat (k - (c + 1)))) by lia. cbn [nth length]. repeat split; try lia; assumption.
Qed.

Lemma ll_code_ok v c : code_of spec_LL_base spec_LL_bits v 0 = Some c ->
  c <= MaxLL /\ fst (ll_info c) <= v /\ v - fst (ll_info c) < 2 ^ snd (ll_info c).
Proof.
  intros H. apply code_of_spec in H. rewrite N.sub_0_r in H. destruct H as (_ & H2 & H3 & H4).
  unfold ll_info, nthN; cbn [fst snd]. rewrite pow2_pow in H3.
  change (length spec_LL_base) with 36%nat in H4. unfold MaxLL. repeat split; lia.
Qed.
Lemma ml_code_ok v c : code_of spec_ML_base spec_ML_bits v 0 = Some c ->
  c <= MaxML /\ fst (ml_info c) <= v /\ v - fst (ml_info c) < 2 ^ snd (ml_info c).
Proof.
  intros H. apply code_of_spec in H. rewrite N.sub_0_r in H. destruct H as (_ & H2 & H3 & H4).
  unfold ml_info, nthN; cbn [fst snd]. rewrite pow2_pow in H3.
  change (length spec_ML_base) with 53%nat in H4. unfold MaxML. repeat split; lia.
Qed.

(* reading back the extra bits of one sequence *)
Lemma seq_codes_read q k s :
  seq_codes q = Some k ->
  k_ll k <= MaxLL /\ k_ml k <= MaxML /\ k_of k <= MaxOff /\
  exists s1 s2,
    rd (k_of k) (k_bits k ++ s) = Ok (q_ofv q - pow2 (k_of k), s1) /\ pow2 (k_of k) + (q_ofv q - pow2 (k_of k)) = q_ofv q /\
    rd (snd (ml_info (k_ml k))) s1 = Ok (q_ml q - fst (ml_info (k_ml k)), s2) /\ fst (ml_info (k_ml k)) + (q_ml q - fst (ml_info (k_ml k))) = q_ml q /\
    rd (snd (ll_info (k_ll k))) s2 = Ok (q_ll q - fst (ll_info (k_ll k)), s) /\ fst (ll_info (k_ll k)) + (q_ll q - fst (ll_info (k_ll k))) = q_ll q.
Proof.
  unfold seq_codes. destruct (code_of spec_LL_base spec_LL_bits (q_ll q) 0) as [llc|] eqn:ELL; [|discriminate].
  destruct (code_of spec_ML_base spec_ML_bits (q_ml q) 0) as [mlc|] eqn:EML; [|discriminate].
  destruct (orb (q_ofv q =? 0) (MaxOff <? N.log2 (q_ofv q))) eqn:EO; [discriminate|].
  apply orb_false_iff in EO. destruct EO as (EO1 & EO2). apply N.eqb_neq in EO1. apply N.ltb_ge in EO2.
  destruct (ll_info llc) as [llb llx] eqn:ELI. destruct (ml_info mlc) as [mlb mlx] eqn:EMI.
  intros H. injection H as <-. cbn [k_ll k_ml k_of k_bits].
  apply ll_code_ok in ELL. apply ml_code_ok in EML. rewrite ELI in ELL. rewrite EMI in EML. cbn [fst snd] in *.
  destruct ELL as (L1 & L2 & L3). destruct EML as (M1 & M2 & M3).
  assert (HO : 2 ^ N.log2 (q_ofv q) <= q_ofv q < 2 ^ N.succ (N.log2 (q_ofv q))) by (apply N.log2_spec; lia).
  rewrite N.pow_succ_r' in HO.
  split; [exact L1|]. split; [exact M1|]. split; [exact EO2|].
  eexists. eexists. rewrite ELI, EMI. cbn [fst snd]. rewrite !pow2_pow.
  unfold rd. rewrite <- !app_assoc.
  rewrite rread_bits_msb by (rewrite N2Nat.id; lia). cbn [of_opt].
  split; [reflexivity|]. split; [lia|].
  rewrite rread_bits_msb by (rewrite N2Nat.id; lia). cbn [of_opt].
  split; [reflexivity|]. split; [lia|].
  rewrite rread_bits_msb by (rewrite N2Nat.id; lia). cbn [of_opt].
  split; [reflexivity|]. lia.
Qed.

Local Opaque exec_seq resolve_offset ll_info ml_info.

(* ---------- the decoding loop over an encoded sequence list ---------- *)
Lemma seq_loop_enc strict window blockMax tll tof tml : forall qs st bits,
  enc_seqs tll tof tml qs = Some (st, bits) ->
  forall rep x lits acc x' lits' rep',
  exec_seqs strict window blockMax qs rep x lits = Ok (x', lits', rep') ->
  exists sq, seq_loop (length qs) strict window blockMax tll tof tml (es_ll st) (es_of st) (es_ml st) bits rep x lits acc
             = Ok (x', lits', rep', sq).
Proof.
  induction qs as [|q rest IH]; intros st bits Henc rep x lits acc x' lits' rep' Hex; [discriminate|].
  cbn [enc_seqs] in Henc. destruct (seq_codes q) as [k|] eqn:Ek; [|discriminate].
  cbn [exec_seqs] in Hex. inv_bind_as Hex as [off rep1] Hro. inv_bind_as Hex as [x1 lits1] Hxe.
  destruct rest as [|q2 rest'].
  - (* last sequence *)
    destruct (enc_init tll (k_ll k)) as [sl|] eqn:E1; [|discriminate].
    destruct (enc_init tof (k_of k)) as [so|] eqn:E2; [|discriminate].
    destruct (enc_init tml (k_ml k)) as [sm|] eqn:E3; [|discriminate].
    injection Henc as <- <-. cbn [es_ll es_of es_ml].
    apply enc_init_sound in E1. apply enc_init_sound in E2. apply enc_init_sound in E3.
    cbn [exec_seqs] in Hex. injection Hex as <- <- <-.
    destruct (seq_codes_read q k [] Ek) as (C1 & C2 & C3 & s1 & s2 & R1 & V1 & R2 & V2 & R3 & V3).
    rewrite app_nil_r in R1.
    cbn [length seq_loop]. rewrite E1, E2, E3.
    destruct (N.leb_spec (k_of k) MaxOff) as [_|]; [|lia]. destruct (N.leb_spec (k_ml k) MaxML) as [_|]; [|lia].
    destruct (N.leb_spec (k_ll k) MaxLL) as [_|]; [|lia]. cbn [andb guard bind].
    rewrite R1. cbn [bind fst snd]. destruct (ml_info (k_ml k)) as [mlb mlx] eqn:EMI. cbn [fst snd] in *.
    rewrite R2. cbn [bind fst snd]. destruct (ll_info (k_ll k)) as [llb llx] eqn:ELI. cbn [fst snd] in *.
    rewrite R3. cbn [bind fst snd]. rewrite V1, V2, V3, Hro. cbn [bind]. rewrite Hxe. cbn [bind guard].
    eexists. reflexivity.
  - destruct (enc_seqs tll tof tml (q2 :: rest')) as [[st2 bits2]|] eqn:Erest; [|discriminate].
    destruct (enc_step tll (es_ll st2) (k_ll k)) as [[sl bl]|] eqn:E1; [|discriminate].
    destruct (enc_step tml (es_ml st2) (k_ml k)) as [[sm bm]|] eqn:E3; [|discriminate].
    destruct (enc_step tof (es_of st2) (k_of k)) as [[so bo]|] eqn:E2; [|discriminate].
    injection Henc as <- <-. cbn [es_ll es_of es_ml].
    destruct (enc_step_sound tll _ _ _ _ (bm ++ bo ++ bits2) E1) as (P1 & U1).
    destruct (enc_step_sound tml _ _ _ _ (bo ++ bits2) E3) as (P3 & U3).
    destruct (enc_step_sound tof _ _ _ _ bits2 E2) as (P2 & U2).
    destruct (seq_codes_read q k (bl ++ bm ++ bo ++ bits2) Ek) as (C1 & C2 & C3 & s1 & s2 & R1 & V1 & R2 & V2 & R3 & V3).
    specialize (IH st2 bits2 eq_refl rep1 x1 lits1).
    change (length (q :: q2 :: rest')) with (S (length (q2 :: rest'))).
    cbn [seq_loop]. rewrite P1, P2, P3.
    destruct (N.leb_spec (k_of k) MaxOff) as [_|]; [|lia]. destruct (N.leb_spec (k_ml k) MaxML) as [_|]; [|lia].
    destruct (N.leb_spec (k_ll k) MaxLL) as [_|]; [|lia]. cbn [andb guard bind].
    rewrite R1. cbn [bind fst snd]. destruct (ml_info (k_ml k)) as [mlb mlx] eqn:EMI. cbn [fst snd] in *.
    rewrite R2. cbn [bind fst snd]. destruct (ll_info (k_ll k)) as [llb llx] eqn:ELI. cbn [fst snd] in *.
    rewrite R3. cbn [bind fst snd]. rewrite V1, V2, V3, Hro. cbn [bind]. rewrite Hxe. cbn [bind length].
    rewrite U1. cbn [of_opt bind fst snd]. rewrite U3. cbn [of_opt bind fst snd]. rewrite U2. cbn [of_opt bind fst snd].
    apply IH. exact Hex.
Qed.

(* ---------- the accumulator form of the encoder equals the recursive one ---------- *)
Lemma enc_seqs_none_app tll tof tml l : l <> [] -> enc_seqs tll tof tml l = None ->
  forall pre, enc_seqs tll tof tml (pre ++ l) = None.
Proof.
  intros Hne F pre. induction pre as [|p0 pr IH]; [exact F|].
  cbn [app enc_seqs]. destruct (seq_codes p0); [|reflexivity].
  destruct (pr ++ l) as [|x t] eqn:El; [destruct pr; [cbn in El; congruence|discriminate]|].
  rewrite IH. reflexivity.
Qed.

Lemma enc_seqs_rev_spec tll tof tml : forall pre suf st bits,
  suf <> [] -> enc_seqs tll tof tml suf = Some (st, bits) ->
  enc_seqs_rev tll tof tml (rev pre) st bits = enc_seqs tll tof tml (pre ++ suf).
Proof.
  induction pre as [|q pre IH] using rev_ind; intros suf st bits Hne H.
  - cbn [rev app enc_seqs_rev]. symmetry. exact H.
  - rewrite rev_app_distr. cbn [rev app enc_seqs_rev]. rewrite <- app_assoc. cbn [app].
    assert (Hq : enc_seqs tll tof tml (q :: suf) =
                 match seq_codes q with
                 | None => None
                 | Some k => match enc_step tll (es_ll st) (k_ll k), enc_step tml (es_ml st) (k_ml k), enc_step tof (es_of st) (k_of k) with
                             | Some (sl, bl), Some (sm, bm), Some (so, bo) =>
                               Some ({| es_ll := sl; es_of := so; es_ml := sm |}, k_bits k ++ bl ++ bm ++ bo ++ bits)
                             | _, _, _ => None
                             end
                 end).
    { cbn [enc_seqs]. destruct (seq_codes q); [|reflexivity]. destruct suf as [|s0 sr]; [congruence|]. rewrite H. reflexivity. }
    destruct (seq_codes q) as [k|].
    + destruct (enc_step tll (es_ll st) (k_ll k)) as [[sl bl]|];
        [|symmetry; apply enc_seqs_none_app; [discriminate|exact Hq]].
      destruct (enc_step tml (es_ml st) (k_ml k)) as [[sm bm]|];
        [|symmetry; apply enc_seqs_none_app; [discriminate|exact Hq]].
      destruct (enc_step tof (es_of st) (k_of k)) as [[so bo]|];
        [|symmetry; apply enc_seqs_none_app; [discriminate|exact Hq]].
      apply IH; [discriminate|exact Hq].
    + symmetry. apply enc_seqs_none_app; [discriminate|exact Hq].
Qed.

Lemma enc_seqs_fast_eq tll tof tml qs : enc_seqs_fast tll tof tml qs = enc_seqs tll tof tml qs.
Proof.
  unfold enc_seqs_fast. rewrite rev'_rev.
  destruct qs as [|qr q0 _] using rev_ind; [reflexivity|].
  rewrite rev_app_distr. cbn [rev app].
  assert (Hq : enc_seqs tll tof tml [qr] =
               match seq_codes qr with
               | None => None
               | Some k => match enc_init tll (k_ll k), enc_init tof (k_of k), enc_init tml (k_ml k) with
                           | Some sl, Some so, Some sm => Some ({| es_ll := sl; es_of := so; es_ml := sm |}, k_bits k)
                           | _, _, _ => None
                           end
               end) by reflexivity.
  destruct (seq_codes qr) as [k|]; [|symmetry; apply enc_seqs_none_app; [discriminate|exact Hq]].
  destruct (enc_init tll (k_ll k)) as [sl|]; [|symmetry; apply enc_seqs_none_app; [discriminate|exact Hq]].
  destruct (enc_init tof (k_of k)) as [so|]; [|symmetry; apply enc_seqs_none_app; [discriminate|exact Hq]].
  destruct (enc_init tml (k_ml k)) as [sm|]; [|symmetry; apply enc_seqs_none_app; [discriminate|exact Hq]].
  apply enc_seqs_rev_spec; [discriminate|exact Hq].
Qed.

(* ---------- Number_of_Sequences ---------- *)
Lemma read_nbseq_enc n t : n < 98048 -> read_nbseq (enc_nbseq n ++ t) = Ok (n, t).
Proof.
  intros Hn. unfold enc_nbseq.
  destruct (N.ltb_spec n 128) as [H1|H1].
  - cbn [app read_nbseq]. destruct (N.ltb_spec n 128); [reflexivity|lia].
  - destruct (N.ltb_spec n 32512) as [H2|H2].
    + cbn [app read_nbseq]. rewrite N.shiftr_div_pow2. change (2 ^ 8) with 256.
      assert (Hq : n / 256 < 127) by lia.
      destruct (N.ltb_spec (n / 256 + 128) 128); [lia|].
      destruct (N.eqb_spec (n / 256 + 128) 255); [lia|].
      f_equal. f_equal. rewrite N.shiftl_mul_pow2. change (2 ^ 8) with 256.
      replace (n / 256 + 128 - 128) with (n / 256) by lia. pose proof (N.div_mod n 256 ltac:(discriminate)). lia.
    + cbn [app read_nbseq]. cbn [N.ltb N.compare Pos.compare Pos.compare_cont N.eqb Pos.eqb].
      rewrite read_le_write_le by (change (2 ^ (8 * N.of_nat 2)) with 65536; lia). cbn [of_opt bind fst snd].
      f_equal. f_equal. lia.
Qed.

Lemma skipN_app_len {A} (a b : list A) : skipN (a ++ b) (lenN a) = b.
Proof. rewrite skipN_skipn, lenN_length, Nat2N.id, skipn_app, Nat.sub_diag, skipn_all. reflexivity. Qed.

(* ---------- table shape ---------- *)
Definition table_wf (t : fse_table) : Prop := lenN (ft_cells t) = pow2 (ft_log t).

Lemma find_cell_bound cells : forall i P j c, find_cell cells i P = Some (j, c) -> j < i + lenN cells.
Proof.
  induction cells as [|c0 t IH]; intros i P j c H; cbn [find_cell] in H; [discriminate|].
  rewrite lenN_cons. destruct (P c0).
  - injection H as <- _. lia.
  - apply IH in H. lia.
Qed.

Lemma enc_init_bound t sym st : table_wf t -> enc_init t sym = Some st -> st < 2 ^ ft_log t.
Proof.
  unfold enc_init, table_wf. intros W. destruct (find_cell (ft_cells t) 0 _) as [[i c]|] eqn:E; [|discriminate].
  intros H. injection H as <-. apply find_cell_bound in E. rewrite W, pow2_pow in E. lia.
Qed.
Lemma enc_step_bound t x sym st bits : table_wf t -> enc_step t x sym = Some (st, bits) -> st < 2 ^ ft_log t.
Proof.
  unfold enc_step, table_wf. intros W. destruct (find_cell (ft_cells t) 0 _) as [[i c]|] eqn:E; [|discriminate].
  intros H. injection H as <- _. apply find_cell_bound in E. rewrite W, pow2_pow in E. lia.
Qed.

Lemma enc_seqs_bounds tll tof tml : table_wf tll -> table_wf tof -> table_wf tml ->
  forall qs st bits, enc_seqs tll tof tml qs = Some (st, bits) ->
  es_ll st < 2 ^ ft_log tll /\ es_of st < 2 ^ ft_log tof /\ es_ml st < 2 ^ ft_log tml.
Proof.
  intros W1 W2 W3 qs st bits H. destruct qs as [|q rest]; [discriminate|]. cbn [enc_seqs] in H.
  destruct (seq_codes q) as [k|]; [|discriminate]. destruct rest as [|q2 rest'].
  - destruct (enc_init tll (k_ll k)) as [sl|] eqn:E1; [|discriminate].
    destruct (enc_init tof (k_of k)) as [so|] eqn:E2; [|discriminate].
    destruct (enc_init tml (k_ml k)) as [sm|] eqn:E3; [|discriminate].
    injection H as <- _. cbn [es_ll es_of es_ml]. repeat split; eapply enc_init_bound; eassumption.
  - destruct (enc_seqs tll tof tml (q2 :: rest')) as [[st2 bits2]|]; [|discriminate].
    destruct (enc_step tll (es_ll st2) (k_ll k)) as [[sl bl]|] eqn:E1; [|discriminate].
    destruct (enc_step tml (es_ml st2) (k_ml k)) as [[sm bm]|] eqn:E3; [|discriminate].
    destruct (enc_step tof (es_of st2) (k_of k)) as [[so bo]|] eqn:E2; [|discriminate].
    injection H as <- _. cbn [es_ll es_of es_ml]. repeat split; eapply enc_step_bound; eassumption.
Qed.

(* ---------- a whole compressed block ---------- *)
Definition x_block_start (x : xstate) : xstate :=
  {| x_hist := x_hist x; x_marks := x_marks x; x_avail := x_avail x; x_pos := x_pos x; x_blk := 0 |}.

Local Opaque seq_loop decode_literals seq_table read_nbseq enc_nbseq push_fwd.

Theorem decode_enc_cblock strict window blockMax e x litsec lits huf' lmode modes dll dof dml tll tof tml qs stream x1 lits1 rep1 :
  (forall tail, decode_literals blockMax (e_huf e) (litsec ++ tail) = Ok (lits, huf', lenN litsec, lmode)) ->
  qs <> [] -> lenN qs < 98048 ->
  N.land modes 3 = 0 ->
  (forall tail, seq_table (N.shiftr modes 6) MaxLL LLFSELog 6 spec_LL_default (e_ll e) (dll ++ tail) = Ok (tll, tail)) ->
  (forall tail, seq_table (N.land (N.shiftr modes 4) 3) MaxOff OffFSELog 5 spec_OF_default (e_of e) (dof ++ tail) = Ok (tof, tail)) ->
  (forall tail, seq_table (N.land (N.shiftr modes 2) 3) MaxML MLFSELog 6 spec_ML_default (e_ml e) (dml ++ tail) = Ok (tml, tail)) ->
  table_wf tll -> table_wf tof -> table_wf tml ->
  enc_seq_stream tll tof tml qs = Some stream ->
  exec_seqs strict window blockMax qs (e_rep e) (x_block_start x) lits = Ok (x1, lits1, rep1) ->
  x_blk x1 + lenN lits1 <= blockMax ->
  exists bt, decode_cblock strict window blockMax e x (enc_cblock_parts litsec (lenN qs) modes dll dof dml stream)
             = Ok ({| e_huf := huf'; e_ll := Some tll; e_of := Some tof; e_ml := Some tml; e_rep := rep1 |},
                   push_fwd x1 lits1 (lenN lits1), bt).
Proof.
  intros Hlit Hne Hn Hm Hll Hof Hml W1 W2 W3 Henc Hex Hfit.
  unfold enc_seq_stream in Henc. rewrite enc_seqs_fast_eq in Henc. destruct (enc_seqs tll tof tml qs) as [[st bits]|] eqn:Eq; [|discriminate].
  injection Henc as <-.
  destruct (enc_seqs_bounds tll tof tml W1 W2 W3 qs st bits Eq) as (B1 & B2 & B3).
  assert (Hq0 : (lenN qs =? 0) = false).
  { apply N.eqb_neq. destruct qs; [congruence|]. rewrite lenN_cons. lia. }
  unfold enc_cblock_parts. rewrite Hq0.
  assert (Hlit1 : litsec <> []).
  { intros ->. specialize (Hlit []). cbn [app] in Hlit. Local Transparent decode_literals. cbn [decode_literals] in Hlit. Local Opaque decode_literals. discriminate. }
  unfold decode_cblock.
  set (src := litsec ++ enc_nbseq (lenN qs) ++ modes :: dll ++ dof ++ dml ++ _).
  assert (H2 : 2 <= lenN src).
  { unfold src. rewrite !lenN_app. destruct litsec as [|l0 lt]; [congruence|]. rewrite !lenN_cons. lia. }
  destruct (N.leb_spec 2 (lenN src)) as [_|]; [|lia]. cbn [guard bind].
  unfold src at 1. rewrite Hlit. cbn [bind].
  unfold src. rewrite skipN_app_len, read_nbseq_enc by exact Hn. cbn [bind]. rewrite Hq0.
  rewrite Hm. cbn [N.eqb guard bind]. rewrite Hll. cbn [bind fst snd]. rewrite Hof. cbn [bind fst snd]. rewrite Hml. cbn [bind fst snd].
  rewrite rbits_open_pack. cbn [of_opt bind].
  unfold fse_init. rewrite rread_bits_msb by (rewrite N2Nat.id; exact B1). cbn [of_opt bind fst snd].
  rewrite rread_bits_msb by (rewrite N2Nat.id; exact B2). cbn [of_opt bind fst snd].
  rewrite rread_bits_msb by (rewrite N2Nat.id; exact B3). cbn [of_opt bind fst snd].
  fold (x_block_start x).
  destruct (seq_loop_enc strict window blockMax tll tof tml qs st bits Eq (e_rep e) (x_block_start x) lits [] x1 lits1 rep1 Hex) as (sq & Hloop).
  rewrite lenN_length, Nat2N.id, Hloop. cbn [bind].
  destruct (N.leb_spec (x_blk x1 + lenN lits1) blockMax) as [_|]; [|lia]. cbn [guard bind].
  eexists. reflexivity.
Qed.

(* ---------- raw / RLE literals sections ---------- *)
Lemma land3 x : N.land x 3 = x mod 4.
Proof. change 3 with (N.ones 2). rewrite N.land_ones. reflexivity. Qed.
Lemma mod256_mod4 x : (x mod 256) mod 4 = x mod 4.
Proof.
  pose proof (N.mod_mul_r x 4 64) as H. change (4*64) with 256 in H. rewrite H by discriminate.
  rewrite (N.mul_comm 4), N.mod_add, N.mod_mod by discriminate. reflexivity. Qed.
Lemma mod256_div4 x : (x mod 256) / 4 = (x / 4) mod 64.
Proof.
  pose proof (N.mod_mul_r x 4 64) as H. change (4*64) with 256 in H. rewrite H by discriminate.
  rewrite (N.mul_comm 4), N.div_add by discriminate. rewrite N.div_small by (apply N.mod_lt; discriminate). reflexivity. Qed.
Lemma mod64_mod4 x : (x mod 64) mod 4 = x mod 4.
Proof.
  pose proof (N.mod_mul_r x 4 16) as H. change (4*16) with 64 in H. rewrite H by discriminate.
  rewrite (N.mul_comm 4), N.mod_add, N.mod_mod by discriminate. reflexivity. Qed.

(* type and size-format fields of the first header byte, for header value c + 4*sf + 16*m (c < 4, sf < 4) *)
Lemma lit_b0_fields c sf m : c < 4 -> sf < 4 ->
  let b0 := (c + 4 * sf + 16 * m) mod 256 in
  N.land b0 3 = c /\ N.land (N.shiftr b0 2) 3 = sf.
Proof.
  intros Hc Hs b0. unfold b0. rewrite !land3, N.shiftr_div_pow2. change (2 ^ 2) with 4.
  rewrite mod256_mod4, mod256_div4, mod64_mod4.
  replace (c + 4 * sf + 16 * m) with (c + (sf + 4 * m) * 4) by lia.
  rewrite N.mod_add, N.div_add by discriminate. rewrite (N.div_small c 4), (N.mod_small c 4) by lia.
  split; [reflexivity|]. replace (0 + (sf + 4 * m)) with (sf + m * 4) by lia. rewrite N.mod_add by discriminate. apply N.mod_small. exact Hs.
Qed.

Lemma write_le_first k v : exists t, write_le (S k) v = (v mod 256) :: t.
Proof. cbn [write_le]. eexists. reflexivity. Qed.

Local Transparent decode_literals.

(* generic: a raw (c = 0) or RLE (c = 1) literals header of regenerated size n *)
Definition lit_hdr (c n : N) : bytes :=
  if n <? 32 then write_le 1 (c + 8 * n)
  else if n <? 4096 then write_le 2 (c + 4 + 16 * n)
  else write_le 3 (c + 12 + 16 * n).

Lemma lit_hdr_decode c n body : c < 2 -> n < 1048576 ->
  exists b0 t hsz,
    lit_hdr c n ++ body = b0 :: t /\ N.land b0 3 = c /\
    let sf := N.land (N.shiftr b0 2) 3 in
    hsz = (if N.even sf then 1 else if sf =? 1 then 2 else 3) /\
    hsz = lenN (lit_hdr c n) /\
    exists hv, read_le (N.to_nat hsz) (lit_hdr c n ++ body) = Some (hv, body) /\
               (if N.even sf then N.shiftr hv 3 else N.shiftr hv 4) = n.
Proof.
  intros Hc Hn. unfold lit_hdr.
  destruct (N.ltb_spec n 32) as [H1|H1]; [|destruct (N.ltb_spec n 4096) as [H2|H2]].
  - (* 1 byte: c + 8n = c + 4*(2*(n mod 2)) + 16*(n/2) *)
    pose proof (N.div_mod n 2 ltac:(discriminate)) as Dn. pose proof (N.mod_lt n 2 ltac:(discriminate)) as Mn.
    destruct (lit_b0_fields c (2 * (n mod 2)) (n / 2) ltac:(lia) ltac:(lia)) as (F1 & F2).
    replace (c + 4 * (2 * (n mod 2)) + 16 * (n / 2)) with (c + 8 * n) in F1, F2 by lia.
    exists ((c + 8 * n) mod 256), (body), 1. cbn [write_le app].
    split; [reflexivity|]. split; [exact F1|]. cbv zeta. rewrite F2.
    assert (Ev : N.even (2 * (n mod 2)) = true) by (rewrite N.even_mul; reflexivity). rewrite Ev.
    split; [reflexivity|]. split; [reflexivity|].
    exists (c + 8 * n). split.
    + change (N.to_nat 1) with 1%nat. apply (read_le_write_le 1). change (2 ^ (8 * N.of_nat 1)) with 256. lia.
    + rewrite N.shiftr_div_pow2. change (2 ^ 3) with 8. replace (c + 8 * n) with (c + n * 8) by lia.
      rewrite N.div_add by discriminate. rewrite N.div_small by lia. reflexivity.
  - destruct (lit_b0_fields c 1 n ltac:(lia) ltac:(lia)) as (F1 & F2).
    replace (c + 4 * 1 + 16 * n) with (c + 4 + 16 * n) in F1, F2 by lia.
    destruct (write_le_first 1 (c + 4 + 16 * n)) as (t & Et).
    exists ((c + 4 + 16 * n) mod 256), (t ++ body), 2.
    split; [rewrite Et; reflexivity|]. split; [exact F1|]. cbv zeta. rewrite F2. cbn [N.even N.eqb Pos.eqb].
    split; [reflexivity|]. split; [reflexivity|].
    exists (c + 4 + 16 * n). split.
    + change (N.to_nat 2) with 2%nat. apply (read_le_write_le 2). change (2 ^ (8 * N.of_nat 2)) with 65536. lia.
    + rewrite N.shiftr_div_pow2. change (2 ^ 4) with 16. replace (c + 4 + 16 * n) with (c + 4 + n * 16) by lia.
      rewrite N.div_add by discriminate. rewrite N.div_small by lia. reflexivity.
  - destruct (lit_b0_fields c 3 n ltac:(lia) ltac:(lia)) as (F1 & F2).
    replace (c + 4 * 3 + 16 * n) with (c + 12 + 16 * n) in F1, F2 by lia.
    destruct (write_le_first 2 (c + 12 + 16 * n)) as (t & Et).
    exists ((c + 12 + 16 * n) mod 256), (t ++ body), 3.
    split; [rewrite Et; reflexivity|]. split; [exact F1|]. cbv zeta. rewrite F2. cbn [N.even N.eqb Pos.eqb].
    split; [reflexivity|]. split; [reflexivity|].
    exists (c + 12 + 16 * n). split.
    + change (N.to_nat 3) with 3%nat. apply (read_le_write_le 3). change (2 ^ (8 * N.of_nat 3)) with 16777216. lia.
    + rewrite N.shiftr_div_pow2. change (2 ^ 4) with 16. replace (c + 12 + 16 * n) with (c + 12 + n * 16) by lia.
      rewrite N.div_add by discriminate. rewrite N.div_small by lia. reflexivity.
Qed.

Lemma enc_lits_raw_eq lits : enc_lits_raw lits = lit_hdr 0 (lenN lits) ++ lits.
Proof. unfold enc_lits_raw, lit_hdr. destruct (lenN lits <? 32); [reflexivity|]. destruct (lenN lits <? 4096); reflexivity. Qed.
Lemma enc_lits_rle_eq v n : enc_lits_rle v n = lit_hdr 1 n ++ [v].
Proof. unfold enc_lits_rle, lit_hdr. destruct (n <? 32); [reflexivity|]. destruct (n <? 4096); [f_equal; f_equal; lia|f_equal; f_equal; lia]. Qed.

Lemma decode_lits_raw blockMax huf lits tail : lenN lits <= blockMax -> blockMax <= BLOCK_MAX ->
  decode_literals blockMax huf (enc_lits_raw lits ++ tail) = Ok (lits, huf, lenN (enc_lits_raw lits), 0).
Proof.
  intros Hn HB. assert (BLOCK_MAX < 1048576) by (vm_compute; reflexivity).
  rewrite enc_lits_raw_eq, <- app_assoc.
  destruct (lit_hdr_decode 0 (lenN lits) (lits ++ tail) ltac:(lia) ltac:(lia)) as (b0 & t & hsz & E0 & T & Hh & Hl & hv & Hr & Hv).
  unfold decode_literals. rewrite E0. rewrite <- E0. rewrite T. cbn [N.ltb N.compare].
  cbv zeta in Hh, Hv. rewrite <- Hh, Hr. cbn [of_opt bind]. rewrite Hv.
  destruct (N.leb_spec (lenN lits) blockMax) as [_|]; [|lia]. cbn [guard bind N.eqb].
  rewrite splitN_app. cbn [of_opt bind fst]. rewrite Hl, lenN_app. reflexivity.
Qed.

Lemma decode_lits_rle blockMax huf v n tail : n <= blockMax -> blockMax <= BLOCK_MAX ->
  decode_literals blockMax huf (enc_lits_rle v n ++ tail) = Ok (repeatN v n [], huf, lenN (enc_lits_rle v n), 1).
Proof.
  intros Hn HB. assert (BLOCK_MAX < 1048576) by (vm_compute; reflexivity).
  rewrite enc_lits_rle_eq, <- app_assoc.
  destruct (lit_hdr_decode 1 n ([v] ++ tail) ltac:(lia) ltac:(lia)) as (b0 & t & hsz & E0 & T & Hh & Hl & hv & Hr & Hv).
  unfold decode_literals. rewrite E0. rewrite <- E0. rewrite T. cbn [N.ltb N.compare Pos.compare Pos.compare_cont].
  cbv zeta in Hh, Hv. rewrite <- Hh, Hr. cbn [of_opt bind]. rewrite Hv.
  destruct (N.leb_spec n blockMax) as [_|]; [|lia]. cbn [guard bind N.eqb Pos.eqb app].
  rewrite Hl, lenN_app. reflexivity.
Qed.
Local Opaque decode_literals.

(* ---------- table modes without a description ---------- *)
Local Transparent seq_table.
Lemma seq_table_predef maxSV maxLog deflog defnorm prev tail t :
  build_dtable deflog defnorm = Ok t -> seq_table 0 maxSV maxLog deflog defnorm prev ([] ++ tail) = Ok (t, tail).
Proof. intros H. unfold seq_table. cbn [N.eqb app]. rewrite H. reflexivity. Qed.
Lemma seq_table_rle maxSV maxLog deflog defnorm prev tail s :
  s <= maxSV -> seq_table 1 maxSV maxLog deflog defnorm prev ([s] ++ tail) = Ok (rle_table s, tail).
Proof. intros H. unfold seq_table. cbn [N.eqb Pos.eqb app]. destruct (N.leb_spec s maxSV); [reflexivity|lia]. Qed.
Lemma seq_table_repeat maxSV maxLog deflog defnorm tail t :
  seq_table 3 maxSV maxLog deflog defnorm (Some t) ([] ++ tail) = Ok (t, tail).
Proof. reflexivity. Qed.
Local Opaque seq_table.

Lemma rle_table_wf s : table_wf (rle_table s).
Proof. reflexivity. Qed.

(* the predefined tables *)
Lemma dflt_tables_built :
  build_dtable 6 spec_LL_default = Ok dflt_LL /\ build_dtable 5 spec_OF_default = Ok dflt_OF /\ build_dtable 6 spec_ML_default = Ok dflt_ML.
Proof. repeat split; vm_compute; reflexivity. Qed.
Lemma dflt_tables_wf : table_wf dflt_LL /\ table_wf dflt_OF /\ table_wf dflt_ML.
Proof. repeat split; vm_compute; reflexivity. Qed.

(* tANS completeness of the predefined tables, by exhaustive sweep: every symbol of the alphabet can be encoded from
   every state, and has an initial state *)
Definition steps_total (t : fse_table) (nsym : N) : bool :=
  forallb (fun s => andb (match enc_init t s with Some _ => true | None => false end)
                         (forallb (fun x => match enc_step t x s with Some _ => true | None => false end)
                                  (map N.of_nat (List.seq 0%nat (N.to_nat (pow2 (ft_log t)))))))
          (map N.of_nat (List.seq 0%nat (N.to_nat nsym))).

Lemma steps_total_spec t nsym : steps_total t nsym = true ->
  forall s, s < nsym -> (exists st, enc_init t s = Some st) /\ forall x, x < 2 ^ ft_log t -> exists r, enc_step t x s = Some r.
Proof.
  unfold steps_total. rewrite forallb_forall. intros H s Hs.
  assert (Hin : In s (map N.of_nat (List.seq 0%nat (N.to_nat nsym)))).
  { apply in_map_iff. exists (N.to_nat s). split; [lia|]. apply List.in_seq. lia. }
  specialize (H s Hin). apply andb_true_iff in H. destruct H as (H1 & H2). split.
  - destruct (enc_init t s); [eauto|discriminate].
  - rewrite forallb_forall in H2. intros x Hx.
    assert (Hix : In x (map N.of_nat (List.seq 0%nat (N.to_nat (pow2 (ft_log t)))))).
    { apply in_map_iff. exists (N.to_nat x). split; [lia|]. apply List.in_seq. rewrite pow2_pow. lia. }
    specialize (H2 x Hix). destruct (enc_step t x s); [eauto|discriminate].
Qed.

Lemma dflt_steps_total : steps_total dflt_LL 36 = true /\ steps_total dflt_OF 29 = true /\ steps_total dflt_ML 53 = true.
Proof. repeat split; vm_compute; reflexivity. Qed.

(* ---------- the basic block encoder is total and round-trips ---------- *)
From ZV.Codec Require TablesProofs.

Lemma code_of_find_code base : forall bits v c, code_of base bits v c = TablesProofs.find_code base bits v c.
Proof. intros bits v c. reflexivity. Qed.

Definition seq_in_range (q : eseq) : Prop := q_ll q < 131072 /\ 3 <= q_ml q < 131075 /\ 1 <= q_ofv q < 2 ^ 29.

Lemma seq_codes_total q : seq_in_range q -> exists k, seq_codes q = Some k /\ k_ll k < 36 /\ k_ml k < 53 /\ k_of k < 29.
Proof.
  intros (Hl & (Hm1 & Hm2) & (Ho1 & Ho2)). unfold seq_codes.
  destruct TablesProofs.code_tables_partition as (PL & PM).
  destruct (PL (q_ll q) Hl) as (cl & El). destruct (PM (q_ml q) Hm1 Hm2) as (cm & Em).
  rewrite <- code_of_find_code in El, Em. rewrite El, Em.
  assert (Hlog : N.log2 (q_ofv q) < 29) by (apply N.log2_lt_pow2; lia).
  destruct (N.eqb_spec (q_ofv q) 0) as [|_]; [lia|]. unfold MaxOff.
  destruct (N.ltb_spec 31 (N.log2 (q_ofv q))) as [|_]; [lia|]. cbn [orb].
  destruct (ll_info cl) as [llb llx]. destruct (ml_info cm) as [mlb mlx].
  eexists. split; [reflexivity|]. cbn [k_ll k_ml k_of].
  apply code_of_spec in El. apply code_of_spec in Em. rewrite N.sub_0_r in El, Em.
  destruct El as (_ & _ & _ & E1). destruct Em as (_ & _ & _ & E2).
  change (length spec_LL_base) with 36%nat in E1. change (length spec_ML_base) with 53%nat in E2. lia.
Qed.

Lemma enc_seqs_dflt_total : forall qs, qs <> [] -> Forall seq_in_range qs ->
  exists st bits, enc_seqs dflt_LL dflt_OF dflt_ML qs = Some (st, bits).
Proof.
  destruct dflt_steps_total as (TL & TO & TM). destruct dflt_tables_wf as (W1 & W2 & W3).
  pose proof (steps_total_spec _ _ TL) as SL. pose proof (steps_total_spec _ _ TO) as SO. pose proof (steps_total_spec _ _ TM) as SM.
  induction qs as [|q rest IH]; intros Hne HF; [congruence|].
  inversion HF as [|? ? Hq Hrest]; subst.
  destruct (seq_codes_total q Hq) as (k & Ek & K1 & K2 & K3).
  destruct (SL (k_ll k) K1) as ((sl & Il) & StepL). destruct (SO (k_of k) K3) as ((so & Io) & StepO). destruct (SM (k_ml k) K2) as ((sm & Im) & StepM).
  cbn [enc_seqs]. rewrite Ek. destruct rest as [|q2 rest'].
  - rewrite Il, Io, Im. eauto.
  - destruct (IH ltac:(discriminate) Hrest) as (st2 & bits2 & E2). rewrite E2.
    destruct (enc_seqs_bounds _ _ _ W1 W2 W3 _ _ _ E2) as (B1 & B2 & B3).
    destruct (StepL (es_ll st2) B1) as ([a1 b1] & R1). destruct (StepM (es_ml st2) B3) as ([a3 b3] & R3). destruct (StepO (es_of st2) B2) as ([a2 b2] & R2).
    rewrite R1, R3, R2. eauto.
Qed.

Local Opaque dflt_LL dflt_OF dflt_ML.

Theorem decode_enc_cblock_basic strict window blockMax e x lits qs x1 lits1 rep1 :
  blockMax <= BLOCK_MAX -> lenN lits <= blockMax ->
  qs <> [] -> lenN qs < 98048 -> Forall seq_in_range qs ->
  exec_seqs strict window blockMax qs (e_rep e) (x_block_start x) lits = Ok (x1, lits1, rep1) ->
  x_blk x1 + lenN lits1 <= blockMax ->
  exists payload e' bt,
    enc_cblock_basic lits qs = Some payload /\
    decode_cblock strict window blockMax e x payload = Ok (e', push_fwd x1 lits1 (lenN lits1), bt) /\ e_rep e' = rep1.
Proof.
  intros HB Hl Hne Hn HF Hex Hfit.
  destruct (enc_seqs_dflt_total qs Hne HF) as (st & bits & Eq).
  destruct dflt_tables_built as (BL & BO & BM). destruct dflt_tables_wf as (W1 & W2 & W3).
  set (stream := pack_rbits (bits_msb (N.to_nat (ft_log dflt_LL)) (es_ll st) ++ bits_msb (N.to_nat (ft_log dflt_OF)) (es_of st) ++ bits_msb (N.to_nat (ft_log dflt_ML)) (es_ml st) ++ bits)).
  assert (Es : enc_seq_stream dflt_LL dflt_OF dflt_ML qs = Some stream) by (unfold enc_seq_stream; rewrite enc_seqs_fast_eq, Eq; reflexivity).
  destruct (decode_enc_cblock strict window blockMax e x (enc_lits_raw lits) lits (e_huf e) 0 0 [] [] [] dflt_LL dflt_OF dflt_ML qs stream x1 lits1 rep1) as (bt & Hd).
  - intros tail. apply decode_lits_raw; assumption.
  - exact Hne.
  - exact Hn.
  - reflexivity.
  - intros tail. apply seq_table_predef. exact BL.
  - intros tail. apply seq_table_predef. exact BO.
  - intros tail. apply seq_table_predef. exact BM.
  - exact W1.
  - exact W2.
  - exact W3.
  - exact Es.
  - exact Hex.
  - exact Hfit.
  - exists (enc_cblock_parts (enc_lits_raw lits) (lenN qs) 0 [] [] [] stream). eexists. exists bt.
    split; [|split; [exact Hd|reflexivity]].
    unfold enc_cblock_basic. destruct qs as [|q0 qr]; [congruence|]. rewrite Es. reflexivity.
Qed.

(* ---------- content: what the decoder regenerates from an encoded block ---------- *)
Local Transparent exec_seq resolve_offset.
Lemma exec_seqs_spec strict window blockMax : forall qs rep x lits x' lits' rep',
  sinv x -> exec_seqs strict window blockMax qs rep x lits = Ok (x', lits', rep') ->
  sinv x' /\ lz_exec qs rep (x_hist x) lits = Some (x_hist x', lits', rep') /\
  x_pos x' + x_avail x = x_pos x + x_avail x'.
Proof.
  induction qs as [|q t IH]; intros rep x lits x' lits' rep' Hs H; cbn [exec_seqs lz_exec] in *.
  - injection H as <- <- <-. split; [exact Hs|]. split; [reflexivity|lia].
  - inv_bind_as H as [off rep1] Hro. rewrite Hro. inv_bind_as H as [x1 lits1] Hxe.
    pose proof (exec_seq_inv _ _ _ _ _ _ _ _ _ _ (sinv_inv x Hs) Hxe) as (_ & P1 & A1 & _).
    apply exec_seq_spec in Hxe; [|exact Hs]. destruct Hxe as (S1 & E1). rewrite <- E1.
    apply IH in H; [|exact S1]. destruct H as (S2 & L2 & G2). split; [exact S2|]. split; [exact L2|lia].
Qed.
Local Opaque exec_seq resolve_offset.

Lemma x_block_start_sinv x : sinv x -> sinv (x_block_start x).
Proof. intros ((A & B & C) & M). split; [repeat split; assumption|exact M]. Qed.

(* a block made by the basic encoder from a parse of [regen] decodes to exactly [regen] *)
Theorem cblock_basic_regenerates strict window blockMax e x lits qs regen x1 lits1 rep1 :
  sinv x ->
  blockMax <= BLOCK_MAX -> lenN lits <= blockMax ->
  qs <> [] -> lenN qs < 98048 -> Forall seq_in_range qs ->
  exec_seqs strict window blockMax qs (e_rep e) (x_block_start x) lits = Ok (x1, lits1, rep1) ->
  x_blk x1 + lenN lits1 <= blockMax ->
  parses qs (e_rep e) (x_hist x) lits regen ->
  exists payload e' x' bt,
    enc_cblock_basic lits qs = Some payload /\
    decode_cblock strict window blockMax e x payload = Ok (e', x', bt) /\ ext x x' regen.
Proof.
  intros Hs HB Hl Hne Hn HF Hex Hfit (h1 & l1 & r1 & Hlz & Hreg).
  destruct (decode_enc_cblock_basic strict window blockMax e x lits qs x1 lits1 rep1 HB Hl Hne Hn HF Hex Hfit) as (payload & e' & bt & Henc & Hdec & _).
  exists payload, e', (push_fwd x1 lits1 (lenN lits1)), bt. split; [exact Henc|]. split; [exact Hdec|].
  destruct (exec_seqs_spec _ _ _ _ _ _ _ _ _ _ (x_block_start_sinv x Hs) Hex) as (S1 & L1 & G1).
  cbn [x_block_start x_hist x_pos x_avail] in L1, G1. rewrite Hlz in L1. injection L1 as -> -> ->.
  destruct (push_fwd_sinv x1 lits1 (lenN lits1) S1 eq_refl) as (S2 & H2).
  destruct (push_fwd_inv x1 lits1 (lenN lits1) (sinv_inv _ S1) eq_refl) as (_ & P2 & A2 & _).
  unfold ext. split; [exact S2|]. split; [rewrite H2; exact Hreg|].
  (* counters: avail grows by the number of bytes added to the history *)
  assert (Hlen : x_avail (push_fwd x1 lits1 (lenN lits1)) = x_avail x + lenN regen).
  { destruct S2 as ((Ea & _) & _). destruct Hs as ((Eb & _) & _). rewrite Ea, H2, Hreg, lenN_app, lenN_rev, <- Eb. lia. }
  split; lia.
Qed.

(* ---------- a whole frame around one basic compressed block: an LZ compressor model that is lossless ---------- *)
Theorem decode_enc_frame_one_cblock cfg d p dictID lits qs regen rest x1 lits1 rep1 :
  let win := frame_window p (lenN regen) in
  let blockMax := N.min (N.min win BLOCK_MAX) (c_block_max cfg) in
  params_ok p (lenN regen) dictID ->
  c_magicless cfg = fp_magicless p -> win <= c_window_max cfg -> dict_ok d p dictID ->
  lenN lits <= blockMax -> qs <> [] -> lenN qs < 98048 -> Forall seq_in_range qs ->
  exec_seqs (c_strict_window cfg) win blockMax qs (e_rep (dict_entropy d)) (x_block_start (x_init d)) lits = Ok (x1, lits1, rep1) ->
  x_blk x1 + lenN lits1 <= blockMax ->
  parses qs (e_rep (dict_entropy d)) (x_hist (x_init d)) lits regen ->
  exists payload, enc_cblock_basic lits qs = Some payload /\
    (lenN payload <= blockMax ->
     exists t, decode_frame cfg d (enc_frame p dictID [EBComp payload regen] ++ rest) = Ok (regen, t, rest)).
Proof.
  intros win blockMax Hp Hml Hw Hd Hl Hne Hn HF Hex Hfit Hparse.
  destruct (cblock_basic_regenerates (c_strict_window cfg) win blockMax (dict_entropy d) (x_init d) lits qs regen x1 lits1 rep1
              (x_init_inv d) ltac:(unfold blockMax; lia) Hl Hne Hn HF Hex Hfit Hparse) as (payload & e' & x' & bt & Henc & Hdec & Hext).
  assert (Ec : blocks_content [EBComp payload regen] = regen) by (unfold blocks_content; cbn [map concat block_content]; apply app_nil_r).
  exists payload. split; [exact Henc|]. intros Hpl.
  edestruct (decode_enc_frame cfg d p dictID [EBComp payload regen] rest e' x') as (t & Ht & _).
  - rewrite Ec. exact Hp.
  - discriminate.
  - exact Hml.
  - rewrite Ec. exact Hw.
  - exact Hd.
  - rewrite Ec. fold win. fold blockMax. cbn [blocks_spec block_spec].
    destruct (N.leb_spec (lenN payload) blockMax) as [_|]; [|lia]. cbn [guard bind]. rewrite Hdec. reflexivity.
  - rewrite Ec. exact Hext.
  - exists t. rewrite Ec in Ht. exact Ht.
Qed.
