(* A, second part: the sequences section of a compressed block (lib/compress/zstd_compress_sequences.c
   ZSTD_encodeSequences_body, lib/common/bitstream.h BIT_addBits / BIT_closeCStream, lib/common/fse.h
   FSE_initCState2 / FSE_encodeSymbol / FSE_flushCState) and raw / RLE literals sections
   (lib/compress/zstd_compress_literals.c ZSTD_noCompressLiterals, ZSTD_compressRleLiteralsBlock).
   The FSE encoder is expressed on the DECODING table: encoding symbol s from state x means finding the cell
   of s whose interval [base, base + 2^nbBits) contains x (unique in a table built from normalised counts).
   Model only - no proofs in this file. *)
From Coq Require Import NArith ZArith List Bool.
From ZV.Codec Require Import Bytes Fse Huf Block Encode.
From ZV.Codec Require LzContent.
Import ListNotations.
Local Open Scope N_scope.

(* ---------- backward bitstream, described in READ order ---------- *)
(* n bits of v, most significant first *)
Fixpoint bits_msb (n : nat) (v : N) : list bool :=
  match n with
  | O => []
  | S k => N.testbit v (N.of_nat k) :: bits_msb k v
  end.

(* groups of 8 bits (read order) become bytes; the first group is the LAST byte of the stream.
   Structural on the list (no length is ever computed as a Peano number: streams have hundreds of thousands of bits) *)
Fixpoint group8 (l : list bool) (acc : bytes) : bytes :=
  match l with
  | b7 :: b6 :: b5 :: b4 :: b3 :: b2 :: b1 :: b0 :: t => group8 t (bits_val_msb [b7; b6; b5; b4; b3; b2; b1; b0] :: acc)
  | [] => acc
  | _ => bits_val_msb l :: acc       (* a last partial group: not reached on the padded stream *)
  end.

(* (k + length l) mod 8, for k < 8, without building the length *)
Fixpoint len_mod8 (l : list bool) (k : nat) : nat :=
  match l with
  | [] => k
  | _ :: t => len_mod8 t (match k with 7%nat => 0%nat | _ => S k end)
  end.

(* close a stream: end marker, zero padding up to a byte boundary (BIT_closeCStream) *)
Definition pack_rbits (s : list bool) : bytes :=
  let pad := ((8 - len_mod8 s 1) mod 8)%nat in
  group8 (repeat false pad ++ true :: s) [].

(* ---------- FSE encoding on the decoding table ---------- *)
Fixpoint find_cell (cells : list fse_cell) (i : N) (P : fse_cell -> bool) : option (N * fse_cell) :=
  match cells with
  | [] => None
  | c :: t => if P c then Some (i, c) else find_cell t (N.succ i) P
  end.

(* FSE_initCState2: the first state of the symbol *)
Definition enc_init (t : fse_table) (sym : N) : option N :=
  match find_cell (ft_cells t) 0 (fun c => fc_sym c =? sym) with
  | Some (i, _) => Some i
  | None => None
  end.

(* FSE_encodeSymbol: from decoder state x back to the state that emits sym and moves to x; returns (state, bits) *)
Definition enc_step (t : fse_table) (x sym : N) : option (N * list bool) :=
  match find_cell (ft_cells t) 0
          (fun c => andb (fc_sym c =? sym) (andb (fc_base c <=? x) (x <? fc_base c + pow2 (fc_nb c)))) with
  | Some (i, c) => Some (i, bits_msb (N.to_nat (fc_nb c)) (x - fc_base c))
  | None => None
  end.

(* ---------- one sequence: codes and extra bits ---------- *)
Record eseq := { q_ll : N; q_ml : N; q_ofv : N }.   (* literal length, match length, offset VALUE (offBase: 1..3 repeat codes, >3 offset+3) *)

Fixpoint code_of (base bits : list N) (v : N) (c : N) : option N :=
  match base, bits with
  | b0 :: bt, n0 :: nt => if andb (b0 <=? v) (v <? b0 + pow2 n0) then Some c else code_of bt nt v (c + 1)
  | _, _ => None
  end.

Record ecodes := { k_ll : N; k_ml : N; k_of : N; k_bits : list bool }.

Definition seq_codes (q : eseq) : option ecodes :=
  match code_of spec_LL_base spec_LL_bits (q_ll q) 0, code_of spec_ML_base spec_ML_bits (q_ml q) 0 with
  | Some llc, Some mlc =>
    if orb (q_ofv q =? 0) (MaxOff <? N.log2 (q_ofv q)) then None
    else
      let ofc := N.log2 (q_ofv q) in
      let '(llb, llx) := ll_info llc in
      let '(mlb, mlx) := ml_info mlc in
      Some {| k_ll := llc; k_ml := mlc; k_of := ofc;
              k_bits := bits_msb (N.to_nat ofc) (q_ofv q - pow2 ofc)
                        ++ bits_msb (N.to_nat mlx) (q_ml q - mlb)
                        ++ bits_msb (N.to_nat llx) (q_ll q - llb) |}
  | _, _ => None
  end.

(* states the decoder is in when it starts a sequence, and the bits it reads from there to the end of the stream *)
Record estates := { es_ll : N; es_of : N; es_ml : N }.

Fixpoint enc_seqs (tll tof tml : fse_table) (qs : list eseq) : option (estates * list bool) :=
  match qs with
  | [] => None
  | q :: rest =>
    match seq_codes q with
    | None => None
    | Some k =>
      match rest with
      | [] =>
        match enc_init tll (k_ll k), enc_init tof (k_of k), enc_init tml (k_ml k) with
        | Some sl, Some so, Some sm => Some ({| es_ll := sl; es_of := so; es_ml := sm |}, k_bits k)
        | _, _, _ => None
        end
      | _ :: _ =>
        match enc_seqs tll tof tml rest with
        | None => None
        | Some (st, bits) =>
          match enc_step tll (es_ll st) (k_ll k), enc_step tml (es_ml st) (k_ml k), enc_step tof (es_of st) (k_of k) with
          | Some (sl, bl), Some (sm, bm), Some (so, bo) =>
            Some ({| es_ll := sl; es_of := so; es_ml := sm |}, k_bits k ++ bl ++ bm ++ bo ++ bits)
          | _, _, _ => None
          end
        end
      end
    end
  end.

(* the same computed from the last sequence to the first with an accumulator, as the C encoder does (and without deep
   recursion in the extracted code); equal to enc_seqs (EncodeSeqProofs.enc_seqs_fast_eq) *)
Fixpoint enc_seqs_rev (tll tof tml : fse_table) (rqs : list eseq) (st : estates) (bits : list bool) : option (estates * list bool) :=
  match rqs with
  | [] => Some (st, bits)
  | q :: t =>
    match seq_codes q with
    | None => None
    | Some k =>
      match enc_step tll (es_ll st) (k_ll k), enc_step tml (es_ml st) (k_ml k), enc_step tof (es_of st) (k_of k) with
      | Some (sl, bl), Some (sm, bm), Some (so, bo) =>
        enc_seqs_rev tll tof tml t {| es_ll := sl; es_of := so; es_ml := sm |} (k_bits k ++ bl ++ bm ++ bo ++ bits)
      | _, _, _ => None
      end
    end
  end.

Definition enc_seqs_fast (tll tof tml : fse_table) (qs : list eseq) : option (estates * list bool) :=
  match rev' qs with
  | [] => None
  | q :: t =>
    match seq_codes q with
    | None => None
    | Some k =>
      match enc_init tll (k_ll k), enc_init tof (k_of k), enc_init tml (k_ml k) with
      | Some sl, Some so, Some sm => enc_seqs_rev tll tof tml t {| es_ll := sl; es_of := so; es_ml := sm |} (k_bits k)
      | _, _, _ => None
      end
    end
  end.

(* the whole bitstream of a sequences section *)
Definition enc_seq_stream (tll tof tml : fse_table) (qs : list eseq) : option bytes :=
  match enc_seqs_fast tll tof tml qs with
  | None => None
  | Some (st, bits) =>
    Some (pack_rbits (bits_msb (N.to_nat (ft_log tll)) (es_ll st)
                      ++ bits_msb (N.to_nat (ft_log tof)) (es_of st)
                      ++ bits_msb (N.to_nat (ft_log tml)) (es_ml st) ++ bits))
  end.

(* Number_of_Sequences field *)
Definition enc_nbseq (n : N) : bytes :=
  if n <? 128 then [n]
  else if n <? 32512 then [N.shiftr n 8 + 128; n mod 256]
  else 255 :: write_le 2 (n - 32512).

(* ---------- literals sections ---------- *)
(* ZSTD_noCompressLiterals *)
Definition enc_lits_raw (lits : bytes) : bytes :=
  let n := lenN lits in
  (if n <? 32 then write_le 1 (8 * n)
   else if n <? 4096 then write_le 2 (4 + 16 * n)
   else write_le 3 (12 + 16 * n)) ++ lits.

(* ZSTD_compressRleLiteralsBlock *)
Definition enc_lits_rle (v n : N) : bytes :=
  (if n <? 32 then write_le 1 (1 + 8 * n)
   else if n <? 4096 then write_le 2 (1 + 4 + 16 * n)
   else write_le 3 (1 + 12 + 16 * n)) ++ [v].

(* ---------- a compressed block assembled from its parts ----------
   litsec: a literals section (any mode); modes: the symbol-compression-modes byte; dll/dof/dml: the three table
   descriptions (empty for predefined / repeat mode, one byte for RLE mode, an FSE description for compressed mode). *)
Definition enc_cblock_parts (litsec : bytes) (nbseq : N) (modes : N) (dll dof dml : bytes) (stream : bytes) : bytes :=
  litsec ++ enc_nbseq nbseq ++ (if nbseq =? 0 then [] else modes :: dll ++ dof ++ dml ++ stream).

(* what the decoder does with a decoded sequence list: the execution fold of seq_loop, without the bitstream *)
Fixpoint exec_seqs (strict : bool) (window blockMax : N) (qs : list eseq) (rep : N * N * N) (x : xstate) (lits : list N)
  : res (xstate * list N * (N * N * N)) :=
  match qs with
  | [] => Ok (x, lits, rep)
  | q :: t =>
    do ro <- resolve_offset (q_ofv q) (q_ll q) rep;
    let '(off, rep') := ro in
    do xe <- exec_seq strict window blockMax x lits (q_ll q) (q_ml q) off;
    let '(x', lits') := xe in
    exec_seqs strict window blockMax t rep' x' lits'
  end.

(* ---------- the basic block encoder: raw literals, the three predefined tables ----------
   (what ZSTD_compressBlock emits with literal compression disabled and few sequences: set_basic for all three) *)
Definition dflt_table (log : N) (norm : list Z) : fse_table :=
  match build_dtable log norm with Ok t => t | Err _ _ => rle_table 0 end.
Definition dflt_LL : fse_table := dflt_table 6 spec_LL_default.
Definition dflt_OF : fse_table := dflt_table 5 spec_OF_default.
Definition dflt_ML : fse_table := dflt_table 6 spec_ML_default.

Definition enc_cblock_basic (lits : bytes) (qs : list eseq) : option bytes :=
  match qs with
  | [] => Some (enc_cblock_parts (enc_lits_raw lits) 0 0 [] [] [] [])
  | _ => match enc_seq_stream dflt_LL dflt_OF dflt_ML qs with
         | Some stream => Some (enc_cblock_parts (enc_lits_raw lits) (lenN qs) 0 [] [] [] stream)
         | None => None
         end
  end.

(* list-level meaning of a sequence list: history (newest first) and remaining literals after executing it *)
Fixpoint lz_exec (qs : list eseq) (rep : N * N * N) (h lits : list N) : option (list N * list N * (N * N * N)) :=
  match qs with
  | [] => Some (h, lits, rep)
  | q :: t =>
    match resolve_offset (q_ofv q) (q_ll q) rep with
    | Ok (off, rep') => let '(h', lits') := LzContent.lz_step h lits (q_ll q) (q_ml q) off in lz_exec t rep' h' lits'
    | Err _ _ => None
    end
  end.

(* (lits, qs) is a parse of [regen] on top of history h *)
Definition parses (qs : list eseq) (rep : N * N * N) (h lits regen : list N) : Prop :=
  exists h1 lits1 rep1, lz_exec qs rep h lits = Some (h1, lits1, rep1) /\ rev lits1 ++ h1 = rev regen ++ h.
