(* A, fifth part: FSE table descriptions (lib/compress/fse_compress.c FSE_writeNCount_generic).
   Forward bitstream, least significant bit first.  Model only - no proofs in this file. *)
From Coq Require Import NArith ZArith List Bool.
From ZV.Codec Require Import Bytes Fse Encode.
Import ListNotations.
Local Open Scope N_scope.

(* n bits of v, least significant first *)
Fixpoint bits_lsb (n : nat) (v : N) : list bool :=
  match n with
  | O => []
  | S k => N.odd v :: bits_lsb k (N.div2 v)
  end.

(* pack a forward bit list into bytes (LSB first inside each byte, zero padded) ; structural on the list *)
Fixpoint pack_fbits (l : list bool) : bytes :=
  match l with
  | b0 :: b1 :: b2 :: b3 :: b4 :: b5 :: b6 :: b7 :: t => bits_val_lsb [b0; b1; b2; b3; b4; b5; b6; b7] :: pack_fbits t
  | [] => []
  | _ => [bits_val_lsb l]
  end.

(* number of zero counts at the head of the list *)
Fixpoint zero_run (counts : list Z) : N * list Z :=
  match counts with
  | c :: t => if Z.eqb c 0 then let '(n, r) := zero_run t in (n + 1, r) else (0, counts)
  | [] => (0, [])
  end.

(* 2-bit repeat codes for a run of n zeros: "3" while three or more remain, then the remainder *)
Fixpoint repeat_codes (fuel : nat) (n : N) : list bool :=
  match fuel with
  | O => []
  | S f => if 3 <=? n then true :: true :: repeat_codes f (n - 3) else bits_lsb 2 n
  end.

(* main loop: state = remaining / threshold / nbBits / previous count was zero ; bits accumulated in reverse *)
Fixpoint wncount_loop (fuel : nat) (counts : list Z) (remaining threshold nbBits : N) (prev0 : bool) (acc : list bool) : option (list bool) :=
  match fuel with
  | O => None
  | S f =>
    if remaining <=? 1 then (match counts with [] => Some (rev' acc) | _ => None end)   (* every count must have been written *)
    else
      let '(zbits, counts1) :=
        if prev0 then let '(n0, r) := zero_run counts in (repeat_codes 100 n0, r) else ([], counts) in
      match counts1 with
      | [] => None                      (* distribution does not sum to the table size *)
      | c :: t =>
        let max := (2 * threshold - 1) - remaining in
        let a := Z.to_N (Z.abs c) in
        if remaining <=? a then None    (* remaining would drop below 1 *)
        else
          let remaining' := remaining - a in
          let v0 := Z.to_N (c + 1) in
          let v := if threshold <=? v0 then v0 + max else v0 in
          let nb := if v <? max then nbBits - 1 else nbBits in
          let acc' := rev_append (bits_lsb (N.to_nat nb) v) (rev_append zbits acc) in
          (* while (remaining < threshold) { nbBits--; threshold >>= 1; } *)
          let '(threshold', nbBits') :=
            if remaining' <? threshold then let k := N.log2 remaining' + 1 in (pow2 (k - 1), k) else (threshold, nbBits) in
          wncount_loop f t remaining' threshold' nbBits' (Z.eqb c 0) acc'
      end
  end.

Definition write_ncount (log : N) (counts : list Z) : option bytes :=
  if andb (5 <=? log) (log <=? 12) then
    match wncount_loop (S (length counts)) counts (pow2 log + 1) (pow2 log) (log + 1) false (rev' (bits_lsb 4 (log - 5))) with
    | Some bits => Some (pack_fbits bits)
    | None => None
    end
  else None.
