(* C03: what the reference decoder R produces is bounded by what the stream declares.
   Every block regenerates at most blockMax = min(window, 128 KiB, maxBlockSize) bytes, the frame content is the
   concatenation of the blocks, and a Frame_Content_Size field, when present, is the exact output length.
   The proof carries the decoder-state invariant [xwf]: the history list really has x_avail bytes and every
   access accelerator mark (l, s) really is a list of l bytes - so that the bounds checks of R ([offset_ok],
   the literal-length split, [x_blk + ml <= blockMax]) are the only thing needed for every copy to deliver
   exactly the number of bytes asked for (no short read of the history). *)
From Coq Require Import NArith ZArith List Bool Lia Arith.
From ZV.Codec Require Import Bytes XXH64 Fse Huf Block Frame.
From ZV.Safety Require Import RLemmas.
Import ListNotations.
Local Open Scope N_scope.

(* ------------------------------------------------------------------ inversion of the result monad *)
Lemma bind_ok {A B} (r : res A) (f : A -> res B) b : bind r f = Ok b -> exists a, r = Ok a /\ f a = Ok b.
Proof. destruct r; simpl; intros; [eauto|discriminate]. Qed.
Lemma guard_ok b c s u : guard b c s = Ok u -> b = true.
Proof. unfold guard; destruct b; intros; [auto|discriminate]. Qed.
Lemma of_opt_ok {A} (o : option A) c s a : of_opt o c s = Ok a -> o = Some a.
Proof. unfold of_opt; destruct o; intros H; inversion H; auto. Qed.

(* ------------------------------------------------------------------ decoder-state invariant *)
Definition mark_ok (m : N * list N) : Prop := N.of_nat (length (snd m)) = fst m.

Definition xwf (base : N) (x : xstate) : Prop :=
  N.of_nat (length (x_hist x)) = x_avail x /\ x_avail x = base + x_pos x /\ Forall mark_ok (x_marks x).

Lemma add_mark_ok marks len hist :
  Forall mark_ok marks -> N.of_nat (length hist) = len -> Forall mark_ok (add_mark marks len hist).
Proof.
  intros F L. unfold add_mark. destruct marks as [|[l s] t].
  - destruct (MARK_GAP <=? len); auto.
  - destruct (l + MARK_GAP <=? len); auto.
Qed.

Lemma push_fwd_wf base x seg n :
  xwf base x -> N.of_nat (length seg) = n ->
  xwf base (push_fwd x seg n) /\ x_pos (push_fwd x seg n) = x_pos x + n /\ x_blk (push_fwd x seg n) = x_blk x + n.
Proof.
  intros (H1 & H2 & H3) L. unfold push_fwd, xwf; cbn [x_hist x_marks x_avail x_pos x_blk].
  assert (N.of_nat (length (rev_append seg (x_hist x))) = x_avail x + n) by (rewrite rev_append_length; lia).
  repeat split; auto; try lia. apply add_mark_ok; auto.
Qed.

Lemma push_rev_wf base x seg n :
  xwf base x -> N.of_nat (length seg) = n ->
  xwf base (push_rev x seg n) /\ x_pos (push_rev x seg n) = x_pos x + n /\ x_blk (push_rev x seg n) = x_blk x + n.
Proof.
  intros (H1 & H2 & H3) L. unfold push_rev, xwf; cbn [x_hist x_marks x_avail x_pos x_blk].
  assert (N.of_nat (length (app_tr seg (x_hist x))) = x_avail x + n) by (rewrite app_tr_length; lia).
  repeat split; auto; try lia. apply add_mark_ok; auto.
Qed.

Lemma find_mark_ok : forall marks target best,
  Forall mark_ok marks -> mark_ok best -> target <= fst best ->
  mark_ok (find_mark marks target best) /\ target <= fst (find_mark marks target best).
Proof.
  induction marks as [|[l s] t IH]; intros target best F B T; cbn [find_mark]; auto.
  inversion F; subst. destruct (N.leb_spec target l); auto.
Qed.

Lemma suffix_at_length base x target :
  xwf base x -> target <= x_avail x -> N.of_nat (length (suffix_at x target)) = target.
Proof.
  intros (H1 & H2 & H3) T. unfold suffix_at.
  destruct (find_mark_ok (x_marks x) target (x_avail x, x_hist x) H3 H1 T) as [M1 M2].
  destruct (find_mark (x_marks x) target (x_avail x, x_hist x)) as [l s]. unfold mark_ok in M1. cbn [fst snd] in *.
  rewrite skipN_length. lia.
Qed.

(* the overlap-copy loop delivers exactly ml bytes when 1 <= off <= available history *)
Lemma copy_match_wf base : forall f x off ml,
  xwf base x -> 1 <= off -> off <= x_avail x -> ml / off < N.of_nat f ->
  xwf base (copy_match f x off ml) /\ x_pos (copy_match f x off ml) = x_pos x + ml /\
  x_blk (copy_match f x off ml) = x_blk x + ml.
Proof.
  induction f; intros x off ml W O1 O2 F; [exfalso; generalize dependent (ml / off); intros; lia|].
  cbn [copy_match]. destruct (N.leb_spec ml off).
  - apply push_rev_wf; auto. rewrite takeN_length. erewrite suffix_at_length; eauto; lia.
  - assert (L : N.of_nat (length (takeN off (x_hist x))) = off).
    { rewrite takeN_length. destruct W as (W1 & _). lia. }
    destruct (push_rev_wf base x _ off W L) as (W' & P' & B').
    assert (E : ml / off = 1 + (ml - off) / off).
    { replace ml with (1 * off + (ml - off)) at 1 by lia. rewrite N.div_add_l by lia. reflexivity. }
    destruct (IHf (push_rev x (takeN off (x_hist x)) off) off (ml - off)) as (W2 & P2 & B2); auto.
    + unfold push_rev; cbn [x_avail]. lia.
    + generalize dependent (ml / off). generalize ((ml - off) / off). intros; lia.
    + split; [exact W2|]. split; lia.
Qed.

Lemma offset_ok_bounds strict window x off : offset_ok strict window x off = true -> 1 <= off /\ off <= x_avail x.
Proof.
  unfold offset_ok. intros H. apply andb_true_iff in H. destruct H as [H1 H2].
  apply andb_true_iff in H2. destruct H2 as [H2 _]. apply N.leb_le in H1, H2. auto.
Qed.

Lemma exec_seq_props base strict window blockMax x lits ll ml off x' lits' :
  xwf base x -> exec_seq strict window blockMax x lits ll ml off = Ok (x', lits') ->
  xwf base x' /\ x_pos x' = x_pos x + ll + ml /\ x_blk x' = x_blk x + ll + ml /\ x_blk x' <= blockMax.
Proof.
  intros W H. unfold exec_seq in H.
  apply bind_ok in H. destruct H as ([a b] & SP & H). apply of_opt_ok in SP. apply splitN_spec in SP. destruct SP as [SP L].
  cbn [fst snd] in H. lazy zeta in H.
  apply bind_ok in H. destruct H as (u1 & G1 & H). apply guard_ok in G1.
  apply bind_ok in H. destruct H as (u2 & G2 & H). apply guard_ok in G2. apply N.leb_le in G2.
  assert (EX : x' = copy_match (S (N.to_nat (ml / off))) (push_fwd x a ll) off ml) by congruence.
  clear H. subst x'.
  destruct (push_fwd_wf base x a ll W L) as (W1 & P1 & B1).
  destruct (offset_ok_bounds _ _ _ _ G1) as [O1 O2].
  destruct (copy_match_wf base (S (N.to_nat (ml / off))) (push_fwd x a ll) off ml W1 O1 O2) as (W2 & P2 & B2); [lia|].
  split; [exact W2|]. repeat split; lia.
Qed.

Lemma seq_loop_props base : forall n strict window blockMax tll tof tml stll stof stml s rep x lits acc xs lits' rep' sqs,
  xwf base x ->
  seq_loop n strict window blockMax tll tof tml stll stof stml s rep x lits acc = Ok (xs, lits', rep', sqs) ->
  xwf base xs /\ x_pos xs + x_blk x = x_pos x + x_blk xs.
Proof.
  induction n; intros strict window blockMax tll tof tml stll stof stml s rep x lits acc xs lits' rep' sqs W H;
    cbn [seq_loop] in H.
  - apply bind_ok in H. destruct H as (u & _ & H). inversion H; subst. split; auto.
  - apply bind_ok in H. destruct H as (u & _ & H).
    apply bind_ok in H. destruct H as (r1 & _ & H). lazy zeta in H.
    destruct (ml_info _) as [mlb mlx]. apply bind_ok in H. destruct H as (r2 & _ & H).
    destruct (ll_info _) as [llb llx]. apply bind_ok in H. destruct H as (r3 & _ & H).
    apply bind_ok in H. destruct H as ([off rp] & _ & H).
    apply bind_ok in H. destruct H as ([x1 l1] & E & H).
    destruct (exec_seq_props base _ _ _ _ _ _ _ _ _ _ W E) as (W1 & P1 & B1 & _).
    destruct n.
    + apply IHn in H; auto. destruct H. split; auto. lia.
    + apply bind_ok in H. destruct H as (u1 & _ & H).
      apply bind_ok in H. destruct H as (u2 & _ & H).
      apply bind_ok in H. destruct H as (u3 & _ & H).
      apply IHn in H; auto. destruct H. split; auto. lia.
Qed.

Lemma decode_cblock_props base strict window blockMax e x src e' x' bt :
  xwf base x -> decode_cblock strict window blockMax e x src = Ok (e', x', bt) ->
  xwf base x' /\ x_pos x' = x_pos x + bt_rsize bt /\ bt_rsize bt <= blockMax.
Proof.
  intros W H. unfold decode_cblock in H.
  apply bind_ok in H. destruct H as (u & _ & H).
  apply bind_ok in H. destruct H as ([[[lits huf'] lused] lmode] & _ & H).
  apply bind_ok in H. destruct H as ([nbseq rest1] & _ & H). lazy zeta in H.
  set (x0 := {| x_hist := x_hist x; x_marks := x_marks x; x_avail := x_avail x; x_pos := x_pos x; x_blk := 0 |}) in *.
  assert (W0 : xwf base x0) by (destruct W as (A & B & C); repeat split; auto).
  assert (FIN : forall (e1 : entropy) xs (lits1 : list N) modes sqs lastt,
            xwf base xs -> x_pos xs + x_blk x0 = x_pos x0 + x_blk xs ->
            (check (x_blk xs + lenN lits1 <=? blockMax) else Esafety @ 361;
             Ok (e1, push_fwd xs lits1 (lenN lits1),
                 {| bt_type := 2; bt_last := false; bt_csize := lenN src; bt_rsize := x_blk (push_fwd xs lits1 (lenN lits1));
                    bt_litmode := lmode; bt_litsize := lenN lits; bt_seqmodes := modes; bt_seqs := sqs;
                    bt_nbseq_bytes := lenN (skipN src lused) - lenN rest1; bt_lasttable := lastt |})) = Ok (e', x', bt) ->
            xwf base x' /\ x_pos x' = x_pos x + bt_rsize bt /\ bt_rsize bt <= blockMax).
  { intros e1 xs lits1 modes sqs lastt Ws D F.
    apply bind_ok in F. destruct F as (u1 & G & F). apply guard_ok in G. apply N.leb_le in G.
    inversion F; subst e' x' bt. cbn [bt_rsize].
    destruct (push_fwd_wf base xs lits1 (lenN lits1) Ws) as (W2 & P2 & B2); [rewrite lenN_spec; auto|].
    unfold x0 in D; cbn [x_pos x_blk] in D. split; [exact W2|]. split; lia. }
  destruct (nbseq =? 0).
  - apply bind_ok in H. destruct H as (u1 & _ & H). eapply FIN; [exact W0|reflexivity|exact H].
  - destruct rest1 as [|modes rest2]; try discriminate.
    apply bind_ok in H. destruct H as (u1 & _ & H).
    apply bind_ok in H. destruct H as (tl & _ & H).
    apply bind_ok in H. destruct H as (to & _ & H).
    apply bind_ok in H. destruct H as (tm & _ & H).
    apply bind_ok in H. destruct H as (s0 & _ & H).
    apply bind_ok in H. destruct H as (i1 & _ & H).
    apply bind_ok in H. destruct H as (i2 & _ & H).
    apply bind_ok in H. destruct H as (i3 & _ & H).
    apply bind_ok in H. destruct H as ([[[xs lits1] rp] sqs] & SL & H).
    apply seq_loop_props with (base := base) in SL; auto. destruct SL as (Ws & D).
    eapply FIN; [exact Ws|exact D|exact H].
Qed.

(* ------------------------------------------------------------------ blocks of a frame *)
Definition sum_rsize (l : list btrace) : N := fold_right (fun b s => bt_rsize b + s) 0 l.

Lemma sum_rsize_app a b : sum_rsize (a ++ b) = sum_rsize a + sum_rsize b.
Proof. induction a; simpl; [reflexivity|]. rewrite IHa. lia. Qed.

Lemma sum_rsize_rev' l : sum_rsize (rev' l) = sum_rsize l.
Proof.
  rewrite rev'_rev. induction l; simpl; auto. rewrite sum_rsize_app, IHl. simpl. lia.
Qed.

Lemma Forall_rev' {A} (P : A -> Prop) l : Forall P l -> Forall P (rev' l).
Proof. rewrite rev'_rev. apply Forall_rev. Qed.

Lemma blocks_loop_output base : forall (fuel : list N) strict window blockMax e x src acc x' r bts,
  xwf base x -> Forall (fun b => bt_rsize b <= blockMax) acc ->
  blocks_loop fuel strict window blockMax e x src acc = Ok (x', r, bts) ->
  xwf base x' /\ x_pos x + sum_rsize bts = x_pos x' + sum_rsize acc /\ Forall (fun b => bt_rsize b <= blockMax) bts.
Proof.
  induction fuel as [|f0 fuel IH]; intros strict window blockMax e x src acc x' r bts W FA H; [discriminate|].
  cbn [blocks_loop] in H.
  apply bind_ok in H. destruct H as ([hv r0] & _ & H).
  set (last := N.testbit hv 0) in *. set (btype := N.land (N.shiftr hv 1) 3) in *. set (bsize := N.shiftr hv 3) in *.
  apply bind_ok in H. destruct H as ([[[e1 x1] rest] bt] & ST & H).
  assert (STEP : xwf base x1 /\ x_pos x1 = x_pos x + bt_rsize bt /\ bt_rsize bt <= blockMax).
  { destruct (btype =? 0).
    - apply bind_ok in ST. destruct ST as (u & G & ST). apply guard_ok in G. apply N.leb_le in G.
      apply bind_ok in ST. destruct ST as ([a b] & SP & ST). apply of_opt_ok in SP. apply splitN_spec in SP.
      destruct SP as [_ L]. inversion ST; subst e1 x1 rest bt. cbn [fst bt_rsize].
      destruct (push_fwd_wf base x a bsize W L) as (W1 & P1 & _). auto.
    - destruct (btype =? 1).
      + apply bind_ok in ST. destruct ST as (u & G & ST). apply guard_ok in G. apply N.leb_le in G.
        destruct r0 as [|v t]; try discriminate. inversion ST; subst e1 x1 rest bt. cbn [bt_rsize].
        destruct (push_rev_wf base x (repeatN v bsize []) bsize W) as (W1 & P1 & _); auto.
        rewrite repeatN_length. simpl. lia.
      + destruct (btype =? 2); try discriminate.
        apply bind_ok in ST. destruct ST as (u & G & ST).
        apply bind_ok in ST. destruct ST as ([a b] & SP & ST).
        apply bind_ok in ST. destruct ST as ([[e2 x2] bt2] & DC & ST).
        inversion ST; subst e1 x1 rest bt. cbn [bt_rsize].
        eapply decode_cblock_props; eauto. }
  destruct STEP as (W1 & P1 & B1).
  destruct last.
  - inversion H; subst x' r bts. split; auto. split.
    + rewrite sum_rsize_rev'. simpl. lia.
    + apply Forall_rev'. constructor; auto.
  - apply IH in H; auto. destruct H as (W2 & P2 & F2). split; auto. split; auto.
    simpl in P2. lia.
Qed.

(* ------------------------------------------------------------------ a frame *)
Definition frame_block_max (cfg : config) (fh : fheader) : N :=
  N.min (N.min (fh_window fh) BLOCK_MAX) (c_block_max cfg).

Theorem R_output_bound : forall cfg d src out t rest,
  decode_frame cfg d src = Ok (out, t, rest) ->
  let bm := frame_block_max cfg (ft_header t) in
  bm <= 131072 /\
  Forall (fun b => bt_rsize b <= bm) (ft_blocks t) /\
  lenN out = sum_rsize (ft_blocks t) /\
  (forall v, fh_fcs (ft_header t) = Some v -> lenN out = v) /\
  lenN out <= 131072 * lenN (ft_blocks t).
Proof.
  intros cfg d src out t rest H. unfold decode_frame in H.
  apply bind_ok in H. destruct H as ([fh r0] & _ & H).
  apply bind_ok in H. destruct H as (u & _ & H).
  apply bind_ok in H. destruct H as ([e0 dcontent] & _ & H). lazy zeta in H.
  apply bind_ok in H. destruct H as ([[x r1] bts] & BL & H).
  apply bind_ok in H. destruct H as (u2 & G & H). apply guard_ok in G.
  apply bind_ok in H. destruct H as ([ck r2] & _ & H).
  inversion H; subst out t rest. clear H. cbn [ft_header ft_blocks]. unfold frame_block_max.
  apply blocks_loop_output with (base := lenN dcontent) in BL.
  - destruct BL as ((W1 & W2 & _) & P & F). cbn [x_pos] in P. simpl in P.
    assert (LO : lenN (frame_output x) = x_pos x).
    { unfold frame_output. rewrite lenN_spec, takeN_rev_length. simpl. lia. }
    assert (BM : N.min (N.min (fh_window fh) BLOCK_MAX) (c_block_max cfg) <= 131072) by (unfold BLOCK_MAX; lia).
    split; [exact BM|]. split; [exact F|]. split; [lia|]. split.
    + intros v E. rewrite E in G. apply N.eqb_eq in G. lia.
    + rewrite LO. replace (x_pos x) with (sum_rsize bts) by lia.
      clear - F BM. induction F as [|b l Hb F IH]; [simpl; lia|].
      rewrite lenN_spec in *. cbn [sum_rsize fold_right length]. fold (sum_rsize l). lia.
  - repeat split; cbn [x_hist x_avail x_pos x_marks]; auto.
    + rewrite rev'_length, lenN_spec. reflexivity.
    + lia.
  - constructor.
Qed.
