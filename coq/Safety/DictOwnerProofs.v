(* Proofs about DictOwner.v (round 3): with a ZSTD_copyDCtx that does not inherit a dictionary the source owns, no frame ever
   dereferences a released DDict, for every history of create / load / prefix / ref / clear / use / free / copy on any contexts;
   the verbatim copy is refuted. *)
From Coq Require Import NArith List Bool Lia.
From ZV.Safety Require Import DictOwner.
Import ListNotations.
Local Open Scope N_scope.

Definition dinv (s : dstate) : Prop :=
  (forall c f h, d_ctx s c = Some f -> d_cur f = DLocal h -> d_local f = Some h) /\
  (forall c f h, d_ctx s c = Some f -> d_local f = Some h -> h < d_next s /\ ~ In h (d_freed s)) /\
  (forall c1 c2 f1 f2 h, d_ctx s c1 = Some f1 -> d_ctx s c2 = Some f2 -> d_local f1 = Some h -> d_local f2 = Some h -> c1 = c2) /\
  (forall h, In h (d_freed s) -> h < d_next s).

Lemma dinv_init : dinv d_init.
Proof. repeat split; simpl; intros; try discriminate; contradiction. Qed.

Lemma dupd_eq m c v : dupd m c v c = v.
Proof. unfold dupd. rewrite N.eqb_refl. reflexivity. Qed.
Lemma dupd_neq m c v x : x <> c -> dupd m c v x = m x.
Proof. unfold dupd. intros H. destruct (N.eqb_spec x c); [contradiction|reflexivity]. Qed.

Lemma in_release l fr h : In h (release l fr) <-> l = Some h \/ In h fr.
Proof.
  destruct l as [x|]; simpl.
  - split; [intros [->|H]; auto | intros [E|H]; [inversion E; auto | auto]].
  - split; [auto | intros [E|H]; [discriminate | exact H]].
Qed.

(* generic preservation: context c gets new fields nf whose local handle is [nl]; its old local is released; next grows to n' *)
Lemma dinv_replace s c f nf n' :
  dinv s -> d_ctx s c = Some f -> d_next s <= n' ->
  (forall h, d_cur nf = DLocal h -> d_local nf = Some h) ->
  (forall h, d_local nf = Some h -> d_next s <= h < n') ->
  dinv {| d_ctx := dupd (d_ctx s) c (Some nf); d_freed := release (d_local f) (d_freed s); d_next := n' |}.
Proof.
  intros (A & B & C & D) E Hn HA HL. split; [|split; [|split]]; simpl.
  - intros x g h Hx Hc. destruct (N.eq_dec x c) as [->|Ne].
    + rewrite dupd_eq in Hx. inversion Hx; subst. apply HA. exact Hc.
    + rewrite dupd_neq in Hx by exact Ne. eapply A; eauto.
  - intros c0 f0 h H H0. split.
    { destruct (N.eq_dec c0 c) as [->|Ne].
    + rewrite dupd_eq in H. inversion H; subst. apply HL in H0. lia.
    + rewrite dupd_neq in H by exact Ne. destruct (B _ _ _ H H0). lia. }
    intros Hin. apply in_release in Hin. destruct (N.eq_dec c0 c) as [->|Ne].
    + rewrite dupd_eq in H. inversion H; subst. apply HL in H0.
      destruct Hin as [Hl|Hf].
      * destruct (B _ _ _ E Hl). lia.
      * apply D in Hf. lia.
    + rewrite dupd_neq in H by exact Ne. destruct Hin as [Hl|Hf].
      * apply Ne. eapply C; eauto.
      * destruct (B _ _ _ H H0). contradiction.
  - intros c1 c2 f1 f2 h H1 H2 L1 L2.
    destruct (N.eq_dec c1 c) as [->|N1]; destruct (N.eq_dec c2 c) as [->|N2]; auto.
    + rewrite dupd_eq in H1. rewrite dupd_neq in H2 by exact N2. inversion H1; subst.
      apply HL in L1. destruct (B _ _ _ H2 L2). lia.
    + rewrite dupd_eq in H2. rewrite dupd_neq in H1 by exact N1. inversion H2; subst.
      apply HL in L2. destruct (B _ _ _ H1 L1). lia.
    + rewrite dupd_neq in H1 by exact N1. rewrite dupd_neq in H2 by exact N2. eapply C; eauto.
  - intros h Hin. apply in_release in Hin. destruct Hin as [Hl|Hf].
    + destruct (B _ _ _ E Hl). lia.
    + apply D in Hf. lia.
Qed.

(* the context keeps its local handle, nothing is released *)
Lemma dinv_keep s c f nf :
  dinv s -> d_ctx s c = Some f -> d_local nf = d_local f ->
  (forall h, d_cur nf = DLocal h -> d_local nf = Some h) ->
  dinv {| d_ctx := dupd (d_ctx s) c (Some nf); d_freed := d_freed s; d_next := d_next s |}.
Proof.
  intros (A & B & C & D) E HLoc HA. split; [|split; [|split]]; simpl.
  - intros x g h Hx Hc. destruct (N.eq_dec x c) as [->|Ne].
    + rewrite dupd_eq in Hx. inversion Hx; subst. apply HA. exact Hc.
    + rewrite dupd_neq in Hx by exact Ne. eapply A; eauto.
  - intros c0 f0 h H H0. destruct (N.eq_dec c0 c) as [->|Ne].
    + rewrite dupd_eq in H. inversion H; subst. rewrite HLoc in H0. exact (B _ _ _ E H0).
    + rewrite dupd_neq in H by exact Ne. exact (B _ _ _ H H0).
  - intros c1 c2 f1 f2 h H1 H2 L1 L2.
    destruct (N.eq_dec c1 c) as [->|N1]; destruct (N.eq_dec c2 c) as [->|N2]; auto.
    + rewrite dupd_eq in H1. rewrite dupd_neq in H2 by exact N2. inversion H1; subst. rewrite HLoc in L1. eapply C; eauto.
    + rewrite dupd_eq in H2. rewrite dupd_neq in H1 by exact N1. inversion H2; subst. rewrite HLoc in L2. eapply C; eauto.
    + rewrite dupd_neq in H1 by exact N1. rewrite dupd_neq in H2 by exact N2. eapply C; eauto.
  - exact D.
Qed.

Lemma dinv_create s c : dinv s -> d_ctx s c = None ->
  dinv {| d_ctx := dupd (d_ctx s) c (Some d_empty); d_freed := d_freed s; d_next := d_next s |}.
Proof.
  intros (A & B & C & D) E. split; [|split; [|split]]; simpl.
  - intros x g h Hx Hc. destruct (N.eq_dec x c) as [->|Ne].
    + rewrite dupd_eq in Hx. inversion Hx; subst. discriminate.
    + rewrite dupd_neq in Hx by exact Ne. eapply A; eauto.
  - intros c0 f0 h H H0. destruct (N.eq_dec c0 c) as [->|Ne].
    + rewrite dupd_eq in H. inversion H; subst. discriminate.
    + rewrite dupd_neq in H by exact Ne. exact (B _ _ _ H H0).
  - intros c1 c2 f1 f2 h H1 H2 L1 L2.
    destruct (N.eq_dec c1 c) as [->|N1]; destruct (N.eq_dec c2 c) as [->|N2]; auto.
    + rewrite dupd_eq in H1. inversion H1; subst. discriminate.
    + rewrite dupd_eq in H2. inversion H2; subst. discriminate.
    + rewrite dupd_neq in H1 by exact N1. rewrite dupd_neq in H2 by exact N2. eapply C; eauto.
  - exact D.
Qed.

Lemma dinv_free s c f : dinv s -> d_ctx s c = Some f ->
  dinv {| d_ctx := dupd (d_ctx s) c None; d_freed := release (d_local f) (d_freed s); d_next := d_next s |}.
Proof.
  intros (A & B & C & D) E. split; [|split; [|split]]; simpl.
  - intros x g h Hx Hc. destruct (N.eq_dec x c) as [->|Ne].
    + rewrite dupd_eq in Hx. discriminate.
    + rewrite dupd_neq in Hx by exact Ne. eapply A; eauto.
  - intros c0 f0 h H H0. split.
    { destruct (N.eq_dec c0 c) as [->|Ne].
    + rewrite dupd_eq in H. discriminate.
    + rewrite dupd_neq in H by exact Ne. destruct (B _ _ _ H H0). assumption. }
    intros Hin. apply in_release in Hin. destruct (N.eq_dec c0 c) as [->|Ne].
    + rewrite dupd_eq in H. discriminate.
    + rewrite dupd_neq in H by exact Ne. destruct Hin as [Hl|Hf].
      * apply Ne. eapply C; eauto.
      * destruct (B _ _ _ H H0). contradiction.
  - intros c1 c2 f1 f2 h H1 H2 L1 L2.
    destruct (N.eq_dec c1 c) as [->|N1]; [rewrite dupd_eq in H1; discriminate|].
    destruct (N.eq_dec c2 c) as [->|N2]; [rewrite dupd_eq in H2; discriminate|].
    rewrite dupd_neq in H1 by exact N1. rewrite dupd_neq in H2 by exact N2. eapply C; eauto.
  - intros h Hin. apply in_release in Hin. destruct Hin as [Hl|Hf].
    + destruct (B _ _ _ E Hl). assumption.
    + apply D. exact Hf.
Qed.

Lemma dinv_step s o : dinv s -> dinv (fst (dstep true s o)).
Proof.
  intros I. destruct o as [c|c|c|c d|c|c|c|dst src]; simpl.
  - destruct (d_ctx s c) eqn:E; simpl; [exact I|]. apply dinv_create; assumption.
  - destruct (d_ctx s c) as [f|] eqn:E; simpl; [|exact I].
    apply (dinv_replace s c f); simpl; auto; try lia.
    + intros h H. inversion H. reflexivity.
    + intros h H. inversion H. lia.
  - destruct (d_ctx s c) as [f|] eqn:E; simpl; [|exact I].
    apply (dinv_replace s c f); simpl; auto; try lia.
    + intros h H. inversion H. reflexivity.
    + intros h H. inversion H. lia.
  - destruct (d_ctx s c) as [f|] eqn:E; simpl; [|exact I].
    apply (dinv_replace s c f); simpl; auto; try lia; intros h H; discriminate.
  - destruct (d_ctx s c) as [f|] eqn:E; simpl; [|exact I].
    apply (dinv_replace s c f); simpl; auto; try lia; intros h H; discriminate.
  - destruct (d_ctx s c) as [f|] eqn:E; simpl; [|exact I].
    destruct (d_uses f) eqn:U; simpl.
    + apply (dinv_replace s c f); simpl; auto; try lia; intros h H; discriminate.
    + apply (dinv_keep s c f); simpl; auto. destruct I as (A & _). intros h H. eapply A; eauto.
    + exact I.
  - destruct (d_ctx s c) as [f|] eqn:E; simpl; [|exact I]. apply dinv_free; assumption.
  - destruct (d_ctx s dst) as [fd|] eqn:Ed; simpl; [|exact I].
    destruct (d_ctx s src) as [fs|] eqn:Es; simpl; [|exact I].
    destruct (dst =? src) eqn:Q; simpl; [exact I|].
    apply (dinv_keep s dst fd); auto.
    + destruct (match d_cur fs with DLocal h => match d_local fs with Some l => h =? l | None => false end | _ => false end); reflexivity.
    + intros h. destruct I as (A & _).
      destruct (d_cur fs) as [|x|x] eqn:Cu; simpl; try discriminate.
      rewrite (A _ _ _ Es Cu). rewrite N.eqb_refl. simpl. discriminate.
Qed.

Lemma deref_safe s o : dinv s -> deref_ok (d_freed s) (snd (dstep true s o)) = true.
Proof.
  intros (A & B & C & D). destruct o as [c|c|c|c d|c|c|c|dst src]; simpl;
    try (destruct (d_ctx s c) as [f|] eqn:E; reflexivity).
  - destruct (d_ctx s c) as [f|] eqn:E; [|reflexivity].
    assert (G : deref_ok (d_freed s) (d_cur f) = true).
    { destruct (d_cur f) as [|h|x] eqn:Cu; simpl; auto.
      destruct (B _ _ _ E (A _ _ _ E Cu)) as (_ & NI).
      destruct (existsb (N.eqb h) (d_freed s)) eqn:X; [|reflexivity].
      apply existsb_exists in X. destruct X as (y & Hy & Q). apply N.eqb_eq in Q. subst. contradiction. }
    destruct (d_uses f); simpl; auto.
  - destruct (d_ctx s dst); [|reflexivity]. destruct (d_ctx s src); [|reflexivity]. destruct (dst =? src); reflexivity.
Qed.

(* For every history: no frame dereferences a released DDict. *)
Theorem dict_owner_safe : forall os, drun_ok true d_init os = true.
Proof.
  assert (G : forall os s, dinv s -> drun_ok true s os = true).
  { induction os as [|o t IH]; intros s I; simpl; [reflexivity|].
    pose proof (dinv_step s o I) as I1. pose proof (deref_safe s o I) as S.
    destruct (dstep true s o) as [s1 r]. simpl in *. rewrite S. simpl. apply IH. exact I1. }
  intros os. apply G. exact dinv_init.
Qed.

(* stronger, as an invariant of every reachable state: the current dictionary of a context is NULL, a DDict of the caller, or the
   context's own live DDict *)
Theorem dict_owner_current_is_own : forall os c f h,
  d_ctx (fold_left (fun s o => fst (dstep true s o)) os d_init) c = Some f -> d_cur f = DLocal h ->
  d_local f = Some h /\ ~ In h (d_freed (fold_left (fun s o => fst (dstep true s o)) os d_init)).
Proof.
  intros os.
  assert (G : forall s, dinv s -> dinv (fold_left (fun s o => fst (dstep true s o)) os s)).
  { induction os as [|o t IH]; intros s I; simpl; [exact I|]. apply IH. apply dinv_step. exact I. }
  intros c f h E Cu. destruct (G _ dinv_init) as (A & B & _).
  pose proof (A _ _ _ E Cu) as L. split; [exact L|]. destruct (B _ _ _ E L). assumption.
Qed.

(* The code as written (finding C03-copydctx-ddict-pointer-into-source): load a dictionary into context 1, copy it to context 2,
   free context 1 (or let it load another dictionary), decode a frame on context 2: the frame dereferences the released DDict 0.
   The repaired copy decodes without dictionary instead. *)
Theorem dict_owner_copy_refuted :
  drun_ok false d_init [DCreate 1; DCreate 2; DLoad 1; DCopy 2 1; DFree 1; DUse 2] = false /\
  drun_ok false d_init [DCreate 1; DCreate 2; DPrefix 1; DCopy 2 1; DLoad 1; DUse 2] = false /\
  snd (dstep false (fold_left (fun s o => fst (dstep false s o)) [DCreate 1; DCreate 2; DLoad 1; DCopy 2 1; DFree 1] d_init) (DUse 2)) = DLocal 0 /\
  snd (dstep true (fold_left (fun s o => fst (dstep true s o)) [DCreate 1; DCreate 2; DLoad 1; DCopy 2 1; DFree 1] d_init) (DUse 2)) = DNull.
Proof. repeat split. Qed.

(* the hypotheses are satisfiable / the safe histories are not vacuous: a caller-owned DDict IS inherited by the copy, an own dictionary
   is used by its owner after a copy went away *)
Example dict_owner_example :
  let os := [DCreate 1; DCreate 2; DRef 1 7; DCopy 2 1; DFree 1; DUse 2] in
  drun_ok false d_init os = true /\ drun_ok true d_init os = true /\
  snd (dstep true (fold_left (fun s o => fst (dstep true s o)) [DCreate 1; DCreate 2; DRef 1 7; DCopy 2 1; DFree 1] d_init) (DUse 2)) = DExt 7 /\
  snd (dstep true (fold_left (fun s o => fst (dstep true s o)) [DCreate 1; DCreate 2; DLoad 1; DCopy 2 1; DFree 2] d_init) (DUse 1)) = DLocal 0.
Proof. repeat split. Qed.
