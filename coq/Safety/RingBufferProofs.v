(* C03: the output ring buffer of the streaming decoder never lets a block overwrite history that a legal offset
   can still reach, and every block's working area lies inside the buffer - for every sequence of block sizes. *)
From Coq Require Import ZArith NArith Bool List Lia.
From ZV.Gen Require Import Gen_Tables.
From ZV.Safety Require Import RingBuffer.
Import ListNotations.
Local Open Scope Z_scope.

Lemma ring_consts : RWILDCOPY = 32 /\ RBLOCKSIZE_MAX = 131072.
Proof. split; reflexivity. Qed.

(* frame parameters as ZSTD_decompressStream establishes them: 0 < blockSizeMax <= min(windowSize, 128 KiB) *)
Definition params_ok (W fcs B : Z) : Prop := 0 < B /\ B <= W /\ B <= RBLOCKSIZE_MAX /\ 0 <= fcs.

Definition ring_inv (W fcs B : Z) (s : ring) : Prop :=
  let size := buf_size W fcs B in
  0 <= r_start s /\ r_start s <= size /\ r_start s <= r_total s /\
  (size < fcs -> r_start s + B <= size) /\
  match r_old s with
  | None => r_start s = r_total s
  | Some e => W + B + 2 * RWILDCOPY < e /\ e <= size /\ e <= r_total s - r_start s
  end.

Lemma buf_size_eq W fcs B : params_ok W fcs B -> buf_size W fcs B < fcs -> buf_size W fcs B = W + 2 * B + 2 * RWILDCOPY.
Proof. intros (A & B1 & C & D). unfold buf_size, needed_rb, block_size. lia. Qed.

Lemma ring0_inv W fcs B : params_ok W fcs B -> ring_inv W fcs B ring0.
Proof.
  intros P. pose proof (buf_size_eq W fcs B P). destruct P as (A & B1 & C & D). destruct ring_consts as [RW RB].
  unfold ring_inv, ring0; cbn [r_start r_old r_total].
  assert (0 <= buf_size W fcs B) by (unfold buf_size, needed_rb, block_size; lia).
  repeat split; lia.
Qed.

Lemma ring_step_inv W fcs B s r s' : params_ok W fcs B -> 0 <= r ->
  ring_inv W fcs B s -> ring_step (buf_size W fcs B) fcs B s r = Some s' -> ring_inv W fcs B s'.
Proof.
  intros P R I H. pose proof (buf_size_eq W fcs B P) as SZ. destruct P as (A & B1 & C & D). destruct ring_consts as [RW RB].
  unfold ring_inv in *. cbv zeta in *. set (size := buf_size W fcs B) in *.
  destruct I as (I1 & I2 & I3 & I4 & I5). unfold ring_step in H.
  destruct (Z.ltb_spec (size - r_start s) r); [discriminate|].
  destruct (Z.ltb_spec B r); [discriminate|].
  destruct (Z.eqb_spec r 0); [inversion H; subst; repeat split; auto|].
  destruct (Z.ltb_spec size fcs); cbn [andb] in H.
  - destruct (Z.ltb_spec size (r_start s + r + B)); inversion H; subst; cbn [r_start r_old r_total].
    + repeat split; try lia.
    + repeat split; try lia. destruct (r_old s); lia.
  - inversion H; subst; cbn [r_start r_old r_total]. repeat split; try lia. destruct (r_old s); lia.
Qed.

Lemma ring_run_inv W fcs B : forall rs s s', params_ok W fcs B -> Forall (fun r => 0 <= r) rs ->
  ring_inv W fcs B s -> ring_run (buf_size W fcs B) fcs B s rs = Some s' -> ring_inv W fcs B s'.
Proof.
  induction rs as [|r rs IH]; intros s s' P F I H; cbn [ring_run] in H; [inversion H; subst; exact I|].
  inversion F; subst. destruct (ring_step (buf_size W fcs B) fcs B s r) eqn:E; [|discriminate].
  apply (IH r0 s' P H3); [|exact H]. exact (ring_step_inv W fcs B s r r0 P H2 I E).
Qed.

(* The safety statement.  After any history of blocks, when the next block (regenerating r bytes) is accepted:
   (a) its output lies inside the buffer, and while the buffer is a ring (size < content size) the whole working area
       of a block - blockSizeMax bytes, which also hosts the split literal buffer - lies inside the buffer;
   (b) every byte a legal offset can reach (distance d <= min(windowSize, bytes produced)) is still in the buffer and
       outside that working area: either below the block (current segment) or in the tail of the previous segment,
       which ends at e and lies entirely above the working area. *)
Theorem ring_safe : forall W fcs B rs s r s',
  params_ok W fcs B -> Forall (fun r => 0 <= r) rs -> 0 <= r ->
  ring_run (buf_size W fcs B) fcs B ring0 rs = Some s ->
  ring_step (buf_size W fcs B) fcs B s r = Some s' ->
  let size := buf_size W fcs B in
  (0 <= r_start s /\ r_start s + r <= size /\ r <= B /\ (size < fcs -> r_start s + B <= size)) /\
  (forall d, 1 <= d -> d <= Z.min W (r_total s) ->
     d <= r_start s \/
     exists e, r_old s = Some e /\ e <= size /\ r_start s + Z.min B (size - r_start s) <= e - (d - r_start s) /\ 0 < d - r_start s).
Proof.
  intros W fcs B rs s r s' P F R RUN ST. pose proof (ring_run_inv W fcs B rs ring0 s P F (ring0_inv W fcs B P) RUN) as I.
  destruct P as (A & B1 & C & D). destruct ring_consts as [RW RB].
  unfold ring_inv in I. cbv zeta in *. set (size := buf_size W fcs B) in *.
  destruct I as (I1 & I2 & I3 & I4 & I5). unfold ring_step in ST.
  destruct (Z.ltb_spec (size - r_start s) r); [discriminate|].
  destruct (Z.ltb_spec B r); [discriminate|].
  split; [repeat split; lia|].
  intros d D1 D2. destruct (Z.le_gt_cases d (r_start s)); [left; assumption|right].
  destruct (r_old s) as [e|]; [|lia].
  exists e. repeat split; lia.
Qed.

(* necessity of the second blockSize in the buffer size: with windowSize + blockSize + 2*WILDCOPY bytes only, the restart
   rule as written would restart at a position below windowSize + blockSize and the next block's working area would
   overlap history still reachable (numbers: W = B = 1024, blocks of 1000 and 1000 bytes: restart with the previous segment ending at 2000,
   the next block's working area [0, 1024) overlaps the last 1024 bytes [976, 2000)) *)
Example ring_needs_two_blocks :
  let W := 1024 in let B := 1024 in let small := W + B + 2 * RWILDCOPY in
  exists s, ring_run small (2^64 - 1) B ring0 [1000; 1000] = Some s /\ r_start s = 0 /\
            r_old s = Some 2000 /\ ~ (r_start s + B <= 2000 - (W - r_start s)).
Proof. cbv zeta. eexists. split; [reflexivity|]. cbn. repeat split. lia. Qed.

Example ring_example :   (* hypotheses are satisfiable, and the ring really restarts *)
  exists s, ring_run (buf_size 1024 (2^64 - 1) 1024) (2^64 - 1) 1024 ring0 [1024; 1024; 100; 1024; 1024] = Some s /\ r_old s = Some 2148 /\ r_start s = 2048.
Proof. eexists. split; [reflexivity|]. split; reflexivity. Qed.
