(* Proofs about SkipSize.v (round 3) *)
From Coq Require Import NArith Bool Lia.
From ZV.Safety Require Import SkipSize.
Local Open Scope N_scope.
Local Opaque N.add N.sub N.modulo.

Lemma wrap_small W x : x < 2 ^ W -> wrapW W x = x.
Proof. intros H. unfold wrapW. apply N.mod_small. exact H. Qed.

Lemma pow_mono W : 32 <= W -> 2 ^ 32 <= 2 ^ W.
Proof. intros H. apply N.pow_le_mono_r; lia. Qed.

(* for every width of size_t from 32 bits up, every 32-bit size field and every input length: an accepted skippable frame is exactly
   header + field, never shorter than its header, never longer than the input - so the frame loops that advance by it make progress and stay inside *)
Theorem skip_size_exact : forall W u n s, 32 <= W -> u < 2 ^ 32 ->
  skip_size W true u n = SOk s -> s = SKIPHDR + u /\ SKIPHDR <= s <= n.
Proof.
  intros W u n s HW Hu. pose proof (pow_mono W HW) as P. unfold skip_size, SKIPHDR, wrapW.
  change (2 ^ 32) with 4294967296 in *.
  destruct (n <? 8) eqn:A; [discriminate|]. simpl andb.
  destruct ((u + 8) mod 4294967296 <? u) eqn:B; [discriminate|].
  apply N.ltb_ge in B.
  assert (NW : u + 8 < 4294967296).
  { destruct (N.lt_ge_cases (u + 8) 4294967296) as [L|G]; [exact L|exfalso].
    assert (E : (u + 8) mod 4294967296 = u + 8 - 4294967296).
    { rewrite <- (N.mod_small (u + 8 - 4294967296) 4294967296) by lia.
      replace (u + 8) with (u + 8 - 4294967296 + 1 * 4294967296) at 1 by lia. rewrite N.mod_add by lia. reflexivity. }
    rewrite E in B. lia. }
  rewrite (N.mod_small (8 + u) (2 ^ W)) by lia.
  destruct (n <? 8 + u) eqn:C; [discriminate|]. apply N.ltb_ge in C.
  intros [= <-]. clear P. split; [reflexivity|]. split; [lia|exact C].
Qed.

(* on a 32-bit size_t without the wrap test: the size field 0xFFFFFFF8 gives a frame of 0 bytes, which every input of 8 bytes or more "contains":
   ZSTD_decompressMultiFrame / ZSTD_findDecompressedSize / ZSTD_decompressBound advance by 0 and never return; 0xFFFFFFFF gives 7 bytes *)
Theorem skip_size_wrap_refuted :
  skip_size 32 false (2 ^ 32 - 8) 100 = SOk 0 /\ skip_size 32 false (2 ^ 32 - 1) 100 = SOk 7 /\
  skip_size 32 true (2 ^ 32 - 8) 100 = SErr /\ skip_size 32 true (2 ^ 32 - 1) 100 = SErr.
Proof. vm_compute. repeat split. Qed.

(* on a 64-bit size_t the following length test alone refuses the same fields for every input below 4 GiB: the two variants agree there
   (why the mutant that drops the wrap test is silent in this check's builds) *)
Theorem skip_size_check_redundant_64 : forall u n, u < 2 ^ 32 -> n < 2 ^ 32 -> skip_size 64 false u n = skip_size 64 true u n.
Proof.
  intros u n Hu Hn. unfold skip_size, SKIPHDR, wrapW.
  change (2 ^ 32) with 4294967296 in *. change (2 ^ 64) with 18446744073709551616.
  destruct (n <? 8) eqn:A; [reflexivity|]. simpl andb.
  destruct ((u + 8) mod 4294967296 <? u) eqn:B; [|reflexivity].
  assert (G : 4294967296 <= u + 8).
  { destruct (N.lt_ge_cases (u + 8) 4294967296) as [L|G]; [|exact G]. rewrite N.mod_small in B by exact L. apply N.ltb_lt in B. lia. }
  rewrite (N.mod_small (8 + u) 18446744073709551616) by lia.
  destruct (n <? 8 + u) eqn:C; [reflexivity|]. apply N.ltb_ge in C. lia.
Qed.

(* ZSTD_readSkippableFrame: what it copies lies inside the input behind the header and inside the destination *)
Theorem read_skip_inside : forall W u n cap c, 32 <= W -> u < 2 ^ 32 -> n < 2 ^ W ->
  read_skip W true u n cap = SOk c -> c = u /\ c <= cap /\ SKIPHDR + c <= n.
Proof.
  intros W u n cap c HW Hu Hn. unfold read_skip. destruct (n <? SKIPHDR) eqn:A; [discriminate|].
  destruct (skip_size W true u n) as [|s] eqn:S; [discriminate|].
  destruct (skip_size_exact W u n s HW Hu S) as (E & L1 & L2).
  destruct ((s <? SKIPHDR) || (n <? s)); [discriminate|].
  pose proof (pow_mono W HW) as P. change (2 ^ 32) with 4294967296 in *.
  assert (Q : wrapW W (s + 2 ^ W - SKIPHDR) = u).
  { unfold wrapW, SKIPHDR in *. replace (s + 2 ^ W - 8) with (u + 1 * 2 ^ W) by lia. rewrite N.mod_add by lia. apply N.mod_small. lia. }
  rewrite Q. destruct (cap <? u) eqn:C; [discriminate|]. apply N.ltb_ge in C.
  intros [= <-]. unfold SKIPHDR in *. clear P Q. lia.
Qed.

Example skip_examples :
  skip_size 64 true 5 13 = SOk 13 /\ skip_size 64 true 5 12 = SErr /\ skip_size 64 true 0 8 = SOk 8 /\ read_skip 64 true 5 13 5 = SOk 5 /\
  read_skip 64 true 5 13 4 = SErr /\ skip_size 64 true (2 ^ 32 - 8) 100 = SErr /\ skip_size 64 false (2 ^ 32 - 8) 100 = SErr.
Proof. vm_compute. repeat split. Qed.
