(* Model of the multi-DDict hash set of lib/decompress/zstd_decompress.c
   (ZSTD_DDictHashSet_getIndex / _emplaceDDict / _expand / _getDDict / _addDDict, ZSTD_createDDictHashSet).
   A DDict is abstracted to the pair (dictID, handle); the table is a list of optional entries, every read of
   the table goes through [tget] and reports [POob idx] when the index is outside the table - so an
   out-of-bounds read of the C code is a visible result of the model.
   The hash is a parameter [h : N -> N] (the theorems hold for every hash); [xxh_hash] is the one of the code.
   The probing step is a parameter too: [next_fixed] is the code after fix 504f7c2, [next_prefix] the code before.
   Model only - no proofs in this file. *)
From Coq Require Import NArith List Bool.
From ZV.Codec Require Import Bytes XXH64.
From ZV.Gen Require Import Gen_C03.
Import ListNotations.
Local Open Scope N_scope.

Notation entry := (N * N)%type (only parsing).                 (* dictID, handle (which ZSTD_DDict* it is) *)

(* bounds-checked table access (local copies: this model does not depend on the codec's list helpers) *)
Fixpoint tget {A} (l : list A) (i : nat) : option A :=
  match l, i with
  | [], _ => None
  | x :: _, O => Some x
  | _ :: t, S i' => tget t i'
  end.
Fixpoint tset {A} (l : list A) (i : nat) (v : A) : list A :=
  match l, i with
  | [], _ => []
  | _ :: t, O => v :: t
  | x :: t, S i' => x :: tset t i' v
  end.
Record hset := { hs_tab : list (option entry); hs_size : N; hs_count : N }.

(* XXH64(&dictID, sizeof(U32), 0) on a little-endian machine *)
Definition le4 (x : N) : bytes :=
  [N.land x 255; N.land (N.shiftr x 8) 255; N.land (N.shiftr x 16) 255; N.land (N.shiftr x 24) 255].
Definition xxh_hash (id : N) : N := xxh64 (le4 id) 0.

(* ZSTD_DDictHashSet_getIndex: hash & (size - 1) *)
Definition get_index (h : N -> N) (size id : N) : N := N.land (h id) (size - 1).

(* idx = (idx + 1) & idxRangeMask            (current code) *)
Definition next_fixed (mask idx : N) : N := N.land (idx + 1) mask.
(* idx &= idxRangeMask; idx++                (before fix 504f7c2) *)
Definition next_prefix (mask idx : N) : N := N.land idx mask + 1.

Inductive probe_res := PFound (idx : N) | PEmpty (idx : N) | POob (idx : N) | PFuel.

(* the probing loop of ZSTD_DDictHashSet_emplaceDDict: stops at the first slot that is NULL or holds [id] *)
Fixpoint probe (next : N -> N) (fuel : nat) (tab : list (option entry)) (id idx : N) : probe_res :=
  match fuel with
  | O => PFuel
  | S f => match tget tab (N.to_nat idx) with
           | None => POob idx
           | Some None => PEmpty idx
           | Some (Some (i, _)) => if i =? id then PFound idx else probe next f tab id (next idx)
           end
  end.

Inductive hres (A : Type) := HOk (a : A) | HFull | HOobRead (idx : N) | HNoTerm.
Arguments HOk {A} a. Arguments HFull {A}. Arguments HOobRead {A} idx. Arguments HNoTerm {A}.

(* ZSTD_DDictHashSet_emplaceDDict *)
Definition emplace (h : N -> N) (next : N -> N -> N) (s : hset) (e : entry) : hres hset :=
  let id := fst e in
  let mask := hs_size s - 1 in
  if hs_count s =? hs_size s then HFull
  else match probe (next mask) (N.to_nat (hs_size s)) (hs_tab s) id (get_index h (hs_size s) id) with
       | PFound i => HOk {| hs_tab := tset (hs_tab s) (N.to_nat i) (Some e); hs_size := hs_size s; hs_count := hs_count s |}
       | PEmpty i => HOk {| hs_tab := tset (hs_tab s) (N.to_nat i) (Some e); hs_size := hs_size s; hs_count := hs_count s + 1 |}
       | POob i => HOobRead i
       | PFuel => HNoTerm
       end.

Definition empty_set (size : N) : hset :=
  {| hs_tab := repeat None (N.to_nat size); hs_size := size; hs_count := 0 |}.

Fixpoint emplace_all (h : N -> N) (next : N -> N -> N) (l : list (option entry)) (s : hset) : hres hset :=
  match l with
  | [] => HOk s
  | None :: t => emplace_all h next t s
  | Some e :: t => match emplace h next s e with
                   | HOk s' => emplace_all h next t s'
                   | r => r
                   end
  end.

(* ZSTD_DDictHashSet_expand: new table of RESIZE_FACTOR times the size, every old entry re-inserted in slot order *)
Definition expand (h : N -> N) (next : N -> N -> N) (s : hset) : hres hset :=
  emplace_all h next (hs_tab s) (empty_set (hs_size s * HASHSET_RESIZE_FACTOR)).

(* the load-factor test of ZSTD_DDictHashSet_addDDict, as written:
   count * COUNT_MULT / size * SIZE_MULT != 0 *)
Definition over_load (s : hset) : bool :=
  negb (hs_count s * HASHSET_COUNT_MULT / hs_size s * HASHSET_SIZE_MULT =? 0).

(* ZSTD_DDictHashSet_addDDict *)
Definition add_ddict (h : N -> N) (next : N -> N -> N) (s : hset) (e : entry) : hres hset :=
  if over_load s
  then match expand h next s with
       | HOk s' => emplace h next s' e
       | r => r
       end
  else emplace h next s e.

(* the probing loop of ZSTD_DDictHashSet_getDDict BEFORE fix d50580e: it stopped on "currDictID == dictID || currDictID == 0".
   ZSTD_getDictID_fromDDict(NULL) is 0, so an empty slot stopped it - and so did a stored DDict whose own
   dictID is 0 (a raw-content dictionary), whatever dictID was searched.  Kept for the example that shows the difference. *)
Fixpoint probe_get (next : N -> N) (fuel : nat) (tab : list (option entry)) (id idx : N) : probe_res :=
  match fuel with
  | O => PFuel
  | S f => match tget tab (N.to_nat idx) with
           | None => POob idx
           | Some None => PEmpty idx
           | Some (Some (i, _)) => if orb (i =? id) (i =? 0) then PFound idx else probe_get next f tab id (next idx)
           end
  end.

Definition get_old (h : N -> N) (next : N -> N -> N) (s : hset) (id : N) : hres (option entry) :=
  match probe_get (next (hs_size s - 1)) (N.to_nat (hs_size s)) (hs_tab s) id (get_index h (hs_size s) id) with
  | PFound i => HOk (match tget (hs_tab s) (N.to_nat i) with Some e => e | None => None end)
  | PEmpty _ => HOk None
  | POob i => HOobRead i
  | PFuel => HNoTerm
  end.

(* ZSTD_DDictHashSet_getDDict as written now (fix d50580e): "if (dictID == 0) return NULL;", then the same probing loop as
   the insertion ("curr == NULL || dictID(curr) == dictID" stops it); returns the entry of the slot where the loop stopped *)
Definition get (h : N -> N) (next : N -> N -> N) (s : hset) (id : N) : hres (option entry) :=
  if id =? 0 then HOk None else
  match probe (next (hs_size s - 1)) (N.to_nat (hs_size s)) (hs_tab s) id (get_index h (hs_size s) id) with
  | PFound i => HOk (match tget (hs_tab s) (N.to_nat i) with Some e => e | None => None end)
  | PEmpty _ => HOk None
  | POob i => HOobRead i
  | PFuel => HNoTerm
  end.

(* ZSTD_createDDictHashSet *)
Definition create : hset := empty_set HASHSET_BASE_SIZE.

Fixpoint add_all (h : N -> N) (next : N -> N -> N) (l : list entry) (s : hset) : hres hset :=
  match l with
  | [] => HOk s
  | e :: t => match add_ddict h next s e with
              | HOk s' => add_all h next t s'
              | r => r
              end
  end.

(* the specification: a finite map dictID -> entry, last insertion wins *)
Fixpoint spec_get (l : list entry) (id : N) (acc : option entry) : option entry :=
  match l with
  | [] => acc
  | e :: t => spec_get t id (if fst e =? id then Some e else acc)
  end.
