(* Proofs about LegacyWalk.v (round 3): on EVERY byte string the legacy frame walkers terminate through their own exits, report a
   compressed size inside the input, and their bound covers whatever the decoders regenerate block by block - given the per-block
   limits the decoders enforce since 39f3df0; without the limit on compressed blocks the bound is refuted by a 22-byte frame. *)
From Coq Require Import NArith List Bool Lia.
From ZV.Safety Require Import LegacyWalk.
Import ListNotations.
Local Open Scope N_scope.

Lemma len_cons a l : len (a :: l) = len l + 1.
Proof. unfold len. simpl length. lia. Qed.

Lemma len_skipn cb tl : cb <= len tl -> len (skipn (N.to_nat cb) tl) = len tl - cb.
Proof. unfold len. intros H. rewrite skipn_length. lia. Qed.

Lemma length_skipn_le {A} n (l : list A) : (length (skipn n l) <= length l)%nat.
Proof. rewrite skipn_length. lia. Qed.

(* 1. the fuel never decides *)
Lemma walk_blocks_no_fuel v : forall fuel rest consumed bound acc,
  (length rest < fuel)%nat -> walk_blocks v fuel rest consumed bound acc <> WErr WFuel.
Proof.
  induction fuel as [|f IH]; intros rest consumed bound acc H; [lia|].
  simpl. destruct rest as [|a [|b [|c tl]]]; try discriminate.
  assert (G : forall cb x y z, walk_blocks v f (skipn (N.to_nat cb) tl) x y z <> WErr WFuel).
  { intros. apply IH. pose proof (length_skipn_le (N.to_nat cb) tl). simpl in H. lia. }
  destruct v.
  - destruct (len tl <? _); [discriminate|]. destruct (_ =? 0); [discriminate|]. apply G.
  - destruct (len tl <? _); [discriminate|]. destruct (_ =? 0); [discriminate|]. apply G.
  - destruct (_ =? 3); [discriminate|]. destruct (len tl <? _); [discriminate|]. apply G.
Qed.

Theorem walk_no_fuel_error : forall v src, walk v src <> WErr WFuel.
Proof.
  intros v src. unfold walk.
  destruct (len src <? _); [discriminate|]. destruct (negb _); [discriminate|].
  destruct (match v with V5 => false | _ => _ end); [discriminate|].
  apply walk_blocks_no_fuel. pose proof (length_skipn_le (N.to_nat (hdr_size v src)) src). lia.
Qed.

(* 2. the compressed size lies inside the input *)
Lemma walk_blocks_csize v : forall fuel rest consumed bound acc total cs bd bl,
  consumed + len rest = total -> walk_blocks v fuel rest consumed bound acc = WOk cs bd bl -> consumed + 3 <= cs <= total.
Proof.
  induction fuel as [|f IH]; intros rest consumed bound acc total cs bd bl E H; [discriminate|].
  cbn [walk_blocks] in H. destruct rest as [|a [|b [|c tl]]]; try discriminate.
  rewrite !len_cons in E.
  set (ty := a / 64) in *. set (sz := c + 256 * b + 65536 * (a mod 8)) in *. set (cb := cblock ty sz) in *.
  assert (G : len tl <? cb = false -> forall y z, walk_blocks v f (skipn (N.to_nat cb) tl) (consumed + 3 + cb) y z = WOk cs bd bl -> consumed + 3 <= cs <= total).
  { intros L y z W. apply N.ltb_ge in L. apply (IH _ _ _ _ total) in W; [lia|]. rewrite len_skipn by exact L. lia. }
  destruct v.
  - destruct (len tl <? cb) eqn:L; [discriminate|]. destruct (cb =? 0); [inversion H; subst; lia|]. eapply G; eauto.
  - destruct (len tl <? cb) eqn:L; [discriminate|]. destruct (cb =? 0); [inversion H; subst; lia|]. eapply G; eauto.
  - destruct (ty =? 3); [inversion H; subst; lia|]. destruct (len tl <? cb) eqn:L; [discriminate|]. eapply G; eauto.
Qed.

Theorem walk_csize_inside : forall v src cs bd bl, walk v src = WOk cs bd bl -> 8 <= cs <= len src.
Proof.
  intros v src cs bd bl. unfold walk.
  destruct (len src <? _) eqn:L0; [discriminate|]. destruct (negb _); [discriminate|].
  destruct (match v with V5 => false | _ => _ end) eqn:L1; [discriminate|].
  intros W. apply N.ltb_ge in L0.
  assert (Hh : 5 <= hdr_size v src).
  { unfold hdr_size. destruct v; lia. }
  assert (Hl : hdr_size v src <= len src).
  { destruct v; [unfold hdr_size; lia| |]; apply N.ltb_ge in L1; lia. }
  apply (walk_blocks_csize _ _ _ _ _ _ (len src)) in W; [lia|].
  rewrite len_skipn by exact Hl. lia.
Qed.

(* 3. the bound is the sum of what is counted for the blocks walked *)
Lemma sumN_app l1 l2 : sumN (l1 ++ l2) = sumN l1 + sumN l2.
Proof. induction l1; simpl; lia. Qed.

Lemma sumN_map_rev {A} (f : A -> N) l : sumN (map f (rev l)) = sumN (map f l).
Proof. induction l; simpl; [reflexivity|]. rewrite map_app, sumN_app. simpl. lia. Qed.

Lemma walk_blocks_bound v : forall fuel rest consumed bound acc cs bd bl,
  bound = sumN (map (counted v) acc) -> walk_blocks v fuel rest consumed bound acc = WOk cs bd bl -> bd = sumN (map (counted v) bl).
Proof.
  induction fuel as [|f IH]; intros rest consumed bound acc cs bd bl E H; [discriminate|].
  cbn [walk_blocks] in H. destruct rest as [|a [|b [|c tl]]]; try discriminate.
  set (ty := a / 64) in *. set (sz := c + 256 * b + 65536 * (a mod 8)) in *. set (cb := cblock ty sz) in *.
  assert (G : forall x, walk_blocks v f (skipn (N.to_nat cb) tl) x (bound + counted v (ty, cb, sz)) ((ty, cb, sz) :: acc) = WOk cs bd bl ->
                        bd = sumN (map (counted v) bl)).
  { intros x W. eapply IH; [|exact W]. simpl. lia. }
  assert (Z : WOk (consumed + 3) bound (rev acc) = WOk cs bd bl -> bd = sumN (map (counted v) bl)).
  { intros Q. inversion Q; subst. rewrite sumN_map_rev. reflexivity. }
  destruct v.
  - destruct (len tl <? cb); [discriminate|]. destruct (cb =? 0); [auto|]. eapply G; eauto.
  - destruct (len tl <? cb); [discriminate|]. destruct (cb =? 0); [auto|]. eapply G; eauto.
  - destruct (ty =? 3); [auto|]. destruct (len tl <? cb); [discriminate|]. eapply G; eauto.
Qed.

Lemma allowed_le_counted v b r : allowed true v b r -> r <= counted v b.
Proof.
  destruct b as [[ty cb] sz]. unfold allowed, counted.
  destruct (ty =? 1) eqn:T1.
  - intros ->. destruct (LBLOCK <? cb) eqn:Q; [lia|apply N.ltb_ge in Q; exact Q].
  - destruct (ty =? 2) eqn:T2.
    + destruct v; try contradiction. intros ->. simpl. destruct (LBLOCK <? sz) eqn:Q; [lia|apply N.ltb_ge in Q; exact Q].
    + destruct (ty =? 0); [|contradiction]. intros H. cbv in H. cbv. exact H.
Qed.

(* For every byte string accepted by the walker and every assignment of regenerated sizes that the decoders allow block by block,
   the content regenerated is within the bound. *)
Theorem walk_bound_sound : forall v src cs bd bl rs,
  walk v src = WOk cs bd bl -> Forall2 (allowed true v) bl rs -> sumN rs <= bd.
Proof.
  intros v src cs bd bl rs W F.
  assert (B : bd = sumN (map (counted v) bl)).
  { unfold walk in W. destruct (len src <? _); [discriminate|]. destruct (negb _); [discriminate|].
    destruct (match v with V5 => false | _ => _ end); [discriminate|].
    eapply walk_blocks_bound; [|exact W]. reflexivity. }
  subst bd. clear W. induction F as [|b r bl rs A F IH]; simpl; [lia|].
  apply allowed_le_counted in A. lia.
Qed.

(* Without the limit on compressed blocks (the decoders before 39f3df0): the 22-byte v0.7 frame of finding
   C06-legacy-compressed-block-exceeds-bound is walked as one compressed block of 10 bytes, bound 131072, and the decoder regenerated
   131075 bytes from it.  With the limit that assignment is not allowed. *)
Definition bigmatch_v07 : list N :=
  [39; 181; 47; 253; 0; 0;  0; 0; 10;  193; 65; 1; 84; 1; 2; 52; 255; 255; 4;  192; 0; 0].

Theorem walk_bound_needs_block_limit :
  walk V7 bigmatch_v07 = WOk 22 131072 [(0, 10, 10)] /\
  Forall2 (allowed false V7) [(0, 10, 10)] [131075] /\ 131072 < sumN [131075] /\
  ~ Forall2 (allowed true V7) [(0, 10, 10)] [131075].
Proof.
  split; [vm_compute; reflexivity|]. split; [repeat constructor|]. split; [vm_compute; reflexivity|].
  intros F. inversion F; subst. unfold allowed in H2. simpl in H2. unfold LBLOCK in H2. lia.
Qed.

(* a raw block above 128 KiB is counted for its own size (f23db1d); counted for 128 KiB it would be below what the decoder copies *)
Theorem walk_counts_oversized_raw : counted V5 (1, 200000, 200000) = 200000 /\ counted V7 (2, 1, 524287) = 524287 /\ counted V6 (2, 1, 524287) = LBLOCK.
Proof. vm_compute. repeat split. Qed.

(* not vacuous: a v0.5 frame with an empty-size end, a v0.6 frame with a 1-byte content-size field, the v0.7 frame of two raw blocks *)
Example walk_examples :
  walk V5 [37; 181; 47; 253; 0;  64; 0; 3; 97; 98; 99;  192; 0; 0] = WOk 14 131072 [(1, 3, 3)] /\
  walk V6 [38; 181; 47; 253; 64; 3;  64; 0; 3; 97; 98; 99;  192; 0; 0] = WOk 15 131072 [(1, 3, 3)] /\
  walk V7 [39; 181; 47; 253; 0; 0;  64; 0; 0;  64; 0; 3; 97; 98; 99;  192; 0; 0] = WOk 18 262144 [(1, 0, 0); (1, 3, 3)] /\
  walk V6 [38; 181; 47; 253; 0;  64; 0; 0;  64; 0; 3; 97; 98; 99;  192; 0; 0] = WOk 8 0 [] /\
  walk V7 [39; 181; 47; 253; 0; 0;  64; 0; 9; 97] = WErr WSrcSize /\
  walk V7 [40; 181; 47; 253; 0; 0;  192; 0; 0] = WErr WPrefix.
Proof. vm_compute. repeat split. Qed.
