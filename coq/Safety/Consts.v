(* T-tie for C03: the limits R checks stream-derived quantities against are the limits compiled into the
   current /repo sources (coq/Gen is rewritten from the headers on every run). *)
From Coq Require Import NArith List.
From ZV.Codec Require Import Bytes Fse Huf Block Frame.
From ZV.Gen Require Import Gen_Tables Gen_C03.
From ZV.Safety Require Import NoProgress.
Local Open Scope N_scope.

Lemma gen_consts_match_model :
  c_ZSTD_BLOCKSIZE_MAX = BLOCK_MAX /\ c_ZSTD_WINDOWLOG_MAX = 31 /\ c_ZSTD_WINDOWLOG_ABSOLUTEMIN = 10 /\
  c_MaxLL = MaxLL /\ c_MaxML = MaxML /\ c_MaxOff = MaxOff /\
  c_LLFSELog = LLFSELog /\ c_MLFSELog = MLFSELog /\ c_OffFSELog = OffFSELog /\
  c_FSE_MIN_TABLELOG = 5 /\ c_HUF_SYMBOLVALUE_MAX = 255 /\ c_LONGNBSEQ = 32512 /\
  c_MIN_LITERALS_FOR_4_STREAMS = 6 /\ c_MIN_CBLOCK_SIZE = 2 /\
  c_ZSTD_MAGICNUMBER = MAGIC /\ c_ZSTD_MAGIC_DICTIONARY = MAGIC_DICT /\ c_ZSTD_MAGIC_SKIPPABLE_START = MAGIC_SKIP /\
  c_ZSTD_SKIPPABLEHEADERSIZE = 8 /\ SKIPPABLEHEADERSIZE = 8 /\ c_ZSTD_blockHeaderSize = 3.
Proof. repeat split; reflexivity. Qed.

(* the constants of the two small models *)
Lemma gen_consts_hashset_watchdog :
  HASHSET_BASE_SIZE = 64 /\ HASHSET_RESIZE_FACTOR = 2 /\ HASHSET_COUNT_MULT = 4 /\ HASHSET_SIZE_MULT = 3 /\
  1 <= MAXNP /\ MAXNP = NO_FORWARD_PROGRESS_MAX.
Proof. repeat split; try reflexivity. unfold MAXNP, NO_FORWARD_PROGRESS_MAX. discriminate. Qed.
