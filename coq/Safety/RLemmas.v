(* Facts about the list helpers of the reference decoder R (coq/Codec/Bytes.v), used by RTotal.v / ROutput.v. *)
From Coq Require Import NArith ZArith List Bool Lia Arith.
From ZV.Codec Require Import Bytes.
Import ListNotations.
Local Open Scope N_scope.

Lemma rev'_rev {A} (l : list A) : rev' l = rev l.
Proof. unfold rev'. rewrite rev_append_rev. apply app_nil_r. Qed.

Lemma rev'_length {A} (l : list A) : length (rev' l) = length l.
Proof. rewrite rev'_rev. apply rev_length. Qed.

Lemma rev_append_length {A} (a b : list A) : length (rev_append a b) = (length a + length b)%nat.
Proof. rewrite rev_append_rev, app_length, rev_length. reflexivity. Qed.

Lemma app_tr_app {A} (a b : list A) : app_tr a b = a ++ b.
Proof. unfold app_tr. rewrite rev_append_rev, rev'_rev, rev_involutive. reflexivity. Qed.

Lemma app_tr_length {A} (a b : list A) : length (app_tr a b) = (length a + length b)%nat.
Proof. rewrite app_tr_app. apply app_length. Qed.

Lemma lenN_acc_spec {A} (l : list A) acc : lenN_acc l acc = acc + N.of_nat (length l).
Proof. revert acc; induction l; simpl; intros; [lia|]. rewrite IHl. lia. Qed.

Lemma lenN_spec {A} (l : list A) : lenN l = N.of_nat (length l).
Proof. unfold lenN. rewrite lenN_acc_spec. lia. Qed.

(* ---- nat-indexed split ---- *)
Lemma splitn_acc_spec {A} k : forall (l acc a b : list A),
  splitn_acc k l acc = Some (a, b) -> exists a', a = rev acc ++ a' /\ l = a' ++ b /\ length a' = k.
Proof.
  induction k; simpl; intros l acc a b H.
  - inversion H; subst. exists []. rewrite rev'_rev, app_nil_r. auto.
  - destruct l as [|x t]; try discriminate.
    apply IHk in H. destruct H as (a' & E1 & E2 & E3). exists (x :: a'). simpl in *.
    rewrite <- app_assoc in E1. simpl in E1. subst. auto.
Qed.

Lemma splitn_spec {A} k (l a b : list A) : splitn k l = Some (a, b) -> l = a ++ b /\ length a = k.
Proof.
  unfold splitn. intros H. apply splitn_acc_spec in H. destruct H as (a' & E1 & E2 & E3). simpl in E1. subst. auto.
Qed.

Lemma read_le_spec k l v r : read_le k l = Some (v, r) -> exists a, l = a ++ r /\ length a = k.
Proof.
  unfold read_le. destruct (splitn k l) as [[a b]|] eqn:E; try discriminate.
  intros H; inversion H; subst. apply splitn_spec in E. destruct E. eauto.
Qed.

Lemma read_le_length k l v r : read_le k l = Some (v, r) -> length l = (k + length r)%nat.
Proof. intros H. apply read_le_spec in H. destruct H as (a & E & L). subst. rewrite app_length. lia. Qed.

(* ---- N-indexed helpers ---- *)
Lemma splitN_acc_spec {A} : forall (l : list A) k acc a b,
  splitN_acc l k acc = Some (a, b) -> exists a', a = rev acc ++ a' /\ l = a' ++ b /\ N.of_nat (length a') = k.
Proof.
  induction l as [|x t IH]; intros k acc a b H; simpl in H.
  - destruct (N.eqb_spec k 0); try discriminate. inversion H; subst.
    exists []. rewrite rev'_rev, app_nil_r. auto.
  - destruct (N.eqb_spec k 0).
    + inversion H; subst. exists []. rewrite rev'_rev, app_nil_r. auto.
    + apply IH in H. destruct H as (a' & E1 & E2 & E3). exists (x :: a'). simpl in *.
      rewrite <- app_assoc in E1. simpl in E1. subst. repeat split; auto. lia.
Qed.

Lemma splitN_spec {A} k (l a b : list A) : splitN k l = Some (a, b) -> l = a ++ b /\ N.of_nat (length a) = k.
Proof.
  unfold splitN. intros H. apply splitN_acc_spec in H. destruct H as (a' & E1 & E2 & E3). simpl in E1. subst. auto.
Qed.

Lemma takeN_rev_length {A} : forall (l : list A) k acc,
  N.of_nat (length (takeN_rev l k acc)) = N.min k (N.of_nat (length l)) + N.of_nat (length acc).
Proof.
  induction l as [|x t IH]; intros k acc; cbn [takeN_rev].
  - destruct (N.eqb_spec k 0); cbn [length]; lia.
  - destruct (N.eqb_spec k 0); [cbn [length]; lia|]. rewrite IH. cbn [length]. lia.
Qed.

Lemma takeN_length {A} k (l : list A) : N.of_nat (length (takeN k l)) = N.min k (N.of_nat (length l)).
Proof. unfold takeN. rewrite rev'_length, takeN_rev_length. simpl. lia. Qed.

Lemma skipN_length {A} : forall (l : list A) k, N.of_nat (length (skipN l k)) = N.of_nat (length l) - k.
Proof.
  induction l as [|x t IH]; intros k; cbn [skipN].
  - destruct (N.eqb_spec k 0); cbn [length]; lia.
  - destruct (N.eqb_spec k 0); [cbn [length]; lia|]. rewrite IH. cbn [length]. lia.
Qed.

Lemma skipN_suffix {A} : forall (l : list A) k, exists a, l = a ++ skipN l k.
Proof.
  induction l as [|x t IH]; intros k; simpl.
  - exists []. destruct (k =? 0); reflexivity.
  - destruct (k =? 0); [exists []; reflexivity|]. destruct (IH (N.pred k)) as [a E]. exists (x :: a). simpl. congruence.
Qed.

Lemma repeatN_length {A} (x : A) n acc : N.of_nat (length (repeatN x n acc)) = n + N.of_nat (length acc).
Proof.
  unfold repeatN. induction n using N.peano_ind.
  - cbn. lia.
  - rewrite N.iter_succ. cbn [length]. lia.
Qed.
