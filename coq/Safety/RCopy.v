(* C03: every match copy of the reference decoder reads inside the history, and what it appends is the LZ77 copy:
   byte i of the appended segment equals the byte [off] positions older in the resulting history.
   The proof carries the exact meaning of the access-accelerator marks: a mark (l, s) is the history as it was
   when it had l bytes, i.e. s = skipn (avail - l) history. *)
From Coq Require Import NArith ZArith List Bool Lia Arith.
From ZV.Codec Require Import Bytes ListLemmas Fse Huf Block.
From ZV.Safety Require Import ROutput.
Import ListNotations.
Local Open Scope N_scope.

Definition mark_exact (x : xstate) (m : N * list N) : Prop :=
  fst m <= x_avail x /\ snd m = skipn (N.to_nat (x_avail x - fst m)) (x_hist x).

(* strong decoder-state invariant: the history has x_avail bytes and every mark is exact *)
Definition xexact (x : xstate) : Prop :=
  N.of_nat (length (x_hist x)) = x_avail x /\ Forall (mark_exact x) (x_marks x).

Lemma skipn_app_len {A} (a b : list A) k : k = length a -> skipn k (a ++ b) = b.
Proof. intros ->. rewrite skipn_app, skipn_all, Nat.sub_diag. reflexivity. Qed.

Lemma skipn_skipn' {A} (l : list A) : forall a b, skipn a (skipn b l) = skipn (a + b) l.
Proof.
  induction l as [|x l IH]; intros a b; [destruct a, b; reflexivity|].
  destruct b; [rewrite Nat.add_0_r; reflexivity|]. rewrite Nat.add_succ_r. cbn [skipn]. apply IH.
Qed.
Lemma nth_error_skipn' {A} (l : list A) : forall k i, nth_error (skipn k l) i = nth_error l (k + i).
Proof. induction l as [|x l IH]; intros [|k] i; cbn; auto. destruct i; reflexivity. Qed.
Lemma nth_error_firstn' {A} (l : list A) : forall n i, (i < n)%nat -> nth_error (firstn n l) i = nth_error l i.
Proof.
  induction l as [|x l IH]; intros n i I.
  - rewrite firstn_nil. reflexivity.
  - destruct n; [lia|]. destruct i; cbn [firstn nth_error]; [reflexivity|]. apply IH. lia.
Qed.

Lemma mark_exact_grow x seg n h' marks' pos' blk' m :
  N.of_nat (length seg) = n -> h' = seg ++ x_hist x ->
  mark_exact x m ->
  mark_exact {| x_hist := h'; x_marks := marks'; x_avail := x_avail x + n; x_pos := pos'; x_blk := blk' |} m.
Proof.
  intros L -> [M1 M2]. unfold mark_exact; cbn [x_hist x_avail]. split; [lia|].
  rewrite M2. replace (N.to_nat (x_avail x + n - fst m)) with (length seg + N.to_nat (x_avail x - fst m))%nat by lia.
  rewrite skipn_app. rewrite (skipn_all2 seg) by lia. cbn [app].
  replace (length seg + N.to_nat (x_avail x - fst m) - length seg)%nat with (N.to_nat (x_avail x - fst m)) by lia.
  reflexivity.
Qed.

Lemma push_gen_exact x seg n h' :
  xexact x -> N.of_nat (length seg) = n -> h' = seg ++ x_hist x ->
  xexact {| x_hist := h'; x_marks := add_mark (x_marks x) (x_avail x + n) h'; x_avail := x_avail x + n;
            x_pos := x_pos x + n; x_blk := x_blk x + n |}.
Proof.
  intros [H1 H2] L E. unfold xexact; cbn [x_hist x_marks x_avail]. split.
  - subst h'. rewrite app_length. lia.
  - assert (OLD : Forall (mark_exact {| x_hist := h'; x_marks := add_mark (x_marks x) (x_avail x + n) h';
                                        x_avail := x_avail x + n; x_pos := x_pos x + n; x_blk := x_blk x + n |}) (x_marks x)).
    { eapply Forall_impl; [|exact H2]. intros m Hm. eapply mark_exact_grow; eauto. }
    assert (NEW : mark_exact {| x_hist := h'; x_marks := add_mark (x_marks x) (x_avail x + n) h';
                                x_avail := x_avail x + n; x_pos := x_pos x + n; x_blk := x_blk x + n |} (x_avail x + n, h')).
    { unfold mark_exact; cbn [fst snd x_hist x_avail]. split; [lia|]. rewrite N.sub_diag. reflexivity. }
    unfold add_mark. destruct (x_marks x) as [|[l s] t].
    + destruct (MARK_GAP <=? x_avail x + n); constructor; auto.
    + destruct (l + MARK_GAP <=? x_avail x + n); [constructor; auto|exact OLD].
Qed.

Lemma push_rev_exact x seg n : xexact x -> N.of_nat (length seg) = n ->
  xexact (push_rev x seg n) /\ x_hist (push_rev x seg n) = seg ++ x_hist x /\ x_avail (push_rev x seg n) = x_avail x + n.
Proof.
  intros W L. unfold push_rev. rewrite app_tr_app. split; [|split; reflexivity].
  apply (push_gen_exact x seg n); auto.
Qed.

Lemma push_fwd_exact x seg n : xexact x -> N.of_nat (length seg) = n ->
  xexact (push_fwd x seg n) /\ x_hist (push_fwd x seg n) = rev seg ++ x_hist x /\ x_avail (push_fwd x seg n) = x_avail x + n.
Proof.
  intros W L. unfold push_fwd. rewrite rev_append_rev. split; [|split; reflexivity].
  apply (push_gen_exact x (rev seg) n); auto. rewrite rev_length. exact L.
Qed.

Lemma find_mark_exact x : forall marks target best,
  Forall (mark_exact x) marks -> mark_exact x best -> target <= fst best ->
  mark_exact x (find_mark marks target best) /\ target <= fst (find_mark marks target best).
Proof.
  induction marks as [|[l s] t IH]; intros target best F B T; cbn [find_mark]; auto.
  inversion F; subst. destruct (N.leb_spec target l); auto.
Qed.

(* the accelerated access is the plain one *)
Lemma suffix_at_exact x target : xexact x -> target <= x_avail x ->
  suffix_at x target = skipn (N.to_nat (x_avail x - target)) (x_hist x).
Proof.
  intros [H1 H2] T. unfold suffix_at.
  assert (B : mark_exact x (x_avail x, x_hist x)).
  { unfold mark_exact; cbn [fst snd]. split; [lia|]. rewrite N.sub_diag. reflexivity. }
  destruct (find_mark_exact x (x_marks x) target (x_avail x, x_hist x) H2 B T) as [[M1 M2] M3].
  destruct (find_mark (x_marks x) target (x_avail x, x_hist x)) as [l s]. cbn [fst snd] in *.
  rewrite skipN_skipn, M2, skipn_skipn'. f_equal. lia.
Qed.

(* newest-first LZ law: the appended segment [seg] (|seg| = ml) satisfies  h'[i] = h'[i + off]  for every i < ml,
   and i + off always indexes inside h' - the copy never reads before the start of the history *)
Definition lz_copy (off : nat) (h h' : list N) (ml : nat) : Prop :=
  exists seg, h' = seg ++ h /\ length seg = ml /\
              forall i, (i < ml)%nat -> exists b, nth_error h' i = Some b /\ nth_error h' (i + off) = Some b.

Lemma nth_error_firstn_skipn {A} (l : list A) k n i : (i < n)%nat ->
  nth_error (firstn n (skipn k l)) i = nth_error l (k + i).
Proof. intros I. rewrite nth_error_firstn' by exact I. apply nth_error_skipn'. Qed.

Lemma nth_error_lt_Some {A} (l : list A) k : (k < length l)%nat -> exists b, nth_error l k = Some b.
Proof. intros H. destruct (nth_error l k) eqn:E; [eauto|]. apply nth_error_None in E. lia. Qed.

Lemma copy_match_lz : forall f x off ml,
  xexact x -> 1 <= off -> off <= x_avail x -> ml / off < N.of_nat f ->
  xexact (copy_match f x off ml) /\ x_avail (copy_match f x off ml) = x_avail x + ml /\
  lz_copy (N.to_nat off) (x_hist x) (x_hist (copy_match f x off ml)) (N.to_nat ml).
Proof.
  induction f; intros x off ml W O1 O2 F; [exfalso; generalize dependent (ml / off); intros; lia|].
  cbn [copy_match]. pose proof W as [WL _]. destruct (N.leb_spec ml off) as [LE|GT].
  - rewrite suffix_at_exact by (auto; lia). rewrite takeN_firstn.
    replace (N.to_nat (x_avail x - (x_avail x - (off - ml)))) with (N.to_nat off - N.to_nat ml)%nat by lia.
    set (seg := firstn (N.to_nat ml) (skipn (N.to_nat off - N.to_nat ml) (x_hist x))).
    assert (SL : length seg = N.to_nat ml).
    { unfold seg. rewrite firstn_length, skipn_length. lia. }
    destruct (push_rev_exact x seg ml W) as (W' & H' & A'); [lia|].
    split; [exact W'|]. split; [exact A'|]. rewrite H'. exists seg. split; [reflexivity|]. split; [exact SL|].
    intros i I. destruct (nth_error_lt_Some (x_hist x) (N.to_nat off - N.to_nat ml + i)) as [b B]; [lia|].
    exists b. split.
    + rewrite nth_error_app1 by lia. unfold seg. rewrite nth_error_firstn_skipn by exact I. exact B.
    + rewrite nth_error_app2 by lia. rewrite SL. rewrite <- B. f_equal. lia.
  - rewrite takeN_firstn. set (s1 := firstn (N.to_nat off) (x_hist x)).
    assert (S1L : length s1 = N.to_nat off) by (unfold s1; rewrite firstn_length; lia).
    destruct (push_rev_exact x s1 off W) as (W1 & H1 & A1); [lia|].
    assert (E : ml / off = 1 + (ml - off) / off).
    { replace ml with (1 * off + (ml - off)) at 1 by lia. rewrite N.div_add_l by lia. reflexivity. }
    destruct (IHf (push_rev x s1 off) off (ml - off)) as (W2 & A2 & (seg2 & H2 & S2L & LAW)); auto.
    + rewrite A1. lia.
    + generalize dependent (ml / off). generalize ((ml - off) / off). intros; lia.
    + split; [exact W2|]. split; [rewrite A2, A1; lia|].
      rewrite H1 in H2. exists (seg2 ++ s1). split; [rewrite H2, app_assoc; reflexivity|].
      split; [rewrite app_length; lia|].
      intros i I. destruct (Nat.lt_ge_cases i (N.to_nat (ml - off))) as [LO|HI]; [apply LAW; exact LO|].
      rewrite H2.
      destruct (nth_error_lt_Some (x_hist x) (i - N.to_nat (ml - off))) as [b B]; [lia|].
      exists b. split.
      * rewrite nth_error_app2 by lia. rewrite S2L. rewrite nth_error_app1 by lia.
        unfold s1. rewrite nth_error_firstn' by lia. exact B.
      * rewrite nth_error_app2 by lia. rewrite S2L. rewrite nth_error_app2 by lia. rewrite S1L.
        rewrite <- B. f_equal. lia.
Qed.

(* an accepted sequence: the new history is  match ++ rev literals ++ old history, the literals are the next ll bytes
   of the literal buffer, and the match obeys the LZ law with every read inside the history *)
Theorem exec_seq_lz strict window blockMax x lits ll ml off x' lits' :
  xexact x -> exec_seq strict window blockMax x lits ll ml off = Ok (x', lits') ->
  xexact x' /\ x_avail x' = x_avail x + ll + ml /\
  exists la, lits = la ++ lits' /\ N.of_nat (length la) = ll /\
             1 <= off /\ off <= x_avail x + ll /\
             lz_copy (N.to_nat off) (rev la ++ x_hist x) (x_hist x') (N.to_nat ml).
Proof.
  intros W H. unfold exec_seq in H.
  apply bind_ok in H. destruct H as ([a b] & SP & H). apply of_opt_ok in SP. apply splitN_Some in SP. destruct SP as [SP L].
  cbn [fst snd] in H. lazy zeta in H.
  apply bind_ok in H. destruct H as (u1 & G1 & H). apply guard_ok in G1.
  apply bind_ok in H. destruct H as (u2 & G2 & H).
  assert (EX : x' = copy_match (S (N.to_nat (ml / off))) (push_fwd x a ll) off ml) by congruence.
  assert (EL : lits' = b) by congruence. clear H. subst x' lits'.
  rewrite lenN_length in L.
  destruct (push_fwd_exact x a ll W L) as (W1 & H1 & A1).
  destruct (offset_ok_bounds _ _ _ _ G1) as [O1 O2].
  destruct (copy_match_lz (S (N.to_nat (ml / off))) (push_fwd x a ll) off ml W1 O1 O2) as (W2 & A2 & LZ); [lia|].
  split; [exact W2|]. split; [rewrite A2, A1; lia|].
  exists a. split; [exact SP|]. split; [exact L|]. split; [exact O1|]. split; [rewrite <- A1; exact O2|].
  rewrite <- H1. exact LZ.
Qed.

(* hypotheses are satisfiable: 4 bytes "abcd", match of length 6 at distance 2 -> "cdcdcd" appended *)
Example lz_example :
  let x := {| x_hist := [100; 99; 98; 97]; x_marks := []; x_avail := 4; x_pos := 4; x_blk := 4 |} in
  xexact x /\ exists x', exec_seq false 1024 1024 x [] 0 6 2 = Ok (x', []) /\ x_hist x' = [100; 99; 100; 99; 100; 99; 100; 99; 98; 97].
Proof. split; [split; [reflexivity|constructor]|]. eexists. split; reflexivity. Qed.

(* ---- exactness is an invariant of everything R does to the decoder state ---- *)
Lemma seq_loop_exact : forall n strict window blockMax tll tof tml stll stof stml s rep x lits acc xs lits' rep' sqs,
  xexact x ->
  seq_loop n strict window blockMax tll tof tml stll stof stml s rep x lits acc = Ok (xs, lits', rep', sqs) ->
  xexact xs.
Proof.
  induction n; intros strict window blockMax tll tof tml stll stof stml s rep x lits acc xs lits' rep' sqs W H;
    cbn [seq_loop] in H.
  - apply bind_ok in H. destruct H as (u & _ & H). inversion H; subst. exact W.
  - apply bind_ok in H. destruct H as (u & _ & H).
    apply bind_ok in H. destruct H as (r1 & _ & H). lazy zeta in H.
    destruct (ml_info _) as [mlb mlx]. apply bind_ok in H. destruct H as (r2 & _ & H).
    destruct (ll_info _) as [llb llx]. apply bind_ok in H. destruct H as (r3 & _ & H).
    apply bind_ok in H. destruct H as ([off rp] & _ & H).
    apply bind_ok in H. destruct H as ([x1 l1] & E & H).
    destruct (exec_seq_lz _ _ _ _ _ _ _ _ _ _ W E) as (W1 & _).
    destruct n.
    + apply IHn in H; auto.
    + apply bind_ok in H. destruct H as (u1 & _ & H).
      apply bind_ok in H. destruct H as (u2 & _ & H).
      apply bind_ok in H. destruct H as (u3 & _ & H).
      apply IHn in H; auto.
Qed.

Lemma reset_blk_exact x :
  xexact x -> xexact {| x_hist := x_hist x; x_marks := x_marks x; x_avail := x_avail x; x_pos := x_pos x; x_blk := 0 |}.
Proof. intros [A B]. split; [exact A|]. eapply Forall_impl; [|exact B]. intros m M. exact M. Qed.

Lemma decode_cblock_exact strict window blockMax e x src e' x' bt :
  xexact x -> decode_cblock strict window blockMax e x src = Ok (e', x', bt) -> xexact x'.
Proof.
  intros W H. unfold decode_cblock in H.
  apply bind_ok in H. destruct H as (u & _ & H).
  apply bind_ok in H. destruct H as ([[[lits huf'] lused] lmode] & _ & H).
  apply bind_ok in H. destruct H as ([nbseq rest1] & _ & H). lazy zeta in H.
  pose proof (reset_blk_exact x W) as W0.
  set (x0 := {| x_hist := x_hist x; x_marks := x_marks x; x_avail := x_avail x; x_pos := x_pos x; x_blk := 0 |}) in *.
  assert (FIN : forall (e1 : entropy) xs (lits1 : list N) (bt1 : btrace),
            xexact xs ->
            (check (x_blk xs + lenN lits1 <=? blockMax) else Esafety @ 361;
             Ok (e1, push_fwd xs lits1 (lenN lits1), bt1)) = Ok (e', x', bt) -> xexact x').
  { intros e1 xs lits1 bt1 Ws F.
    apply bind_ok in F. destruct F as (u1 & _ & F). inversion F; subst e' x' bt.
    apply push_fwd_exact; auto. rewrite lenN_length. reflexivity. }
  destruct (nbseq =? 0).
  - apply bind_ok in H. destruct H as (u1 & _ & H). eapply FIN; [exact W0|exact H].
  - destruct rest1 as [|modes rest2]; try discriminate.
    apply bind_ok in H. destruct H as (u1 & _ & H).
    apply bind_ok in H. destruct H as (tl & _ & H).
    apply bind_ok in H. destruct H as (to & _ & H).
    apply bind_ok in H. destruct H as (tm & _ & H).
    apply bind_ok in H. destruct H as (s0 & _ & H).
    apply bind_ok in H. destruct H as (i1 & _ & H).
    apply bind_ok in H. destruct H as (i2 & _ & H).
    apply bind_ok in H. destruct H as (i3 & _ & H).
    apply bind_ok in H. destruct H as ([[[xs lits1] rp] sqs] & SL & H).
    apply seq_loop_exact in SL; auto.
    eapply FIN; [exact SL|exact H].
Qed.

(* the state a frame starts from (dictionary content as history, no marks) is exact *)
Lemma initial_state_exact (dcontent : bytes) :
  xexact {| x_hist := rev' dcontent; x_marks := []; x_avail := lenN dcontent; x_pos := 0; x_blk := 0 |}.
Proof. split; cbn [x_hist x_marks x_avail]; [rewrite rev'_rev, rev_length, lenN_length; reflexivity|constructor]. Qed.

Theorem decoder_states_exact :
  (forall dcontent : bytes, xexact {| x_hist := rev' dcontent; x_marks := []; x_avail := lenN dcontent; x_pos := 0; x_blk := 0 |}) /\
  (forall n strict window blockMax tll tof tml stll stof stml s rep x lits acc xs lits' rep' sqs,
     xexact x -> seq_loop n strict window blockMax tll tof tml stll stof stml s rep x lits acc = Ok (xs, lits', rep', sqs) -> xexact xs) /\
  (forall strict window blockMax e x src e' x' bt,
     xexact x -> decode_cblock strict window blockMax e x src = Ok (e', x', bt) -> xexact x').
Proof. exact (conj initial_state_exact (conj seq_loop_exact decode_cblock_exact)). Qed.
