(* Model of the four entropy-table pointers of a decoding context (LLTptr, MLTptr, OFTptr, HUFptr of ZSTD_DCtx_s,
   lib/decompress/zstd_decompress_internal.h) over histories of the calls that assign them (round 2).
   A pointer is described by what it points into: the entropy struct of the context numbered [c] ([Own c]), one of
   the static default tables ([Default]), or the tables of a digested dictionary ([InDDict d]).
     ZSTD_decompressBegin            LLTptr/MLTptr/OFTptr = own entropy.{LL,ML,OF}Table, HUFptr = own entropy.hufTable
                                     (ZSTD_decompressBegin_usingDict loads the dictionary's tables INTO the own struct:
                                      same pointers)
     ZSTD_decompressBegin_usingDDict ZSTD_copyDDictParameters: the four pointers go to the DDict's tables
     a block                         ZSTD_buildSeqTable / ZSTD_decodeLiteralsBlock: each pointer stays (repeat mode), goes to the
                                     own struct (table described in the block) or to a default table (predefined mode)
     ZSTD_copyDCtx(dst, src)         memcpy of the head of the struct: [pstep false]: the pointers are copied verbatim (the code before fix fefee90);
                                     [pstep true]: a pointer into the source's struct is rebased to the same table of the
                                     destination's struct (the code now)
   Model only - no proofs in this file. *)
From Coq Require Import NArith List Bool.
Import ListNotations.
Local Open Scope N_scope.

Inductive tptr := Own (c : N) | Default | InDDict (d : N).
Definition ptrs := (tptr * tptr * tptr * tptr)%type.       (* LL, ML, OF, HUF *)

(* contexts are numbered; a state maps each context to its pointers (None = never initialised) *)
Definition cstates := N -> option ptrs.
Definition upd (s : cstates) (c : N) (p : ptrs) : cstates := fun x => if x =? c then Some p else s x.

Inductive mode := Repeat | Described | Predefined.
Definition apply_mode (c : N) (m : mode) (p : tptr) : tptr :=
  match m with Repeat => p | Described => Own c | Predefined => Default end.

Inductive pop :=
| Begin (c : N)                           (* ZSTD_decompressBegin / _usingDict *)
| BeginDDict (c d : N)                    (* ZSTD_decompressBegin_usingDDict *)
| Block (c : N) (ll ml off huf : mode)    (* one compressed block (HUF: Predefined does not occur; it is harmless in the model) *)
| Copy (dst src : N).                     (* ZSTD_copyDCtx *)

Definition rebase (src dst : N) (p : tptr) : tptr :=
  match p with Own c => if c =? src then Own dst else Own c | q => q end.

Definition pstep (fixed : bool) (s : cstates) (o : pop) : cstates :=
  match o with
  | Begin c => upd s c (Own c, Own c, Own c, Own c)
  | BeginDDict c d => upd s c (InDDict d, InDDict d, InDDict d, InDDict d)
  | Block c ll ml off huf =>
      match s c with
      | Some (a, b, e, h) => upd s c (apply_mode c ll a, apply_mode c ml b, apply_mode c off e, apply_mode c huf h)
      | None => s
      end
  | Copy dst src =>
      match s src with
      | Some (a, b, e, h) =>
          if fixed then upd s dst (rebase src dst a, rebase src dst b, rebase src dst e, rebase src dst h)
          else upd s dst (a, b, e, h)
      | None => s
      end
  end.

Definition prun (fixed : bool) (os : list pop) : cstates := fold_left (pstep fixed) os (fun _ => None).

(* a pointer of context [c] is private when it does not point into another context's struct *)
Definition private (c : N) (p : tptr) : Prop := match p with Own x => x = c | _ => True end.
Definition all_private (c : N) (p : ptrs) : Prop :=
  match p with (a, b, e, h) => private c a /\ private c b /\ private c e /\ private c h end.
