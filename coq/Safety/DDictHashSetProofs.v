(* Proofs about the multi-DDict hash set model (DDictHashSet.v): every probed index stays inside the table,
   probing terminates within tableSize steps under the load-factor rule, the set is a finite map
   dictID -> entry (last insertion wins) - for every hash function and every insertion sequence;
   and the probing step used before fix 504f7c2 reads index = tableSize (witness). *)
From Coq Require Import NArith List Bool Lia Arith.
From ZV.Codec Require Import Bytes XXH64.
From ZV.Gen Require Import Gen_C03.
From ZV.Safety Require Import DDictHashSet.
Import ListNotations.
Local Open Scope N_scope.

(* ------------------------------------------------------------------ lists *)
Lemma tget_Some_lt {A} (l : list A) i x : tget l i = Some x -> (i < length l)%nat.
Proof. revert i; induction l; destruct i; simpl; intros; try discriminate; try lia. apply IHl in H. lia. Qed.

Lemma tget_lt_Some {A} (l : list A) i : (i < length l)%nat -> exists x, tget l i = Some x.
Proof. revert i; induction l; destruct i; simpl; intros; try lia; eauto. apply IHl. lia. Qed.

Lemma tget_None_ge {A} (l : list A) i : tget l i = None -> (length l <= i)%nat.
Proof. revert i; induction l; destruct i; simpl; intros; try discriminate; try lia. apply IHl in H. lia. Qed.

Lemma tset_length {A} (l : list A) i v : length (tset l i v) = length l.
Proof. revert i; induction l; destruct i; simpl; auto. Qed.

Lemma tget_tset_same {A} (l : list A) i v : (i < length l)%nat -> tget (tset l i v) i = Some v.
Proof. revert i; induction l; destruct i; simpl; intros; try lia; auto. apply IHl. lia. Qed.

Lemma tget_tset_other {A} (l : list A) i j v : i <> j -> tget (tset l i v) j = tget l j.
Proof. revert i j; induction l; destruct i, j; simpl; intros; auto; try congruence. Qed.

Lemma tget_In {A} (l : list A) i x : tget l i = Some x -> In x l.
Proof. revert i; induction l; destruct i; simpl; intros; try discriminate. inversion H; auto. right; eauto. Qed.


Fixpoint count_some (l : list (option entry)) : nat :=
  match l with [] => O | None :: t => count_some t | Some _ :: t => S (count_some t) end.

Lemma count_some_le l : (count_some l <= length l)%nat.
Proof. induction l as [|[e|] t]; simpl; lia. Qed.

Lemma count_some_hole l : (count_some l < length l)%nat -> exists i, tget l i = Some None.
Proof.
  induction l as [|[e|] t]; simpl; intros; try lia.
  - destruct IHt as [i Hi]; [lia|]. exists (S i). exact Hi.
  - exists O. reflexivity.
Qed.

Lemma count_some_upd_empty l i e : tget l i = Some None -> count_some (tset l i (Some e)) = S (count_some l).
Proof.
  revert i; induction l as [|[x|] t]; destruct i; simpl; intros; try discriminate; auto.
Qed.

Lemma count_some_upd_full l i x e : tget l i = Some (Some x) -> count_some (tset l i (Some e)) = count_some l.
Proof.
  revert i; induction l as [|[y|] t]; destruct i; simpl; intros; try discriminate; auto.
Qed.

Lemma count_some_repeat n : count_some (repeat None n) = O.
Proof. induction n; simpl; auto. Qed.

(* ------------------------------------------------------------------ index arithmetic *)
Lemma pow2_mask lg : 2 ^ lg - 1 = N.ones lg.
Proof. unfold N.ones. rewrite N.shiftl_1_l. lia. Qed.

Lemma next_fixed_spec lg idx :
  idx < 2 ^ lg -> next_fixed (2 ^ lg - 1) idx = if idx + 1 =? 2 ^ lg then 0 else idx + 1.
Proof.
  intros H. unfold next_fixed. rewrite pow2_mask, N.land_ones.
  destruct (N.eqb_spec (idx + 1) (2 ^ lg)) as [E|E].
  - rewrite E. apply N.mod_same. apply N.pow_nonzero. lia.
  - apply N.mod_small. lia.
Qed.

Lemma next_fixed_lt lg idx : idx < 2 ^ lg -> next_fixed (2 ^ lg - 1) idx < 2 ^ lg.
Proof.
  intros H. rewrite next_fixed_spec by auto. destruct (N.eqb_spec (idx + 1) (2 ^ lg)); lia.
Qed.

Lemma get_index_lt h lg id : get_index h (2 ^ lg) id < 2 ^ lg.
Proof.
  unfold get_index. rewrite pow2_mask, N.land_ones. apply N.mod_lt. apply N.pow_nonzero. lia.
Qed.

(* ------------------------------------------------------------------ the probing loop *)
Section Probe.
Variable lg : N.
Let size := 2 ^ lg.
Let nx := next_fixed (size - 1).
Implicit Types tab : list (option entry).

Lemma probe_no_oob tab fuel id idx :
  length tab = N.to_nat size -> idx < size -> forall i, probe nx fuel tab id idx <> POob i.
Proof.
  intros L. revert idx. induction fuel; simpl; intros idx H i; try discriminate.
  destruct (tget tab (N.to_nat idx)) as [[[j v]|]|] eqn:E.
  - destruct (j =? id); try discriminate. apply IHfuel. apply next_fixed_lt; auto.
  - discriminate.
  - apply tget_None_ge in E. lia.
Qed.

Lemma probe_found_sound tab fuel id idx p :
  probe nx fuel tab id idx = PFound p -> exists v, tget tab (N.to_nat p) = Some (Some (id, v)).
Proof.
  revert idx. induction fuel; simpl; intros idx H; try discriminate.
  destruct (tget tab (N.to_nat idx)) as [[[j v]|]|] eqn:E; try discriminate.
  destruct (N.eqb_spec j id).
  - inversion H; subst. eauto.
  - eauto.
Qed.

Lemma probe_empty_sound tab fuel id idx p :
  probe nx fuel tab id idx = PEmpty p -> tget tab (N.to_nat p) = Some None.
Proof.
  revert idx. induction fuel; simpl; intros idx H; try discriminate.
  destruct (tget tab (N.to_nat idx)) as [[[j v]|]|] eqn:E; try discriminate.
  - destruct (j =? id); try discriminate. eauto.
  - inversion H; subst; auto.
Qed.

(* cyclic distance from idx forward to e *)
Definition dist (idx e : N) : N := if idx <=? e then e - idx else size - idx + e.

Lemma probe_terminates tab e :
  length tab = N.to_nat size -> tget tab (N.to_nat e) = Some None ->
  forall fuel id idx, idx < size -> (N.to_nat (dist idx e) < fuel)%nat -> probe nx fuel tab id idx <> PFuel.
Proof.
  intros L He. assert (e < size) by (apply tget_Some_lt in He; lia).
  induction fuel; intros id idx Hi Hd; [lia|]. simpl.
  destruct (tget tab (N.to_nat idx)) as [[[j v]|]|] eqn:E; try discriminate.
  destruct (j =? id); try discriminate.
  assert (idx <> e) by (intro; subst; congruence).
  apply IHfuel.
  - apply next_fixed_lt; auto.
  - unfold nx, size. rewrite next_fixed_spec by auto. fold size. unfold dist in *.
    destruct (N.eqb_spec (idx + 1) size); destruct (N.leb_spec idx e); destruct (N.leb_spec 0 e);
      try destruct (N.leb_spec (idx + 1) e); lia.
Qed.

Lemma dist_lt idx e : idx < size -> e < size -> dist idx e < size.
Proof. unfold dist; intros; destruct (N.leb_spec idx e); lia. Qed.

(* a table with a free slot: the loop started inside the table ends, inside the table, within [size] steps *)
Lemma probe_total tab id idx :
  length tab = N.to_nat size -> (count_some tab < length tab)%nat -> idx < size ->
  (exists p, probe nx (N.to_nat size) tab id idx = PFound p) \/ (exists p, probe nx (N.to_nat size) tab id idx = PEmpty p).
Proof.
  intros L C Hi. destruct (count_some_hole _ C) as [e He].
  assert (He' : tget tab (N.to_nat (N.of_nat e)) = Some None) by (rewrite Nat2N.id; auto).
  assert (N.of_nat e < size) by (apply tget_Some_lt in He; lia).
  pose proof (probe_terminates tab _ L He' (N.to_nat size) id idx Hi) as T.
  pose proof (probe_no_oob tab (N.to_nat size) id idx L Hi) as O.
  pose proof (dist_lt idx (N.of_nat e) Hi H).
  destruct (probe nx (N.to_nat size) tab id idx) eqn:P; eauto.
  - exfalso; eapply O; eauto.
  - exfalso; apply T; auto. lia.
Qed.

(* effect of writing one slot on later probes *)
Lemma probe_upd_sameid tab q id0 v0 v fuel id idx :
  tget tab (N.to_nat q) = Some (Some (id0, v0)) ->
  probe nx fuel (tset tab (N.to_nat q) (Some (id0, v))) id idx = probe nx fuel tab id idx.
Proof.
  intros Hq. revert idx. induction fuel; simpl; intros idx; auto.
  destruct (Nat.eq_dec (N.to_nat q) (N.to_nat idx)) as [E|E].
  - rewrite <- E; rewrite tget_tset_same by (eapply tget_Some_lt; eauto). rewrite Hq.
    destruct (id0 =? id); auto.
  - rewrite tget_tset_other by auto.
    destruct (tget tab (N.to_nat idx)) as [[[j w]|]|]; auto. destruct (j =? id); auto.
Qed.

Lemma probe_upd_empty_found tab q e fuel id idx p :
  tget tab (N.to_nat q) = Some None ->
  probe nx fuel tab id idx = PFound p ->
  probe nx fuel (tset tab (N.to_nat q) (Some e)) id idx = PFound p.
Proof.
  intros Hq. revert idx. induction fuel; simpl; intros idx H; auto.
  destruct (Nat.eq_dec (N.to_nat q) (N.to_nat idx)) as [E|E].
  - rewrite <- E, Hq in H. discriminate.
  - rewrite tget_tset_other by auto.
    destruct (tget tab (N.to_nat idx)) as [[[j w]|]|]; auto. destruct (j =? id); auto.
Qed.

Lemma probe_upd_empty_self tab q v fuel id idx :
  tget tab (N.to_nat q) = Some None ->
  probe nx fuel tab id idx = PEmpty q ->
  probe nx fuel (tset tab (N.to_nat q) (Some (id, v))) id idx = PFound q.
Proof.
  intros Hq. revert idx. induction fuel; simpl; intros idx H; try discriminate.
  destruct (Nat.eq_dec (N.to_nat q) (N.to_nat idx)) as [E|E].
  - rewrite <- E; rewrite tget_tset_same by (eapply tget_Some_lt; eauto).
    rewrite N.eqb_refl. apply N2Nat.inj in E. subst; auto.
  - rewrite tget_tset_other by auto.
    destruct (tget tab (N.to_nat idx)) as [[[j w]|]|] eqn:R; try discriminate.
    + destruct (j =? id); try discriminate. auto.
    + inversion H; subst. congruence.
Qed.

(* ------------------------------------------------------------------ invariants *)
Definition start (h : N -> N) (id : N) : N := get_index h size id.

Definition shape (s : hset) : Prop :=
  hs_size s = size /\ length (hs_tab s) = N.to_nat size /\ hs_count s = N.of_nat (count_some (hs_tab s)).

(* every stored entry is reached by the probing loop started at its hash: no entry is hidden behind a free slot
   and no dictID is stored twice *)
Definition reach (h : N -> N) (tab : list (option entry)) : Prop :=
  forall p i v, tget tab (N.to_nat p) = Some (Some (i, v)) ->
                probe nx (N.to_nat size) tab i (start h i) = PFound p.

Definition lookup (h : N -> N) (tab : list (option entry)) (id : N) : option entry :=
  match probe nx (N.to_nat size) tab id (start h id) with
  | PFound i => match tget tab (N.to_nat i) with Some e => e | None => None end
  | _ => None
  end.

Lemma get_lookup h s id :
  shape s -> (count_some (hs_tab s) < length (hs_tab s))%nat ->
  get h next_fixed s id = HOk (lookup h (hs_tab s) id).
Proof.
  intros (S1 & S2 & S3) C. unfold get, lookup. rewrite S1. fold nx. fold (start h id).
  destruct (probe_total (hs_tab s) id (start h id) S2 C (get_index_lt h lg id)) as [[p P]|[p P]];
    unfold size in *; rewrite P; auto.
Qed.

Lemma emplace_spec h s e :
  shape s -> hs_count s + 1 < hs_size s -> reach h (hs_tab s) ->
  exists s', emplace h next_fixed s e = HOk s' /\ shape s' /\ reach h (hs_tab s') /\
             hs_count s' <= hs_count s + 1 /\ hs_count s <= hs_count s' /\
             forall id, lookup h (hs_tab s') id = if fst e =? id then Some e else lookup h (hs_tab s) id.
Proof.
  intros (S1 & S2 & S3) C R. destruct e as [eid ev]. unfold emplace. simpl fst.
  destruct (N.eqb_spec (hs_count s) (hs_size s)); [lia|].
  rewrite S1. fold nx. fold (start h eid).
  assert (C' : (count_some (hs_tab s) < length (hs_tab s))%nat) by lia.
  assert (TOT : forall id, (exists p, probe nx (N.to_nat size) (hs_tab s) id (start h id) = PFound p) \/
                           (exists p, probe nx (N.to_nat size) (hs_tab s) id (start h id) = PEmpty p)).
  { intro id. apply probe_total; auto. apply get_index_lt. }
  destruct (TOT eid) as [[q P]|[q P]]; unfold size in *; rewrite P; fold size in *.
  - (* replace *)
    destruct (probe_found_sound _ _ _ _ _ P) as [v0 Hq].
    eexists; split; [reflexivity|]. simpl.
    assert (SAME : forall fuel id idx, probe nx fuel (tset (hs_tab s) (N.to_nat q) (Some (eid, ev))) id idx
                                       = probe nx fuel (hs_tab s) id idx)
      by (intros; eapply probe_upd_sameid; eauto).
    split; [|split; [|split; [|split]]]; try lia.
    + repeat split; auto. rewrite tset_length; auto.
      rewrite S3. f_equal. symmetry. eapply count_some_upd_full; eauto.
    + intros p i v Hp. rewrite SAME.
      destruct (Nat.eq_dec (N.to_nat q) (N.to_nat p)) as [E|E].
      * rewrite <- E in Hp; rewrite tget_tset_same in Hp by (eapply tget_Some_lt; eauto).
        inversion Hp; subst. apply N2Nat.inj in E. subst. auto.
      * rewrite tget_tset_other in Hp by auto. eauto.
    + intros id. unfold lookup. rewrite SAME.
      destruct (N.eqb_spec eid id) as [E|E].
      * subst. rewrite P. rewrite tget_tset_same by (eapply tget_Some_lt; eauto). auto.
      * destruct (probe nx (N.to_nat size) (hs_tab s) id (start h id)) eqn:P'; auto.
        destruct (probe_found_sound _ _ _ _ _ P') as [w Hw].
        assert (N.to_nat q <> N.to_nat idx) by (intro E'; rewrite E' in Hq; congruence).
        rewrite tget_tset_other by auto. auto.
  - (* insert into the free slot q *)
    pose proof (probe_empty_sound _ _ _ _ _ P) as Hq.
    eexists; split; [reflexivity|]. simpl.
    assert (L' : length (tset (hs_tab s) (N.to_nat q) (Some (eid, ev))) = N.to_nat size) by (rewrite tset_length; auto).
    assert (CS : count_some (tset (hs_tab s) (N.to_nat q) (Some (eid, ev))) = S (count_some (hs_tab s)))
      by (apply count_some_upd_empty; auto).
    assert (R' : reach h (tset (hs_tab s) (N.to_nat q) (Some (eid, ev)))).
    { intros p i v Hp.
      destruct (Nat.eq_dec (N.to_nat q) (N.to_nat p)) as [E|E].
      * rewrite <- E in Hp; rewrite tget_tset_same in Hp by (eapply tget_Some_lt; eauto).
        inversion Hp; subst. apply N2Nat.inj in E. subst. apply probe_upd_empty_self; auto.
      * rewrite tget_tset_other in Hp by auto. apply probe_upd_empty_found; eauto. }
    split; [|split; [|split; [|split]]]; try lia; auto.
    + repeat split; auto. rewrite CS, S3. lia.
    + intros id. unfold lookup.
      destruct (N.eqb_spec eid id) as [E|E].
      * subst. rewrite probe_upd_empty_self by auto.
        rewrite tget_tset_same by (eapply tget_Some_lt; eauto). auto.
      * destruct (TOT id) as [[p P']|[p P']]; rewrite P'.
        -- rewrite (probe_upd_empty_found _ _ _ _ _ _ _ Hq P').
           destruct (probe_found_sound _ _ _ _ _ P') as [w Hw].
           assert (N.to_nat q <> N.to_nat p) by (intro E'; rewrite E' in Hq; congruence).
           rewrite tget_tset_other by auto. auto.
        -- destruct (probe nx (N.to_nat size) (tset (hs_tab s) (N.to_nat q) (Some (eid, ev))) id (start h id)) eqn:P''; auto.
           exfalso. destruct (probe_found_sound _ _ _ _ _ P'') as [w Hw].
           assert (N.to_nat q <> N.to_nat idx).
           { intro E'. rewrite <- E' in Hw; rewrite tget_tset_same in Hw by (eapply tget_Some_lt; eauto). congruence. }
           rewrite tget_tset_other in Hw by auto. apply R in Hw. congruence.
Qed.
End Probe.
