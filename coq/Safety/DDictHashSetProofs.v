(* Proofs about the multi-DDict hash set model (DDictHashSet.v): every probed index stays inside the table,
   probing terminates within tableSize steps under the load-factor rule, the set is a finite map
   dictID -> entry (last insertion wins) - for every hash function and every insertion sequence;
   and the probing step used before fix 504f7c2 reads index = tableSize (witness). *)
From Coq Require Import NArith List Bool Lia Arith.
From ZV.Codec Require Import Bytes XXH64.
From ZV.Gen Require Import Gen_C03.
From ZV.Safety Require Import DDictHashSet.
Import ListNotations.
Local Open Scope N_scope.

(* ------------------------------------------------------------------ lists *)
Lemma tget_Some_lt {A} (l : list A) i x : tget l i = Some x -> (i < length l)%nat.
Proof. revert i; induction l; destruct i; simpl; intros; try discriminate; try lia. apply IHl in H. lia. Qed.

Lemma tget_lt_Some {A} (l : list A) i : (i < length l)%nat -> exists x, tget l i = Some x.
Proof. revert i; induction l; destruct i; simpl; intros; try lia; eauto. apply IHl. lia. Qed.

Lemma tget_None_ge {A} (l : list A) i : tget l i = None -> (length l <= i)%nat.
Proof. revert i; induction l; destruct i; simpl; intros; try discriminate; try lia. apply IHl in H. lia. Qed.

Lemma tset_length {A} (l : list A) i v : length (tset l i v) = length l.
Proof. revert i; induction l; destruct i; simpl; auto. Qed.

Lemma tget_tset_same {A} (l : list A) i v : (i < length l)%nat -> tget (tset l i v) i = Some v.
Proof. revert i; induction l; destruct i; simpl; intros; try lia; auto. apply IHl. lia. Qed.

Lemma tget_tset_other {A} (l : list A) i j v : i <> j -> tget (tset l i v) j = tget l j.
Proof. revert i j; induction l; destruct i, j; simpl; intros; auto; try congruence. Qed.

Lemma tget_In {A} (l : list A) i x : tget l i = Some x -> In x l.
Proof. revert i; induction l; destruct i; simpl; intros; try discriminate. inversion H; auto. right; eauto. Qed.


Fixpoint count_some (l : list (option entry)) : nat :=
  match l with [] => O | None :: t => count_some t | Some _ :: t => S (count_some t) end.

Lemma count_some_le l : (count_some l <= length l)%nat.
Proof. induction l as [|[e|] t]; simpl; lia. Qed.

Lemma count_some_hole l : (count_some l < length l)%nat -> exists i, tget l i = Some None.
Proof.
  induction l as [|[e|] t]; simpl; intros; try lia.
  - destruct IHt as [i Hi]; [lia|]. exists (S i). exact Hi.
  - exists O. reflexivity.
Qed.

Lemma count_some_upd_empty l i e : tget l i = Some None -> count_some (tset l i (Some e)) = S (count_some l).
Proof.
  revert i; induction l as [|[x|] t]; destruct i; simpl; intros; try discriminate; auto.
Qed.

Lemma count_some_upd_full l i x e : tget l i = Some (Some x) -> count_some (tset l i (Some e)) = count_some l.
Proof.
  revert i; induction l as [|[y|] t]; destruct i; simpl; intros; try discriminate; auto.
Qed.

Lemma count_some_repeat n : count_some (repeat None n) = O.
Proof. induction n; simpl; auto. Qed.

(* ------------------------------------------------------------------ index arithmetic *)
Lemma pow2_mask lg : 2 ^ lg - 1 = N.ones lg.
Proof. unfold N.ones. rewrite N.shiftl_1_l. lia. Qed.

Lemma next_fixed_spec lg idx :
  idx < 2 ^ lg -> next_fixed (2 ^ lg - 1) idx = if idx + 1 =? 2 ^ lg then 0 else idx + 1.
Proof.
  intros H. unfold next_fixed. rewrite pow2_mask, N.land_ones.
  destruct (N.eqb_spec (idx + 1) (2 ^ lg)) as [E|E].
  - rewrite E. apply N.mod_same. apply N.pow_nonzero. lia.
  - apply N.mod_small. lia.
Qed.

Lemma next_fixed_lt lg idx : idx < 2 ^ lg -> next_fixed (2 ^ lg - 1) idx < 2 ^ lg.
Proof.
  intros H. rewrite next_fixed_spec by auto. destruct (N.eqb_spec (idx + 1) (2 ^ lg)); lia.
Qed.

Lemma get_index_lt h lg id : get_index h (2 ^ lg) id < 2 ^ lg.
Proof.
  unfold get_index. rewrite pow2_mask, N.land_ones. apply N.mod_lt. apply N.pow_nonzero. lia.
Qed.

(* ------------------------------------------------------------------ the probing loop *)
Section Probe.
Variable lg : N.
Let size := 2 ^ lg.
Let nx := next_fixed (size - 1).
Implicit Types tab : list (option entry).

Lemma probe_no_oob tab fuel id idx :
  length tab = N.to_nat size -> idx < size -> forall i, probe nx fuel tab id idx <> POob i.
Proof.
  intros L. revert idx. induction fuel; simpl; intros idx H i; try discriminate.
  destruct (tget tab (N.to_nat idx)) as [[[j v]|]|] eqn:E.
  - destruct (j =? id); try discriminate. apply IHfuel. apply next_fixed_lt; auto.
  - discriminate.
  - apply tget_None_ge in E. lia.
Qed.

Lemma probe_found_sound tab fuel id idx p :
  probe nx fuel tab id idx = PFound p -> exists v, tget tab (N.to_nat p) = Some (Some (id, v)).
Proof.
  revert idx. induction fuel; simpl; intros idx H; try discriminate.
  destruct (tget tab (N.to_nat idx)) as [[[j v]|]|] eqn:E; try discriminate.
  destruct (N.eqb_spec j id).
  - inversion H; subst. eauto.
  - eauto.
Qed.

Lemma probe_empty_sound tab fuel id idx p :
  probe nx fuel tab id idx = PEmpty p -> tget tab (N.to_nat p) = Some None.
Proof.
  revert idx. induction fuel; simpl; intros idx H; try discriminate.
  destruct (tget tab (N.to_nat idx)) as [[[j v]|]|] eqn:E; try discriminate.
  - destruct (j =? id); try discriminate. eauto.
  - inversion H; subst; auto.
Qed.

(* cyclic distance from idx forward to e *)
Definition dist (idx e : N) : N := if idx <=? e then e - idx else size - idx + e.

Lemma probe_terminates tab e :
  length tab = N.to_nat size -> tget tab (N.to_nat e) = Some None ->
  forall fuel id idx, idx < size -> (N.to_nat (dist idx e) < fuel)%nat -> probe nx fuel tab id idx <> PFuel.
Proof.
  intros L He. assert (e < size) by (apply tget_Some_lt in He; lia).
  induction fuel; intros id idx Hi Hd; [lia|]. simpl.
  destruct (tget tab (N.to_nat idx)) as [[[j v]|]|] eqn:E; try discriminate.
  destruct (j =? id); try discriminate.
  assert (idx <> e) by (intro; subst; congruence).
  apply IHfuel.
  - apply next_fixed_lt; auto.
  - unfold nx, size. rewrite next_fixed_spec by auto. fold size. unfold dist in *.
    destruct (N.eqb_spec (idx + 1) size); destruct (N.leb_spec idx e); destruct (N.leb_spec 0 e);
      try destruct (N.leb_spec (idx + 1) e); lia.
Qed.

Lemma dist_lt idx e : idx < size -> e < size -> dist idx e < size.
Proof. unfold dist; intros; destruct (N.leb_spec idx e); lia. Qed.

(* a table with a free slot: the loop started inside the table ends, inside the table, within [size] steps *)
Lemma probe_total tab id idx :
  length tab = N.to_nat size -> (count_some tab < length tab)%nat -> idx < size ->
  (exists p, probe nx (N.to_nat size) tab id idx = PFound p) \/ (exists p, probe nx (N.to_nat size) tab id idx = PEmpty p).
Proof.
  intros L C Hi. destruct (count_some_hole _ C) as [e He].
  assert (He' : tget tab (N.to_nat (N.of_nat e)) = Some None) by (rewrite Nat2N.id; auto).
  assert (N.of_nat e < size) by (apply tget_Some_lt in He; lia).
  pose proof (probe_terminates tab _ L He' (N.to_nat size) id idx Hi) as T.
  pose proof (probe_no_oob tab (N.to_nat size) id idx L Hi) as O.
  pose proof (dist_lt idx (N.of_nat e) Hi H).
  destruct (probe nx (N.to_nat size) tab id idx) eqn:P; eauto.
  - exfalso; eapply O; eauto.
  - exfalso; apply T; auto. lia.
Qed.

(* effect of writing one slot on later probes *)
Lemma probe_upd_sameid tab q id0 v0 v fuel id idx :
  tget tab (N.to_nat q) = Some (Some (id0, v0)) ->
  probe nx fuel (tset tab (N.to_nat q) (Some (id0, v))) id idx = probe nx fuel tab id idx.
Proof.
  intros Hq. revert idx. induction fuel; simpl; intros idx; auto.
  destruct (Nat.eq_dec (N.to_nat q) (N.to_nat idx)) as [E|E].
  - rewrite <- E; rewrite tget_tset_same by (eapply tget_Some_lt; eauto). rewrite Hq.
    destruct (id0 =? id); auto.
  - rewrite tget_tset_other by auto.
    destruct (tget tab (N.to_nat idx)) as [[[j w]|]|]; auto. destruct (j =? id); auto.
Qed.

Lemma probe_upd_empty_found tab q e fuel id idx p :
  tget tab (N.to_nat q) = Some None ->
  probe nx fuel tab id idx = PFound p ->
  probe nx fuel (tset tab (N.to_nat q) (Some e)) id idx = PFound p.
Proof.
  intros Hq. revert idx. induction fuel; simpl; intros idx H; auto.
  destruct (Nat.eq_dec (N.to_nat q) (N.to_nat idx)) as [E|E].
  - rewrite <- E, Hq in H. discriminate.
  - rewrite tget_tset_other by auto.
    destruct (tget tab (N.to_nat idx)) as [[[j w]|]|]; auto. destruct (j =? id); auto.
Qed.

Lemma probe_upd_empty_self tab q v fuel id idx :
  tget tab (N.to_nat q) = Some None ->
  probe nx fuel tab id idx = PEmpty q ->
  probe nx fuel (tset tab (N.to_nat q) (Some (id, v))) id idx = PFound q.
Proof.
  intros Hq. revert idx. induction fuel; simpl; intros idx H; try discriminate.
  destruct (Nat.eq_dec (N.to_nat q) (N.to_nat idx)) as [E|E].
  - rewrite <- E; rewrite tget_tset_same by (eapply tget_Some_lt; eauto).
    rewrite N.eqb_refl. apply N2Nat.inj in E. subst; auto.
  - rewrite tget_tset_other by auto.
    destruct (tget tab (N.to_nat idx)) as [[[j w]|]|] eqn:R; try discriminate.
    + destruct (j =? id); try discriminate. auto.
    + inversion H; subst. congruence.
Qed.

(* ------------------------------------------------------------------ invariants *)
Definition start (h : N -> N) (id : N) : N := get_index h size id.

Definition shape (s : hset) : Prop :=
  hs_size s = size /\ length (hs_tab s) = N.to_nat size /\ hs_count s = N.of_nat (count_some (hs_tab s)).

(* every stored entry is reached by the probing loop started at its hash: no entry is hidden behind a free slot
   and no dictID is stored twice *)
Definition reach (h : N -> N) (tab : list (option entry)) : Prop :=
  forall p i v, tget tab (N.to_nat p) = Some (Some (i, v)) ->
                probe nx (N.to_nat size) tab i (start h i) = PFound p.

Definition lookup (h : N -> N) (tab : list (option entry)) (id : N) : option entry :=
  match probe nx (N.to_nat size) tab id (start h id) with
  | PFound i => match tget tab (N.to_nat i) with Some e => e | None => None end
  | _ => None
  end.

Lemma get_total h s id :
  shape s -> (count_some (hs_tab s) < length (hs_tab s))%nat -> exists r, get h next_fixed s id = HOk r.
Proof.
  intros (S1 & S2 & S3) C. unfold get. destruct (id =? 0); [eauto|]. rewrite S1. fold nx. fold (start h id).
  destruct (probe_total (hs_tab s) id (start h id) S2 C (get_index_lt h lg id)) as [[p P]|[p P]];
    rewrite P; eauto.
Qed.

(* since fix d50580e the lookup loop is the insertion loop: a stored dictID-0 entry is a regular entry *)
Lemma get_lookup h s id :
  shape s -> (count_some (hs_tab s) < length (hs_tab s))%nat -> id <> 0 ->
  get h next_fixed s id = HOk (lookup h (hs_tab s) id).
Proof.
  intros (S1 & S2 & S3) C Z. unfold get, lookup. destruct (N.eqb_spec id 0); [congruence|]. rewrite S1. fold nx. fold (start h id).
  destruct (probe_total (hs_tab s) id (start h id) S2 C (get_index_lt h lg id)) as [[p P]|[p P]];
    rewrite P; auto.
Qed.

(* a stored entry is what the map returns for its own dictID *)
Lemma reach_lookup h tab p i v :
  reach h tab -> tget tab (N.to_nat p) = Some (Some (i, v)) -> lookup h tab i = Some (i, v).
Proof. intros R H. unfold lookup. rewrite (R p i v H), H. reflexivity. Qed.

Lemma emplace_spec h s e :
  shape s -> hs_count s + 1 < hs_size s -> reach h (hs_tab s) ->
  exists s', emplace h next_fixed s e = HOk s' /\ shape s' /\ reach h (hs_tab s') /\
             hs_count s' <= hs_count s + 1 /\ hs_count s <= hs_count s' /\
             forall id, lookup h (hs_tab s') id = if fst e =? id then Some e else lookup h (hs_tab s) id.
Proof.
  intros (S1 & S2 & S3) C R. destruct e as [eid ev]. unfold emplace. simpl fst.
  destruct (N.eqb_spec (hs_count s) (hs_size s)); [lia|].
  rewrite S1. fold nx. fold (start h eid).
  assert (C' : (count_some (hs_tab s) < length (hs_tab s))%nat) by lia.
  assert (TOT : forall id, (exists p, probe nx (N.to_nat size) (hs_tab s) id (start h id) = PFound p) \/
                           (exists p, probe nx (N.to_nat size) (hs_tab s) id (start h id) = PEmpty p)).
  { intro id. apply probe_total; auto. apply get_index_lt. }
  destruct (TOT eid) as [[q P]|[q P]]; rewrite P.
  - (* replace *)
    destruct (probe_found_sound _ _ _ _ _ P) as [v0 Hq].
    eexists; split; [reflexivity|]. simpl.
    assert (SAME : forall fuel id idx, probe nx fuel (tset (hs_tab s) (N.to_nat q) (Some (eid, ev))) id idx
                                       = probe nx fuel (hs_tab s) id idx)
      by (intros; eapply probe_upd_sameid; eauto).
    split; [|split; [|split; [|split]]]; try lia.
    + unfold shape; simpl; split; [|split]; auto.
      * rewrite tset_length; auto.
      * rewrite S3. f_equal. symmetry. eapply count_some_upd_full; eauto.
    + intros p i v Hp. rewrite SAME.
      destruct (Nat.eq_dec (N.to_nat q) (N.to_nat p)) as [E|E].
      * rewrite <- E in Hp; rewrite tget_tset_same in Hp by (eapply tget_Some_lt; eauto).
        inversion Hp; subst. apply N2Nat.inj in E. subst. auto.
      * rewrite tget_tset_other in Hp by auto. eauto.
    + intros id. unfold lookup. rewrite SAME.
      destruct (N.eqb_spec eid id) as [E|E].
      * subst. rewrite P. rewrite tget_tset_same by (eapply tget_Some_lt; eauto). auto.
      * destruct (probe nx (N.to_nat size) (hs_tab s) id (start h id)) eqn:P'; auto.
        destruct (probe_found_sound _ _ _ _ _ P') as [w Hw].
        assert (N.to_nat q <> N.to_nat idx) by (intro E'; rewrite E' in Hq; congruence).
        rewrite tget_tset_other by auto. auto.
  - (* insert into the free slot q *)
    pose proof (probe_empty_sound _ _ _ _ _ P) as Hq.
    eexists; split; [reflexivity|]. simpl.
    assert (L' : length (tset (hs_tab s) (N.to_nat q) (Some (eid, ev))) = N.to_nat size) by (rewrite tset_length; auto).
    assert (CS : count_some (tset (hs_tab s) (N.to_nat q) (Some (eid, ev))) = S (count_some (hs_tab s)))
      by (apply count_some_upd_empty; auto).
    assert (R' : reach h (tset (hs_tab s) (N.to_nat q) (Some (eid, ev)))).
    { intros p i v Hp.
      destruct (Nat.eq_dec (N.to_nat q) (N.to_nat p)) as [E|E].
      * rewrite <- E in Hp; rewrite tget_tset_same in Hp by (eapply tget_Some_lt; eauto).
        inversion Hp; subst. apply N2Nat.inj in E. subst. apply probe_upd_empty_self; auto.
      * rewrite tget_tset_other in Hp by auto. apply probe_upd_empty_found; eauto. }
    split; [|split; [|split; [|split]]]; try lia; auto.
    + unfold shape; simpl; split; [|split]; auto. rewrite CS, S3. lia.
    + intros id. unfold lookup.
      destruct (N.eqb_spec eid id) as [E|E].
      * subst. rewrite probe_upd_empty_self by auto.
        rewrite tget_tset_same by (eapply tget_Some_lt; eauto). auto.
      * destruct (TOT id) as [[p P']|[p P']]; rewrite P'.
        -- rewrite (probe_upd_empty_found _ _ _ _ _ _ _ Hq P').
           destruct (probe_found_sound _ _ _ _ _ P') as [w Hw].
           assert (N.to_nat q <> N.to_nat p) by (intro E'; rewrite E' in Hq; congruence).
           rewrite tget_tset_other by auto. auto.
        -- destruct (probe nx (N.to_nat size) (tset (hs_tab s) (N.to_nat q) (Some (eid, ev))) id (start h id)) eqn:P''; auto.
           exfalso. destruct (probe_found_sound _ _ _ _ _ P'') as [w Hw].
           assert (N.to_nat q <> N.to_nat idx).
           { intro E'. rewrite <- E' in Hw; rewrite tget_tset_same in Hw by (eapply tget_Some_lt; eauto). congruence. }
           rewrite tget_tset_other in Hw by auto. apply R in Hw. congruence.
Qed.
End Probe.

(* ------------------------------------------------------------------ re-insertion of a whole table *)
Fixpoint spec_get_opt (l : list (option entry)) (id : N) (acc : option entry) : option entry :=
  match l with
  | [] => acc
  | None :: t => spec_get_opt t id acc
  | Some e :: t => spec_get_opt t id (if fst e =? id then Some e else acc)
  end.

Lemma emplace_all_spec lg h l : forall s,
  shape lg s -> reach lg h (hs_tab s) -> hs_count s + N.of_nat (count_some l) + 1 < hs_size s ->
  exists s', emplace_all h next_fixed l s = HOk s' /\ shape lg s' /\ reach lg h (hs_tab s') /\
             hs_count s' <= hs_count s + N.of_nat (count_some l) /\
             forall id, lookup lg h (hs_tab s') id = spec_get_opt l id (lookup lg h (hs_tab s) id).
Proof.
  induction l as [|[e|] t IH]; simpl; intros s S R C.
  - exists s. split; [reflexivity|]. split; [auto|]. split; [auto|]. split; [lia|auto].
  - destruct (emplace_spec lg h s e S) as (s1 & E & S1 & R1 & C1 & C1' & L1); auto; try lia.
    rewrite E.
    assert (SZ : hs_size s1 = hs_size s) by (destruct S as (a & _), S1 as (b & _); congruence).
    destruct (IH s1 S1 R1) as (s2 & E2 & S2 & R2 & C2 & L2); try lia.
    exists s2. split; [auto|]. split; [auto|]. split; [auto|]. split; [lia|].
    intros id. rewrite L2, L1. reflexivity.
  - apply IH; auto.
Qed.

Lemma spec_get_opt_unique l id e : forall acc,
  (forall j x, tget l j = Some (Some x) -> fst x = id -> x = e) ->
  (acc = Some e \/ exists j, tget l j = Some (Some e)) -> fst e = id ->
  spec_get_opt l id acc = Some e.
Proof.
  induction l as [|[x|] t IH]; simpl; intros acc U H F.
  - destruct H as [H|[j H]]; auto. destruct j; discriminate.
  - apply IH; auto.
    + intros j y Hj. apply (U (S j) y Hj).
    + destruct (N.eqb_spec (fst x) id) as [E|E].
      * left. f_equal. apply (U O x); auto.
      * destruct H as [H|[j H]]; auto. destruct j; simpl in H; eauto. inversion H; subst. congruence.
  - apply IH; auto.
    + intros j y Hj. apply (U (S j) y Hj).
    + destruct H as [H|[j H]]; auto. destruct j; simpl in H; eauto. discriminate.
Qed.

Lemma spec_get_opt_absent l id : forall acc,
  (forall j x, tget l j = Some (Some x) -> fst x <> id) -> spec_get_opt l id acc = acc.
Proof.
  induction l as [|[x|] t IH]; simpl; intros acc U; auto.
  - rewrite IH by (intros j y Hj; apply (U (S j) y Hj)).
    destruct (N.eqb_spec (fst x) id) as [E|E]; auto. exfalso. apply (U O x); auto.
  - apply IH. intros j y Hj. apply (U (S j) y Hj).
Qed.

(* the slot-order list of a well-formed table denotes the same map as the probing loop *)
Lemma table_entries_lookup lg h tab id :
  length tab = N.to_nat (2 ^ lg) -> (count_some tab < length tab)%nat -> reach lg h tab ->
  spec_get_opt tab id None = lookup lg h tab id.
Proof.
  intros L C R. unfold lookup.
  destruct (probe_total lg tab id (start lg h id) L C (get_index_lt h lg id)) as [[p P]|[p P]]; rewrite P.
  - destruct (probe_found_sound _ _ _ _ _ _ P) as [v Hv]. rewrite Hv.
    apply spec_get_opt_unique; auto.
    + intros j [i w] Hj F. simpl in F. subst i.
      assert (Hj' : tget tab (N.to_nat (N.of_nat j)) = Some (Some (id, w))) by (rewrite Nat2N.id; auto).
      apply R in Hj'. rewrite P in Hj'. inversion Hj'; subst. rewrite Nat2N.id in Hv. congruence.
    + right. eauto.
  - apply spec_get_opt_absent. intros j [i w] Hj F. simpl in F. subst i.
    assert (Hj' : tget tab (N.to_nat (N.of_nat j)) = Some (Some (id, w))) by (rewrite Nat2N.id; auto).
    apply R in Hj'. congruence.
Qed.

(* ------------------------------------------------------------------ the empty table *)
Lemma tget_repeat_none j x : forall n, tget (repeat (@None entry) n) j = Some (Some x) -> False.
Proof. induction j; destruct n; simpl; intros; try discriminate; eauto. Qed.

Lemma empty_shape lg : shape lg (empty_set (2 ^ lg)).
Proof.
  unfold shape, empty_set; simpl. split; [|split]; auto.
  - apply repeat_length.
  - rewrite count_some_repeat. reflexivity.
Qed.

Lemma empty_reach lg h : reach lg h (hs_tab (empty_set (2 ^ lg))).
Proof. intros p i v H. simpl in H. exfalso. eapply tget_repeat_none; eauto. Qed.

Lemma empty_lookup lg h id : lookup lg h (hs_tab (empty_set (2 ^ lg))) id = None.
Proof.
  unfold lookup. destruct (probe _ _ _ _ _) eqn:P; auto.
  apply probe_found_sound in P. destruct P as [v P]. simpl in P. exfalso. eapply tget_repeat_none; eauto.
Qed.

(* ------------------------------------------------------------------ ZSTD_DDictHashSet_addDDict *)
(* [inv h s m]: s is a well-formed table (size a power of two >= 64, at most size/4 entries, every entry reachable)
   that denotes the finite map m *)
Definition inv (h : N -> N) (s : hset) (m : N -> option entry) : Prop :=
  exists lg, 6 <= lg /\ shape lg s /\ reach lg h (hs_tab s) /\ 4 * hs_count s <= hs_size s /\
             forall id, lookup lg h (hs_tab s) id = m id.

Lemma pow2_ge64 lg : 6 <= lg -> exists k, 2 ^ lg = 4 * k /\ 16 <= k.
Proof.
  intros H. exists (2 ^ (lg - 2)). replace lg with (2 + (lg - 2)) at 1 by lia. rewrite N.pow_add_r.
  split; [reflexivity|]. change 16 with (2 ^ 4). apply N.pow_le_mono_r; lia.
Qed.

Lemma create_inv h : inv h create (fun _ => None).
Proof.
  exists 6. unfold create, HASHSET_BASE_SIZE. change 64 with (2 ^ 6).
  split; [lia|]. split; [apply empty_shape|]. split; [apply empty_reach|]. split.
  - simpl. lia.
  - intros. apply empty_lookup.
Qed.

Lemma add_spec h s m e :
  inv h s m -> exists s', add_ddict h next_fixed s e = HOk s' /\ inv h s' (fun id => if fst e =? id then Some e else m id).
Proof.
  intros (lg & G & S & R & C & L).
  destruct (pow2_ge64 lg G) as (k & K & K16).
  pose proof S as (S1 & S2 & S3).
  unfold add_ddict, over_load, HASHSET_COUNT_MULT, HASHSET_SIZE_MULT.
  assert (NZ : hs_size s <> 0) by lia.
  destruct (N.eqb_spec (hs_count s * 4 / hs_size s * 3) 0) as [Z|Z]; simpl.
  - (* below the load factor: plain emplace *)
    assert (hs_count s * 4 / hs_size s = 0) by lia.
    apply N.div_small_iff in H; auto.
    destruct (emplace_spec lg h s e S) as (s1 & E & S' & R' & C1 & C1' & L1); auto; try lia.
    exists s1. split; auto. exists lg. split; [auto|]. split; [auto|]. split; [auto|]. split.
    + destruct S' as (a & _). lia.
    + intros id. rewrite L1, L. reflexivity.
  - (* at the load factor: double the table, re-insert, then emplace *)
    assert (hs_size s <= hs_count s * 4).
    { destruct (N.lt_ge_cases (hs_count s * 4) (hs_size s)) as [LT|GE]; auto.
      apply N.div_small in LT. lia. }
    unfold expand, HASHSET_RESIZE_FACTOR.
    assert (SZ2 : hs_size s * 2 = 2 ^ (lg + 1)) by (rewrite N.pow_add_r, S1; simpl; lia).
    rewrite SZ2.
    assert (CS : (count_some (hs_tab s) < length (hs_tab s))%nat) by lia.
    destruct (emplace_all_spec (lg + 1) h (hs_tab s) (empty_set (2 ^ (lg + 1))) (empty_shape _) (empty_reach _ _))
      as (s1 & E1 & S1' & R1' & C1 & L1).
    { simpl. rewrite <- SZ2. lia. }
    rewrite E1.
    pose proof S1' as (T1 & T2 & T3).
    destruct (emplace_spec (lg + 1) h s1 e S1') as (s2 & E2 & S2' & R2' & C2 & C2' & L2); auto.
    { simpl in C1. rewrite T1, <- SZ2. lia. }
    exists s2. split; auto. exists (lg + 1). split; [lia|]. split; [auto|]. split; [auto|]. split.
    + destruct S2' as (a & _). rewrite a, <- SZ2. simpl in C1. lia.
    + intros id. rewrite L2, L1, empty_lookup, (table_entries_lookup lg h), L; auto.
Qed.

Lemma add_all_spec h l : forall s m,
  inv h s m -> exists s', add_all h next_fixed l s = HOk s' /\ inv h s' (fun id => spec_get l id (m id)).
Proof.
  induction l as [|e t IH]; simpl; intros s m I.
  - exists s. split; auto.
  - destruct (add_spec h s m e I) as (s1 & E & I1). rewrite E.
    destruct (IH s1 _ I1) as (s2 & E2 & I2). exists s2. split; auto.
Qed.

Lemma spec_get_In l id : forall acc e, spec_get l id acc = Some e -> In e l \/ acc = Some e.
Proof.
  induction l as [|x t IH]; simpl; intros acc e H; auto.
  apply IH in H. destruct H as [H|H]; auto. destruct (fst x =? id); auto. inversion H; auto.
Qed.

Lemma inv_get_total h s m id : inv h s m -> exists r, get h next_fixed s id = HOk r.
Proof.
  intros (lg & G & S & R & C & L).
  destruct (pow2_ge64 lg G) as (k & K & K16). pose proof S as (S1 & S2 & S3).
  eapply get_total; eauto. lia.
Qed.

Lemma inv_get h s l id :
  inv h s (fun id => spec_get l id None) -> id <> 0 ->
  get h next_fixed s id = HOk (spec_get l id None).
Proof.
  intros (lg & G & S & R & C & L) NZ. rewrite <- L.
  destruct (pow2_ge64 lg G) as (k & K & K16). pose proof S as (S1 & S2 & S3).
  apply get_lookup; auto. lia.
Qed.

(* ------------------------------------------------------------------ theorems *)
(* For every hash function and every insertion sequence (any dictIDs, 0 included): no probed index is outside the
   table (no [HOobRead]), every probing loop - insertion and lookup - ends within tableSize steps (no [HNoTerm]),
   the table is never full (no [HFull]). *)
Theorem ddict_hashset_in_bounds : forall (h : N -> N) (l : list entry),
  exists s, add_all h next_fixed l create = HOk s /\ hs_count s < hs_size s /\
            length (hs_tab s) = N.to_nat (hs_size s) /\
            forall id, exists r, get h next_fixed s id = HOk r.
Proof.
  intros h l. destruct (add_all_spec h l create _ (create_inv h)) as (s & E & I).
  pose proof I as (lg & G & S & R & C & L).
  exists s. split; auto. destruct (pow2_ge64 lg G) as (k & K & K16). destruct S as (S1 & S2 & S3).
  split; [lia|]. split; [congruence|]. intros id. eapply inv_get_total; eauto.
Qed.

(* ... and for every searched dictID other than 0 the set is the finite map dictID -> DDict, last insertion wins - whatever
   dictIDs were stored, 0 (raw-content dictionaries) included (since fix d50580e); a frame that names no dictionary selects nothing. *)
Theorem ddict_hashset_finite_map : forall (h : N -> N) (l : list entry) (s : hset) (id : N),
  id <> 0 ->
  add_all h next_fixed l create = HOk s -> get h next_fixed s id = HOk (spec_get l id None).
Proof.
  intros h l s id NZ E. destruct (add_all_spec h l create _ (create_inv h)) as (s' & E' & I).
  rewrite E in E'. inversion E'; subst. apply inv_get; auto.
Qed.

Theorem ddict_hashset_get_zero : forall (h : N -> N) (s : hset), get h next_fixed s 0 = HOk None.
Proof. reflexivity. Qed.

(* Before fix 504f7c2 (idx &= mask; idx++): two dictIDs whose XXH64 falls in the last slot of the 64-entry table
   make the second insertion read ddictPtrTable[64]. *)
Theorem ddict_hashset_oob_refuted :
  get_index xxh_hash 64 3 = 63 /\ get_index xxh_hash 64 47 = 63 /\
  add_all xxh_hash next_prefix [(3, 0); (47, 1)] create = HOobRead 64.
Proof. vm_compute. auto. Qed.

(* the same two insertions with the current probing step land in slots 63 and 0 *)
Example ddict_hashset_wrap_example :
  match add_all xxh_hash next_fixed [(3, 0); (47, 1)] create with
  | HOk s => tget (hs_tab s) 63 = Some (Some (3, 0)) /\ tget (hs_tab s) 0 = Some (Some (47, 1))
  | _ => False
  end.
Proof. vm_compute. auto. Qed.

(* The lookup loop before fix d50580e ("currDictID == dictID || currDictID == 0") treated a stored raw-content DDict
   (dictID 0) like an empty slot: dictIDs 0 and 26 share slot 52 of the 64-entry table, and after inserting both
   the old lookup of 26 returned the dictID-0 DDict (handle 7), not the DDict 26 stored in the next slot; the current one
   returns DDict 26. *)
Example ddict_hashset_id0_shadows :
  get_index xxh_hash 64 0 = 52 /\ get_index xxh_hash 64 26 = 52 /\
  match add_all xxh_hash next_fixed [(0, 7); (26, 1)] create with
  | HOk s => tget (hs_tab s) 53 = Some (Some (26, 1)) /\ get_old xxh_hash next_fixed s 26 = HOk (Some (0, 7)) /\
             get xxh_hash next_fixed s 26 = HOk (Some (26, 1)) /\ get xxh_hash next_fixed s 0 = HOk None
  | _ => False
  end.
Proof. vm_compute. repeat split; reflexivity. Qed.
