(* Proofs about the no-forward-progress watchdog model (NoProgress.v). *)
From Coq Require Import NArith List Bool Lia.
From ZV.Gen Require Import Gen_C03.
From ZV.Safety Require Import NoProgress.
Import ListNotations.
Local Open Scope N_scope.

Lemma stalled_run max : forall zs np k,
  forallb stalled zs = true -> forallb legal zs = true ->
  np_run (np_step max) np zs = Some k -> k = np + N.of_nat (length zs) /\ (zs <> [] -> k < max).
Proof.
  induction zs as [|o t IH]; intros np k S L H; cbn [np_run] in H.
  - inversion H; subst. simpl. split; [lia|congruence].
  - cbn [forallb] in S, L. apply andb_true_iff in S, L. destruct S as [S1 S2], L as [L1 L2].
    unfold np_step in H. unfold stalled in S1. unfold legal in L1.
    destruct (ob_progress o); try discriminate. cbn [negb orb] in *.
    destruct (N.leb_spec max (np + 1)).
    + destruct (ob_dest_full o); try discriminate. destruct (ob_in_empty o); discriminate.
    + apply IH in H; auto. destruct H as [H1 H2]. split; [cbn [length]; lia|].
      intros _. destruct t; [simpl in H1; lia|]. apply H2. congruence.
Qed.

(* In every error-free history of one session, a run of consecutive zero-progress calls is shorter than the limit:
   the caller cannot spin more than MAX-1 times. *)
Theorem noprogress_bound : forall pre zs post k,
  forallb legal (pre ++ zs ++ post) = true -> forallb stalled zs = true ->
  np_run watchdog 0 (pre ++ zs ++ post) = Some k ->
  N.of_nat (length zs) < MAXNP.
Proof.
  intros pre zs post k L S H. unfold watchdog in *.
  assert (P : forall os np r, np_run (np_step MAXNP) np (os ++ r) =
                              match np_run (np_step MAXNP) np os with Some m => np_run (np_step MAXNP) m r | None => None end).
  { induction os as [|o t IH]; intros np r; cbn [np_run app]; auto.
    destruct (np_step MAXNP np o); auto. }
  rewrite P in H. destruct (np_run (np_step MAXNP) 0 pre) as [m|] eqn:E1; try discriminate.
  rewrite P in H. destruct (np_run (np_step MAXNP) m zs) as [m2|] eqn:E2; try discriminate.
  rewrite !forallb_app in L. apply andb_true_iff in L. destruct L as [_ L]. apply andb_true_iff in L. destruct L as [L _].
  destruct (stalled_run MAXNP zs m m2 S L E2) as [A B].
  destruct zs; [unfold MAXNP, NO_FORWARD_PROGRESS_MAX; simpl; lia|].
  assert (m2 < MAXNP) by (apply B; congruence). lia.
Qed.

(* the limit is reached exactly at call number MAX: MAX stalled calls in a row end the session with an error *)
Theorem noprogress_error_at_max : forall zs,
  forallb stalled zs = true -> forallb legal zs = true -> N.of_nat (length zs) = MAXNP ->
  np_run watchdog 0 zs = None.
Proof.
  intros zs S L N. destruct (np_run watchdog 0 zs) as [k|] eqn:E; auto.
  destruct (stalled_run MAXNP zs 0 k S L E) as [A B].
  assert (zs <> []) by (destruct zs; [unfold MAXNP, NO_FORWARD_PROGRESS_MAX in N; simpl in N; lia|congruence]).
  specialize (B H). lia.
Qed.

(* the assert(0) branch is dead for legal observations *)
Theorem noprogress_assert_dead : forall np o k, legal o = true -> watchdog np o <> NpAssert k.
Proof.
  intros np o k L. unfold watchdog, np_step, legal in *.
  destruct (ob_progress o); try discriminate. destruct (MAXNP <=? np + 1); try discriminate.
  destruct (ob_dest_full o); try discriminate. destruct (ob_in_empty o); discriminate.
Qed.

(* without the limit test a caller can spin for ever: any number of stalled calls succeeds *)
Theorem noprogress_unbounded_without_check : forall n,
  np_run np_step_nocheck 0 (repeat {| ob_progress := false; ob_dest_full := false; ob_in_empty := true |} n) = Some (N.of_nat n).
Proof.
  assert (forall n np, np_run np_step_nocheck np (repeat {| ob_progress := false; ob_dest_full := false; ob_in_empty := true |} n)
                       = Some (np + N.of_nat n)).
  { induction n; intros np; cbn [repeat np_run np_step_nocheck ob_progress]; [f_equal; lia|]. rewrite IHn. f_equal. lia. }
  intros n. rewrite H. f_equal.
Qed.
