From Coq Require Import NArith List Bool Lia.
From ZV.Safety Require Import CtxPointers.
Import ListNotations.
Local Open Scope N_scope.

Definition pinv (s : cstates) : Prop := forall c p, s c = Some p -> all_private c p.

Lemma pinv_upd s c p : pinv s -> all_private c p -> pinv (upd s c p).
Proof.
  intros I P x q. unfold upd. destruct (N.eqb_spec x c); intros H.
  - inversion H; subst. exact P.
  - apply I. exact H.
Qed.

Lemma private_apply_mode c m p : private c p -> private c (apply_mode c m p).
Proof. destruct m; simpl; auto. Qed.

Lemma private_rebase src dst p : private src p -> private dst (rebase src dst p).
Proof. destruct p as [x| |d]; simpl; auto. intros ->. rewrite N.eqb_refl. reflexivity. Qed.

Lemma pinv_step s o : pinv s -> pinv (pstep true s o).
Proof.
  intros I. destruct o as [c | c d | c ll ml off huf | dst src]; simpl.
  - apply pinv_upd; simpl; auto.
  - apply pinv_upd; simpl; auto.
  - destruct (s c) as [[[[a b] e] h]|] eqn:E; [|exact I].
    destruct (I c _ E) as (A & B & F & H). apply pinv_upd; [exact I|].
    simpl. repeat split; apply private_apply_mode; assumption.
  - destruct (s src) as [[[[a b] e] h]|] eqn:E; [|exact I].
    destruct (I src _ E) as (A & B & F & H). apply pinv_upd; [exact I|].
    simpl. repeat split; apply private_rebase; assumption.
Qed.

(* For every history of begin / begin with a DDict / blocks in any table modes / copies between any contexts: with the repaired
   ZSTD_copyDCtx no context ever holds a table pointer into another context's struct. *)
Theorem ctx_pointers_private : forall os c p, prun true os c = Some p -> all_private c p.
Proof.
  intros os. unfold prun.
  assert (G : forall s, pinv s -> pinv (fold_left (pstep true) os s)).
  { induction os as [|o t IH]; intros s I; simpl; [exact I|]. apply IH. apply pinv_step. exact I. }
  apply G. intros c p H. discriminate.
Qed.

(* The code as written: prepare context 1, copy it to context 2 - all four pointers of context 2 point into context 1, and a block
   in repeat mode keeps them there. *)
Theorem ctx_pointers_copy_refuted :
  prun false [Begin 1; Copy 2 1; Block 2 Repeat Repeat Repeat Repeat] 2 = Some (Own 1, Own 1, Own 1, Own 1) /\
  ~ all_private 2 (Own 1, Own 1, Own 1, Own 1) /\
  prun true [Begin 1; Copy 2 1; Block 2 Repeat Repeat Repeat Repeat] 2 = Some (Own 2, Own 2, Own 2, Own 2).
Proof. repeat split. simpl. intros (H & _). discriminate. Qed.
