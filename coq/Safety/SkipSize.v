(* Model of the size arithmetic of skippable frames (readSkippableFrameSize, ZSTD_readSkippableFrame; lib/decompress/zstd_decompress.c) with the
   width of size_t as a parameter (round 3): the check only builds 64-bit libraries, the wrap test of readSkippableFrameSize matters on 32-bit ones.
     readSkippableFrameSize(src, srcSize):  srcSize < 8 -> error;  sizeU32 = LE32(src+4);  (U32)(sizeU32 + 8) < sizeU32 -> error;
                                            skippableSize = 8 + sizeU32 (size_t arithmetic);  skippableSize > srcSize -> error;  return skippableSize
     ZSTD_readSkippableFrame(dst, cap, .., src, srcSize):  srcSize < 8 -> error;  size = readSkippableFrameSize(); content = size - 8;
                                            size < 8 || size > srcSize -> error (an error code is a huge size_t);  content > cap -> error;
                                            memcpy(dst, src + 8, content);  return content
   [W] = number of bits of size_t; [check] = the wrap test present.  Model only - no proofs in this file. *)
From Coq Require Import NArith Bool.
Local Open Scope N_scope.

Inductive sres := SErr | SOk (n : N).
Definition wrapW (W x : N) : N := x mod 2 ^ W.
Definition SKIPHDR : N := 8.

Definition skip_size (W : N) (check : bool) (sizeU32 srcSize : N) : sres :=
  if srcSize <? SKIPHDR then SErr
  else if check && (wrapW 32 (sizeU32 + SKIPHDR) <? sizeU32) then SErr
  else let s := wrapW W (SKIPHDR + sizeU32) in
       if srcSize <? s then SErr else SOk s.

Definition read_skip (W : N) (check : bool) (sizeU32 srcSize cap : N) : sres :=
  if srcSize <? SKIPHDR then SErr
  else match skip_size W check sizeU32 srcSize with
       | SErr => SErr
       | SOk s => if (s <? SKIPHDR) || (srcSize <? s) then SErr
                  else let c := wrapW W (s + 2 ^ W - SKIPHDR) in if cap <? c then SErr else SOk c
       end.
