(* Model of the history bookkeeping of the block-level / buffer-less decoding API (round 2):
   ZSTD_checkContinuity (lib/decompress/zstd_decompress_block.c), ZSTD_insertBlock, ZSTD_refDictContent
   (lib/decompress/zstd_decompress.c) and the assignment of previousDstEnd after ZSTD_decompressBlock /
   ZSTD_decompressContinue.  Pointers are integers (NULL = 0).  A context remembers two segments of history:
   the prefix [prefixStart, previousDstEnd) that ends where the next block is expected, and the "external
   dictionary" [dictEnd - (prefixStart - virtualStart), dictEnd).  The sequence executor accepts an offset o at
   output position p iff o <= p - virtualStart, and then reads p - o when o <= p - prefixStart, else
   dictEnd - (o - (p - prefixStart)): with the block's own output [dst, p) these two segments are everything an
   accepted offset can reach ([reach] below).
   [step] is the code before fixes 912a990 / 0215019; [step_fixed] the code now (an empty operation at an address that
   ZSTD_checkContinuity did not look at does not move previousDstEnd).  Model only - no proofs in this file. *)
From Coq Require Import ZArith List Bool.
Import ListNotations.
Local Open Scope Z_scope.

Record cstate := {
  c_prev : Z;       (* previousDstEnd *)
  c_prefix : Z;     (* prefixStart *)
  c_virt : Z;       (* virtualStart *)
  c_dictEnd : Z }.  (* dictEnd *)

(* ZSTD_decompressBegin: all four NULL *)
Definition c_init : cstate := {| c_prev := 0; c_prefix := 0; c_virt := 0; c_dictEnd := 0 |}.

Definition set_prev (s : cstate) (p : Z) : cstate :=
  {| c_prev := p; c_prefix := c_prefix s; c_virt := c_virt s; c_dictEnd := c_dictEnd s |}.

(* the body of ZSTD_checkContinuity / ZSTD_refDictContent: start a new segment at [dst] *)
Definition new_segment (s : cstate) (dst : Z) : cstate :=
  {| c_prev := dst; c_prefix := dst; c_virt := dst - (c_prev s - c_prefix s); c_dictEnd := c_prev s |}.

(* ZSTD_checkContinuity: if (dst != previousDstEnd && dstSize > 0) *)
Definition check_cont (s : cstate) (dst size : Z) : cstate :=
  if andb (negb (dst =? c_prev s)) (0 <? size) then new_segment s dst else s.

Inductive cop :=
| Insert (addr n : Z)            (* ZSTD_insertBlock(dctx, addr, n): the caller stored n bytes at addr *)
| Decode (addr cap r : Z)        (* ZSTD_decompressBlock(dctx, addr, cap, ..) regenerated r <= cap bytes at addr *)
| DecodeErr (addr cap : Z)       (* the same call returning an error (previousDstEnd is not assigned) *)
| RefDict (addr n : Z).          (* ZSTD_refDictContent: unconditional new segment + previousDstEnd = addr + n *)

(* the code before fixes 912a990 / 0215019 *)
Definition step (s : cstate) (o : cop) : cstate :=
  match o with
  | Insert a n => set_prev (check_cont s a n) (a + n)
  | Decode a cap r => set_prev (check_cont s a cap) (a + r)
  | DecodeErr a cap => check_cont s a cap
  | RefDict a n => set_prev (new_segment s a) (a + n)
  end.

(* the code now: nothing is recorded for an empty operation *)
Definition step_fixed (s : cstate) (o : cop) : cstate :=
  match o with
  | Insert a n => if n =? 0 then s else set_prev (check_cont s a n) (a + n)
  | Decode a cap r => if 0 <? cap then set_prev (check_cont s a cap) (a + r) else s
  | DecodeErr a cap => check_cont s a cap
  | RefDict a n => set_prev (new_segment s a) (a + n)
  end.

Definition run (st : cstate -> cop -> cstate) (s : cstate) (os : list cop) : cstate := fold_left st os s.
Fixpoint trace (st : cstate -> cop -> cstate) (s : cstate) (os : list cop) : list cstate :=
  match os with [] => [] | o :: t => let s' := st s o in s' :: trace st s' t end.

(* the bytes the caller / the decoder put into the history *)
Definition written_by (o : cop) : list (Z * Z) :=
  match o with
  | Insert a n => [(a, n)] | Decode a _ r => [(a, r)] | DecodeErr _ _ => [] | RefDict a n => [(a, n)]
  end.
Definition written (os : list cop) : list (Z * Z) := flat_map written_by os.
Definition covered (w : list (Z * Z)) (x : Z) : Prop := exists a n, In (a, n) w /\ a <= x < a + n.

(* what an accepted offset of the next block (decoded at [c_prev s], after check_cont) can reach besides the
   block's own output *)
Definition reach (s : cstate) (x : Z) : Prop :=
  (c_prefix s <= x < c_prev s) \/ (c_dictEnd s - (c_prefix s - c_virt s) <= x < c_dictEnd s).

Definition wf_op (o : cop) : Prop :=
  match o with
  | Insert a n => 0 < a /\ 0 <= n
  | Decode a cap r => 0 < a /\ 0 <= r <= cap
  | DecodeErr a cap => 0 < a /\ 0 <= cap
  | RefDict a n => 0 < a /\ 0 <= n
  end.
Definition nonempty_op (o : cop) : Prop :=
  match o with Insert _ n => 0 < n | Decode _ cap _ => 0 < cap | _ => True end.
