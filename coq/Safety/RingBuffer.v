(* Model of the streaming decoder's output ring buffer (lib/decompress/zstd_decompress.c):
   ZSTD_decodingBufferSize_internal, the "decode one block at outBuff + outStart with capacity outBuffSize - outStart"
   step of ZSTD_decompressContinueStream, and the restart rule of zdss_flush
     if (outBuffSize < frameContentSize && outStart + blockSizeMax > outBuffSize) outStart = outEnd = 0.
   Positions only (what lies where), no bytes.  Model only - no proofs in this file. *)
From Coq Require Import ZArith NArith Bool List.
From ZV.Gen Require Import Gen_Tables.
Import ListNotations.
Local Open Scope Z_scope.

Definition RWILDCOPY : Z := Z.of_N c_WILDCOPY_OVERLENGTH.
Definition RBLOCKSIZE_MAX : Z := Z.of_N c_ZSTD_BLOCKSIZE_MAX.

(* ZSTD_decodingBufferSize_internal(windowSize, frameContentSize, blockSizeMax); frameContentSize = 2^64-1 when unknown *)
Definition block_size (W Bmax : Z) : Z := Z.min (Z.min W RBLOCKSIZE_MAX) Bmax.
Definition needed_rb (W Bmax : Z) : Z := W + 2 * block_size W Bmax + 2 * RWILDCOPY.
Definition buf_size (W fcs Bmax : Z) : Z := Z.min fcs (needed_rb W Bmax).

Record ring := {
  r_start : Z;           (* outStart (= outEnd once the flush is complete) *)
  r_old : option Z;      (* where the previous segment ended when the buffer was restarted; None = never restarted *)
  r_total : Z }.         (* bytes regenerated so far in this frame *)

Definition ring0 : ring := {| r_start := 0; r_old := None; r_total := 0 |}.

(* one block regenerating r bytes (B = fParams.blockSizeMax), flushed completely *)
Definition ring_step (size fcs B : Z) (s : ring) (r : Z) : option ring :=
  if size - r_start s <? r then None                 (* ZSTD_decompressContinue: the block does not fit its dstCapacity *)
  else if B <? r then None                           (* "Decompressed Block Size Exceeds Maximum" *)
  else if r =? 0 then Some s                         (* nothing to flush: zdss_flush is not entered *)
  else let e := r_start s + r in
       if andb (size <? fcs) (size <? e + B)
       then Some {| r_start := 0; r_old := Some e; r_total := r_total s + r |}
       else Some {| r_start := e; r_old := r_old s; r_total := r_total s + r |}.

Fixpoint ring_run (size fcs B : Z) (s : ring) (rs : list Z) : option ring :=
  match rs with
  | [] => Some s
  | r :: t => match ring_step size fcs B s r with
              | Some s' => ring_run size fcs B s' t
              | None => None
              end
  end.

(* outStart after every block (for the tie) ; stops at the first refused block *)
Fixpoint ring_trace (size fcs B : Z) (s : ring) (rs : list Z) : list Z :=
  match rs with
  | [] => []
  | r :: t => match ring_step size fcs B s r with
              | Some s' => r_start s' :: ring_trace size fcs B s' t
              | None => [-1]
              end
  end.
