(* C03: the literal buffer chosen by ZSTD_decodeLiteralsBlock / ZSTD_allocateLiteralsBuffer (model: LitBuffer.v)
   lies inside the region it points into, with the wildcopy over-read margin, never overlaps what the block's output
   can touch, and in split mode stays ahead of the output for every block that respects its size bound. *)
From Coq Require Import ZArith NArith Bool List Lia.
From ZV.Gen Require Import Gen_Tables.
From ZV.Safety Require Import LitBuffer.
Import ListNotations.
Local Open Scope Z_scope.

(* the two regenerated constants: what the proofs need from them *)
Lemma consts_ok : 0 < WILDCOPY /\ 2 * WILDCOPY <= EXTRA /\ WILDCOPY = 32 /\ EXTRA = 65536.
Proof. unfold WILDCOPY, EXTRA. cbv. repeat split; congruence. Qed.

(* what "safe" means for the buffer the sequence decoder will read literals from *)
Definition placement_safe (blockSizeMax dstCapacity srcSize litSize : Z) (lb : litbuf) : Prop :=
  match lb_region lb, lb_loc lb with
  | RDst, InDst =>       (* after everything the block can write (blockSizeMax + wildcopy overrun), inside dst with over-read room *)
      blockSizeMax + WILDCOPY <= lb_start lb /\ lb_end lb = lb_start lb + litSize /\ lb_end lb + WILDCOPY <= dstCapacity
  | RDst, Split =>       (* the first litSize - EXTRA literals at the end of the block's own output space *)
      EXTRA < litSize /\ 0 <= lb_start lb /\ lb_end lb = lb_start lb + (litSize - EXTRA) /\
      lb_end lb + WILDCOPY = Z.min blockSizeMax dstCapacity
  | RExtra, NotInDst =>  (* litExtraBuffer has EXTRA + WILDCOPY bytes *)
      lb_start lb = 0 /\ lb_end lb = litSize /\ litSize <= EXTRA
  | RSrc, NotInDst =>    (* direct reference: wildcopy may over-read WILDCOPY bytes, still inside the block *)
      0 <= lb_start lb /\ lb_end lb = lb_start lb + litSize /\ lb_end lb + WILDCOPY <= srcSize
  | _, _ => False
  end.

Ltac zb := repeat match goal with
  | H : context [?a <? ?b] |- _ => destruct (Z.ltb_spec a b)
  | |- context [?a <? ?b] => destruct (Z.ltb_spec a b)
  | H : context [?a <=? ?b] |- _ => destruct (Z.leb_spec a b)
  | |- context [?a <=? ?b] => destruct (Z.leb_spec a b)
  end.

(* sufficiency of the checks as implemented *)
Theorem place_safe : forall kind blockSizeMax dstCapacity srcSize lhSize litSize litCSize streaming lb consumed,
  0 <= litSize -> 0 <= lhSize -> 0 <= dstCapacity -> 0 <= blockSizeMax ->
  place kind blockSizeMax dstCapacity srcSize lhSize litSize litCSize streaming = LOk lb consumed ->
  placement_safe blockSizeMax dstCapacity srcSize litSize lb.
Proof.
  intros kind B cap src lh n cs streaming lb consumed Hn Hlh Hcap HB H.
  destruct consts_ok as (W0 & WE & W32 & E64).
  unfold place, place_gen in H. cbn [andb] in H.
  destruct (B <? n) eqn:C1; [discriminate|]. apply Z.ltb_ge in C1.
  assert (ALLOC : forall si : bool, n <= Z.min B cap ->
            placement_safe B cap src n (if si then allocate B cap n streaming (Z.min B cap) true
                                        else shift_split (allocate B cap n streaming (Z.min B cap) false))).
  { intros si C2. unfold allocate, shift_split, placement_safe.
    destruct streaming; cbn [negb andb];
      destruct si; zb; cbn [lb_loc lb_region lb_start lb_end]; lia. }
  destruct kind as [| |single].
  - destruct (Z.min B cap <? n) eqn:C2; [discriminate|]. apply Z.ltb_ge in C2.
    destruct (src <? lh + n + WILDCOPY) eqn:C3.
    + destruct (src <? n + lh); [discriminate|]. inversion H; subst. apply (ALLOC true C2).
    + inversion H; subst. apply Z.ltb_ge in C3. unfold placement_safe; cbn [lb_loc lb_region lb_start lb_end]. lia.
  - destruct (Z.min B cap <? n) eqn:C2; [discriminate|]. apply Z.ltb_ge in C2. inversion H; subst. apply (ALLOC true C2).
  - destruct (negb single && (n <? MIN4))%bool; [discriminate|].
    destruct (src <? cs + lh); [discriminate|].
    destruct (Z.min B cap <? n) eqn:C2; [discriminate|]. apply Z.ltb_ge in C2. inversion H; subst. apply (ALLOC false C2).
Qed.

(* where the Huffman decoder writes (before the split shift): litSize bytes inside the region *)
Theorem huf_target_inside : forall blockSizeMax dstCapacity litSize streaming,
  0 <= litSize -> litSize <= Z.min blockSizeMax dstCapacity ->
  let lb := allocate blockSizeMax dstCapacity litSize streaming (Z.min blockSizeMax dstCapacity) false in
  0 <= lb_start lb /\ lb_end lb = lb_start lb + litSize /\
  match lb_region lb with RDst => lb_end lb <= dstCapacity | RExtra => lb_end lb <= EXTRA | RSrc => False end.
Proof.
  intros B cap n streaming Hn Hle. destruct consts_ok as (W0 & WE & W32 & E64).
  unfold allocate. destruct streaming; cbn [negb andb]; zb; cbn [lb_loc lb_region lb_start lb_end]; lia.
Qed.

(* the memmove / memcpy of the split shift stay inside what the Huffman decoder wrote *)
Theorem split_shift_inside : forall lb litSize,
  lb_loc lb = Split -> EXTRA < litSize -> lb_end lb = lb_start lb + litSize ->
  let lb' := shift_split lb in
  lb_start lb <= lb_start lb' /\ lb_end lb' = lb_start lb' + (litSize - EXTRA) /\ lb_end lb' <= lb_end lb /\
  lb_start lb <= lb_end lb - EXTRA.
Proof.
  intros lb n L E HE. destruct consts_ok as (W0 & WE & W32 & E64).
  unfold shift_split. rewrite L. cbn [lb_start lb_end]. lia.
Qed.

(* necessity of "expectedWriteSize < litSize": without it a 128 KiB RLE literals section and a 1000-byte
   destination put the literal buffer 64568 bytes BEFORE dst *)
Theorem ews_check_necessary :
  place_gen false KRle 131072 1000 4 3 131072 0 false =
    LOk {| lb_loc := Split; lb_region := RDst; lb_start := -64568; lb_end := 968 |} 4 /\
  place KRle 131072 1000 4 3 131072 0 false = LErr EDstTooSmall.
Proof. split; reflexivity. Qed.

(* ---- split mode: the output never catches up with literals that have not been consumed yet ----
   [pre] are the sequences executed so far, [post] the remaining ones of the block (any split between the phase that
   reads literals from dst and the phase that reads them from litExtraBuffer).  If the block respects its bound
   (regenerated size <= expectedWriteSize: what R checks as blockMax and the C code as oend), then before each
   sequence the output position plus the wildcopy overrun is at or below the next unread literal, with
   EXTRA - 2*WILDCOPY bytes to spare. *)
Lemma seq_out_app a b : seq_out (a ++ b) = seq_out a + seq_out b.
Proof. induction a as [|s a IH]; cbn [app seq_out fold_right]; [reflexivity|]. fold (seq_out (a ++ b)). fold (seq_out a). lia. Qed.
Lemma seq_lit_app a b : seq_lit (a ++ b) = seq_lit a + seq_lit b.
Proof. induction a as [|s a IH]; cbn [app seq_lit fold_right]; [reflexivity|]. fold (seq_lit (a ++ b)). fold (seq_lit a). lia. Qed.
Lemma seq_out_ge_lit l : Forall (fun s => 0 <= fst s /\ 0 <= snd s) l -> seq_lit l <= seq_out l /\ 0 <= seq_lit l.
Proof.
  induction 1 as [|s l [A B] F IH]; cbn [seq_out seq_lit fold_right]; [lia|].
  fold (seq_out l). fold (seq_lit l). lia.
Qed.

Theorem split_output_behind_literals : forall pre post ews litSize,
  Forall (fun s => 0 <= fst s /\ 0 <= snd s) (pre ++ post) ->
  EXTRA < litSize -> seq_lit (pre ++ post) <= litSize ->
  seq_out (pre ++ post) + (litSize - seq_lit (pre ++ post)) <= ews ->        (* regenerated size of the block <= bound *)
  let litStart := ews - litSize + EXTRA - WILDCOPY in                        (* lb_start of the split placement *)
  let op := seq_out pre in                                                   (* output position before the next sequence *)
  let litPtr := litStart + seq_lit pre in                                    (* next unread literal (while still in dst) *)
  op + WILDCOPY + (EXTRA - 2 * WILDCOPY) <= litPtr /\
  match post with
  | [] => True
  | (ll, ml) :: _ => op + ll + ml + WILDCOPY <= litPtr + ll                  (* the whole write of the next sequence, overrun included, ends before the literals it has not read *)
  end.
Proof.
  intros pre post ews n F E L T. destruct consts_ok as (W0 & WE & W32 & E64).
  rewrite seq_out_app, seq_lit_app in *. apply Forall_app in F. destruct F as [F1 F2].
  destruct (seq_out_ge_lit _ F1) as [P1 P2]. destruct (seq_out_ge_lit _ F2) as [Q1 Q2].
  cbv zeta. split; [lia|].
  destruct post as [|[ll ml] post]; [exact I|].
  cbn [seq_out seq_lit fold_right fst snd] in *. fold (seq_out post) in *. fold (seq_lit post) in *.
  inversion F2 as [|s l [A B] F3]; subst. cbn [fst snd] in *.
  destruct (seq_out_ge_lit _ F3) as [R1 R2]. lia.
Qed.

Example split_example :   (* hypotheses are satisfiable: 100000 literals, three sequences, block of 131072 *)
  let pre := [(40000, 10000)] in let post := [(30000, 1000); (20000, 72)] in
  Forall (fun s => 0 <= fst s /\ 0 <= snd s) (pre ++ post) /\ EXTRA < 100000 /\ seq_lit (pre ++ post) <= 100000 /\
  seq_out (pre ++ post) + (100000 - seq_lit (pre ++ post)) <= 131072.
Proof. cbv. repeat split; try congruence; repeat constructor; cbv; congruence. Qed.

(* "litSize > blockSizeMax" is subsumed, as far as the placement is concerned, by "expectedWriteSize < litSize":
   every input the first check refuses would be refused by the second one (with another error code).  So dropping
   the first check alone changes an error code, not memory safety; dropping the second one is [ews_check_necessary]. *)
Theorem lit_blockmax_check_subsumed : forall blockSizeMax dstCapacity litSize,
  blockSizeMax < litSize -> Z.min blockSizeMax dstCapacity < litSize.
Proof. intros. lia. Qed.
