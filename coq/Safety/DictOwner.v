(* Model of the dictionary fields of a decoding context (ZSTD_DCtx_s: ddictLocal, ddict, dictUses; lib/decompress/zstd_decompress.c)
   over histories of the calls that assign, use and release them (round 3).
     ddictLocal : a DDict the context OWNS (created by ZSTD_DCtx_loadDictionary* / ZSTD_DCtx_refPrefix*, released by ZSTD_clearDict)
     ddict      : the current dictionary, a NON-owning pointer: NULL, the context's ddictLocal, or a DDict of the caller (ZSTD_DCtx_refDDict)
     dictUses   : ZSTD_dont_use / ZSTD_use_once / ZSTD_use_indefinitely
   A DDict created by a context is named by its allocation number [h] (never reused); the heap is the list of the numbers released so far.
   The caller's own DDicts ([DExt d]) are the caller's responsibility and are never released in the model.
     ZSTD_createDCtx                          all three fields empty
     ZSTD_clearDict                           release ddictLocal, ddict = NULL, dictUses = dont_use
     ZSTD_DCtx_loadDictionary (non-empty)     clearDict; ddictLocal = new DDict; ddict = ddictLocal; use_indefinitely
     ZSTD_DCtx_refPrefix      (non-empty)     the same, use_once
     ZSTD_DCtx_refDDict(d)                    clearDict; ddict = d; use_indefinitely
     ZSTD_DCtx_loadDictionary(NULL,0), ZSTD_DCtx_reset(parameters), ...        clearDict
     ZSTD_getDDict (start of every frame of ZSTD_decompressDCtx / ZSTD_decompressStream): dont_use -> clearDict, no dictionary;
                                              use_indefinitely -> ddict; use_once -> ddict, then dont_use.  The frame DEREFERENCES what it returns.
     ZSTD_freeDCtx                            clearDict, the context is gone
     ZSTD_copyDCtx(dst, src)                  memcpy of the head of the struct, ddictLocal of dst restored (fix 15cfcd6):
                                              [dstep false]: ddict and dictUses are copied verbatim (the code as written);
                                              [dstep true] : a current dictionary that the SOURCE OWNS is not inherited (ddict = NULL, dont_use)
   [dstep] returns the new state and what the operation dereferenced.  Model only - no proofs in this file. *)
From Coq Require Import NArith List Bool.
Import ListNotations.
Local Open Scope N_scope.

Inductive dref := DNull | DLocal (h : N) | DExt (d : N).
Inductive uses := DontUse | UseOnce | UseIndef.
Record dfields := { d_local : option N; d_cur : dref; d_uses : uses }.
Record dstate := { d_ctx : N -> option dfields;     (* None = no such context (never created, or freed) *)
                   d_freed : list N;                (* DDicts released so far *)
                   d_next : N }.                    (* next allocation number *)

Definition dupd (m : N -> option dfields) (c : N) (v : option dfields) : N -> option dfields := fun x => if x =? c then v else m x.
Definition d_empty : dfields := {| d_local := None; d_cur := DNull; d_uses := DontUse |}.
Definition d_init : dstate := {| d_ctx := fun _ => None; d_freed := []; d_next := 0 |}.

Definition release (l : option N) (fr : list N) : list N := match l with Some h => h :: fr | None => fr end.

Inductive dop :=
| DCreate (c : N) | DLoad (c : N) | DPrefix (c : N) | DRef (c d : N) | DClear (c : N) | DUse (c : N) | DFree (c : N) | DCopy (dst src : N).

(* new state, what was dereferenced (DNull = nothing) *)
Definition dstep (fixed : bool) (s : dstate) (o : dop) : dstate * dref :=
  let ctx := d_ctx s in
  match o with
  | DCreate c =>
      match ctx c with
      | None => ({| d_ctx := dupd ctx c (Some d_empty); d_freed := d_freed s; d_next := d_next s |}, DNull)
      | Some _ => (s, DNull)          (* the number is taken : no operation *)
      end
  | DLoad c | DPrefix c =>
      match ctx c with
      | Some f =>
          let h := d_next s in
          ({| d_ctx := dupd ctx c (Some {| d_local := Some h; d_cur := DLocal h;
                                          d_uses := match o with DPrefix _ => UseOnce | _ => UseIndef end |});
              d_freed := release (d_local f) (d_freed s); d_next := h + 1 |}, DNull)
      | None => (s, DNull)
      end
  | DRef c d =>
      match ctx c with
      | Some f => ({| d_ctx := dupd ctx c (Some {| d_local := None; d_cur := DExt d; d_uses := UseIndef |});
                      d_freed := release (d_local f) (d_freed s); d_next := d_next s |}, DNull)
      | None => (s, DNull)
      end
  | DClear c =>
      match ctx c with
      | Some f => ({| d_ctx := dupd ctx c (Some d_empty); d_freed := release (d_local f) (d_freed s); d_next := d_next s |}, DNull)
      | None => (s, DNull)
      end
  | DUse c =>
      match ctx c with
      | Some f =>
          match d_uses f with
          | DontUse => ({| d_ctx := dupd ctx c (Some d_empty); d_freed := release (d_local f) (d_freed s); d_next := d_next s |}, DNull)
          | UseIndef => (s, d_cur f)
          | UseOnce => ({| d_ctx := dupd ctx c (Some {| d_local := d_local f; d_cur := d_cur f; d_uses := DontUse |});
                           d_freed := d_freed s; d_next := d_next s |}, d_cur f)
          end
      | None => (s, DNull)
      end
  | DFree c =>
      match ctx c with
      | Some f => ({| d_ctx := dupd ctx c None; d_freed := release (d_local f) (d_freed s); d_next := d_next s |}, DNull)
      | None => (s, DNull)
      end
  | DCopy dst src =>
      match ctx dst, ctx src with
      | Some fd, Some fs =>
          if dst =? src then (s, DNull) else
          let owned := match d_cur fs, d_local fs with DLocal h, Some l => h =? l | _, _ => false end in
          let nf := if fixed && owned then {| d_local := d_local fd; d_cur := DNull; d_uses := DontUse |}
                    else {| d_local := d_local fd; d_cur := d_cur fs; d_uses := d_uses fs |} in
          ({| d_ctx := dupd ctx dst (Some nf); d_freed := d_freed s; d_next := d_next s |}, DNull)
      | _, _ => (s, DNull)
      end
  end.

(* a dereference is safe unless it designates a DDict that was released *)
Definition deref_ok (fr : list N) (r : dref) : bool :=
  match r with DLocal h => negb (existsb (N.eqb h) fr) | _ => true end.

(* run a history; false as soon as a frame dereferences a released DDict *)
Fixpoint drun_ok (fixed : bool) (s : dstate) (os : list dop) : bool :=
  match os with
  | [] => true
  | o :: t => let (s1, r) := dstep fixed s o in deref_ok (d_freed s) r && drun_ok fixed s1 t
  end.

(* the trace the harness is compared with: after every operation, the fields of the contexts 1..3 and what was dereferenced *)
Fixpoint dtrace (fixed : bool) (s : dstate) (os : list dop) : list (dstate * dref * bool) :=
  match os with
  | [] => []
  | o :: t => let (s1, r) := dstep fixed s o in (s1, r, deref_ok (d_freed s) r) :: dtrace fixed s1 t
  end.
