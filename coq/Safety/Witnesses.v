(* C03 necessity witnesses: for every stream-derived bound check of the reference decoder R a concrete byte
   string on which R stops AT THAT CHECK (evaluated by vm_compute).  The same byte strings are the seed corpus of the
   C side (harness/c03_fuzz.c): exported through Extract_C03.v as [witness_table].
   Frames use a 1 KiB window (blockMax = 1024), raw literals "abcd" and RLE-mode sequence tables unless the
   witness is about those fields, so that every field can be read off the bytes.
   The second part shows on the model what the two central copy checks protect: without them the history copy
   delivers fewer bytes than it accounts for (an out-of-bounds read in an array implementation) or a block
   regenerates more than blockMax. *)
From Coq Require Import NArith ZArith List Bool Lia.
From Coq Require Import String.
From ZV.Codec Require Import Bytes XXH64 Fse Huf Block Frame.
From ZV.Safety Require Import ROutput.
Import ListNotations.
Local Open Scope N_scope.

(* offset 12 with 4 bytes of history: ZSTD_execSequence(End) "offset > oLitEnd - virtualStart" *)
Definition w_offset_gt_history : bytes := [40; 181; 47; 253; 0; 0; 93; 0; 0; 32; 97; 98; 99; 100; 1; 84; 4; 3; 0; 15].
(* literal length 5 with 4 literals: "sequence.litLength > litLimit - *litPtr" *)
Definition w_litlen_gt_literals : bytes := [40; 181; 47; 253; 0; 0; 93; 0; 0; 32; 97; 98; 99; 100; 1; 84; 5; 2; 0; 4].
(* 4 literals + match 1027 in a 1 KiB-window frame: block would regenerate more than blockSizeMax *)
Definition w_match_exceeds_blockmax : bytes := [40; 181; 47; 253; 0; 0; 101; 0; 0; 32; 97; 98; 99; 100; 1; 84; 4; 2; 46; 0; 16].
(* 1 + 30 + 999 trailing literals > 1 KiB block maximum *)
Definition w_lits_plus_matches_gt_blockmax : bytes := [40; 181; 47; 253; 0; 0; 133; 31; 0; 132; 62] ++ repeatN 97 1000 [] ++ [1; 84; 1; 2; 27; 4].
(* raw literals size 2000 > blockSizeMax 1024: "litSize > blockSizeMax" *)
Definition w_rawlit_size_gt_blockmax : bytes := [40; 181; 47; 253; 0; 0; 53; 0; 0; 12; 125; 0; 120; 120; 0].
(* RLE literals size 2000 > blockSizeMax *)
Definition w_rlelit_size_gt_blockmax : bytes := [40; 181; 47; 253; 0; 0; 37; 0; 0; 5; 125; 65; 0].
(* RLE literals size 200000 > 128 KiB in a 128 KiB-window frame (with a capacity between 128 KiB and 331 KiB the split literal buffer would start before dst) *)
Definition w_rlelit_size_gt_blockmax_128k : bytes := [40; 181; 47; 253; 0; 56; 45; 0; 0; 13; 212; 48; 65; 0].
(* raw literals size 20 with 2 bytes left in the block: "litSize + lhSize > srcSize" *)
Definition w_rawlit_size_gt_src : bytes := [40; 181; 47; 253; 0; 0; 29; 0; 0; 160; 120; 120].
(* compressed literals regenerated size 2000 > blockSizeMax *)
Definition w_lit_regen_gt_blockmax : bytes := [40; 181; 47; 253; 0; 0; 85; 0; 0; 14; 125; 0; 1; 0; 128; 16; 1; 1; 0].
(* compressed literals size 200 > bytes left in block: "litCSize + lhSize > srcSize" *)
Definition w_lit_csize_gt_src : bytes := [40; 181; 47; 253; 0; 0; 61; 0; 0; 130; 0; 50; 128; 16; 1; 1].
(* 4-stream jump table: first stream size 100 > 4 bytes available *)
Definition w_huf4_jump_l1_gt_src : bytes := [40; 181; 47; 253; 0; 0; 133; 0; 0; 134; 0; 3; 128; 16; 100; 0; 1; 0; 1; 0; 1; 1; 1; 1; 0].
(* 4-stream jump table: sizes 2+2+2 > 4 bytes available: "length4 > cSrcSize" *)
Definition w_huf4_jump_sum_gt_src : bytes := [40; 181; 47; 253; 0; 0; 133; 0; 0; 134; 0; 3; 128; 16; 2; 0; 2; 0; 2; 0; 1; 1; 1; 1; 0].
(* 4 streams for 5 literals (< MIN_LITERALS_FOR_4_STREAMS) *)
Definition w_huf4_regen_lt_6 : bytes := [40; 181; 47; 253; 0; 0; 133; 0; 0; 86; 0; 3; 128; 16; 1; 0; 1; 0; 1; 0; 1; 1; 1; 1; 0].
(* Huffman weight 12 > table log limit *)
Definition w_huf_weight_gt_max : bytes := [40; 181; 47; 253; 0; 0; 69; 0; 0; 130; 0; 1; 128; 192; 1; 1; 0].
(* Huffman weights sum to 0 *)
Definition w_huf_weights_all_zero : bytes := [40; 181; 47; 253; 0; 0; 69; 0; 0; 130; 0; 1; 128; 0; 1; 1; 0].
(* Huffman weights 1,3: sum 5, rest 3 is not a power of two *)
Definition w_huf_weight_sum_not_pow2 : bytes := [40; 181; 47; 253; 0; 0; 69; 0; 0; 130; 0; 1; 129; 19; 1; 1; 0].
(* Huffman weights 2,2: no symbol of weight 1 *)
Definition w_huf_odd_weight1_count : bytes := [40; 181; 47; 253; 0; 0; 69; 0; 0; 130; 0; 1; 128; 32; 1; 1; 0].
(* treeless literals without a previous Huffman table *)
Definition w_treeless_without_table : bytes := [40; 181; 47; 253; 0; 0; 53; 0; 0; 131; 128; 0; 1; 1; 0].
(* RLE literal-length code 36 > MaxLL: "(*(const BYTE*)src) > max" *)
Definition w_rle_ll_symbol_gt_max : bytes := [40; 181; 47; 253; 0; 0; 93; 0; 0; 32; 97; 98; 99; 100; 1; 84; 36; 2; 0; 4].
(* RLE offset code 32 > MaxOff *)
Definition w_rle_of_symbol_gt_max : bytes := [40; 181; 47; 253; 0; 0; 93; 0; 0; 32; 97; 98; 99; 100; 1; 84; 4; 32; 0; 4].
(* RLE match-length code 53 > MaxML *)
Definition w_rle_ml_symbol_gt_max : bytes := [40; 181; 47; 253; 0; 0; 93; 0; 0; 32; 97; 98; 99; 100; 1; 84; 4; 2; 53; 4].
(* repeat-offset 1 minus 1 = 0 *)
Definition w_repcode_offset_zero : bytes := [40; 181; 47; 253; 0; 0; 93; 0; 0; 32; 97; 98; 99; 100; 1; 84; 0; 1; 0; 3].
(* LL table description with accuracy log 10 > LLFSELog 9: "tableLog > maxLog" *)
Definition w_ncount_log_gt_max : bytes := [40; 181; 47; 253; 0; 0; 101; 0; 0; 32; 97; 98; 99; 100; 1; 148; 5; 0; 2; 0; 4].
(* complete LL table description (989,1 x35) with accuracy log 10 > LLFSELog 9, initial state 928: without "tableLog > maxLog" the 1024-cell table overruns the 512-cell LLTable inside the DCtx and the frame decodes *)
Definition w_ncount_log_gt_max_full : bytes := [40; 181; 47; 253; 0; 0; 245; 0; 0; 32; 97; 98; 99; 100; 1; 148; 229; 189; 16; 66; 8; 33; 132; 136; 136; 136; 136; 136; 136; 136; 136; 36; 73; 146; 14; 2; 0; 128; 30].
(* NCount: probabilities remain after symbol 35 *)
Definition w_ncount_symbols_exhausted : bytes := [40; 181; 47; 253; 0; 0; 93; 0; 0; 32; 97; 98; 99; 100; 1; 148; 227; 2; 0; 4].
(* NCount: zero-run repeat flags push the symbol counter past MaxLL: "charnum > maxSV1" *)
Definition w_ncount_zero_run_past_alphabet : bytes := [40; 181; 47; 253; 0; 0; 125; 0; 0; 32; 97; 98; 99; 100; 1; 148; 16; 254; 255; 255; 1; 2; 0; 4].
(* NCount reads past its input *)
Definition w_ncount_truncated : bytes := [40; 181; 47; 253; 0; 0; 93; 0; 0; 32; 97; 98; 99; 100; 1; 148; 97; 2; 0; 4].
(* reserved bits of the symbol-compression-modes byte *)
Definition w_seq_modes_reserved : bytes := [40; 181; 47; 253; 0; 0; 93; 0; 0; 32; 97; 98; 99; 100; 1; 85; 4; 2; 0; 4].
(* sequence bitstream without end marker *)
Definition w_seq_bitstream_zero_last_byte : bytes := [40; 181; 47; 253; 0; 0; 93; 0; 0; 32; 97; 98; 99; 100; 1; 84; 4; 2; 0; 0].
(* no Number_of_Sequences byte *)
Definition w_nbseq_missing : bytes := [40; 181; 47; 253; 0; 0; 45; 0; 0; 32; 97; 98; 99; 100].
(* 2-byte Number_of_Sequences form truncated *)
Definition w_nbseq_2byte_trunc : bytes := [40; 181; 47; 253; 0; 0; 53; 0; 0; 32; 97; 98; 99; 100; 128].
(* 3-byte Number_of_Sequences form truncated *)
Definition w_nbseq_3byte_trunc : bytes := [40; 181; 47; 253; 0; 0; 61; 0; 0; 32; 97; 98; 99; 100; 255; 1].
(* 0 sequences but bytes remain *)
Definition w_nbseq0_trailing : bytes := [40; 181; 47; 253; 0; 0; 61; 0; 0; 32; 97; 98; 99; 100; 0; 0].
(* raw block of 1025 bytes in a 1 KiB-window frame *)
Definition w_raw_block_gt_blockmax : bytes := [40; 181; 47; 253; 0; 0; 9; 32; 0] ++ repeatN 97 1025 [].
(* RLE block of 1025 bytes in a 1 KiB-window frame *)
Definition w_rle_block_gt_blockmax : bytes := [40; 181; 47; 253; 0; 0; 11; 32; 0; 97].
(* compressed block of 1025 bytes in a 1 KiB-window frame *)
Definition w_cblock_gt_blockmax : bytes := [40; 181; 47; 253; 0; 0; 13; 32; 0] ++ repeatN 97 1025 [].
(* reserved block type *)
Definition w_block_type_reserved : bytes := [40; 181; 47; 253; 0; 0; 7; 0; 0].
(* window log 32 > ZSTD_WINDOWLOG_MAX *)
Definition w_windowlog_gt_max : bytes := [40; 181; 47; 253; 0; 176; 1; 0; 0].
(* reserved bit of the frame header descriptor *)
Definition w_fhd_reserved_bit : bytes := [40; 181; 47; 253; 8; 0; 1; 0; 0].
(* skippable frame of 16 bytes with 3 present *)
Definition w_skippable_size_gt_src : bytes := [80; 42; 77; 24; 16; 0; 0; 0; 97; 98; 99].
(* skippable frame size 0xFFFFFFF8: size + 8 wraps in U32 (readSkippableFrameSize overflow test) *)
Definition w_skippable_size_u32_overflow : bytes := [80; 42; 77; 24; 248; 255; 255; 255; 97; 98; 99].
(* skippable frame header truncated *)
Definition w_skippable_hdr_trunc : bytes := [80; 42; 77; 24; 0; 0].

Definition witness_table : list (String.string * bytes * eclass * N) := [
  ("offset_gt_history"%string, w_offset_gt_history, Esafety, 341);
  ("litlen_gt_literals"%string, w_litlen_gt_literals, Esafety, 340);
  ("match_exceeds_blockmax"%string, w_match_exceeds_blockmax, Esafety, 342);
  ("lits_plus_matches_gt_blockmax"%string, w_lits_plus_matches_gt_blockmax, Esafety, 361);
  ("rawlit_size_gt_blockmax"%string, w_rawlit_size_gt_blockmax, Esafety, 302);
  ("rlelit_size_gt_blockmax"%string, w_rlelit_size_gt_blockmax, Esafety, 302);
  ("rlelit_size_gt_blockmax_128k"%string, w_rlelit_size_gt_blockmax_128k, Esafety, 302);
  ("rawlit_size_gt_src"%string, w_rawlit_size_gt_src, Esafety, 303);
  ("lit_regen_gt_blockmax"%string, w_lit_regen_gt_blockmax, Esafety, 306);
  ("lit_csize_gt_src"%string, w_lit_csize_gt_src, Esafety, 307);
  ("huf4_jump_l1_gt_src"%string, w_huf4_jump_l1_gt_src, Eformat, 234);
  ("huf4_jump_sum_gt_src"%string, w_huf4_jump_sum_gt_src, Eformat, 236);
  ("huf4_regen_lt_6"%string, w_huf4_regen_lt_6, Eformat, 230);
  ("huf_weight_gt_max"%string, w_huf_weight_gt_max, Eformat, 213);
  ("huf_weights_all_zero"%string, w_huf_weights_all_zero, Eformat, 215);
  ("huf_weight_sum_not_pow2"%string, w_huf_weight_sum_not_pow2, Eformat, 217);
  ("huf_odd_weight1_count"%string, w_huf_odd_weight1_count, Eformat, 218);
  ("treeless_without_table"%string, w_treeless_without_table, Edict, 308);
  ("rle_ll_symbol_gt_max"%string, w_rle_ll_symbol_gt_max, Esafety, 321);
  ("rle_of_symbol_gt_max"%string, w_rle_of_symbol_gt_max, Esafety, 321);
  ("rle_ml_symbol_gt_max"%string, w_rle_ml_symbol_gt_max, Esafety, 321);
  ("repcode_offset_zero"%string, w_repcode_offset_zero, Esafety, 331);
  ("ncount_log_gt_max"%string, w_ncount_log_gt_max, Eformat, 104);
  ("ncount_log_gt_max_full"%string, w_ncount_log_gt_max_full, Eformat, 104);
  ("ncount_symbols_exhausted"%string, w_ncount_symbols_exhausted, Eformat, 102);
  ("ncount_zero_run_past_alphabet"%string, w_ncount_zero_run_past_alphabet, Eformat, 101);
  ("ncount_truncated"%string, w_ncount_truncated, Etrunc, 106);
  ("seq_modes_reserved"%string, w_seq_modes_reserved, Eformat, 364);
  ("seq_bitstream_zero_last_byte"%string, w_seq_bitstream_zero_last_byte, Eformat, 365);
  ("nbseq_missing"%string, w_nbseq_missing, Etrunc, 310);
  ("nbseq_2byte_trunc"%string, w_nbseq_2byte_trunc, Etrunc, 312);
  ("nbseq_3byte_trunc"%string, w_nbseq_3byte_trunc, Etrunc, 311);
  ("nbseq0_trailing"%string, w_nbseq0_trailing, Eformat, 362);
  ("raw_block_gt_blockmax"%string, w_raw_block_gt_blockmax, Esafety, 422);
  ("rle_block_gt_blockmax"%string, w_rle_block_gt_blockmax, Esafety, 424);
  ("cblock_gt_blockmax"%string, w_cblock_gt_blockmax, Esafety, 426);
  ("block_type_reserved"%string, w_block_type_reserved, Eformat, 428);
  ("windowlog_gt_max"%string, w_windowlog_gt_max, Elimit, 417);
  ("fhd_reserved_bit"%string, w_fhd_reserved_bit, Eformat, 413);
  ("skippable_size_gt_src"%string, w_skippable_size_gt_src, Etrunc, 442);
  ("skippable_size_u32_overflow"%string, w_skippable_size_u32_overflow, Etrunc, 442);
  ("skippable_hdr_trunc"%string, w_skippable_hdr_trunc, Etrunc, 441)
].

Definition eclass_eqb (a b : eclass) : bool :=
  match a, b with
  | Etrunc, Etrunc | Eformat, Eformat | Esafety, Esafety | Eintegrity, Eintegrity
  | Elimit, Elimit | Edict, Edict | Efuel, Efuel => true
  | _, _ => false
  end.

Definition rejected_at (w : String.string * bytes * eclass * N) : bool :=
  let '(_, b, c, s) := w in
  match R default_config None b with
  | Err c' s' => andb (eclass_eqb c c') (s =? s')
  | Ok _ => false
  end.

(* with the window rule switched off (the configuration compared with libzstd) the same sites fire *)
Definition nostrict_config : config :=
  {| c_window_max := c_window_max default_config; c_strict_window := false; c_magicless := false;
     c_check := true; c_block_max := c_block_max default_config |}.
Definition rejected_at_nostrict (w : String.string * bytes * eclass * N) : bool :=
  let '(_, b, c, s) := w in
  match R nostrict_config None b with
  | Err c' s' => andb (eclass_eqb c c') (s =? s')
  | Ok _ => false
  end.

Lemma eclass_eqb_eq a b : eclass_eqb a b = true -> a = b.
Proof. destruct a, b; simpl; intros; auto; discriminate. Qed.

Theorem witnesses_rejected_at_site : forallb rejected_at witness_table = true /\ forallb rejected_at_nostrict witness_table = true.
Proof. split; vm_compute; reflexivity. Qed.

Corollary witness_rejected : forall name b c s,
  In (name, b, c, s) witness_table -> R default_config None b = Err c s.
Proof.
  intros name b c s H. destruct witnesses_rejected_at_site as [A _]. rewrite forallb_forall in A. apply A in H.
  unfold rejected_at in H. destruct (R default_config None b) as [|c' s']; [discriminate|].
  apply andb_true_iff in H. destruct H as [H1 H2]. apply eclass_eqb_eq in H1. apply N.eqb_eq in H2. congruence.
Qed.

Example w_offset_gt_history_site : R default_config None w_offset_gt_history = Err Esafety 341.
Proof. vm_compute. reflexivity. Qed.
Example w_litlen_gt_literals_site : R default_config None w_litlen_gt_literals = Err Esafety 340.
Proof. vm_compute. reflexivity. Qed.
Example w_match_exceeds_blockmax_site : R default_config None w_match_exceeds_blockmax = Err Esafety 342.
Proof. vm_compute. reflexivity. Qed.

(* ---- what the checks protect (model level) ---- *)
Definition x4 : xstate :=   (* four bytes of history "abcd", nothing else *)
  {| x_hist := [100; 99; 98; 97]; x_marks := []; x_avail := 4; x_pos := 4; x_blk := 4 |}.

Example x4_wf : xwf 0 x4.
Proof. repeat split; constructor. Qed.

(* without [offset_ok]: an offset of 12 on 4 bytes of history makes the copy deliver 0 of the 3 bytes it accounts for *)
Example offset_check_necessary :
  let x' := copy_match 1 x4 12 3 in
  x_avail x' = 7 /\ List.length (x_hist x') = 4%nat /\ ~ xwf 0 x'.
Proof.
  vm_compute. split; [reflexivity|]. split; [reflexivity|]. intros (H & _). discriminate.
Qed.

(* with the check the same copy is refused, and every accepted copy keeps the invariant (ROutput.copy_match_wf) *)
Example offset_check_refuses : offset_ok false 1024 x4 12 = false.
Proof. reflexivity. Qed.

(* without [x_blk + ml <= blockMax]: the block of witness match_exceeds_blockmax would regenerate 1031 > 1024 bytes *)
Example blockmax_check_necessary : x_blk (copy_match 1028 x4 1 1027) = 1031.
Proof. vm_compute. reflexivity. Qed.
