(* Model of the no-forward-progress watchdog at the end of ZSTD_decompressStream
   (lib/decompress/zstd_decompress.c, "if ((ip==istart) && (op==ostart)) { zds->noForwardProgress++ ... }").
   One call that reaches this accounting code is abstracted to three observable facts.  Calls that leave
   earlier do not touch the counter: errors, the legacy path, and the "header not complete yet" return of
   zdss_loadHeader (which consumes all offered input, so it is a zero-progress call only when the caller
   offers no input at all).  [ob_progress] is the C condition as evaluated by the accounting code: a call that
   consumes the last byte of a frame whose output is not flushed yet and then takes it back (hostage byte,
   input->pos--) is a progress call for the counter although the caller sees pos unchanged - so the caller can
   observe at most one more zero-progress return than the counter counts.  Conversely the call that finally receives
   that byte does nothing before the accounting and takes the byte afterwards (input->pos++): a zero-progress call
   for the counter with input AND output available - the one observation of the real decoder that is not [legal]
   below, and the way to reach the assert(0) ([NpAssert]) of the code (observation O1 in docs/C03.md).
   Model only - no proofs in this file. *)
From Coq Require Import NArith List Bool.
From ZV.Gen Require Import Gen_C03.
Import ListNotations.
Local Open Scope N_scope.

Record obs := {
  ob_progress : bool;     (* (ip != istart) || (op != ostart) *)
  ob_dest_full : bool;    (* op == oend *)
  ob_in_empty : bool }.   (* ip == iend *)

Inductive np_result :=
| NpOk (counter : N)            (* the call goes on to compute its return value *)
| NpErrDestFull                 (* noForwardProgress_destFull *)
| NpErrInputEmpty               (* noForwardProgress_inputEmpty *)
| NpAssert (counter : N).       (* assert(0): compiled out in release builds, the call goes on *)

(* the accounting code with limit [max] and current counter [np] *)
Definition np_step (max np : N) (o : obs) : np_result :=
  if ob_progress o then NpOk 0
  else let np' := np + 1 in
       if max <=? np' then
         if ob_dest_full o then NpErrDestFull
         else if ob_in_empty o then NpErrInputEmpty
         else NpAssert np'
       else NpOk np'.

(* the same code with the limit test removed (mutation) *)
Definition np_step_nocheck (np : N) (o : obs) : np_result :=
  if ob_progress o then NpOk 0 else NpOk (np + 1).

(* a history of calls on one decompression session; None = the session ended with an error *)
Fixpoint np_run (step : N -> obs -> np_result) (np : N) (os : list obs) : option N :=
  match os with
  | [] => Some np
  | o :: t => match step np o with
              | NpOk k => np_run step k t
              | NpAssert k => np_run step k t
              | _ => None
              end
  end.

Definition MAXNP : N := NO_FORWARD_PROGRESS_MAX.
Definition watchdog := np_step MAXNP.

(* what the decoder guarantees about a zero-progress call that reached the accounting code:
   the output is full or the input is exhausted (the C code asserts it) *)
Definition legal (o : obs) : bool := orb (ob_progress o) (orb (ob_dest_full o) (ob_in_empty o)).
Definition stalled (o : obs) : bool := negb (ob_progress o).
