(* Model of the literal-buffer placement logic of lib/decompress/zstd_decompress_block.c:
   ZSTD_allocateLiteralsBuffer and the size checks / placement part of ZSTD_decodeLiteralsBlock
   (raw, RLE and Huffman-compressed literals; the Huffman decoding itself is not modelled - only where its output
   goes).  Offsets are integers relative to the start of the region they point into, so that an address before
   the region is a visible (negative) result.  WILDCOPY_OVERLENGTH and ZSTD_LITBUFFEREXTRASIZE are the regenerated
   values of the current sources.  Model only - no proofs in this file. *)
From Coq Require Import ZArith NArith Bool List.
From ZV.Gen Require Import Gen_Tables.
Import ListNotations.
Local Open Scope Z_scope.

Definition WILDCOPY : Z := Z.of_N c_WILDCOPY_OVERLENGTH.
Definition EXTRA : Z := Z.of_N c_ZSTD_LITBUFFEREXTRASIZE.
Definition MIN4 : Z := Z.of_N c_MIN_LITERALS_FOR_4_STREAMS.

(* ZSTD_litLocation_e *)
Inductive litloc := NotInDst | InDst | Split.

(* which memory region a literal pointer points into *)
Inductive region := RDst | RExtra | RSrc.

Record litbuf := {
  lb_loc : litloc;          (* dctx->litBufferLocation *)
  lb_region : region;       (* region litBuffer / litBufferEnd point into (dst for InDst and Split, litExtraBuffer otherwise) *)
  lb_start : Z;             (* dctx->litBuffer (= dctx->litPtr when the literals section has been decoded) - region start *)
  lb_end : Z }.             (* dctx->litBufferEnd - region start *)

(* ZSTD_allocateLiteralsBuffer *)
Definition allocate (blockSizeMax dstCapacity litSize : Z) (streaming : bool) (ews : Z) (splitImmediately : bool) : litbuf :=
  if andb (negb streaming) (blockSizeMax + WILDCOPY + litSize + WILDCOPY <? dstCapacity) then
    {| lb_loc := InDst; lb_region := RDst; lb_start := blockSizeMax + WILDCOPY; lb_end := blockSizeMax + WILDCOPY + litSize |}
  else if litSize <=? EXTRA then
    {| lb_loc := NotInDst; lb_region := RExtra; lb_start := 0; lb_end := litSize |}
  else if splitImmediately then
    let s := ews - litSize + EXTRA - WILDCOPY in
    {| lb_loc := Split; lb_region := RDst; lb_start := s; lb_end := s + litSize - EXTRA |}
  else
    {| lb_loc := Split; lb_region := RDst; lb_start := ews - litSize; lb_end := ews |}.

(* after Huffman decoding into a split buffer: the last EXTRA bytes go to litExtraBuffer, the rest is moved up by
   EXTRA - WILDCOPY ("dctx->litBuffer += ZSTD_LITBUFFEREXTRASIZE - WILDCOPY_OVERLENGTH; dctx->litBufferEnd -= WILDCOPY_OVERLENGTH") *)
Definition shift_split (lb : litbuf) : litbuf :=
  match lb_loc lb with
  | Split => {| lb_loc := Split; lb_region := RDst; lb_start := lb_start lb + EXTRA - WILDCOPY; lb_end := lb_end lb - WILDCOPY |}
  | _ => lb
  end.

Inductive litkind := KRaw | KRle | KHuf (single : bool).

(* error sites of ZSTD_decodeLiteralsBlock that concern sizes *)
Inductive literr := ELitGtBlock      (* litSize > blockSizeMax                 -> corruption_detected *)
                  | EFourStreams     (* 4 streams for fewer than 6 literals    -> literals_headerWrong *)
                  | ECSizeGtSrc      (* litCSize + lhSize > srcSize            -> corruption_detected *)
                  | EDstTooSmall     (* expectedWriteSize < litSize            -> dstSize_tooSmall *)
                  | ERawGtSrc.       (* litSize + lhSize > srcSize             -> corruption_detected *)

Inductive litres :=
| LErr (e : literr)
| LOk (lb : litbuf)          (* where litPtr / litBufferEnd point when the function returns, and litBufferLocation *)
      (consumed : Z).        (* return value: bytes of the literals section *)

(* the placement part of ZSTD_decodeLiteralsBlock, checks in the order of the code.
   [with_ews_check] = false removes "expectedWriteSize < litSize" (mutation, for the necessity witness). *)
Definition place_gen (with_ews_check : bool) (kind : litkind) (blockSizeMax dstCapacity srcSize lhSize litSize litCSize : Z) (streaming : bool) : litres :=
  let ews := Z.min blockSizeMax dstCapacity in
  if blockSizeMax <? litSize then LErr ELitGtBlock
  else match kind with
  | KHuf single =>
    if andb (negb single) (litSize <? MIN4) then LErr EFourStreams
    else if srcSize <? litCSize + lhSize then LErr ECSizeGtSrc
    else if andb with_ews_check (ews <? litSize) then LErr EDstTooSmall
    else let lb := shift_split (allocate blockSizeMax dstCapacity litSize streaming ews false) in
         LOk lb (litCSize + lhSize)
  | KRaw =>
    if andb with_ews_check (ews <? litSize) then LErr EDstTooSmall
    else let lb := allocate blockSizeMax dstCapacity litSize streaming ews true in
         if srcSize <? lhSize + litSize + WILDCOPY then
           if srcSize <? litSize + lhSize then LErr ERawGtSrc
           else LOk lb (lhSize + litSize)
         else (* direct reference into the compressed block: litPtr = istart + lhSize *)
           LOk {| lb_loc := NotInDst; lb_region := RSrc; lb_start := lhSize; lb_end := lhSize + litSize |} (lhSize + litSize)
  | KRle =>
    if andb with_ews_check (ews <? litSize) then LErr EDstTooSmall
    else let lb := allocate blockSizeMax dstCapacity litSize streaming ews true in
         LOk lb (lhSize + 1)
  end.

Definition place := place_gen true.

(* ---- the pre-split phase of ZSTD_decompressSequences_bodySplitLitBuffer, as arithmetic on positions ----
   A sequence is (litLength, matchLength).  [out] = bytes written to dst so far (op - dst), [lit] = literals consumed. *)
Definition seq_out (seqs : list (Z * Z)) : Z := fold_right (fun s a => fst s + snd s + a) 0 seqs.
Definition seq_lit (seqs : list (Z * Z)) : Z := fold_right (fun s a => fst s + a) 0 seqs.
