(* C03: the reference decoder R is a total function whose fuel parameters are never the reason for a result.
   R is total by construction (Gallina).  Its loops that are not structural on the input carry a fuel argument;
   this file proves that the fuel handed in by R is always sufficient:
     - [Err Efuel _] is unreachable from R / decode_frame / parse_dict (blocks_loop, frames_loop, ncount_loop),
     - read_repeats, skip_high, copy_match and fse_weights_loop leave through their own exit condition
       (their silent fuel-exhaustion branch never decides the result class). *)
From Coq Require Import NArith ZArith List Bool Lia Arith.
From ZV.Codec Require Import Bytes XXH64 Fse Huf Block Frame.
From ZV.Safety Require Import RLemmas.
Import ListNotations.
Local Open Scope N_scope.

(* ------------------------------------------------------------------ "never a fuel error" *)
Definition nofuel {A} (r : res A) : Prop := forall s, r <> Err Efuel s.

Lemma nofuel_ok {A} (a : A) : nofuel (Ok a).
Proof. intros s; discriminate. Qed.
Lemma nofuel_err {A} c s : c <> Efuel -> nofuel (@Err A c s).
Proof. intros H s' E; inversion E; congruence. Qed.
Lemma nofuel_bind {A B} (r : res A) (f : A -> res B) :
  nofuel r -> (forall a, r = Ok a -> nofuel (f a)) -> nofuel (bind r f).
Proof.
  intros H1 H2 s. destruct r as [a|c s0]; simpl; [apply H2; auto|].
  intros E. inversion E; subst. apply (H1 s). reflexivity.
Qed.
Lemma nofuel_guard b c s : c <> Efuel -> nofuel (guard b c s).
Proof. intros H. unfold guard. destruct b; [apply nofuel_ok|apply nofuel_err; auto]. Qed.
Lemma nofuel_of_opt {A} (o : option A) c s : c <> Efuel -> nofuel (of_opt o c s).
Proof. intros H. unfold of_opt. destruct o; [apply nofuel_ok|apply nofuel_err; auto]. Qed.

Create HintDb nofuel.
#[export] Hint Resolve nofuel_ok : nofuel.

Ltac nf_step :=
  match goal with
  | |- nofuel (Ok _) => apply nofuel_ok
  | |- nofuel (Err _ _) => apply nofuel_err; discriminate
  | |- nofuel (guard _ _ _) => apply nofuel_guard; discriminate
  | |- nofuel (of_opt _ _ _) => apply nofuel_of_opt; discriminate
  | |- nofuel (bind _ _) => apply nofuel_bind; [|intros ? _]
  | |- nofuel _ => solve [auto with nofuel]
  | |- nofuel (if ?b then _ else _) => destruct b
  | |- nofuel (match ?x with _ => _ end) => destruct x
  | |- nofuel (let _ := _ in _) => lazy zeta
  | |- nofuel _ => progress cbv beta iota
  end.
Ltac nf := repeat nf_step.

(* ------------------------------------------------------------------ FSE *)
(* ncount_loop: every iteration advances the symbol counter and continues only while it is below maxSV1 *)
Lemma ncount_loop_nofuel : forall fuel maxSV1 remaining threshold nbBits charnum prev0 s acc,
  charnum < maxSV1 -> maxSV1 < charnum + N.of_nat fuel ->
  nofuel (ncount_loop fuel maxSV1 remaining threshold nbBits charnum prev0 s acc).
Proof.
  induction fuel; intros maxSV1 remaining threshold nbBits charnum prev0 s acc H1 H2; [simpl in H2; lia|].
  cbn [ncount_loop].
  destruct (if prev0 then let '(n0, s') := read_repeats 256 s 0 in (charnum + n0, s', repeatN 0%Z n0 acc)
            else (charnum, s, acc)) as [[charnum1 s1] acc1] eqn:E.
  assert (C1 : charnum <= charnum1).
  { destruct prev0; [destruct (read_repeats 256 s 0) as [n0 s']|]; inversion E; lia. }
  destruct (N.leb_spec maxSV1 charnum1); [nf|].
  destruct (read_count remaining threshold nbBits s1) as [c s2].
  destruct (remaining - Z.to_N (Z.abs c) <=? 1); [nf|].
  destruct (renorm (remaining - Z.to_N (Z.abs c)) threshold nbBits) as [th' nb'].
  destruct (N.leb_spec maxSV1 (charnum1 + 1)); [nf|].
  apply IHfuel; lia.
Qed.

Lemma read_ncount_nofuel maxSV maxLog src : maxSV < 599 -> nofuel (read_ncount maxSV maxLog src).
Proof.
  intros H. unfold read_ncount. nf_step; [nf|].
  destruct (fread 4 (fbits src, 0)) as [lowbits s1]. nf_step; [nf|]. nf_step.
  - apply ncount_loop_nofuel; simpl; lia.
  - nf.
Qed.

Lemma build_dtable_nofuel log counts : nofuel (build_dtable log counts).
Proof. unfold build_dtable. nf. Qed.
#[export] Hint Resolve build_dtable_nofuel : nofuel.

(* ------------------------------------------------------------------ Huffman *)
Lemma fse_weights_loop_nofuel : forall fuel t st1 st2 s acc, nofuel (fse_weights_loop fuel t st1 st2 s acc).
Proof. induction fuel; intros; cbn [fse_weights_loop]; nf. Qed.
#[export] Hint Resolve fse_weights_loop_nofuel : nofuel.

Lemma fse_weights_nofuel src : nofuel (fse_weights src).
Proof. unfold fse_weights. nf_step; [apply read_ncount_nofuel; lia|]. nf. Qed.
#[export] Hint Resolve fse_weights_nofuel : nofuel.

Lemma read_huf_weights_nofuel maxLog src : nofuel (read_huf_weights maxLog src).
Proof. unfold read_huf_weights. nf. Qed.
#[export] Hint Resolve read_huf_weights_nofuel : nofuel.

Lemma read_huf_table_nofuel maxLog src : nofuel (read_huf_table maxLog src).
Proof. unfold read_huf_table. nf. Qed.
#[export] Hint Resolve read_huf_table_nofuel : nofuel.

Lemma huf_stream_nofuel t n src acc : nofuel (huf_stream t n src acc).
Proof. unfold huf_stream. nf. Qed.
#[export] Hint Resolve huf_stream_nofuel : nofuel.

Lemma huf_decode1_nofuel t n src : nofuel (huf_decode1 t n src).
Proof. unfold huf_decode1. nf. Qed.
Lemma huf_decode4_nofuel t n src : nofuel (huf_decode4 t n src).
Proof. unfold huf_decode4. nf. Qed.
#[export] Hint Resolve huf_decode1_nofuel huf_decode4_nofuel : nofuel.

(* ------------------------------------------------------------------ blocks *)
Lemma decode_literals_nofuel blockMax huf src : nofuel (decode_literals blockMax huf src).
Proof. unfold decode_literals. nf. Qed.
#[export] Hint Resolve decode_literals_nofuel : nofuel.

Lemma read_nbseq_nofuel src : nofuel (read_nbseq src).
Proof. unfold read_nbseq. nf. Qed.
#[export] Hint Resolve read_nbseq_nofuel : nofuel.

Lemma seq_table_nofuel mode maxSV maxLog deflog defnorm prev src :
  maxSV < 599 -> nofuel (seq_table mode maxSV maxLog deflog defnorm prev src).
Proof.
  intros H. unfold seq_table.
  destruct (mode =? 0); [nf|]. destruct (mode =? 1); [nf|]. destruct (mode =? 2); [|nf].
  nf_step; [apply read_ncount_nofuel; auto|]. nf.
Qed.

Lemma rd_nofuel n s : nofuel (rd n s).
Proof. unfold rd. nf. Qed.
Lemma resolve_offset_nofuel ofv ll rep : nofuel (resolve_offset ofv ll rep).
Proof. unfold resolve_offset. nf. Qed.
Lemma exec_seq_nofuel strict window blockMax x lits ll ml off : nofuel (exec_seq strict window blockMax x lits ll ml off).
Proof. unfold exec_seq. nf. Qed.
#[export] Hint Resolve rd_nofuel resolve_offset_nofuel exec_seq_nofuel : nofuel.

Lemma seq_loop_nofuel : forall n strict window blockMax tll tof tml stll stof stml s rep x lits acc,
  nofuel (seq_loop n strict window blockMax tll tof tml stll stof stml s rep x lits acc).
Proof. induction n; intros; cbn [seq_loop]; nf. Qed.
#[export] Hint Resolve seq_loop_nofuel : nofuel.
#[export] Hint Extern 1 (nofuel (seq_table _ _ _ _ _ _ _)) => apply seq_table_nofuel; reflexivity : nofuel.
#[export] Hint Extern 1 (nofuel (read_ncount _ _ _)) => apply read_ncount_nofuel; reflexivity : nofuel.

Lemma decode_cblock_nofuel strict window blockMax e x src : nofuel (decode_cblock strict window blockMax e x src).
Proof. unfold decode_cblock. nf. Qed.
#[export] Hint Resolve decode_cblock_nofuel : nofuel.

(* ------------------------------------------------------------------ frames *)
(* one block consumes at least its 3-byte header; the rest handed to the next iteration is a suffix *)
Lemma blocks_loop_props : forall (fuel : list N) strict window blockMax e x src acc,
  (length src < length fuel)%nat ->
  nofuel (blocks_loop fuel strict window blockMax e x src acc) /\
  (forall x' r bts, blocks_loop fuel strict window blockMax e x src acc = Ok (x', r, bts) ->
                    (length r + 3 <= length src)%nat).
Proof.
  induction fuel as [|f0 fuel IH]; intros strict window blockMax e x src acc HL; [simpl in HL; lia|].
  cbn [blocks_loop].
  destruct (read_le 3 src) as [[hv r0]|] eqn:RL; cbn [of_opt bind]; [|split; [nf|discriminate]].
  apply read_le_length in RL.
  set (last := N.testbit hv 0). set (btype := N.land (N.shiftr hv 1) 3). set (bsize := N.shiftr hv 3).
  match goal with |- nofuel (bind ?st _) /\ _ =>
    assert (NFS : nofuel st) by (unfold btype; nf);
    destruct st as [[[[e' x'] rest] bt]|c s] eqn:ST end; cbn [bind];
    [|split; [|discriminate]].
  - (* step succeeded: rest is a suffix of r0 *)
    assert (SUF : (length rest <= length r0)%nat).
    { destruct (btype =? 0).
      - destruct (guard (bsize <=? blockMax) Esafety 422); cbn [bind] in ST; try discriminate.
        destruct (splitN bsize r0) as [[sa sb]|] eqn:SP; cbn [of_opt bind] in ST; try discriminate.
        inversion ST; subst. apply splitN_spec in SP. destruct SP as [SP _]. subst r0. simpl. rewrite app_length. lia.
      - destruct (btype =? 1).
        + destruct (guard (bsize <=? blockMax) Esafety 424); cbn [bind] in ST; try discriminate.
          destruct r0; try discriminate. inversion ST; subst. simpl. lia.
        + destruct (btype =? 2); try discriminate.
          destruct (guard (bsize <=? blockMax) Esafety 426); cbn [bind] in ST; try discriminate.
          destruct (splitN bsize r0) as [[sa sb]|] eqn:SP; cbn [of_opt bind] in ST; try discriminate.
          match type of ST with context [decode_cblock ?a1 ?a2 ?a3 ?a4 ?a5 ?a6] =>
            destruct (decode_cblock a1 a2 a3 a4 a5 a6) as [[[e1 x1] bt1]|] end; cbn [bind] in ST; try discriminate.
          inversion ST; subst. apply splitN_spec in SP. destruct SP as [SP _]. subst r0. simpl. rewrite app_length. lia. }
    destruct last.
    + split; [nf|]. intros x'' r bts H. inversion H; subst. lia.
    + destruct (IH strict window blockMax e' x' rest (bt :: acc)) as [N1 N2]; [simpl in HL; lia|].
      split; auto. intros x'' r bts H. apply N2 in H. lia.
  - (* step failed: never with a fuel error *)
    intros s' E. inversion E; subst. apply (NFS s'). reflexivity.
Qed.

Lemma parse_fheader_nofuel magicless src : nofuel (parse_fheader magicless src).
Proof. unfold parse_fheader. nf. Qed.
#[export] Hint Resolve parse_fheader_nofuel : nofuel.

(* the header consumes at least one byte *)
Lemma parse_fheader_consumes magicless src fh r :
  parse_fheader magicless src = Ok (fh, r) -> (length r < length src)%nat.
Proof.
  unfold parse_fheader. intros H.
  destruct (if magicless then Ok src else _) as [m|] eqn:M; cbn [bind] in H; try discriminate.
  assert (LM : (length m <= length src)%nat).
  { destruct magicless; [inversion M; auto|].
    destruct (read_le 4 src) as [[mv r0]|] eqn:RL; cbn [of_opt bind] in M; try discriminate.
    destruct (guard _ _ _); cbn [bind] in M; try discriminate. inversion M; subst.
    apply read_le_length in RL. simpl in *. lia. }
  destruct m as [|fhd r0]; try discriminate.
  destruct (guard _ _ _); cbn [bind] in H; try discriminate.
  match type of H with bind ?w _ = _ => destruct w as [[wopt r1]|] eqn:W end; cbn [bind] in H; try discriminate.
  assert (L1 : (length r1 <= length r0)%nat).
  { destruct (N.testbit fhd 5); [inversion W; auto|]. destruct r0; try discriminate. inversion W; subst. simpl; lia. }
  match type of H with bind (of_opt (read_le ?k r1) _ _) _ = _ => destruct (read_le k r1) as [[did r2]|] eqn:R2 end;
    cbn [of_opt bind] in H; try discriminate.
  apply read_le_length in R2.
  match type of H with bind (of_opt (read_le ?k r2) _ _) _ = _ => destruct (read_le k r2) as [[fv r3]|] eqn:R3 end;
    cbn [of_opt bind] in H; try discriminate.
  apply read_le_length in R3.
  match type of H with bind ?w _ = _ => destruct w end; cbn [bind] in H; try discriminate.
  inversion H; subst. simpl in *. lia.
Qed.

Ltac by_nf H := let s := fresh "s" in let E := fresh "E" in intros s E; inversion E; subst; apply (H s); reflexivity.

Lemma decode_frame_props cfg d src :
  nofuel (decode_frame cfg d src) /\
  (forall out t rest, decode_frame cfg d src = Ok (out, t, rest) -> (length rest < length src)%nat).
Proof.
  unfold decode_frame.
  pose proof (parse_fheader_nofuel (c_magicless cfg) src) as NF1.
  destruct (parse_fheader (c_magicless cfg) src) as [[fh r0]|] eqn:PH; cbn [bind];
    [|split; [by_nf NF1|discriminate]].
  apply parse_fheader_consumes in PH.
  match goal with |- nofuel (bind ?g _) /\ _ => assert (NF2 : nofuel g) by nf; destruct g end; cbn [bind];
    [|split; [by_nf NF2|discriminate]].
  match goal with |- nofuel (bind ?dd _) /\ _ =>
    assert (NF3 : nofuel dd) by (destruct d; nf); destruct dd as [[e0 dcontent]|] eqn:DD end; cbn [bind];
    [|split; [by_nf NF3|discriminate]].
  lazy zeta.
  match goal with |- nofuel (bind (blocks_loop ?fu ?st ?w ?bm ?e ?xx ?s ?a) _) /\ _ =>
    destruct (blocks_loop_props fu st w bm e xx s a) as [B1 B2]; [simpl; lia|];
    destruct (blocks_loop fu st w bm e xx s a) as [[[xf r1] bts]|] eqn:BL end; cbn [bind];
    [|split; [by_nf B1|discriminate]].
  specialize (B2 _ _ _ eq_refl).
  match goal with |- nofuel (bind ?g _) /\ _ => assert (NF4 : nofuel g) by nf; destruct g end; cbn [bind];
    [|split; [by_nf NF4|discriminate]].
  match goal with |- nofuel (bind ?c _) /\ _ =>
    assert (NF5 : nofuel c) by nf; destruct c as [[ck r2]|] eqn:CK end; cbn [bind];
    [|split; [by_nf NF5|discriminate]].
  split; [nf|]. intros out t rest H. inversion H; subst.
  assert (length rest <= length r1)%nat; [|lia].
  destruct (fh_checksum fh); [|inversion CK; auto].
  destruct (read_le 4 r1) as [[cv r']|] eqn:RL; cbn [of_opt bind fst snd] in CK; try discriminate.
  match type of CK with bind ?g _ = _ => destruct g end; cbn [bind] in CK; try discriminate. inversion CK; subst.
  apply read_le_length in RL. simpl; lia.
Qed.

Lemma frames_loop_nofuel : forall (fuel : list N) cfg d src out_rev acc,
  (length src < length fuel)%nat -> nofuel (frames_loop fuel cfg d src out_rev acc).
Proof.
  induction fuel as [|f0 fuel IH]; intros cfg d src out_rev acc HL; [simpl in HL; lia|].
  cbn [frames_loop]. destruct src as [|b0 src']; [nf|].
  set (src := b0 :: src') in *.
  match goal with |- nofuel (match ?sk with _ => _ end) => destruct sk as [r|] eqn:SK end.
  - assert (LR : (length r <= length src)%nat).
    { destruct (c_magicless cfg); try discriminate.
      destruct (read_le 4 src) as [[m r']|] eqn:RL; try discriminate.
      destruct (_ =? _); inversion SK; subst. apply read_le_length in RL. lia. }
    destruct (read_le 4 r) as [[sz r2]|] eqn:RL; cbn [of_opt bind]; [|nf].
    apply read_le_length in RL. cbn [fst snd].
    destruct (splitN sz r2) as [[a b]|] eqn:SP; cbn [of_opt bind]; [|nf].
    apply splitN_spec in SP. destruct SP as [SP _]. apply IH. subst r2. rewrite app_length in RL.
    cbn [snd]. subst src. cbn [length] in *. lia.
  - destruct (decode_frame_props cfg d src) as [D1 D2].
    destruct (decode_frame cfg d src) as [[[out t] rest]|] eqn:DF; cbn [bind]; [|by_nf D1].
    specialize (D2 _ _ _ eq_refl). apply IH. subst src. cbn [length] in *. lia.
Qed.

(* ------------------------------------------------------------------ the fuel theorems *)
Theorem R_no_fuel_error : forall cfg d src s, R cfg d src <> Err Efuel s.
Proof.
  intros cfg d src. change (nofuel (R cfg d src)). unfold R.
  nf_step; [apply frames_loop_nofuel; simpl; lia|nf].
Qed.

Theorem decode_frame_no_fuel_error : forall cfg d src s, decode_frame cfg d src <> Err Efuel s.
Proof. intros cfg d src. apply (decode_frame_props cfg d src). Qed.

Theorem parse_dict_no_fuel_error : forall b s, parse_dict b <> Err Efuel s.
Proof. intros b. change (nofuel (parse_dict b)). unfold parse_dict. nf. Qed.

(* ------------------------------------------------------------------ loops whose fuel exhaustion is silent *)
Lemma ftake_length : forall n s, length (fst (ftake n s)) = n.
Proof.
  induction n; intros s; cbn [ftake]; auto.
  destruct s as [|x t].
  - specialize (IHn []). destruct (ftake n []); simpl in *; auto.
  - specialize (IHn t). destruct (ftake n t); simpl in *; auto.
Qed.

Lemma bits_val_lsb_lt : forall l, bits_val_lsb l < 2 ^ N.of_nat (length l).
Proof.
  induction l as [|b t IH]; cbn [bits_val_lsb length].
  - simpl. lia.
  - rewrite Nat2N.inj_succ, N.pow_succ_r'. destruct b; lia.
Qed.

Lemma fread_lt n s : fst (fread n s) < 2 ^ n.
Proof.
  unfold fread. pose proof (ftake_length (N.to_nat n) (fst s)) as L.
  destruct (ftake (N.to_nat n) (fst s)) as [a b]. cbn [fst] in *.
  pose proof (bits_val_lsb_lt a) as B. rewrite L, N2Nat.id in B. exact B.
Qed.

(* read_repeats (zero-run flags of an FSE table description): 256 rounds add 768 to the symbol counter, which
   already exceeds every alphabet (maxSV1 <= 256): more fuel cannot change the decision taken by ncount_loop. *)
Lemma read_repeats_bounds : forall f s acc,
  acc <= fst (read_repeats f s acc) <= acc + 3 * N.of_nat f.
Proof.
  induction f; intros s acc; cbn [read_repeats].
  - cbn [fst]. lia.
  - pose proof (fread_lt 2 s) as V. destruct (fread 2 s) as [v s']. cbn [fst] in V. change (2 ^ 2) with 4 in V.
    destruct (N.eqb_spec v 3).
    + specialize (IHf s' (acc + 3)). lia.
    + cbn [fst]. lia.
Qed.

Lemma read_repeats_natural_exit : forall f k s acc,
  fst (read_repeats f s acc) < acc + 3 * N.of_nat f -> read_repeats (f + k) s acc = read_repeats f s acc.
Proof.
  induction f; intros k s acc H; cbn [read_repeats] in *.
  - cbn [fst] in H. lia.
  - cbn [Nat.add read_repeats]. destruct (fread 2 s) as [v s']. destruct (N.eqb_spec v 3); auto.
    apply IHf. lia.
Qed.

Lemma read_repeats_exhausted : forall f k s acc,
  fst (read_repeats f s acc) = acc + 3 * N.of_nat f -> acc + 3 * N.of_nat f <= fst (read_repeats (f + k) s acc).
Proof.
  induction f; intros k s acc H; cbn [read_repeats] in *.
  - pose proof (read_repeats_bounds k s acc). simpl. lia.
  - cbn [Nat.add read_repeats]. pose proof (fread_lt 2 s) as V. destruct (fread 2 s) as [v s'].
    cbn [fst] in V. change (2 ^ 2) with 4 in V. destruct (N.eqb_spec v 3).
    + specialize (IHf k s' (acc + 3)). lia.
    + cbn [fst] in H. lia.
Qed.

Theorem read_repeats_fuel_irrelevant : forall k s charnum maxSV1,
  maxSV1 <= 768 ->
  let r := read_repeats 256 s 0 in
  let r' := read_repeats (256 + k) s 0 in
  (maxSV1 <=? charnum + fst r) = (maxSV1 <=? charnum + fst r') /\
  (charnum + fst r < maxSV1 -> r' = r).
Proof.
  intros k s charnum maxSV1 H r r'. subst r r'.
  pose proof (read_repeats_bounds 256 s 0) as B.
  destruct (N.lt_ge_cases (fst (read_repeats 256 s 0)) (0 + 3 * N.of_nat 256)) as [LT|GE].
  - rewrite (read_repeats_natural_exit 256 k s 0 LT). auto.
  - assert (E : fst (read_repeats 256 s 0) = 0 + 3 * N.of_nat 256) by lia.
    pose proof (read_repeats_exhausted 256 k s 0 E) as X.
    change (0 + 3 * N.of_nat 256) with 768 in *. split.
    + destruct (N.leb_spec maxSV1 (charnum + fst (read_repeats 256 s 0)));
      destruct (N.leb_spec maxSV1 (charnum + fst (read_repeats (256 + k) s 0))); auto; lia.
    + lia.
Qed.

(* skip_high (the spread loop of an FSE decoding table skips the cells reserved for "less than one" symbols):
   the step is odd for table logs 5..10, so the walk reaches cell 0 <= high within tableSize <= 1024 steps. *)
Lemma skip_high_stable : forall f k pos step mask high,
  skip_high f pos step mask high <= high -> skip_high (f + k) pos step mask high = skip_high f pos step mask high.
Proof.
  induction f; intros k pos step mask high H; cbn [skip_high] in *.
  - destruct k; cbn [Nat.add skip_high]; auto. destruct (N.ltb_spec high pos); auto. lia.
  - cbn [Nat.add skip_high]. destruct (N.ltb_spec high pos); auto.
Qed.

Lemma skip_high_mono_high : forall f pos step mask h1 h2,
  h1 <= h2 -> skip_high f pos step mask h1 <= h1 -> skip_high f pos step mask h2 <= h2.
Proof.
  induction f; intros pos step mask h1 h2 L H; cbn [skip_high] in *; [lia|].
  destruct (N.ltb_spec h1 pos); destruct (N.ltb_spec h2 pos); try lia. eapply IHf; eauto.
Qed.

Definition skip_sweep_ok (log : N) : bool :=
  let size := pow2 log in
  let step := N.shiftr size 1 + N.shiftr size 3 + 3 in
  forallb (fun p => skip_high 1024 (N.of_nat p) step (size - 1) 0 =? 0) (List.seq 0%nat (N.to_nat size)).

Lemma skip_sweep : forallb skip_sweep_ok [5; 6; 7; 8; 9; 10] = true.
Proof. vm_compute. reflexivity. Qed.

Theorem skip_high_fuel_irrelevant : forall log pos high k,
  5 <= log <= 10 -> pos < pow2 log ->
  let size := pow2 log in
  let step := N.shiftr size 1 + N.shiftr size 3 + 3 in
  skip_high 1024 pos step (size - 1) high <= high /\
  skip_high (1024 + k) pos step (size - 1) high = skip_high 1024 pos step (size - 1) high.
Proof.
  intros log pos high k HL HP size step.
  assert (OK : skip_sweep_ok log = true).
  { pose proof skip_sweep as S. rewrite forallb_forall in S. apply S.
    assert (log = 5 \/ log = 6 \/ log = 7 \/ log = 8 \/ log = 9 \/ log = 10) as C by lia.
    simpl. intuition. }
  unfold skip_sweep_ok in OK. rewrite forallb_forall in OK.
  specialize (OK (N.to_nat pos)). rewrite N2Nat.id in OK.
  assert (Z0 : skip_high 1024 pos step (size - 1) 0 <= 0).
  { apply N.eqb_eq in OK; [subst step size; rewrite OK; lia|]. apply in_seq. unfold size in *. lia. }
  assert (B : skip_high 1024 pos step (size - 1) high <= high).
  { eapply skip_high_mono_high; [|exact Z0]. lia. }
  split; [exact B|]. apply skip_high_stable. exact B.
Qed.

(* copy_match: fuel S (ml / off) is enough for the overlap-copy loop (each round copies off bytes) *)
Lemma copy_match_fuel : forall f k x off ml,
  1 <= off -> ml / off < N.of_nat f -> copy_match (f + k) x off ml = copy_match f x off ml.
Proof.
  induction f; intros k x off ml H1 H2; [generalize dependent (ml / off); intros; lia|].
  cbn [Nat.add copy_match]. destruct (N.leb_spec ml off); auto.
  apply IHf; auto.
  assert (E : ml / off = 1 + (ml - off) / off).
  { replace ml with (1 * off + (ml - off)) at 1 by lia. rewrite N.div_add_l by lia. reflexivity. }
  generalize dependent (ml / off). generalize ((ml - off) / off). intros; lia.
Qed.

Theorem copy_match_fuel_irrelevant : forall k x off ml,
  1 <= off -> copy_match (S (N.to_nat (ml / off)) + k) x off ml = copy_match (S (N.to_nat (ml / off))) x off ml.
Proof. intros. apply copy_match_fuel; auto. lia. Qed.

(* fse_weights_loop: running out of its 130 rounds means more than 255 Huffman weights, which read_huf_weights
   rejects with the same class (Eformat) whatever the fuel *)
Lemma fse_weights_loop_grows : forall f t st1 st2 s acc ws,
  fse_weights_loop f t st1 st2 s acc = Ok ws -> (length acc + 2 <= length ws)%nat.
Proof.
  induction f; intros t st1 st2 s acc ws H; cbn [fse_weights_loop] in H; try discriminate.
  destruct (fse_update t st1 s) as [[st1' s1]|].
  - destruct (fse_update t st2 s1) as [[st2' s2]|].
    + apply IHf in H. simpl in H. lia.
    + inversion H; subst. rewrite rev'_length. simpl. lia.
  - inversion H; subst. rewrite rev'_length. simpl. lia.
Qed.

Lemma fse_weights_loop_more : forall f k t st1 st2 s acc ws,
  fse_weights_loop (f + k) t st1 st2 s acc = Ok ws ->
  fse_weights_loop f t st1 st2 s acc = Ok ws \/
  (fse_weights_loop f t st1 st2 s acc = Err Eformat 200 /\ (2 * f + length acc < length ws)%nat).
Proof.
  induction f; intros k t st1 st2 s acc ws H.
  - right. split; auto. apply fse_weights_loop_grows in H. simpl in *. lia.
  - cbn [Nat.add fse_weights_loop] in *.
    destruct (fse_update t st1 s) as [[st1' s1]|]; auto.
    destruct (fse_update t st2 s1) as [[st2' s2]|]; auto.
    apply IHf in H. simpl length in H. destruct H as [H|[H1 H2]]; auto. right. split; auto. lia.
Qed.

Theorem fse_weights_fuel_irrelevant : forall k t st1 st2 s ws,
  fse_weights_loop (130 + k) t st1 st2 s [] = Ok ws ->
  fse_weights_loop 130 t st1 st2 s [] = Ok ws \/
  (fse_weights_loop 130 t st1 st2 s [] = Err Eformat 200 /\ (lenN ws <=? 255) = false).
Proof.
  intros k t st1 st2 s ws H. apply fse_weights_loop_more in H. destruct H as [H|[H1 H2]]; auto.
  right. split; auto. rewrite lenN_spec. apply N.leb_gt. simpl in H2. lia.
Qed.
