(* C03: the output of the reference decoder is bounded by its INPUT length: every block costs at least its 3-byte
   header and regenerates at most 128 KiB, so  3 * |output| <= 131072 * |input|  for every accepted byte string
   (the bound ZSTD_decompressBound is built on).  No content-size field, window or capacity is needed. *)
From Coq Require Import NArith ZArith List Bool Lia Arith.
From ZV.Codec Require Import Bytes XXH64 Fse Huf Block Frame.
From ZV.Safety Require Import RLemmas RTotal ROutput.
Import ListNotations.
Local Open Scope N_scope.

Lemma blocks_loop_count : forall (fuel : list N) strict window blockMax e x src acc x' r bts,
  blocks_loop fuel strict window blockMax e x src acc = Ok (x', r, bts) ->
  (3 * length bts + length r <= length src + 3 * length acc)%nat /\ (length acc < length bts)%nat.
Proof.
  induction fuel as [|f0 fuel IH]; intros strict window blockMax e x src acc x' r bts H; [discriminate|].
  cbn [blocks_loop] in H.
  apply bind_ok in H. destruct H as ([hv r0] & RL & H). apply of_opt_ok in RL. apply read_le_length in RL.
  set (last := N.testbit hv 0) in *. set (btype := N.land (N.shiftr hv 1) 3) in *. set (bsize := N.shiftr hv 3) in *.
  apply bind_ok in H. destruct H as ([[[e1 x1] rest] bt] & ST & H).
  assert (SUF : (length rest <= length r0)%nat).
  { destruct (btype =? 0).
    - apply bind_ok in ST. destruct ST as (u & _ & ST).
      apply bind_ok in ST. destruct ST as ([a b] & SP & ST). apply of_opt_ok in SP. apply splitN_spec in SP.
      destruct SP as [SP _]. inversion ST; subst. cbn [snd]. rewrite app_length. lia.
    - destruct (btype =? 1).
      + apply bind_ok in ST. destruct ST as (u & _ & ST). destruct r0 as [|v t]; try discriminate.
        inversion ST; subst. simpl. lia.
      + destruct (btype =? 2); try discriminate.
        apply bind_ok in ST. destruct ST as (u & _ & ST).
        apply bind_ok in ST. destruct ST as ([a b] & SP & ST). apply of_opt_ok in SP. apply splitN_spec in SP.
        destruct SP as [SP _].
        apply bind_ok in ST. destruct ST as ([[e2 x2] bt2] & _ & ST).
        inversion ST; subst. cbn [snd]. rewrite app_length. lia. }
  destruct last.
  - inversion H; subst. rewrite rev'_length. cbn [length]. lia.
  - apply IH in H. cbn [length] in H. lia.
Qed.

Theorem decode_frame_expansion_bound : forall cfg d src out t rest,
  decode_frame cfg d src = Ok (out, t, rest) ->
  (3 * length (ft_blocks t) + length rest <= length src)%nat /\
  3 * lenN out + 131072 * lenN rest <= 131072 * lenN src.
Proof.
  intros cfg d src out t rest H.
  destruct (R_output_bound cfg d src out t rest H) as (_ & _ & _ & _ & LB).
  unfold decode_frame in H.
  apply bind_ok in H. destruct H as ([fh r0] & PH & H). apply parse_fheader_consumes in PH.
  apply bind_ok in H. destruct H as (u & _ & H).
  apply bind_ok in H. destruct H as ([e0 dcontent] & _ & H). lazy zeta in H.
  apply bind_ok in H. destruct H as ([[x r1] bts] & BL & H).
  apply blocks_loop_count in BL. destruct BL as [BL _]. cbn [length] in BL.
  apply bind_ok in H. destruct H as (u2 & _ & H).
  apply bind_ok in H. destruct H as ([ck r2] & CK & H).
  assert (L2 : (length r2 <= length r1)%nat).
  { destruct (fh_checksum fh); [|inversion CK; auto].
    apply bind_ok in CK. destruct CK as ([cv r'] & RL & CK). apply of_opt_ok in RL. apply read_le_length in RL.
    apply bind_ok in CK. destruct CK as (u3 & _ & CK). inversion CK; subst. cbn [snd]. lia. }
  inversion H; subst out t rest. cbn [ft_blocks] in *.
  split; [lia|]. rewrite !lenN_spec in *. lia.
Qed.

(* ---- all frames of a stream ---- *)
Definition total (l : list bytes) : N := fold_right (fun b s => lenN b + s) 0 l.

Lemma total_app a b : total (a ++ b) = total a + total b.
Proof. induction a; simpl; [reflexivity|]. rewrite IHa. lia. Qed.
Lemma total_rev' l : total (rev' l) = total l.
Proof. rewrite rev'_rev. induction l; simpl; auto. rewrite total_app, IHl. simpl. lia. Qed.

Lemma concat_length : forall (l : list bytes) (a : bytes),
  N.of_nat (length (fold_left (fun acc f => rev_append f acc) l a)) = N.of_nat (length a) + total l.
Proof.
  induction l as [|f l IH]; intros a; cbn [fold_left total fold_right]; [lia|].
  rewrite IH, rev_append_length, lenN_spec. fold (total l). lia.
Qed.

Lemma frames_loop_bound : forall (fuel : list N) cfg d src out_rev acc outs items,
  frames_loop fuel cfg d src out_rev acc = Ok (outs, items) ->
  3 * total outs <= 3 * total out_rev + 131072 * lenN src.
Proof.
  induction fuel as [|f0 fuel IH]; intros cfg d src out_rev acc outs items H; [discriminate|].
  cbn [frames_loop] in H. destruct src as [|b0 src'].
  - inversion H; subst. rewrite total_rev'. lia.
  - set (src := b0 :: src') in *.
    match type of H with match ?sk with _ => _ end = _ => destruct sk as [r|] eqn:SK end.
    + assert (LR : (length r <= length src)%nat).
      { destruct (c_magicless cfg); try discriminate.
        destruct (read_le 4 src) as [[m r']|] eqn:RL; try discriminate.
        destruct (_ =? _); inversion SK; subst. apply read_le_length in RL. lia. }
      apply bind_ok in H. destruct H as ([sz r2] & RL & H). apply of_opt_ok in RL. apply read_le_length in RL.
      apply bind_ok in H. destruct H as ([a b] & SP & H). apply of_opt_ok in SP. apply splitN_spec in SP.
      destruct SP as [SP _]. cbn [fst snd] in *. apply IH in H.
      assert (lenN b <= lenN src).
      { rewrite !lenN_spec. subst r2. rewrite app_length in RL. lia. }
      lia.
    + apply bind_ok in H. destruct H as ([[out t] rest] & DF & H).
      apply decode_frame_expansion_bound in DF. destruct DF as [_ DF].
      apply IH in H. cbn [total fold_right] in H. fold (total out_rev) in H. lia.
Qed.

Theorem R_expansion_bound : forall cfg d src out items,
  R cfg d src = Ok (out, items) -> 3 * lenN out <= 131072 * lenN src.
Proof.
  intros cfg d src out items H. unfold R in H.
  apply bind_ok in H. destruct H as ([outs its] & FL & H). inversion H; subst out items. cbn [fst].
  apply frames_loop_bound in FL. cbn [total fold_right] in FL.
  rewrite lenN_spec, rev'_length, concat_length. cbn [length]. lia.
Qed.

(* the bound is tight up to the header: a 4-byte RLE block yields 128 KiB *)
Example expansion_example :
  match R default_config None [40; 181; 47; 253; 0; 88; 3; 0; 16; 65] with Ok (out, _) => lenN out | Err _ _ => 0 end = 131072.
Proof. vm_compute. reflexivity. Qed.
