(* C03: post-conditions of R's readers of entropy-table descriptions - what the table builders (and the C arrays
   indexed by weight / symbol / table cell) rely on.  The same post-conditions are checked on the results of
   HUF_readStats / FSE_readNCount of the current sources on every run (zv/props/c03.py, entropy_tie). *)
From Coq Require Import NArith ZArith List Bool Lia.
From ZV.Codec Require Import Bytes ListLemmas Fse Huf.
From ZV.Safety Require Import RLemmas ROutput RTotal.
Import ListNotations.
Local Open Scope N_scope.

Lemma pow2_spec n : pow2 n = 2 ^ n.
Proof. unfold pow2. rewrite N.shiftl_1_l. reflexivity. Qed.

Definition wcell (w : N) : N := if w =? 0 then 0 else pow2 (w - 1).

Lemma weight_sum_acc : forall ws a, fold_left (fun a w => a + wcell w) ws a = a + fold_left (fun a w => a + wcell w) ws 0.
Proof. induction ws as [|w ws IH]; intros a; cbn [fold_left]; [lia|]. rewrite IH, (IH (0 + wcell w)). lia. Qed.

Lemma weight_sum_app ws v : weight_sum (ws ++ [v]) = weight_sum ws + wcell v.
Proof. unfold weight_sum. change (fun a w => a + (if w =? 0 then 0 else pow2 (w - 1))) with (fun a w => a + wcell w).
  rewrite fold_left_app. cbn [fold_left]. reflexivity. Qed.

(* Huffman tree description: every weight (the implied last one included) is at most the table log, the table log is
   within the limit, and the weights fill the table exactly: sum of 2^(w-1) = 2^log. *)
Theorem read_huf_weights_post : forall maxLog src all log used,
  read_huf_weights maxLog src = Ok (all, log, used) ->
  1 <= log /\ log <= maxLog /\ Forall (fun w => w <= maxLog) all /\ weight_sum all = 2 ^ log /\
  N.of_nat (length all) <= 256.
Proof.
  intros maxLog src all log used H. unfold read_huf_weights in H.
  destruct src as [|hb rest]; [discriminate|].
  apply bind_ok in H. destruct H as ([ws u] & _ & H).
  apply bind_ok in H. destruct H as (u1 & G1 & H). apply guard_ok in G1.
  apply bind_ok in H. destruct H as (u2 & G2 & H). apply guard_ok in G2. apply N.leb_le in G2.
  lazy zeta in H.
  remember (weight_sum ws) as total eqn:ET. remember (N.log2 total + 1) as lg eqn:ELG.
  remember (pow2 lg - total) as rst eqn:ER. remember (N.log2 rst + 1) as lastw eqn:ELW.
  apply bind_ok in H. destruct H as (u3 & G3 & H). apply guard_ok in G3. apply negb_true_iff in G3. apply N.eqb_neq in G3.
  apply bind_ok in H. destruct H as (u4 & G4 & H). apply guard_ok in G4. apply N.leb_le in G4.
  apply bind_ok in H. destruct H as (u5 & G5 & H). apply guard_ok in G5. apply N.eqb_eq in G5.
  apply bind_ok in H. destruct H as (u6 & _ & H).
  injection H as E1 E2 E3. subst all log used.
  rewrite pow2_spec in G5, ER.
  assert (TP : 0 < total) by lia.
  assert (TL : total < 2 ^ lg).
  { subst lg. rewrite N.add_1_r. apply N.log2_spec. exact TP. }
  assert (RP : 0 < rst) by lia.
  assert (RL : N.log2 rst < lg).
  { apply N.log2_lt_pow2; [exact RP|]. lia. }
  split; [lia|]. split; [exact G4|]. split.
  - apply Forall_app. split.
    + rewrite forallb_forall in G1. apply Forall_forall. intros w IN. apply N.leb_le. apply G1. exact IN.
    + apply Forall_cons; [lia|apply Forall_nil].
  - split.
    + rewrite weight_sum_app, <- ET. unfold wcell. destruct (N.eqb_spec lastw 0); [lia|].
      replace (lastw - 1) with (N.log2 rst) by lia. rewrite pow2_spec, G5. lia.
    + rewrite app_length. rewrite lenN_spec in G2. cbn [length]. lia.
Qed.

(* ---------------- FSE table description ---------------- *)
Definition asum (l : list Z) : N := fold_right (fun c a => Z.to_N (Z.abs c) + a) 0 l.

Lemma asum_app a b : asum (a ++ b) = asum a + asum b.
Proof. induction a as [|c a IH]; cbn [app asum fold_right]; [reflexivity|]. fold (asum (a ++ b)). fold (asum a). lia. Qed.
Lemma asum_rev a : asum (rev a) = asum a.
Proof. induction a as [|c a IH]; cbn [rev]; [reflexivity|]. rewrite asum_app, IH. cbn [asum fold_right]. fold (asum a). lia. Qed.
Lemma asum_repeat0 n : asum (repeat 0%Z n) = 0.
Proof. induction n; cbn [repeat asum fold_right]; [reflexivity|]. fold (asum (repeat 0%Z n)). rewrite IHn. reflexivity. Qed.

Lemma count_sum_asum l : count_sum l = Z.of_N (asum l).
Proof.
  unfold count_sum. assert (G : forall l a, fold_left (fun a c => (a + Z.abs c)%Z) l a = (a + Z.of_N (asum l))%Z).
  { induction l0 as [|c l0 IH]; intros a; cbn [fold_left asum fold_right]; [lia|]. fold (asum l0). rewrite IH. lia. }
  rewrite G. lia.
Qed.

Lemma read_count_bound rem T nb s :
  1 <= nb -> T = 2 ^ (nb - 1) -> T <= rem -> rem < 2 * T ->
  (-1 <= fst (read_count rem T nb s) /\ fst (read_count rem T nb s) <= Z.of_N rem - 1)%Z.
Proof.
  intros NB ET L U. unfold read_count.
  pose proof (fread_lt (nb - 1) s) as F1. destruct (fread (nb - 1) s) as [low s1] eqn:E1. cbn [fst] in F1.
  destruct (N.ltb_spec low (2 * T - 1 - rem)).
  - cbn [fst]. lia.
  - pose proof (fread_lt nb s) as F2. destruct (fread nb s) as [v s2]. cbn [fst] in F2.
    assert (2 ^ nb = 2 * T) by (subst T; rewrite <- N.pow_succ_r'; f_equal; lia).
    destruct (N.leb_spec T v); cbn [fst]; lia.
Qed.

Lemma ncount_loop_post : forall fuel maxSV1 remaining threshold nbBits charnum prev0 s acc counts rem' s' S,
  1 <= nbBits -> threshold = 2 ^ (nbBits - 1) -> threshold <= remaining -> remaining < 2 * threshold ->
  remaining + asum acc = S + 1 -> charnum = lenN acc ->
  ncount_loop fuel maxSV1 remaining threshold nbBits charnum prev0 s acc = Ok (counts, rem', s') ->
  rem' + asum counts = S + 1 /\ lenN counts <= maxSV1.
Proof.
  induction fuel as [|f IH]; intros maxSV1 remaining threshold nbBits charnum prev0 s acc counts rem' s' S
    NB ET L U SUM CH H; [discriminate|].
  cbn [ncount_loop] in H.
  (* zero run *)
  set (zr := if prev0 then let '(n0, s0) := read_repeats 256 s 0 in (charnum + n0, s0, repeatN 0%Z n0 acc) else (charnum, s, acc)) in H.
  assert (ZR : exists c1 s1 acc1, zr = (c1, s1, acc1) /\ asum acc1 = asum acc /\ c1 = lenN acc1).
  { unfold zr. destruct prev0.
    - destruct (read_repeats 256 s 0) as [n0 s0]. eexists _, _, _. split; [reflexivity|].
      rewrite repeatN_spec. split.
      + rewrite asum_app, asum_repeat0. lia.
      + rewrite !lenN_spec, app_length, repeat_length in *. lia.
    - eexists _, _, _. split; [reflexivity|]. split; [reflexivity|exact CH]. }
  destruct ZR as (c1 & s1 & acc1 & EZ & A1 & C1). rewrite EZ in H.
  destruct (N.leb_spec maxSV1 c1); [discriminate|].
  pose proof (read_count_bound remaining threshold nbBits s1 NB ET L U) as CB.
  destruct (read_count remaining threshold nbBits s1) as [c s2]. cbn [fst] in CB.
  set (rem1 := remaining - Z.to_N (Z.abs c)) in *.
  assert (R1 : rem1 + Z.to_N (Z.abs c) = remaining) by (unfold rem1; lia).
  assert (SUM1 : rem1 + asum (c :: acc1) = S + 1).
  { cbn [asum fold_right]. fold (asum acc1). lia. }
  destruct (N.leb_spec rem1 1).
  - inversion H; subst counts rem' s'. rewrite RLemmas.rev'_rev, asum_rev. split; [exact SUM1|].
    rewrite !lenN_spec, rev_length in *. cbn [length]. lia.
  - unfold renorm in H.
    assert (LEN1 : c1 + 1 = lenN (c :: acc1)) by (rewrite !lenN_spec in *; cbn [length]; lia).
    destruct (N.ltb_spec rem1 threshold).
    + destruct (N.leb_spec maxSV1 (c1 + 1)); [discriminate|].
      assert (P : 0 < rem1) by lia. pose proof (N.log2_spec rem1 P) as LS. rewrite N.pow_succ_r' in LS.
      assert (NB' : 1 <= N.log2 rem1 + 1) by lia.
      assert (ET' : pow2 (N.log2 rem1 + 1 - 1) = 2 ^ (N.log2 rem1 + 1 - 1)) by apply pow2_spec.
      assert (L' : pow2 (N.log2 rem1 + 1 - 1) <= rem1).
      { rewrite pow2_spec. replace (N.log2 rem1 + 1 - 1) with (N.log2 rem1) by lia. lia. }
      assert (U' : rem1 < 2 * pow2 (N.log2 rem1 + 1 - 1)).
      { rewrite pow2_spec. replace (N.log2 rem1 + 1 - 1) with (N.log2 rem1) by lia. lia. }
      exact (IH _ _ _ _ _ _ _ _ _ _ _ S NB' ET' L' U' SUM1 LEN1 H).
    + destruct (N.leb_spec maxSV1 (c1 + 1)); [discriminate|].
      assert (U' : rem1 < 2 * threshold) by lia.
      exact (IH _ _ _ _ _ _ _ _ _ _ _ S NB ET H2 U' SUM1 LEN1 H).
Qed.

(* FSE table description: accuracy log within [5, maxLog], the normalized counts (with -1 counting for one cell) fill
   the table exactly, at most maxSV + 1 symbols, and the bytes accounted for exist. *)
Theorem read_ncount_post : forall maxSV maxLog src log counts used,
  read_ncount maxSV maxLog src = Ok (log, counts, used) ->
  5 <= log /\ log <= maxLog /\ count_sum counts = Z.of_N (2 ^ log) /\ lenN counts <= maxSV + 1 /\ used <= lenN src.
Proof.
  intros maxSV maxLog src log counts used H. unfold read_ncount in H.
  apply bind_ok in H. destruct H as (u0 & _ & H).
  destruct (fread 4 (fbits src, 0)) as [lowbits s1].
  apply bind_ok in H. destruct H as (u1 & G1 & H). apply guard_ok in G1. apply N.leb_le in G1.
  apply bind_ok in H. destruct H as ([[cs rem] [bs nbits]] & NL & H).
  apply bind_ok in H. destruct H as (u2 & G2 & H). apply guard_ok in G2. apply N.eqb_eq in G2.
  apply bind_ok in H. destruct H as (u3 & G3 & H). apply guard_ok in G3. apply N.leb_le in G3.
  inversion H; subst log counts used. clear H.
  apply ncount_loop_post with (S := 2 ^ (lowbits + 5)) in NL.
  - destruct NL as [SUM LEN]. split; [lia|]. split; [exact G1|]. split; [rewrite count_sum_asum; f_equal; lia|].
    split; [exact LEN|exact G3].
  - lia.
  - rewrite pow2_spec. f_equal. lia.
  - rewrite !pow2_spec. lia.
  - rewrite !pow2_spec. assert (2 <= 2 ^ (lowbits + 5)).
    { change 2 with (2 ^ 1) at 1. apply N.pow_le_mono_r; lia. } lia.
  - cbn [asum fold_right]. rewrite pow2_spec. lia.
  - reflexivity.
Qed.

Example ncount_example :   (* hypotheses are satisfiable *)
  match read_ncount 23 15 [129; 30; 19; 17; 73; 82; 84; 0; 0] with Ok (log, _, used) => (log, used) | Err _ _ => (0, 0) end = (6, 9).
Proof. vm_compute. reflexivity. Qed.

Example huf_example :
  match read_huf_weights 12 [130; 18; 48] with Ok (all, log, used) => (all, log, used) | Err _ _ => ([], 0, 0) end = ([1; 2; 3; 1], 3, 3).
Proof. vm_compute. reflexivity. Qed.
