(* Model of the frame walkers of the legacy formats built by default (ZSTDv05/v06/v07_findFrameSizeInfoLegacy, lib/legacy/zstd_v0X.c),
   which ZSTD_findFrameCompressedSize / ZSTD_decompressBound / ZSTD_decompressionMargin / the multi-frame decoder run on untrusted
   bytes (round 3; follows the code after fixes f23db1d, 2aabd2c, 39f3df0).
     frame header   v0.5: 5 bytes; v0.6: 5 + fcs field {0,1,2,8}[byte4 >> 6]; v0.7: 5 + !directMode + did {0,1,2,4}[fhd & 3] + fcs {0,2,4,8}[fhd >> 6]
                    + (directMode && fcs field empty)
     block header   3 bytes: type = byte0 >> 6 (0 compressed, 1 raw, 2 RLE, 3 end), size = byte2 + (byte1 << 8) + ((byte0 & 7) << 16);
                    compressed size of the block = 0 (end), 1 (RLE), size (otherwise)
     end of frame   v0.5 / v0.6: the first block whose compressed size is 0 (an empty raw block too); v0.7: the first block of type end
     bound          per block: 128 KiB, or the block's own regenerated size when a raw block (v0.7: or an RLE block) exceeds 128 KiB
   Bytes are [N] values below 256.  Model only - no proofs in this file. *)
From Coq Require Import NArith List Bool.
Import ListNotations.
Local Open Scope N_scope.

Inductive lver := V5 | V6 | V7.
Inductive werr := WSrcSize | WPrefix | WFuel.
Definition blk := (N * N * N)%type.                       (* type, compressed size, size field *)
Inductive wres := WErr (e : werr) | WOk (csize bound : N) (blocks : list blk).

Definition LBLOCK : N := 131072.

Definition len (l : list N) : N := N.of_nat (length l).
Definition nth4 (l : list N) : N := nth 4 l 0.

Definition magic_ok (v : lver) (src : list N) : bool :=
  match src with
  | b0 :: b1 :: b2 :: b3 :: _ => (b0 =? match v with V5 => 37 | V6 => 38 | V7 => 39 end) && (b1 =? 181) && (b2 =? 47) && (b3 =? 253)
  | _ => false
  end.

Definition sel4 (a b c d i : N) : N := match i with 0 => a | 1 => b | 2 => c | _ => d end.

(* frame header size; the caller has checked |src| >= 5 *)
Definition hdr_size (v : lver) (src : list N) : N :=
  let fhd := nth4 src in
  match v with
  | V5 => 5
  | V6 => 5 + sel4 0 1 2 8 (fhd / 64)
  | V7 => let direct := (fhd / 32) mod 2 in
          let fcs := sel4 0 2 4 8 (fhd / 64) in
          5 + (1 - direct) + sel4 0 1 2 4 (fhd mod 4) + fcs + (if (direct =? 1) && (fcs =? 0) then 1 else 0)
  end.

Definition cblock (ty sz : N) : N := if ty =? 3 then 0 else if ty =? 2 then 1 else sz.

(* what the bound counts for one block *)
Definition counted (v : lver) (b : blk) : N :=
  match b with (ty, cb, sz) =>
    let regen := if ty =? 1 then cb else if (ty =? 2) && match v with V7 => true | _ => false end then sz else 0 in
    if LBLOCK <? regen then regen else LBLOCK
  end.

Fixpoint walk_blocks (v : lver) (fuel : nat) (rest : list N) (consumed bound : N) (acc : list blk) : wres :=
  match fuel with
  | O => WErr WFuel
  | S f =>
      match rest with
      | a :: b :: c :: tl =>
          let ty := a / 64 in
          let sz := c + 256 * b + 65536 * (a mod 8) in
          let cb := cblock ty sz in
          match v with
          | V7 =>
              if ty =? 3 then WOk (consumed + 3) bound (rev acc)
              else if len tl <? cb then WErr WSrcSize
              else walk_blocks v f (skipn (N.to_nat cb) tl) (consumed + 3 + cb) (bound + counted v (ty, cb, sz)) ((ty, cb, sz) :: acc)
          | _ =>
              if len tl <? cb then WErr WSrcSize
              else if cb =? 0 then WOk (consumed + 3) bound (rev acc)
              else walk_blocks v f (skipn (N.to_nat cb) tl) (consumed + 3 + cb) (bound + counted v (ty, cb, sz)) ((ty, cb, sz) :: acc)
          end
      | _ => WErr WSrcSize
      end
  end.

Definition walk (v : lver) (src : list N) : wres :=
  let n := len src in
  if n <? (match v with V7 => 8 | _ => 5 end) then WErr WSrcSize
  else if negb (magic_ok v src) then WErr WPrefix
  else
    let h := hdr_size v src in
    if match v with V5 => false | _ => n <? h + 3 end then WErr WSrcSize
    else walk_blocks v (S (length src)) (skipn (N.to_nat h) src) h 0 [].

(* the decoders, block by block: what a block may regenerate (raw: its size; RLE: v0.7 only, the size field; compressed: at most
   128 KiB since 39f3df0; [limit = false] is the decoder before that fix) *)
Definition allowed (limit : bool) (v : lver) (b : blk) (r : N) : Prop :=
  match b with (ty, cb, sz) =>
    if ty =? 1 then r = cb
    else if ty =? 2 then match v with V7 => r = sz | _ => False end
    else if ty =? 0 then (if limit then r <= LBLOCK else True)
    else False
  end.

Definition sumN (l : list N) : N := fold_right N.add 0 l.
