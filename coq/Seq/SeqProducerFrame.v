(* C17, round 2 - a whole frame compressed through a registered sequence producer: one producer call per block, every block
   handed to ZSTD_copySequencesToSeqStoreExplicitBlockDelim.  [producer_frame atpos]: atpos = false is the code before fix: e3dc2db
   (ZSTD_buildSeqStore starts every block from ZSTD_sequencePosition {0,0,0}), atpos = true hands the copier the position
   of the block in the frame.  What validation guarantees for the two, and closed witnesses that the first one both refuses
   valid parses and accepts offsets beyond the window. *)
From Coq Require Import NArith ZArith List Bool Lia.
From ZV.Codec Require Import Bytes Block.
From ZV.Seq Require Import SeqApi SeqSpec SeqProofs SeqProducer.
Import ListNotations.
Local Open Scope N_scope.

Local Arguments store_seq : simpl never.
Local Arguments bump : simpl never.

(* what one producer call left in extSeqBuf and returned, and the size of the block it was asked about *)
Record pcall := { pc_buf : list zseq; pc_nb : N; pc_cap : N; pc_size : N }.

(* block loop with a producer.  A block that falls back to the internal parser leaves the model (Invalid 22): what the
   internal parser stores is not modelled.  [dec] = commit decisions of the entropy stage, as in cs_loop. *)
Fixpoint producer_frame (atpos : bool) (cfg : scfg) (ers fb : bool) (calls : list pcall) (rep : reps) (pos : N) (dec : list bool)
  : outc (list blk) :=
  match calls with
  | [] => Done []
  | c :: r =>
    match producer_block_at cfg ers fb (pc_buf c) (pc_nb c) (pc_cap c) (pc_size c) rep (if atpos then pos else 0) with
    | PRstore br =>
      let commit := match dec with [] => true | d :: _ => d end in
      let rep' := if commit then r_rep br else rep in
      olet rest <- producer_frame atpos cfg ers fb r rep' (pos + pc_size c) (tl dec);
      Done ({| b_size := pc_size c; b_seqs := r_seqs br; b_lastLL := r_lastLL br; b_rep_in := rep; b_tiny := false;
               b_last := match r with [] => true | _ => false end |} :: rest)
    | PRfallback => Invalid 22
    | PRfail_producer => Invalid 21
    | PRfail_invalid s => Invalid s
    | PRoob s => Oob s
    end
  end.

Lemma producer_block_at_0 cfg ers fb buf nb cap sz rep :
  producer_block_at cfg ers fb buf nb cap sz rep 0 = producer_block cfg ers fb buf nb cap sz rep.
Proof. reflexivity. Qed.

(* ---------- one block at a position ---------- *)
Theorem producer_block_at_store_sound cfg ers fallback buf nb capacity srcSize rep pos br :
  producer_block_at cfg ers fallback buf nb capacity srcSize rep pos = PRstore br ->
  (forall seqs, post_process buf nb capacity srcSize = PPok seqs -> Forall off_ok seqs) -> rep_ok rep ->
  decode_offsets rep (r_seqs br) = Ok (map t_raw (r_seqs br), r_rep br) /\ rep_ok (r_rep br) /\
  stored_sum32 (r_seqs br) + r_lastLL br = srcSize /\
  (g_fixed cfg = true -> g_validate cfg = true -> srcSize < M32 -> stored_rule cfg pos (r_seqs br)).
Proof.
  unfold producer_block_at. intros H Hoff Hr.
  destruct (post_process buf nb capacity srcSize) as [seqs|] eqn:Ep; [|destruct fallback; discriminate].
  destruct (srcSize <? length_sum seqs); [discriminate|].
  destruct (copy_explicit cfg ers srcSize seqs rep pos) as [[rest br']| |] eqn:Ec; try discriminate.
  inversion H; subst br'. specialize (Hoff seqs eq_refl).
  destruct (copy_explicit_lockstep _ _ _ _ _ _ _ _ Ec Hoff Hr) as [Hd Hro].
  split; [exact Hd|]. split; [exact Hro|]. split; [exact (explicit_block_lengths_agree _ _ _ _ _ _ _ _ Ec)|].
  intros Hf Hv Hs. exact (proj1 (copy_explicit_rule _ _ _ _ _ _ _ _ Hf Hv Hs Ec)).
Qed.

Theorem producer_block_at_memory_safe cfg ers fallback buf nb capacity srcSize rep pos :
  g_fixed cfg = true -> g_validate cfg = true -> g_wlog cfg <= 31 -> pos + srcSize + g_dict cfg + 3 < M32 ->
  (N.to_nat nb <= length buf)%nat \/ capacity < nb ->
  forall site, producer_block_at cfg ers fallback buf nb capacity srcSize rep pos <> PRoob site.
Proof.
  intros Hf Hv Hw Hs Hbuf site. unfold producer_block_at.
  destruct (post_process buf nb capacity srcSize) as [seqs|] eqn:Ep; [|destruct fallback; discriminate].
  destruct (srcSize <? length_sum seqs) eqn:El; [discriminate|]. apply N.ltb_ge in El.
  destruct (copy_explicit cfg ers srcSize seqs rep pos) as [[rest br]| |] eqn:Ec; try discriminate.
  intros _.
  assert (Hc : safe_ctx cfg srcSize pos) by (repeat split; try assumption; lia).
  destruct (N.eq_0_gt_0_cases srcSize) as [Hz|Hz].
  - unfold post_process in Ep. destruct (capacity <? nb); [discriminate|].
    subst srcSize. rewrite andb_false_r in Ep. cbn in Ep. inversion Ep; subst seqs.
    refine (copy_explicit_safe_sum _ _ _ _ _ _ Hc _ _ _ Ec).
    + cbn. lia.
    + exists (delim 0). split; [left; reflexivity|reflexivity].
  - assert (Hlen : (N.to_nat nb <= length buf)%nat).
    { destruct Hbuf as [Hb|Hb]; [exact Hb|]. unfold post_process in Ep. apply N.ltb_lt in Hb. rewrite Hb in Ep. discriminate. }
    destruct (post_process_has_delim _ _ _ _ _ Ep Hz Hlen) as (d & Hin & Hd).
    exact (copy_explicit_safe_sum _ _ _ _ _ _ Hc El (ex_intro _ d (conj Hin Hd)) _ Ec).
Qed.

(* ---------- the frame ---------- *)
Definition calls_small (calls : list pcall) : Prop := Forall (fun c => pc_size c < M32) calls.
Definition calls_off_ok (calls : list pcall) : Prop :=
  Forall (fun c => forall seqs, post_process (pc_buf c) (pc_nb c) (pc_cap c) (pc_size c) = PPok seqs -> Forall off_ok seqs) calls.
Fixpoint calls_total (calls : list pcall) : N := match calls with [] => 0 | c :: r => pc_size c + calls_total r end.

(* with the position of the block in the frame, validation on: an accepted frame obeys the documented rule block after block
   (blocks_rule = the conclusion of C17_validation_complete for ZSTD_compressSequences, i.e. R's strict window rule) *)
Theorem producer_frame_rule cfg ers fb : forall calls rep pos dec blks,
  g_fixed cfg = true -> g_validate cfg = true -> calls_small calls ->
  producer_frame true cfg ers fb calls rep pos dec = Done blks -> blocks_rule cfg pos blks.
Proof.
  induction calls as [|c r IH]; intros rep pos dec blks Hf Hv Hs H.
  - cbn in H. inversion H; subst. exact I.
  - inversion Hs as [|? ? Hc Hs']; subst. cbn [producer_frame] in H.
    destruct (producer_block_at cfg ers fb (pc_buf c) (pc_nb c) (pc_cap c) (pc_size c) rep pos) as [br| | | |] eqn:Eb; try discriminate.
    match type of H with context [producer_frame true cfg ers fb r ?rp ?pp ?dd] =>
      destruct (producer_frame true cfg ers fb r rp pp dd) as [rest| |] eqn:Er end; cbn [obind] in H; try discriminate.
    inversion H; subst blks. cbn [blocks_rule b_seqs b_size]. split.
    + unfold producer_block_at in Eb.
      destruct (post_process (pc_buf c) (pc_nb c) (pc_cap c) (pc_size c)) as [seqs|]; [|destruct fb; discriminate].
      destruct (pc_size c <? length_sum seqs); [discriminate|].
      destruct (copy_explicit cfg ers (pc_size c) seqs rep pos) as [[rest0 br']| |] eqn:Ec; try discriminate.
      inversion Eb; subst br'. exact (proj1 (copy_explicit_rule _ _ _ _ _ _ _ _ Hf Hv Hc Ec)).
    + exact (IH _ _ _ _ Hf Hv Hs' Er).
Qed.

(* both variants: the codes of every block decode (decoder's repeat-offset rule) to the raw offsets the producer gave, for
   every list of commit decisions; every block's lengths fill the block *)
Theorem producer_frame_lockstep atpos cfg ers fb : forall calls rep pos dec blks,
  calls_off_ok calls -> rep_ok rep ->
  producer_frame atpos cfg ers fb calls rep pos dec = Done blks ->
  blocks_lockstep rep dec blks /\ Forall (fun b => stored_sum32 (b_seqs b) + b_lastLL b = b_size b) blks /\
  map b_size blks = map pc_size calls.
Proof.
  induction calls as [|c r IH]; intros rep pos dec blks Ho Hr H.
  - cbn in H. inversion H; subst. cbn. repeat split; constructor.
  - inversion Ho as [|? ? Hc Ho']; subst. cbn [producer_frame] in H.
    destruct (producer_block_at cfg ers fb (pc_buf c) (pc_nb c) (pc_cap c) (pc_size c) rep (if atpos then pos else 0)) as [br| | | |] eqn:Eb;
      try discriminate.
    match type of H with context [producer_frame atpos cfg ers fb r ?rp ?pp ?dd] =>
      destruct (producer_frame atpos cfg ers fb r rp pp dd) as [rest| |] eqn:Er end; cbn [obind] in H; try discriminate.
    inversion H; subst blks.
    destruct (producer_block_at_store_sound _ _ _ _ _ _ _ _ _ _ Eb Hc Hr) as (Hd & Hro & Hsum & _).
    assert (Hr' : rep_ok (if match dec with [] => true | d :: _ => d end then r_rep br else rep)) by (destruct dec as [|[] ?]; assumption).
    destruct (IH _ _ _ _ Ho' Hr' Er) as (IL & IS & IM).
    split; [|split].
    + cbn [blocks_lockstep b_rep_in b_seqs b_tiny]. split; [reflexivity|]. exists (r_rep br). split; [exact Hd|exact IL].
    + constructor; [exact Hsum|exact IS].
    + cbn [map b_size]. f_equal. exact IM.
Qed.

(* memory safety of the frame, position-correct variant: whatever the producer wrote or returned in any call *)
Theorem producer_frame_memory_safe cfg ers fb : forall calls rep pos dec,
  g_fixed cfg = true -> g_validate cfg = true -> g_wlog cfg <= 31 -> pos + calls_total calls + g_dict cfg + 3 < M32 ->
  Forall (fun c => (N.to_nat (pc_nb c) <= length (pc_buf c))%nat \/ pc_cap c < pc_nb c) calls ->
  not_oob (producer_frame true cfg ers fb calls rep pos dec).
Proof.
  induction calls as [|c r IH]; intros rep pos dec Hf Hv Hw Ht Hb site.
  - cbn. discriminate.
  - inversion Hb as [|? ? Hc Hb']; subst. cbn [calls_total] in Ht. cbn [producer_frame].
    destruct (producer_block_at cfg ers fb (pc_buf c) (pc_nb c) (pc_cap c) (pc_size c) rep pos) as [br| | | |s] eqn:Eb; try discriminate.
    + match goal with |- context [producer_frame true cfg ers fb r ?rp ?pp ?dd] =>
        destruct (producer_frame true cfg ers fb r rp pp dd) as [rest| |s'] eqn:Er end; cbn [obind]; try discriminate.
      exfalso. refine (IH _ _ _ Hf Hv Hw _ Hb' s' Er). lia.
    + exfalso. refine (producer_block_at_memory_safe _ _ _ _ _ _ _ _ _ Hf Hv Hw _ Hc s Eb). lia.
Qed.
(* the code before fix: e3dc2db (position 0 in every block) is memory-safe as well: the finding is about the rule, not about safety *)
Theorem producer_frame_memory_safe_as_is cfg ers fb : forall calls rep pos dec,
  g_fixed cfg = true -> g_validate cfg = true -> g_wlog cfg <= 31 ->
  Forall (fun c => pc_size c + g_dict cfg + 3 < M32) calls ->
  Forall (fun c => (N.to_nat (pc_nb c) <= length (pc_buf c))%nat \/ pc_cap c < pc_nb c) calls ->
  not_oob (producer_frame false cfg ers fb calls rep pos dec).
Proof.
  induction calls as [|c r IH]; intros rep pos dec Hf Hv Hw Ht Hb site.
  - cbn. discriminate.
  - inversion Hb as [|? ? Hc Hb']; subst. inversion Ht as [|? ? Htc Ht']; subst. cbn [producer_frame].
    destruct (producer_block_at cfg ers fb (pc_buf c) (pc_nb c) (pc_cap c) (pc_size c) rep 0) as [br| | | |s] eqn:Eb; try discriminate.
    + match goal with |- context [producer_frame false cfg ers fb r ?rp ?pp ?dd] =>
        destruct (producer_frame false cfg ers fb r rp pp dd) as [rest| |s'] eqn:Er end; cbn [obind]; try discriminate.
      exfalso. exact (IH _ _ _ Hf Hv Hw Ht' Hb' s' Er).
    + exfalso. refine (producer_block_at_memory_safe _ _ _ _ _ _ _ _ _ Hf Hv Hw _ Hc s Eb). lia.
Qed.

(* ---------- closed witnesses (finding C17-producer-validation-position-restarts-per-block) ---------- *)
Definition wcfg (wlog dict : N) : scfg :=
  {| g_wlog := wlog; g_minMatch := 4; g_validate := true; g_producer := true; g_dict := dict; g_maxNbSeq := 341; g_fixed := true |}.
Definition lit_call (n : N) : pcall := {| pc_buf := [delim n]; pc_nb := 1; pc_cap := 344; pc_size := n |}.

(* (1) false rejection: two blocks of 1024 bytes, the second one {off 1024, ll 0, ml 1024}: a legal offset at frame position
   1024 (it is a valid parse whenever block 1 repeats block 0), refused by the code before fix: e3dc2db, accepted at the frame position *)
Definition w1_calls : list pcall :=
  [lit_call 1024; {| pc_buf := [{| q_off := 1024; q_ll := 0; q_ml := 1024 |}; delim 0]; pc_nb := 2; pc_cap := 344; pc_size := 1024 |}].
Theorem producer_position_false_rejection :
  producer_frame false (wcfg 17 0) true false w1_calls (1, 4, 8) 0 [] = Invalid 1 /\
  (exists blks, producer_frame true (wcfg 17 0) true false w1_calls (1, 4, 8) 0 [] = Done blks /\ blocks_rule (wcfg 17 0) 0 blks) /\
  offset_bound (wcfg 17 0) 1024 = 1024.
Proof.
  split; [vm_compute; reflexivity|]. split; [|vm_compute; reflexivity].
  eexists. split; [vm_compute; reflexivity|]. cbn. vm_compute. repeat split; discriminate.
Qed.

(* (2) false acceptance: window 2^10, dictionary of 2000 bytes, sixth block (frame position 5120) answered with
   {off 2500, ll 1000, ml 24}: position of the match 6120 > window, so the bound is the window (1024); the code before fix: e3dc2db
   compares 2500 with 1000 + 2000 and stores the sequence *)
Definition w2_calls : list pcall :=
  [lit_call 1024; lit_call 1024; lit_call 1024; lit_call 1024; lit_call 1024;
   {| pc_buf := [{| q_off := 2500; q_ll := 1000; q_ml := 24 |}; delim 0]; pc_nb := 2; pc_cap := 344; pc_size := 1024 |}].
Theorem producer_position_false_acceptance :
  (exists blks, producer_frame false (wcfg 10 2000) true false w2_calls (1, 4, 8) 0 [] = Done blks /\ ~ blocks_rule (wcfg 10 2000) 0 blks) /\
  producer_frame true (wcfg 10 2000) true false w2_calls (1, 4, 8) 0 [] = Invalid 1 /\
  offset_bound (wcfg 10 2000) 6120 = 1024.
Proof.
  split; [|split; vm_compute; reflexivity].
  eexists. split; [vm_compute; reflexivity|].
  intros H. vm_compute in H. decompose [and] H.
  match goal with Hx : Gt = Gt -> False |- _ => exact (Hx eq_refl) end.
Qed.

(* ---------- dictionary in zstd format (finding C17-validation-counts-dictionary-header): the copiers take the size of the
   whole dictionary buffer as dictSize.  Whatever is added to the content size widens the accepted set by exactly that many
   offsets at every position inside the first window. ---------- *)
Definition with_dict (cfg : scfg) (d : N) : scfg :=
  {| g_wlog := g_wlog cfg; g_minMatch := g_minMatch cfg; g_validate := g_validate cfg; g_producer := g_producer cfg; g_dict := d;
     g_maxNbSeq := g_maxNbSeq cfg; g_fixed := g_fixed cfg |}.
Lemma offset_bound_with_dict cfg d pos : pos <= pow2 (g_wlog cfg) -> offset_bound (with_dict cfg d) pos = pos + d.
Proof.
  intros H. unfold offset_bound, with_dict. cbn [g_wlog g_dict].
  destruct (N.ltb_spec (pow2 (g_wlog cfg)) pos); [lia|reflexivity].
Qed.
Theorem dict_header_widens_bound cfg content header pos :
  pos <= pow2 (g_wlog cfg) ->
  offset_bound (with_dict cfg (content + header)) pos = offset_bound (with_dict cfg content) pos + header.
Proof. intros H. rewrite !offset_bound_with_dict by exact H. lia. Qed.
Theorem dict_header_accepts_beyond_content cfg content header pos ml :
  pos <= pow2 (g_wlog cfg) -> 1 <= header -> match_len_lower cfg <= ml ->
  validate_fixed (with_dict cfg (content + header)) (pos + content + header) ml pos = true /\
  validate_fixed (with_dict cfg content) (pos + content + header) ml pos = false.
Proof.
  intros Hp Hh Hm.
  assert (Hl : forall d, match_len_lower (with_dict cfg d) = match_len_lower cfg) by reflexivity.
  unfold validate_fixed. rewrite !offset_bound_with_dict by exact Hp. rewrite !Hl.
  assert (E1 : (pos + content + header =? 0) = false) by (apply N.eqb_neq; lia).
  assert (E2 : (pos + (content + header) <? pos + content + header) = false) by (apply N.ltb_ge; lia).
  assert (E3 : (ml <? match_len_lower cfg) = false) by (apply N.ltb_ge; exact Hm).
  assert (E4 : (pos + content <? pos + content + header) = true) by (apply N.ltb_lt; lia).
  rewrite E1, E2, E3, E4. split; reflexivity.
Qed.

(* ---------- finding C17-producer-fallback-stale-third-repcode ----------
   A block that falls back to the internal parser leaves the model (Invalid 22 above): the parsers below btopt hand back their
   two repeat offsets and leave the third entry of nextCBlock->rep at its value from the start of the block.  What that does
   to the next producer block: the copier codes raw offset 5 against its own history (150, 64, 5) as repeat code 3, which the
   decoder, whose history after the fallback block is (150, 64, 37), resolves to 37.  With the decoder's history the code
   resolves to the raw offset (C17_offbase_finalisation_lockstep_one, for every history). *)
Theorem stale_third_repcode_breaks_lockstep :
  let enc := (150, 64, 5) in let dec := (150, 64, 37) in
  let ob := finalize_offbase 5 enc false in
  ob = 3 /\ resolve_offset ob 1 dec = Ok (37, (37, 150, 64)) /\ resolve_offset ob 1 enc = Ok (5, (5, 150, 64)).
Proof. vm_compute. repeat split; reflexivity. Qed.
