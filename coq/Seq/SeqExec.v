(* C17 - executing a valid parse reproduces the source (naive LZ decoder [exec_parse] of SeqApi.v). *)
From Coq Require Import NArith ZArith List Bool Lia.
From ZV.Codec Require Import Bytes Block.
From ZV.Seq Require Import SeqApi SeqSpec.
Import ListNotations.

(* the literal stream a compressor emits for parse S of x, starting at source position pos *)
Fixpoint literals_of (S : list zseq) (x : list N) (pos : nat) : list N :=
  match S with
  | [] => skipn pos x
  | s :: r => firstn (N.to_nat (q_ll s)) (skipn pos x)
              ++ literals_of r x (pos + N.to_nat (q_ll s) + N.to_nat (q_ml s))
  end.

Lemma lenN_acc_length {A} (l : list A) : forall acc, lenN_acc l acc = (acc + N.of_nat (length l))%N.
Proof.
  induction l as [|a l IH]; intros acc; cbn [lenN_acc length].
  - lia.
  - rewrite IH. lia.
Qed.
Lemma lenN_length {A} (l : list A) : lenN l = N.of_nat (length l).
Proof. unfold lenN. rewrite lenN_acc_length. lia. Qed.

Lemma firstn_plus {A} (l : list A) : forall n m, firstn (n + m) l = firstn n l ++ firstn m (skipn n l).
Proof.
  induction l as [|a l IH]; intros n m.
  - rewrite !firstn_nil, skipn_nil, firstn_nil. reflexivity.
  - destruct n; cbn; [reflexivity|]. rewrite IH. reflexivity.
Qed.

Lemma firstn_succ_nth {A} (l : list A) d : forall n, (n < length l)%nat -> firstn (S n) l = firstn n l ++ [nth n l d].
Proof.
  induction l as [|a l IH]; intros n Hn; cbn in Hn; [lia|].
  destruct n; cbn; [reflexivity|]. rewrite <- IH by lia. reflexivity.
Qed.

Lemma nth_prefix {A} (d : A) (a x : list A) p i :
  (i < length a + p)%nat -> (p <= length x)%nat -> nth i (a ++ firstn p x) d = nth i (a ++ x) d.
Proof.
  intros Hi Hp. destruct (Nat.lt_ge_cases i (length a)) as [Hl|Hl].
  - rewrite !app_nth1 by assumption. reflexivity.
  - rewrite !app_nth2 by assumption.
    rewrite <- (firstn_skipn p x) at 2. rewrite app_nth1; [reflexivity|]. rewrite firstn_length. lia.
Qed.

(* copying a valid match byte by byte extends the decoded prefix by the match *)
Lemma copy_bytes_valid dict x off : forall n p,
  (p + n <= length x)%nat -> (1 <= N.to_nat off <= length dict + p)%nat ->
  (forall i, (i < n)%nat -> nth (length dict + p + i) (dict ++ x) 0%N = nth (length dict + p + i - N.to_nat off) (dict ++ x) 0%N) ->
  copy_bytes n (dict ++ firstn p x) off = dict ++ firstn (p + n) x.
Proof.
  induction n as [|n IH]; intros p Hle Hoff Hm.
  - cbn. rewrite Nat.add_0_r. reflexivity.
  - cbn [copy_bytes].
    assert (Hlen : length (dict ++ firstn p x) = (length dict + p)%nat) by (rewrite app_length, firstn_length; lia).
    rewrite Hlen.
    rewrite nth_prefix by lia.
    pose proof (Hm 0%nat ltac:(lia)) as H0. rewrite Nat.add_0_r in H0. rewrite <- H0.
    rewrite app_nth2 by lia. replace (length dict + p - length dict)%nat with p by lia.
    rewrite <- app_assoc. rewrite <- (firstn_succ_nth x 0%N) by lia.
    replace (p + S n)%nat with (S p + n)%nat by lia.
    apply IH; try lia.
    intros i Hi. specialize (Hm (S i) ltac:(lia)).
    replace (length dict + S p + i)%nat with (length dict + p + S i)%nat by lia. exact Hm.
Qed.

Lemma match_ok_nat dict x p ml off :
  match_ok (hist_of dict x) (lenN dict) (N.of_nat p) ml off ->
  (1 <= N.to_nat off <= length dict + p)%nat /\
  (forall i, (i < N.to_nat ml)%nat ->
     nth (length dict + p + i) (dict ++ x) 0%N = nth (length dict + p + i - N.to_nat off) (dict ++ x) 0%N).
Proof.
  intros (H1 & H2 & H3). rewrite lenN_length in *. split; [lia|].
  intros i Hi. specialize (H3 (N.of_nat i) ltac:(lia)). unfold hist_of in H3.
  replace (N.to_nat (N.of_nat (length dict) + N.of_nat p + N.of_nat i)) with (length dict + p + i)%nat in H3 by lia.
  replace (N.to_nat (N.of_nat (length dict) + N.of_nat p + N.of_nat i - off)) with (length dict + p + i - N.to_nat off)%nat in H3 by lia.
  exact H3.
Qed.

Lemma valid_from_pos_le byte D E S : forall pos, valid_from byte D pos S E -> (pos <= E)%N.
Proof.
  induction S as [|t S IHS]; intros q Hv; cbn in Hv; [exact Hv|].
  destruct Hv as (_ & _ & Hv). apply IHS in Hv. lia.
Qed.

Lemma exec_parse_valid dict x S : forall p,
  valid_from (hist_of dict x) (lenN dict) (N.of_nat p) S (lenN x) ->
  let '(out, rest) := exec_parse S (dict ++ firstn p x) (literals_of S x p) in out ++ rest = dict ++ x.
Proof.
  induction S as [|s S IH]; intros p Hv.
  - cbn. rewrite <- app_assoc, firstn_skipn. reflexivity.
  - cbn [valid_from] in Hv. destruct Hv as (Hml & Hmt & Hv').
    assert (Hle : (p + N.to_nat (q_ll s) + N.to_nat (q_ml s) <= length x)%nat).
    { apply valid_from_pos_le in Hv'. rewrite lenN_length in Hv'. lia. }
    cbn [exec_parse literals_of].
    set (ll := N.to_nat (q_ll s)) in *. set (ml := N.to_nat (q_ml s)) in *.
    assert (Hfl : length (firstn ll (skipn p x)) = ll) by (rewrite firstn_length, skipn_length; lia).
    rewrite firstn_app, Hfl, Nat.sub_diag, firstn_O, app_nil_r, firstn_firstn, Nat.min_id.
    rewrite skipn_app, Hfl, Nat.sub_diag. cbn [skipn].
    rewrite (skipn_all2 (firstn ll (skipn p x))) by lia. cbn [app].
    rewrite <- app_assoc, <- firstn_plus.
    replace (N.of_nat p + q_ll s)%N with (N.of_nat (p + ll)) in Hmt by lia.
    destruct (match_ok_nat _ _ _ _ _ Hmt) as [Ho Hm].
    rewrite (copy_bytes_valid dict x (q_off s) ml (p + ll)) by (try lia; exact Hm).
    apply IH. replace (N.of_nat (p + ll + ml)) with (N.of_nat p + q_ll s + q_ml s)%N by lia. exact Hv'.
Qed.

(* lz_exec_valid_parse: decoding a valid parse of x over the literals of x gives back x (after the dictionary) *)
Theorem lz_exec_valid_parse dict x S :
  valid_parse_global dict x S ->
  let '(out, rest) := exec_parse S dict (literals_of S x 0) in out ++ rest = dict ++ x.
Proof.
  intros Hv. unfold valid_parse_global in Hv.
  pose proof (exec_parse_valid dict x S 0 Hv) as H. cbn [firstn] in H. rewrite app_nil_r in H. exact H.
Qed.
