(* C17 - model of the sequence-level compression API of lib/compress/zstd_compress.c
   (ZSTD_compressSequences, ZSTD_generateSequences / ZSTD_mergeBlockDelimiters, the block-level
   sequence-producer path of ZSTD_buildSeqStore).  Model only - no proofs in this file.

   Conventions.  Fields of ZSTD_Sequence are U32 in C: every place where the C code adds or subtracts
   two U32 values is written with [add32] / [sub32] (arithmetic mod 2^32); size_t / pointer arithmetic
   is unbounded N.  An outcome is [Done v] (the C function returns success and v), [Invalid site]
   (it returns an error code; site tells which test fired) or [Oob site] (the C code would read or
   write outside the block / the sequence array: undefined behaviour, no prediction). *)
From Coq Require Import NArith List Bool.
From ZV.Codec Require Import Bytes Block.
Import ListNotations.
Local Open Scope N_scope.

Definition M32 : N := 4294967296.
Definition add32 (a b : N) : N := (a + b) mod M32.
Definition sub32 (a b : N) : N := (a + M32 - b mod M32) mod M32.

(* ---------- data ---------- *)
Record zseq := { q_off : N; q_ll : N; q_ml : N }.           (* ZSTD_Sequence (rep is unused by the compressor) *)
Definition is_delim (s : zseq) : bool := (q_off s =? 0) && (q_ml s =? 0).
Definition delim (ll : N) : zseq := {| q_off := 0; q_ll := ll; q_ml := 0 |}.

Record sseq := { t_ll : N; t_ml : N; t_ob : N;              (* one seqStore entry: litLength, matchLength, offBase *)
                 t_raw : N }.                               (* ghost: the raw offset the entry was made from *)
Definition reps := (N * N * N)%type.                        (* rep[0], rep[1], rep[2] *)
Definition rep_start : reps := (1, 4, 8).

Inductive outc (A : Type) := Done (a : A) | Invalid (site : N) | Oob (site : N).
Arguments Done {A} a.
Arguments Invalid {A} site.
Arguments Oob {A} site.
Definition obind {A B} (r : outc A) (f : A -> outc B) : outc B :=
  match r with Done a => f a | Invalid s => Invalid s | Oob s => Oob s end.
Notation "'olet' x <- r ; k" := (obind r (fun x => k)) (at level 200, x pattern, r at level 100, k at level 200).

Record scfg := {
  g_wlog : N;          (* appliedParams.cParams.windowLog *)
  g_minMatch : N;      (* appliedParams.cParams.minMatch *)
  g_validate : bool;   (* appliedParams.validateSequences *)
  g_producer : bool;   (* ZSTD_hasExtSeqProd *)
  g_dict : N;          (* dictSize as computed at the top of the copiers *)
  g_maxNbSeq : N;      (* seqStore.maxNbSeq *)
  g_fixed : bool }.    (* true : the code as repaired (fix: commits after findings F4 / repcode bypass / U32 wrap): every piece is
                                 first checked against what remains of the block with size_t sums, then - when validating - the
                                 RAW offset is tested against the bound at the position where the match STARTS, before any
                                 repcode substitution;
                          false: the code of the pinned snapshot: posInSrc is advanced by the U32 sum litLength+matchLength
                                 first, the bound is computed from that end position and compared with offBase AFTER repcode
                                 substitution; kept for the refutation witnesses *)

(* ---------- ZSTD_validateSequence ---------- *)
Definition match_len_lower (cfg : scfg) : N := if (g_minMatch cfg =? 3) || g_producer cfg then 3 else 4.
Definition offset_bound (cfg : scfg) (pos : N) : N :=
  let w := pow2 (g_wlog cfg) in if w <? pos then w else pos + g_dict cfg.
Definition validate_sequence (cfg : scfg) (offBase ml pos : N) : bool :=
  negb (offset_bound cfg pos + 3 <? offBase) && negb (ml <? match_len_lower cfg).

(* repaired ZSTD_validateSequence(rawOffset, matchLength, minMatch, position of the match start, ...) *)
Definition validate_fixed (cfg : scfg) (raw ml pos : N) : bool :=
  negb (raw =? 0) && negb (offset_bound cfg pos <? raw) && negb (ml <? match_len_lower cfg).

(* ---------- ZSTD_finalizeOffBase / ZSTD_updateRep ---------- *)
Definition finalize_offbase (raw : N) (rep : reps) (ll0 : bool) : N :=
  let '(r0, r1, r2) := rep in
  if negb ll0 && (raw =? r0) then 1
  else if raw =? r1 then (if ll0 then 1 else 2)
  else if raw =? r2 then (if ll0 then 2 else 3)
  else if ll0 && (raw =? sub32 r0 1) then 3
  else add32 raw 3.

(* repCode = OFFBASE_TO_REPCODE(offBase) - 1 + ll0, in U32 *)
Definition rep_index (offBase : N) (ll0 : bool) : N := sub32 (offBase + (if ll0 then 1 else 0)) 1.

Definition update_rep (rep : reps) (offBase : N) (ll0 : bool) : reps :=
  let '(r0, r1, r2) := rep in
  if 3 <? offBase then (offBase - 3, r0, r1)
  else
    let rc := rep_index offBase ll0 in
    if rc =? 0 then rep
    else
      let cur := if rc =? 3 then sub32 r0 1 else if rc =? 1 then r1 else r2 in
      (cur, r0, if 2 <=? rc then r1 else r2).

(* offBase and new history for one sequence; ers = searchForExternalRepcodes enabled *)
Definition code_offset (ers : bool) (raw ll : N) (rep : reps) : N * reps :=
  if ers then
    let ob := finalize_offbase raw rep (ll =? 0) in (ob, update_rep rep ob (ll =? 0))
  else (add32 raw 3, rep).

(* ---------- shared "store one sequence" step of both copiers ---------- *)
Record cst := {           (* running state of a copier inside one block *)
  k_rep : reps;           (* updatedRepcodes *)
  k_pos : N;              (* seqPos->posInSrc *)
  k_ip : N;               (* ip - src : bytes of the block already covered *)
  k_cnt : N;              (* idx - seqPos->idx *)
  k_acc : list sseq }.    (* seqStore, newest first *)

Definition store_tail (cfg : scfg) (ers : bool) (bsz raw ll ml pos' : N) (st : cst) : outc cst :=
  let '(ob, rep') := code_offset ers raw ll (k_rep st) in
  if ers && (ob =? 0) && negb (ll =? 0) then Oob 9   (* raw offset 2^32-3: OFFSET_TO_OFFBASE wraps to 0, ZSTD_updateRep reads rep[0xFFFFFFFF] *)
  else if g_maxNbSeq cfg <=? k_cnt st then Invalid 2
  else if bsz <? k_ip st + ll then Oob 3          (* ZSTD_storeSeq copies litLength bytes starting at ip; limit is iend *)
  else Done {| k_rep := rep'; k_pos := pos'; k_ip := k_ip st + add32 ml ll; k_cnt := k_cnt st;
               k_acc := {| t_ll := ll; t_ml := ml; t_ob := ob; t_raw := raw |} :: k_acc st |}.

Definition store_seq (cfg : scfg) (ers : bool) (bsz : N) (raw ll ml : N) (st : cst) : outc cst :=
  if g_fixed cfg then
    if (k_ip st <=? bsz) && (bsz - k_ip st <? ll + ml) then Invalid 14       (* "Sequence is longer than the block" (size_t sum) *)
    else if g_validate cfg && negb (validate_fixed cfg raw ml (k_pos st + ll)) then Invalid 1
    else store_tail cfg ers bsz raw ll ml (if g_validate cfg then k_pos st + ll + ml else k_pos st) st
  else
    let pos' := if g_validate cfg then k_pos st + add32 ll ml else k_pos st in
    let '(ob, _) := code_offset ers raw ll (k_rep st) in
    if ers && (ob =? 0) && negb (ll =? 0) then Oob 9
    else if g_validate cfg && negb (validate_sequence cfg ob ml pos') then Invalid 1
    else store_tail cfg ers bsz raw ll ml pos' st.

Definition bump (st : cst) : cst :=
  {| k_rep := k_rep st; k_pos := k_pos st; k_ip := k_ip st; k_cnt := k_cnt st + 1; k_acc := k_acc st |}.

(* ---------- ZSTD_copySequencesToSeqStoreExplicitBlockDelim ---------- *)
(* loop "for (; idx < inSeqsSize && (ml != 0 || off != 0); ++idx)"; returns the list starting AT the delimiter
   and the raw offsets of the sequences passed, newest first *)
Fixpoint ex_loop (cfg : scfg) (ers : bool) (bsz : N) (S : list zseq) (st : cst) (offs : list N)
  : outc (list zseq * cst * list N) :=
  match S with
  | [] => Done ([], st, offs)
  | s :: r =>
    if is_delim s then Done (S, st, offs)
    else
      olet st' <- store_seq cfg ers bsz (q_off s) (q_ll s) (q_ml s) st;
      ex_loop cfg ers bsz r (bump st') (q_off s :: offs)
  end.

(* repcode history rebuilt from the last raw offsets when repcode search was skipped;
   [offs] = raw offsets of the block's sequences, newest first *)
Definition rebuild_rep (rep : reps) (offs : list N) : reps :=
  let '(r0, r1, r2) := rep in
  match offs with
  | [] => rep
  | [a] => (a, r0, r1)
  | [a; b] => (a, b, r0)
  | a :: b :: c :: _ => (a, b, c)
  end.

Record blockres := {
  r_seqs : list sseq;     (* seqStore of the block, in order *)
  r_lastLL : N;           (* last literals *)
  r_rep : reps;           (* nextCBlock->rep *)
  r_pos : N;              (* posInSrc afterwards *)
  r_adj : N }.            (* returned bytesAdjustment (0 in explicit mode) *)

Definition copy_explicit (cfg : scfg) (ers : bool) (bsz : N) (S : list zseq) (rep : reps) (pos : N)
  : outc (list zseq * blockres) :=
  olet r <- ex_loop cfg ers bsz S {| k_rep := rep; k_pos := pos; k_ip := 0; k_cnt := 0; k_acc := [] |} [];
  let '(rest, st, offs) := r in
  match rest with
  | [] => Oob 4                              (* inSeqs[inSeqsSize] is read *)
  | d :: rest' =>
    let rep' := if ers then k_rep st else rebuild_rep rep offs in
    let ll := q_ll d in
    if (negb (ll =? 0)) && (bsz <? k_ip st + ll) then Oob 5      (* ZSTD_storeLastLiterals before the ip != iend test *)
    else if negb (k_ip st + ll =? bsz) then Invalid 6            (* "Blocksize doesn't agree with block delimiter!" *)
    else Done (rest', {| r_seqs := rev' (k_acc st); r_lastLL := ll; r_rep := rep'; r_pos := k_pos st + ll; r_adj := 0 |})
  end.

(* ---------- ZSTD_copySequencesToSeqStoreNoBlockDelim ---------- *)
(* returns (sequence list from idx, posInSequence, bytesAdjustment, state) at loop exit *)
Fixpoint nd_loop (cfg : scfg) (bsz : N) (S : list zseq) (startp endp : N) (st : cst)
  : outc (list zseq * N * N * cst) :=
  match S with
  | [] => Done ([], endp, 0, st)
  | s :: r =>
    if endp =? 0 then Done (S, 0, 0, st)
    else
      let ll := q_ll s in
      let ml := q_ml s in
      let tot := add32 ll ml in
      if tot <=? endp then
        let '(ll', ml') := if ll <=? startp then (0, sub32 ml (sub32 startp ll)) else (sub32 ll startp, ml) in
        olet st' <- store_seq cfg true bsz (q_off s) ll' ml' st;
        nd_loop cfg bsz r 0 (sub32 endp tot) (bump st')
      else if ll <? endp then
        let ll' := if ll <=? startp then 0 else sub32 ll startp in
        let first := sub32 (sub32 endp startp) ll' in
        if (bsz <? ml) && (g_minMatch cfg <=? first) then
          let second := sub32 (add32 ml ll) endp in
          let adj := if second <? g_minMatch cfg then sub32 (g_minMatch cfg) second else 0 in
          olet st' <- store_seq cfg true bsz (q_off s) ll' (sub32 first adj) st;
          Done (S, sub32 endp adj, adj, st')
        else Done (S, ll, sub32 endp ll, st)
      else Done (S, endp, 0, st)
  end.

Definition copy_no_delim (cfg : scfg) (bsz : N) (S : list zseq) (pis : N) (rep : reps) (pos : N)
  : outc (list zseq * N * blockres) :=
  olet r <- nd_loop cfg bsz S pis (add32 pis bsz) {| k_rep := rep; k_pos := pos; k_ip := 0; k_cnt := 0; k_acc := [] |};
  let '(rest, pis', adj, st) := r in
  if g_fixed cfg && (k_ip st <=? bsz) && (bsz - k_ip st <? adj) then Invalid 15      (* "Sequences overrun the source" *)
  else if bsz <? adj then Oob 7
  else if bsz - adj <? k_ip st then Oob 8                        (* lastLLSize = (U32)(iend - ip) with ip > iend *)
  else
    let lastLL := bsz - adj - k_ip st in
    Done (rest, pis', {| r_seqs := rev' (k_acc st); r_lastLL := lastLL; r_rep := k_rep st;
                         r_pos := k_pos st + lastLL; r_adj := adj |}).

(* ---------- determine_blockSize ---------- *)
Fixpoint explicit_block_size (S : list zseq) (acc : N) : outc N :=
  match S with
  | [] => Invalid 10                                             (* no delimiter *)
  | s :: r =>
    let acc' := acc + add32 (q_ll s) (q_ml s) in
    if q_off s =? 0 then (if q_ml s =? 0 then Done acc' else Invalid 11)
    else explicit_block_size r acc'
  end.

Definition determine_block_size (delims : bool) (bsMax remaining : N) (S : list zseq) : outc N :=
  if delims then
    olet b <- explicit_block_size S 0;
    if bsMax <? b then Invalid 12
    else if remaining <? b then Invalid 13
    else Done b
  else Done (if remaining <=? bsMax then remaining else bsMax).

(* ---------- ZSTD_compressSequences_internal : the block loop ---------- *)
Record blk := {
  b_size : N;             (* bytes of source covered by the block *)
  b_seqs : list sseq;
  b_lastLL : N;
  b_rep_in : reps;        (* repcode history the block's codes refer to *)
  b_tiny : bool;          (* emitted raw because smaller than MIN_CBLOCK_SIZE + header + 2 *)
  b_last : bool }.

Definition TINY : N := 7. (* MIN_CBLOCK_SIZE + ZSTD_blockHeaderSize + 1 + 1 *)

(* [dec]: for every non-tiny block, whether the entropy stage emitted it as a compressed block (true:
   repcodes are confirmed) or as raw / RLE (false: the history stays).  That choice belongs to the
   entropy coder, which is not modelled; all statements quantify over every such list. *)
Fixpoint cs_loop (fuel : nat) (cfg : scfg) (delims ers : bool) (bsMax : N) (S : list zseq) (pis pos remaining : N)
         (rep : reps) (dec : list bool) : outc (list blk) :=
  if remaining =? 0 then Done []
  else match fuel with
  | O => Invalid 98                                              (* no progress: C loops until dst is exhausted -> error *)
  | S f =>
    olet bs <- determine_block_size delims bsMax remaining S;
    let last := bs =? remaining in
    olet c <- (if delims then
                 olet r <- copy_explicit cfg ers bs S rep pos; Done (fst r, 0, snd r)
               else copy_no_delim cfg bs S pis rep pos);
    let '(S', pis', br) := c in
    let bs' := bs - r_adj br in
    if bs' <? TINY then
      olet rest <- cs_loop f cfg delims ers bsMax S' pis' (r_pos br) (remaining - bs') rep dec;
      Done ({| b_size := bs'; b_seqs := r_seqs br; b_lastLL := r_lastLL br; b_rep_in := rep; b_tiny := true; b_last := last |} :: rest)
    else
      let commit := match dec with [] => true | d :: _ => d end in
      let rep' := if commit then r_rep br else rep in
      let b := {| b_size := bs'; b_seqs := r_seqs br; b_lastLL := r_lastLL br; b_rep_in := rep; b_tiny := false; b_last := last |} in
      if last then Done [b]
      else
        olet rest <- cs_loop f cfg delims ers bsMax S' pis' (r_pos br) (remaining - bs') rep' (tl dec);
        Done (b :: rest)
  end.

Definition compress_sequences (cfg : scfg) (delims ers : bool) (bsMax srcSize : N) (S : list zseq) (rep : reps) (dec : list bool)
  : outc (list blk) :=
  cs_loop (length S + N.to_nat srcSize + 2) cfg delims ers bsMax S 0 0 srcSize rep dec.

(* ---------- ZSTD_mergeBlockDelimiters ---------- *)
Fixpoint merge_delims (S : list zseq) (carry : N) : list zseq :=
  match S with
  | [] => []
  | s :: r =>
    let ll := add32 (q_ll s) carry in
    if is_delim s then merge_delims r ll
    else {| q_off := q_off s; q_ll := ll; q_ml := q_ml s |} :: merge_delims r 0
  end.

(* ---------- ZSTD_copyBlockSequences (one block of ZSTD_generateSequences) ---------- *)
(* seqDef.litLength is a U16: the history update reads the truncated field ("inSeqs[i].litLength == 0"), while the
   raw offset is computed from the corrected length (outSeqs[i].litLength, after adding 0x10000 for a long length) *)
Definition ll0_stored (ll : N) : bool := ll mod 65536 =? 0.
Record gseq := { o_seq : zseq; o_rep : N }.
(* [fixll] = false: the code as found (truncated field); true: the repaired rule (corrected length) *)
Fixpoint copy_block_sequences (fixll : bool) (stored : list sseq) (rep : reps) : list gseq :=
  match stored with
  | [] => []
  | t :: r =>
    let '(r0, r1, r2) := rep in
    let ob := t_ob t in
    let isrep := (1 <=? ob) && (ob <=? 3) in
    let raw := if isrep then
                 (if negb (t_ll t =? 0) then (if ob =? 1 then r0 else if ob =? 2 then r1 else r2)
                  else (if ob =? 3 then sub32 r0 1 else if ob =? 1 then r1 else r2))
               else ob - 3 in
    {| o_seq := {| q_off := raw; q_ll := t_ll t; q_ml := t_ml t |}; o_rep := if isrep then ob else 0 |}
      :: copy_block_sequences fixll r (update_rep rep ob (if fixll then t_ll t =? 0 else ll0_stored (t_ll t)))
  end.
Definition generate_block (fixll : bool) (stored : list sseq) (lastLL : N) (rep : reps) : list gseq :=
  copy_block_sequences fixll stored rep ++ [{| o_seq := delim lastLL; o_rep := 0 |}].

(* ---------- ZSTD_sequenceBound ---------- *)
Definition sequence_bound (srcSize : N) : N := (srcSize / 3 + 1) + (srcSize / 1024 + 1).

(* ---------- external sequence producer : ZSTD_postProcessSequenceProducerResult + fallback decision ---------- *)
Inductive ppres := PPok (seqs : list zseq) | PPfail.
(* [buf] = content of extSeqBuf after the callback (at least nb entries when nb <= capacity) *)
Definition post_process (buf : list zseq) (nb capacity srcSize : N) : ppres :=
  if capacity <? nb then PPfail
  else if (nb =? 0) && (0 <? srcSize) then PPfail
  else if srcSize =? 0 then PPok [delim 0]
  else
    let used := firstn (N.to_nat nb) buf in
    let lastq := nth (N.to_nat (nb - 1)) buf (delim 0) in
    if is_delim lastq then PPok used
    else if nb =? capacity then PPfail
    else PPok (used ++ [delim 0]).

Fixpoint length_sum (S : list zseq) : N :=
  match S with [] => 0 | s :: r => q_ll s + q_ml s + length_sum r end.

Inductive prodres :=
  | PRstore (b : blockres)        (* sequences accepted, seqStore filled *)
  | PRfallback                    (* internal block compressor is used for this block *)
  | PRfail_producer               (* compression fails: sequenceProducer_failed *)
  | PRfail_invalid (site : N)     (* compression fails: externalSequences_invalid *)
  | PRoob (site : N).

Definition producer_block (cfg : scfg) (ers fallback : bool) (buf : list zseq) (nb capacity srcSize : N) (rep : reps)
  : prodres :=
  match post_process buf nb capacity srcSize with
  | PPfail => if fallback then PRfallback else PRfail_producer
  | PPok seqs =>
    if srcSize <? length_sum seqs then PRfail_invalid 20
    else match copy_explicit cfg ers srcSize seqs rep 0 with
         | Done (_, br) => PRstore br
         | Invalid s => PRfail_invalid s
         | Oob s => PRoob s
         end
  end.

(* round 2: the same block handed to the copier with the position [pos] of the block in the frame (what validation needs:
   an offset may reach into the earlier blocks of the frame).  [producer_block] is the instance pos = 0, i.e. the code
   before fix: e3dc2db, where ZSTD_buildSeqStore started every block from ZSTD_sequencePosition {0,0,0}. *)
Definition producer_block_at (cfg : scfg) (ers fallback : bool) (buf : list zseq) (nb capacity srcSize : N) (rep : reps)
  (pos : N) : prodres :=
  match post_process buf nb capacity srcSize with
  | PPfail => if fallback then PRfallback else PRfail_producer
  | PPok seqs =>
    if srcSize <? length_sum seqs then PRfail_invalid 20
    else match copy_explicit cfg ers srcSize seqs rep pos with
         | Done (_, br) => PRstore br
         | Invalid s => PRfail_invalid s
         | Oob s => PRoob s
         end
  end.

(* ---------- LZ semantics of a parse ---------- *)
(* history as a function from absolute index to byte; the dictionary occupies [0, D), the source [D, D+n) *)
Definition hist_of (dict x : list N) : N -> N := fun i => nth (N.to_nat i) (dict ++ x) 0.

(* naive executable LZ decoder: [out] oldest first *)
Fixpoint copy_bytes (n : nat) (out : list N) (off : N) : list N :=
  match n with
  | O => out
  | S n' => copy_bytes n' (out ++ [nth (length out - N.to_nat off) out 0]) off
  end.
(* executes a parse over the literal stream [lits]; returns the output (dictionary included) and unused literals *)
Fixpoint exec_parse (S : list zseq) (out lits : list N) : list N * list N :=
  match S with
  | [] => (out, lits)
  | s :: r =>
    let ll := N.to_nat (q_ll s) in
    let out1 := out ++ firstn ll lits in
    exec_parse r (copy_bytes (N.to_nat (q_ml s)) out1 (q_off s)) (skipn ll lits)
  end.

(* boolean checker of the per-sequence rules of a parse at position [pos] of the source (executable) *)
Definition bytes_match (h : N -> N) (D p ml off : N) : bool :=
  forallb (fun i => h (D + p + N.of_nat i) =? h (D + p + N.of_nat i - off)) (List.seq 0%nat (N.to_nat ml)).
