(* C17 - specification-side definitions (what the theorems talk about).  No proofs in this file. *)
From Coq Require Import NArith List Bool.
From ZV.Codec Require Import Bytes Block.
From ZV.Seq Require Import SeqApi.
Import ListNotations.
Local Open Scope N_scope.

(* ---------- decoder side of the offset codes ---------- *)
(* what a conformant decoder (resolve_offset of R) makes of the codes of one block, starting from history [rep] *)
Fixpoint decode_offsets (rep : reps) (st : list sseq) : res (list N * reps) :=
  match st with
  | [] => Ok ([], rep)
  | t :: r =>
    do ro <- resolve_offset (t_ob t) (t_ll t) rep;
    do rr <- decode_offsets (snd ro) r;
    Ok (fst ro :: fst rr, snd rr)
  end.

(* A decoder that starts a frame with history [rep], decodes the blocks emitted as compressed blocks ([dec] says
   which of the non-tiny ones are) and keeps its history across raw / RLE blocks, resolves every code of every
   block to the raw offset the entry was made from. *)
Fixpoint blocks_lockstep (rep : reps) (dec : list bool) (blks : list blk) : Prop :=
  match blks with
  | [] => True
  | b :: r =>
    b_rep_in b = rep /\
    exists rep', decode_offsets rep (b_seqs b) = Ok (map t_raw (b_seqs b), rep') /\
      if b_tiny b then blocks_lockstep rep dec r
      else blocks_lockstep (if match dec with [] => true | d :: _ => d end then rep' else rep) (tl dec) r
  end.

Definition rep_ok (rep : reps) : Prop :=
  let '(r0, r1, r2) := rep in 1 <= r0 < M32 /\ 1 <= r1 < M32 /\ 1 <= r2 < M32.

Definition off_ok (s : zseq) : Prop := is_delim s = true \/ (1 <= q_off s /\ q_off s + 3 < M32).

(* ---------- LZ validity ---------- *)
(* [byte] : absolute index -> byte; the dictionary occupies [0, D), the source starts at D.
   A match of length ml at source position p with offset off copies from p - off. *)
Definition match_ok (byte : N -> N) (D p ml off : N) : Prop :=
  1 <= off /\ off <= D + p /\ forall i, i < ml -> byte (D + p + i) = byte (D + p + i - off).

(* S is a valid parse of the source from position [pos] on (E = source size; bytes after the last sequence are literals) *)
Fixpoint valid_from (byte : N -> N) (D pos : N) (S : list zseq) (E : N) : Prop :=
  match S with
  | [] => pos <= E
  | s :: r => 1 <= q_ml s /\ match_ok byte D (pos + q_ll s) (q_ml s) (q_off s) /\
              valid_from byte D (pos + q_ll s + q_ml s) r E
  end.

Definition valid_parse_global (dict x : list N) (S : list zseq) : Prop :=
  valid_from (hist_of dict x) (lenN dict) 0 S (lenN x).

(* format rule for an offset at the start of a match (position p of the frame content) *)
Definition window_ok (W D p off : N) : Prop := off <= (if W <? p then W else p + D).

Fixpoint window_from (W D pos : N) (S : list zseq) : Prop :=
  match S with
  | [] => True
  | s :: r => window_ok W D (pos + q_ll s) (q_off s) /\ window_from W D (pos + q_ll s + q_ml s) r
  end.

(* the seqStore of one block laid over the source from position [pos] *)
Fixpoint stored_ok (byte : N -> N) (D pos : N) (st : list sseq) : Prop :=
  match st with
  | [] => True
  | t :: r => 1 <= t_ml t /\ match_ok byte D (pos + t_ll t) (t_ml t) (t_raw t) /\
              stored_ok byte D (pos + t_ll t + t_ml t) r
  end.
Fixpoint stored_end (pos : N) (st : list sseq) : N :=
  match st with [] => pos | t :: r => stored_end (pos + t_ll t + t_ml t) r end.

(* the blocks cover [P, E) of the source; every block is a valid parse of its slice w.r.t. the whole history *)
Fixpoint blocks_valid (byte : N -> N) (D P : N) (blks : list blk) (E : N) : Prop :=
  match blks with
  | [] => P = E
  | b :: r => stored_ok byte D P (b_seqs b) /\ stored_end P (b_seqs b) + b_lastLL b = P + b_size b /\
              blocks_valid byte D (P + b_size b) r E
  end.

(* every stored match is at least [m] long *)
Definition stored_minlen (m : N) (st : list sseq) : Prop := Forall (fun t => m <= t_ml t) st.

(* ---------- validation ---------- *)
(* the documented rule evaluated on one block, [pos] = position of the block's first byte *)
Fixpoint rule_holds (cfg : scfg) (pos : N) (S : list zseq) : Prop :=
  match S with
  | [] => True
  | s :: r => if is_delim s then True
              else (q_off s <= offset_bound cfg (pos + q_ll s) /\ match_len_lower cfg <= q_ml s) /\
                   rule_holds cfg (pos + q_ll s + q_ml s) r
  end.

(* same on the stored pieces of a block laid from position [pos] *)
Fixpoint stored_rule (cfg : scfg) (pos : N) (st : list sseq) : Prop :=
  match st with
  | [] => True
  | t :: r => (1 <= t_raw t /\ t_raw t <= offset_bound cfg (pos + t_ll t) /\ match_len_lower cfg <= t_ml t) /\
              stored_rule cfg (pos + t_ll t + t_ml t) r
  end.
Fixpoint blocks_rule (cfg : scfg) (P : N) (blks : list blk) : Prop :=
  match blks with
  | [] => True
  | b :: r => stored_rule cfg P (b_seqs b) /\ blocks_rule cfg (P + b_size b) r
  end.

Definition nowrap (S : list zseq) : Prop := Forall (fun s => q_ll s + q_ml s < M32) S.

(* the sequences of the first block: everything before the first delimiter *)
Fixpoint block_part (S : list zseq) : list zseq :=
  match S with [] => [] | s :: r => if is_delim s then [] else s :: block_part r end.

(* ---------- explicit-delimiter lists ---------- *)
(* match placement of a list: (position, length, offset) of every non-delimiter entry; delimiters only carry literals *)
Fixpoint placements (pos : N) (S : list zseq) : list (N * N * N) :=
  match S with
  | [] => []
  | s :: r => if is_delim s then placements (pos + q_ll s) r
              else (pos + q_ll s, q_ml s, q_off s) :: placements (pos + q_ll s + q_ml s) r
  end.

Fixpoint total_len (S : list zseq) : N :=
  match S with [] => 0 | s :: r => q_ll s + q_ml s + total_len r end.
Fixpoint sum32 (S : list zseq) : N :=
  match S with [] => 0 | s :: r => add32 (q_ll s) (q_ml s) + sum32 r end.

(* configurations *)
Definition cfg_found (wlog minMatch dict maxNb : N) (validate : bool) : scfg :=
  {| g_wlog := wlog; g_minMatch := minMatch; g_validate := validate; g_producer := false; g_dict := dict;
     g_maxNbSeq := maxNb; g_fixed := false |}.
Definition cfg_fixed (wlog minMatch dict maxNb : N) (validate : bool) : scfg :=
  {| g_wlog := wlog; g_minMatch := minMatch; g_validate := validate; g_producer := false; g_dict := dict;
     g_maxNbSeq := maxNb; g_fixed := true |}.
Definition is_done {A} (o : outc A) : bool := match o with Done _ => true | _ => false end.
Definition is_oob {A} (o : outc A) : bool := match o with Oob _ => true | _ => false end.
