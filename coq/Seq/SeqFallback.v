(* C17, round 3 - a frame compressed through a registered sequence producer in which blocks may FALL BACK to the internal parser
   (ZSTD_c_enableSeqProducerFallback): the fallback branch of ZSTD_buildSeqStore.  The internal parser itself is not modelled: what
   it stores for a block is an input ([px_parser], a function of the repeat-offset history the block starts from, as in the C code,
   where the parser reads prevCBlock->rep).  What IS modelled is the history the context keeps after such a block:
     fbfix = true  : the code since fix: a9c9307 - nextCBlock->rep is rebuilt from the seqStore with ZSTD_updateRep, starting from
                     prevCBlock->rep ([fallback_history]);
     fbfix = false : the code before it - the parsers below btopt write back their two repeat offsets and leave the third entry
                     of nextCBlock->rep at its value from the start of the block ([fp_rep01], third entry of the old history).
   Proved: with the rebuilt history the whole frame stays in lock-step with the decoder for every list of producer answers,
   every internal-parser output whose codes are decodable, every history and every list of commit decisions; the stale variant
   has a closed counterexample frame (finding C17-producer-fallback-stale-third-repcode). *)
From Coq Require Import NArith ZArith List Bool Lia.
From ZV.Codec Require Import Bytes Block.
From ZV.Seq Require Import SeqApi SeqSpec SeqProofs SeqProducer SeqProducerFrame.
Import ListNotations.
Local Open Scope N_scope.

Local Arguments store_seq : simpl never.
Local Arguments bump : simpl never.

(* what the internal parser left for one block: its seqStore, the last literals, and the two repeat offsets it writes back *)
Record fbparse := { fp_seqs : list sseq; fp_lastLL : N; fp_rep01 : N * N }.

(* ZSTD_buildSeqStore, fallback branch, since a9c9307:
     memcpy(&hist, prevCBlock->rep); for (sq ...) ZSTD_updateRep(hist.rep, sq->offBase, litLength == 0); memcpy(nextCBlock->rep, &hist) *)
Definition fallback_history (rep : reps) (seqs : list sseq) : reps :=
  fold_left (fun r t => update_rep r (t_ob t) (t_ll t =? 0)) seqs rep.

(* before a9c9307 (strategies below btopt): rep[0], rep[1] written back by the parser, rep[2] untouched *)
Definition stale_history (rep : reps) (fp : fbparse) : reps :=
  let '(_, _, r2) := rep in (fst (fp_rep01 fp), snd (fp_rep01 fp), r2).

Record pcallx := { px_call : pcall; px_parser : reps -> fbparse }.

Fixpoint producer_frame_fb (fbfix atpos : bool) (cfg : scfg) (ers fb : bool) (calls : list pcallx) (rep : reps) (pos : N) (dec : list bool)
  : outc (list blk) :=
  match calls with
  | [] => Done []
  | cx :: r =>
    let c := px_call cx in
    let commit := match dec with [] => true | d :: _ => d end in
    let last := match r with [] => true | _ => false end in
    match producer_block_at cfg ers fb (pc_buf c) (pc_nb c) (pc_cap c) (pc_size c) rep (if atpos then pos else 0) with
    | PRstore br =>
      let rep' := if commit then r_rep br else rep in
      olet rest <- producer_frame_fb fbfix atpos cfg ers fb r rep' (pos + pc_size c) (tl dec);
      Done ({| b_size := pc_size c; b_seqs := r_seqs br; b_lastLL := r_lastLL br; b_rep_in := rep; b_tiny := false; b_last := last |} :: rest)
    | PRfallback =>
      let fp := px_parser cx rep in
      let after := if fbfix then fallback_history rep (fp_seqs fp) else stale_history rep fp in
      let rep' := if commit then after else rep in
      olet rest <- producer_frame_fb fbfix atpos cfg ers fb r rep' (pos + pc_size c) (tl dec);
      Done ({| b_size := pc_size c; b_seqs := fp_seqs fp; b_lastLL := fp_lastLL fp; b_rep_in := rep; b_tiny := false; b_last := last |} :: rest)
    | PRfail_producer => Invalid 21
    | PRfail_invalid s => Invalid s
    | PRoob s => Oob s
    end
  end.

(* ---------- the rebuilt history is the decoder's history ---------- *)
Definition codes_ok (seqs : list sseq) : Prop := Forall (fun t => 1 <= t_ob t /\ t_ob t < M32) seqs.

Lemma fallback_history_is_decoder seqs : forall rep offs rd,
  rep_ok rep -> codes_ok seqs ->
  decode_offsets rep seqs = Ok (offs, rd) -> fallback_history rep seqs = rd /\ rep_ok rd.
Proof.
  induction seqs as [|t seqs IH]; intros rep offs rd Hr Hc Hd.
  - cbn in Hd. inversion Hd; subst. split; [reflexivity|exact Hr].
  - inversion Hc as [|? ? [Hob Hlt] Hc']; subst.
    cbn [decode_offsets] in Hd.
    destruct (resolve_offset (t_ob t) (t_ll t) rep) as [[off rep1]|] eqn:Er; cbn [bind fst snd] in Hd; [|discriminate].
    destruct (decode_offsets rep1 seqs) as [[offs1 rep2]|] eqn:Ed; cbn [bind fst snd] in Hd; [|discriminate].
    inversion Hd; subst.
    pose proof (update_rep_is_decoder _ _ _ _ _ Hr Hob Er) as Hu.
    destruct (resolve_offset_ok _ _ _ _ _ Hr Hob Hlt Er) as [Hr1 _].
    unfold fallback_history. cbn [fold_left]. rewrite Hu. exact (IH _ _ _ Hr1 Hc' Ed).
Qed.

(* the internal parser is trusted for this much: started from the decoder's history, it stores codes the decoder can resolve,
   and the ghost field t_raw of its entries is what they resolve to *)
Definition parser_ok (f : reps -> fbparse) : Prop :=
  forall rep, rep_ok rep -> codes_ok (fp_seqs (f rep)) /\
    exists rd, decode_offsets rep (fp_seqs (f rep)) = Ok (map t_raw (fp_seqs (f rep)), rd).

Definition xcalls (calls : list pcallx) : list pcall := map px_call calls.

(* ---------- lock-step of the whole frame, fallback blocks included (code since a9c9307) ---------- *)
Theorem producer_frame_fb_lockstep atpos cfg ers fb : forall calls rep pos dec blks,
  calls_off_ok (xcalls calls) -> Forall (fun cx => parser_ok (px_parser cx)) calls -> rep_ok rep ->
  producer_frame_fb true atpos cfg ers fb calls rep pos dec = Done blks ->
  blocks_lockstep rep dec blks /\ map b_size blks = map pc_size (xcalls calls).
Proof.
  induction calls as [|cx r IH]; intros rep pos dec blks Ho Hp Hr H.
  - cbn in H. inversion H; subst. cbn. split; constructor.
  - inversion Ho as [|? ? Hc Ho']; subst. inversion Hp as [|? ? Hpx Hp']; subst.
    cbn [producer_frame_fb] in H.
    destruct (producer_block_at cfg ers fb (pc_buf (px_call cx)) (pc_nb (px_call cx)) (pc_cap (px_call cx)) (pc_size (px_call cx)) rep
                (if atpos then pos else 0)) as [br| | | |] eqn:Eb; try discriminate.
    + match type of H with context [producer_frame_fb true atpos cfg ers fb r ?rp ?pp ?dd] =>
        destruct (producer_frame_fb true atpos cfg ers fb r rp pp dd) as [rest| |] eqn:Er end; cbn [obind] in H; try discriminate.
      inversion H; subst blks.
      destruct (producer_block_at_store_sound _ _ _ _ _ _ _ _ _ _ Eb Hc Hr) as (Hd & Hro & _ & _).
      assert (Hr' : rep_ok (if match dec with [] => true | d :: _ => d end then r_rep br else rep)) by (destruct dec as [|[] ?]; assumption).
      destruct (IH _ _ _ _ Ho' Hp' Hr' Er) as (IL & IM).
      split.
      * cbn [blocks_lockstep b_rep_in b_seqs b_tiny]. split; [reflexivity|]. exists (r_rep br). split; [exact Hd|exact IL].
      * cbn [map b_size xcalls]. f_equal. exact IM.
    + match type of H with context [producer_frame_fb true atpos cfg ers fb r ?rp ?pp ?dd] =>
        destruct (producer_frame_fb true atpos cfg ers fb r rp pp dd) as [rest| |] eqn:Er end; cbn [obind] in H; try discriminate.
      inversion H; subst blks.
      destruct (Hpx rep Hr) as (Hcodes & rd & Hd).
      destruct (fallback_history_is_decoder _ _ _ _ Hr Hcodes Hd) as (Hfh & Hrd).
      assert (Hr' : rep_ok (if match dec with [] => true | d :: _ => d end then fallback_history rep (fp_seqs (px_parser cx rep)) else rep)).
      { rewrite Hfh. destruct dec as [|[] ?]; assumption. }
      destruct (IH _ _ _ _ Ho' Hp' Hr' Er) as (IL & IM).
      split.
      * cbn [blocks_lockstep b_rep_in b_seqs b_tiny]. split; [reflexivity|]. exists rd. split; [exact Hd|].
        rewrite Hfh in IL. exact IL.
      * cbn [map b_size xcalls]. f_equal. exact IM.
Qed.

(* without a fallback the extended loop is the loop of round 2 *)
Lemma producer_block_at_no_fallback cfg ers buf nb cap sz rep pos :
  producer_block_at cfg ers false buf nb cap sz rep pos <> PRfallback.
Proof.
  unfold producer_block_at. destruct (post_process buf nb cap sz); [|discriminate].
  destruct (sz <? length_sum seqs); [discriminate|].
  destruct (copy_explicit cfg ers sz seqs rep pos) as [[? ?]| |]; discriminate.
Qed.
Theorem producer_frame_fb_no_fallback fbfix atpos cfg ers : forall calls rep pos dec,
  producer_frame_fb fbfix atpos cfg ers false calls rep pos dec = producer_frame atpos cfg ers false (xcalls calls) rep pos dec.
Proof.
  induction calls as [|cx r IH]; intros rep pos dec; [reflexivity|].
  cbn [producer_frame_fb producer_frame xcalls map].
  pose proof (producer_block_at_no_fallback cfg ers (pc_buf (px_call cx)) (pc_nb (px_call cx)) (pc_cap (px_call cx)) (pc_size (px_call cx)) rep
                (if atpos then pos else 0)) as Hn.
  destruct (producer_block_at cfg ers false (pc_buf (px_call cx)) (pc_nb (px_call cx)) (pc_cap (px_call cx)) (pc_size (px_call cx)) rep
              (if atpos then pos else 0)) as [br| | | |]; try reflexivity; [|exfalso; apply Hn; reflexivity].
  fold (xcalls r). rewrite IH. destruct r; reflexivity.
Qed.

(* memory safety is untouched by fallback blocks: whatever the producer wrote or returned and whatever the internal parser stored *)
Theorem producer_frame_fb_memory_safe fbfix cfg ers fb : forall calls rep pos dec,
  g_fixed cfg = true -> g_validate cfg = true -> g_wlog cfg <= 31 -> pos + calls_total (xcalls calls) + g_dict cfg + 3 < M32 ->
  Forall (fun c => (N.to_nat (pc_nb c) <= length (pc_buf c))%nat \/ pc_cap c < pc_nb c) (xcalls calls) ->
  not_oob (producer_frame_fb fbfix true cfg ers fb calls rep pos dec).
Proof.
  unfold xcalls. induction calls as [|cx r IH]; intros rep pos dec Hf Hv Hw Ht Hb site.
  - cbn. discriminate.
  - cbn [map] in Hb, Ht. inversion Hb as [|? ? Hc Hb']; subst. cbn [calls_total] in Ht. cbn [producer_frame_fb].
    destruct (producer_block_at cfg ers fb (pc_buf (px_call cx)) (pc_nb (px_call cx)) (pc_cap (px_call cx)) (pc_size (px_call cx)) rep pos)
      as [br| | | |s] eqn:Eb; try discriminate.
    + match goal with |- context [producer_frame_fb fbfix true cfg ers fb r ?rp ?pp ?dd] =>
        destruct (producer_frame_fb fbfix true cfg ers fb r rp pp dd) as [rest| |s'] eqn:Er end; cbn [obind]; try discriminate.
      exfalso. refine (IH _ _ _ Hf Hv Hw _ Hb' s' Er). lia.
    + match goal with |- context [producer_frame_fb fbfix true cfg ers fb r ?rp ?pp ?dd] =>
        destruct (producer_frame_fb fbfix true cfg ers fb r rp pp dd) as [rest| |s'] eqn:Er end; cbn [obind]; try discriminate.
      exfalso. refine (IH _ _ _ Hf Hv Hw _ Hb' s' Er). lia.
    + exfalso. refine (producer_block_at_memory_safe _ _ _ _ _ _ _ _ _ Hf Hv Hw _ Hc s Eb). lia.
Qed.

(* ---------- closed frames: the witness of finding C17-producer-fallback-stale-third-repcode ----------
   maxBlockSize 1024.  Block 0 (producer): {off 5, ll 120, ml 100} {off 37, ll 3, ml 100} {off 64, ll 3, ml 100}, 598 last
   literals: history (64, 37, 5).  Block 1: the producer returns an error, the internal (fast) parser stores
   {ll 150, ml 874, explicit offset 150}: the decoder's history becomes (150, 64, 37); the parser writes back (150, 64).
   Block 2 (producer): {off 5, ll 4, ml 40} ... *)
Definition fcfg : scfg :=
  {| g_wlog := 17; g_minMatch := 4; g_validate := false; g_producer := true; g_dict := 0; g_maxNbSeq := 341; g_fixed := true |}.
Definition zq (off ll ml : N) : zseq := {| q_off := off; q_ll := ll; q_ml := ml |}.
Definition fast_block : fbparse :=
  {| fp_seqs := [{| t_ll := 150; t_ml := 874; t_ob := 153; t_raw := 150 |}]; fp_lastLL := 0; fp_rep01 := (150, 64) |}.
Definition w3_calls : list pcallx :=
  [{| px_call := {| pc_buf := [zq 5 120 100; zq 37 3 100; zq 64 3 100; delim 598]; pc_nb := 4; pc_cap := 344; pc_size := 1024 |};
      px_parser := fun _ => fast_block |};
   {| px_call := {| pc_buf := []; pc_nb := 345; pc_cap := 344; pc_size := 1024 |}; px_parser := fun _ => fast_block |};
   {| px_call := {| pc_buf := [zq 5 4 40; delim 106]; pc_nb := 2; pc_cap := 344; pc_size := 150 |}; px_parser := fun _ => fast_block |}].

Lemma fast_block_parser_ok : parser_ok (fun _ => fast_block).
Proof.
  intros [[r0 r1] r2] _. split.
  - repeat constructor; cbn; unfold M32; lia.
  - eexists. cbn. reflexivity.
Qed.

(* the hypotheses of the lock-step theorem are satisfiable (and its conclusion is not vacuous: the frame is accepted) *)
Example producer_frame_fb_example :
  calls_off_ok (xcalls w3_calls) /\ Forall (fun cx => parser_ok (px_parser cx)) w3_calls /\ rep_ok (1, 4, 8) /\
  exists blks, producer_frame_fb true true fcfg true true w3_calls (1, 4, 8) 0 [] = Done blks /\ length blks = 3%nat.
Proof.
  split; [|split; [|split]].
  - unfold calls_off_ok, xcalls, w3_calls. cbn [map px_call].
    constructor; [|constructor; [|constructor; [|constructor]]]; intros seqs Hs; vm_compute in Hs; try discriminate;
      inversion Hs; subst; repeat (apply Forall_cons || apply Forall_nil);
      unfold off_ok; cbn; first [left; reflexivity | right; unfold M32; lia].
  - repeat (apply Forall_cons; [exact fast_block_parser_ok|]). apply Forall_nil.
  - cbn. unfold M32. lia.
  - eexists. split; [vm_compute; reflexivity|reflexivity].
Qed.

(* the code before a9c9307 on this frame: the third block codes raw offset 5 as repeat code 3 (its history is (150, 64, 5));
   the decoder, whose history after block 1 is (150, 64, 37), resolves that code to 37: the frame is not in lock-step.
   The code since a9c9307 codes it as an explicit offset and the frame is in lock-step. *)
Theorem fallback_stale_history_frame_refuted :
  (exists blks, producer_frame_fb false true fcfg true true w3_calls (1, 4, 8) 0 [] = Done blks /\
                map (fun b => map t_ob (b_seqs b)) blks = [[8; 40; 67]; [153]; [3]] /\ ~ blocks_lockstep (1, 4, 8) [] blks) /\
  (exists blks, producer_frame_fb true true fcfg true true w3_calls (1, 4, 8) 0 [] = Done blks /\
                map (fun b => map t_ob (b_seqs b)) blks = [[8; 40; 67]; [153]; [8]] /\ blocks_lockstep (1, 4, 8) [] blks).
Proof.
  split.
  - eexists. split; [vm_compute; reflexivity|]. split; [vm_compute; reflexivity|].
    intros H. cbn [blocks_lockstep b_rep_in b_seqs b_tiny tl] in H.
    destruct H as (_ & rep1 & H1 & _ & rep2 & H2 & _ & rep3 & H3 & _).
    vm_compute in H1. inversion H1; subst rep1. vm_compute in H2. inversion H2; subst rep2.
    vm_compute in H3. discriminate.
  - eexists. split; [vm_compute; reflexivity|]. split; [vm_compute; reflexivity|].
    cbn [blocks_lockstep b_rep_in b_seqs b_tiny tl]. split; [reflexivity|].
    eexists. split; [vm_compute; reflexivity|]. split; [reflexivity|].
    eexists. split; [vm_compute; reflexivity|]. split; [reflexivity|].
    eexists. split; [vm_compute; reflexivity|]. exact I.
Qed.
