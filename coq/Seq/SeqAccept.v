(* C17, round 3 - the completeness half for blocks with explicit delimiters: a block whose sequences obey the documented rule
   (offset between 1 and the bound at the position where the match starts, match length at least the lower bound), whose lengths
   fill the block exactly, with at most maxNbSeq sequences, is NEVER refused by ZSTD_copySequencesToSeqStoreExplicitBlockDelim
   (code as repaired, g_fixed = true), validation on or off, searchForExternalRepcodes on or off, from every repeat-offset history.
   Lifted to one producer call and to a whole producer frame (position-correct variant = the code since fix: e3dc2db): a producer
   whose answers are rule-abiding parses at their positions in the frame is never answered with an error - the statement whose
   negation was finding C17-producer-validation-position-restarts-per-block (a). *)
From Coq Require Import NArith ZArith List Bool Lia.
From ZV.Codec Require Import Bytes Block.
From ZV.Seq Require Import SeqApi SeqSpec SeqProofs SeqProducer SeqProducerFrame.
Import ListNotations.
Local Open Scope N_scope.

(* the documented rule, on the caller's sequences (what ZSTD_validateSequence checks, one sequence after the other) *)
Fixpoint rule_list (cfg : scfg) (pos : N) (pre : list zseq) : Prop :=
  match pre with
  | [] => True
  | s :: r => (1 <= q_off s /\ q_off s <= offset_bound cfg (pos + q_ll s) /\ match_len_lower cfg <= q_ml s) /\
              rule_list cfg (pos + q_ll s + q_ml s) r
  end.

Definition nondelims (pre : list zseq) : Prop := Forall (fun s => is_delim s = false) pre.
Definition offs_small (pre : list zseq) : Prop := Forall (fun s => q_off s + 3 < M32) pre.

Lemma validate_fixed_complete cfg raw ml pos :
  1 <= raw -> raw <= offset_bound cfg pos -> match_len_lower cfg <= ml -> validate_fixed cfg raw ml pos = true.
Proof.
  intros H1 H2 H3. unfold validate_fixed.
  assert (E1 : (raw =? 0) = false) by (apply N.eqb_neq; lia).
  assert (E2 : (offset_bound cfg pos <? raw) = false) by (apply N.ltb_ge; lia).
  assert (E3 : (ml <? match_len_lower cfg) = false) by (apply N.ltb_ge; lia).
  rewrite E1, E2, E3. reflexivity.
Qed.

Lemma code_offset_nonzero ers raw ll rep : raw + 3 < M32 -> fst (code_offset ers raw ll rep) <> 0.
Proof.
  intros H. unfold code_offset. destruct ers; cbn [fst].
  - apply finalize_offbase_nonzero. exact H.
  - rewrite add32_small by lia. lia.
Qed.

(* one sequence that fits, obeys the rule and finds room in the seqStore is stored *)
Lemma store_seq_accepts cfg ers bsz raw ll ml st :
  g_fixed cfg = true -> bsz < M32 ->
  k_ip st + ll + ml <= bsz -> raw + 3 < M32 -> k_cnt st < g_maxNbSeq cfg ->
  (g_validate cfg = true -> 1 <= raw /\ raw <= offset_bound cfg (k_pos st + ll) /\ match_len_lower cfg <= ml) ->
  exists st', store_seq cfg ers bsz raw ll ml st = Done st' /\
    k_ip st' = k_ip st + ll + ml /\ k_cnt st' = k_cnt st /\
    (g_validate cfg = true -> k_pos st' = k_pos st + ll + ml).
Proof.
  intros Hf Hb Hfit Hraw Hcnt Hrule. unfold store_seq. rewrite Hf.
  assert (E1 : ((k_ip st <=? bsz) && (bsz - k_ip st <? ll + ml)) = false).
  { apply andb_false_iff. right. apply N.ltb_ge. lia. }
  rewrite E1.
  assert (E2 : (g_validate cfg && negb (validate_fixed cfg raw ml (k_pos st + ll))) = false).
  { destruct (g_validate cfg) eqn:Ev; [|reflexivity]. destruct (Hrule eq_refl) as (A & B & C).
    rewrite (validate_fixed_complete _ _ _ _ A B C). reflexivity. }
  rewrite E2. unfold store_tail.
  pose proof (code_offset_nonzero ers raw ll (k_rep st) Hraw) as Hnz.
  destruct (code_offset ers raw ll (k_rep st)) as [ob rep'] eqn:Ec. cbn [fst] in Hnz.
  assert (E3 : (ers && (ob =? 0) && negb (ll =? 0)) = false).
  { assert (E : (ob =? 0) = false) by (apply N.eqb_neq; exact Hnz). rewrite E, andb_false_r. reflexivity. }
  assert (E4 : (g_maxNbSeq cfg <=? k_cnt st) = false) by (apply N.leb_gt; exact Hcnt).
  assert (E5 : (bsz <? k_ip st + ll) = false) by (apply N.ltb_ge; lia).
  rewrite E3, E4, E5. eexists. split; [reflexivity|]. cbn.
  rewrite add32_small by lia. repeat split; try lia.
  intros Hv. rewrite Hv. reflexivity.
Qed.

Lemma bump_ip st : k_ip (bump st) = k_ip st /\ k_cnt (bump st) = k_cnt st + 1 /\ k_pos (bump st) = k_pos st.
Proof. unfold bump. cbn. repeat split. Qed.

Lemma ex_loop_accepts cfg ers bsz d rest : forall pre st offs,
  g_fixed cfg = true -> bsz < M32 ->
  nondelims pre -> is_delim d = true -> offs_small pre ->
  (g_validate cfg = true -> rule_list cfg (k_pos st) pre) ->
  k_cnt st + N.of_nat (length pre) <= g_maxNbSeq cfg ->
  k_ip st + length_sum pre + q_ll d = bsz ->
  exists st' offs', ex_loop cfg ers bsz (pre ++ d :: rest) st offs = Done (d :: rest, st', offs') /\ k_ip st' + q_ll d = bsz /\
    (g_validate cfg = true -> k_pos st' = k_pos st + length_sum pre).
Proof.
  induction pre as [|s pre IH]; intros st offs Hf Hb Hn Hd Ho Hr Hc Hs.
  - cbn [app ex_loop]. rewrite Hd. exists st, offs. split; [reflexivity|]. cbn [length_sum] in Hs. split; [lia|].
    intros _. cbn [length_sum]. lia.
  - unfold nondelims in Hn. apply Forall_cons_iff in Hn. destruct Hn as [Hsn Hn'].
    unfold offs_small in Ho. apply Forall_cons_iff in Ho. destruct Ho as [Hso Ho'].
    cbn [app ex_loop]. rewrite Hsn. cbn [length_sum] in Hs. cbn [length] in Hc.
    destruct (store_seq_accepts cfg ers bsz (q_off s) (q_ll s) (q_ml s) st Hf Hb) as (st1 & Es & Hip & Hct & Hps); try lia.
    { intros Hv. specialize (Hr Hv). cbn [rule_list] in Hr. exact (proj1 Hr). }
    rewrite Es. cbn [obind].
    destruct (bump_ip st1) as (Bi & Bc & Bp).
    destruct (IH (bump st1) (q_off s :: offs) Hf Hb Hn' Hd Ho') as (st' & offs' & El & Hend & Hpos).
    + intros Hv. rewrite Bp, (Hps Hv). specialize (Hr Hv). cbn [rule_list] in Hr. exact (proj2 Hr).
    + rewrite Bc, Hct. lia.
    + rewrite Bi, Hip. lia.
    + exists st', offs'. split; [exact El|]. split; [exact Hend|].
      intros Hv. rewrite (Hpos Hv), Bp, (Hps Hv). cbn [length_sum]. lia.
Qed.

(* ---------- one block ---------- *)
Theorem copy_explicit_accepts cfg ers bsz pre d rest rep pos :
  g_fixed cfg = true -> bsz < M32 ->
  nondelims pre -> is_delim d = true -> offs_small pre ->
  (g_validate cfg = true -> rule_list cfg pos pre) ->
  N.of_nat (length pre) <= g_maxNbSeq cfg ->
  length_sum pre + q_ll d = bsz ->
  exists br, copy_explicit cfg ers bsz (pre ++ d :: rest) rep pos = Done (rest, br) /\ r_adj br = 0 /\
    (g_validate cfg = true -> r_pos br = pos + bsz).
Proof.
  intros Hf Hb Hn Hd Ho Hr Hc Hs. unfold copy_explicit.
  destruct (ex_loop_accepts cfg ers bsz d rest pre {| k_rep := rep; k_pos := pos; k_ip := 0; k_cnt := 0; k_acc := [] |} []
              Hf Hb Hn Hd Ho) as (st' & offs' & El & Hend & Hpos); cbn [k_pos k_cnt k_ip]; try assumption; try lia.
  rewrite El. cbn [obind].
  assert (E5 : (bsz <? k_ip st' + q_ll d) = false) by (apply N.ltb_ge; lia).
  assert (E6 : (k_ip st' + q_ll d =? bsz) = true) by (apply N.eqb_eq; lia).
  rewrite E5, andb_false_r, E6. cbn [negb]. eexists. split; [reflexivity|]. cbn [r_adj r_pos]. split; [reflexivity|].
  intros Hv. rewrite (Hpos Hv). cbn [k_pos]. lia.
Qed.

(* ---------- one producer call ---------- *)
(* what the producer left, after post-processing, is a rule-abiding parse of the block at frame position [pos] *)
Definition call_abides (cfg : scfg) (pos : N) (c : pcall) : Prop :=
  exists pre d, post_process (pc_buf c) (pc_nb c) (pc_cap c) (pc_size c) = PPok (pre ++ [d]) /\
    nondelims pre /\ is_delim d = true /\ offs_small pre /\ (g_validate cfg = true -> rule_list cfg pos pre) /\
    N.of_nat (length pre) <= g_maxNbSeq cfg /\ length_sum pre + q_ll d = pc_size c /\ pc_size c < M32.

Lemma length_sum_app a b : length_sum (a ++ b) = length_sum a + length_sum b.
Proof. induction a as [|s a IH]; cbn [app length_sum]; [reflexivity|rewrite IH; lia]. Qed.

Theorem producer_block_at_accepts cfg ers fb c rep pos :
  g_fixed cfg = true -> call_abides cfg pos c ->
  exists br, producer_block_at cfg ers fb (pc_buf c) (pc_nb c) (pc_cap c) (pc_size c) rep pos = PRstore br.
Proof.
  intros Hf (pre & d & Hp & Hn & Hd & Ho & Hr & Hc & Hs & Hb). unfold producer_block_at. rewrite Hp.
  assert (Hml : q_ml d = 0).
  { unfold is_delim in Hd. apply andb_true_iff in Hd. destruct Hd as [_ Hd]. apply N.eqb_eq in Hd. exact Hd. }
  assert (E : (pc_size c <? length_sum (pre ++ [d])) = false).
  { apply N.ltb_ge. rewrite length_sum_app. cbn [length_sum]. lia. }
  rewrite E.
  destruct (copy_explicit_accepts cfg ers (pc_size c) pre d [] rep pos Hf Hb Hn Hd Ho Hr Hc Hs) as (br & Hce & _).
  rewrite Hce. eexists. reflexivity.
Qed.

(* ---------- the frame: no false rejection, for every frame (code since e3dc2db) ---------- *)
Fixpoint calls_abide (cfg : scfg) (pos : N) (calls : list pcall) : Prop :=
  match calls with
  | [] => True
  | c :: r => call_abides cfg pos c /\ calls_abide cfg (pos + pc_size c) r
  end.

Theorem producer_frame_accepts cfg ers fb : forall calls rep pos dec,
  g_fixed cfg = true -> calls_abide cfg pos calls ->
  exists blks, producer_frame true cfg ers fb calls rep pos dec = Done blks.
Proof.
  induction calls as [|c r IH]; intros rep pos dec Hf Ha.
  - eexists. reflexivity.
  - destruct Ha as [Hc Ha]. cbn [producer_frame].
    destruct (producer_block_at_accepts cfg ers fb c rep pos Hf Hc) as (br & Eb). rewrite Eb.
    match goal with |- context [producer_frame true cfg ers fb r ?rp ?pp ?dd] =>
      destruct (IH rp pp dd Hf Ha) as (rest & Er) end.
    rewrite Er. cbn [obind]. eexists. reflexivity.
Qed.

(* satisfiable: the second call of the false-rejection witness of round 2 abides at its frame position 1024 (and not at
   position 0, where the code before e3dc2db validated it) *)
Example producer_frame_accepts_example :
  calls_abide (wcfg 17 0) 0 w1_calls /\
  ~ rule_list (wcfg 17 0) 0 [{| q_off := 1024; q_ll := 0; q_ml := 1024 |}].
Proof.
  split.
  - cbn [calls_abide w1_calls]. split; [|split; [|exact I]].
    + exists [], (delim 1024).
      split; [vm_compute; reflexivity|]. split; [constructor|]. split; [reflexivity|]. split; [constructor|].
      split; [intros _; exact I|]. split; [vm_compute; discriminate|]. split; [reflexivity|]. vm_compute. reflexivity.
    + exists [{| q_off := 1024; q_ll := 0; q_ml := 1024 |}], (delim 0).
      split; [vm_compute; reflexivity|]. split; [repeat constructor|]. split; [reflexivity|].
      split; [constructor; [vm_compute; reflexivity|constructor]|].
      split; [intros _; vm_compute; repeat split; discriminate|].
      split; [vm_compute; discriminate|]. split; [reflexivity|]. vm_compute. reflexivity.
  - intros H. vm_compute in H. destruct H as [(_ & H & _) _]. apply H. reflexivity.
Qed.

(* ---------- ZSTD_compressSequences, explicit delimiters: a list made of rule-abiding blocks is accepted ---------- *)
Record xblock := { xb_pre : list zseq; xb_d : zseq }.
Definition xb_size (b : xblock) : N := length_sum (xb_pre b) + q_ll (xb_d b).
Fixpoint flat (bs : list xblock) : list zseq := match bs with [] => [] | b :: r => xb_pre b ++ xb_d b :: flat r end.
Fixpoint xbs_total (bs : list xblock) : N := match bs with [] => 0 | b :: r => xb_size b + xbs_total r end.
Definition xb_ok (cfg : scfg) (bsMax pos : N) (b : xblock) : Prop :=
  Forall (fun s => 1 <= q_off s /\ q_off s + 3 < M32) (xb_pre b) /\ is_delim (xb_d b) = true /\
  (g_validate cfg = true -> rule_list cfg pos (xb_pre b)) /\
  N.of_nat (length (xb_pre b)) <= g_maxNbSeq cfg /\ xb_size b <= bsMax.
Fixpoint xbs_ok (cfg : scfg) (bsMax pos : N) (bs : list xblock) : Prop :=
  match bs with [] => True | b :: r => xb_ok cfg bsMax pos b /\ xbs_ok cfg bsMax (pos + xb_size b) r end.

Lemma xbs_ok_pos_irrelevant cfg bsMax : forall bs p p', g_validate cfg = false -> xbs_ok cfg bsMax p bs -> xbs_ok cfg bsMax p' bs.
Proof.
  induction bs as [|b r IH]; intros p p' Hv H; [exact I|].
  destruct H as [(A & B & C & D & E) H]. split.
  - repeat split; try assumption. intros Hv'. rewrite Hv in Hv'. discriminate.
  - exact (IH _ _ Hv H).
Qed.

Lemma explicit_block_size_accepts d rest : forall pre acc,
  Forall (fun s => 1 <= q_off s /\ q_off s + 3 < M32) pre -> is_delim d = true -> length_sum pre + q_ll d < M32 ->
  explicit_block_size (pre ++ d :: rest) acc = Done (acc + length_sum pre + q_ll d).
Proof.
  induction pre as [|s pre IH]; intros acc Hp Hd Hs.
  - cbn [app explicit_block_size length_sum]. unfold is_delim in Hd. apply andb_true_iff in Hd. destruct Hd as [Ho Hm].
    rewrite Ho, Hm. apply N.eqb_eq in Hm. rewrite Hm. cbn [length_sum] in Hs. rewrite add32_small by lia. f_equal. lia.
  - apply Forall_cons_iff in Hp. destruct Hp as [[Ho _] Hp]. cbn [app explicit_block_size length_sum]. cbn [length_sum] in Hs.
    assert (E : (q_off s =? 0) = false) by (apply N.eqb_neq; lia). rewrite E.
    rewrite add32_small by lia. rewrite IH by (try assumption; lia). f_equal. lia.
Qed.

Lemma pre_nondelims pre : Forall (fun s => 1 <= q_off s /\ q_off s + 3 < M32) pre -> nondelims pre /\ offs_small pre.
Proof.
  intros H. split; (eapply Forall_impl; [|exact H]); intros s [A B].
  - unfold is_delim. assert (E : (q_off s =? 0) = false) by (apply N.eqb_neq; lia). rewrite E. reflexivity.
  - exact B.
Qed.

Theorem explicit_lists_accepted cfg ers bsMax trailing : forall bs fuel pos remaining rep dec,
  g_fixed cfg = true -> bsMax < M32 -> xbs_ok cfg bsMax pos bs -> xbs_total bs = remaining -> (length bs <= fuel)%nat ->
  exists blks, cs_loop fuel cfg true ers bsMax (flat bs ++ trailing) 0 pos remaining rep dec = Done blks.
Proof.
  induction bs as [|b r IH]; intros fuel pos remaining rep dec Hf Hb Hok Ht Hfuel.
  - cbn [xbs_total] in Ht. subst remaining. destruct fuel; eexists; reflexivity.
  - destruct (N.eq_dec remaining 0) as [Hz|Hz].
    { subst remaining. rewrite Hz. destruct fuel; eexists; reflexivity. }
    destruct fuel as [|f]; [cbn [length] in Hfuel; lia|]. cbn [length] in Hfuel.
    destruct Hok as [(Hp & Hd & Hr & Hc & Hsz) Hok]. cbn [xbs_total] in Ht.
    destruct (pre_nondelims _ Hp) as [Hn Ho].
    cbn [cs_loop flat]. apply N.eqb_neq in Hz. rewrite Hz.
    rewrite <- app_assoc. cbn [app].
    unfold determine_block_size.
    rewrite (explicit_block_size_accepts (xb_d b) (flat r ++ trailing) (xb_pre b) 0 Hp Hd) by (unfold xb_size in Hsz; lia).
    cbn [obind]. rewrite N.add_0_l. fold (xb_size b).
    assert (E1 : (bsMax <? xb_size b) = false) by (apply N.ltb_ge; exact Hsz).
    assert (E2 : (remaining <? xb_size b) = false) by (apply N.ltb_ge; lia).
    rewrite E1, E2. cbn [obind].
    destruct (copy_explicit_accepts cfg ers (xb_size b) (xb_pre b) (xb_d b) (flat r ++ trailing) rep pos Hf) as (br & Hce & Hadj & Hpos);
      try assumption; try reflexivity; try lia.
    rewrite Hce. cbn [obind fst snd]. rewrite Hadj, N.sub_0_r.
    assert (Hok' : xbs_ok cfg bsMax (r_pos br) r).
    { destruct (g_validate cfg) eqn:Ev.
      - rewrite (Hpos eq_refl). exact Hok.
      - exact (xbs_ok_pos_irrelevant cfg bsMax r _ _ Ev Hok). }
    assert (Ht' : xbs_total r = remaining - xb_size b) by lia.
    assert (Hfuel' : (length r <= f)%nat) by lia.
    destruct (xb_size b <? TINY).
    + destruct (IH f (r_pos br) (remaining - xb_size b) rep dec Hf Hb Hok' Ht' Hfuel') as (rest & Er).
      rewrite Er. cbn [obind]. eexists. reflexivity.
    + destruct (xb_size b =? remaining); [eexists; reflexivity|].
      match goal with |- context [cs_loop f cfg true ers bsMax _ 0 (r_pos br) _ ?rp ?dd] =>
        destruct (IH f (r_pos br) (remaining - xb_size b) rp dd Hf Hb Hok' Ht' Hfuel') as (rest & Er) end.
      rewrite Er. cbn [obind]. eexists. reflexivity.
Qed.

Lemma flat_length bs : (length bs <= length (flat bs))%nat.
Proof. induction bs as [|b r IH]; cbn [flat length]; [lia|]. rewrite app_length. cbn [length]. lia. Qed.

(* ZSTD_compressSequences itself (explicit delimiters): whatever follows the last block of the source is ignored *)
Theorem compress_sequences_accepts_explicit cfg ers bsMax bs trailing rep dec :
  g_fixed cfg = true -> bsMax < M32 -> xbs_ok cfg bsMax 0 bs ->
  exists blks, compress_sequences cfg true ers bsMax (xbs_total bs) (flat bs ++ trailing) rep dec = Done blks.
Proof.
  intros Hf Hb Hok. unfold compress_sequences.
  apply (explicit_lists_accepted cfg ers bsMax trailing bs _ 0 (xbs_total bs) rep dec Hf Hb Hok eq_refl).
  rewrite app_length. pose proof (flat_length bs). lia.
Qed.

(* satisfiable: two blocks, {off 1, ll 1, ml 9} | 10 literals, then {off 10, ll 0, ml 20} | no literals, validation on *)
Definition xw_blocks : list xblock :=
  [{| xb_pre := [{| q_off := 1; q_ll := 1; q_ml := 9 |}]; xb_d := delim 10 |};
   {| xb_pre := [{| q_off := 10; q_ll := 0; q_ml := 20 |}]; xb_d := delim 0 |}].
Example compress_sequences_accepts_explicit_example :
  xbs_ok (wcfg 17 0) 1024 0 xw_blocks /\ xbs_total xw_blocks = 40 /\
  exists blks, compress_sequences (wcfg 17 0) true true 1024 40 (flat xw_blocks) (1, 4, 8) [] = Done blks /\ length blks = 2%nat.
Proof.
  split; [|split; [reflexivity|eexists; split; [vm_compute; reflexivity|reflexivity]]].
  cbn [xbs_ok xw_blocks]. split; [|split; [|exact I]].
  - split; [repeat constructor; vm_compute; try reflexivity; discriminate|]. split; [reflexivity|].
    split; [intros _; vm_compute; repeat split; discriminate|]. split; vm_compute; discriminate.
  - split; [repeat constructor; vm_compute; try reflexivity; discriminate|]. split; [reflexivity|].
    split; [intros _; vm_compute; repeat split; discriminate|]. split; vm_compute; discriminate.
Qed.

(* ---------- producer frames, validation on: sound AND complete (composition with round 2) ---------- *)
Lemma rule_list_offsets cfg : forall pre pos, rule_list cfg pos pre -> Forall (fun s => 1 <= q_off s) pre.
Proof.
  induction pre as [|s pre IH]; intros pos H; [constructor|].
  destruct H as [(A & _ & _) H]. constructor; [exact A|exact (IH _ H)].
Qed.

Lemma calls_abide_small cfg : forall calls pos, calls_abide cfg pos calls -> calls_small calls.
Proof.
  induction calls as [|c r IH]; intros pos H; [constructor|].
  destruct H as [(pre & d & _ & _ & _ & _ & _ & _ & _ & Hb) H]. constructor; [exact Hb|exact (IH _ H)].
Qed.

Lemma calls_abide_off_ok cfg : g_validate cfg = true -> forall calls pos, calls_abide cfg pos calls -> calls_off_ok calls.
Proof.
  intros Hv. induction calls as [|c r IH]; intros pos H; [constructor|].
  destruct H as [(pre & d & Hp & Hn & Hd & Ho & Hr & _) H]. constructor; [|exact (IH _ H)].
  intros seqs Hs. rewrite Hp in Hs. inversion Hs; subst seqs. apply Forall_app. split.
  - pose proof (rule_list_offsets cfg pre pos (Hr Hv)) as H1. unfold offs_small in Ho.
    rewrite Forall_forall in *. intros s Hin. right. split; [exact (H1 s Hin)|exact (Ho s Hin)].
  - constructor; [left; exact Hd|constructor].
Qed.

Theorem producer_frame_sound_and_complete cfg ers fb calls rep dec :
  g_fixed cfg = true -> g_validate cfg = true -> rep_ok rep -> calls_abide cfg 0 calls ->
  exists blks, producer_frame true cfg ers fb calls rep 0 dec = Done blks /\
    blocks_rule cfg 0 blks /\ blocks_lockstep rep dec blks /\
    Forall (fun b => stored_sum32 (b_seqs b) + b_lastLL b = b_size b) blks /\ map b_size blks = map pc_size calls.
Proof.
  intros Hf Hv Hr Ha.
  destruct (producer_frame_accepts cfg ers fb calls rep 0 dec Hf Ha) as (blks & Hd).
  exists blks. split; [exact Hd|]. split.
  - exact (producer_frame_rule cfg ers fb calls rep 0 dec blks Hf Hv (calls_abide_small cfg calls 0 Ha) Hd).
  - exact (producer_frame_lockstep true cfg ers fb calls rep 0 dec blks (calls_abide_off_ok cfg Hv calls 0 Ha) Hr Hd).
Qed.
