(* C17 x C01: the blocks computed by the model of ZSTD_compressSequences (SeqApi.compress_sequences) from a valid parse,
   handed to the modelled entropy stage (raw literals, predefined FSE tables), form a frame that the reference decoder
   decodes to the source.  Glue between the C17 model (positions / byte functions) and the codec model (lists). *)
From Coq Require Import NArith ZArith List Bool Lia.
From ZV.Codec Require Import Bytes ListLemmas Fse Huf Block Frame Encode EncodeProofs EncodeSeq EncodeLzFrame EncodeLzFrameProofs LzParse LzParseProofs.
From ZV.Seq Require Import SeqApi SeqSpec SeqProofs SeqTranscribe.
Import ListNotations.
Local Open Scope N_scope.

Definition pseq_of (t : sseq) : pseq := {| s_ll := t_ll t; s_ml := t_ml t; s_off := t_raw t; s_ofv := t_ob t |}.

(* which blocks the entropy stage emits as compressed blocks: [dec] is its list of decisions for the non-tiny blocks *)
Fixpoint to_sblocks (dec : list bool) (blks : list blk) : list sblock :=
  match blks with
  | [] => []
  | b :: r =>
    if b_tiny b then SRaw (b_size b) :: to_sblocks dec r
    else
      let d := match dec with [] => true | d :: _ => d end in
      (match b_seqs b with
       | _ :: _ => if d then SLz (b_size b) (map pseq_of (b_seqs b)) else SRaw (b_size b)
       | [] => SRaw (b_size b)
       end) :: to_sblocks (tl dec) r
  end.

(* the per-block facts in the form of the codec model *)
Lemma stored_to_parse dict x : forall st pos rep rep',
  let full := dict ++ x in let D := lenN dict in
  stored_ok (hist_of dict x) D pos st -> D + stored_end pos st <= lenN full ->
  decode_offsets rep st = Ok (map t_raw st, rep') ->
  parse_ok full (D + pos) (map pseq_of st) rep (D + stored_end pos st) rep'.
Proof.
  induction st as [|t r IH]; intros pos rep rep' full D Hs Hb Hd; cbn [stored_ok stored_end decode_offsets map parse_ok] in *.
  - injection Hd as <-. split; reflexivity.
  - destruct Hs as (Hml & (M1 & M2 & M3) & Hr).
    apply LzProofs.bind_Ok in Hd. destruct Hd as ([off rep1] & Hro & Hd).
    apply LzProofs.bind_Ok in Hd. destruct Hd as ([offs rep2] & Hrest & Hd). cbn [fst snd] in Hd. injection Hd as E1 E2 E3. subst rep2.
    exists rep1. cbn [pseq_of s_ofv s_ll s_off s_ml]. split; [rewrite E1 in Hro; exact Hro|].
    assert (Hmono : forall st p, p <= stored_end p st).
    { clear. induction st as [|t r IH]; intros p; cbn [stored_end]; [lia|]. specialize (IH (p + t_ll t + t_ml t)). lia. }
    pose proof (Hmono r (pos + t_ll t + t_ml t)) as Hm.
    split.
    + unfold match_ok. split; [exact M1|]. split; [lia|]. split; [lia|].
      intros i Hi. specialize (M3 i Hi). unfold hist_of in M3. unfold nthN. fold full.
      replace (D + pos + t_ll t + i) with (D + (pos + t_ll t) + i) by lia.
      replace (D + pos + t_ll t + i - t_raw t) with (D + (pos + t_ll t) + i - t_raw t) by lia. exact M3.
    + replace (D + pos + t_ll t + t_ml t) with (D + (pos + t_ll t + t_ml t)) by lia.
      apply IH; [exact Hr|exact Hb|]. rewrite E2 in Hrest. exact Hrest.
Qed.

Lemma blocks_valid_end byte D : forall blks P E, blocks_valid byte D P blks E -> P <= E.
Proof.
  induction blks as [|b r IH]; intros P E H; cbn [blocks_valid] in H; [lia|].
  destruct H as (_ & _ & Hr). apply IH in Hr. lia.
Qed.

Theorem blocks_to_sblocks dict x : forall blks P rep dec,
  let full := dict ++ x in let D := lenN dict in
  blocks_valid (hist_of dict x) D P blks (lenN x) -> blocks_lockstep rep dec blks ->
  sblocks_ok full (D + P) rep (to_sblocks dec blks).
Proof.
  induction blks as [|b r IH]; intros P rep dec full D Hv Hl; cbn [blocks_valid blocks_lockstep to_sblocks sblocks_ok] in *.
  - unfold full, D. rewrite lenN_app. lia.
  - destruct Hv as (Hs & He & Hr). destruct Hl as (Hrep & rep' & Hdo & Hnext).
    pose proof (blocks_valid_end _ _ _ _ _ Hr) as Hend.
    assert (Hfit : D + P + b_size b <= lenN full) by (unfold full, D; rewrite lenN_app; lia).
    destruct (b_tiny b).
    + cbn [sblocks_ok sb_size]. split; [exact Hfit|]. replace (D + P + b_size b) with (D + (P + b_size b)) by lia. apply IH; assumption.
    + destruct (b_seqs b) as [|t0 tr] eqn:Es.
      * cbn [sblocks_ok sb_size]. split; [exact Hfit|]. replace (D + P + b_size b) with (D + (P + b_size b)) by lia.
        apply IH; [exact Hr|]. cbn [decode_offsets map] in Hdo. injection Hdo as <-.
        destruct (match dec with [] => true | d :: _ => d end); exact Hnext.
      * destruct (match dec with [] => true | d :: _ => d end) eqn:Ed.
        -- cbn [sblocks_ok sb_size]. split; [exact Hfit|]. split; [discriminate|].
           exists (D + stored_end P (t0 :: tr)), rep'. split; [|split].
           ++ rewrite <- Es in *. apply stored_to_parse; [exact Hs| |exact Hdo]. unfold D. rewrite lenN_app. lia.
           ++ lia.
           ++ replace (D + P + b_size b) with (D + (P + b_size b)) by lia. apply IH; [exact Hr|exact Hnext].
        -- cbn [sblocks_ok sb_size]. split; [exact Hfit|]. replace (D + P + b_size b) with (D + (P + b_size b)) by lia.
           apply IH; [exact Hr|exact Hnext].
Qed.

(* ---------- the composed statement ---------- *)
Theorem compress_sequences_round_trip cfg0 dcfg d p dictID x S rep dec blks ers bsMax ebs z rest :
  let dict := dict_content d in
  let full := dict ++ x in
  let win := frame_window p (lenN x) in
  let blockMax := N.min (N.min win BLOCK_MAX) (c_block_max dcfg) in
  (* a valid parse of x, accepted and cut into blocks by the model of ZSTD_compressSequences (no explicit delimiters) *)
  lenN x < M32 -> 1 <= g_minMatch cfg0 -> g_minMatch cfg0 <= bsMax ->
  valid_parse_global dict x S ->
  compress_sequences cfg0 false ers bsMax (lenN x) S rep dec = Done blks ->
  offsets_fit false S -> rep_ok rep -> rep = e_rep (dict_entropy d) -> blks <> [] ->
  (* the number-level checks of the format pass for the blocks handed to the entropy stage *)
  pblocks_run (c_strict_window dcfg) win blockMax (z_init d) (to_pblocks full (lenN dict) (to_sblocks dec blks)) = Some (ebs, z) ->
  params_ok p (lenN x) dictID -> c_magicless dcfg = fp_magicless p -> win <= c_window_max dcfg -> dict_ok d p dictID ->
  exists t, decode_frame dcfg d (enc_frame p dictID ebs ++ rest) = Ok (x, t, rest).
Proof.
  intros dict full win blockMax Hx Hm1 Hm2 Hvp Hcs Hof Hrep Erep Hne Hrun Hp Hml Hw Hd.
  unfold valid_parse_global in Hvp.
  pose proof (transcription_preserves_content_nodelim (hist_of dict x) (lenN dict) (lenN x) cfg0 ers bsMax S rep dec blks Hx Hm1 Hm2 Hvp Hcs) as Hbv.
  pose proof (offbase_finalisation_lockstep cfg0 false ers bsMax (lenN x) S rep dec blks Hcs Hof Hrep) as Hls.
  pose proof (blocks_to_sblocks dict x blks 0 rep dec Hbv Hls) as Hsb. rewrite N.add_0_r in Hsb. rewrite Erep in Hsb.
  apply (valid_parses_round_trip dcfg d p dictID x (to_sblocks dec blks) ebs z rest); auto.
  destruct blks as [|b r]; [congruence|]. cbn [to_sblocks]. destruct (b_tiny b); [discriminate|]. destruct (b_seqs b); [discriminate|].
  destruct (match dec with [] => true | d0 :: _ => d0 end); discriminate.
Qed.
