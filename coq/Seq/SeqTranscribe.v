(* C17 - transcription of a valid parse into per-block seqStores (delimiter-free and explicit-delimiter copiers). *)
From Coq Require Import NArith ZArith List Bool Lia.
From ZV.Codec Require Import Bytes Block.
From ZV.Seq Require Import SeqApi SeqSpec SeqProofs.
Import ListNotations.
Local Open Scope N_scope.

Local Arguments store_seq : simpl never.
Local Arguments bump : simpl never.

Section Transcribe.
Variable byte : N -> N.
Variable D E : N.
Hypothesis HE : E < M32.

(* seqStore accumulated so far (newest first), laid from P0, ending at [cur] *)
Inductive acc_ok (P0 : N) : list sseq -> N -> Prop :=
  | ao_nil : acc_ok P0 [] P0
  | ao_cons acc cur t :
      acc_ok P0 acc cur -> 1 <= t_ml t -> match_ok byte D (cur + t_ll t) (t_ml t) (t_raw t) ->
      acc_ok P0 (t :: acc) (cur + t_ll t + t_ml t).

Lemma stored_ok_app a : forall pos b,
  stored_ok byte D pos (a ++ b) <-> stored_ok byte D pos a /\ stored_ok byte D (stored_end pos a) b.
Proof.
  induction a as [|t a IH]; intros pos b; cbn [app stored_ok stored_end].
  - tauto.
  - rewrite IH. tauto.
Qed.

Lemma acc_ok_stored P0 acc cur :
  acc_ok P0 acc cur -> stored_ok byte D P0 (rev acc) /\ stored_end P0 (rev acc) = cur.
Proof.
  induction 1 as [|acc cur t H [IH1 IH2] H1 H2].
  - cbn. auto.
  - cbn [rev]. rewrite stored_ok_app, stored_end_app, IH2. cbn [stored_ok stored_end].
    split; [split; [exact IH1|split; [exact H1|split; [exact H2|exact I]]]|reflexivity].
Qed.

(* any sub-range of a valid match is a valid match with the same offset *)
Lemma match_ok_sub p ml off a len :
  match_ok byte D p ml off -> a + len <= ml -> match_ok byte D (p + a) len off.
Proof.
  intros (H1 & H2 & H3) Hl. repeat split; try lia.
  intros i Hi. specialize (H3 (a + i)).
  replace (D + (p + a) + i) with (D + p + (a + i)) by lia. apply H3. lia.
Qed.

Lemma valid_from_le S : forall pos, valid_from byte D pos S E -> pos <= E.
Proof.
  induction S as [|s S IH]; intros pos H; cbn in H; [exact H|].
  destruct H as (_ & _ & H). apply IH in H. lia.
Qed.

(* one successful store of a piece [ll', ml'] whose match is a sub-range of a valid match *)
Lemma store_piece cfg bsz raw ll' ml' st st' P0 :
  store_seq cfg true bsz raw ll' ml' st = Done st' ->
  acc_ok P0 (k_acc st) (P0 + k_ip st) -> 1 <= ml' -> ll' + ml' < M32 ->
  match_ok byte D (P0 + k_ip st + ll') ml' raw ->
  acc_ok P0 (k_acc st') (P0 + k_ip st') /\ k_ip st' = k_ip st + ll' + ml'.
Proof.
  intros Hs Ha Hm Hw Hmt. apply store_seq_done in Hs. destruct Hs as (Hip & _ & _ & _ & _ & Hacc).
  rewrite add32_small in Hip by lia.
  assert (Hip' : k_ip st' = k_ip st + ll' + ml') by lia. split; [|exact Hip'].
  rewrite Hacc, Hip'. replace (P0 + (k_ip st + ll' + ml')) with (P0 + k_ip st + ll' + ml') by lia.
  set (t := {| t_ll := ll'; t_ml := ml'; t_ob := fst (code_offset true raw ll' (k_rep st)); t_raw := raw |}).
  change (acc_ok P0 (t :: k_acc st) (P0 + k_ip st + t_ll t + t_ml t)).
  apply ao_cons; cbn; assumption.
Qed.

(* ---------- the delimiter-free copier: loop invariant ---------- *)
Lemma nd_loop_transcribe cfg bsz P0 (HB : P0 + bsz <= E) S : forall base startp endp st rest pis adj st',
  nd_loop cfg bsz S startp endp st = Done (rest, pis, adj, st') ->
  valid_from byte D base S E ->
  base + endp = P0 + bsz ->
  P0 + k_ip st = base + startp ->
  startp <= endp ->
  acc_ok P0 (k_acc st) (P0 + k_ip st) ->
  (forall s r, S = s :: r -> startp < q_ll s + q_ml s) ->
  (forall s r, S = s :: r -> q_ll s < startp -> bsz < q_ml s /\ g_minMatch cfg <= endp - startp) ->
  exists base',
    valid_from byte D base' rest E /\
    acc_ok P0 (k_acc st') (P0 + k_ip st') /\
    P0 + k_ip st' + adj <= P0 + bsz /\
    (rest <> [] -> base' + pis + adj = P0 + bsz) /\
    (forall s r, rest = s :: r -> pis < q_ll s + q_ml s) /\
    (forall s r, rest = s :: r -> q_ll s < pis -> bsz < q_ml s /\ P0 + bsz < E).
Proof.
  induction S as [|s S IH]; intros base startp endp st rest pis adj st' H Hv Hend Hip Hse Hacc Hin Hmid.
  - cbn in H. inversion H; subst. exists base. repeat split; auto; try lia; try congruence; intros; discriminate.
  - cbn [nd_loop] in H.
    cbn [valid_from] in Hv. destruct Hv as (Hml & Hmt & Hv').
    pose proof (valid_from_le _ _ Hv') as Hle.
    specialize (Hin s S eq_refl). specialize (Hmid s S eq_refl).
    set (ll := q_ll s) in *. set (ml := q_ml s) in *.
    destruct (endp =? 0) eqn:E0.
    { (* block exhausted *)
      apply N.eqb_eq in E0. inversion H; subst.
      exists base. cbn [valid_from]. repeat split; auto; try lia.
      - intros s0 r0 Hs. inversion Hs; subst. fold ll ml. lia.
      - intros s0 r0 Hs Hlt. lia.
      - intros s0 r0 Hs Hlt. lia. }
    rewrite add32_small in H by lia.
    destruct (ll + ml <=? endp) eqn:E1.
    { (* the sequence ends inside the block *)
      apply N.leb_le in E1.
      destruct (ll <=? startp) eqn:E2.
      - apply N.leb_le in E2.
        rewrite (sub32_small startp ll) in H by lia.
        rewrite (sub32_small ml (startp - ll)) in H by lia.
        destruct (store_seq cfg true bsz (q_off s) 0 (ml - (startp - ll)) st) as [st1| |] eqn:Es; cbn [obind] in H; try discriminate.
        assert (Hp : match_ok byte D (P0 + k_ip st + 0) (ml - (startp - ll)) (q_off s)).
        { replace (P0 + k_ip st + 0) with (base + ll + (startp - ll)) by lia. apply match_ok_sub with (ml := ml); [exact Hmt|lia]. }
        destruct (store_piece _ _ _ _ _ _ _ P0 Es Hacc ltac:(lia) ltac:(lia) Hp) as [Ha1 Hi1].
        destruct (bump_fields st1) as (Ea & _ & Ei & _).
        rewrite (sub32_small endp (ll + ml)) in H by lia.
        eapply IH; [exact H|exact Hv'| | | | | |].
        + lia.
        + rewrite Ei, Hi1. lia.
        + lia.
        + rewrite Ea, Ei. exact Ha1.
        + intros s0 r0 Hs. subst S. cbn [valid_from] in Hv'. lia.
        + intros s0 r0 Hs Hlt. lia.
      - apply N.leb_gt in E2.
        rewrite (sub32_small ll startp) in H by lia.
        destruct (store_seq cfg true bsz (q_off s) (ll - startp) ml st) as [st1| |] eqn:Es; cbn [obind] in H; try discriminate.
        assert (Hp : match_ok byte D (P0 + k_ip st + (ll - startp)) ml (q_off s)).
        { replace (P0 + k_ip st + (ll - startp)) with (base + ll) by lia. exact Hmt. }
        destruct (store_piece _ _ _ _ _ _ _ P0 Es Hacc ltac:(lia) ltac:(lia) Hp) as [Ha1 Hi1].
        destruct (bump_fields st1) as (Ea & _ & Ei & _).
        rewrite (sub32_small endp (ll + ml)) in H by lia.
        eapply IH; [exact H|exact Hv'| | | | | |].
        + lia.
        + rewrite Ei, Hi1. lia.
        + lia.
        + rewrite Ea, Ei. exact Ha1.
        + intros s0 r0 Hs. subst S. cbn [valid_from] in Hv'. lia.
        + intros s0 r0 Hs Hlt. lia. }
    apply N.leb_gt in E1.
    destruct (ll <? endp) eqn:E3.
    2:{ (* block ends inside the literals *)
      apply N.ltb_ge in E3. inversion H; subst.
      exists base. cbn [valid_from]. repeat split; auto; try lia.
      - intros s0 r0 Hs. inversion Hs; subst. fold ll ml. lia.
      - intros s0 r0 Hs Hlt. inversion Hs; subst. fold ll in Hlt. lia.
      - intros s0 r0 Hs Hlt. inversion Hs; subst. fold ll in Hlt. lia. }
    apply N.ltb_lt in E3.
    (* block ends inside the match *)
    set (ll' := if ll <=? startp then 0 else sub32 ll startp) in *.
    assert (Hll' : ll' = if ll <=? startp then 0 else ll - startp).
    { unfold ll'. destruct (ll <=? startp) eqn:E2; [reflexivity|]. apply N.leb_gt in E2. apply sub32_small; lia. }
    assert (Hll'le : ll' <= endp - startp /\ startp + ll' = N.max startp ll).
    { rewrite Hll'. destruct (ll <=? startp) eqn:E2; [apply N.leb_le in E2|apply N.leb_gt in E2]; lia. }
    rewrite (sub32_small endp startp) in H by lia.
    rewrite (sub32_small (endp - startp) ll') in H by lia.
    set (first := endp - startp - ll') in *.
    destruct ((bsz <? ml) && (g_minMatch cfg <=? first)) eqn:E4.
    + (* split the match *)
      apply andb_true_iff in E4. destruct E4 as [E4a E4b]. apply N.ltb_lt in E4a. apply N.leb_le in E4b.
      rewrite (add32_small ml ll) in H by lia.
      rewrite (sub32_small (ml + ll) endp) in H by lia.
      set (second := ml + ll - endp) in *.
      set (adj0 := if second <? g_minMatch cfg then sub32 (g_minMatch cfg) second else 0) in *.
      assert (Hadj : adj0 = if second <? g_minMatch cfg then g_minMatch cfg - second else 0).
      { unfold adj0. destruct (second <? g_minMatch cfg) eqn:E5; [|reflexivity]. apply N.ltb_lt in E5. apply sub32_small; lia. }
      assert (Hadjlt : adj0 < first /\ adj0 <= endp).
      { rewrite Hadj. destruct (second <? g_minMatch cfg) eqn:E5; [apply N.ltb_lt in E5|]; unfold second in *; lia. }
      rewrite (sub32_small first adj0) in H by lia.
      destruct (store_seq cfg true bsz (q_off s) ll' (first - adj0) st) as [st1| |] eqn:Es; cbn [obind] in H; try discriminate.
      rewrite (sub32_small endp adj0) in H by lia.
      inversion H; subst rest pis adj st'. clear H.
      assert (Hp : match_ok byte D (P0 + k_ip st + ll') (first - adj0) (q_off s)).
      { replace (P0 + k_ip st + ll') with (base + ll + (N.max startp ll - ll)) by lia.
        apply match_ok_sub with (ml := ml); [exact Hmt|]. unfold first. lia. }
      destruct (store_piece _ _ _ _ _ _ _ P0 Es Hacc ltac:(lia) ltac:(unfold first; lia) Hp) as [Ha1 Hi1].
      exists base. cbn [valid_from]. repeat split; auto.
      * rewrite Hi1. unfold first. lia.
      * intros _. lia.
      * intros s0 r0 Hs. inversion Hs; subst. fold ll ml. lia.
      * intros s0 r0 Hs Hlt. inversion Hs; subst. fold ml. exact E4a.
      * intros s0 r0 Hs Hlt. lia.
    + (* do not split: stop before the match *)
      inversion H; subst rest pis adj st'. clear H.
      assert (Hsl : startp <= ll).
      { destruct (N.le_gt_cases startp ll) as [Hc|Hc]; [exact Hc|exfalso].
        destruct (Hmid Hc) as [M1 M2].
        assert (E2 : (ll <=? startp) = true) by (apply N.leb_le; lia).
        assert (Hf : first = endp - startp) by (unfold first; rewrite Hll', E2; lia).
        apply andb_false_iff in E4. destruct E4 as [E4|E4]; [apply N.ltb_ge in E4; lia|apply N.leb_gt in E4; lia]. }
      rewrite (sub32_small endp ll) by lia.
      exists base. cbn [valid_from]. repeat split; auto; try lia.
      * intros s0 r0 Hs. inversion Hs; subst. fold ll ml. lia.
      * intros s0 r0 Hs Hlt. inversion Hs; subst. fold ll in Hlt. lia.
      * intros s0 r0 Hs Hlt. inversion Hs; subst. fold ll in Hlt. lia.
Qed.

End Transcribe.
