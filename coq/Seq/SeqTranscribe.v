(* C17 - transcription of a valid parse into per-block seqStores (delimiter-free and explicit-delimiter copiers). *)
From Coq Require Import NArith ZArith List Bool Lia.
From ZV.Codec Require Import Bytes Block.
From ZV.Seq Require Import SeqApi SeqSpec SeqProofs.
Import ListNotations.
Local Open Scope N_scope.

Local Arguments store_seq : simpl never.
Local Arguments bump : simpl never.

Section Transcribe.
Variable byte : N -> N.
Variable D E : N.
Hypothesis HE : E < M32.

(* seqStore accumulated so far (newest first), laid from P0, ending at [cur] *)
Inductive acc_ok (P0 : N) : list sseq -> N -> Prop :=
  | ao_nil : acc_ok P0 [] P0
  | ao_cons acc cur t :
      acc_ok P0 acc cur -> 1 <= t_ml t -> match_ok byte D (cur + t_ll t) (t_ml t) (t_raw t) ->
      acc_ok P0 (t :: acc) (cur + t_ll t + t_ml t).

Lemma stored_ok_app a : forall pos b,
  stored_ok byte D pos (a ++ b) <-> stored_ok byte D pos a /\ stored_ok byte D (stored_end pos a) b.
Proof.
  induction a as [|t a IH]; intros pos b; cbn [app stored_ok stored_end].
  - tauto.
  - rewrite IH. tauto.
Qed.

Lemma acc_ok_stored P0 acc cur :
  acc_ok P0 acc cur -> stored_ok byte D P0 (rev acc) /\ stored_end P0 (rev acc) = cur.
Proof.
  induction 1 as [|acc cur t H [IH1 IH2] H1 H2].
  - cbn. auto.
  - cbn [rev]. rewrite stored_ok_app, stored_end_app, IH2. cbn [stored_ok stored_end].
    split; [split; [exact IH1|split; [exact H1|split; [exact H2|exact I]]]|reflexivity].
Qed.

(* any sub-range of a valid match is a valid match with the same offset *)
Lemma match_ok_sub p ml off a len :
  match_ok byte D p ml off -> a + len <= ml -> match_ok byte D (p + a) len off.
Proof.
  intros (H1 & H2 & H3) Hl. repeat split; try lia.
  intros i Hi. specialize (H3 (a + i)).
  replace (D + (p + a) + i) with (D + p + (a + i)) by lia. apply H3. lia.
Qed.

Lemma valid_from_le S : forall pos, valid_from byte D pos S E -> pos <= E.
Proof.
  induction S as [|s S IH]; intros pos H; cbn in H; [exact H|].
  destruct H as (_ & _ & H). apply IH in H. lia.
Qed.

(* one successful store of a piece [ll', ml'] whose match is a sub-range of a valid match *)
Lemma store_piece cfg bsz raw ll' ml' st st' P0 :
  store_seq cfg true bsz raw ll' ml' st = Done st' ->
  acc_ok P0 (k_acc st) (P0 + k_ip st) -> 1 <= ml' -> ll' + ml' < M32 ->
  match_ok byte D (P0 + k_ip st + ll') ml' raw ->
  acc_ok P0 (k_acc st') (P0 + k_ip st') /\ k_ip st' = k_ip st + ll' + ml'.
Proof.
  intros Hs Ha Hm Hw Hmt. apply store_seq_done in Hs. destruct Hs as (Hip & _ & _ & _ & _ & Hacc).
  rewrite add32_small in Hip by lia.
  assert (Hip' : k_ip st' = k_ip st + ll' + ml') by lia. split; [|exact Hip'].
  rewrite Hacc, Hip'. replace (P0 + (k_ip st + ll' + ml')) with (P0 + k_ip st + ll' + ml') by lia.
  set (t := {| t_ll := ll'; t_ml := ml'; t_ob := fst (code_offset true raw ll' (k_rep st)); t_raw := raw |}).
  change (acc_ok P0 (t :: k_acc st) (P0 + k_ip st + t_ll t + t_ml t)).
  apply ao_cons; cbn; assumption.
Qed.

(* ---------- the delimiter-free copier: loop invariant ---------- *)
Ltac t_fin :=
  first [ lia | assumption
        | match goal with Hm : match_ok _ _ _ _ _ |- _ => solve [destruct Hm as (? & ? & ?); assumption] end
        | match goal with Hq : _ :: _ = _ :: _ |- _ => solve [inversion Hq; subst; lia] end
        | (intros ? ? Hs0; inversion Hs0; subst; clear Hs0; first [lia | (intros; split; lia) | (intros; lia)])
        | (intros; discriminate) | (intros; congruence) | (intros; lia) ].

Lemma nd_loop_transcribe cfg bsz P0 (HB : P0 + bsz <= E) (HM : 1 <= g_minMatch cfg) S : forall base startp endp st rest pis adj st',
  nd_loop cfg bsz S startp endp st = Done (rest, pis, adj, st') ->
  valid_from byte D base S E ->
  base + endp = P0 + bsz ->
  P0 + k_ip st = base + startp ->
  startp <= endp ->
  acc_ok P0 (k_acc st) (P0 + k_ip st) ->
  (forall s r, S = s :: r -> startp < q_ll s + q_ml s) ->
  (forall s r, S = s :: r -> q_ll s < startp -> P0 + bsz < E -> bsz < q_ml s /\ g_minMatch cfg <= endp - startp) ->
  exists base',
    valid_from byte D base' rest E /\
    acc_ok P0 (k_acc st') (P0 + k_ip st') /\
    P0 + k_ip st' + adj <= P0 + bsz /\
    (0 < adj -> P0 + bsz < E) /\
    (rest <> [] -> base' + pis + adj = P0 + bsz) /\
    (forall s r, rest = s :: r -> pis < q_ll s + q_ml s) /\
    (forall s r, rest = s :: r -> q_ll s < pis -> bsz < q_ml s /\ P0 + bsz < E).
Proof.
  induction S as [|s S IH]; intros base startp endp st rest pis adj st' H Hv Hend Hip Hse Hacc Hin Hmid.
  - cbn in H. inversion H; subst. exists base. repeat split; try t_fin.
  - cbn [nd_loop] in H.
    cbn [valid_from] in Hv. destruct Hv as (Hml & Hmt & Hv').
    pose proof (valid_from_le _ _ Hv') as Hle.
    specialize (Hin s S eq_refl). specialize (Hmid s S eq_refl).
    remember (q_ll s) as ll eqn:Hll0. remember (q_ml s) as ml eqn:Hml0.
    destruct (endp =? 0) eqn:E0.
    { (* block exhausted *)
      apply N.eqb_eq in E0. inversion H; subst rest pis adj st'.
      exists base. cbn [valid_from]. rewrite <- Hll0, <- Hml0. repeat split; try t_fin. }
    rewrite add32_small in H by lia.
    destruct (ll + ml <=? endp) eqn:E1.
    { (* the sequence ends inside the block *)
      apply N.leb_le in E1.
      destruct (ll <=? startp) eqn:E2.
      - apply N.leb_le in E2.
        rewrite (sub32_small startp ll) in H by lia.
        rewrite (sub32_small ml (startp - ll)) in H by lia.
        destruct (store_seq cfg true bsz (q_off s) 0 (ml - (startp - ll)) st) as [st1| |] eqn:Es; cbn [obind] in H; try discriminate.
        assert (Hp : match_ok byte D (P0 + k_ip st + 0) (ml - (startp - ll)) (q_off s)).
        { replace (P0 + k_ip st + 0) with (base + ll + (startp - ll)) by lia. apply match_ok_sub with (ml := ml); [exact Hmt|lia]. }
        destruct (store_piece _ _ _ _ _ _ _ P0 Es Hacc ltac:(lia) ltac:(lia) Hp) as [Ha1 Hi1].
        destruct (bump_fields st1) as (Ea & _ & Ei & _).
        rewrite (sub32_small endp (ll + ml)) in H by lia.
        eapply IH; [exact H|exact Hv'| | | | | |].
        + lia.
        + rewrite Ei, Hi1. lia.
        + lia.
        + rewrite Ea, Ei. exact Ha1.
        + intros s0 r0 Hs. subst S. cbn [valid_from] in Hv'. lia.
        + intros s0 r0 Hs Hlt. lia.
      - apply N.leb_gt in E2.
        rewrite (sub32_small ll startp) in H by lia.
        destruct (store_seq cfg true bsz (q_off s) (ll - startp) ml st) as [st1| |] eqn:Es; cbn [obind] in H; try discriminate.
        assert (Hp : match_ok byte D (P0 + k_ip st + (ll - startp)) ml (q_off s)).
        { replace (P0 + k_ip st + (ll - startp)) with (base + ll) by lia. exact Hmt. }
        destruct (store_piece _ _ _ _ _ _ _ P0 Es Hacc ltac:(lia) ltac:(lia) Hp) as [Ha1 Hi1].
        destruct (bump_fields st1) as (Ea & _ & Ei & _).
        rewrite (sub32_small endp (ll + ml)) in H by lia.
        eapply IH; [exact H|exact Hv'| | | | | |].
        + lia.
        + rewrite Ei, Hi1. lia.
        + lia.
        + rewrite Ea, Ei. exact Ha1.
        + intros s0 r0 Hs. subst S. cbn [valid_from] in Hv'. lia.
        + intros s0 r0 Hs Hlt. lia. }
    apply N.leb_gt in E1.
    destruct (ll <? endp) eqn:E3.
    2:{ (* block ends inside the literals *)
      apply N.ltb_ge in E3. inversion H; subst rest pis adj st'.
      exists base. cbn [valid_from]. rewrite <- Hll0, <- Hml0. repeat split; try t_fin. }
    apply N.ltb_lt in E3.
    (* block ends inside the match *)
    remember (if ll <=? startp then 0 else sub32 ll startp) as ll' eqn:Hll'0.
    assert (Hll' : ll' = if ll <=? startp then 0 else ll - startp).
    { rewrite Hll'0. destruct (ll <=? startp) eqn:E2; [reflexivity|]. apply N.leb_gt in E2. apply sub32_small; lia. }
    assert (Hll'le : ll' <= endp - startp /\ startp + ll' = N.max startp ll).
    { rewrite Hll'. destruct (ll <=? startp) eqn:E2; [apply N.leb_le in E2|apply N.leb_gt in E2]; lia. }
    rewrite (sub32_small endp startp) in H by lia.
    rewrite (sub32_small (endp - startp) ll') in H by lia.
    remember (endp - startp - ll') as first eqn:Hfirst.
    destruct ((bsz <? ml) && (g_minMatch cfg <=? first)) eqn:E4.
    + (* split the match *)
      apply andb_true_iff in E4. destruct E4 as [E4a E4b]. apply N.ltb_lt in E4a. apply N.leb_le in E4b.
      rewrite (add32_small ml ll) in H by lia.
      rewrite (sub32_small (ml + ll) endp) in H by lia.
      remember (ml + ll - endp) as second eqn:Hsecond.
      remember (if second <? g_minMatch cfg then sub32 (g_minMatch cfg) second else 0) as adj0 eqn:Hadj0.
      assert (Hadj : adj0 = if second <? g_minMatch cfg then g_minMatch cfg - second else 0).
      { rewrite Hadj0. destruct (second <? g_minMatch cfg) eqn:E5; [|reflexivity]. apply N.ltb_lt in E5. apply sub32_small; lia. }
      assert (Hadjlt : adj0 < first /\ adj0 <= endp).
      { rewrite Hadj. destruct (second <? g_minMatch cfg) eqn:E5; [apply N.ltb_lt in E5|]; lia. }
      rewrite (sub32_small first adj0) in H by lia.
      destruct (store_seq cfg true bsz (q_off s) ll' (first - adj0) st) as [st1| |] eqn:Es; cbn [obind] in H; try discriminate.
      rewrite (sub32_small endp adj0) in H by lia.
      inversion H; subst rest pis adj st'. clear H.
      assert (Hp : match_ok byte D (P0 + k_ip st + ll') (first - adj0) (q_off s)).
      { replace (P0 + k_ip st + ll') with (base + ll + (N.max startp ll - ll)) by lia.
        apply match_ok_sub with (ml := ml); [exact Hmt|]. lia. }
      destruct (store_piece _ _ _ _ _ _ _ P0 Es Hacc ltac:(lia) ltac:(lia) Hp) as [Ha1 Hi1].
      exists base. cbn [valid_from]. rewrite <- Hll0, <- Hml0. repeat split; try t_fin.
    + (* do not split: stop before the match *)
      inversion H; subst rest pis adj st'. clear H.
      assert (Hsl : startp <= ll).
      { destruct (N.le_gt_cases startp ll) as [Hc|Hc]; [exact Hc|exfalso].
        destruct (Hmid Hc ltac:(lia)) as [M1 M2].
        assert (E2 : (ll <=? startp) = true) by (apply N.leb_le; lia).
        assert (Hf : first = endp - startp) by (rewrite Hfirst, Hll', E2; lia).
        apply andb_false_iff in E4. destruct E4 as [E4|E4]; [apply N.ltb_ge in E4; lia|apply N.leb_gt in E4; lia]. }
      rewrite (sub32_small endp ll) by lia.
      exists base. cbn [valid_from]. rewrite <- Hll0, <- Hml0. repeat split; try t_fin.
Qed.

(* ---------- one block of the delimiter-free copier ---------- *)
(* state between two blocks: [base] = source position of the first byte of the head sequence, P = base + pis *)
Definition nd_state (bsMax : N) (cfg : scfg) (P : N) (S : list zseq) (pis : N) : Prop :=
  S = [] \/
  exists base, valid_from byte D base S E /\ P = base + pis /\
               (forall s r, S = s :: r -> pis < q_ll s + q_ml s) /\
               (forall s r, S = s :: r -> q_ll s < pis -> bsMax < q_ml s).

Lemma copy_no_delim_transcribe cfg bsMax bsz P S pis rep pos rest pis' br :
  1 <= g_minMatch cfg -> g_minMatch cfg <= bsMax ->
  P + bsz <= E -> (P + bsz < E -> bsz = bsMax) ->
  nd_state bsMax cfg P S pis ->
  copy_no_delim cfg bsz S pis rep pos = Done (rest, pis', br) ->
  stored_ok byte D P (r_seqs br) /\
  stored_end P (r_seqs br) + r_lastLL br = P + (bsz - r_adj br) /\
  r_adj br <= bsz /\ (0 < r_adj br -> P + bsz < E) /\
  nd_state bsMax cfg (P + (bsz - r_adj br)) rest pis'.
Proof.
  intros HM HMb HB Hfull Hst H. unfold copy_no_delim in H.
  match type of H with context [nd_loop ?a ?b ?c ?d ?e ?f] => destruct (nd_loop a b c d e f) as [[[[rest0 p0] adj] st]| |] eqn:El end;
    cbn [obind] in H; try discriminate.
  destruct (g_fixed cfg && (k_ip st <=? bsz) && (bsz - k_ip st <? adj)); [discriminate|].
  destruct (bsz <? adj) eqn:E7; [discriminate|]. destruct (bsz - adj <? k_ip st) eqn:E8; [discriminate|].
  apply N.ltb_ge in E7, E8.
  inversion H; subst rest pis' br; cbn [r_seqs r_lastLL r_adj]. clear H. rewrite rev'_rev.
  destruct Hst as [Hnil|(base & Hv & HP & Hin & Hmid)].
  - subst S. cbn in El. inversion El; subst. cbn. repeat split; try lia. left; reflexivity.
  - assert (Hpb : pis + bsz < M32) by lia.
    rewrite add32_small in El by exact Hpb.
    destruct (nd_loop_transcribe cfg bsz P HB HM S base pis (pis + bsz) _ _ _ _ _ El Hv) as
        (base' & Hv' & Hacc & Hle & Hadj & Hnext & Hin' & Hmid'); cbn [k_ip k_acc]; try lia.
    + rewrite N.add_0_r. constructor.
    + exact Hin.
    + intros s r Hs Hlt Hnl. specialize (Hmid s r Hs Hlt). rewrite (Hfull Hnl). split; [exact Hmid|]. rewrite <- (Hfull Hnl). lia.
    + apply acc_ok_stored in Hacc. destruct Hacc as [Hso Hse].
      repeat split; try assumption; try lia.
      destruct rest0 as [|s0 r0]; [left; reflexivity|right].
      exists base'. specialize (Hnext ltac:(discriminate)).
      split; [exact Hv'|]. split; [lia|]. split; [exact Hin'|].
      intros s r Hs Hlt. destruct (Hmid' s r Hs Hlt) as [M1 M2]. rewrite <- (Hfull M2). exact M1.
Qed.

(* ---------- the block loop, delimiter-free mode ---------- *)
Lemma cs_loop_transcribe_nd cfg ers bsMax : forall fuel S pis pos P remaining rep dec blks,
  1 <= g_minMatch cfg -> g_minMatch cfg <= bsMax ->
  P + remaining = E -> nd_state bsMax cfg P S pis ->
  cs_loop fuel cfg false ers bsMax S pis pos remaining rep dec = Done blks ->
  blocks_valid byte D P blks E.
Proof.
  induction fuel as [|f IH]; intros S pis pos P remaining rep dec blks HM HMb HP Hst H.
  - cbn in H. destruct (remaining =? 0) eqn:E0; [|discriminate]. apply N.eqb_eq in E0. inversion H; subst. cbn. lia.
  - cbn [cs_loop] in H. destruct (remaining =? 0) eqn:E0.
    { apply N.eqb_eq in E0. inversion H; subst. cbn. lia. }
    apply N.eqb_neq in E0.
    cbn [determine_block_size obind] in H.
    set (bs := if remaining <=? bsMax then remaining else bsMax) in *.
    assert (Hbs : bs <= remaining /\ (bs < remaining -> bs = bsMax)).
    { unfold bs. destruct (remaining <=? bsMax) eqn:Er; [apply N.leb_le in Er|apply N.leb_gt in Er]; lia. }
    destruct (copy_no_delim cfg bs S pis rep pos) as [[[rest pis'] br]| |] eqn:Ec; cbn [obind] in H; try discriminate.
    destruct (copy_no_delim_transcribe cfg bsMax bs P S pis rep pos rest pis' br HM HMb ltac:(lia) ltac:(intros; apply Hbs; lia) Hst Ec)
      as (Hso & Hse & Hadj & Hadj0 & Hst').
    destruct (bs - r_adj br <? TINY).
    + match type of H with context [cs_loop ?a ?b ?c ?d ?e ?g ?h ?i ?j ?k ?l] =>
        destruct (cs_loop a b c d e g h i j k l) as [rest'| |] eqn:Er end; cbn [obind] in H; try discriminate.
      inversion H; subst blks. cbn [blocks_valid b_seqs b_lastLL b_size]. repeat split; try assumption.
      eapply IH; [exact HM|exact HMb| |exact Hst'|exact Er]. lia.
    + destruct (bs =? remaining) eqn:El.
      * apply N.eqb_eq in El. inversion H; subst blks. cbn [blocks_valid b_seqs b_lastLL b_size]. repeat split; try assumption.
        destruct (N.eq_0_gt_0_cases (r_adj br)) as [Hz|Hz]; [lia|]. specialize (Hadj0 Hz). lia.
      * match type of H with context [cs_loop ?a ?b ?c ?d ?e ?g ?h ?i ?j ?k ?l] =>
          destruct (cs_loop a b c d e g h i j k l) as [rest'| |] eqn:Er end; cbn [obind] in H; try discriminate.
        inversion H; subst blks. cbn [blocks_valid b_seqs b_lastLL b_size]. repeat split; try assumption.
        eapply IH; [exact HM|exact HMb| |exact Hst'|exact Er]. lia.
Qed.

(* ---------- explicit delimiters ---------- *)
(* a list with delimiters is a valid parse: delimiters carry literals only *)
Fixpoint valid_from_ex (pos : N) (S : list zseq) : Prop :=
  match S with
  | [] => pos <= E
  | s :: r => if is_delim s then valid_from_ex (pos + q_ll s) r
              else 1 <= q_ml s /\ match_ok byte D (pos + q_ll s) (q_ml s) (q_off s) /\
                   valid_from_ex (pos + q_ll s + q_ml s) r
  end.

Lemma valid_from_ex_le S : forall pos, valid_from_ex pos S -> pos <= E.
Proof.
  induction S as [|s S IH]; intros pos H; cbn in H; [exact H|].
  destruct (is_delim s); [apply IH in H; lia|]. destruct H as (_ & _ & H). apply IH in H. lia.
Qed.

Lemma ex_loop_transcribe cfg ers bsz P0 S : forall st offs rest st' offs',
  ex_loop cfg ers bsz S st offs = Done (rest, st', offs') ->
  valid_from_ex (P0 + k_ip st) S -> acc_ok P0 (k_acc st) (P0 + k_ip st) ->
  valid_from_ex (P0 + k_ip st') rest /\ acc_ok P0 (k_acc st') (P0 + k_ip st').
Proof.
  induction S as [|s S IH]; intros st offs rest st' offs' H Hv Hacc.
  - cbn in H. inversion H; subst. auto.
  - cbn [ex_loop] in H. cbn [valid_from_ex] in Hv. destruct (is_delim s) eqn:Ed.
    + inversion H; subst. split; [|exact Hacc]. cbn [valid_from_ex]. rewrite Ed. exact Hv.
    + destruct Hv as (Hml & Hmt & Hv'). pose proof (valid_from_ex_le _ _ Hv') as Hle.
      destruct (store_seq cfg ers bsz (q_off s) (q_ll s) (q_ml s) st) as [st1| |] eqn:Es; cbn [obind] in H; try discriminate.
      assert (Hpiece : acc_ok P0 (k_acc st1) (P0 + k_ip st1) /\ k_ip st1 = k_ip st + q_ll s + q_ml s).
      { apply store_seq_done in Es. destruct Es as (Hip & _ & _ & _ & _ & Hacc1).
        rewrite add32_small in Hip by lia.
        assert (Hip' : k_ip st1 = k_ip st + q_ll s + q_ml s) by lia. split; [|exact Hip'].
        rewrite Hacc1, Hip'. replace (P0 + (k_ip st + q_ll s + q_ml s)) with (P0 + k_ip st + q_ll s + q_ml s) by lia.
        set (t := {| t_ll := q_ll s; t_ml := q_ml s; t_ob := fst (code_offset ers (q_off s) (q_ll s) (k_rep st)); t_raw := q_off s |}).
        change (acc_ok P0 (t :: k_acc st) (P0 + k_ip st + t_ll t + t_ml t)).
        apply ao_cons; cbn; assumption. }
      destruct Hpiece as [Ha1 Hi1]. destruct (bump_fields st1) as (Ea & _ & Ei & _).
      eapply IH; [exact H| |].
      * rewrite Ei, Hi1. replace (P0 + (k_ip st + q_ll s + q_ml s)) with (P0 + k_ip st + q_ll s + q_ml s) by lia. exact Hv'.
      * rewrite Ea, Ei. exact Ha1.
Qed.

Lemma copy_explicit_transcribe cfg ers bsz P S rep pos rest br :
  copy_explicit cfg ers bsz S rep pos = Done (rest, br) -> valid_from_ex P S ->
  stored_ok byte D P (r_seqs br) /\ stored_end P (r_seqs br) + r_lastLL br = P + bsz /\ r_adj br = 0 /\
  valid_from_ex (P + bsz) rest.
Proof.
  unfold copy_explicit. intros H Hv.
  match type of H with context [ex_loop ?a ?b ?c ?d ?e ?f] => destruct (ex_loop a b c d e f) as [[[rest0 st] offs]| |] eqn:El end;
    cbn [obind] in H; try discriminate.
  destruct rest0 as [|d rest']; [discriminate|].
  destruct (negb (q_ll d =? 0) && (bsz <? k_ip st + q_ll d)); [discriminate|].
  destruct (negb (k_ip st + q_ll d =? bsz)) eqn:Eq; [discriminate|]. apply negb_false_iff, N.eqb_eq in Eq.
  inversion H; subst rest br; cbn [r_seqs r_lastLL r_adj]. rewrite rev'_rev.
  destruct (ex_loop_transcribe _ _ _ P _ _ _ _ _ _ El) as [Hv' Hacc]; cbn [k_ip k_acc].
  - rewrite N.add_0_r. exact Hv.
  - rewrite N.add_0_r. constructor.
  - apply acc_ok_stored in Hacc. destruct Hacc as [Hso Hse].
    repeat split; try assumption; try lia.
    assert (Hd : is_delim d = true).
    { clear -El. revert El. generalize (@nil N). generalize {| k_rep := rep; k_pos := pos; k_ip := 0; k_cnt := 0; k_acc := [] |}.
      induction S as [|s S IHS]; intros st0 o0 El; cbn [ex_loop] in El; [discriminate|].
      destruct (is_delim s) eqn:Ed; [inversion El; subst; exact Ed|].
      destruct (store_seq cfg ers bsz (q_off s) (q_ll s) (q_ml s) st0); cbn [obind] in El; try discriminate.
      eapply IHS; exact El. }
    cbn [valid_from_ex] in Hv'. rewrite Hd in Hv'. replace (P + bsz) with (P + k_ip st + q_ll d) by lia. exact Hv'.
Qed.

Lemma cs_loop_transcribe_ex cfg ers bsMax : forall fuel S pis pos P remaining rep dec blks,
  P + remaining = E -> valid_from_ex P S ->
  cs_loop fuel cfg true ers bsMax S pis pos remaining rep dec = Done blks ->
  blocks_valid byte D P blks E.
Proof.
  induction fuel as [|f IH]; intros S pis pos P remaining rep dec blks HP Hv H.
  - cbn in H. destruct (remaining =? 0) eqn:E0; [|discriminate]. apply N.eqb_eq in E0. inversion H; subst. cbn. lia.
  - cbn [cs_loop] in H. destruct (remaining =? 0) eqn:E0.
    { apply N.eqb_eq in E0. inversion H; subst. cbn. lia. }
    destruct (determine_block_size true bsMax remaining S) as [bs| |] eqn:Ed; cbn [obind] in H; try discriminate.
    destruct (determine_block_size_le _ _ _ _ _ Ed) as [_ Hbr].
    destruct (copy_explicit cfg ers bs S rep pos) as [[rest br]| |] eqn:Ec; cbn [obind fst snd] in H; try discriminate.
    destruct (copy_explicit_transcribe _ _ _ P _ _ _ _ _ Ec Hv) as (Hso & Hse & Hadj & Hv').
    rewrite Hadj, N.sub_0_r in H.
    destruct (bs <? TINY).
    + match type of H with context [cs_loop ?a ?b ?c ?d ?e ?g ?h ?i ?j ?k ?l] =>
        destruct (cs_loop a b c d e g h i j k l) as [rest'| |] eqn:Er end; cbn [obind] in H; try discriminate.
      inversion H; subst blks. cbn [blocks_valid b_seqs b_lastLL b_size]. repeat split; try assumption.
      eapply IH; [|exact Hv'|exact Er]. lia.
    + destruct (bs =? remaining) eqn:El.
      * apply N.eqb_eq in El. inversion H; subst blks. cbn [blocks_valid b_seqs b_lastLL b_size]. repeat split; try assumption. lia.
      * match type of H with context [cs_loop ?a ?b ?c ?d ?e ?g ?h ?i ?j ?k ?l] =>
          destruct (cs_loop a b c d e g h i j k l) as [rest'| |] eqn:Er end; cbn [obind] in H; try discriminate.
        inversion H; subst blks. cbn [blocks_valid b_seqs b_lastLL b_size]. repeat split; try assumption.
        eapply IH; [|exact Hv'|exact Er]. lia.
Qed.

End Transcribe.

(* ---------- the theorems ---------- *)
(* Delimiter-free mode: for every source (a history function), every valid parse S of it (valid_from from position 0),
   every block size >= minMatch, both variants of the model, every list of commit decisions: if the block loop returns
   blocks, they tile [0, E) and each block's seqStore is a valid parse of its slice w.r.t. the whole history
   (a split match keeps its offset; the halves are sub-ranges of the original match). *)
Theorem transcription_preserves_content_nodelim byte D E cfg ers bsMax S rep dec blks :
  E < M32 -> 1 <= g_minMatch cfg -> g_minMatch cfg <= bsMax ->
  valid_from byte D 0 S E ->
  compress_sequences cfg false ers bsMax E S rep dec = Done blks ->
  blocks_valid byte D 0 blks E.
Proof.
  intros HE HM HMb Hv H. unfold compress_sequences in H.
  eapply (cs_loop_transcribe_nd byte D E HE); [exact HM|exact HMb| | |exact H].
  - lia.
  - destruct S as [|s0 r0]; [left; reflexivity|right]. exists 0.
    split; [exact Hv|]. split; [lia|]. split.
    + intros s r Hs. inversion Hs; subst. cbn in Hv. lia.
    + intros s r Hs Hlt. lia.
Qed.

Theorem transcription_preserves_content_explicit byte D E cfg ers bsMax S rep dec blks :
  E < M32 -> valid_from_ex byte D E 0 S ->
  compress_sequences cfg true ers bsMax E S rep dec = Done blks ->
  blocks_valid byte D 0 blks E.
Proof.
  intros HE Hv H. unfold compress_sequences in H.
  eapply (cs_loop_transcribe_ex byte D E HE); [|exact Hv|exact H]. lia.
Qed.
