(* C17 - the block-level sequence-producer path: what an accepted producer answer guarantees, memory safety. *)
From Coq Require Import NArith ZArith List Bool Lia.
From ZV.Codec Require Import Bytes Block.
From ZV.Seq Require Import SeqApi SeqSpec SeqProofs.
Import ListNotations.
Local Open Scope N_scope.

Local Arguments store_seq : simpl never.
Local Arguments bump : simpl never.

(* an answer that is stored: the codes decode to the raw offsets, the lengths fill the block, and with validation on every
   sequence obeys the documented rule (repaired variant) *)
Theorem producer_store_sound cfg ers fallback buf nb capacity srcSize rep br :
  producer_block cfg ers fallback buf nb capacity srcSize rep = PRstore br ->
  (forall seqs, post_process buf nb capacity srcSize = PPok seqs -> Forall off_ok seqs) -> rep_ok rep ->
  decode_offsets rep (r_seqs br) = Ok (map t_raw (r_seqs br), r_rep br) /\
  stored_sum32 (r_seqs br) + r_lastLL br = srcSize /\
  (g_fixed cfg = true -> g_validate cfg = true -> srcSize < M32 -> stored_rule cfg 0 (r_seqs br)).
Proof.
  unfold producer_block. intros H Hoff Hr.
  destruct (post_process buf nb capacity srcSize) as [seqs|] eqn:Ep; [|destruct fallback; discriminate].
  destruct (srcSize <? length_sum seqs); [discriminate|].
  destruct (copy_explicit cfg ers srcSize seqs rep 0) as [[rest br']| |] eqn:Ec; try discriminate.
  inversion H; subst br'. specialize (Hoff seqs eq_refl).
  destruct (copy_explicit_lockstep _ _ _ _ _ _ _ _ Ec Hoff Hr) as [Hd _].
  split; [exact Hd|]. split; [exact (explicit_block_lengths_agree _ _ _ _ _ _ _ _ Ec)|].
  intros Hf Hv Hs. exact (proj1 (copy_explicit_rule _ _ _ _ _ _ _ _ Hf Hv Hs Ec)).
Qed.

(* ---------- memory safety of the producer path (repaired variant, validation on) ---------- *)
Lemma length_sum_app a b : length_sum (a ++ b) = length_sum a + length_sum b.
Proof. induction a as [|s a IH]; cbn; [reflexivity|]. rewrite IH. lia. Qed.

Lemma ex_loop_pre_sum cfg ers bsz pos0 d rest' pre : forall st offs r st' offs',
  g_fixed cfg = true -> g_validate cfg = true -> bsz < M32 ->
  Forall (fun s => is_delim s = false) pre -> is_delim d = true ->
  ex_loop cfg ers bsz (pre ++ d :: rest') st offs = Done (r, st', offs') -> vinv cfg bsz pos0 st ->
  r = d :: rest' /\ k_ip st' = k_ip st + length_sum pre.
Proof.
  induction pre as [|s pre IH]; intros st offs r st' offs' Hf Hv Hb HF Hd H Hi.
  - cbn [app ex_loop] in H. rewrite Hd in H. inversion H; subst. cbn. split; [reflexivity|lia].
  - inversion HF as [|? ? Hs HF']; subst. cbn [app ex_loop] in H. rewrite Hs in H.
    destruct (store_seq cfg ers bsz (q_off s) (q_ll s) (q_ml s) st) as [st1| |] eqn:Es; cbn [obind] in H; try discriminate.
    destruct (store_seq_vinv _ _ _ _ _ _ _ _ pos0 Hf Hv Hb Es Hi) as (Hi1 & Hip & _).
    destruct (IH _ _ _ _ _ Hf Hv Hb HF' Hd H (vinv_bump _ _ _ _ Hi1)) as [Hr Hk].
    split; [exact Hr|]. destruct (bump_fields st1) as (_ & _ & Ei & _). rewrite Ei in Hk.
    cbn [length_sum]. lia.
Qed.

(* every list has a first delimiter or none *)
Lemma first_delim_split (S : list zseq) :
  Forall (fun s => is_delim s = false) S \/
  exists pre d rest, S = pre ++ d :: rest /\ Forall (fun s => is_delim s = false) pre /\ is_delim d = true.
Proof.
  induction S as [|s S IH]; [left; constructor|].
  destruct (is_delim s) eqn:Ed.
  - right. exists [], s, S. repeat split; [constructor|exact Ed].
  - destruct IH as [IH|(pre & d & rest & HS & HF & Hd)].
    + left. constructor; assumption.
    + right. exists (s :: pre), d, rest. subst S. repeat split; [constructor; assumption|exact Hd].
Qed.

Lemma copy_explicit_safe_sum cfg ers bsz S rep pos :
  safe_ctx cfg bsz pos -> length_sum S <= bsz -> (exists d, In d S /\ is_delim d = true) ->
  not_oob (copy_explicit cfg ers bsz S rep pos).
Proof.
  intros Hc Hsum (d0 & Hin & Hd0) site. unfold copy_explicit.
  destruct (first_delim_split S) as [Hnone|(pre & d & rest' & HS & HF & Hd)].
  { exfalso. rewrite Forall_forall in Hnone. specialize (Hnone _ Hin). congruence. }
  match goal with |- context [ex_loop ?a ?b ?c ?d ?e ?f] => destruct (ex_loop a b c d e f) as [[[rest0 st] offs]| |] eqn:El end;
    cbn [obind]; try discriminate.
  - destruct Hc as (Hf & Hv & Hw & Hb32 & Hp). subst S.
    destruct (ex_loop_pre_sum _ _ _ pos _ _ _ _ _ _ _ _ Hf Hv Hb32 HF Hd El (vinv_init _ _ _ _)) as [Hr Hk].
    subst rest0. cbn [k_ip] in Hk.
    rewrite length_sum_app in Hsum. cbn [length_sum] in Hsum.
    assert (E5 : (bsz <? k_ip st + q_ll d) = false) by (apply N.ltb_ge; lia). rewrite E5, andb_false_r.
    destruct (negb (k_ip st + q_ll d =? bsz)); discriminate.
  - exfalso. exact (ex_loop_safe _ _ _ pos _ _ _ Hc (vinv_init _ _ _ _) _ El).
Qed.

Lemma post_process_has_delim buf nb capacity srcSize seqs :
  post_process buf nb capacity srcSize = PPok seqs -> 0 < srcSize -> (N.to_nat nb <= length buf)%nat ->
  exists d, In d seqs /\ is_delim d = true.
Proof.
  unfold post_process. intros H Hs Hlen.
  destruct (capacity <? nb); [discriminate|].
  destruct ((nb =? 0) && (0 <? srcSize)) eqn:E0; [discriminate|].
  assert (Es : (srcSize =? 0) = false) by (apply N.eqb_neq; lia). rewrite Es in H.
  assert (Hnb : 0 < nb).
  { apply andb_false_iff in E0. destruct E0 as [E0|E0]; [apply N.eqb_neq in E0; lia|apply N.ltb_ge in E0; lia]. }
  destruct (is_delim (nth (N.to_nat (nb - 1)) buf (delim 0))) eqn:Ed.
  - inversion H; subst seqs. exists (nth (N.to_nat (nb - 1)) buf (delim 0)). split; [|exact Ed].
    assert (Hi : (N.to_nat (nb - 1) < N.to_nat nb)%nat) by lia.
    rewrite <- (firstn_skipn (N.to_nat nb) buf) at 1.
    rewrite app_nth1 by (rewrite firstn_length; lia).
    apply nth_In. rewrite firstn_length. lia.
  - destruct (nb =? capacity); [discriminate|]. inversion H; subst seqs.
    exists (delim 0). split; [apply in_or_app; right; left; reflexivity|reflexivity].
Qed.

(* whatever the producer wrote (32-bit fields are not even needed here): the block is never read or written out of bounds *)
Theorem producer_block_memory_safe cfg ers fallback buf nb capacity srcSize rep :
  g_fixed cfg = true -> g_validate cfg = true -> g_wlog cfg <= 31 -> srcSize + g_dict cfg + 3 < M32 ->
  (N.to_nat nb <= length buf)%nat \/ capacity < nb ->
  forall site, producer_block cfg ers fallback buf nb capacity srcSize rep <> PRoob site.
Proof.
  intros Hf Hv Hw Hs Hbuf site. unfold producer_block.
  destruct (post_process buf nb capacity srcSize) as [seqs|] eqn:Ep; [|destruct fallback; discriminate].
  destruct (srcSize <? length_sum seqs) eqn:El; [discriminate|]. apply N.ltb_ge in El.
  destruct (copy_explicit cfg ers srcSize seqs rep 0) as [[rest br]| |] eqn:Ec; try discriminate.
  intros _.
  assert (Hc : safe_ctx cfg srcSize 0) by (repeat split; try assumption; lia).
  destruct (N.eq_0_gt_0_cases srcSize) as [Hz|Hz].
  - (* empty block: the answer is replaced by a single delimiter *)
    unfold post_process in Ep. destruct (capacity <? nb); [discriminate|].
    subst srcSize. rewrite andb_false_r in Ep. cbn in Ep. inversion Ep; subst seqs.
    vm_compute in Ec. discriminate.
  - assert (Hlen : (N.to_nat nb <= length buf)%nat).
    { destruct Hbuf as [Hb|Hb]; [exact Hb|]. unfold post_process in Ep. apply N.ltb_lt in Hb. rewrite Hb in Ep. discriminate. }
    destruct (post_process_has_delim _ _ _ _ _ Ep Hz Hlen) as (d & Hin & Hd).
    exact (copy_explicit_safe_sum _ _ _ _ _ _ Hc El (ex_intro _ d (conj Hin Hd)) _ Ec).
Qed.
