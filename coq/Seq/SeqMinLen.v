(* C17 - the minMatch adjustment: every piece the delimiter-free copier stores is at least minMatch long
   ("keeps both halves >= minMatch or moves the edge"). *)
From Coq Require Import NArith ZArith List Bool Lia.
From ZV.Codec Require Import Bytes Block.
From ZV.Seq Require Import SeqApi SeqSpec SeqProofs.
Import ListNotations.
Local Open Scope N_scope.

Local Arguments store_seq : simpl never.
Local Arguments bump : simpl never.

Definition acc_min (m : N) (acc : list sseq) : Prop := Forall (fun t => m <= t_ml t) acc.
Definition seq_small (S : list zseq) : Prop := Forall (fun s => q_ll s + q_ml s < M32) S.
Definition seq_min (m : N) (S : list zseq) : Prop := Forall (fun s => m <= q_ml s) S.

Lemma store_seq_acc_min cfg ers bsz raw ll ml st st' m :
  store_seq cfg ers bsz raw ll ml st = Done st' -> acc_min m (k_acc st) -> m <= ml -> acc_min m (k_acc st').
Proof.
  intros Hs Ha Hm. apply store_seq_done in Hs. destruct Hs as (_ & _ & _ & _ & _ & Hacc).
  rewrite Hacc. constructor; [cbn; exact Hm|exact Ha].
Qed.

(* [endp - startp] bytes of the block are still free; when the loop is entered inside a match (startp > litLength) it is at
   the start of a block, so exactly bsz bytes are free *)
Lemma nd_loop_minlen cfg bsz (HB : bsz < M32) (HM : 1 <= g_minMatch cfg) S :
  forall startp endp st rest pis adj st',
  nd_loop cfg bsz S startp endp st = Done (rest, pis, adj, st') ->
  seq_small S -> seq_min (g_minMatch cfg) S ->
  startp <= endp -> endp < M32 -> endp - startp <= bsz ->
  (2 * g_minMatch cfg <= bsz + 1 \/ total_len S <= endp) ->
  acc_min (g_minMatch cfg) (k_acc st) ->
  (forall s r, S = s :: r -> startp < q_ll s + q_ml s) ->
  (forall s r, S = s :: r -> q_ll s < startp ->
     g_minMatch cfg <= q_ll s + q_ml s - startp /\ (endp < q_ll s + q_ml s -> endp - startp = bsz)) ->
  acc_min (g_minMatch cfg) (k_acc st') /\
  (rest <> [] -> total_len S + pis + adj = total_len rest + endp) /\
  (forall s r, rest = s :: r -> pis < q_ll s + q_ml s) /\
  (forall s r, rest = s :: r -> q_ll s < pis -> g_minMatch cfg <= q_ll s + q_ml s - pis).
Proof.
  induction S as [|s S IH]; intros startp endp st rest pis adj st' H Hsm Hmin Hse He Hfree Hbig Hacc Hin Hmid.
  - cbn in H. inversion H; subst. repeat split; try assumption; try congruence; intros; discriminate.
  - cbn [nd_loop] in H.
    inversion Hsm as [|? ? Hs32 Hsm']; subst. inversion Hmin as [|? ? Hml Hmin']; subst.
    specialize (Hin s S eq_refl). specialize (Hmid s S eq_refl).
    remember (q_ll s) as ll eqn:Hll0. remember (q_ml s) as ml eqn:Hml0.
    destruct (endp =? 0) eqn:E0.
    { apply N.eqb_eq in E0. inversion H; subst rest pis adj st'. split; [exact Hacc|].
      split; [intros _; lia|]. split; intros s0 r0 Hs0; inversion Hs0; subst; lia. }
    rewrite add32_small in H by lia.
    destruct (ll + ml <=? endp) eqn:E1.
    { apply N.leb_le in E1.
      destruct (ll <=? startp) eqn:E2.
      - apply N.leb_le in E2.
        rewrite (sub32_small startp ll) in H by lia.
        rewrite (sub32_small ml (startp - ll)) in H by lia.
        destruct (store_seq cfg true bsz (q_off s) 0 (ml - (startp - ll)) st) as [st1| |] eqn:Es; cbn [obind] in H; try discriminate.
        assert (Hpiece : (g_minMatch cfg) <= ml - (startp - ll)).
        { destruct (N.eq_dec startp ll) as [Heq|Hne]; [subst startp; lia|]. destruct (Hmid ltac:(lia)) as [M1 _]. lia. }
        pose proof (store_seq_acc_min _ _ _ _ _ _ _ _ (g_minMatch cfg) Es Hacc Hpiece) as Ha1.
        destruct (bump_fields st1) as (Ea & _).
        rewrite (sub32_small endp (ll + ml)) in H by lia.
        cbn [total_len] in Hbig |- *. rewrite <- Hll0, <- Hml0 in *.
        destruct (IH 0 (endp - (ll + ml)) (bump st1) rest pis adj st' H Hsm' Hmin' ltac:(lia) ltac:(lia) ltac:(lia) ltac:(lia)
                     ltac:(rewrite Ea; exact Ha1)
                     ltac:(intros s0 r0 Hs0; subst S; inversion Hmin'; subst; lia) ltac:(intros s0 r0 Hs0 Hlt; lia))
          as (R1 & R2 & R3 & R4).
        split; [exact R1|]. split; [intros Hne; specialize (R2 Hne); lia|]. split; assumption.
      - apply N.leb_gt in E2.
        rewrite (sub32_small ll startp) in H by lia.
        destruct (store_seq cfg true bsz (q_off s) (ll - startp) ml st) as [st1| |] eqn:Es; cbn [obind] in H; try discriminate.
        pose proof (store_seq_acc_min _ _ _ _ _ _ _ _ (g_minMatch cfg) Es Hacc Hml) as Ha1.
        destruct (bump_fields st1) as (Ea & _).
        rewrite (sub32_small endp (ll + ml)) in H by lia.
        cbn [total_len] in Hbig |- *. rewrite <- Hll0, <- Hml0 in *.
        destruct (IH 0 (endp - (ll + ml)) (bump st1) rest pis adj st' H Hsm' Hmin' ltac:(lia) ltac:(lia) ltac:(lia) ltac:(lia)
                     ltac:(rewrite Ea; exact Ha1)
                     ltac:(intros s0 r0 Hs0; subst S; inversion Hmin'; subst; lia) ltac:(intros s0 r0 Hs0 Hlt; lia))
          as (R1 & R2 & R3 & R4).
        split; [exact R1|]. split; [intros Hne; specialize (R2 Hne); lia|]. split; assumption. }
    apply N.leb_gt in E1.
    destruct (ll <? endp) eqn:E3.
    2:{ apply N.ltb_ge in E3. inversion H; subst rest pis adj st'. split; [exact Hacc|].
        split; [intros _; lia|]. split; intros s0 r0 Hs0; inversion Hs0; subst; lia. }
    apply N.ltb_lt in E3.
    remember (if ll <=? startp then 0 else sub32 ll startp) as ll' eqn:Hll'0.
    assert (Hll' : ll' = if ll <=? startp then 0 else ll - startp).
    { rewrite Hll'0. destruct (ll <=? startp) eqn:E2; [reflexivity|]. apply N.leb_gt in E2. apply sub32_small; lia. }
    assert (Hll'le : ll' <= endp - startp /\ startp + ll' = N.max startp ll).
    { rewrite Hll'. destruct (ll <=? startp) eqn:E2; [apply N.leb_le in E2|apply N.leb_gt in E2]; lia. }
    rewrite (sub32_small endp startp) in H by lia.
    rewrite (sub32_small (endp - startp) ll') in H by lia.
    remember (endp - startp - ll') as first eqn:Hfirst.
    destruct ((bsz <? ml) && ((g_minMatch cfg) <=? first)) eqn:E4.
    + apply andb_true_iff in E4. destruct E4 as [E4a E4b]. apply N.ltb_lt in E4a. apply N.leb_le in E4b.
      rewrite (add32_small ml ll) in H by lia.
      rewrite (sub32_small (ml + ll) endp) in H by lia.
      remember (ml + ll - endp) as second eqn:Hsecond.
      remember (if second <? (g_minMatch cfg) then sub32 (g_minMatch cfg) second else 0) as adj0 eqn:Hadj0.
      assert (Hadj : adj0 = if second <? (g_minMatch cfg) then (g_minMatch cfg) - second else 0).
      { rewrite Hadj0. destruct (second <? (g_minMatch cfg)) eqn:E5; [|reflexivity]. apply N.ltb_lt in E5. apply sub32_small; lia. }
      assert (Hpiece : adj0 < first /\ adj0 <= endp /\ (g_minMatch cfg) <= first - adj0 /\ (g_minMatch cfg) <= second + adj0).
      { assert (H2 : 2 * g_minMatch cfg <= bsz + 1).
        { destruct Hbig as [Hb|Hb]; [exact Hb|]. cbn [total_len] in Hb. rewrite <- Hll0, <- Hml0 in Hb. lia. }
        rewrite Hadj. destruct (second <? (g_minMatch cfg)) eqn:E5; [apply N.ltb_lt in E5|apply N.ltb_ge in E5]; [|lia].
        destruct (N.le_gt_cases startp ll) as [Hc|Hc].
        - (* the match starts in this block: first + second = ml > bsz *)
          assert (first + second = ml) by (rewrite Hll' in *; destruct (ll <=? startp) eqn:E2; [apply N.leb_le in E2|apply N.leb_gt in E2]; lia).
          lia.
        - (* resumed inside the match at the start of a block: first = bsz *)
          destruct (Hmid Hc) as [M1 M2]. specialize (M2 ltac:(lia)).
          assert (E2 : (ll <=? startp) = true) by (apply N.leb_le; lia). rewrite E2 in Hll'. subst ll'. lia. }
      destruct Hpiece as (P1 & P2 & P3 & P4).
      rewrite (sub32_small first adj0) in H by lia.
      destruct (store_seq cfg true bsz (q_off s) ll' (first - adj0) st) as [st1| |] eqn:Es; cbn [obind] in H; try discriminate.
      rewrite (sub32_small endp adj0) in H by lia.
      inversion H; subst rest pis adj st'. clear H.
      split; [exact (store_seq_acc_min _ _ _ _ _ _ _ _ (g_minMatch cfg) Es Hacc P3)|].
      split; [intros _; lia|]. split; intros s0 r0 Hs0; inversion Hs0; subst; lia.
    + inversion H; subst rest pis adj st'. clear H. split; [exact Hacc|].
      assert (Hsl : startp <= ll -> sub32 endp ll = endp - ll) by (intros; apply sub32_small; lia).
      destruct (N.le_gt_cases startp ll) as [Hc|Hc].
      * rewrite (Hsl Hc). split; [intros _; lia|]. split; intros s0 r0 Hs0; inversion Hs0; subst; lia.
      * (* resumed inside the match: the test above cannot fail *)
        exfalso. destruct (Hmid Hc) as [M1 M2]. specialize (M2 ltac:(lia)).
        assert (E2 : (ll <=? startp) = true) by (apply N.leb_le; lia). rewrite E2 in Hll'. subst ll'.
        assert (Hbm : bsz < ml).
        { (* the rest of the match does not fit: endp < ll + ml and endp - startp = bsz, startp > ll *) lia. }
        assert (H2 : 2 * g_minMatch cfg <= bsz + 1).
        { destruct Hbig as [Hb|Hb]; [exact Hb|]. cbn [total_len] in Hb. rewrite <- Hll0, <- Hml0 in Hb. lia. }
        apply andb_false_iff in E4. destruct E4 as [E4|E4]; [apply N.ltb_ge in E4; lia|apply N.leb_gt in E4; lia].
Qed.

(* ---------- one block ---------- *)
Definition min_state (cfg : scfg) (S : list zseq) (pis : N) : Prop :=
  (forall s r, S = s :: r -> pis < q_ll s + q_ml s) /\
  (forall s r, S = s :: r -> q_ll s < pis -> g_minMatch cfg <= q_ll s + q_ml s - pis).

Lemma total_len_ge_head s r : q_ll s + q_ml s <= total_len (s :: r).
Proof. cbn. lia. Qed.

Lemma copy_no_delim_minlen cfg bsz S pis rep pos rest pis' br :
  1 <= g_minMatch cfg -> bsz < M32 -> pis + bsz < M32 ->
  seq_small S -> seq_min (g_minMatch cfg) S -> min_state cfg S pis ->
  (2 * g_minMatch cfg <= bsz + 1 \/ total_len S <= pis + bsz) ->
  copy_no_delim cfg bsz S pis rep pos = Done (rest, pis', br) ->
  stored_minlen (g_minMatch cfg) (r_seqs br) /\ min_state cfg rest pis' /\
  (rest <> [] -> total_len S + pis' + r_adj br = total_len rest + pis + bsz).
Proof.
  intros HM HB Hpb Hsm Hmin [Hin Hmid] Hbig H. unfold copy_no_delim in H.
  rewrite add32_small in H by exact Hpb.
  match type of H with context [nd_loop ?a ?b ?c ?d ?e ?f] => destruct (nd_loop a b c d e f) as [[[[rest0 p0] adj] st]| |] eqn:El end;
    cbn [obind] in H; try discriminate.
  destruct (g_fixed cfg && (k_ip st <=? bsz) && (bsz - k_ip st <? adj)); [discriminate|].
  destruct (bsz <? adj); [discriminate|]. destruct (bsz - adj <? k_ip st); [discriminate|].
  inversion H; subst rest pis' br; cbn [r_seqs r_adj]. clear H. rewrite rev'_rev.
  destruct (nd_loop_minlen cfg bsz HB HM S pis (pis + bsz) _ _ _ _ _ El Hsm Hmin ltac:(lia) Hpb ltac:(lia) Hbig) as (R1 & R2 & R3 & R4);
    cbn [k_acc].
  - constructor.
  - exact Hin.
  - intros s r Hs Hlt. split; [exact (Hmid s r Hs Hlt)|]. intros _. lia.
  - split; [unfold stored_minlen; apply Forall_rev; exact R1|]. split; [split; assumption|].
    intros Hne. specialize (R2 Hne). lia.
Qed.

(* ---------- the block loop ---------- *)
(* once the list is exhausted every further block is literals only *)
Lemma cs_loop_nil cfg ers bsMax : forall fuel pis pos remaining rep dec blks,
  cs_loop fuel cfg false ers bsMax [] pis pos remaining rep dec = Done blks ->
  Forall (fun b => b_seqs b = []) blks.
Proof.
  induction fuel as [|f IH]; intros pis pos remaining rep dec blks H.
  - cbn in H. destruct (remaining =? 0); [|discriminate]. inversion H; subst. constructor.
  - cbn [cs_loop] in H. destruct (remaining =? 0); [inversion H; subst; constructor|].
    cbn [determine_block_size obind] in H.
    set (bs := if remaining <=? bsMax then remaining else bsMax) in *.
    destruct (copy_no_delim cfg bs [] pis rep pos) as [[[rest pis'] br]| |] eqn:Ec; cbn [obind] in H; try discriminate.
    assert (Hb : rest = [] /\ r_seqs br = []).
    { unfold copy_no_delim in Ec. cbn [nd_loop obind] in Ec.
      repeat match type of Ec with context [if ?c then _ else _] => destruct c; try discriminate end.
      inversion Ec; subst. cbn. split; reflexivity. }
    destruct Hb as [Hr Hs]. subst rest.
    destruct (bs - r_adj br <? TINY).
    + match type of H with context [cs_loop ?a ?b ?c ?d ?e ?g ?h ?i ?j ?k ?l] =>
        destruct (cs_loop a b c d e g h i j k l) as [rest'| |] eqn:Er end; cbn [obind] in H; try discriminate.
      inversion H; subst blks. constructor; [cbn; exact Hs|]. eapply IH; exact Er.
    + destruct (bs =? remaining).
      * inversion H; subst blks. constructor; [cbn; exact Hs|constructor].
      * match type of H with context [cs_loop ?a ?b ?c ?d ?e ?g ?h ?i ?j ?k ?l] =>
          destruct (cs_loop a b c d e g h i j k l) as [rest'| |] eqn:Er end; cbn [obind] in H; try discriminate.
        inversion H; subst blks. constructor; [cbn; exact Hs|]. eapply IH; exact Er.
Qed.

Lemma nd_loop_total_le cfg bsz S : forall startp endp st rest pis adj st',
  nd_loop cfg bsz S startp endp st = Done (rest, pis, adj, st') -> total_len rest <= total_len S.
Proof.
  induction S as [|s S IH]; intros startp endp st rest pis adj st' H.
  - cbn in H. inversion H; subst. lia.
  - cbn [nd_loop] in H. cbn [total_len].
    destruct (endp =? 0); [inversion H; subst; cbn; lia|].
    destruct (add32 (q_ll s) (q_ml s) <=? endp).
    + destruct (if q_ll s <=? startp then (0, sub32 (q_ml s) (sub32 startp (q_ll s))) else (sub32 (q_ll s) startp, q_ml s)) as [ll' ml'].
      destruct (store_seq cfg true bsz (q_off s) ll' ml' st) as [st1| |]; cbn [obind] in H; try discriminate.
      apply IH in H. lia.
    + destruct (q_ll s <? endp); [|inversion H; subst; cbn; lia].
      match type of H with context [if ?c then _ else _] => destruct c end.
      * match type of H with context [store_seq ?c ?e ?b ?r ?l ?m ?t] => destruct (store_seq c e b r l m t) as [st1| |] end;
          cbn [obind] in H; try discriminate.
        inversion H; subst; cbn; lia.
      * inversion H; subst; cbn; lia.
Qed.

Lemma copy_no_delim_total_le cfg bs S pis rep pos rest pis' br :
  copy_no_delim cfg bs S pis rep pos = Done (rest, pis', br) -> total_len rest <= total_len S.
Proof.
  unfold copy_no_delim. intros Ec.
  match type of Ec with context [nd_loop ?a ?b ?c ?d ?e ?g] => destruct (nd_loop a b c d e g) as [[[[rest0 p0] adj] st]| |] eqn:El end;
    cbn [obind] in Ec; try discriminate.
  repeat match type of Ec with context [if ?c then _ else _] => destruct c; try discriminate end.
  inversion Ec; subst. eapply nd_loop_total_le; exact El.
Qed.

Lemma copy_no_delim_adj_le cfg bs S pis rep pos rest pis' br :
  copy_no_delim cfg bs S pis rep pos = Done (rest, pis', br) -> r_adj br <= bs.
Proof.
  unfold copy_no_delim. intros Ec.
  match type of Ec with context [nd_loop ?a ?b ?c ?d ?e ?g] => destruct (nd_loop a b c d e g) as [[[[rest0 p0] adj] st]| |] end;
    cbn [obind] in Ec; try discriminate.
  destruct (g_fixed cfg && (k_ip st <=? bs) && (bs - k_ip st <? adj)); [discriminate|].
  destruct (bs <? adj) eqn:E7; [discriminate|]. destruct (bs - adj <? k_ip st); [discriminate|].
  inversion Ec; subst; cbn. apply N.ltb_ge in E7. exact E7.
Qed.

Lemma cs_loop_minlen cfg ers bsMax : forall fuel S pis pos remaining rep dec blks,
  1 <= g_minMatch cfg -> 2 * g_minMatch cfg <= bsMax + 1 -> bsMax < M32 ->
  seq_small S -> seq_min (g_minMatch cfg) S -> min_state cfg S pis ->
  (S <> [] -> total_len S <= pis + remaining /\ pis + remaining < M32) ->
  cs_loop fuel cfg false ers bsMax S pis pos remaining rep dec = Done blks ->
  Forall (fun b => stored_minlen (g_minMatch cfg) (b_seqs b)) blks.
Proof.
  induction fuel as [|f IH]; intros S pis pos remaining rep dec blks HM H2 HB Hsm Hmin Hst Htot H.
  - cbn in H. destruct (remaining =? 0); [|discriminate]. inversion H; subst. constructor.
  - destruct S as [|s0 S0].
    { apply cs_loop_nil in H. eapply Forall_impl; [|exact H]. intros b Hb. unfold stored_minlen. rewrite Hb. constructor. }
    destruct (Htot ltac:(discriminate)) as [Ht Hpr]. clear Htot.
    remember (s0 :: S0) as S eqn:HS.
    cbn [cs_loop] in H. destruct (remaining =? 0); [inversion H; subst; constructor|].
    cbn [determine_block_size obind] in H.
    set (bs := if remaining <=? bsMax then remaining else bsMax) in *.
    assert (Hbs : bs <= remaining /\ bs <= bsMax /\ (bs = remaining \/ bs = bsMax)).
    { unfold bs. destruct (remaining <=? bsMax) eqn:Er; [apply N.leb_le in Er|apply N.leb_gt in Er]; lia. }
    destruct (copy_no_delim cfg bs S pis rep pos) as [[[rest pis'] br]| |] eqn:Ec; cbn [obind] in H; try discriminate.
    assert (Hbig : 2 * g_minMatch cfg <= bs + 1 \/ total_len S <= pis + bs).
    { destruct Hbs as (_ & _ & [Hb|Hb]); [right; lia|left; lia]. }
    destruct (copy_no_delim_minlen cfg bs S pis rep pos rest pis' br HM ltac:(lia) ltac:(lia) Hsm Hmin Hst Hbig Ec) as (Hml & Hst' & Hsum).
    pose proof (copy_no_delim_suffix _ _ _ _ _ _ _ _ _ _ Ec Hsm) as Hsm'.
    pose proof (copy_no_delim_suffix _ _ _ _ _ _ _ _ _ _ Ec Hmin) as Hmin'.
    pose proof (copy_no_delim_adj_le _ _ _ _ _ _ _ _ _ Ec) as Hadj.
    assert (Hnext : rest <> [] -> total_len rest <= pis' + (remaining - (bs - r_adj br)) /\ pis' + (remaining - (bs - r_adj br)) < M32).
    { intros Hne. specialize (Hsum Hne). pose proof (copy_no_delim_total_le _ _ _ _ _ _ _ _ _ Ec) as Htl. lia. }
    destruct (bs - r_adj br <? TINY).
    + match type of H with context [cs_loop ?a ?b ?c ?d ?e ?g ?h ?i ?j ?k ?l] =>
        destruct (cs_loop a b c d e g h i j k l) as [rest'| |] eqn:Er end; cbn [obind] in H; try discriminate.
      inversion H; subst blks. constructor; [cbn; exact Hml|].
      eapply IH; [exact HM|exact H2|exact HB|exact Hsm'|exact Hmin'|exact Hst'|exact Hnext|exact Er].
    + destruct (bs =? remaining).
      * inversion H; subst blks. constructor; [cbn; exact Hml|constructor].
      * match type of H with context [cs_loop ?a ?b ?c ?d ?e ?g ?h ?i ?j ?k ?l] =>
          destruct (cs_loop a b c d e g h i j k l) as [rest'| |] eqn:Er end; cbn [obind] in H; try discriminate.
        inversion H; subst blks. constructor; [cbn; exact Hml|].
        eapply IH; [exact HM|exact H2|exact HB|exact Hsm'|exact Hmin'|exact Hst'|exact Hnext|exact Er].
Qed.

(* Delimiter-free mode: if every match of the list is at least minMatch long, the list does not overrun the source, and a
   full block holds two minimal matches, then every piece stored in any block is at least minMatch long: the minMatch
   adjustment moves the block edge instead of leaving a short half. *)
Theorem split_halves_at_least_minmatch cfg ers bsMax srcSize S rep dec blks :
  1 <= g_minMatch cfg -> 2 * g_minMatch cfg <= bsMax + 1 -> bsMax < M32 -> srcSize < M32 ->
  seq_min (g_minMatch cfg) S -> total_len S <= srcSize ->
  compress_sequences cfg false ers bsMax srcSize S rep dec = Done blks ->
  Forall (fun b => stored_minlen (g_minMatch cfg) (b_seqs b)) blks.
Proof.
  intros HM H2 HB HE Hmin Ht H. unfold compress_sequences in H.
  eapply cs_loop_minlen; [exact HM|exact H2|exact HB| |exact Hmin| | |exact H].
  - clear -Ht HE. unfold seq_small. induction S as [|s S IH]; [constructor|].
    cbn [total_len] in Ht. constructor; [lia|apply IH; lia].
  - split.
    + intros s r Hs. subst S. inversion Hmin; subst. lia.
    + intros s r Hs Hlt. lia.
  - intros _. split; lia.
Qed.
