(* C17 - proofs about the sequence-API model (coq/Seq/SeqApi.v). *)
From Coq Require Import NArith ZArith List Bool Lia.
From ZV.Codec Require Import Bytes Block.
From ZV.Seq Require Import SeqApi SeqSpec.
Import ListNotations.
Local Open Scope N_scope.

Ltac Zify.zify_post_hook ::= Z.div_mod_to_equations.

(* ---------- 32-bit arithmetic without wrap-around ---------- *)
Lemma add32_small a b : a + b < M32 -> add32 a b = a + b.
Proof. intros. unfold add32. apply N.mod_small; assumption. Qed.

Lemma sub32_small a b : b <= a -> a < M32 -> sub32 a b = a - b.
Proof.
  intros Hb Ha. unfold sub32.
  assert (Hbm : b mod M32 = b) by (apply N.mod_small; lia). rewrite Hbm.
  replace (a + M32 - b) with ((a - b) + 1 * M32) by lia.
  rewrite N.mod_add by (unfold M32; lia). apply N.mod_small. lia.
Qed.

Lemma rep_index_vals :
  rep_index 1 false = 0 /\ rep_index 2 false = 1 /\ rep_index 3 false = 2 /\
  rep_index 1 true = 1 /\ rep_index 2 true = 2 /\ rep_index 3 true = 3.
Proof. repeat split; vm_compute; reflexivity. Qed.

(* ---------- repcode lock-step : one sequence ---------- *)
Lemma finalize_lockstep raw ll rep :
  rep_ok rep -> 1 <= raw -> raw + 3 < M32 ->
  let ob := finalize_offbase raw rep (ll =? 0) in
  resolve_offset ob ll rep = Ok (raw, update_rep rep ob (ll =? 0)) /\ rep_ok (update_rep rep ob (ll =? 0)) /\ 1 <= ob.
Proof.
  destruct rep as [[r0 r1] r2]. unfold rep_ok. intros (H0 & H1 & H2) Hr Hb. cbv zeta.
  destruct rep_index_vals as (I1 & I2 & I3 & I4 & I5 & I6).
  unfold finalize_offbase, update_rep, resolve_offset.
  assert (Hs : sub32 r0 1 = r0 - 1) by (apply sub32_small; lia).
  assert (Ha : add32 raw 3 = raw + 3) by (apply add32_small; lia).
  rewrite Hs, Ha.
  destruct (ll =? 0) eqn:El; cbn [negb andb]; rewrite ?I1, ?I2, ?I3, ?I4, ?I5, ?I6.
  - (* ll = 0 *)
    destruct (raw =? r1) eqn:E1.
    + apply N.eqb_eq in E1; subst. cbn. repeat split; lia.
    + destruct (raw =? r2) eqn:E2.
      * apply N.eqb_eq in E2; subst. cbn. repeat split; lia.
      * destruct (raw =? r0 - 1) eqn:E3.
        -- apply N.eqb_eq in E3. cbn.
           assert (Hlt : (1 <? r0) = true) by (apply N.ltb_lt; lia). rewrite Hlt. cbn. subst raw.
           repeat split; lia.
        -- assert (Hgt : (3 <? raw + 3) = true) by (apply N.ltb_lt; lia). rewrite Hgt.
           replace (raw + 3 - 3) with raw by lia. repeat split; lia.
  - (* ll <> 0 *)
    destruct (raw =? r0) eqn:E0.
    + apply N.eqb_eq in E0; subst. cbn. repeat split; lia.
    + destruct (raw =? r1) eqn:E1.
      * apply N.eqb_eq in E1; subst. cbn. repeat split; lia.
      * destruct (raw =? r2) eqn:E2.
        -- apply N.eqb_eq in E2; subst. cbn. repeat split; lia.
        -- assert (Hgt : (3 <? raw + 3) = true) by (apply N.ltb_lt; lia). rewrite Hgt.
           replace (raw + 3 - 3) with raw by lia. repeat split; lia.
Qed.

(* ---------- store_seq : what a successful store tells ---------- *)
Lemma store_tail_done cfg ers bsz raw ll ml pos' st st' :
  store_tail cfg ers bsz raw ll ml pos' st = Done st' ->
  k_ip st' = k_ip st + add32 ml ll /\
  k_cnt st' = k_cnt st /\
  k_ip st + ll <= bsz /\
  k_cnt st < g_maxNbSeq cfg /\
  k_rep st' = snd (code_offset ers raw ll (k_rep st)) /\
  k_acc st' = {| t_ll := ll; t_ml := ml; t_ob := fst (code_offset ers raw ll (k_rep st)); t_raw := raw |} :: k_acc st /\
  k_pos st' = pos'.
Proof.
  unfold store_tail. destruct (code_offset ers raw ll (k_rep st)) as [ob rep'] eqn:Ec. cbn [fst snd].
  destruct (ers && (ob =? 0) && negb (ll =? 0)); [discriminate|].
  destruct (g_maxNbSeq cfg <=? k_cnt st) eqn:Em; [discriminate|].
  destruct (bsz <? k_ip st + ll) eqn:Eb; [discriminate|].
  intros H; inversion H; subst; cbn.
  apply N.leb_gt in Em. apply N.ltb_ge in Eb. repeat split; auto.
Qed.

Lemma store_seq_tail cfg ers bsz raw ll ml st st' :
  store_seq cfg ers bsz raw ll ml st = Done st' ->
  exists pos', store_tail cfg ers bsz raw ll ml pos' st = Done st'.
Proof.
  unfold store_seq. destruct (g_fixed cfg).
  - destruct ((k_ip st <=? bsz) && (bsz - k_ip st <? ll + ml)); [discriminate|].
    destruct (g_validate cfg && negb (validate_fixed cfg raw ml (k_pos st + ll))); [discriminate|].
    intros H; eexists; exact H.
  - destruct (code_offset ers raw ll (k_rep st)) as [ob rep'].
    destruct (ers && (ob =? 0) && negb (ll =? 0)); [discriminate|].
    match goal with |- context [if ?c then Invalid 1 else _] => destruct c end; [discriminate|].
    intros H; eexists; exact H.
Qed.

Lemma store_seq_done cfg ers bsz raw ll ml st st' :
  store_seq cfg ers bsz raw ll ml st = Done st' ->
  k_ip st' = k_ip st + add32 ml ll /\
  k_cnt st' = k_cnt st /\
  k_ip st + ll <= bsz /\
  k_cnt st < g_maxNbSeq cfg /\
  k_rep st' = snd (code_offset ers raw ll (k_rep st)) /\
  k_acc st' = {| t_ll := ll; t_ml := ml; t_ob := fst (code_offset ers raw ll (k_rep st)); t_raw := raw |} :: k_acc st.
Proof.
  intros H. destruct (store_seq_tail _ _ _ _ _ _ _ _ H) as [pos' Ht].
  apply store_tail_done in Ht. tauto.
Qed.

(* repaired variant: the three tests that precede the store *)
Lemma store_seq_fixed_done cfg ers bsz raw ll ml st st' :
  g_fixed cfg = true ->
  store_seq cfg ers bsz raw ll ml st = Done st' ->
  (k_ip st <= bsz -> ll + ml <= bsz - k_ip st) /\
  (g_validate cfg = true -> validate_fixed cfg raw ml (k_pos st + ll) = true /\ k_pos st' = k_pos st + ll + ml) /\
  (g_validate cfg = false -> k_pos st' = k_pos st).
Proof.
  unfold store_seq. intros Hf. rewrite Hf.
  destruct ((k_ip st <=? bsz) && (bsz - k_ip st <? ll + ml)) eqn:E1; [discriminate|].
  destruct (g_validate cfg) eqn:Ev; cbn [andb].
  - destruct (validate_fixed cfg raw ml (k_pos st + ll)) eqn:E2; cbn [negb]; [|discriminate].
    intros H. apply store_tail_done in H. destruct H as (_ & _ & _ & _ & _ & _ & Hp).
    repeat split; auto; try discriminate.
    intros Hle. apply andb_false_iff in E1. destruct E1 as [E1|E1].
    + apply N.leb_gt in E1. lia.
    + apply N.ltb_ge in E1. exact E1.
  - intros H. apply store_tail_done in H. destruct H as (_ & _ & _ & _ & _ & _ & Hp).
    repeat split; auto; try discriminate.
    intros Hle. apply andb_false_iff in E1. destruct E1 as [E1|E1].
    + apply N.leb_gt in E1. lia.
    + apply N.ltb_ge in E1. exact E1.
Qed.

(* ---------- decoder view of an accumulated seqStore (newest first) ---------- *)
Inductive dec_rel (rep0 : reps) : list sseq -> reps -> Prop :=
  | dec_nil : dec_rel rep0 [] rep0
  | dec_cons acc rep t rep' :
      dec_rel rep0 acc rep -> resolve_offset (t_ob t) (t_ll t) rep = Ok (t_raw t, rep') -> dec_rel rep0 (t :: acc) rep'.

Lemma decode_offsets_app rep a b offs1 rep1 offs2 rep2 :
  decode_offsets rep a = Ok (offs1, rep1) -> decode_offsets rep1 b = Ok (offs2, rep2) ->
  decode_offsets rep (a ++ b) = Ok (offs1 ++ offs2, rep2).
Proof.
  revert rep offs1 rep1. induction a as [|t a IH]; intros rep offs1 rep1 Ha Hb.
  - cbn in Ha. inversion Ha; subst. exact Hb.
  - cbn in Ha |- *. destruct (resolve_offset (t_ob t) (t_ll t) rep) as [[o r']|] eqn:Er; cbn in Ha |- *; [|discriminate].
    destruct (decode_offsets r' a) as [[os r'']|] eqn:Ed; cbn in Ha; [|discriminate].
    inversion Ha; subst. rewrite (IH _ _ _ Ed Hb). reflexivity.
Qed.

Lemma dec_rel_decode rep0 acc rep :
  dec_rel rep0 acc rep -> decode_offsets rep0 (rev acc) = Ok (map t_raw (rev acc), rep).
Proof.
  induction 1 as [|acc rep t rep' H IH Hr].
  - reflexivity.
  - cbn [rev]. rewrite map_app. eapply decode_offsets_app; [exact IH|].
    cbn. rewrite Hr. reflexivity.
Qed.

Lemma rev'_rev {A} (l : list A) : rev' l = rev l.
Proof. unfold rev'. rewrite <- rev_alt. reflexivity. Qed.

(* one store keeps the decoder in step (repcode search on) *)
Lemma store_seq_lockstep_ers cfg bsz raw ll ml st st' rep0 :
  store_seq cfg true bsz raw ll ml st = Done st' ->
  rep_ok (k_rep st) -> 1 <= raw -> raw + 3 < M32 ->
  dec_rel rep0 (k_acc st) (k_rep st) ->
  dec_rel rep0 (k_acc st') (k_rep st') /\ rep_ok (k_rep st').
Proof.
  intros Hs Hr H1 H2 Hd. apply store_seq_done in Hs.
  destruct Hs as (_ & _ & _ & _ & Hrep & Hacc).
  unfold code_offset in Hrep, Hacc. cbn [fst snd] in Hrep, Hacc.
  destruct (finalize_lockstep raw ll (k_rep st) Hr H1 H2) as (Hres & Hok & _).
  rewrite Hacc, Hrep. split; [|exact Hok].
  eapply dec_cons; [exact Hd|]. cbn. exact Hres.
Qed.

Local Arguments store_seq : simpl never.
Local Arguments bump : simpl never.

(* ---------- explicit-delimiter copier : lock-step ---------- *)
Lemma bump_fields st : k_acc (bump st) = k_acc st /\ k_rep (bump st) = k_rep st /\ k_ip (bump st) = k_ip st /\
                        k_pos (bump st) = k_pos st /\ k_cnt (bump st) = k_cnt st + 1.
Proof. unfold bump; cbn; auto. Qed.

Lemma off_ok_nondelim s : off_ok s -> is_delim s = false -> 1 <= q_off s /\ q_off s + 3 < M32.
Proof. intros [H|H] Hd; [congruence|exact H]. Qed.

Lemma ex_loop_lockstep_ers cfg bsz rep0 S : forall st offs rest st' offs',
  ex_loop cfg true bsz S st offs = Done (rest, st', offs') ->
  Forall off_ok S -> rep_ok (k_rep st) -> dec_rel rep0 (k_acc st) (k_rep st) ->
  dec_rel rep0 (k_acc st') (k_rep st') /\ rep_ok (k_rep st').
Proof.
  induction S as [|s S IH]; intros st offs rest st' offs' H HF Hr Hd.
  - cbn in H. inversion H; subst. auto.
  - cbn in H. destruct (is_delim s) eqn:Ed.
    + inversion H; subst. auto.
    + destruct (store_seq cfg true bsz (q_off s) (q_ll s) (q_ml s) st) as [st1| |] eqn:Es; cbn in H; try discriminate.
      inversion HF as [|? ? Hs HF']; subst.
      destruct (off_ok_nondelim _ Hs Ed) as [H1 H2].
      destruct (store_seq_lockstep_ers _ _ _ _ _ _ _ rep0 Es Hr H1 H2 Hd) as [Hd1 Hr1].
      eapply IH; [exact H|exact HF'| |]; destruct (bump_fields st1) as (Ea & Er & _); rewrite ?Ea, ?Er; assumption.
Qed.

Lemma resolve_real_offset raw ll rep :
  1 <= raw -> raw + 3 < M32 ->
  resolve_offset (add32 raw 3) ll rep = Ok (raw, (raw, fst (fst rep), snd (fst rep))).
Proof.
  intros H1 H2. destruct rep as [[r0 r1] r2]. unfold resolve_offset.
  rewrite add32_small by lia.
  assert (Hgt : (3 <? raw + 3) = true) by (apply N.ltb_lt; lia). rewrite Hgt.
  replace (raw + 3 - 3) with raw by lia. reflexivity.
Qed.

Lemma rebuild_rep_push rep0 raw offs :
  rebuild_rep rep0 (raw :: offs) =
  (raw, fst (fst (rebuild_rep rep0 offs)), snd (fst (rebuild_rep rep0 offs))).
Proof.
  destruct rep0 as [[r0 r1] r2].
  destruct offs as [|a [|b [|c offs]]]; reflexivity.
Qed.

Definition offs_ok (offs : list N) : Prop := Forall (fun o => 1 <= o /\ o + 3 < M32) offs.

Lemma rebuild_rep_ok rep0 offs : rep_ok rep0 -> offs_ok offs -> rep_ok (rebuild_rep rep0 offs).
Proof.
  destruct rep0 as [[r0 r1] r2]. unfold rep_ok, offs_ok. intros (H0 & H1 & H2) HF.
  destruct offs as [|a [|b [|c offs]]]; cbn.
  - auto.
  - inversion HF; subst. repeat split; try lia.
  - inversion HF as [|? ? Ha HF1]; subst. inversion HF1; subst. repeat split; try lia.
  - inversion HF as [|? ? Ha HF1]; subst. inversion HF1 as [|? ? Hb HF2]; subst. inversion HF2; subst. repeat split; try lia.
Qed.

Lemma ex_loop_lockstep_noers cfg bsz rep0 S : forall st offs rest st' offs',
  ex_loop cfg false bsz S st offs = Done (rest, st', offs') ->
  Forall off_ok S -> offs_ok offs -> k_rep st = rep0 ->
  dec_rel rep0 (k_acc st) (rebuild_rep rep0 offs) ->
  dec_rel rep0 (k_acc st') (rebuild_rep rep0 offs') /\ offs_ok offs' /\ k_rep st' = rep0.
Proof.
  induction S as [|s S IH]; intros st offs rest st' offs' H HF Ho Hk Hd.
  - cbn in H. inversion H; subst. auto.
  - cbn in H. destruct (is_delim s) eqn:Ed.
    + inversion H; subst. auto.
    + destruct (store_seq cfg false bsz (q_off s) (q_ll s) (q_ml s) st) as [st1| |] eqn:Es; cbn in H; try discriminate.
      inversion HF as [|? ? Hs HF']; subst.
      destruct (off_ok_nondelim _ Hs Ed) as [H1 H2].
      apply store_seq_done in Es. destruct Es as (_ & _ & _ & _ & Hrep & Hacc).
      unfold code_offset in Hrep, Hacc; cbn [fst snd] in Hrep, Hacc.
      destruct (bump_fields st1) as (Ea & Er & _).
      eapply IH; [exact H|exact HF'| | |].
      * constructor; [split; assumption|exact Ho].
      * rewrite Er, Hrep. reflexivity.
      * rewrite Ea, Hacc. eapply dec_cons; [exact Hd|]. cbn.
        rewrite resolve_real_offset by assumption. rewrite rebuild_rep_push. reflexivity.
Qed.

Lemma copy_explicit_lockstep cfg ers bsz S rep pos rest br :
  copy_explicit cfg ers bsz S rep pos = Done (rest, br) ->
  Forall off_ok S -> rep_ok rep ->
  decode_offsets rep (r_seqs br) = Ok (map t_raw (r_seqs br), r_rep br) /\ rep_ok (r_rep br).
Proof.
  unfold copy_explicit. intros H HF Hr.
  destruct (ex_loop cfg ers bsz S {| k_rep := rep; k_pos := pos; k_ip := 0; k_cnt := 0; k_acc := [] |} [])
    as [[[rest0 st] offs]| |] eqn:El; cbn in H; try discriminate.
  destruct rest0 as [|d rest']; [discriminate|].
  destruct (negb (q_ll d =? 0) && (bsz <? k_ip st + q_ll d)); [discriminate|].
  destruct (negb (k_ip st + q_ll d =? bsz)); [discriminate|].
  inversion H; subst; cbn. rewrite rev'_rev.
  destruct ers.
  - destruct (ex_loop_lockstep_ers _ _ rep _ _ _ _ _ _ El HF Hr (dec_nil rep)) as [Hd Hk].
    split; [apply dec_rel_decode; exact Hd|exact Hk].
  - destruct (ex_loop_lockstep_noers _ _ rep _ _ _ _ _ _ El HF (Forall_nil _) eq_refl) as (Hd & Ho & _).
    { cbn. destruct rep as [[? ?] ?]. apply dec_nil. }
    split; [apply dec_rel_decode; exact Hd|apply rebuild_rep_ok; assumption].
Qed.

(* ---------- delimiter-free copier : lock-step ---------- *)
Definition offs_in_range (S : list zseq) : Prop := Forall (fun s => 1 <= q_off s /\ q_off s + 3 < M32) S.

Lemma nd_loop_lockstep cfg bsz rep0 S : forall startp endp st rest pis adj st',
  nd_loop cfg bsz S startp endp st = Done (rest, pis, adj, st') ->
  offs_in_range S -> rep_ok (k_rep st) -> dec_rel rep0 (k_acc st) (k_rep st) ->
  dec_rel rep0 (k_acc st') (k_rep st') /\ rep_ok (k_rep st').
Proof.
  induction S as [|s S IH]; intros startp endp st rest pis adj st' H HF Hr Hd.
  - cbn in H. inversion H; subst. auto.
  - cbn [nd_loop] in H. inversion HF as [|? ? [H1 H2] HF']; subst.
    destruct (endp =? 0); [inversion H; subst; auto|].
    destruct (add32 (q_ll s) (q_ml s) <=? endp).
    + destruct (if q_ll s <=? startp then (0, sub32 (q_ml s) (sub32 startp (q_ll s))) else (sub32 (q_ll s) startp, q_ml s)) as [ll' ml'].
      destruct (store_seq cfg true bsz (q_off s) ll' ml' st) as [st1| |] eqn:Es; cbn [obind] in H; try discriminate.
      destruct (store_seq_lockstep_ers _ _ _ _ _ _ _ rep0 Es Hr H1 H2 Hd) as [Hd1 Hr1].
      destruct (bump_fields st1) as (Ea & Er & _).
      eapply IH; [exact H|exact HF'| |]; rewrite ?Ea, ?Er; assumption.
    + destruct (q_ll s <? endp).
      * destruct ((bsz <? q_ml s) && (g_minMatch cfg <=? sub32 (sub32 endp startp) (if q_ll s <=? startp then 0 else sub32 (q_ll s) startp))).
        -- match type of H with context [store_seq ?c ?e ?b ?r ?l ?m ?t] =>
             destruct (store_seq c e b r l m t) as [st1| |] eqn:Es end; cbn [obind] in H; try discriminate.
           inversion H; subst.
           exact (store_seq_lockstep_ers _ _ _ _ _ _ _ rep0 Es Hr H1 H2 Hd).
        -- inversion H; subst; auto.
      * inversion H; subst; auto.
Qed.

Lemma copy_no_delim_lockstep cfg bsz S pis rep pos rest pis' br :
  copy_no_delim cfg bsz S pis rep pos = Done (rest, pis', br) ->
  offs_in_range S -> rep_ok rep ->
  decode_offsets rep (r_seqs br) = Ok (map t_raw (r_seqs br), r_rep br) /\ rep_ok (r_rep br).
Proof.
  unfold copy_no_delim. intros H HF Hr.
  match type of H with context [nd_loop ?a ?b ?c ?d ?e ?f] => destruct (nd_loop a b c d e f) as [[[[rest0 p0] adj] st]| |] eqn:El end;
    cbn [obind] in H; try discriminate.
  destruct (g_fixed cfg && (k_ip st <=? bsz) && (bsz - k_ip st <? adj)); [discriminate|].
  destruct (bsz <? adj); [discriminate|]. destruct (bsz - adj <? k_ip st); [discriminate|].
  inversion H; subst; cbn. rewrite rev'_rev.
  destruct (nd_loop_lockstep _ _ rep _ _ _ _ _ _ _ _ El HF Hr (dec_nil rep)) as [Hd Hk].
  split; [apply dec_rel_decode; exact Hd|exact Hk].
Qed.

(* ---------- what is handed to the next block is a suffix of the list ---------- *)
Lemma ex_loop_suffix cfg ers bsz (P : zseq -> Prop) S : forall st offs rest st' offs',
  ex_loop cfg ers bsz S st offs = Done (rest, st', offs') -> Forall P S -> Forall P rest.
Proof.
  induction S as [|s S IH]; intros st offs rest st' offs' H HF.
  - cbn in H. inversion H; subst. constructor.
  - cbn [ex_loop] in H. destruct (is_delim s).
    + inversion H; subst. exact HF.
    + destruct (store_seq cfg ers bsz (q_off s) (q_ll s) (q_ml s) st) as [st1| |]; cbn [obind] in H; try discriminate.
      inversion HF; subst. eapply IH; eassumption.
Qed.

Lemma copy_explicit_suffix cfg ers bsz (P : zseq -> Prop) S rep pos rest br :
  copy_explicit cfg ers bsz S rep pos = Done (rest, br) -> Forall P S -> Forall P rest.
Proof.
  unfold copy_explicit. intros H HF.
  match type of H with context [ex_loop ?a ?b ?c ?d ?e ?f] => destruct (ex_loop a b c d e f) as [[[rest0 st] offs]| |] eqn:El end;
    cbn [obind] in H; try discriminate.
  destruct rest0 as [|d rest']; [discriminate|].
  destruct (negb (q_ll d =? 0) && (bsz <? k_ip st + q_ll d)); [discriminate|].
  destruct (negb (k_ip st + q_ll d =? bsz)); [discriminate|].
  inversion H; subst.
  pose proof (ex_loop_suffix _ _ _ P _ _ _ _ _ _ El HF) as HF'. inversion HF'; assumption.
Qed.

Lemma nd_loop_suffix cfg bsz (P : zseq -> Prop) S : forall startp endp st rest pis adj st',
  nd_loop cfg bsz S startp endp st = Done (rest, pis, adj, st') -> Forall P S -> Forall P rest.
Proof.
  induction S as [|s S IH]; intros startp endp st rest pis adj st' H HF.
  - cbn in H. inversion H; subst. constructor.
  - cbn [nd_loop] in H.
    destruct (endp =? 0); [inversion H; subst; exact HF|].
    destruct (add32 (q_ll s) (q_ml s) <=? endp).
    + destruct (if q_ll s <=? startp then (0, sub32 (q_ml s) (sub32 startp (q_ll s))) else (sub32 (q_ll s) startp, q_ml s)) as [ll' ml'].
      destruct (store_seq cfg true bsz (q_off s) ll' ml' st) as [st1| |]; cbn [obind] in H; try discriminate.
      inversion HF; subst. eapply IH; eassumption.
    + destruct (q_ll s <? endp).
      * destruct ((bsz <? q_ml s) && (g_minMatch cfg <=? sub32 (sub32 endp startp) (if q_ll s <=? startp then 0 else sub32 (q_ll s) startp))).
        -- match type of H with context [store_seq ?c ?e ?b ?r ?l ?m ?t] =>
             destruct (store_seq c e b r l m t) as [st1| |] end; cbn [obind] in H; try discriminate.
           inversion H; subst. exact HF.
        -- inversion H; subst; exact HF.
      * inversion H; subst; exact HF.
Qed.

Lemma copy_no_delim_suffix cfg bsz (P : zseq -> Prop) S pis rep pos rest pis' br :
  copy_no_delim cfg bsz S pis rep pos = Done (rest, pis', br) -> Forall P S -> Forall P rest.
Proof.
  unfold copy_no_delim. intros H HF.
  match type of H with context [nd_loop ?a ?b ?c ?d ?e ?f] => destruct (nd_loop a b c d e f) as [[[[rest0 p0] adj] st]| |] eqn:El end;
    cbn [obind] in H; try discriminate.
  destruct (g_fixed cfg && (k_ip st <=? bsz) && (bsz - k_ip st <? adj)); [discriminate|].
  destruct (bsz <? adj); [discriminate|]. destruct (bsz - adj <? k_ip st); [discriminate|].
  inversion H; subst. eapply nd_loop_suffix; eassumption.
Qed.

(* ---------- the block loop : lock-step for every list of commit decisions ---------- *)
Definition offsets_fit (delims : bool) (S : list zseq) : Prop :=
  if delims then Forall off_ok S else offs_in_range S.

Lemma cs_loop_lockstep cfg delims ers bsMax : forall fuel S pis pos remaining rep dec blks,
  cs_loop fuel cfg delims ers bsMax S pis pos remaining rep dec = Done blks ->
  offsets_fit delims S -> rep_ok rep -> blocks_lockstep rep dec blks.
Proof.
  induction fuel as [|f IH]; intros S pis pos remaining rep dec blks H HF Hr.
  - cbn in H. destruct (remaining =? 0); [|discriminate]. inversion H; subst. exact I.
  - cbn [cs_loop] in H. destruct (remaining =? 0); [inversion H; subst; exact I|].
    destruct (determine_block_size delims bsMax remaining S) as [bs| |]; cbn [obind] in H; try discriminate.
    destruct delims.
    + destruct (copy_explicit cfg ers bs S rep pos) as [[rest br]| |] eqn:Ec; cbn [obind fst snd] in H; try discriminate.
      destruct (copy_explicit_lockstep _ _ _ _ _ _ _ _ Ec HF Hr) as [Hdec Hrk].
      pose proof (copy_explicit_suffix _ _ _ _ _ _ _ _ _ Ec HF) as HF'.
      destruct (bs - r_adj br <? TINY).
      * match type of H with context [cs_loop ?a ?b ?c ?d ?e ?g ?h ?i ?j ?k ?l] =>
          destruct (cs_loop a b c d e g h i j k l) as [rest'| |] eqn:Er end; cbn [obind] in H; try discriminate.
        inversion H; subst. cbn. split; [reflexivity|]. eexists; split; [exact Hdec|].
        eapply IH; eassumption.
      * destruct (bs =? remaining).
        -- inversion H; subst. cbn. split; [reflexivity|]. eexists; split; [exact Hdec|exact I].
        -- match type of H with context [cs_loop ?a ?b ?c ?d ?e ?g ?h ?i ?j ?k ?l] =>
             destruct (cs_loop a b c d e g h i j k l) as [rest'| |] eqn:Er end; cbn [obind] in H; try discriminate.
           inversion H; subst. cbn. split; [reflexivity|]. eexists; split; [exact Hdec|].
           eapply IH; [exact Er|exact HF'|].
           destruct dec as [|[|] dec']; assumption.
    + destruct (copy_no_delim cfg bs S pis rep pos) as [[[rest pis'] br]| |] eqn:Ec; cbn [obind fst snd] in H; try discriminate.
      destruct (copy_no_delim_lockstep _ _ _ _ _ _ _ _ _ Ec HF Hr) as [Hdec Hrk].
      pose proof (copy_no_delim_suffix _ _ _ _ _ _ _ _ _ _ Ec HF) as HF'.
      destruct (bs - r_adj br <? TINY).
      * match type of H with context [cs_loop ?a ?b ?c ?d ?e ?g ?h ?i ?j ?k ?l] =>
          destruct (cs_loop a b c d e g h i j k l) as [rest'| |] eqn:Er end; cbn [obind] in H; try discriminate.
        inversion H; subst. cbn. split; [reflexivity|]. eexists; split; [exact Hdec|].
        eapply IH; eassumption.
      * destruct (bs =? remaining).
        -- inversion H; subst. cbn. split; [reflexivity|]. eexists; split; [exact Hdec|exact I].
        -- match type of H with context [cs_loop ?a ?b ?c ?d ?e ?g ?h ?i ?j ?k ?l] =>
             destruct (cs_loop a b c d e g h i j k l) as [rest'| |] eqn:Er end; cbn [obind] in H; try discriminate.
           inversion H; subst. cbn. split; [reflexivity|]. eexists; split; [exact Hdec|].
           eapply IH; [exact Er|exact HF'|].
           destruct dec as [|[|] dec']; assumption.
Qed.

Theorem offbase_finalisation_lockstep cfg delims ers bsMax srcSize S rep dec blks :
  compress_sequences cfg delims ers bsMax srcSize S rep dec = Done blks ->
  offsets_fit delims S -> rep_ok rep -> blocks_lockstep rep dec blks.
Proof. unfold compress_sequences. apply cs_loop_lockstep. Qed.

(* ====================================================================================================== *)
(* ---------- explicit delimiters : determine_blockSize ---------- *)
Lemma explicit_block_size_no_delimiter S : forall acc,
  Forall (fun s => q_off s <> 0) S -> explicit_block_size S acc = Invalid 10.
Proof.
  induction S as [|s S IH]; intros acc HF; [reflexivity|].
  inversion HF as [|? ? Hs HF']; subst. cbn [explicit_block_size].
  apply N.eqb_neq in Hs. rewrite Hs. apply IH; exact HF'.
Qed.

Lemma explicit_block_size_split pre d rest : forall acc,
  Forall (fun s => q_off s <> 0) pre -> q_off d = 0 ->
  explicit_block_size (pre ++ d :: rest) acc =
  if q_ml d =? 0 then Done (acc + sum32 pre + add32 (q_ll d) (q_ml d)) else Invalid 11.
Proof.
  induction pre as [|s pre IH]; intros acc HF Hd.
  - cbn. rewrite Hd. cbn. rewrite N.add_0_r. reflexivity.
  - inversion HF as [|? ? Hs HF']; subst. cbn [app explicit_block_size sum32].
    apply N.eqb_neq in Hs. rewrite Hs. rewrite IH by assumption.
    destruct (q_ml d =? 0); [|reflexivity]. f_equal. lia.
Qed.

Lemma cs_loop_first_error cfg delims ers bsMax f S pis pos remaining rep dec site :
  remaining <> 0 -> determine_block_size delims bsMax remaining S = Invalid site ->
  cs_loop (Datatypes.S f) cfg delims ers bsMax S pis pos remaining rep dec = Invalid site.
Proof.
  intros Hr Hd. cbn [cs_loop]. apply N.eqb_neq in Hr. rewrite Hr, Hd. reflexivity.
Qed.

Theorem delimiter_errors cfg ers bsMax srcSize S rep dec :
  srcSize <> 0 ->
  (* no delimiter at all *)
  (Forall (fun s => q_off s <> 0) S -> compress_sequences cfg true ers bsMax srcSize S rep dec = Invalid 10) /\
  (forall pre d rest, S = pre ++ d :: rest -> Forall (fun s => q_off s <> 0) pre -> q_off d = 0 ->
     (* ill-formed delimiter *)
     (q_ml d <> 0 -> compress_sequences cfg true ers bsMax srcSize S rep dec = Invalid 11) /\
     (* block longer than the block size / than what remains of the source *)
     (q_ml d = 0 -> bsMax < sum32 pre + add32 (q_ll d) 0 -> compress_sequences cfg true ers bsMax srcSize S rep dec = Invalid 12) /\
     (q_ml d = 0 -> sum32 pre + add32 (q_ll d) 0 <= bsMax -> srcSize < sum32 pre + add32 (q_ll d) 0 ->
        compress_sequences cfg true ers bsMax srcSize S rep dec = Invalid 13)).
Proof.
  intros Hn. unfold compress_sequences.
  assert (Hf : exists f, (length S + N.to_nat srcSize + 2)%nat = Datatypes.S f) by (exists (length S + N.to_nat srcSize + 1)%nat; lia).
  destruct Hf as [f Hf]. rewrite Hf. split.
  - intros HF. apply cs_loop_first_error; [exact Hn|]. unfold determine_block_size.
    rewrite explicit_block_size_no_delimiter by exact HF. reflexivity.
  - intros pre d rest HS HF Hd. subst S. repeat split.
    + intros Hml. apply cs_loop_first_error; [exact Hn|]. unfold determine_block_size.
      rewrite explicit_block_size_split by assumption. apply N.eqb_neq in Hml. rewrite Hml. reflexivity.
    + intros Hml Hgt. apply cs_loop_first_error; [exact Hn|]. unfold determine_block_size.
      rewrite explicit_block_size_split by assumption. rewrite Hml. cbn [N.eqb obind]. rewrite N.add_0_l.
      apply N.ltb_lt in Hgt. rewrite Hgt. reflexivity.
    + intros Hml Hle Hgt. apply cs_loop_first_error; [exact Hn|]. unfold determine_block_size.
      rewrite explicit_block_size_split by assumption. rewrite Hml. cbn [N.eqb obind]. rewrite N.add_0_l.
      apply N.ltb_ge in Hle. rewrite Hle. apply N.ltb_lt in Hgt. rewrite Hgt. reflexivity.
Qed.

(* a block that the explicit copier accepts has lengths (as the code adds them) equal to the block size: "ip == iend" *)
Fixpoint stored_sum32 (st : list sseq) : N :=
  match st with [] => 0 | t :: r => add32 (t_ml t) (t_ll t) + stored_sum32 r end.

Lemma stored_sum32_app a b : stored_sum32 (a ++ b) = stored_sum32 a + stored_sum32 b.
Proof. induction a as [|t a IH]; cbn; [reflexivity|]. rewrite IH. lia. Qed.

Lemma ex_loop_ip cfg ers bsz S : forall st offs rest st' offs',
  ex_loop cfg ers bsz S st offs = Done (rest, st', offs') ->
  k_ip st = stored_sum32 (rev (k_acc st)) -> k_ip st' = stored_sum32 (rev (k_acc st')).
Proof.
  induction S as [|s S IH]; intros st offs rest st' offs' H Hi.
  - cbn in H. inversion H; subst. exact Hi.
  - cbn [ex_loop] in H. destruct (is_delim s).
    + inversion H; subst. exact Hi.
    + destruct (store_seq cfg ers bsz (q_off s) (q_ll s) (q_ml s) st) as [st1| |] eqn:Es; cbn [obind] in H; try discriminate.
      apply store_seq_done in Es. destruct Es as (Hip & _ & _ & _ & _ & Hacc).
      destruct (bump_fields st1) as (Ea & _ & Ei & _).
      eapply IH; [exact H|]. rewrite Ea, Ei, Hacc, Hip. cbn [rev]. rewrite stored_sum32_app. cbn. lia.
Qed.

Theorem explicit_block_lengths_agree cfg ers bsz S rep pos rest br :
  copy_explicit cfg ers bsz S rep pos = Done (rest, br) ->
  stored_sum32 (r_seqs br) + r_lastLL br = bsz.
Proof.
  unfold copy_explicit. intros H.
  match type of H with context [ex_loop ?a ?b ?c ?d ?e ?f] => destruct (ex_loop a b c d e f) as [[[rest0 st] offs]| |] eqn:El end;
    cbn [obind] in H; try discriminate.
  destruct rest0 as [|d rest']; [discriminate|].
  destruct (negb (q_ll d =? 0) && (bsz <? k_ip st + q_ll d)); [discriminate|].
  destruct (negb (k_ip st + q_ll d =? bsz)) eqn:E; [discriminate|].
  inversion H; subst; cbn. rewrite rev'_rev.
  apply negb_false_iff, N.eqb_eq in E.
  rewrite <- (ex_loop_ip _ _ _ _ _ _ _ _ _ El eq_refl). exact E.
Qed.

(* ---------- ZSTD_mergeBlockDelimiters keeps every match where it was ---------- *)
Lemma merge_delims_placements S : forall pos carry,
  total_len S + carry < M32 ->
  placements pos (merge_delims S carry) = placements (pos + carry) S.
Proof.
  induction S as [|s S IH]; intros pos carry Hs; [reflexivity|].
  cbn [total_len] in Hs. cbn [merge_delims placements].
  rewrite add32_small by lia.
  destruct (is_delim s) eqn:Ed.
  - rewrite IH by lia. f_equal. lia.
  - cbn [placements]. unfold is_delim in *. cbn [q_off q_ml q_ll]. rewrite Ed.
    rewrite IH by lia. rewrite N.add_0_r. f_equal; [f_equal; f_equal; lia|f_equal; lia].
Qed.

Theorem merge_preserves_placements S :
  total_len S < M32 -> placements 0 (merge_delims S 0) = placements 0 S.
Proof. intros H. rewrite merge_delims_placements by lia. reflexivity. Qed.

Lemma merge_delims_no_delims S : forall carry, Forall (fun s => is_delim s = false) (merge_delims S carry).
Proof.
  induction S as [|s S IH]; intros carry; cbn [merge_delims]; [constructor|].
  destruct (is_delim s) eqn:Ed; [apply IH|]. constructor; [|apply IH]. exact Ed.
Qed.

(* ---------- producer : fallback decision ---------- *)
Theorem producer_fallback cfg ers fallback buf nb capacity srcSize rep :
  (post_process buf nb capacity srcSize = PPfail ->
     producer_block cfg ers fallback buf nb capacity srcSize rep = if fallback then PRfallback else PRfail_producer) /\
  (forall seqs, post_process buf nb capacity srcSize = PPok seqs ->
     producer_block cfg ers fallback buf nb capacity srcSize rep <> PRfallback /\
     producer_block cfg ers fallback buf nb capacity srcSize rep <> PRfail_producer) /\
  (* when post-processing fails *)
  (capacity < nb -> post_process buf nb capacity srcSize = PPfail) /\
  (nb = 0 -> 0 < srcSize -> post_process buf nb capacity srcSize = PPfail) /\
  (nb <= capacity -> 0 < nb -> 0 < srcSize -> is_delim (nth (N.to_nat (nb - 1)) buf (delim 0)) = false -> nb = capacity ->
     post_process buf nb capacity srcSize = PPfail).
Proof.
  repeat split.
  - intros H. unfold producer_block. rewrite H. reflexivity.
  - unfold producer_block. rewrite H. destruct (srcSize <? length_sum seqs); [discriminate|].
    destruct (copy_explicit cfg ers srcSize seqs rep 0) as [[? ?]| |]; discriminate.
  - unfold producer_block. rewrite H. destruct (srcSize <? length_sum seqs); [discriminate|].
    destruct (copy_explicit cfg ers srcSize seqs rep 0) as [[? ?]| |]; discriminate.
  - intros H. unfold post_process. apply N.ltb_lt in H. rewrite H. reflexivity.
  - intros H0 Hs. unfold post_process. subst nb.
    destruct (capacity <? 0); [reflexivity|]. apply N.ltb_lt in Hs. rewrite Hs. reflexivity.
  - intros Hle Hnb Hs Hd Hc. unfold post_process.
    apply N.ltb_ge in Hle. rewrite Hle.
    assert (E1 : (nb =? 0) = false) by (apply N.eqb_neq; lia). rewrite E1. cbn [andb].
    assert (E2 : (srcSize =? 0) = false) by (apply N.eqb_neq; lia). rewrite E2.
    rewrite Hd. apply N.eqb_eq in Hc. rewrite Hc. reflexivity.
Qed.

(* ---------- the repaired validation rule is the format's window rule (R's offset_ok, strict) ---------- *)
Theorem validate_rule_is_format_rule cfg pos off hist marks blk :
  1 <= off ->
  (off <= offset_bound cfg pos <->
   offset_ok true (pow2 (g_wlog cfg))
             {| x_hist := hist; x_marks := marks; x_avail := g_dict cfg + pos; x_pos := pos; x_blk := blk |} off = true).
Proof.
  intros H1. unfold offset_bound, offset_ok. cbn [x_avail x_pos negb orb].
  set (W := pow2 (g_wlog cfg)). set (D := g_dict cfg).
  assert (E1 : (1 <=? off) = true) by (apply N.leb_le; exact H1). rewrite E1. cbn [andb].
  destruct (W <? pos) eqn:Ew; [apply N.ltb_lt in Ew|apply N.ltb_ge in Ew].
  - split.
    + intros Ho. apply andb_true_iff. split; [apply N.leb_le; lia|].
      assert (E2 : (off <=? pos) = true) by (apply N.leb_le; lia). rewrite E2. apply N.leb_le; exact Ho.
    + intros Hb. apply andb_true_iff in Hb. destruct Hb as [Ha Hb]. apply N.leb_le in Ha.
      destruct (off <=? pos) eqn:E2; apply N.leb_le in Hb; [exact Hb|lia].
  - split.
    + intros Ho. apply andb_true_iff. split; [apply N.leb_le; lia|].
      destruct (off <=? pos) eqn:E2; apply N.leb_le; [apply N.leb_le in E2; lia|exact Ew].
    + intros Hb. apply andb_true_iff in Hb. destruct Hb as [Ha Hb]. apply N.leb_le in Ha. lia.
Qed.

(* ---------- ZSTD_copyBlockSequences resolves the codes like the decoder (repaired variant) ---------- *)
Lemma update_rep_is_decoder ob ll rep off rep' :
  rep_ok rep -> 1 <= ob ->
  resolve_offset ob ll rep = Ok (off, rep') -> update_rep rep ob (ll =? 0) = rep'.
Proof.
  destruct rep as [[r0 r1] r2]. unfold rep_ok. intros (H0 & H1 & H2) Hob.
  destruct rep_index_vals as (I1 & I2 & I3 & I4 & I5 & I6).
  unfold resolve_offset, update_rep.
  destruct (3 <? ob) eqn:E3.
  - intros H; inversion H; reflexivity.
  - apply N.ltb_ge in E3.
    assert (Hc : ob = 1 \/ ob = 2 \/ ob = 3) by lia.
    assert (Hs : sub32 r0 1 = r0 - 1) by (apply sub32_small; lia).
    destruct (ll =? 0); destruct Hc as [Hc|[Hc|Hc]]; subst ob; rewrite ?I1, ?I2, ?I3, ?I4, ?I5, ?I6, ?Hs; cbn;
      try (intros H; inversion H; reflexivity).
    destruct (1 <? r0); cbn; intros H; inversion H; reflexivity.
Qed.

Lemma resolve_offset_ok ob ll rep off rep' :
  rep_ok rep -> 1 <= ob -> ob < M32 ->
  resolve_offset ob ll rep = Ok (off, rep') -> rep_ok rep' /\ 1 <= off.
Proof.
  destruct rep as [[r0 r1] r2]. unfold rep_ok. intros (H0 & H1 & H2) Hob Hlt.
  unfold resolve_offset.
  destruct (3 <? ob) eqn:E3.
  - apply N.ltb_lt in E3. intros H; inversion H; subst. repeat split; lia.
  - destruct ((if ll =? 0 then ob + 1 else ob) =? 1); [intros H; inversion H; subst; repeat split; lia|].
    destruct ((if ll =? 0 then ob + 1 else ob) =? 2); [intros H; inversion H; subst; repeat split; lia|].
    destruct ((if ll =? 0 then ob + 1 else ob) =? 3); [intros H; inversion H; subst; repeat split; lia|].
    destruct (1 <? r0) eqn:E; cbn; [|discriminate]. apply N.ltb_lt in E.
    intros H; inversion H; subst. repeat split; lia.
Qed.

Lemma copy_block_raw_is_decoder ob ll rep off rep' :
  rep_ok rep -> 1 <= ob ->
  resolve_offset ob ll rep = Ok (off, rep') ->
  (let '(r0, r1, r2) := rep in
   if (1 <=? ob) && (ob <=? 3) then
     (if negb (ll =? 0) then (if ob =? 1 then r0 else if ob =? 2 then r1 else r2)
      else (if ob =? 3 then sub32 r0 1 else if ob =? 1 then r1 else r2))
   else ob - 3) = off.
Proof.
  destruct rep as [[r0 r1] r2]. unfold rep_ok. intros (H0 & H1 & H2) Hob.
  unfold resolve_offset.
  assert (Hs : sub32 r0 1 = r0 - 1) by (apply sub32_small; lia). rewrite Hs.
  destruct (3 <? ob) eqn:E3.
  - apply N.ltb_lt in E3. assert (E : (ob <=? 3) = false) by (apply N.leb_gt; lia). rewrite E, andb_false_r.
    intros H; inversion H; reflexivity.
  - apply N.ltb_ge in E3.
    assert (Hc : ob = 1 \/ ob = 2 \/ ob = 3) by lia.
    destruct (ll =? 0); destruct Hc as [Hc|[Hc|Hc]]; subst ob; cbn; try (intros H; inversion H; reflexivity).
    destruct (1 <? r0); cbn; intros H; inversion H; reflexivity.
Qed.

Theorem generate_resolves_like_decoder stored : forall rep offs rep',
  rep_ok rep -> Forall (fun t => 1 <= t_ob t /\ t_ob t < M32) stored ->
  decode_offsets rep stored = Ok (offs, rep') ->
  map (fun g => q_off (o_seq g)) (copy_block_sequences true stored rep) = offs /\
  map (fun g => (q_ll (o_seq g), q_ml (o_seq g))) (copy_block_sequences true stored rep) = map (fun t => (t_ll t, t_ml t)) stored.
Proof.
  induction stored as [|t stored IH]; intros rep offs rep' Hr HF Hd.
  - cbn in Hd. inversion Hd; subst. split; reflexivity.
  - inversion HF as [|? ? [Hob Hlt] HF']; subst.
    cbn [decode_offsets] in Hd.
    destruct (resolve_offset (t_ob t) (t_ll t) rep) as [[off rep1]|] eqn:Er; cbn [bind fst snd] in Hd; [|discriminate].
    destruct (decode_offsets rep1 stored) as [[offs1 rep2]|] eqn:Ed; cbn [bind fst snd] in Hd; [|discriminate].
    inversion Hd; subst.
    pose proof (update_rep_is_decoder _ _ _ _ _ Hr Hob Er) as Hu.
    pose proof (copy_block_raw_is_decoder _ _ _ _ _ Hr Hob Er) as Hraw.
    destruct (resolve_offset_ok _ _ _ _ _ Hr Hob Hlt Er) as [Hr1 _].
    destruct rep as [[r0 r1] r2].
    cbn [copy_block_sequences map o_seq q_off q_ll q_ml]. rewrite Hu.
    destruct (IH _ _ _ Hr1 HF' Ed) as [IH1 IH2]. rewrite IH1, IH2. rewrite Hraw. split; reflexivity.
Qed.

(* transcribing a block and extracting it again gives back the raw offsets (composition with the lock-step) *)
Corollary generate_inverts_transcription cfg ers bsz S rep pos rest br :
  copy_explicit cfg ers bsz S rep pos = Done (rest, br) ->
  Forall off_ok S -> rep_ok rep -> Forall (fun t => 1 <= t_ob t /\ t_ob t < M32) (r_seqs br) ->
  map (fun g => q_off (o_seq g)) (copy_block_sequences true (r_seqs br) rep) = map t_raw (r_seqs br).
Proof.
  intros H HF Hr Hob. destruct (copy_explicit_lockstep _ _ _ _ _ _ _ _ H HF Hr) as [Hd _].
  exact (proj1 (generate_resolves_like_decoder _ _ _ _ Hr Hob Hd)).
Qed.

(* ---------- refutation witnesses on the snapshot variant (findings, replayed on the real code by the check) ---------- *)
Definition z (off ll ml : N) : zseq := {| q_off := off; q_ll := ll; q_ml := ml |}.

(* F4: {off 50, ll 0, ml 100} at position 0 passes validation: the bound is taken at the END of the match *)
Example validation_offset_refuted :
  let cfg := cfg_found 12 4 0 1000 true in
  let S := [z 50 0 100; z 100 0 3900; delim 0] in
  is_done (compress_sequences cfg true false 4000 4000 S rep_start []) = true /\
  ~ rule_holds cfg 0 S /\
  is_done (compress_sequences (cfg_fixed 12 4 0 1000 true) true false 4000 4000 S rep_start []) = false.
Proof. cbv zeta. split; [vm_compute; reflexivity|]. split; [|vm_compute; reflexivity]. cbn. intros [[H _] _]. vm_compute in H. apply H. reflexivity. Qed.

(* repcode bypass: {off 8, ll 0, ml 3} at position 0: 8 is the initial third repeat offset, the code (2) is what gets compared *)
Example validation_repcode_refuted :
  let cfg := cfg_found 10 3 0 33 true in
  let S := [z 8 0 3] in
  is_done (compress_sequences cfg false true 100 100 S rep_start []) = true /\
  ~ rule_holds cfg 0 S /\
  is_done (compress_sequences (cfg_fixed 10 3 0 33 true) false true 100 100 S rep_start []) = false.
Proof. cbv zeta. split; [vm_compute; reflexivity|]. split; [|vm_compute; reflexivity]. cbn. intros [[H _] _]. vm_compute in H. apply H. reflexivity. Qed.

(* U32 wrap: litLength 2^32-1 + matchLength 5 = 4 (mod 2^32): every test passes, ZSTD_storeSeq copies 2^32-1 literals *)
Example validation_lengths_refuted :
  let S := [z 1 4294967295 5; delim 3996] in
  is_oob (compress_sequences (cfg_found 12 4 0 1000 true) true false 4000 4000 S rep_start []) = true /\
  compress_sequences (cfg_fixed 12 4 0 1000 true) true false 4000 4000 S rep_start [] = Invalid 14.
Proof. cbv zeta. split; vm_compute; reflexivity. Qed.

(* delimiter-free list one byte longer than the source: bytesAdjustment (1025) exceeds the last block (3 bytes) *)
Example overrun_refuted :
  let S := [z 1 1 1026] in
  is_oob (compress_sequences (cfg_found 10 4 0 256 true) false true 1024 1026 S rep_start []) = true /\
  compress_sequences (cfg_fixed 10 4 0 256 true) false true 1024 1026 S rep_start [] = Invalid 15.
Proof. cbv zeta. split; vm_compute; reflexivity. Qed.

(* ZSTD_copyBlockSequences on the snapshot: litLength 65536 is taken for 0 when the history is updated *)
Example generate_ll65536_refuted :
  let st := [{| t_ll := 65536; t_ml := 4; t_ob := 2; t_raw := 4 |}; {| t_ll := 1; t_ml := 4; t_ob := 1; t_raw := 4 |}] in
  map (fun g => q_off (o_seq g)) (copy_block_sequences false st rep_start) = [4; 8] /\
  map (fun g => q_off (o_seq g)) (copy_block_sequences true st rep_start) = [4; 4] /\
  decode_offsets rep_start st = Ok ([4; 4], (4, 1, 8)).
Proof. cbv zeta. repeat split; vm_compute; reflexivity. Qed.

(* ====================================================================================================== *)
(* ---------- validation is complete on the repaired variant ---------- *)
Inductive rule_rel (cfg : scfg) (pos0 : N) : list sseq -> N -> Prop :=
  | rr_nil : rule_rel cfg pos0 [] pos0
  | rr_cons acc cur t :
      rule_rel cfg pos0 acc cur ->
      1 <= t_raw t -> t_raw t <= offset_bound cfg (cur + t_ll t) -> match_len_lower cfg <= t_ml t ->
      rule_rel cfg pos0 (t :: acc) (cur + t_ll t + t_ml t).

Lemma stored_rule_app cfg a : forall pos b,
  stored_rule cfg pos (a ++ b) <-> stored_rule cfg pos a /\ stored_rule cfg (stored_end pos a) b.
Proof.
  induction a as [|t a IH]; intros pos b; cbn [app stored_rule stored_end].
  - tauto.
  - rewrite IH. tauto.
Qed.

Lemma stored_end_app a : forall pos b, stored_end pos (a ++ b) = stored_end (stored_end pos a) b.
Proof. induction a as [|t a IH]; intros pos b; cbn; [reflexivity|apply IH]. Qed.

Lemma rule_rel_stored cfg pos0 acc cur :
  rule_rel cfg pos0 acc cur -> stored_rule cfg pos0 (rev acc) /\ stored_end pos0 (rev acc) = cur.
Proof.
  induction 1 as [|acc cur t H [IH1 IH2] H1 H2 H3].
  - cbn. auto.
  - cbn [rev]. rewrite stored_rule_app, stored_end_app, IH2. cbn. repeat split; auto.
Qed.

Lemma validate_fixed_true cfg raw ml pos :
  validate_fixed cfg raw ml pos = true -> 1 <= raw /\ raw <= offset_bound cfg pos /\ match_len_lower cfg <= ml.
Proof.
  unfold validate_fixed. intros H. apply andb_true_iff in H. destruct H as [H H3].
  apply andb_true_iff in H. destruct H as [H1 H2].
  apply negb_true_iff in H1, H2, H3. apply N.eqb_neq in H1. apply N.ltb_ge in H2, H3. lia.
Qed.

(* the invariant of both copiers on the repaired variant with validation on *)
Definition vinv (cfg : scfg) (bsz pos0 : N) (st : cst) : Prop :=
  k_ip st <= bsz /\ k_pos st = pos0 + k_ip st /\ rule_rel cfg pos0 (k_acc st) (pos0 + k_ip st).

Lemma store_seq_vinv cfg ers bsz raw ll ml st st' pos0 :
  g_fixed cfg = true -> g_validate cfg = true -> bsz < M32 ->
  store_seq cfg ers bsz raw ll ml st = Done st' -> vinv cfg bsz pos0 st ->
  vinv cfg bsz pos0 st' /\ k_ip st' = k_ip st + ll + ml /\ 1 <= raw /\ raw <= offset_bound cfg (k_pos st + ll).
Proof.
  intros Hf Hv Hb Hs (Hi & Hp & Hr).
  destruct (store_seq_fixed_done _ _ _ _ _ _ _ _ Hf Hs) as (Hlen & Hval & _).
  specialize (Hlen Hi). destruct (Hval Hv) as [Hvf Hpos].
  apply validate_fixed_true in Hvf. destruct Hvf as (V1 & V2 & V3).
  apply store_seq_done in Hs. destruct Hs as (Hip & _ & _ & _ & _ & Hacc).
  rewrite add32_small in Hip by lia.
  assert (Hip' : k_ip st' = k_ip st + ll + ml) by lia.
  repeat split; try lia.
  rewrite Hacc, Hip'. replace (pos0 + (k_ip st + ll + ml)) with (pos0 + k_ip st + ll + ml) by lia.
  change ll with (t_ll {| t_ll := ll; t_ml := ml; t_ob := fst (code_offset ers raw ll (k_rep st)); t_raw := raw |}) at 2.
  change ml with (t_ml {| t_ll := ll; t_ml := ml; t_ob := fst (code_offset ers raw ll (k_rep st)); t_raw := raw |}) at 3.
  apply rr_cons; cbn; try assumption. rewrite <- Hp. exact V2.
Qed.

Lemma vinv_bump cfg bsz pos0 st : vinv cfg bsz pos0 st -> vinv cfg bsz pos0 (bump st).
Proof. unfold vinv. destruct (bump_fields st) as (Ea & _ & Ei & Ep & _). rewrite Ea, Ei, Ep. auto. Qed.

Lemma ex_loop_vinv cfg ers bsz pos0 S : forall st offs rest st' offs',
  g_fixed cfg = true -> g_validate cfg = true -> bsz < M32 ->
  ex_loop cfg ers bsz S st offs = Done (rest, st', offs') -> vinv cfg bsz pos0 st -> vinv cfg bsz pos0 st'.
Proof.
  induction S as [|s S IH]; intros st offs rest st' offs' Hf Hv Hb H Hi.
  - cbn in H. inversion H; subst. exact Hi.
  - cbn [ex_loop] in H. destruct (is_delim s).
    + inversion H; subst. exact Hi.
    + destruct (store_seq cfg ers bsz (q_off s) (q_ll s) (q_ml s) st) as [st1| |] eqn:Es; cbn [obind] in H; try discriminate.
      destruct (store_seq_vinv _ _ _ _ _ _ _ _ pos0 Hf Hv Hb Es Hi) as [Hi1 _].
      eapply IH; [exact Hf|exact Hv|exact Hb|exact H|apply vinv_bump; exact Hi1].
Qed.

Lemma nd_loop_vinv cfg bsz pos0 S : forall startp endp st rest pis adj st',
  g_fixed cfg = true -> g_validate cfg = true -> bsz < M32 ->
  nd_loop cfg bsz S startp endp st = Done (rest, pis, adj, st') -> vinv cfg bsz pos0 st -> vinv cfg bsz pos0 st'.
Proof.
  induction S as [|s S IH]; intros startp endp st rest pis adj st' Hf Hv Hb H Hi.
  - cbn in H. inversion H; subst. exact Hi.
  - cbn [nd_loop] in H.
    destruct (endp =? 0); [inversion H; subst; exact Hi|].
    destruct (add32 (q_ll s) (q_ml s) <=? endp).
    + destruct (if q_ll s <=? startp then (0, sub32 (q_ml s) (sub32 startp (q_ll s))) else (sub32 (q_ll s) startp, q_ml s)) as [ll' ml'].
      destruct (store_seq cfg true bsz (q_off s) ll' ml' st) as [st1| |] eqn:Es; cbn [obind] in H; try discriminate.
      destruct (store_seq_vinv _ _ _ _ _ _ _ _ pos0 Hf Hv Hb Es Hi) as [Hi1 _].
      eapply IH; [exact Hf|exact Hv|exact Hb|exact H|apply vinv_bump; exact Hi1].
    + destruct (q_ll s <? endp).
      * destruct ((bsz <? q_ml s) && (g_minMatch cfg <=? sub32 (sub32 endp startp) (if q_ll s <=? startp then 0 else sub32 (q_ll s) startp))).
        -- match type of H with context [store_seq ?c ?e ?b ?r ?l ?m ?t] =>
             destruct (store_seq c e b r l m t) as [st1| |] eqn:Es end; cbn [obind] in H; try discriminate.
           inversion H; subst.
           exact (proj1 (store_seq_vinv _ _ _ _ _ _ _ _ pos0 Hf Hv Hb Es Hi)).
        -- inversion H; subst; exact Hi.
      * inversion H; subst; exact Hi.
Qed.

Lemma vinv_init cfg bsz rep pos : vinv cfg bsz pos {| k_rep := rep; k_pos := pos; k_ip := 0; k_cnt := 0; k_acc := [] |}.
Proof. unfold vinv; cbn. repeat split; try lia. rewrite N.add_0_r. constructor. Qed.

Lemma copy_explicit_rule cfg ers bsz S rep pos rest br :
  g_fixed cfg = true -> g_validate cfg = true -> bsz < M32 ->
  copy_explicit cfg ers bsz S rep pos = Done (rest, br) ->
  stored_rule cfg pos (r_seqs br) /\ r_pos br = pos + bsz /\ r_adj br = 0.
Proof.
  unfold copy_explicit. intros Hf Hv Hb H.
  match type of H with context [ex_loop ?a ?b ?c ?d ?e ?f] => destruct (ex_loop a b c d e f) as [[[rest0 st] offs]| |] eqn:El end;
    cbn [obind] in H; try discriminate.
  destruct rest0 as [|d rest']; [discriminate|].
  destruct (negb (q_ll d =? 0) && (bsz <? k_ip st + q_ll d)); [discriminate|].
  destruct (negb (k_ip st + q_ll d =? bsz)) eqn:E; [discriminate|].
  apply negb_false_iff, N.eqb_eq in E.
  inversion H; subst; cbn. rewrite rev'_rev.
  destruct (ex_loop_vinv _ _ _ pos _ _ _ _ _ _ Hf Hv Hb El (vinv_init _ _ _ _)) as (Hi & Hp & Hr).
  apply rule_rel_stored in Hr. destruct Hr as [Hr _]. repeat split; [exact Hr|lia].
Qed.

Lemma copy_no_delim_rule cfg bsz S pis rep pos rest pis' br :
  g_fixed cfg = true -> g_validate cfg = true -> bsz < M32 ->
  copy_no_delim cfg bsz S pis rep pos = Done (rest, pis', br) ->
  stored_rule cfg pos (r_seqs br) /\ r_pos br = pos + (bsz - r_adj br) /\ r_adj br <= bsz.
Proof.
  unfold copy_no_delim. intros Hf Hv Hb H.
  match type of H with context [nd_loop ?a ?b ?c ?d ?e ?f] => destruct (nd_loop a b c d e f) as [[[[rest0 p0] adj] st]| |] eqn:El end;
    cbn [obind] in H; try discriminate.
  destruct (nd_loop_vinv _ _ pos _ _ _ _ _ _ _ _ Hf Hv Hb El (vinv_init _ _ _ _)) as (Hi & Hp & Hr).
  rewrite Hf in H. cbn [andb] in H.
  assert (Ei : (k_ip st <=? bsz) = true) by (apply N.leb_le; exact Hi). rewrite Ei in H. cbn [andb] in H.
  destruct (bsz - k_ip st <? adj) eqn:E15; [discriminate|]. apply N.ltb_ge in E15.
  destruct (bsz <? adj); [discriminate|]. destruct (bsz - adj <? k_ip st); [discriminate|].
  inversion H; subst; cbn. rewrite rev'_rev.
  apply rule_rel_stored in Hr. destruct Hr as [Hr _]. repeat split; [exact Hr|lia|lia].
Qed.

Lemma determine_block_size_le delims bsMax remaining S bs :
  determine_block_size delims bsMax remaining S = Done bs -> bs <= bsMax /\ bs <= remaining.
Proof.
  unfold determine_block_size. destruct delims.
  - destruct (explicit_block_size S 0) as [b| |]; cbn [obind]; try discriminate.
    destruct (bsMax <? b) eqn:E1; [discriminate|]. destruct (remaining <? b) eqn:E2; [discriminate|].
    intros H; inversion H; subst. apply N.ltb_ge in E1, E2. lia.
  - intros H; inversion H; subst. destruct (remaining <=? bsMax) eqn:E; [apply N.leb_le in E|apply N.leb_gt in E]; lia.
Qed.

Lemma cs_loop_rule cfg delims ers bsMax : forall fuel S pis pos remaining rep dec blks,
  g_fixed cfg = true -> g_validate cfg = true -> bsMax < M32 ->
  cs_loop fuel cfg delims ers bsMax S pis pos remaining rep dec = Done blks -> blocks_rule cfg pos blks.
Proof.
  induction fuel as [|f IH]; intros S pis pos remaining rep dec blks Hf Hv Hb H.
  - cbn in H. destruct (remaining =? 0); [|discriminate]. inversion H; subst. exact I.
  - cbn [cs_loop] in H. destruct (remaining =? 0); [inversion H; subst; exact I|].
    destruct (determine_block_size delims bsMax remaining S) as [bs| |] eqn:Ed; cbn [obind] in H; try discriminate.
    destruct (determine_block_size_le _ _ _ _ _ Ed) as [Hbs _].
    assert (Hbs32 : bs < M32) by lia.
    assert (Hcopy : exists S' pis' br,
              (if delims then olet r <- copy_explicit cfg ers bs S rep pos; Done (fst r, 0, snd r)
               else copy_no_delim cfg bs S pis rep pos) = Done (S', pis', br) /\
              stored_rule cfg pos (r_seqs br) /\ r_pos br = pos + (bs - r_adj br)).
    { destruct delims.
      - destruct (copy_explicit cfg ers bs S rep pos) as [[rest br]| |] eqn:Ec; cbn [obind fst snd] in H |- *; try discriminate.
        destruct (copy_explicit_rule _ _ _ _ _ _ _ _ Hf Hv Hbs32 Ec) as (R1 & R2 & R3).
        exists rest, 0, br. repeat split; auto. rewrite R3, N.sub_0_r. exact R2.
      - destruct (copy_no_delim cfg bs S pis rep pos) as [[[rest pis'] br]| |] eqn:Ec; cbn [obind] in H |- *; try discriminate.
        destruct (copy_no_delim_rule _ _ _ _ _ _ _ _ _ Hf Hv Hbs32 Ec) as (R1 & R2 & R3).
        exists rest, pis', br. repeat split; auto. }
    destruct Hcopy as (S' & pis' & br & Ec & R1 & R2). rewrite Ec in H. cbn [obind] in H.
    destruct (bs - r_adj br <? TINY).
    + match type of H with context [cs_loop ?a ?b ?c ?d ?e ?g ?h ?i ?j ?k ?l] =>
        destruct (cs_loop a b c d e g h i j k l) as [rest'| |] eqn:Er end; cbn [obind] in H; try discriminate.
      inversion H; subst. cbn. split; [exact R1|]. rewrite <- R2. eapply IH; eassumption.
    + destruct (bs =? remaining).
      * inversion H; subst. cbn. split; [exact R1|exact I].
      * match type of H with context [cs_loop ?a ?b ?c ?d ?e ?g ?h ?i ?j ?k ?l] =>
          destruct (cs_loop a b c d e g h i j k l) as [rest'| |] eqn:Er end; cbn [obind] in H; try discriminate.
        inversion H; subst. cbn. split; [exact R1|]. rewrite <- R2. eapply IH; eassumption.
Qed.

(* With validation on, a list is accepted only if every stored piece satisfies the documented rule at the position
   where its match starts (raw offset within min(window, position) + dictionary, never 0; matchLength >= 3 or 4). *)
Theorem validation_complete cfg delims ers bsMax srcSize S rep dec blks :
  g_fixed cfg = true -> g_validate cfg = true -> bsMax < M32 ->
  compress_sequences cfg delims ers bsMax srcSize S rep dec = Done blks -> blocks_rule cfg 0 blks.
Proof. unfold compress_sequences. apply cs_loop_rule. Qed.

(* ====================================================================================================== *)
(* ---------- memory safety of the repaired variant with validation on : no outcome is Oob ---------- *)
Definition not_oob {A} (o : outc A) : Prop := forall site, o <> Oob site.

Lemma pow2_le_31 n : n <= 31 -> pow2 n <= 2147483648.
Proof.
  intros H. unfold pow2. rewrite N.shiftl_1_l.
  change 2147483648 with (2 ^ 31). apply N.pow_le_mono_r; lia.
Qed.

Lemma finalize_offbase_nonzero raw rep ll0 : raw + 3 < M32 -> finalize_offbase raw rep ll0 <> 0.
Proof.
  intros H. destruct rep as [[r0 r1] r2]. unfold finalize_offbase.
  rewrite add32_small by lia.
  destruct (negb ll0 && (raw =? r0)); [lia|].
  destruct (raw =? r1); [destruct ll0; lia|].
  destruct (raw =? r2); [destruct ll0; lia|].
  destruct (ll0 && (raw =? sub32 r0 1)); lia.
Qed.

Definition safe_ctx (cfg : scfg) (bsz pos0 : N) : Prop :=
  g_fixed cfg = true /\ g_validate cfg = true /\ g_wlog cfg <= 31 /\ bsz < M32 /\ pos0 + bsz + g_dict cfg + 3 < M32.

Lemma store_seq_safe cfg ers bsz raw ll ml st pos0 :
  safe_ctx cfg bsz pos0 -> vinv cfg bsz pos0 st -> not_oob (store_seq cfg ers bsz raw ll ml st).
Proof.
  intros (Hf & Hv & Hw & Hb & Hp) (Hi & Hpos & _) site.
  unfold store_seq. rewrite Hf, Hv. cbn [andb].
  destruct ((k_ip st <=? bsz) && (bsz - k_ip st <? ll + ml)) eqn:E1; [discriminate|].
  destruct (validate_fixed cfg raw ml (k_pos st + ll)) eqn:E2; cbn [negb]; [|discriminate].
  apply validate_fixed_true in E2. destruct E2 as (V1 & V2 & _).
  apply andb_false_iff in E1. destruct E1 as [E1|E1]; [apply N.leb_gt in E1; lia|]. apply N.ltb_ge in E1.
  assert (Hraw : raw + 3 < M32).
  { unfold offset_bound in V2. pose proof (pow2_le_31 _ Hw) as Hpw.
    destruct (pow2 (g_wlog cfg) <? k_pos st + ll); unfold M32 in *; lia. }
  unfold store_tail. destruct (code_offset ers raw ll (k_rep st)) as [ob rep'] eqn:Ec.
  assert (Hob : ers = true -> ob <> 0).
  { intros He. subst ers. unfold code_offset in Ec. inversion Ec; subst. apply finalize_offbase_nonzero; exact Hraw. }
  destruct ers.
  - specialize (Hob eq_refl). apply N.eqb_neq in Hob. rewrite Hob. cbn [andb].
    destruct (g_maxNbSeq cfg <=? k_cnt st); [discriminate|].
    assert (E3 : (bsz <? k_ip st + ll) = false) by (apply N.ltb_ge; lia). rewrite E3. discriminate.
  - cbn [andb].
    destruct (g_maxNbSeq cfg <=? k_cnt st); [discriminate|].
    assert (E3 : (bsz <? k_ip st + ll) = false) by (apply N.ltb_ge; lia). rewrite E3. discriminate.
Qed.

Lemma ex_loop_safe cfg ers bsz pos0 S : forall st offs,
  safe_ctx cfg bsz pos0 -> vinv cfg bsz pos0 st -> not_oob (ex_loop cfg ers bsz S st offs).
Proof.
  induction S as [|s S IH]; intros st offs Hc Hi site; [discriminate|].
  cbn [ex_loop]. destruct (is_delim s); [discriminate|].
  destruct (store_seq cfg ers bsz (q_off s) (q_ll s) (q_ml s) st) as [st1| |] eqn:Es; cbn [obind]; try discriminate.
  - destruct Hc as (Hf & Hv & Hw & Hb & Hp).
    destruct (store_seq_vinv _ _ _ _ _ _ _ _ pos0 Hf Hv Hb Es Hi) as [Hi1 _].
    apply IH; [repeat split; assumption|apply vinv_bump; exact Hi1].
  - exfalso. exact (store_seq_safe _ _ _ _ _ _ _ _ Hc Hi _ Es).
Qed.

Lemma nd_loop_safe cfg bsz pos0 S : forall startp endp st,
  safe_ctx cfg bsz pos0 -> vinv cfg bsz pos0 st -> not_oob (nd_loop cfg bsz S startp endp st).
Proof.
  induction S as [|s S IH]; intros startp endp st Hc Hi site; [discriminate|].
  cbn [nd_loop]. destruct (endp =? 0); [discriminate|].
  destruct Hc as (Hf & Hv & Hw & Hb & Hp).
  assert (Hc : safe_ctx cfg bsz pos0) by (repeat split; assumption).
  destruct (add32 (q_ll s) (q_ml s) <=? endp).
  - destruct (if q_ll s <=? startp then (0, sub32 (q_ml s) (sub32 startp (q_ll s))) else (sub32 (q_ll s) startp, q_ml s)) as [ll' ml'].
    destruct (store_seq cfg true bsz (q_off s) ll' ml' st) as [st1| |] eqn:Es; cbn [obind]; try discriminate.
    + destruct (store_seq_vinv _ _ _ _ _ _ _ _ pos0 Hf Hv Hb Es Hi) as [Hi1 _].
      apply IH; [exact Hc|apply vinv_bump; exact Hi1].
    + exfalso. exact (store_seq_safe _ _ _ _ _ _ _ _ Hc Hi _ Es).
  - destruct (q_ll s <? endp); [|discriminate].
    destruct ((bsz <? q_ml s) && (g_minMatch cfg <=? sub32 (sub32 endp startp) (if q_ll s <=? startp then 0 else sub32 (q_ll s) startp))); [|discriminate].
    match goal with |- context [store_seq ?c ?e ?b ?r ?l ?m ?t] =>
      destruct (store_seq c e b r l m t) as [st1| |] eqn:Es end; cbn [obind]; try discriminate.
    exfalso. exact (store_seq_safe _ _ _ _ _ _ _ _ Hc Hi _ Es).
Qed.

Lemma copy_no_delim_safe cfg bsz S pis rep pos :
  safe_ctx cfg bsz pos -> not_oob (copy_no_delim cfg bsz S pis rep pos).
Proof.
  intros Hc site. unfold copy_no_delim.
  match goal with |- context [nd_loop ?a ?b ?c ?d ?e ?f] => destruct (nd_loop a b c d e f) as [[[[rest0 p0] adj] st]| |] eqn:El end;
    cbn [obind]; try discriminate.
  - destruct Hc as (Hf & Hv & Hw & Hb & Hp).
    destruct (nd_loop_vinv _ _ pos _ _ _ _ _ _ _ _ Hf Hv Hb El (vinv_init _ _ _ _)) as (Hi & _ & _).
    rewrite Hf. cbn [andb]. assert (Ei : (k_ip st <=? bsz) = true) by (apply N.leb_le; exact Hi). rewrite Ei. cbn [andb].
    destruct (bsz - k_ip st <? adj) eqn:E15; [discriminate|]. apply N.ltb_ge in E15.
    assert (E7 : (bsz <? adj) = false) by (apply N.ltb_ge; lia). rewrite E7.
    assert (E8 : (bsz - adj <? k_ip st) = false) by (apply N.ltb_ge; lia). rewrite E8. discriminate.
  - exfalso. exact (nd_loop_safe _ _ pos _ _ _ _ Hc (vinv_init _ _ _ _) _ El).
Qed.

(* explicit mode: what determine_blockSize has established about the list *)
Lemma explicit_block_size_done S : forall acc b,
  explicit_block_size S acc = Done b ->
  exists pre d rest, S = pre ++ d :: rest /\ Forall (fun s => is_delim s = false) pre /\ is_delim d = true /\
                     b = acc + sum32 pre + add32 (q_ll d) 0.
Proof.
  induction S as [|s S IH]; intros acc b H; [discriminate|].
  cbn [explicit_block_size] in H. destruct (q_off s =? 0) eqn:Eo.
  - destruct (q_ml s =? 0) eqn:Em; [|discriminate]. inversion H; subst.
    exists [], s, S. cbn. repeat split; [constructor|unfold is_delim; rewrite Eo, Em; reflexivity|].
    apply N.eqb_eq in Em. rewrite Em. lia.
  - destruct (IH _ _ H) as (pre & d & rest & HS & HF & Hd & Hb). subst S.
    exists (s :: pre), d, rest. cbn. repeat split; [constructor; [unfold is_delim; rewrite Eo; reflexivity|exact HF]|exact Hd|lia].
Qed.

Lemma ex_loop_pre cfg ers bsz pos0 d rest' pre : forall st offs r st' offs',
  g_fixed cfg = true -> g_validate cfg = true -> bsz < M32 ->
  Forall (fun s => is_delim s = false) pre -> is_delim d = true ->
  ex_loop cfg ers bsz (pre ++ d :: rest') st offs = Done (r, st', offs') -> vinv cfg bsz pos0 st ->
  r = d :: rest' /\ k_ip st' = k_ip st + sum32 pre.
Proof.
  induction pre as [|s pre IH]; intros st offs r st' offs' Hf Hv Hb HF Hd H Hi.
  - cbn [app ex_loop] in H. rewrite Hd in H. inversion H; subst. cbn. split; [reflexivity|lia].
  - inversion HF as [|? ? Hs HF']; subst. cbn [app ex_loop] in H. rewrite Hs in H.
    destruct (store_seq cfg ers bsz (q_off s) (q_ll s) (q_ml s) st) as [st1| |] eqn:Es; cbn [obind] in H; try discriminate.
    destruct (store_seq_vinv _ _ _ _ _ _ _ _ pos0 Hf Hv Hb Es Hi) as (Hi1 & Hip & _).
    pose proof (store_seq_fixed_done _ _ _ _ _ _ _ _ Hf Es) as (Hlen & _). destruct Hi as (Hi & _). specialize (Hlen Hi).
    destruct (IH _ _ _ _ _ Hf Hv Hb HF' Hd H (vinv_bump _ _ _ _ Hi1)) as [Hr Hk].
    split; [exact Hr|]. destruct (bump_fields st1) as (_ & _ & Ei & _). rewrite Ei in Hk.
    cbn [sum32]. rewrite add32_small by lia. lia.
Qed.

Definition fields32 (S : list zseq) : Prop := Forall (fun s => q_ll s < M32) S.

Lemma copy_explicit_safe cfg ers bsz S rep pos :
  safe_ctx cfg bsz pos -> fields32 S -> explicit_block_size S 0 = Done bsz ->
  not_oob (copy_explicit cfg ers bsz S rep pos).
Proof.
  intros Hc H32 Hbs site. unfold copy_explicit.
  destruct (explicit_block_size_done _ _ _ Hbs) as (pre & d & rest' & HS & HF & Hd & Hb).
  match goal with |- context [ex_loop ?a ?b ?c ?d ?e ?f] => destruct (ex_loop a b c d e f) as [[[rest0 st] offs]| |] eqn:El end;
    cbn [obind]; try discriminate.
  - destruct Hc as (Hf & Hv & Hw & Hb32 & Hp). subst S.
    destruct (ex_loop_pre _ _ _ pos _ _ _ _ _ _ _ _ Hf Hv Hb32 HF Hd El (vinv_init _ _ _ _)) as [Hr Hk].
    subst rest0. cbn [k_ip] in Hk.
    assert (Hll : q_ll d < M32).
    { unfold fields32 in H32. apply Forall_app in H32. destruct H32 as [_ H32]. inversion H32; assumption. }
    rewrite add32_small in Hb by lia.
    assert (E5 : (bsz <? k_ip st + q_ll d) = false) by (apply N.ltb_ge; lia). rewrite E5, andb_false_r.
    destruct (negb (k_ip st + q_ll d =? bsz)); discriminate.
  - exfalso. exact (ex_loop_safe _ _ _ pos _ _ _ Hc (vinv_init _ _ _ _) _ El).
Qed.

Lemma cs_loop_safe cfg delims ers bsMax srcSize : forall fuel S pis pos remaining rep dec,
  g_fixed cfg = true -> g_validate cfg = true -> g_wlog cfg <= 31 -> bsMax < M32 ->
  srcSize + g_dict cfg + 3 < M32 -> pos + remaining <= srcSize -> fields32 S ->
  not_oob (cs_loop fuel cfg delims ers bsMax S pis pos remaining rep dec).
Proof.
  induction fuel as [|f IH]; intros S pis pos remaining rep dec Hf Hv Hw Hb Hsrc Hpos H32 site.
  - cbn. destruct (remaining =? 0); discriminate.
  - cbn [cs_loop]. destruct (remaining =? 0); [discriminate|].
    destruct (determine_block_size delims bsMax remaining S) as [bs| |] eqn:Ed; cbn [obind]; try discriminate.
    2:{ unfold determine_block_size in Ed. destruct delims; [|discriminate].
        destruct (explicit_block_size S 0) as [b| |] eqn:Eb; cbn [obind] in Ed; try discriminate.
        - destruct (bsMax <? b); [discriminate|]. destruct (remaining <? b); discriminate.
        - clear -Eb. exfalso. revert Eb. generalize 0 at 1. induction S as [|s S IHS]; intros acc; cbn; [discriminate|].
          destruct (q_off s =? 0); [destruct (q_ml s =? 0); discriminate|apply IHS]. }
    destruct (determine_block_size_le _ _ _ _ _ Ed) as [Hbs Hbr].
    assert (Hc : safe_ctx cfg bs pos) by (repeat split; try assumption; lia).
    destruct delims.
    + assert (Hebs : explicit_block_size S 0 = Done bs).
      { unfold determine_block_size in Ed. destruct (explicit_block_size S 0) as [b| |]; cbn [obind] in Ed; try discriminate.
        destruct (bsMax <? b); [discriminate|]. destruct (remaining <? b); [discriminate|]. inversion Ed; reflexivity. }
      destruct (copy_explicit cfg ers bs S rep pos) as [[rest br]| |] eqn:Ec; cbn [obind fst snd]; try discriminate.
      2:{ exfalso. exact (copy_explicit_safe _ _ _ _ _ _ Hc H32 Hebs _ Ec). }
      destruct (copy_explicit_rule _ _ _ _ _ _ _ _ Hf Hv (proj1 (proj2 (proj2 (proj2 Hc)))) Ec) as (_ & R2 & R3).
      pose proof (copy_explicit_suffix _ _ _ _ _ _ _ _ _ Ec H32) as H32'.
      rewrite R3, N.sub_0_r.
      destruct (bs <? TINY).
      * match goal with |- context [cs_loop ?a ?b ?c ?d ?e ?g ?h ?i ?j ?k ?l] =>
          destruct (cs_loop a b c d e g h i j k l) as [rest'| |] eqn:Er end; cbn [obind]; try discriminate.
        exfalso. refine (IH _ _ _ _ _ _ Hf Hv Hw Hb Hsrc _ H32' _ Er). rewrite R2. lia.
      * destruct (bs =? remaining); [discriminate|].
        match goal with |- context [cs_loop ?a ?b ?c ?d ?e ?g ?h ?i ?j ?k ?l] =>
          destruct (cs_loop a b c d e g h i j k l) as [rest'| |] eqn:Er end; cbn [obind]; try discriminate.
        exfalso. refine (IH _ _ _ _ _ _ Hf Hv Hw Hb Hsrc _ H32' _ Er). rewrite R2. lia.
    + destruct (copy_no_delim cfg bs S pis rep pos) as [[[rest pis'] br]| |] eqn:Ec; cbn [obind]; try discriminate.
      2:{ exfalso. exact (copy_no_delim_safe _ _ _ _ _ _ Hc _ Ec). }
      destruct (copy_no_delim_rule _ _ _ _ _ _ _ _ _ Hf Hv (proj1 (proj2 (proj2 (proj2 Hc)))) Ec) as (_ & R2 & R3).
      pose proof (copy_no_delim_suffix _ _ _ _ _ _ _ _ _ _ Ec H32) as H32'.
      destruct (bs - r_adj br <? TINY).
      * match goal with |- context [cs_loop ?a ?b ?c ?d ?e ?g ?h ?i ?j ?k ?l] =>
          destruct (cs_loop a b c d e g h i j k l) as [rest'| |] eqn:Er end; cbn [obind]; try discriminate.
        exfalso. refine (IH _ _ _ _ _ _ Hf Hv Hw Hb Hsrc _ H32' _ Er). rewrite R2. lia.
      * destruct (bs =? remaining); [discriminate|].
        match goal with |- context [cs_loop ?a ?b ?c ?d ?e ?g ?h ?i ?j ?k ?l] =>
          destruct (cs_loop a b c d e g h i j k l) as [rest'| |] eqn:Er end; cbn [obind]; try discriminate.
        exfalso. refine (IH _ _ _ _ _ _ Hf Hv Hw Hb Hsrc _ H32' _ Er). rewrite R2. lia.
Qed.

(* With validation on, the repaired copiers never read or write outside the block or the sequence array, whatever the
   sequence array contains (32-bit fields), for sources below 4 GiB. *)
Theorem validation_memory_safe cfg delims ers bsMax srcSize S rep dec :
  g_fixed cfg = true -> g_validate cfg = true -> g_wlog cfg <= 31 -> bsMax < M32 ->
  srcSize + g_dict cfg + 3 < M32 -> fields32 S ->
  forall site, compress_sequences cfg delims ers bsMax srcSize S rep dec <> Oob site.
Proof.
  intros Hf Hv Hw Hb Hs H32 site. unfold compress_sequences.
  refine (cs_loop_safe cfg delims ers bsMax srcSize _ S 0 0 srcSize rep dec Hf Hv Hw Hb Hs _ H32 site). lia.
Qed.
