(* C17 - proofs about the sequence-API model (coq/Seq/SeqApi.v). *)
From Coq Require Import NArith ZArith List Bool Lia.
From ZV.Codec Require Import Bytes Block.
From ZV.Seq Require Import SeqApi SeqSpec.
Import ListNotations.
Local Open Scope N_scope.

Ltac Zify.zify_post_hook ::= Z.div_mod_to_equations.

(* ---------- 32-bit arithmetic without wrap-around ---------- *)
Lemma add32_small a b : a + b < M32 -> add32 a b = a + b.
Proof. intros. unfold add32. apply N.mod_small; assumption. Qed.

Lemma sub32_small a b : b <= a -> a < M32 -> sub32 a b = a - b.
Proof.
  intros Hb Ha. unfold sub32.
  assert (Hbm : b mod M32 = b) by (apply N.mod_small; lia). rewrite Hbm.
  replace (a + M32 - b) with ((a - b) + 1 * M32) by lia.
  rewrite N.mod_add by (unfold M32; lia). apply N.mod_small. lia.
Qed.

Lemma rep_index_vals :
  rep_index 1 false = 0 /\ rep_index 2 false = 1 /\ rep_index 3 false = 2 /\
  rep_index 1 true = 1 /\ rep_index 2 true = 2 /\ rep_index 3 true = 3.
Proof. repeat split; vm_compute; reflexivity. Qed.

(* ---------- repcode lock-step : one sequence ---------- *)
Lemma finalize_lockstep raw ll rep :
  rep_ok rep -> 1 <= raw -> raw + 3 < M32 ->
  let ob := finalize_offbase raw rep (ll =? 0) in
  resolve_offset ob ll rep = Ok (raw, update_rep rep ob (ll =? 0)) /\ rep_ok (update_rep rep ob (ll =? 0)) /\ 1 <= ob.
Proof.
  destruct rep as [[r0 r1] r2]. unfold rep_ok. intros (H0 & H1 & H2) Hr Hb. cbv zeta.
  destruct rep_index_vals as (I1 & I2 & I3 & I4 & I5 & I6).
  unfold finalize_offbase, update_rep, resolve_offset.
  assert (Hs : sub32 r0 1 = r0 - 1) by (apply sub32_small; lia).
  assert (Ha : add32 raw 3 = raw + 3) by (apply add32_small; lia).
  rewrite Hs, Ha.
  destruct (ll =? 0) eqn:El; cbn [negb andb]; rewrite ?I1, ?I2, ?I3, ?I4, ?I5, ?I6.
  - (* ll = 0 *)
    destruct (raw =? r1) eqn:E1.
    + apply N.eqb_eq in E1; subst. cbn. repeat split; lia.
    + destruct (raw =? r2) eqn:E2.
      * apply N.eqb_eq in E2; subst. cbn. repeat split; lia.
      * destruct (raw =? r0 - 1) eqn:E3.
        -- apply N.eqb_eq in E3. cbn.
           assert (Hlt : (1 <? r0) = true) by (apply N.ltb_lt; lia). rewrite Hlt. cbn. subst raw.
           repeat split; lia.
        -- assert (Hgt : (3 <? raw + 3) = true) by (apply N.ltb_lt; lia). rewrite Hgt.
           replace (raw + 3 - 3) with raw by lia. repeat split; lia.
  - (* ll <> 0 *)
    destruct (raw =? r0) eqn:E0.
    + apply N.eqb_eq in E0; subst. cbn. repeat split; lia.
    + destruct (raw =? r1) eqn:E1.
      * apply N.eqb_eq in E1; subst. cbn. repeat split; lia.
      * destruct (raw =? r2) eqn:E2.
        -- apply N.eqb_eq in E2; subst. cbn. repeat split; lia.
        -- assert (Hgt : (3 <? raw + 3) = true) by (apply N.ltb_lt; lia). rewrite Hgt.
           replace (raw + 3 - 3) with raw by lia. repeat split; lia.
Qed.

(* ---------- store_seq : what a successful store tells ---------- *)
Lemma store_tail_done cfg ers bsz raw ll ml pos' st st' :
  store_tail cfg ers bsz raw ll ml pos' st = Done st' ->
  k_ip st' = k_ip st + add32 ml ll /\
  k_cnt st' = k_cnt st /\
  k_ip st + ll <= bsz /\
  k_cnt st < g_maxNbSeq cfg /\
  k_rep st' = snd (code_offset ers raw ll (k_rep st)) /\
  k_acc st' = {| t_ll := ll; t_ml := ml; t_ob := fst (code_offset ers raw ll (k_rep st)); t_raw := raw |} :: k_acc st /\
  k_pos st' = pos'.
Proof.
  unfold store_tail. destruct (code_offset ers raw ll (k_rep st)) as [ob rep'] eqn:Ec. cbn [fst snd].
  destruct (ers && (ob =? 0) && negb (ll =? 0)); [discriminate|].
  destruct (g_maxNbSeq cfg <=? k_cnt st) eqn:Em; [discriminate|].
  destruct (bsz <? k_ip st + ll) eqn:Eb; [discriminate|].
  intros H; inversion H; subst; cbn.
  apply N.leb_gt in Em. apply N.ltb_ge in Eb. repeat split; auto.
Qed.

Lemma store_seq_tail cfg ers bsz raw ll ml st st' :
  store_seq cfg ers bsz raw ll ml st = Done st' ->
  exists pos', store_tail cfg ers bsz raw ll ml pos' st = Done st'.
Proof.
  unfold store_seq. destruct (g_fixed cfg).
  - destruct ((k_ip st <=? bsz) && (bsz - k_ip st <? ll + ml)); [discriminate|].
    destruct (g_validate cfg && negb (validate_fixed cfg raw ml (k_pos st + ll))); [discriminate|].
    intros H; eexists; exact H.
  - destruct (code_offset ers raw ll (k_rep st)) as [ob rep'].
    destruct (ers && (ob =? 0) && negb (ll =? 0)); [discriminate|].
    match goal with |- context [if ?c then Invalid 1 else _] => destruct c end; [discriminate|].
    intros H; eexists; exact H.
Qed.

Lemma store_seq_done cfg ers bsz raw ll ml st st' :
  store_seq cfg ers bsz raw ll ml st = Done st' ->
  k_ip st' = k_ip st + add32 ml ll /\
  k_cnt st' = k_cnt st /\
  k_ip st + ll <= bsz /\
  k_cnt st < g_maxNbSeq cfg /\
  k_rep st' = snd (code_offset ers raw ll (k_rep st)) /\
  k_acc st' = {| t_ll := ll; t_ml := ml; t_ob := fst (code_offset ers raw ll (k_rep st)); t_raw := raw |} :: k_acc st.
Proof.
  intros H. destruct (store_seq_tail _ _ _ _ _ _ _ _ H) as [pos' Ht].
  apply store_tail_done in Ht. tauto.
Qed.

(* repaired variant: the three tests that precede the store *)
Lemma store_seq_fixed_done cfg ers bsz raw ll ml st st' :
  g_fixed cfg = true ->
  store_seq cfg ers bsz raw ll ml st = Done st' ->
  (k_ip st <= bsz -> ll + ml <= bsz - k_ip st) /\
  (g_validate cfg = true -> validate_fixed cfg raw ml (k_pos st + ll) = true /\ k_pos st' = k_pos st + ll + ml) /\
  (g_validate cfg = false -> k_pos st' = k_pos st).
Proof.
  unfold store_seq. intros Hf. rewrite Hf.
  destruct ((k_ip st <=? bsz) && (bsz - k_ip st <? ll + ml)) eqn:E1; [discriminate|].
  destruct (g_validate cfg) eqn:Ev; cbn [andb].
  - destruct (validate_fixed cfg raw ml (k_pos st + ll)) eqn:E2; cbn [negb]; [|discriminate].
    intros H. apply store_tail_done in H. destruct H as (_ & _ & _ & _ & _ & _ & Hp).
    repeat split; auto; try discriminate.
    intros Hle. apply andb_false_iff in E1. destruct E1 as [E1|E1].
    + apply N.leb_gt in E1. lia.
    + apply N.ltb_ge in E1. exact E1.
  - intros H. apply store_tail_done in H. destruct H as (_ & _ & _ & _ & _ & _ & Hp).
    repeat split; auto; try discriminate.
    intros Hle. apply andb_false_iff in E1. destruct E1 as [E1|E1].
    + apply N.leb_gt in E1. lia.
    + apply N.ltb_ge in E1. exact E1.
Qed.

(* ---------- decoder view of an accumulated seqStore (newest first) ---------- *)
Inductive dec_rel (rep0 : reps) : list sseq -> reps -> Prop :=
  | dec_nil : dec_rel rep0 [] rep0
  | dec_cons acc rep t rep' :
      dec_rel rep0 acc rep -> resolve_offset (t_ob t) (t_ll t) rep = Ok (t_raw t, rep') -> dec_rel rep0 (t :: acc) rep'.

Lemma decode_offsets_app rep a b offs1 rep1 offs2 rep2 :
  decode_offsets rep a = Ok (offs1, rep1) -> decode_offsets rep1 b = Ok (offs2, rep2) ->
  decode_offsets rep (a ++ b) = Ok (offs1 ++ offs2, rep2).
Proof.
  revert rep offs1 rep1. induction a as [|t a IH]; intros rep offs1 rep1 Ha Hb.
  - cbn in Ha. inversion Ha; subst. exact Hb.
  - cbn in Ha |- *. destruct (resolve_offset (t_ob t) (t_ll t) rep) as [[o r']|] eqn:Er; cbn in Ha |- *; [|discriminate].
    destruct (decode_offsets r' a) as [[os r'']|] eqn:Ed; cbn in Ha; [|discriminate].
    inversion Ha; subst. rewrite (IH _ _ _ Ed Hb). reflexivity.
Qed.

Lemma dec_rel_decode rep0 acc rep :
  dec_rel rep0 acc rep -> decode_offsets rep0 (rev acc) = Ok (map t_raw (rev acc), rep).
Proof.
  induction 1 as [|acc rep t rep' H IH Hr].
  - reflexivity.
  - cbn [rev]. rewrite map_app. eapply decode_offsets_app; [exact IH|].
    cbn. rewrite Hr. reflexivity.
Qed.

Lemma rev'_rev {A} (l : list A) : rev' l = rev l.
Proof. unfold rev'. rewrite <- rev_alt. reflexivity. Qed.

(* one store keeps the decoder in step (repcode search on) *)
Lemma store_seq_lockstep_ers cfg bsz raw ll ml st st' rep0 :
  store_seq cfg true bsz raw ll ml st = Done st' ->
  rep_ok (k_rep st) -> 1 <= raw -> raw + 3 < M32 ->
  dec_rel rep0 (k_acc st) (k_rep st) ->
  dec_rel rep0 (k_acc st') (k_rep st') /\ rep_ok (k_rep st').
Proof.
  intros Hs Hr H1 H2 Hd. apply store_seq_done in Hs.
  destruct Hs as (_ & _ & _ & _ & Hrep & Hacc).
  unfold code_offset in Hrep, Hacc. cbn [fst snd] in Hrep, Hacc.
  destruct (finalize_lockstep raw ll (k_rep st) Hr H1 H2) as (Hres & Hok & _).
  rewrite Hacc, Hrep. split; [|exact Hok].
  eapply dec_cons; [exact Hd|]. cbn. exact Hres.
Qed.

Local Arguments store_seq : simpl never.
Local Arguments bump : simpl never.

(* ---------- explicit-delimiter copier : lock-step ---------- *)
Lemma bump_fields st : k_acc (bump st) = k_acc st /\ k_rep (bump st) = k_rep st /\ k_ip (bump st) = k_ip st /\
                        k_pos (bump st) = k_pos st /\ k_cnt (bump st) = k_cnt st + 1.
Proof. unfold bump; cbn; auto. Qed.

Lemma off_ok_nondelim s : off_ok s -> is_delim s = false -> 1 <= q_off s /\ q_off s + 3 < M32.
Proof. intros [H|H] Hd; [congruence|exact H]. Qed.

Lemma ex_loop_lockstep_ers cfg bsz rep0 S : forall st offs rest st' offs',
  ex_loop cfg true bsz S st offs = Done (rest, st', offs') ->
  Forall off_ok S -> rep_ok (k_rep st) -> dec_rel rep0 (k_acc st) (k_rep st) ->
  dec_rel rep0 (k_acc st') (k_rep st') /\ rep_ok (k_rep st').
Proof.
  induction S as [|s S IH]; intros st offs rest st' offs' H HF Hr Hd.
  - cbn in H. inversion H; subst. auto.
  - cbn in H. destruct (is_delim s) eqn:Ed.
    + inversion H; subst. auto.
    + destruct (store_seq cfg true bsz (q_off s) (q_ll s) (q_ml s) st) as [st1| |] eqn:Es; cbn in H; try discriminate.
      inversion HF as [|? ? Hs HF']; subst.
      destruct (off_ok_nondelim _ Hs Ed) as [H1 H2].
      destruct (store_seq_lockstep_ers _ _ _ _ _ _ _ rep0 Es Hr H1 H2 Hd) as [Hd1 Hr1].
      eapply IH; [exact H|exact HF'| |]; destruct (bump_fields st1) as (Ea & Er & _); rewrite ?Ea, ?Er; assumption.
Qed.

Lemma resolve_real_offset raw ll rep :
  1 <= raw -> raw + 3 < M32 ->
  resolve_offset (add32 raw 3) ll rep = Ok (raw, (raw, fst (fst rep), snd (fst rep))).
Proof.
  intros H1 H2. destruct rep as [[r0 r1] r2]. unfold resolve_offset.
  rewrite add32_small by lia.
  assert (Hgt : (3 <? raw + 3) = true) by (apply N.ltb_lt; lia). rewrite Hgt.
  replace (raw + 3 - 3) with raw by lia. reflexivity.
Qed.

Lemma rebuild_rep_push rep0 raw offs :
  rebuild_rep rep0 (raw :: offs) =
  (raw, fst (fst (rebuild_rep rep0 offs)), snd (fst (rebuild_rep rep0 offs))).
Proof.
  destruct rep0 as [[r0 r1] r2].
  destruct offs as [|a [|b [|c offs]]]; reflexivity.
Qed.

Definition offs_ok (offs : list N) : Prop := Forall (fun o => 1 <= o /\ o + 3 < M32) offs.

Lemma rebuild_rep_ok rep0 offs : rep_ok rep0 -> offs_ok offs -> rep_ok (rebuild_rep rep0 offs).
Proof.
  destruct rep0 as [[r0 r1] r2]. unfold rep_ok, offs_ok. intros (H0 & H1 & H2) HF.
  destruct offs as [|a [|b [|c offs]]]; cbn.
  - auto.
  - inversion HF; subst. repeat split; try lia.
  - inversion HF as [|? ? Ha HF1]; subst. inversion HF1; subst. repeat split; try lia.
  - inversion HF as [|? ? Ha HF1]; subst. inversion HF1 as [|? ? Hb HF2]; subst. inversion HF2; subst. repeat split; try lia.
Qed.

Lemma ex_loop_lockstep_noers cfg bsz rep0 S : forall st offs rest st' offs',
  ex_loop cfg false bsz S st offs = Done (rest, st', offs') ->
  Forall off_ok S -> offs_ok offs -> k_rep st = rep0 ->
  dec_rel rep0 (k_acc st) (rebuild_rep rep0 offs) ->
  dec_rel rep0 (k_acc st') (rebuild_rep rep0 offs') /\ offs_ok offs' /\ k_rep st' = rep0.
Proof.
  induction S as [|s S IH]; intros st offs rest st' offs' H HF Ho Hk Hd.
  - cbn in H. inversion H; subst. auto.
  - cbn in H. destruct (is_delim s) eqn:Ed.
    + inversion H; subst. auto.
    + destruct (store_seq cfg false bsz (q_off s) (q_ll s) (q_ml s) st) as [st1| |] eqn:Es; cbn in H; try discriminate.
      inversion HF as [|? ? Hs HF']; subst.
      destruct (off_ok_nondelim _ Hs Ed) as [H1 H2].
      apply store_seq_done in Es. destruct Es as (_ & _ & _ & _ & Hrep & Hacc).
      unfold code_offset in Hrep, Hacc; cbn [fst snd] in Hrep, Hacc.
      destruct (bump_fields st1) as (Ea & Er & _).
      eapply IH; [exact H|exact HF'| | |].
      * constructor; [split; assumption|exact Ho].
      * rewrite Er, Hrep. reflexivity.
      * rewrite Ea, Hacc. eapply dec_cons; [exact Hd|]. cbn.
        rewrite resolve_real_offset by assumption. rewrite rebuild_rep_push. reflexivity.
Qed.

Lemma copy_explicit_lockstep cfg ers bsz S rep pos rest br :
  copy_explicit cfg ers bsz S rep pos = Done (rest, br) ->
  Forall off_ok S -> rep_ok rep ->
  decode_offsets rep (r_seqs br) = Ok (map t_raw (r_seqs br), r_rep br) /\ rep_ok (r_rep br).
Proof.
  unfold copy_explicit. intros H HF Hr.
  destruct (ex_loop cfg ers bsz S {| k_rep := rep; k_pos := pos; k_ip := 0; k_cnt := 0; k_acc := [] |} [])
    as [[[rest0 st] offs]| |] eqn:El; cbn in H; try discriminate.
  destruct rest0 as [|d rest']; [discriminate|].
  destruct (negb (q_ll d =? 0) && (bsz <? k_ip st + q_ll d)); [discriminate|].
  destruct (negb (k_ip st + q_ll d =? bsz)); [discriminate|].
  inversion H; subst; cbn. rewrite rev'_rev.
  destruct ers.
  - destruct (ex_loop_lockstep_ers _ _ rep _ _ _ _ _ _ El HF Hr (dec_nil rep)) as [Hd Hk].
    split; [apply dec_rel_decode; exact Hd|exact Hk].
  - destruct (ex_loop_lockstep_noers _ _ rep _ _ _ _ _ _ El HF (Forall_nil _) eq_refl) as (Hd & Ho & _).
    { cbn. destruct rep as [[? ?] ?]. apply dec_nil. }
    split; [apply dec_rel_decode; exact Hd|apply rebuild_rep_ok; assumption].
Qed.

(* ---------- delimiter-free copier : lock-step ---------- *)
Definition offs_in_range (S : list zseq) : Prop := Forall (fun s => 1 <= q_off s /\ q_off s + 3 < M32) S.

Lemma nd_loop_lockstep cfg bsz rep0 S : forall startp endp st rest pis adj st',
  nd_loop cfg bsz S startp endp st = Done (rest, pis, adj, st') ->
  offs_in_range S -> rep_ok (k_rep st) -> dec_rel rep0 (k_acc st) (k_rep st) ->
  dec_rel rep0 (k_acc st') (k_rep st') /\ rep_ok (k_rep st').
Proof.
  induction S as [|s S IH]; intros startp endp st rest pis adj st' H HF Hr Hd.
  - cbn in H. inversion H; subst. auto.
  - cbn [nd_loop] in H. inversion HF as [|? ? [H1 H2] HF']; subst.
    destruct (endp =? 0); [inversion H; subst; auto|].
    destruct (add32 (q_ll s) (q_ml s) <=? endp).
    + destruct (if q_ll s <=? startp then (0, sub32 (q_ml s) (sub32 startp (q_ll s))) else (sub32 (q_ll s) startp, q_ml s)) as [ll' ml'].
      destruct (store_seq cfg true bsz (q_off s) ll' ml' st) as [st1| |] eqn:Es; cbn [obind] in H; try discriminate.
      destruct (store_seq_lockstep_ers _ _ _ _ _ _ _ rep0 Es Hr H1 H2 Hd) as [Hd1 Hr1].
      destruct (bump_fields st1) as (Ea & Er & _).
      eapply IH; [exact H|exact HF'| |]; rewrite ?Ea, ?Er; assumption.
    + destruct (q_ll s <? endp).
      * destruct ((bsz <? q_ml s) && (g_minMatch cfg <=? sub32 (sub32 endp startp) (if q_ll s <=? startp then 0 else sub32 (q_ll s) startp))).
        -- match type of H with context [store_seq ?c ?e ?b ?r ?l ?m ?t] =>
             destruct (store_seq c e b r l m t) as [st1| |] eqn:Es end; cbn [obind] in H; try discriminate.
           inversion H; subst.
           exact (store_seq_lockstep_ers _ _ _ _ _ _ _ rep0 Es Hr H1 H2 Hd).
        -- inversion H; subst; auto.
      * inversion H; subst; auto.
Qed.

Lemma copy_no_delim_lockstep cfg bsz S pis rep pos rest pis' br :
  copy_no_delim cfg bsz S pis rep pos = Done (rest, pis', br) ->
  offs_in_range S -> rep_ok rep ->
  decode_offsets rep (r_seqs br) = Ok (map t_raw (r_seqs br), r_rep br) /\ rep_ok (r_rep br).
Proof.
  unfold copy_no_delim. intros H HF Hr.
  match type of H with context [nd_loop ?a ?b ?c ?d ?e ?f] => destruct (nd_loop a b c d e f) as [[[[rest0 p0] adj] st]| |] eqn:El end;
    cbn [obind] in H; try discriminate.
  destruct (bsz <? adj); [discriminate|]. destruct (bsz - adj <? k_ip st); [discriminate|].
  inversion H; subst; cbn. rewrite rev'_rev.
  destruct (nd_loop_lockstep _ _ rep _ _ _ _ _ _ _ _ El HF Hr (dec_nil rep)) as [Hd Hk].
  split; [apply dec_rel_decode; exact Hd|exact Hk].
Qed.

(* ---------- what is handed to the next block is a suffix of the list ---------- *)
Lemma ex_loop_suffix cfg ers bsz (P : zseq -> Prop) S : forall st offs rest st' offs',
  ex_loop cfg ers bsz S st offs = Done (rest, st', offs') -> Forall P S -> Forall P rest.
Proof.
  induction S as [|s S IH]; intros st offs rest st' offs' H HF.
  - cbn in H. inversion H; subst. constructor.
  - cbn [ex_loop] in H. destruct (is_delim s).
    + inversion H; subst. exact HF.
    + destruct (store_seq cfg ers bsz (q_off s) (q_ll s) (q_ml s) st) as [st1| |]; cbn [obind] in H; try discriminate.
      inversion HF; subst. eapply IH; eassumption.
Qed.

Lemma copy_explicit_suffix cfg ers bsz (P : zseq -> Prop) S rep pos rest br :
  copy_explicit cfg ers bsz S rep pos = Done (rest, br) -> Forall P S -> Forall P rest.
Proof.
  unfold copy_explicit. intros H HF.
  match type of H with context [ex_loop ?a ?b ?c ?d ?e ?f] => destruct (ex_loop a b c d e f) as [[[rest0 st] offs]| |] eqn:El end;
    cbn [obind] in H; try discriminate.
  destruct rest0 as [|d rest']; [discriminate|].
  destruct (negb (q_ll d =? 0) && (bsz <? k_ip st + q_ll d)); [discriminate|].
  destruct (negb (k_ip st + q_ll d =? bsz)); [discriminate|].
  inversion H; subst.
  pose proof (ex_loop_suffix _ _ _ P _ _ _ _ _ _ El HF) as HF'. inversion HF'; assumption.
Qed.

Lemma nd_loop_suffix cfg bsz (P : zseq -> Prop) S : forall startp endp st rest pis adj st',
  nd_loop cfg bsz S startp endp st = Done (rest, pis, adj, st') -> Forall P S -> Forall P rest.
Proof.
  induction S as [|s S IH]; intros startp endp st rest pis adj st' H HF.
  - cbn in H. inversion H; subst. constructor.
  - cbn [nd_loop] in H.
    destruct (endp =? 0); [inversion H; subst; exact HF|].
    destruct (add32 (q_ll s) (q_ml s) <=? endp).
    + destruct (if q_ll s <=? startp then (0, sub32 (q_ml s) (sub32 startp (q_ll s))) else (sub32 (q_ll s) startp, q_ml s)) as [ll' ml'].
      destruct (store_seq cfg true bsz (q_off s) ll' ml' st) as [st1| |]; cbn [obind] in H; try discriminate.
      inversion HF; subst. eapply IH; eassumption.
    + destruct (q_ll s <? endp).
      * destruct ((bsz <? q_ml s) && (g_minMatch cfg <=? sub32 (sub32 endp startp) (if q_ll s <=? startp then 0 else sub32 (q_ll s) startp))).
        -- match type of H with context [store_seq ?c ?e ?b ?r ?l ?m ?t] =>
             destruct (store_seq c e b r l m t) as [st1| |] end; cbn [obind] in H; try discriminate.
           inversion H; subst. exact HF.
        -- inversion H; subst; exact HF.
      * inversion H; subst; exact HF.
Qed.

Lemma copy_no_delim_suffix cfg bsz (P : zseq -> Prop) S pis rep pos rest pis' br :
  copy_no_delim cfg bsz S pis rep pos = Done (rest, pis', br) -> Forall P S -> Forall P rest.
Proof.
  unfold copy_no_delim. intros H HF.
  match type of H with context [nd_loop ?a ?b ?c ?d ?e ?f] => destruct (nd_loop a b c d e f) as [[[[rest0 p0] adj] st]| |] eqn:El end;
    cbn [obind] in H; try discriminate.
  destruct (bsz <? adj); [discriminate|]. destruct (bsz - adj <? k_ip st); [discriminate|].
  inversion H; subst. eapply nd_loop_suffix; eassumption.
Qed.

(* ---------- the block loop : lock-step for every list of commit decisions ---------- *)
Definition offsets_fit (delims : bool) (S : list zseq) : Prop :=
  if delims then Forall off_ok S else offs_in_range S.

Lemma cs_loop_lockstep cfg delims ers bsMax : forall fuel S pis pos remaining rep dec blks,
  cs_loop fuel cfg delims ers bsMax S pis pos remaining rep dec = Done blks ->
  offsets_fit delims S -> rep_ok rep -> blocks_lockstep rep dec blks.
Proof.
  induction fuel as [|f IH]; intros S pis pos remaining rep dec blks H HF Hr.
  - cbn in H. destruct (remaining =? 0); [|discriminate]. inversion H; subst. exact I.
  - cbn [cs_loop] in H. destruct (remaining =? 0); [inversion H; subst; exact I|].
    destruct (determine_block_size delims bsMax remaining S) as [bs| |]; cbn [obind] in H; try discriminate.
    destruct delims.
    + destruct (copy_explicit cfg ers bs S rep pos) as [[rest br]| |] eqn:Ec; cbn [obind fst snd] in H; try discriminate.
      destruct (copy_explicit_lockstep _ _ _ _ _ _ _ _ Ec HF Hr) as [Hdec Hrk].
      pose proof (copy_explicit_suffix _ _ _ _ _ _ _ _ _ Ec HF) as HF'.
      destruct (bs - r_adj br <? TINY).
      * match type of H with context [cs_loop ?a ?b ?c ?d ?e ?g ?h ?i ?j ?k ?l] =>
          destruct (cs_loop a b c d e g h i j k l) as [rest'| |] eqn:Er end; cbn [obind] in H; try discriminate.
        inversion H; subst. cbn. split; [reflexivity|]. eexists; split; [exact Hdec|].
        eapply IH; eassumption.
      * destruct (bs =? remaining).
        -- inversion H; subst. cbn. split; [reflexivity|]. eexists; split; [exact Hdec|exact I].
        -- match type of H with context [cs_loop ?a ?b ?c ?d ?e ?g ?h ?i ?j ?k ?l] =>
             destruct (cs_loop a b c d e g h i j k l) as [rest'| |] eqn:Er end; cbn [obind] in H; try discriminate.
           inversion H; subst. cbn. split; [reflexivity|]. eexists; split; [exact Hdec|].
           eapply IH; [exact Er|exact HF'|].
           destruct dec as [|[|] dec']; assumption.
    + destruct (copy_no_delim cfg bs S pis rep pos) as [[[rest pis'] br]| |] eqn:Ec; cbn [obind fst snd] in H; try discriminate.
      destruct (copy_no_delim_lockstep _ _ _ _ _ _ _ _ _ Ec HF Hr) as [Hdec Hrk].
      pose proof (copy_no_delim_suffix _ _ _ _ _ _ _ _ _ _ Ec HF) as HF'.
      destruct (bs - r_adj br <? TINY).
      * match type of H with context [cs_loop ?a ?b ?c ?d ?e ?g ?h ?i ?j ?k ?l] =>
          destruct (cs_loop a b c d e g h i j k l) as [rest'| |] eqn:Er end; cbn [obind] in H; try discriminate.
        inversion H; subst. cbn. split; [reflexivity|]. eexists; split; [exact Hdec|].
        eapply IH; eassumption.
      * destruct (bs =? remaining).
        -- inversion H; subst. cbn. split; [reflexivity|]. eexists; split; [exact Hdec|exact I].
        -- match type of H with context [cs_loop ?a ?b ?c ?d ?e ?g ?h ?i ?j ?k ?l] =>
             destruct (cs_loop a b c d e g h i j k l) as [rest'| |] eqn:Er end; cbn [obind] in H; try discriminate.
           inversion H; subst. cbn. split; [reflexivity|]. eexists; split; [exact Hdec|].
           eapply IH; [exact Er|exact HF'|].
           destruct dec as [|[|] dec']; assumption.
Qed.

Theorem offbase_finalisation_lockstep cfg delims ers bsMax srcSize S rep dec blks :
  compress_sequences cfg delims ers bsMax srcSize S rep dec = Done blks ->
  offsets_fit delims S -> rep_ok rep -> blocks_lockstep rep dec blks.
Proof. unfold compress_sequences. apply cs_loop_lockstep. Qed.
